// Package c39 checks property C39: every (destination client, sender, salt) triple maps to exactly one ICS-27 GMP
// account address, distinct triples never share an address and the mapping never changes once used; a GMP packet's
// messages execute, atomically, only if each has exactly one signer and that signer is this account; outgoing GMP
// packets are accepted only when the packet sender equals the transaction signer.
//
// Technique:
//
//	S  exhaustive enumeration of triples over a small byte alphabet, closed under the re-split family (one byte
//	   moved between adjacent components, so that the plain concatenations coincide), against the address
//	   derivation (types.BuildAddressPredictable) and the key codec of the keeper's Accounts map;
//	K  fault / position enumeration on a two-chain ksim world with IBC v2 counterparties: every message list up to
//	   a length bound over a small alphabet of message shapes is sent as a real GMP packet (MsgSendPacket on the
//	   source chain, commit, client update, MsgRecvPacket with a real proof on a fork of the same base world) and
//	   judged by the complete store diff of the destination chain and the acknowledgement against a reference
//	   written from the statement (authorisation predicate + sequential bank ledger); histories of repeated
//	   packets from several triples on one world; packets of a foreign (non-bech32) counterparty; outgoing sends.
package c39

import (
	"bytes"
	"crypto/sha256"
	"encoding/binary"
	"encoding/hex"
	"encoding/json"
	"fmt"
	"sort"
	"strconv"
	"strings"

	"github.com/cosmos/gogoproto/proto"

	"cosmossdk.io/collections"

	codectypes "github.com/cosmos/cosmos-sdk/codec/types"
	sdk "github.com/cosmos/cosmos-sdk/types"
	banktypes "github.com/cosmos/cosmos-sdk/x/bank/types"

	gmptypes "github.com/cosmos/ibc-go/v11/modules/apps/27-gmp/types"
	channeltypesv2 "github.com/cosmos/ibc-go/v11/modules/core/04-channel/v2/types"
	hostv2 "github.com/cosmos/ibc-go/v11/modules/core/24-host/v2"

	"verif/harness/core"
	"verif/harness/ksim"
	"verif/harness/props/icaworld"
)

func init() { core.Register("C39", "exploration", run) }

const (
	chA = 0 // first source chain (packet senders live here)
	chB = 1 // destination chain (GMP accounts live here)
	chC = 2 // second source chain: same client id for its client of B as chain A, same sender strings
)

// ---- triples -----------------------------------------------------------------------------------

// Triple is one account identifier.
type Triple struct {
	Client string `json:"client"`
	Sender string `json:"sender"`
	Salt   []byte `json:"salt"`
}

// gokey is a Go-side injective encoding of a triple (decimal lengths, independent of the implementation).
func (t Triple) gokey() string {
	return fmt.Sprintf("%d:%s|%d:%s|%d:%s", len(t.Client), t.Client, len(t.Sender), t.Sender, len(t.Salt), t.Salt)
}

func (t Triple) concat() string { return t.Client + t.Sender + string(t.Salt) }

func (t Triple) String() string {
	return fmt.Sprintf("(%s, %s, %s)", strconv.QuoteToASCII(t.Client), strconv.QuoteToASCII(t.Sender), strconv.QuoteToASCII(string(t.Salt)))
}

func (t Triple) id() *gmptypes.AccountIdentifier {
	a := gmptypes.NewAccountIdentifier(t.Client, t.Sender, t.Salt)
	return &a
}

// refAddress is the derivation documented on BuildAddressPredictable, written out with sha256 only:
// ADR-028 module address of "gmp-accounts" with derivation key len(client)|client|len(sender)|sender|len(salt)|salt
// (8-byte big-endian lengths).
func refAddress(t Triple) []byte {
	lp := func(b []byte) []byte {
		var l [8]byte
		binary.BigEndian.PutUint64(l[:], uint64(len(b)))
		return append(l[:], b...)
	}
	th := sha256.Sum256([]byte("module"))
	h := sha256.New()
	h.Write(th[:])
	h.Write([]byte("gmp-accounts"))
	h.Write([]byte{0})
	h.Write(lp([]byte(t.Client)))
	h.Write(lp([]byte(t.Sender)))
	h.Write(lp(t.Salt))
	return h.Sum(nil)
}

var sAlphabet = []string{"a", "b", "\x00", "/"}

var sClients = []string{"07-tendermint-0", "07-tendermint-00", "07-tendermint-1", "channel-0", "channel-00", "08-wasm-0"}

// resplits returns the triples obtained by moving one byte across one of the two component boundaries.
func resplits(t Triple) []Triple {
	var out []Triple
	salt := string(t.Salt)
	if n := len(t.Client); n > 0 {
		out = append(out, Triple{t.Client[:n-1], t.Client[n-1:] + t.Sender, t.Salt})
	}
	if len(t.Sender) > 0 {
		out = append(out, Triple{t.Client + t.Sender[:1], t.Sender[1:], t.Salt})
		n := len(t.Sender)
		out = append(out, Triple{t.Client, t.Sender[:n-1], []byte(t.Sender[n-1:] + salt)})
	}
	if len(salt) > 0 {
		out = append(out, Triple{t.Client, t.Sender + salt[:1], []byte(salt[1:])})
	}
	return out
}

type sStats struct {
	evals, accepted, rejected, nontrivial int
	codecOK, codecRejected                int
}

// runS is the S part. kc is the key codec of the keeper's Accounts map, prefix its collection prefix.
func runS(c *core.C, f *fixture) sStats {
	var st sStats
	kc := f.w.W.Chains[chB].App.GMPKeeper.Accounts.KeyCodec()
	prefix := gmptypes.AccountsKey.Bytes()
	maxSender, maxSalt := core.Pick(c, 3, 4), 3
	senders := core.AllStrings(sAlphabet, maxSender)
	salts := core.AllStrings(sAlphabet, maxSalt)
	c.Set("s_alphabet", []string{"a", "b", "\\x00", "/"})
	c.Set("s_clients", sClients)
	c.Set("s_max_len", map[string]int{"sender": maxSender, "salt": maxSalt})

	seen := map[string]bool{}       // gokey
	byAddr := map[string]Triple{}   // address -> first triple
	byKey := map[string]Triple{}    // encoded store key -> first triple
	concatCount := map[string]int{} // plain concatenation -> number of accepted triples
	addrOf := map[string][]byte{}   // gokey -> address (stability re-check at the end)
	var order []Triple              // accepted triples in evaluation order
	var sampled bool                // evidence sample taken
	formulaViol := 0

	evalOne := func(t Triple) {
		k := t.gokey()
		if seen[k] {
			return
		}
		seen[k] = true
		st.evals++
		a1, err1 := gmptypes.BuildAddressPredictable(t.id())
		a2, err2 := gmptypes.BuildAddressPredictable(t.id())
		if (err1 == nil) != (err2 == nil) || !bytes.Equal(a1, a2) {
			c.Violation("unstable/"+t.String(), fmt.Sprintf("two calls for %s returned %x (%v) and %x (%v)", t, a1, err1, a2, err2), t)
		}
		if err1 != nil {
			st.rejected++
			switch {
			case strings.TrimSpace(t.Sender) == "":
				c.Hist("s_rejections", "blank sender")
			default:
				c.Hist("s_rejections", "client identifier")
			}
		} else {
			st.accepted++
			if len(a1) != gmptypes.AccountAddrLen {
				c.Violation("address-length/"+t.String(), fmt.Sprintf("address of %s has %d bytes", t, len(a1)), t)
			}
			if prev, dup := byAddr[string(a1)]; dup {
				c.Violation("collision/"+prev.String()+"~"+t.String(), fmt.Sprintf("distinct triples %s and %s derive the same address %x", prev, t, []byte(a1)), []Triple{prev, t})
			} else {
				byAddr[string(a1)] = t
			}
			if want := refAddress(t); !bytes.Equal(a1, want) && formulaViol < 3 {
				formulaViol++ // a deviating formula deviates for (almost) every triple: three witnesses are enough
				c.Violation("derivation-formula/"+t.String(), fmt.Sprintf("address of %s is %x, the documented derivation (length-prefixed client|sender|salt under the gmp-accounts module address) gives %x", t, []byte(a1), want), t)
			}
			concatCount[t.concat()]++
			addrOf[k] = a1
			order = append(order, t)
			if !sampled && len(t.Salt) > 0 && len(t.Sender) > 1 {
				sampled = true
				c.Sample(map[string]any{"part": "S", "triple": t.String(), "address": hex.EncodeToString(a1)})
			}
		}
		// key codec of the Accounts map: injective or rejecting, independent of whether the derivation accepts
		key := collections.Join3(t.Client, t.Sender, t.Salt)
		var enc []byte
		var encErr error
		if p := core.Catch(func() { enc, encErr = collections.EncodeKeyWithPrefix(prefix, kc, key) }); p != "" {
			c.Violation("codec-panic/"+t.String(), fmt.Sprintf("key codec panicked for %s: %s", t, p), t)
			return
		}
		if encErr != nil {
			st.codecRejected++
			return
		}
		st.codecOK++
		if prev, dup := byKey[string(enc)]; dup {
			c.Violation("codec-collision/"+prev.String()+"~"+t.String(), fmt.Sprintf("distinct triples %s and %s encode to the same store key %x", prev, t, enc), []Triple{prev, t})
		} else {
			byKey[string(enc)] = t
		}
		if _, back, err := kc.Decode(enc[len(prefix):]); err != nil || back.K1() != t.Client || back.K2() != t.Sender || !bytes.Equal(back.K3(), t.Salt) {
			c.Violation("codec-roundtrip/"+t.String(), fmt.Sprintf("store key of %s decodes to (%q, %q, %q) err=%v", t, back.K1(), back.K2(), back.K3(), err), t)
		}
	}

	for _, cl := range sClients {
		for _, s := range senders {
			for _, sa := range salts {
				t := Triple{cl, s, []byte(sa)}
				evalOne(t)
				for _, r := range resplits(t) {
					evalOne(r)
				}
			}
		}
		if c.TimeUp() || c.Violations() > 10 {
			break
		}
	}
	// stability across the whole run: re-derive every accepted triple in reverse order
	for i := len(order) - 1; i >= 0; i-- {
		t := order[i]
		a, err := gmptypes.BuildAddressPredictable(t.id())
		if err != nil || !bytes.Equal(a, addrOf[t.gokey()]) {
			c.Violation("unstable/"+t.String(), fmt.Sprintf("re-deriving %s later gives %x (%v), first %x", t, []byte(a), err, addrOf[t.gokey()]), t)
		}
	}
	// non-trivial: accepted triples whose plain concatenation coincides with that of another accepted triple
	classes := 0
	for _, n := range concatCount {
		if n >= 2 {
			st.nontrivial += n
			classes++
		}
	}
	c.Set("s_triples", st.evals)
	c.Set("s_accepted", st.accepted)
	c.Set("s_rejected", st.rejected)
	c.Set("s_distinct_addresses", len(byAddr))
	c.Set("s_concatenation_classes_with_several_triples", classes)
	c.Set("s_triples_in_such_classes", st.nontrivial)
	c.Set("s_codec_encoded", st.codecOK)
	c.Set("s_codec_rejected", st.codecRejected)
	return st
}

// ---- K world -----------------------------------------------------------------------------------

const (
	funds   = 100
	sendAmt = 40
	multi   = 10
	failAmt = 1000
)

type fixture struct {
	w       *ksim.World
	link    *ksim.Link        // A <-> B
	link2   *ksim.Link        // C <-> B
	senders [2]sdk.AccAddress // packet senders (the same strings are used on A and on C)
	// triples 0..2 arrive over link (from A): (B's client of A, sender0, s1), (.., sender0, s2), (.., sender1, s1);
	// triple 3 arrives over link2 (from C): (B's client of C, sender0, s1) — same sender and salt as triple 0
	triples  [nGMP]Triple
	addrs    [nGMP]sdk.AccAddress // their accounts on B (derived from the DESTINATION client before first use, funded)
	src      [nGMP]int            // source chain of the triple
	links    [nGMP]*ksim.Link
	vic, r1  sdk.AccAddress
	srcKeyed sdk.AccAddress
	all      []string
}

func build(c *core.C) *fixture {
	wk := ksim.NewWorker(c.T, 3)
	w := wk.Root()
	icaworld.FixHeaders(w)
	f := &fixture{w: w}
	// client identifiers are asymmetric: B first creates an unused client, so that B's clients of A and of C are
	// 07-tendermint-1 and 07-tendermint-2 while A and C BOTH call their client of B 07-tendermint-0
	_, dr := w.CreateClient(chB, chA)
	ksim.MustOK("dummy client on B", dr)
	f.link = w.SetupClients(chA, chB)
	f.link2 = w.SetupClients(chC, chB)
	w.RegisterCounterparties(f.link)
	w.RegisterCounterparties(f.link2)
	if f.link.ClientA != f.link2.ClientA || f.link.ClientB == f.link2.ClientB || f.link.ClientA == f.link.ClientB || f.link2.ClientA == f.link2.ClientB {
		panic(fmt.Sprintf("client identifiers not laid out as intended: A:%s<->B:%s, C:%s<->B:%s", f.link.ClientA, f.link.ClientB, f.link2.ClientA, f.link2.ClientB))
	}
	f.senders = [2]sdk.AccAddress{icaworld.Addr("gmp-sender-0"), icaworld.Addr("gmp-sender-1")}
	f.triples = [nGMP]Triple{
		{f.link.ClientB, f.senders[0].String(), []byte("s1")},
		{f.link.ClientB, f.senders[0].String(), []byte("s2")},
		{f.link.ClientB, f.senders[1].String(), []byte("s1")},
		{f.link2.ClientB, f.senders[0].String(), []byte("s1")},
	}
	f.src = [nGMP]int{chA, chA, chA, chC}
	f.links = [nGMP]*ksim.Link{f.link, f.link, f.link, f.link2}
	gk := wk.Chains[chB].App.GMPKeeper
	for i, t := range f.triples {
		s, err := gk.GetOrComputeICS27Address(w.CS[chB].Ctx, t.id())
		if err != nil {
			panic(err)
		}
		f.addrs[i] = sdk.MustAccAddressFromBech32(s)
		icaworld.Fund(w, chB, f.addrs[i], funds)
	}
	f.vic, f.r1 = icaworld.Addr("gmp-victim"), icaworld.Addr("gmp-recipient")
	icaworld.Fund(w, chB, f.vic, funds)
	icaworld.Fund(w, chB, f.r1, 1)
	f.srcKeyed = sdk.AccAddress(refAddress(Triple{f.link.ClientA, f.senders[0].String(), []byte("s1")}))
	icaworld.Fund(w, chB, f.srcKeyed, funds)
	f.all = icaworld.AllStoreNames(w, chB)
	w.Sync(chB, f.link.ClientB, chA)
	w.Sync(chB, f.link2.ClientB, chC)
	w.Sync(chA, f.link.ClientA, chB)
	w.Sync(chC, f.link2.ClientA, chB)
	w.Flatten()
	return f
}

// ---- message alphabet --------------------------------------------------------------------------

type kind int

const (
	kSendMe       kind = iota // bank.MsgSend 40 from the packet's GMP account
	kSendVic                  // bank.MsgSend 40 from the victim (a plain funded account)
	kSendOther                // bank.MsgSend 40 from the GMP account of ANOTHER triple
	kMultiMV                  // bank.MsgMultiSend with two inputs (= two signers): this account, victim
	kMultiVM                  // bank.MsgMultiSend with two inputs (= two signers): victim, this account
	kFail                     // bank.MsgSend 1000 from this account (over its balance)
	kSendSrcKeyed             // bank.MsgSend 40 from the account derived from the packet's SOURCE client id (same sender, salt)
	nKinds
)

var kindNames = []string{"send(me)", "send(victim)", "send(other-gmp-account)", "multisend(me+victim)", "multisend(victim+me)", "send(me,over-balance)", "send(account-of-source-client-id)"}

func (k kind) String() string { return kindNames[k] }

// ledger accounts: the three GMP accounts, the victim, the recipient
const (
	nGMP      = 4
	aVictim   = 4
	aR1       = 5
	aSrcKeyed = 6 // (A's and C's common id for their client of B, sender0, s1): what a receiver keyed by the source client would use
	nAccts    = 7
)

var acctNames = []string{"gmp-account(client-of-A,sender0,s1)", "gmp-account(client-of-A,sender0,s2)", "gmp-account(client-of-A,sender1,s1)", "gmp-account(client-of-C,sender0,s1)", "victim", "recipient", "gmp-account(source-client-id,sender0,s1)"}

// other is the GMP account of ANOTHER triple used by kSendOther: for the twin triples 0 and 3 (same sender and salt,
// different destination client) it is the twin.
func other(me int) int { return [nGMP]int{3, 2, 0, 0}[me] }

func (f *fixture) addrOf(a int) sdk.AccAddress {
	switch a {
	case aVictim:
		return f.vic
	case aR1:
		return f.r1
	case aSrcKeyed:
		return f.srcKeyed
	}
	return f.addrs[a]
}

func (f *fixture) msg(k kind, me int) proto.Message {
	coin := func(n int64) sdk.Coins { return icaworld.Coins(n) }
	meS, vicS, r1S := f.addrs[me].String(), f.vic.String(), f.r1.String()
	switch k {
	case kSendMe:
		return &banktypes.MsgSend{FromAddress: meS, ToAddress: r1S, Amount: coin(sendAmt)}
	case kSendVic:
		return &banktypes.MsgSend{FromAddress: vicS, ToAddress: r1S, Amount: coin(sendAmt)}
	case kSendOther:
		return &banktypes.MsgSend{FromAddress: f.addrs[other(me)].String(), ToAddress: r1S, Amount: coin(sendAmt)}
	case kMultiMV:
		return &banktypes.MsgMultiSend{Inputs: []banktypes.Input{{Address: meS, Coins: coin(multi)}, {Address: vicS, Coins: coin(multi)}},
			Outputs: []banktypes.Output{{Address: r1S, Coins: coin(2 * multi)}}}
	case kMultiVM:
		return &banktypes.MsgMultiSend{Inputs: []banktypes.Input{{Address: vicS, Coins: coin(multi)}, {Address: meS, Coins: coin(multi)}},
			Outputs: []banktypes.Output{{Address: r1S, Coins: coin(2 * multi)}}}
	case kFail:
		return &banktypes.MsgSend{FromAddress: meS, ToAddress: r1S, Amount: coin(failAmt)}
	case kSendSrcKeyed:
		return &banktypes.MsgSend{FromAddress: f.srcKeyed.String(), ToAddress: r1S, Amount: coin(sendAmt)}
	}
	panic("unknown kind")
}

// signersOf / amounts: the reference's view of a message shape.
func signersOf(k kind, me int) []int {
	switch k {
	case kSendMe, kFail:
		return []int{me}
	case kSendVic:
		return []int{aVictim}
	case kSendOther:
		return []int{other(me)}
	case kSendSrcKeyed:
		return []int{aSrcKeyed}
	case kMultiMV:
		return []int{me, aVictim}
	case kMultiVM:
		return []int{aVictim, me}
	}
	panic("unknown kind")
}

func amountOf(k kind) int64 {
	switch k {
	case kFail:
		return failAmt
	case kMultiMV, kMultiVM:
		return multi
	}
	return sendAmt
}

type verdict struct {
	Executed bool
	Reason   string // "", empty-list, signer-count, foreign-signer, execution-failed
	At       int
	Bal      [nAccts]int64
}

// judge is the reference written from the statement: the messages execute iff the list is non-empty (an empty
// list has nothing to execute), every message has exactly one signer and that signer is the packet's account;
// then all messages take effect in order, or — if one fails — none.
func judge(kinds []kind, me int, start [nAccts]int64) verdict {
	v := verdict{Bal: start, At: -1}
	if len(kinds) == 0 {
		v.Reason = "empty-list"
		return v
	}
	for i, k := range kinds {
		s := signersOf(k, me)
		if len(s) != 1 {
			v.Reason, v.At = "signer-count", i
			return v
		}
		if s[0] != me {
			v.Reason, v.At = "foreign-signer", i
			return v
		}
	}
	bal := start
	for i, k := range kinds {
		amt := amountOf(k)
		if bal[me] < amt {
			v.Reason, v.At = "execution-failed", i
			return v
		}
		bal[me] -= amt
		bal[aR1] += amt
	}
	v.Executed, v.Bal = true, bal
	return v
}

// ---- encodings ---------------------------------------------------------------------------------

type encoding struct {
	Name     string
	Packet   string // encoding of the GMP packet data
	JSONTx   bool   // CosmosTx payload as proto3 JSON instead of protobuf
	MemoText string
}

var encodings = []encoding{
	{Name: "protobuf", Packet: gmptypes.EncodingProtobuf},
	{Name: "json", Packet: gmptypes.EncodingJSON},
	{Name: "abi", Packet: gmptypes.EncodingABI},
	{Name: "protobuf+protojson-tx", Packet: gmptypes.EncodingProtobuf, JSONTx: true},
}

func (f *fixture) txBytes(msgs []proto.Message, asJSON bool) ([]byte, error) {
	cdc := f.w.W.Chains[chA].App.AppCodec()
	if !asJSON {
		return gmptypes.SerializeCosmosTx(cdc, msgs)
	}
	anys := make([]*codectypes.Any, len(msgs))
	for i, m := range msgs {
		a, err := codectypes.NewAnyWithValue(m)
		if err != nil {
			return nil, err
		}
		anys[i] = a
	}
	return cdc.MarshalJSON(&gmptypes.CosmosTx{Messages: anys})
}

func gmpPayload(sender string, salt, tx []byte, enc string) (channeltypesv2.Payload, error) {
	data := gmptypes.NewGMPPacketData(sender, "", salt, tx, "")
	bz, err := gmptypes.MarshalPacketData(&data, gmptypes.Version, enc)
	if err != nil {
		return channeltypesv2.Payload{}, err
	}
	return channeltypesv2.NewPayload(gmptypes.PortID, gmptypes.PortID, gmptypes.Version, enc, bz), nil
}

// ---- evaluation of one received packet ---------------------------------------------------------

// Case is one enumerated packet (also the replay artefact).
type Case struct {
	Me    int    `json:"triple"`
	Enc   int    `json:"encoding"`
	Kinds []kind `json:"kinds"`
}

func (cs Case) String() string {
	s := make([]string, len(cs.Kinds))
	for i, k := range cs.Kinds {
		s[i] = k.String()
	}
	return fmt.Sprintf("triple=%d enc=%s msgs=[%s]", cs.Me, encodings[cs.Enc].Name, strings.Join(s, ", "))
}

func (cs Case) key() string {
	s := make([]string, len(cs.Kinds))
	for i, k := range cs.Kinds {
		s[i] = fmt.Sprint(int(k))
	}
	return fmt.Sprintf("t%d/%s/%s", cs.Me, encodings[cs.Enc].Name, strings.Join(s, "."))
}

type outcome struct {
	Case      string   `json:"case"`
	Reference string   `json:"reference"`
	Ack       string   `json:"ack"`
	Changed   []string `json:"destination_keys_changed"`
}

func (f *fixture) balances(w *ksim.World) [nAccts]int64 {
	var b [nAccts]int64
	for a := 0; a < nAccts; a++ {
		b[a] = icaworld.Balance(w, chB, f.addrOf(a))
	}
	return b
}

type entry struct {
	T    Triple
	Addr string
	ID   *gmptypes.AccountIdentifier
}

// storedEntries reads the keeper's Accounts map in key order.
func storedEntries(w *ksim.World) []entry {
	var out []entry
	gk := w.W.Chains[chB].App.GMPKeeper
	err := gk.Accounts.Walk(w.CS[chB].Ctx, nil, func(k collections.Triple[string, string, []byte], v gmptypes.ICS27Account) (bool, error) {
		out = append(out, entry{Triple{k.K1(), k.K2(), k.K3()}, v.Address, v.AccountId})
		return false, nil
	})
	if err != nil {
		panic(err)
	}
	return out
}

// storedAccounts: gokey of the triple -> address.
func storedAccounts(w *ksim.World) map[string]string {
	out := map[string]string{}
	for _, e := range storedEntries(w) {
		out[e.T.gokey()] = e.Addr
	}
	return out
}

var errAckCommit = string(channeltypesv2.CommitAcknowledgement(channeltypesv2.Acknowledgement{AppAcknowledgements: [][]byte{channeltypesv2.ErrorAcknowledgement[:]}}))

// relay sends payload pl as a v2 packet from A (signed by signer) and relays it to B. It returns the packet,
// the receive result and the store dumps of B around the receive.
func (f *fixture) relay(c *core.C, w *ksim.World, src int, l *ksim.Link, signer string, pl channeltypesv2.Payload, what string) (pkt channeltypesv2.Packet, rr ksim.Result, pre, post map[string]string, ok bool) {
	tsec := uint64(w.CS[src].TimeNs()/1e9) + 3600
	seq, r := w.SendV2(src, l.ClientA, tsec, signer, pl)
	if r.Class != ksim.OK {
		c.Broken("MsgSendPacket by the packet sender failed for %s: %s %v", what, r, r.Err)
		return pkt, rr, nil, nil, false
	}
	pkt = channeltypesv2.NewPacket(seq, l.ClientA, l.ClientB, tsec, pl)
	return f.deliver(c, w, src, l, pkt, what)
}

func (f *fixture) deliver(c *core.C, w *ksim.World, src int, l *ksim.Link, pkt channeltypesv2.Packet, what string) (channeltypesv2.Packet, ksim.Result, map[string]string, map[string]string, bool) {
	w.Sync(chB, l.ClientB, src)
	pre := w.DumpStores(chB, f.all)
	rr := w.RecvV2(chB, src, pkt, w.ClientLatest(chB, l.ClientB))
	if rr.Class != ksim.OK {
		c.Broken("MsgRecvPacket of a committed GMP packet failed for %s: %s %v", what, rr, rr.Err)
		return pkt, rr, nil, nil, false
	}
	return pkt, rr, pre, w.DumpStores(chB, f.all), true
}

func appAck(rr ksim.Result) ([]byte, bool) {
	for _, e := range rr.Events {
		if e.Type != channeltypesv2.EventTypeWriteAck {
			continue
		}
		for _, a := range e.Attributes {
			if a.Key == channeltypesv2.AttributeKeyEncodedAckHex {
				bz, err := hex.DecodeString(a.Value)
				if err != nil {
					return nil, false
				}
				var ack channeltypesv2.Acknowledgement
				if err := proto.Unmarshal(bz, &ack); err != nil || len(ack.AppAcknowledgements) != 1 {
					return nil, false
				}
				return ack.AppAcknowledgements[0], true
			}
		}
	}
	return nil, false
}

// eval sends, relays and judges one packet on world w (the caller decides whether w is a fork).
// known is the history's view of the Accounts map so far (nil: take it from the state before the packet).
func (f *fixture) eval(c *core.C, w *ksim.World, cs Case, keyPrefix string) (verdict, *outcome) {
	me := cs.Me
	enc := encodings[cs.Enc]
	var msgs []proto.Message
	for _, k := range cs.Kinds {
		msgs = append(msgs, f.msg(k, me))
	}
	tx, err := f.txBytes(msgs, enc.JSONTx)
	if err != nil {
		c.Broken("cannot serialise %s: %v", cs, err)
		return verdict{}, nil
	}
	t := f.triples[me]
	pl, err := gmpPayload(t.Sender, t.Salt, tx, enc.Packet)
	if err != nil {
		c.Broken("cannot encode the packet data of %s: %v", cs, err)
		return verdict{}, nil
	}
	start := f.balances(w)
	ref := judge(cs.Kinds, me, start)
	accBefore := storedAccounts(w)
	pkt, rr, pre, post, ok := f.relay(c, w, f.src[me], f.links[me], t.Sender, pl, cs.String())
	if !ok {
		return ref, nil
	}
	viol := func(oracle, text string) {
		c.Violation(oracle+"/"+keyPrefix+cs.key(), fmt.Sprintf("%s%s: %s", keyPrefix, cs, text), cs)
	}
	diff := ksim.DiffStores(pre, post)
	recvKey := "ibc/" + string(hostv2.PacketReceiptKey(pkt.DestinationClient, pkt.Sequence))
	ackKey := "ibc/" + string(hostv2.PacketAcknowledgementKey(pkt.DestinationClient, pkt.Sequence))
	var effectKeys []string
	for _, k := range diff {
		if k != recvKey && k != ackKey {
			effectKeys = append(effectKeys, k)
		}
	}
	ackCommit, hasAck := post[ackKey]
	if !hasAck || !contains(diff, recvKey) {
		c.Broken("receipt or acknowledgement missing after the receive of %s", cs)
		return ref, nil
	}
	isErrAck := ackCommit == errAckCommit
	out := &outcome{Case: keyPrefix + cs.String(), Ack: map[bool]string{false: "result", true: "error"}[isErrAck], Changed: printable(diff)}
	if ref.Executed {
		out.Reference = "every message single-signed by the packet's account; all execute"
	} else {
		out.Reference = fmt.Sprintf("%s at message %d; nothing may happen", ref.Reason, ref.At)
	}
	got := f.balances(w)
	accAfter := storedAccounts(w)

	// no message acts for another account: nobody but the packet's own account is ever debited
	for a := 0; a < nAccts; a++ {
		if a != me && got[a] < start[a] {
			viol("foreign-account-debited", fmt.Sprintf("balance of %s fell %d -> %d", acctNames[a], start[a], got[a]))
		}
	}
	// the mapping triple -> address never changes once used, and always is the derived address
	for k, a := range accBefore {
		if accAfter[k] != a {
			viol("account-mapping-changed", fmt.Sprintf("stored account of triple %q changed from %s to %q", k, a, accAfter[k]))
		}
	}
	for i, tr := range f.triples {
		if a, ok := accAfter[tr.gokey()]; ok && a != f.addrs[i].String() {
			viol("account-not-derived-address", fmt.Sprintf("stored account of %s is %s, derived before first use: %s", tr, a, f.addrs[i]))
		}
	}
	// every stored account is keyed by a DESTINATION client of this chain (one over which GMP packets arrive), its
	// address is the one derived from that key, its recorded identifier is the key, and a packet registers no
	// account other than the one of its own (destination client, sender, salt)
	for _, e := range storedEntries(w) {
		k := e.T.gokey()
		if e.T.Client != f.link.ClientB && e.T.Client != f.link2.ClientB {
			viol("account-keyed-by-foreign-client", fmt.Sprintf("the Accounts map holds an entry for %s whose client is not a destination client of this chain's GMP links (%s, %s)", e.T, f.link.ClientB, f.link2.ClientB))
		}
		if want := sdk.AccAddress(refAddress(e.T)).String(); e.Addr != want {
			viol("stored-address-not-derived-from-key", fmt.Sprintf("the Accounts map holds %s for %s, the derivation from that key gives %s", e.Addr, e.T, want))
		}
		if e.ID == nil || e.ID.ClientId != e.T.Client || e.ID.Sender != e.T.Sender || !bytes.Equal(e.ID.Salt, e.T.Salt) {
			viol("stored-identifier-differs-from-key", fmt.Sprintf("the account stored under %s records the identifier %v", e.T, e.ID))
		}
		if _, before := accBefore[k]; !before && k != t.gokey() {
			viol("foreign-account-registered", fmt.Sprintf("the packet of %s registered an account for %s", t, e.T))
		}
	}
	if !ref.Executed {
		if len(effectKeys) > 0 {
			viol(effectOracle[ref.Reason], fmt.Sprintf("reference says %s at message %d, but the destination changed %q", ref.Reason, ref.At, printable(effectKeys)))
		}
		if !isErrAck {
			viol("success-ack/"+ref.Reason, fmt.Sprintf("reference says %s at message %d, but the acknowledgement is not the error acknowledgement", ref.Reason, ref.At))
		}
		return ref, out
	}
	// executable: ALL messages take effect
	if got != ref.Bal {
		viol("wrong-effect", fmt.Sprintf("balances %v after the packet are %v, reference (sequential effect of all messages) %v", acctNames, got, ref.Bal))
	}
	if isErrAck {
		viol("error-ack-for-executable", "all messages are single-signed by the account and executable but the acknowledgement is the error acknowledgement")
	} else if bz, ok := appAck(rr); !ok {
		c.Broken("cannot find the application acknowledgement of %s in the events", cs)
	} else {
		ack, err := gmptypes.UnmarshalAcknowledgement(bz, gmptypes.Version, enc.Packet)
		var tmd sdk.TxMsgData
		if err == nil {
			err = proto.Unmarshal(ack.Result, &tmd)
		}
		if err != nil || len(tmd.MsgResponses) != len(cs.Kinds) {
			viol("ack-response-count", fmt.Sprintf("result acknowledgement carries %d message responses for %d messages (err %v)", len(tmd.MsgResponses), len(cs.Kinds), err))
		}
	}
	if a := accAfter[t.gokey()]; a != f.addrs[me].String() {
		viol("account-not-recorded", fmt.Sprintf("after an executed packet the Accounts map holds %q for %s, want %s", a, t, f.addrs[me]))
	}
	// the effect is confined to the ledger accounts the reference changes and the account registration (first use)
	_, usedBefore := accBefore[t.gokey()]
	gmpKeys := 0
	for _, k := range effectKeys {
		store, rest, _ := strings.Cut(k, "/")
		switch store {
		case "bank":
			owner := -1
			for a := 0; a < nAccts; a++ {
				if bytes.Contains([]byte(rest), f.addrOf(a)) {
					owner = a
				}
			}
			if owner < 0 || ref.Bal[owner] == start[owner] {
				viol("effect-outside-reference", fmt.Sprintf("bank key %q changed although the reference does not touch that account", rest))
			}
		case "gmp":
			gmpKeys++
		default:
			viol("effect-outside-reference", fmt.Sprintf("store key %q changed; the reference only moves balances and registers the account", k))
		}
	}
	if (usedBefore && gmpKeys != 0) || (!usedBefore && gmpKeys != 2) {
		viol("account-registration", fmt.Sprintf("%d gmp store keys changed (account used before: %v)", gmpKeys, usedBefore))
	}
	return ref, out
}

var effectOracle = map[string]string{
	"empty-list":       "effect-of-empty-list",
	"signer-count":     "effect-with-several-signers",
	"foreign-signer":   "effect-with-foreign-signer",
	"execution-failed": "non-atomic-effect",
}

func contains(l []string, s string) bool {
	for _, x := range l {
		if x == s {
			return true
		}
	}
	return false
}

func printable(keys []string) []string {
	out := make([]string, len(keys))
	for i, k := range keys {
		q := strconv.QuoteToASCII(k)
		out[i] = q[1 : len(q)-1]
	}
	return out
}

// ---- K1: message lists -------------------------------------------------------------------------

type kStats struct {
	evals, executed int // executed: distinct single-packet cases / foreign triples the reference lets execute
	histNontrivial  int // distinct histories in which at least two packets executed
	sigs            map[string]bool
	done            bool
}

func (f *fixture) runLists(c *core.C, st *kStats) {
	maxLen := core.Pick(c, []int{3, 2, 2, 1}, []int{4, 3, 3, 2}) // per encoding
	c.Set("k_max_messages_per_packet", map[string]any{"encodings": []string{"protobuf", "json", "abi", "protobuf+protojson-tx"}, "max": maxLen})
	c.Set("k_list_packets_from", "triple 0 (over B's client of A): all encodings; triple 3 (over B's client of C, twin sender/salt): protobuf, one message fewer")
	sampled := map[string]bool{}
	for _, me := range []int{0, 3} {
		for ei := range encodings {
			top := maxLen[ei]
			if me == 3 {
				if ei != 0 {
					continue
				}
				top--
			}
			for n := 0; n <= top && st.done; n++ {
				dims := make([]int, n)
				for i := range dims {
					dims[i] = int(nKinds)
				}
				one := func(idx []int) bool {
					if c.TimeUp() || c.Violations() > 5 {
						st.done = false
						return false
					}
					cs := Case{Me: me, Enc: ei, Kinds: []kind{}}
					for _, k := range idx {
						cs.Kinds = append(cs.Kinds, kind(k))
					}
					var ref verdict
					var out *outcome
					if p := core.Catch(func() { ref, out = f.eval(c, f.w.Fork(), cs, "") }); p != "" {
						c.Broken("panic while evaluating %s: %s", cs, p)
						st.done = false
						return false
					}
					st.evals++
					class := "executed"
					if ref.Executed {
						st.executed++
					} else {
						class = fmt.Sprintf("%s@%d", ref.Reason, ref.At)
						st.sigs[fmt.Sprintf("%s/len%d/%s/t%d", class, n, encodings[ei].Name, me)] = true
					}
					c.Hist("k_reference_verdicts", class)
					if out != nil {
						c.Hist("k_acks", out.Ack)
						if !sampled[class] && len(sampled) < 6 {
							sampled[class] = true
							c.Sample(out)
						}
					}
					return true
				}
				if n == 0 {
					one(nil)
					continue
				}
				core.Product(dims, one)
			}
		}
	}
}

// ---- K2: histories of repeated packets ---------------------------------------------------------

var histLists = [][]kind{{kSendMe}, {kSendVic}, {kFail}, {kSendMe, kSendMe}}

func (f *fixture) runHistories(c *core.C, st *kStats) {
	depth := core.Pick(c, 2, 3)
	nOps := nGMP * len(histLists)
	c.Set("k_history_depth", depth)
	c.Set("k_history_ops", nOps)
	dims := make([]int, depth)
	for i := range dims {
		dims[i] = nOps
	}
	hist := 0
	var sampledHist bool
	core.Product(dims, func(idx []int) bool {
		if c.TimeUp() || c.Violations() > 5 {
			st.done = false
			return false
		}
		w := f.w.Fork()
		var names []string
		ok := true
		var last *outcome
		execd := 0
		for step, op := range idx {
			cs := Case{Me: op / len(histLists), Enc: 0, Kinds: histLists[op%len(histLists)]}
			names = append(names, fmt.Sprintf("t%d%v", cs.Me, cs.Kinds))
			prefix := fmt.Sprintf("history[%s]#%d/", strings.Join(names, ";"), step)
			var ref verdict
			if p := core.Catch(func() { ref, last = f.eval(c, w, cs, prefix) }); p != "" {
				c.Broken("panic while evaluating %s%s: %s", prefix, cs, p)
				st.done = false
				return false
			}
			st.evals++
			if ref.Executed {
				execd++
			}
			if last == nil {
				ok = false
				break
			}
		}
		if !ok {
			return false
		}
		// injectivity of the stored mapping at the end of the history
		acc := storedAccounts(w)
		byAddr := map[string]string{}
		var keys []string
		for k := range acc {
			keys = append(keys, k)
		}
		sort.Strings(keys)
		for _, k := range keys {
			if prev, dup := byAddr[acc[k]]; dup {
				c.Violation("history-shared-address/"+strings.Join(names, ";"), fmt.Sprintf("after history %v triples %q and %q share account %s", names, prev, k, acc[k]), idx)
			}
			byAddr[acc[k]] = k
		}
		c.Hist("k_accounts_registered_at_end_of_history", fmt.Sprint(len(acc)))
		hist++
		if execd >= 2 {
			st.histNontrivial++
		}
		if !sampledHist && len(acc) >= 2 && last != nil {
			sampledHist = true
			c.Sample(map[string]any{"part": "K histories", "history": names, "accounts_registered": len(acc), "last_packet": last})
		}
		return true
	})
	c.Set("k_histories", hist)
}

// ---- K3: packets of a foreign counterparty (arbitrary sender strings) --------------------------

// runForeign writes packet commitments of a counterparty whose senders are arbitrary strings directly into A's
// provable store (chain A then plays a chain that is not ibc-go) and relays them, one after the other on ONE world.
func (f *fixture) runForeign(c *core.C, st *kStats) {
	w := f.w.Fork()
	senders := core.AllStrings(sAlphabet, core.Pick(c, 1, 2))
	salts := []string{"", "a", "\x00", "a/"}
	gk := w.W.Chains[chB].App.GMPKeeper
	ck := w.W.Chains[chA].App.IBCKeeper.ChannelKeeperV2
	seq := uint64(1000)
	expected := map[string]string{} // gokey -> address of every triple that executed
	evals, executed, rejected := 0, 0, 0
	for _, s := range senders {
		if s == "" {
			continue
		}
		for _, sa := range salts {
			if c.TimeUp() || c.Violations() > 5 {
				st.done = false
				return
			}
			t := Triple{f.link.ClientB, s, []byte(sa)}
			addr, derr := gmptypes.BuildAddressPredictable(t.id())
			if derr != nil {
				c.Broken("derivation rejects %s: %v", t, derr)
				return
			}
			icaworld.Fund(w, chB, addr, funds)
			tx, err := f.txBytes([]proto.Message{&banktypes.MsgSend{FromAddress: sdk.AccAddress(addr).String(), ToAddress: f.r1.String(), Amount: icaworld.Coins(sendAmt)}}, false)
			if err != nil {
				c.Broken("serialise: %v", err)
				return
			}
			pl, err := gmpPayload(t.Sender, t.Salt, tx, gmptypes.EncodingProtobuf)
			if err != nil {
				c.Broken("cannot encode packet data for %s: %v", t, err)
				return
			}
			seq++
			tsec := uint64(w.CS[chA].TimeNs()/1e9) + 3600
			pkt := channeltypesv2.NewPacket(seq, f.link.ClientA, f.link.ClientB, tsec, pl)
			ksim.MustOK("forge commitment", w.Do(chA, func(ctx sdk.Context) error {
				ck.SetPacketCommitment(ctx, f.link.ClientA, seq, channeltypesv2.CommitPacket(pkt))
				return nil
			}))
			balBefore := icaworld.Balance(w, chB, addr)
			_, _, pre, post, ok := f.deliver(c, w, chA, f.link, pkt, t.String())
			if !ok {
				return
			}
			evals++
			st.evals++
			diff := ksim.DiffStores(pre, post)
			recvKey := "ibc/" + string(hostv2.PacketReceiptKey(pkt.DestinationClient, pkt.Sequence))
			ackKey := "ibc/" + string(hostv2.PacketAcknowledgementKey(pkt.DestinationClient, pkt.Sequence))
			var effectKeys []string
			for _, k := range diff {
				if k != recvKey && k != ackKey {
					effectKeys = append(effectKeys, k)
				}
			}
			isErr := post[ackKey] == errAckCommit
			key := "foreign/" + t.String()
			if isErr {
				rejected++
				c.Hist("k_foreign_sender_packets", "rejected (error acknowledgement)")
				if len(effectKeys) > 0 {
					c.Violation("effect-of-rejected-packet/"+key, fmt.Sprintf("packet of %s got the error acknowledgement but the destination changed %q", t, printable(effectKeys)), t)
				}
			} else {
				executed++
				st.executed++
				c.Hist("k_foreign_sender_packets", "executed")
				expected[t.gokey()] = sdk.AccAddress(addr).String()
				if got := icaworld.Balance(w, chB, addr); got != balBefore-sendAmt {
					c.Violation("wrong-effect/"+key, fmt.Sprintf("account of %s has %d after sending %d from %d", t, got, sendAmt, balBefore), t)
				}
			}
			// the stored mapping equals exactly the executed triples with their derived addresses
			acc := storedAccounts(w)
			if len(acc) != len(expected) {
				c.Violation("foreign-mapping-size/"+key, fmt.Sprintf("after the packet of %s the Accounts map has %d entries, %d triples executed so far", t, len(acc), len(expected)), t)
			}
			byAddr := map[string]string{}
			var keys []string
			for k := range expected {
				keys = append(keys, k)
			}
			sort.Strings(keys)
			for _, k := range keys {
				if acc[k] != expected[k] {
					c.Violation("foreign-mapping-changed/"+key, fmt.Sprintf("after the packet of %s the account of triple %q is %q, first recorded %s", t, k, acc[k], expected[k]), t)
				}
				if prev, dup := byAddr[acc[k]]; dup {
					c.Violation("foreign-shared-address/"+key, fmt.Sprintf("triples %q and %q share account %s", prev, k, acc[k]), t)
				}
				byAddr[acc[k]] = k
				// reverse index agrees
				a, err := sdk.AccAddressFromBech32(acc[k])
				if err == nil {
					if ra, err := gk.GetAccount(w.CS[chB].Ctx, a); err != nil || ra.Address != acc[k] {
						c.Violation("foreign-reverse-index/"+key, fmt.Sprintf("AccountsByAddress[%s] missing or different (%v)", acc[k], err), t)
					}
				}
			}
		}
	}
	c.Set("k_foreign_packets", evals)
	c.Set("k_foreign_executed", executed)
	c.Set("k_foreign_rejected", rejected)
	if executed > 0 {
		st.sigs["foreign-executed"] = true
	}
	if rejected > 0 {
		st.sigs["foreign-rejected"] = true
	}
}

// ---- K4: outgoing packets ----------------------------------------------------------------------

type sendCase struct {
	Signer  int   `json:"tx_signer"`       // index into senders
	Senders []int `json:"payload_senders"` // 0,1: senders; 2: a string that is not an address
}

func (f *fixture) senderString(i int) string {
	if i == 2 {
		return "not-an-address"
	}
	return f.senders[i].String()
}

func (f *fixture) runOutgoing(c *core.C, st *kStats) {
	tx, err := f.txBytes([]proto.Message{f.msg(kSendMe, 0)}, false)
	if err != nil {
		c.Broken("serialise: %v", err)
		return
	}
	accepted, refused := 0, 0
	app := f.w.W.Chains[chA].App
	for signer := 0; signer < 2; signer++ {
		for n := 1; n <= 2; n++ {
			dims := make([]int, n)
			for i := range dims {
				dims[i] = 3
			}
			core.Product(dims, func(idx []int) bool {
				for _, enc := range []string{gmptypes.EncodingProtobuf, gmptypes.EncodingABI} {
					cs := sendCase{Signer: signer, Senders: idx}
					var pls []channeltypesv2.Payload
					allEqual := true
					for _, s := range idx {
						pl, err := gmpPayload(f.senderString(s), []byte("s1"), tx, enc)
						if err != nil {
							c.Broken("encode: %v", err)
							return false
						}
						pls = append(pls, pl)
						if s != signer {
							allEqual = false
						}
					}
					w := f.w.Fork()
					tsec := uint64(w.CS[chA].TimeNs()/1e9) + 3600
					pre := w.DumpStores(chA, []string{"ibc"})
					_, r := w.SendV2(chA, f.link.ClientA, tsec, f.senders[signer].String(), pls...)
					st.evals++
					key := fmt.Sprintf("signer%d/senders%v/%s", signer, idx, enc)
					if r.Class == ksim.OK {
						accepted++
						if !allEqual {
							c.Violation("send-accepted-for-foreign-sender/"+key, fmt.Sprintf("MsgSendPacket signed by %s with GMP payload senders %v was accepted", f.senders[signer], idx), cs)
						}
					} else {
						refused++
						if len(ksim.DiffStores(pre, w.DumpStores(chA, []string{"ibc"}))) != 0 {
							c.Broken("a failed transaction left state behind (%s)", key)
						}
						if allEqual && n == 1 {
							c.Broken("honest single-payload GMP send refused (%s): %s %v", key, r, r.Err)
						}
					}
					c.Hist("k_outgoing", fmt.Sprintf("all senders = signer: %v -> %s", allEqual, r.Class))
				}
				return true
			})
		}
	}
	// MsgSendCall: the only signer of the message is its sender field, and the packet carries exactly that sender
	for s := 0; s < 3; s++ {
		w := f.w.Fork()
		tsec := uint64(w.CS[chA].TimeNs()/1e9) + 3600
		msg := gmptypes.NewMsgSendCall(f.link.ClientA, f.senderString(s), "", tx, []byte("s1"), tsec, gmptypes.EncodingProtobuf, "")
		st.evals++
		key := fmt.Sprintf("sendcall/sender%d", s)
		if s < 2 {
			signers, _, err := app.AppCodec().GetMsgV1Signers(msg)
			if err != nil || len(signers) != 1 || !bytes.Equal(signers[0], f.senders[s]) {
				c.Violation("sendcall-signer-annotation/"+key, fmt.Sprintf("MsgSendCall{sender: %s} declares signers %x (err %v); the transaction signer must be the packet sender", f.senders[s], signers, err), s)
			}
		}
		r := w.Tx(chA, msg)
		c.Hist("k_outgoing", fmt.Sprintf("MsgSendCall sender valid: %v -> %s", s < 2, r.Class))
		if s == 2 {
			if r.Class == ksim.OK {
				c.Violation("sendcall-accepted-invalid-sender/"+key, "MsgSendCall with a sender that is not an address was accepted", s)
			}
			refused++
			continue
		}
		if r.Class != ksim.OK {
			c.Broken("honest MsgSendCall refused: %s %v", r, r.Err)
			continue
		}
		accepted++
		var resp gmptypes.MsgSendCallResponse
		if err := proto.Unmarshal(r.Resp, &resp); err != nil {
			c.Broken("cannot decode MsgSendCallResponse: %v", err)
			continue
		}
		pl, _ := gmpPayload(f.senders[s].String(), []byte("s1"), tx, gmptypes.EncodingProtobuf)
		want := channeltypesv2.CommitPacket(channeltypesv2.NewPacket(resp.Sequence, f.link.ClientA, f.link.ClientB, tsec, pl))
		got := app.IBCKeeper.ChannelKeeperV2.GetPacketCommitment(w.CS[chA].Ctx, f.link.ClientA, resp.Sequence)
		if !bytes.Equal(got, want) {
			c.Violation("sendcall-packet-sender/"+key, fmt.Sprintf("the packet committed by MsgSendCall{sender: %s} is not the packet whose GMP sender is that signer", f.senders[s]), s)
		}
	}
	c.Set("k_outgoing_accepted", accepted)
	c.Set("k_outgoing_refused", refused)
	if accepted > 0 {
		st.sigs["outgoing-accepted"] = true
	}
	if refused > 0 {
		st.sigs["outgoing-refused"] = true
	}
}

// ---- driver ------------------------------------------------------------------------------------

func run(c *core.C) {
	var f *fixture
	if p := core.Catch(func() { f = build(c) }); p != "" {
		c.Broken("cannot build the GMP world: %s", p)
		return
	}
	c.Assume("counterparty consensus, storage commit and validator signing are played by the harness (real IAVL proofs, real signed headers verified by the unmodified 07-tendermint client); one message per transaction, no ante handlers, so the transaction signer of a message is what its cosmos.msg.v1.signer annotation declares")
	c.Assume("the reference ledger models bank.MsgSend / MsgMultiSend as balance moves in one denomination; the expected address formula is the one documented on BuildAddressPredictable (ADR-028 module address over 8-byte-length-prefixed client|sender|salt)")
	c.Assume("foreign-counterparty packets: the packet commitment is written directly into the source chain's provable store (a counterparty that is not ibc-go and whose sender strings are arbitrary); everything on the destination is the real handler path")
	c.Set("rule", "S: a triple is non-trivial when the derivation accepts it and its plain concatenation client|sender|salt coincides with that of another accepted triple (only the length prefixes tell them apart); K: a packet is non-trivial when the reference lets it execute or when it is rejected with a (reason, offending position, list length, encoding, triple) signature not seen before; a history is non-trivial when at least two of its packets execute; a foreign-sender triple when its packet executes; plus the accepted / refused classes of outgoing sends and foreign-sender packets")
	c.Set("k_alphabet", kindNames)

	if c.Replay != "" {
		var cs Case
		if err := c.LoadReplay(&cs); err != nil || cs.Me < 0 || cs.Me >= nGMP || cs.Enc < 0 || cs.Enc >= len(encodings) {
			c.Broken("cannot load replay (only single-packet cases can be replayed): %v", err)
			return
		}
		_, out := f.eval(c, f.w.Fork(), cs, "")
		bz, _ := json.Marshal(out)
		fmt.Printf("replay %s -> %s\n", cs, bz)
		c.Set("evaluations", 1)
		c.Set("distinct_nontrivial", 1)
		c.Sample(out)
		return
	}

	c.SubBudget(0.2)
	s := runS(c, f)
	c.SubBudget(0)

	st := &kStats{sigs: map[string]bool{}, done: true}
	f.runOutgoing(c, st)
	f.runForeign(c, st)
	c.SubBudget(0.5)
	f.runLists(c, st)
	c.SubBudget(0)
	if st.done {
		f.runHistories(c, st)
	}
	var sl []string
	for k := range st.sigs {
		sl = append(sl, k)
	}
	sort.Strings(sl)
	c.Set("k_evaluations", st.evals)
	c.Set("k_executed_packets", st.executed)
	c.Set("k_distinct_signatures", sl)
	c.Set("evaluations", s.evals+st.evals)
	c.Set("k_histories_with_two_or_more_executed_packets", st.histNontrivial)
	c.Set("distinct_nontrivial", s.nontrivial+st.executed+st.histNontrivial+len(sl))
	if !st.done {
		c.Set("exhaustive", false)
	}
}
