// Package c15 decides C15: generated client / connection / channel identifiers are never reused
// over a chain's history and pass the chain's identifier validation; Format followed by Parse
// returns the same client type and sequence; the parsers never accept a sequence >= 2^64 and
// never panic.
//
// Part S (this file): exhaustive input enumeration against an independent big.Int reference.
// Part H (history.go): every history of create/open attempts up to a small depth on a real chain.
package c15

import (
	"fmt"
	"math/big"
	"strings"

	clienttypes "github.com/cosmos/ibc-go/v11/modules/core/02-client/types"
	connectiontypes "github.com/cosmos/ibc-go/v11/modules/core/03-connection/types"
	channeltypes "github.com/cosmos/ibc-go/v11/modules/core/04-channel/types"
	host "github.com/cosmos/ibc-go/v11/modules/core/24-host"

	"verif/harness/core"
)

func init() { core.Register("C15", "exploration", run) }

type stats struct {
	evals      int
	nontrivial int
}

var two64 = new(big.Int).Lsh(big.NewInt(1), 64)

// refSeq is the reference reading of a sequence string: non-empty ASCII digits, value < 2^64.
func refSeq(s string) (uint64, bool) {
	if s == "" {
		return 0, false
	}
	for i := 0; i < len(s); i++ {
		if s[i] < '0' || s[i] > '9' {
			return 0, false
		}
	}
	v, ok := new(big.Int).SetString(s, 10)
	if !ok || v.Cmp(two64) >= 0 {
		return 0, false
	}
	return v.Uint64(), true
}

// refParse is the reference reading of a whole identifier: <type>-<digits> for clients (split at the
// last '-'), <prefix><digits> for connections and channels; ok=false when it must be rejected.
func refParse(parser, id string) (typ string, seq uint64, ok bool) {
	switch parser {
	case "client":
		if id == "09-localhost" { // the sentinel localhost identifier carries no sequence by design
			return id, 0, true
		}
		i := strings.LastIndex(id, "-")
		if i < 0 || strings.TrimSpace(id[:i]) == "" {
			return "", 0, false
		}
		seq, ok = refSeq(id[i+1:])
		return id[:i], seq, ok
	case "connection":
		if !strings.HasPrefix(id, "connection-") {
			return "", 0, false
		}
		seq, ok = refSeq(strings.TrimPrefix(id, "connection-"))
		return "", seq, ok
	default:
		if !strings.HasPrefix(id, "channel-") {
			return "", 0, false
		}
		seq, ok = refSeq(strings.TrimPrefix(id, "channel-"))
		return "", seq, ok
	}
}

// sReplay identifies one S-part input.
type sReplay struct {
	Part   string `json:"part"`   // "roundtrip" | "parse"
	Parser string `json:"parser"` // client | connection | channel
	Type   string `json:"type,omitempty"`
	Seq    uint64 `json:"seq,omitempty"`
	ID     string `json:"id,omitempty"`
}

// checkParse feeds one arbitrary string to one parser and demands: no panic; if accepted then the
// string is <type>-<digits> (resp. <prefix><digits>) with the digits < 2^64 and equal to the result.
// It returns whether the parser accepted the string.
func checkParse(c *core.C, parser, id string) bool {
	art := sReplay{Part: "parse", Parser: parser, ID: id}
	var (
		gotType string
		gotSeq  uint64
		err     error
	)
	p := core.Catch(func() {
		switch parser {
		case "client":
			gotType, gotSeq, err = clienttypes.ParseClientIdentifier(id)
		case "connection":
			gotSeq, err = connectiontypes.ParseConnectionSequence(id)
		case "channel":
			gotSeq, err = channeltypes.ParseChannelSequence(id)
		}
	})
	if p != "" {
		c.Violation(fmt.Sprintf("panic/%s/%q", parser, id), fmt.Sprintf("%s parser panicked on %q: %s", parser, id, p), art)
		return false
	}
	if err != nil {
		return false
	}
	wantType, want, ok := refParse(parser, id)
	switch {
	case !ok:
		c.Violation(fmt.Sprintf("accept/%s/%q", parser, id),
			fmt.Sprintf("%s parser accepted %q (-> %q,%d) although its sequence part is not a decimal number below 2^64 (or the type is blank)", parser, id, gotType, gotSeq), art)
	case gotSeq != want || gotType != wantType:
		c.Violation(fmt.Sprintf("misparse/%s/%q", parser, id),
			fmt.Sprintf("%s parser read %q as (%q,%d), reference (%q,%d)", parser, id, gotType, gotSeq, wantType, want), art)
	}
	return true
}

// checkRoundTrip formats (t,n) and parses it back.
func checkRoundTrip(c *core.C, parser, t string, n uint64) {
	art := sReplay{Part: "roundtrip", Parser: parser, Type: t, Seq: n}
	key := fmt.Sprintf("%s/%s/%d", parser, t, n)
	var (
		id      string
		gotType string
		gotSeq  uint64
		err     error
		verr    error
		format  bool
	)
	p := core.Catch(func() {
		switch parser {
		case "client":
			id = clienttypes.FormatClientIdentifier(t, n)
			gotType, gotSeq, err = clienttypes.ParseClientIdentifier(id)
			verr = host.ClientIdentifierValidator(id)
			format = clienttypes.IsValidClientID(id)
		case "connection":
			id = connectiontypes.FormatConnectionIdentifier(n)
			gotSeq, err = connectiontypes.ParseConnectionSequence(id)
			verr = host.ConnectionIdentifierValidator(id)
			format = connectiontypes.IsValidConnectionID(id)
		case "channel":
			id = channeltypes.FormatChannelIdentifier(n)
			gotSeq, err = channeltypes.ParseChannelSequence(id)
			verr = host.ChannelIdentifierValidator(id)
			format = channeltypes.IsValidChannelID(id)
		}
	})
	switch {
	case p != "":
		c.Violation("panic/roundtrip/"+key, fmt.Sprintf("format/parse of (%q,%d) panicked: %s", t, n, p), art)
	case err != nil:
		c.Violation("roundtrip/"+key, fmt.Sprintf("Parse(Format(%q,%d)=%q) failed: %v", t, n, id, err), art)
	case gotType != t || gotSeq != n:
		c.Violation("roundtrip/"+key, fmt.Sprintf("Parse(Format(%q,%d)=%q) = (%q,%d)", t, n, id, gotType, gotSeq), art)
	case verr != nil:
		c.Violation("validator/"+key, fmt.Sprintf("generated identifier %q fails the host identifier validator: %v", id, verr), art)
	case !format:
		c.Violation("validator/"+key, fmt.Sprintf("generated identifier %q fails the identifier format check", id), art)
	}
}

// seqStrings are sequence spellings around and beyond the 64-bit boundary plus malformed forms.
func seqStrings() []string {
	big10 := func(e int) string { return new(big.Int).Exp(big.NewInt(10), big.NewInt(int64(e)), nil).String() }
	add := func(b *big.Int, d int64) string { return new(big.Int).Add(b, big.NewInt(d)).String() }
	max := new(big.Int).Sub(two64, big.NewInt(1))
	out := []string{
		"0", "1", max.String(), add(max, -1),
		two64.String(), add(two64, 1), add(two64, 1<<32), new(big.Int).Lsh(big.NewInt(1), 65).String(), new(big.Int).Lsh(big.NewInt(1), 128).String(),
		big10(19), add(new(big.Int).Exp(big.NewInt(10), big.NewInt(20), nil), -1), "20000000000000000000", "18446744073709551620", "28446744073709551615",
		big10(20), big10(21), big10(25),
		// leading zeros
		"00", "000", "01", "007", "0" + max.String(), "00" + max.String(), "0" + two64.String(),
		"00000000000000000001", "00000000000000000000", "000000000000000000001", "000000000000000000000",
		// malformed
		"", "+1", "-1", "+0", "-0", " 1", "1 ", "1.0", "1e3", "0x1f", "1_000", "1a", "a1", "１", "١", "1\n", "\t1",
	}
	return out
}

func runS(c *core.C, st *stats) {
	lat := core.Lattice64()
	// --- client types ---
	alpha := []string{"a", "0", "-", "_", "/"}
	cands := core.AllStrings(alpha, core.Pick(c, 4, 5))
	if !c.Quick() {
		seen := map[string]bool{}
		for _, s := range cands {
			seen[s] = true
		}
		for _, s := range core.AllStrings([]string{"a", "0", "-", "_", "/", "A", "."}, 4) {
			if !seen[s] {
				cands = append(cands, s)
			}
		}
	}
	cands = append(cands, "07-tendermint", "06-solomachine", "08-wasm", "09-localhost", "cometbls", "10-attestations",
		strings.Repeat("a", 43), strings.Repeat("a", 44), strings.Repeat("a", 63), " ", "a b")
	var valid []string
	for _, t := range cands {
		var verr error
		if p := core.Catch(func() { verr = clienttypes.ValidateClientType(t) }); p != "" {
			c.Violation(fmt.Sprintf("panic/validate-client-type/%q", t), "ValidateClientType panicked: "+p, map[string]any{"type": t})
			continue
		}
		st.evals++
		if verr == nil {
			valid = append(valid, t)
		}
	}
	c.Set("client_type_candidates", len(cands))
	c.Set("client_types_registrable", len(valid))
	if len(valid) < 10 {
		c.Broken("only %d client types pass ValidateClientType; the enumeration is vacuous", len(valid))
	}
	for _, t := range valid {
		for _, n := range lat {
			checkRoundTrip(c, "client", t, n)
			st.evals++
			st.nontrivial++
		}
	}
	for _, n := range lat {
		checkRoundTrip(c, "connection", "", n)
		checkRoundTrip(c, "channel", "", n)
		st.evals += 2
		st.nontrivial += 2
	}
	c.Sample(map[string]any{"part": "roundtrip", "type": valid[len(valid)/2], "seq": lat[len(lat)-1],
		"id": clienttypes.FormatClientIdentifier(valid[len(valid)/2], lat[len(lat)-1])})

	// --- crafted sequence spellings on every registrable type and on the two fixed prefixes ---
	seqs := seqStrings()
	accepted, mustReject, nonCanon := 0, 0, 0
	canonical := func(parser, id string, seq uint64) bool {
		switch parser {
		case "connection":
			return id == fmt.Sprintf("connection-%d", seq)
		case "channel":
			return id == fmt.Sprintf("channel-%d", seq)
		}
		return id == "09-localhost" || strings.HasSuffix(id, fmt.Sprintf("-%d", seq))
	}
	feed := func(parser, id string) {
		ok := checkParse(c, parser, id)
		st.evals++
		_, v, fits := refParse(parser, id)
		if ok {
			accepted++
			if fits && !canonical(parser, id, v) {
				nonCanon++
			}
		}
		if ok || !fits {
			st.nontrivial++
		}
		if !fits {
			mustReject++
		}
	}
	for _, s := range seqs {
		for _, t := range valid {
			feed("client", t+"-"+s)
		}
		feed("connection", "connection-"+s)
		feed("channel", "channel-"+s)
		// wrong or doubled prefixes
		for _, id := range []string{"connection-" + s + "connection-1", "xconnection-" + s, "connection" + s, "channel-" + s, "connection--" + s} {
			feed("connection", id)
		}
		for _, id := range []string{"channel-" + s + "channel-1", "xchannel-" + s, "channel" + s, "connection-" + s, "channel--" + s} {
			feed("channel", id)
		}
	}
	c.Sample(map[string]any{"part": "parse", "parser": "client", "id": "07-tendermint-" + two64.String(), "expected": "rejected"})

	// --- every short string to every parser (never panic, never mis-accept) ---
	raw := []string{"a", "0", "9", "-", "_", "/", " "}
	n := core.Pick(c, 5, 7)
	cnt := 0
	core.Strings(raw, n, func(s string) bool {
		cnt++
		if checkParse(c, "client", s) {
			accepted++
			st.nontrivial++
		}
		st.evals++
		return cnt%4096 != 0 || !c.TimeUp()
	})
	c.Set("raw_strings_to_client_parser", cnt)
	tail := []string{"0", "1", "9", "-", "a", " ", "+"}
	cnt = 0
	core.Strings(tail, core.Pick(c, 5, 6), func(s string) bool {
		cnt++
		for _, pr := range []struct{ parser, prefix string }{{"connection", "connection-"}, {"channel", "channel-"}} {
			_, fits := refSeq(s)
			if checkParse(c, pr.parser, pr.prefix+s) {
				accepted++
			}
			if fits {
				st.nontrivial++
			}
			checkParse(c, pr.parser, s)
			st.evals += 2
		}
		return cnt%4096 != 0 || !c.TimeUp()
	})
	c.Set("tail_strings_to_prefix_parsers", cnt)
	c.Set("sequence_spellings", len(seqs))
	c.Set("parser_inputs_accepted", accepted)
	c.Set("parser_inputs_with_out_of_range_or_malformed_sequence", mustReject)
	c.Set("accepted_non_canonical_spellings", nonCanon)
}

func run(c *core.C) {
	if c.Replay != "" {
		replay(c)
		return
	}
	st := &stats{}
	runS(c, st)
	runH(c, st)
	c.Set("evaluations", st.evals)
	c.Set("distinct_nontrivial", st.nontrivial)
	c.Set("rule", "S: (registrable client type x Lattice64 sequence) round trips, every crafted sequence spelling on every registrable type / fixed prefix, every short string to every parser; non-trivial = round trips, inputs the parser accepted, and inputs whose sequence part is malformed or >= 2^64 (must be rejected). H: every history of create-client / conn-open-init / chan-open-init attempts (each succeeding or failing, committed, reverted or with the error swallowed) up to the stated depth; non-trivial = histories with at least one committed success and at least one failed or reverted attempt")
	c.Assume("client types are filtered by the chain's own clienttypes.ValidateClientType; the sentinel identifier 09-localhost parses to (09-localhost, 0) by design")
	c.Assume("leading-zero spellings (e.g. 07-tendermint-007) are accepted by the parsers and read as the same number; the property only demands Parse(Format(x)) = x and rejection of sequences >= 2^64, so this is counted (accepted_non_canonical_spellings) but not a violation")
	c.Assume("identifier counters wrapping after 2^64 creations is outside the explored history depth")
}

func replay(c *core.C) {
	var probe struct {
		Part   string `json:"part"`
		Parser string `json:"parser"`
		Type   string `json:"type"`
		Seq    uint64 `json:"seq"`
		ID     string `json:"id"`
		Ops    []int  `json:"ops"`
	}
	if err := c.LoadReplay(&probe); err != nil {
		c.Broken("cannot load replay: %v", err)
		return
	}
	switch probe.Part {
	case "roundtrip":
		checkRoundTrip(c, probe.Parser, probe.Type, probe.Seq)
	case "parse":
		checkParse(c, probe.Parser, probe.ID)
	case "history":
		replayHistory(c, probe.Ops)
	default:
		c.Broken("unknown replay artefact part %q", probe.Part)
	}
}
