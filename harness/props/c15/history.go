package c15

import (
	"errors"
	"fmt"
	"strings"
	"time"

	"github.com/cosmos/gogoproto/proto"

	sdk "github.com/cosmos/cosmos-sdk/types"

	abci "github.com/cometbft/cometbft/abci/types"

	clienttypes "github.com/cosmos/ibc-go/v11/modules/core/02-client/types"
	connectiontypes "github.com/cosmos/ibc-go/v11/modules/core/03-connection/types"
	channeltypes "github.com/cosmos/ibc-go/v11/modules/core/04-channel/types"
	host "github.com/cosmos/ibc-go/v11/modules/core/24-host"
	ibctm "github.com/cosmos/ibc-go/v11/modules/light-clients/07-tendermint"
	ibcmock "github.com/cosmos/ibc-go/v11/testing/mock"

	"verif/harness/core"
	"verif/harness/ksim"
)

// Part H: histories of identifier-generating operations on one real chain (chain 0 of a ksim
// world; chain 1 only supplies the consensus state for the tendermint clients).
//
// Alphabet: {create-client, conn-open-init, chan-open-init} x
//   ok        - a valid message delivered as its own transaction (commits)
//   ok/rev    - the same handler run inside a transaction that is then reverted
//   fail      - a message whose handler fails (transaction fails)
//   fail/sw   - the failing handler run inside a transaction whose caller ignores the error and commits
//               whatever the handler had written before failing
// The failing create-client fails *after* the identifier was generated and the client state was
// written (expired consensus state), the failing chan-open-init fails in the application callback
// *after* the channel identifier was generated, the failing conn-open-init fails before.

const (
	kClient = iota
	kConn
	kChan
)

const (
	mOK = iota
	mOKReverted
	mFail
	mFailSwallowed
)

var kindName = []string{"client", "conn", "chan"}
var modeName = []string{"ok", "ok/reverted", "fail", "fail/swallowed"}

func opName(op int) string { return kindName[op/4] + ":" + modeName[op%4] }

func opsText(ops []int) string {
	s := make([]string, len(ops))
	for i, o := range ops {
		s[i] = opName(o)
	}
	return strings.Join(s, ",") // no blanks: the text is part of violation keys
}

const failVersion = "c15-refuse"

var errRevert = errors.New("c15: revert the enclosing transaction")

type hist struct {
	c        *core.C
	st       *stats
	wk       *ksim.Worker
	client0  string // set-up client on chain 0
	conn0    string // set-up connection (INIT) on chain 0
	maxDepth int
	nodes    int
	stop     bool
	opStats  map[string]int
	sampled  int
}

type counters [3]uint64

func (h *hist) counters(w *ksim.World) counters {
	k := h.wk.Chains[0].App.IBCKeeper
	ctx := w.CS[0].Ctx
	return counters{k.ClientKeeper.GetNextClientSequence(ctx), k.ConnectionKeeper.GetNextConnectionSequence(ctx), k.ChannelKeeper.GetNextChannelSequence(ctx)}
}

func (h *hist) msg(w *ksim.World, kind int, failing bool) sdk.Msg {
	switch kind {
	case kClient:
		hgt := w.CS[1].H()
		cons, ok := w.ConsensusStateAt(1, hgt)
		if !ok {
			panic("no committed state for the counterparty chain")
		}
		if failing {
			// consensus state far older than the trusting period: Initialize succeeds, Status is Expired, CreateClient fails late
			cons = ibctm.NewConsensusState(time.Unix(0, ksim.T0).Add(-365*24*time.Hour).UTC(), cons.Root, cons.NextValidatorsHash)
		}
		m, err := clienttypes.NewMsgCreateClient(w.TMClientState(1, hgt), cons, ksim.Signer)
		if err != nil {
			panic(err)
		}
		return m
	case kConn:
		cl := h.client0
		if failing {
			cl = "07-tendermint-4242" // no such client
		}
		return connectiontypes.NewMsgConnectionOpenInit(cl, "07-tendermint-0", ksim.Prefix, nil, 0, ksim.Signer)
	default:
		v := ibcmock.Version
		if failing {
			v = failVersion // refused by the application callback after the channel identifier was generated
		}
		return channeltypes.NewMsgChannelOpenInit("mock", v, channeltypes.UNORDERED, []string{h.conn0}, "mock", ksim.Signer)
	}
}

func attr(evs []abci.Event, typ, key string) string {
	for _, e := range evs {
		if e.Type != typ {
			continue
		}
		for _, a := range e.Attributes {
			if a.Key == key {
				return a.Value
			}
		}
	}
	return ""
}

func idOf(kind int, resp []byte, evs []abci.Event) string {
	switch kind {
	case kClient:
		var r clienttypes.MsgCreateClientResponse
		if err := proto.Unmarshal(resp, &r); err != nil {
			panic(err)
		}
		return r.ClientId
	case kConn:
		return attr(evs, connectiontypes.EventTypeConnectionOpenInit, connectiontypes.AttributeKeyConnectionID)
	default:
		var r channeltypes.MsgChannelOpenInitResponse
		if err := proto.Unmarshal(resp, &r); err != nil {
			panic(err)
		}
		return r.ChannelId
	}
}

// outcome of one attempt
type outcome struct {
	id        string // identifier returned by the handler ("" when it failed)
	committed bool   // the handler's writes are part of the chain state afterwards
	handlerOK bool
}

// exec runs op on w (mutating it when the attempt commits).
func (h *hist) exec(w *ksim.World, op int) outcome {
	kind, mode := op/4, op%4
	m := h.msg(w, kind, mode >= mFail)
	var out outcome
	switch mode {
	case mOK, mFail:
		r := w.Tx(0, m)
		if r.Class == ksim.OK {
			out = outcome{id: idOf(kind, r.Resp, r.Events), committed: true, handlerOK: true}
		}
	default:
		if vb, ok := m.(sdk.HasValidateBasic); ok {
			if err := vb.ValidateBasic(); err != nil {
				return out
			}
		}
		handler := h.wk.Chains[0].App.MsgServiceRouter().Handler(m)
		r := w.Do(0, func(ctx sdk.Context) error {
			res, err := handler(ctx, m)
			if err == nil {
				out.handlerOK = true
				var resp []byte
				if len(res.MsgResponses) > 0 {
					resp = res.MsgResponses[0].Value
				}
				out.id = idOf(kind, resp, res.Events)
			}
			if mode == mOKReverted {
				return errRevert
			}
			return nil // error swallowed by the caller: the transaction commits
		})
		if r.Class == ksim.PANIC {
			out = outcome{}
		}
		out.committed = r.Class == ksim.OK && out.handlerOK
	}
	return out
}

func validID(kind int, id string) error {
	switch kind {
	case kClient:
		if err := host.ClientIdentifierValidator(id); err != nil {
			return err
		}
		if !clienttypes.IsValidClientID(id) {
			return fmt.Errorf("%q is not in client identifier format", id)
		}
	case kConn:
		if err := host.ConnectionIdentifierValidator(id); err != nil {
			return err
		}
		if !connectiontypes.IsValidConnectionID(id) {
			return fmt.Errorf("%q is not in connection identifier format", id)
		}
	default:
		if err := host.ChannelIdentifierValidator(id); err != nil {
			return err
		}
		if !channeltypes.IsValidChannelID(id) {
			return fmt.Errorf("%q is not in channel identifier format", id)
		}
	}
	return nil
}

type hReplay struct {
	Part string `json:"part"`
	Ops  []int  `json:"ops"`
	Text string `json:"text"`
}

// step applies op to w and checks the three oracles; seen holds the identifiers returned by
// committed successes so far (including the set-up ones). It returns the extended seen list.
func (h *hist) step(w *ksim.World, path []int, seen []string) ([]string, outcome) {
	op := path[len(path)-1]
	before := h.counters(w)
	out := h.exec(w, op)
	after := h.counters(w)
	art := hReplay{Part: "history", Ops: append([]int{}, path...), Text: opsText(path)}
	for i := range before {
		if after[i] < before[i] {
			h.c.Violation(fmt.Sprintf("history/counter-decreased/%s/%s", kindName[i], opsText(path)),
				fmt.Sprintf("next %s sequence went from %d to %d in history [%s]", kindName[i], before[i], after[i], opsText(path)), art)
		}
	}
	h.opStats[opName(op)+"="+map[bool]string{true: "returned-id", false: "no-id"}[out.handlerOK]]++
	if out.handlerOK {
		if out.id == "" {
			h.c.Broken("handler of %s succeeded without returning an identifier in [%s]", opName(op), opsText(path))
		} else if err := validID(op/4, out.id); err != nil {
			h.c.Violation(fmt.Sprintf("history/invalid-id/%s", out.id), fmt.Sprintf("generated identifier fails validation in [%s]: %v", opsText(path), err), art)
		}
	}
	if out.committed && out.id != "" {
		tag := kindName[op/4] + "/" + out.id
		for _, s := range seen {
			if s == tag {
				h.c.Violation(fmt.Sprintf("history/reused/%s", opsText(path)),
					fmt.Sprintf("identifier %s was handed out twice by committed operations in history [%s]", out.id, opsText(path)), art)
			}
		}
		seen = append(seen[:len(seen):len(seen)], tag)
	}
	return seen, out
}

func (h *hist) dfs(w *ksim.World, path []int, seen []string, committedOK, otherAttempts int) {
	for op := 0; op < 12; op++ {
		if h.stop {
			return
		}
		child := w.Fork()
		p := append(path[:len(path):len(path)], op)
		s2, out := h.step(child, p, seen)
		h.nodes++
		h.st.evals++
		co, oa := committedOK, otherAttempts
		if out.committed && out.id != "" && op%4 == mOK {
			co++
		} else {
			oa++
		}
		if co > 0 && oa > 0 {
			h.st.nontrivial++
		}
		if h.sampled < 3 && len(p) == h.maxDepth && co >= 2 && oa >= 2 && h.nodes%997 == 0 {
			h.sampled++
			h.c.Sample(map[string]any{"part": "history", "ops": opsText(p), "committed_ids": strings.Join(s2, " ")})
		}
		if h.nodes%512 == 0 && h.c.TimeUp() {
			h.stop = true
			return
		}
		if len(p) < h.maxDepth {
			h.dfs(child, p, s2, co, oa)
		}
	}
}

// setup builds the worker, the root world with one client and one INIT connection on chain 0.
func newHist(c *core.C, st *stats) (*hist, *ksim.World, []string) {
	h := &hist{c: c, st: st, opStats: map[string]int{}}
	h.wk = ksim.NewWorker(c.T, 2)
	app := h.wk.Chains[0].App
	app.IBCMockModule.IBCApp.OnChanOpenInit = func(_ sdk.Context, _ channeltypes.Order, _ []string, _ string, _ string, _ channeltypes.Counterparty, version string) (string, error) {
		if version == failVersion {
			return "", errors.New("c15: application refuses the channel")
		}
		return version, nil
	}
	w := h.wk.Root()
	var r ksim.Result
	h.client0, r = w.CreateClient(0, 1)
	ksim.MustOK("create client", r)
	r = w.Tx(0, connectiontypes.NewMsgConnectionOpenInit(h.client0, "07-tendermint-0", ksim.Prefix, nil, 0, ksim.Signer))
	ksim.MustOK("conn open init", r)
	h.conn0 = attr(r.Events, connectiontypes.EventTypeConnectionOpenInit, connectiontypes.AttributeKeyConnectionID)
	w.Flatten()
	seen := []string{"client/" + h.client0, "conn/" + h.conn0}
	return h, w, seen
}

func runH(c *core.C, st *stats) {
	var (
		h    *hist
		root *ksim.World
		seen []string
	)
	if p := core.Catch(func() { h, root, seen = newHist(c, st) }); p != "" {
		c.Broken("history set-up failed: %s", p)
		return
	}
	// self-check of the alphabet at the root: ok variants return an id, failing variants do not
	for op := 0; op < 12; op++ {
		out := h.exec(root.Fork(), op)
		want := op%4 < mFail
		if out.handlerOK != want {
			c.Broken("alphabet self-check: %s at the root: handler success=%v, expected %v", opName(op), out.handlerOK, want)
			return
		}
		if wantCommit := op%4 == mOK; out.committed != wantCommit {
			c.Broken("alphabet self-check: %s at the root: committed=%v, expected %v", opName(op), out.committed, wantCommit)
			return
		}
	}
	h.maxDepth = core.Pick(c, 4, 6)
	h.dfs(root, nil, seen, 0, 0)
	c.Set("history_depth", h.maxDepth)
	c.Set("history_alphabet", 12)
	c.Set("history_sequences", h.nodes)
	c.Set("history_op_outcomes", h.opStats)
}

func replayHistory(c *core.C, ops []int) {
	st := &stats{}
	var (
		h    *hist
		w    *ksim.World
		seen []string
	)
	if p := core.Catch(func() { h, w, seen = newHist(c, st) }); p != "" {
		c.Broken("history set-up failed: %s", p)
		return
	}
	for i := range ops {
		if ops[i] < 0 || ops[i] >= 12 {
			c.Broken("bad op in replay")
			return
		}
		seen, _ = h.step(w, ops[:i+1], seen)
	}
}
