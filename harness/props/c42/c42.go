// Package c42 decides C42: for every ICS-20 packet, v1 or v2, rate limiting charges a send or a
// receive to exactly the denomination and channel that ICS-20 uses (the one it escrows or burns on
// send, mints or unescrows on receive), so the shape of a denomination path cannot bypass a limit.
//
// Differential on real code: every packet of the stated family is run through the complete stack
// of a real chain (rate limiting -> packet forward -> transfer for v1, rate limiting -> transfer
// for v2). What ICS-20 moved is read from the bank store (balance / supply differences and the
// escrow account they hit); what rate limiting charged is read from the rate-limit store (which
// stored RateLimit changed its Flow). Rate limits exist for every candidate (denomination,
// channel) pair, added with MsgAddRateLimit by the authority, so "the limit that covers the coin
// ICS-20 moved" can be told apart from "some other limit".
package c42

import (
	"crypto/sha256"
	"encoding/hex"
	"fmt"
	"sort"
	"strings"

	"github.com/cosmos/gogoproto/proto"

	sdkmath "cosmossdk.io/math"

	sdk "github.com/cosmos/cosmos-sdk/types"
	authtypes "github.com/cosmos/cosmos-sdk/x/auth/types"
	govtypes "github.com/cosmos/cosmos-sdk/x/gov/types"
	minttypes "github.com/cosmos/cosmos-sdk/x/mint/types"

	abci "github.com/cometbft/cometbft/abci/types"

	ratelimittypes "github.com/cosmos/ibc-go/v11/modules/apps/rate-limiting/types"
	transfertypes "github.com/cosmos/ibc-go/v11/modules/apps/transfer/types"
	clienttypes "github.com/cosmos/ibc-go/v11/modules/core/02-client/types"
	channeltypes "github.com/cosmos/ibc-go/v11/modules/core/04-channel/types"
	channeltypesv2 "github.com/cosmos/ibc-go/v11/modules/core/04-channel/v2/types"
	host "github.com/cosmos/ibc-go/v11/modules/core/24-host"
	ibctesting "github.com/cosmos/ibc-go/v11/testing"

	"verif/harness/core"
	"verif/harness/ksim"
)

func init() { core.Register("C42", "exploration", run) }

const (
	amount = 3
	unit   = 1_000_000 // provisioned per (coin, account); also the size of every channel value
	port   = transfertypes.PortID
)

var (
	quickSegs    = []string{"uatom", "transfer", "channel-0", "channel-1", "x"}
	thoroughSegs = []string{"uatom", "transfer", "channel-0", "channel-1", "x", "07-tendermint-0", "channel-7"}
	// the prefix world: both chains own channel-1 and channel-10 (one identifier is a string prefix of the other)
	prefixSegs = []string{"uatom", "transfer", "channel-1", "channel-10", "x"}

	userA     = sdk.AccAddress([]byte("verif-c42-user-a-000"))
	bystander = sdk.AccAddress([]byte("verif-c42-bystander0"))
	authority = authtypes.NewModuleAddress(govtypes.ModuleName).String()
	peerAddr  = "verif-c42-account-on-counterparty"
)

// four-segment paths of the quick tier (the thorough tier enumerates all of them)
var quickQuads = []string{
	"uatom/channel-0/x/uatom", "uatom/channel-0/x/channel-1", "uatom/channel-0/channel-1/uatom", "channel-0/channel-1/channel-0/x", "transfer/channel-0/transfer/channel-1", "transfer/channel-1/transfer/channel-0",
	"transfer/channel-0/uatom/x", "transfer/channel-1/uatom/channel-0", "x/channel-1/uatom/uatom", "uatom/x/channel-0/uatom",
	"transfer/channel-0/transfer/uatom", "channel-0/channel-1/channel-0/channel-1", "uatom/uatom/uatom/channel-0", "transfer/transfer/channel-1/x",
}

var quickPrefixQuads = []string{
	"transfer/channel-10/transfer/channel-1", "transfer/channel-1/transfer/channel-10", "transfer/channel-10/uatom/x", "uatom/channel-10/x/uatom",
	"transfer/channel-1/uatom/channel-10", "uatom/channel-1/channel-10/uatom",
}

// family lists the paths of a world kind.
func family(c *core.C, kind string) []string {
	segs, maxSeg, extra := quickSegs, 3, quickQuads
	if !c.Quick() {
		segs, maxSeg = thoroughSegs, 4
	}
	if kind == "prefix" {
		segs, extra = prefixSegs, quickPrefixQuads
	}
	var out []string
	for n := 1; n <= maxSeg; n++ {
		dims := make([]int, n)
		for i := range dims {
			dims[i] = len(segs)
		}
		core.Product(dims, func(idx []int) bool {
			parts := make([]string, n)
			for i, j := range idx {
				parts[i] = segs[j]
			}
			out = append(out, strings.Join(parts, "/"))
			return true
		})
	}
	if c.Quick() {
		out = append(out, extra...)
	}
	return out
}

func voucherOf(path string) string {
	h := sha256.Sum256([]byte(path))
	return "ibc/" + strings.ToUpper(hex.EncodeToString(h[:]))
}

// candidateCoins lists, for the whole family, every coin ICS-20 or rate limiting could conceivably
// read out of a path: each path (= each suffix, the family is suffix-closed) and each path prefixed
// with one of A's hops, as a native coin (when it is an SDK denomination) and as a voucher.
func candidateCoins(fam, ids []string) []string {
	seen := map[string]bool{}
	var out []string
	add := func(d string) {
		if !seen[d] {
			seen[d] = true
			out = append(out, d)
		}
	}
	for _, p := range fam {
		strs := []string{p}
		for _, id := range ids {
			strs = append(strs, port+"/"+id+"/"+p)
		}
		for _, s := range strs {
			add(voucherOf(s))
			if sdk.ValidateDenom(s) == nil && !strings.HasPrefix(s, "ibc/") {
				add(s)
			}
		}
	}
	sort.Strings(out)
	return out
}

// ---- worlds -------------------------------------------------------------------------------------

type route struct {
	Name string // v1 | v2-alias | v2-client
	V2   bool
	A, B string // identifier of the path on A and on B
}

type world struct {
	name   string
	wk     *ksim.Worker
	base   *ksim.World
	link   *ksim.Link
	routes []route
	ids    []string          // identifiers chain A knows paths by
	fam    []string          // the paths evaluated in this world
	escrow map[string]string // escrow address (bech32) -> identifier on A
	coins  map[string]bool
}

func mustProof(w *ksim.World, on int, clientID string, of int, key []byte) ([]byte, clienttypes.Height) {
	ph := w.ClientLatest(on, clientID)
	proof, ok := w.ProofAt(of, int64(ph.RevisionHeight), "ibc", key)
	if !ok {
		panic("c42: no committed state for a handshake proof")
	}
	return proof, ph
}

// finishFromB completes a channel whose INIT end chanB already exists on B (A runs TRY).
func finishFromB(w *ksim.World, l *ksim.Link, chanB string) string {
	w.Sync(0, l.ClientA, 1)
	proof, ph := mustProof(w, 0, l.ClientA, 1, host.ChannelKey(port, chanB))
	r := w.Tx(0, channeltypes.NewMsgChannelOpenTry(port, transfertypes.V1, channeltypes.UNORDERED, []string{l.ConnA}, port, chanB, transfertypes.V1, proof, ph, ksim.Signer))
	ksim.MustOK("chan try on A", r)
	var tr channeltypes.MsgChannelOpenTryResponse
	if err := proto.Unmarshal(r.Resp, &tr); err != nil {
		panic(err)
	}
	w.Sync(1, l.ClientB, 0)
	proof, ph = mustProof(w, 1, l.ClientB, 0, host.ChannelKey(port, tr.ChannelId))
	ksim.MustOK("chan ack on B", w.Tx(1, channeltypes.NewMsgChannelOpenAck(port, chanB, tr.ChannelId, tr.Version, proof, ph, ksim.Signer)))
	w.Sync(0, l.ClientA, 1)
	proof, ph = mustProof(w, 0, l.ClientA, 1, host.ChannelKey(port, chanB))
	ksim.MustOK("chan confirm on A", w.Tx(0, channeltypes.NewMsgChannelOpenConfirm(port, tr.ChannelId, proof, ph, ksim.Signer)))
	return tr.ChannelId
}

// buildWorld opens two transfer channels between A and B. straight: A.channel-i <-> B.channel-i;
// crossed: A.channel-0 <-> B.channel-1 and A.channel-1 <-> B.channel-0 (together they realise all four
// (source, destination) pairs over {channel-0, channel-1}, in both directions); prefix: dangling channel
// ends bump the counters of both chains so that the two channels are channel-1 and channel-10 on either
// chain, i.e. one identifier is a proper string prefix of the other.
func buildWorld(c *core.C, wk *ksim.Worker, name string, fam []string) *world {
	w := wk.Root()
	l := w.SetupClients(0, 1)
	w.SetupConnection(l, 0)
	var ends [2][2]string // [i] = {id on A, id on B}
	var want [2][2]string
	dangling := func(n int) {
		for k := 0; k < n; k++ {
			ksim.MustOK("dangling channel end on A", w.Tx(0, channeltypes.NewMsgChannelOpenInit(port, transfertypes.V1, channeltypes.UNORDERED, []string{l.ConnA}, port, ksim.Signer)))
			ksim.MustOK("dangling channel end on B", w.Tx(1, channeltypes.NewMsgChannelOpenInit(port, transfertypes.V1, channeltypes.UNORDERED, []string{l.ConnB}, port, ksim.Signer)))
		}
	}
	switch name {
	case "straight":
		for i := 0; i < 2; i++ {
			cp := w.SetupChannel(l, port, port, transfertypes.V1, channeltypes.UNORDERED)
			ends[i] = [2]string{cp.ChanA, cp.ChanB}
		}
		want = [2][2]string{{"channel-0", "channel-0"}, {"channel-1", "channel-1"}}
	case "crossed":
		r := w.Tx(1, channeltypes.NewMsgChannelOpenInit(port, transfertypes.V1, channeltypes.UNORDERED, []string{l.ConnB}, port, ksim.Signer))
		ksim.MustOK("chan init on B", r)
		var ir channeltypes.MsgChannelOpenInitResponse
		if err := proto.Unmarshal(r.Resp, &ir); err != nil {
			panic(err)
		}
		cp := w.SetupChannel(l, port, port, transfertypes.V1, channeltypes.UNORDERED)
		ends[0] = [2]string{cp.ChanA, cp.ChanB}
		ends[1] = [2]string{finishFromB(w, l, ir.ChannelId), ir.ChannelId}
		want = [2][2]string{{"channel-0", "channel-1"}, {"channel-1", "channel-0"}}
	case "prefix":
		dangling(1) // channel-0 on both chains
		cp := w.SetupChannel(l, port, port, transfertypes.V1, channeltypes.UNORDERED)
		ends[0] = [2]string{cp.ChanA, cp.ChanB}
		dangling(8) // channel-2 .. channel-9
		cp = w.SetupChannel(l, port, port, transfertypes.V1, channeltypes.UNORDERED)
		ends[1] = [2]string{cp.ChanA, cp.ChanB}
		want = [2][2]string{{"channel-1", "channel-1"}, {"channel-10", "channel-10"}}
	default:
		panic("c42: unknown world " + name)
	}
	w.RegisterCounterparties(l)
	if ends != want {
		c.Broken("world %s: transfer channels are %v, expected %v", name, ends, want)
		return nil
	}
	if l.ClientA != "07-tendermint-0" || l.ClientB != "07-tendermint-0" {
		c.Broken("world %s: unexpected client identifiers %s / %s", name, l.ClientA, l.ClientB)
		return nil
	}
	crossed := name != "straight"
	idsA := []string{ends[0][0], ends[1][0], l.ClientA}
	coins := candidateCoins(fam, idsA)
	wd := &world{name: name, wk: wk, link: l, ids: idsA, fam: fam, escrow: map[string]string{}, coins: map[string]bool{}}
	for i := 0; i < 2; i++ {
		wd.routes = append(wd.routes, route{Name: "v1", A: ends[i][0], B: ends[i][1]}, route{Name: "v2-alias", V2: true, A: ends[i][0], B: ends[i][1]})
	}
	if !crossed {
		wd.routes = append(wd.routes, route{Name: "v2-client", V2: true, A: l.ClientA, B: l.ClientB})
	}
	for _, id := range idsA {
		wd.escrow[sdk.AccAddress(transfertypes.GetEscrowAddress(port, id)).String()] = id
	}

	// provisioning: every candidate coin exists (so a limit can be added for it), the user holds it (so
	// any send can be funded) and every escrow account of A holds it, tracked (so any release can be funded)
	app := wk.Chains[0].App
	var all sdk.Coins
	for _, d := range coins {
		wd.coins[d] = true
		all = append(all, sdk.Coin{Denom: d, Amount: sdkmath.NewInt(unit)})
	}
	all = all.Sort()
	holders := []sdk.AccAddress{userA, bystander}
	for _, id := range idsA {
		holders = append(holders, transfertypes.GetEscrowAddress(port, id))
	}
	ksim.MustOK("provision", w.Do(0, func(ctx sdk.Context) error {
		for _, h := range holders {
			if err := app.BankKeeper.MintCoins(ctx, minttypes.ModuleName, all); err != nil {
				return err
			}
			if err := app.BankKeeper.SendCoinsFromModuleToAccount(ctx, minttypes.ModuleName, h, all); err != nil {
				return err
			}
		}
		for _, coin := range all {
			app.TransferKeeper.SetTotalEscrowForDenom(ctx, sdk.NewCoin(coin.Denom, coin.Amount.MulRaw(int64(len(idsA)))))
		}
		return nil
	}))
	hundred := sdkmath.NewInt(100)
	for _, d := range coins {
		for _, id := range idsA {
			msg := ratelimittypes.NewMsgAddRateLimit(d, id, hundred, hundred, 24)
			msg.Signer = authority
			if r := w.Tx(0, msg); r.Class != ksim.OK {
				c.Broken("world %s: MsgAddRateLimit(%s, %s) failed: %s %v", name, d, id, r, r.Err)
				return nil
			}
		}
	}
	w.Sync(1, l.ClientB, 0)
	w.Sync(0, l.ClientA, 1)
	w.Flatten()
	wd.base = w
	return wd
}

// ---- observation --------------------------------------------------------------------------------

type move struct {
	Addr  string // bech32 address, or "supply"
	Denom string
	Delta sdkmath.Int
}

func bankDiff(pre, post *ksim.World, chain int) []move {
	bank := pre.W.Chains[chain].App.BankKeeper
	keys := ksim.DiffStores(pre.DumpStores(chain, []string{"bank"}), post.DumpStores(chain, []string{"bank"}))
	var out []move
	for _, k := range keys {
		raw := []byte(strings.TrimPrefix(k, "bank/"))
		if len(raw) < 2 {
			continue
		}
		switch raw[0] {
		case 0: // supply: 0x00 | denom
			d := string(raw[1:])
			delta := bank.GetSupply(post.CS[chain].Ctx, d).Amount.Sub(bank.GetSupply(pre.CS[chain].Ctx, d).Amount)
			if !delta.IsZero() {
				out = append(out, move{Addr: "supply", Denom: d, Delta: delta})
			}
		case 2: // balance: 0x02 | len(addr) | addr | denom
			l := int(raw[1])
			if len(raw) < 2+l {
				continue
			}
			addr, d := sdk.AccAddress(raw[2:2+l]), string(raw[2+l:])
			delta := bank.GetBalance(post.CS[chain].Ctx, addr, d).Amount.Sub(bank.GetBalance(pre.CS[chain].Ctx, addr, d).Amount)
			if !delta.IsZero() {
				out = append(out, move{Addr: addr.String(), Denom: d, Delta: delta})
			}
		}
	}
	return out
}

func movesText(ms []move) string {
	s := make([]string, len(ms))
	for i, m := range ms {
		s[i] = fmt.Sprintf("%s %s %s", m.Addr, m.Delta, m.Denom)
	}
	return "[" + strings.Join(s, "; ") + "]"
}

// ics20 is what the transfer module did, as seen in the bank store.
type ics20 struct {
	Denom   string `json:"bank_denom_moved"`
	Kind    string `json:"kind"`    // mint | unescrow | burn | escrow
	Channel string `json:"channel"` // the channel whose escrow moved; for mint / burn the channel the packet names on A
}

// classify reads the single user-side movement and its counterpart out of a bank diff.
func (wd *world) classify(ms []move, recv bool, packetChan string) (ics20, string) {
	sign := int64(-1)
	if recv {
		sign = 1
	}
	var o ics20
	var rest []move
	n := 0
	for _, m := range ms {
		if m.Addr == userA.String() {
			if !m.Delta.Equal(sdkmath.NewInt(sign * amount)) {
				return o, "user balance changed by " + m.Delta.String() + " " + m.Denom
			}
			o.Denom = m.Denom
			n++
			continue
		}
		rest = append(rest, m)
	}
	if n != 1 || len(rest) != 1 || rest[0].Denom != o.Denom {
		return o, "unexpected bank changes " + movesText(ms)
	}
	m := rest[0]
	switch {
	case m.Addr == "supply" && m.Delta.Equal(sdkmath.NewInt(sign*amount)):
		o.Kind, o.Channel = "burn", packetChan
		if recv {
			o.Kind = "mint"
		}
	case wd.escrow[m.Addr] != "" && m.Delta.Equal(sdkmath.NewInt(-sign*amount)):
		o.Kind, o.Channel = "escrow", wd.escrow[m.Addr]
		if recv {
			o.Kind = "unescrow"
		}
	default:
		return o, "unexpected bank changes " + movesText(ms)
	}
	return o, ""
}

// charge is one stored rate limit whose flow changed.
type charge struct {
	Denom   string `json:"denom"`
	Channel string `json:"channel"`
	In      string `json:"inflow_delta"`
	Out     string `json:"outflow_delta"`
}

func (ch charge) String() string {
	return fmt.Sprintf("(%s, %s) inflow %s outflow %s", ch.Denom, ch.Channel, ch.In, ch.Out)
}

// charges reads from the rate-limit store which limits changed between pre and post.
func charges(pre, post *ksim.World) ([]charge, string) {
	k := pre.W.Chains[0].App.RateLimitKeeper
	d1, d2 := pre.DumpStores(0, []string{"ratelimit"}), post.DumpStores(0, []string{"ratelimit"})
	pfx := "ratelimit/" + string(ratelimittypes.RateLimitKeyPrefix)
	var out []charge
	for _, key := range ksim.DiffStores(d1, d2) {
		if !strings.HasPrefix(key, pfx) {
			continue // pending-packet bookkeeping
		}
		val, ok := d2[key]
		if !ok || val == "\x00<deleted>" {
			return nil, "a rate limit disappeared: " + key
		}
		var rl ratelimittypes.RateLimit
		if err := proto.Unmarshal([]byte(val), &rl); err != nil || rl.Path == nil || rl.Flow == nil {
			return nil, "undecodable rate limit under " + key
		}
		old, found := k.GetRateLimit(pre.CS[0].Ctx, rl.Path.Denom, rl.Path.ChannelOrClientId)
		if !found {
			return nil, "a rate limit appeared: " + key
		}
		in, o := rl.Flow.Inflow.Sub(old.Flow.Inflow), rl.Flow.Outflow.Sub(old.Flow.Outflow)
		if in.IsZero() && o.IsZero() {
			continue
		}
		out = append(out, charge{Denom: rl.Path.Denom, Channel: rl.Path.ChannelOrClientId, In: in.String(), Out: o.String()})
	}
	return out, ""
}

// ---- cases --------------------------------------------------------------------------------------

type kase struct {
	World   string   `json:"world"`
	Route   string   `json:"route"`
	Chan    string   `json:"channel_on_A"`
	Peer    string   `json:"channel_on_B"`
	Dir     string   `json:"direction"` // recv | send-native | send-path | send-voucher
	Path    string   `json:"packet_denom_path"`
	Coin    string   `json:"coin,omitempty"`          // send: the coin named by MsgTransfer (v1)
	From    string   `json:"received_over,omitempty"` // send-voucher: the channel the voucher arrived on
	ICS20   *ics20   `json:"ics20,omitempty"`
	Charged []charge `json:"charged,omitempty"`
}

type verdict struct {
	trivial string // ICS-20 moved nothing: why
	broken  string
	bad     string // violation text
}

// judge compares what ICS-20 moved with what rate limiting charged.
func judge(k *kase, recv bool) string {
	wantIn, wantOut := "0", fmt.Sprint(amount)
	if recv {
		wantIn, wantOut = wantOut, wantIn
	}
	okSeen := false
	var wrong []string
	for _, ch := range k.Charged {
		if ch.Denom == k.ICS20.Denom && ch.Channel == k.ICS20.Channel && ch.In == wantIn && ch.Out == wantOut {
			okSeen = true
			continue
		}
		wrong = append(wrong, ch.String())
	}
	if okSeen && len(wrong) == 0 {
		return ""
	}
	got := "no rate limit at all"
	if len(k.Charged) > 0 {
		all := make([]string, len(k.Charged))
		for i, ch := range k.Charged {
			all[i] = ch.String()
		}
		got = strings.Join(all, ", ")
	}
	return fmt.Sprintf("ICS-20 %s %d %s on %s but rate limiting charged %s (a limit on (%s, %s) exists and %s)", k.ICS20.Kind, amount, k.ICS20.Denom, k.ICS20.Channel, got,
		k.ICS20.Denom, k.ICS20.Channel, map[bool]string{true: "was charged as well", false: "stayed untouched: it is bypassed"}[okSeen])
}

func ackSuccess(v2 bool, evs []abci.Event) (bool, error) {
	var app []byte
	if v2 {
		bz, err := ibctesting.ParseAckV2FromEvents(evs)
		if err != nil {
			return false, err
		}
		var a channeltypesv2.Acknowledgement
		if err := proto.Unmarshal(bz, &a); err != nil {
			return false, err
		}
		if len(a.AppAcknowledgements) != 1 {
			return false, fmt.Errorf("%d application acknowledgements", len(a.AppAcknowledgements))
		}
		app = a.AppAcknowledgements[0]
		if string(app) == string(channeltypesv2.ErrorAcknowledgement[:]) {
			return false, nil
		}
	} else {
		bz, err := ibctesting.ParseAckFromEvents(evs)
		if err != nil {
			return false, err
		}
		app = bz
	}
	var a channeltypes.Acknowledgement
	if err := transfertypes.ModuleCdc.UnmarshalJSON(app, &a); err != nil {
		return false, nil
	}
	return a.Success(), nil
}

// observe runs act on a fork of pre and fills in what ICS-20 moved and what rate limiting charged.
func (wd *world) observe(pre *ksim.World, k *kase, recv bool, act func(w *ksim.World) ksim.Result) (*ksim.World, verdict) {
	w := pre.Fork()
	r := act(w)
	if r.Class != ksim.OK {
		if r.Class == ksim.PANIC {
			return nil, verdict{trivial: "tx-PANIC"}
		}
		return nil, verdict{trivial: "tx-" + r.String()}
	}
	ms := bankDiff(pre, w, 0)
	chg, bad := charges(pre, w)
	if bad != "" {
		return nil, verdict{broken: bad}
	}
	k.Charged = chg
	if recv {
		ok, err := ackSuccess(k.Route != "v1", r.Events)
		if err != nil {
			return nil, verdict{broken: "no acknowledgement in receive events: " + err.Error()}
		}
		if !ok {
			if len(ms) != 0 {
				return nil, verdict{broken: "error acknowledgement but bank changes " + movesText(ms)}
			}
			return nil, verdict{trivial: "error-ack"}
		}
	}
	o, why := wd.classify(ms, recv, k.Chan)
	if why != "" {
		return nil, verdict{broken: why}
	}
	k.ICS20 = &o
	if !wd.coins[o.Denom] {
		return w, verdict{broken: fmt.Sprintf("ICS-20 moved %s which is outside the provisioned candidate set", o.Denom)}
	}
	return w, verdict{bad: judge(k, recv)}
}

// ---- shapes / keys ------------------------------------------------------------------------------

func segClass(s string) string {
	switch {
	case s == port:
		return "transfer"
	case s == "":
		return "_"
	case channeltypes.IsValidChannelID(s):
		return "chan"
	case clienttypes.IsValidClientID(s):
		return "client"
	}
	return "w"
}

func shape(p string) string {
	segs := strings.Split(p, "/")
	for i, s := range segs {
		segs[i] = segClass(s)
	}
	return strings.Join(segs, "/")
}

// signature abstracts a path to what the hop heuristics look at: which segments after the first are
// identifier-like (i: a channel or client identifier) and which are not (w); the first segment is only
// ever read as a port name (*).
func signature(p string) string {
	segs := strings.Split(p, "/")
	for i, s := range segs {
		switch {
		case i == 0:
			segs[i] = "*"
		case channeltypes.IsValidChannelID(s) || clienttypes.IsValidClientID(s):
			segs[i] = "i"
		case s == "":
			segs[i] = "_"
		default:
			segs[i] = "w"
		}
	}
	return strings.Join(segs, "/")
}

func coinClass(d string) string {
	if strings.HasPrefix(d, "ibc/") {
		return "voucher"
	}
	return "native"
}

// chargedClass summarises which limits were charged instead of / besides the right one.
func chargedClass(k *kase) string {
	var cls []string
	for _, ch := range k.Charged {
		if ch.Denom == k.ICS20.Denom && ch.Channel == k.ICS20.Channel {
			cls = append(cls, "right-limit-wrong-amount")
			continue
		}
		x := coinClass(ch.Denom)
		if ch.Denom == k.ICS20.Denom {
			x = "same-coin"
		}
		if ch.Channel != k.ICS20.Channel {
			x += "@other-channel"
		}
		cls = append(cls, x)
	}
	if len(cls) == 0 {
		return "nothing"
	}
	sort.Strings(cls)
	return strings.Join(cls, "+")
}

// ---- driver -------------------------------------------------------------------------------------

type stats struct {
	evals, moved int
	exhaustive   bool
	bySeen       map[string]bool
}

func (wd *world) report(c *core.C, k *kase, v verdict, st *stats) bool {
	st.evals++
	name := k.Route + ":" + k.Dir
	switch {
	case v.broken != "":
		c.Broken("%s %s %s over %s path %q: %s", wd.name, k.Route, k.Dir, k.Chan, k.Path, v.broken)
		return false
	case v.trivial != "":
		c.Hist("ics20_moved_nothing", name+":"+v.trivial)
		return true
	}
	st.moved++
	c.Hist("ics20_moved", name+":"+k.ICS20.Kind)
	if st.moved%997 == 1 {
		c.Sample(k)
	}
	if v.bad != "" {
		proto := "v1"
		if k.Route != "v1" {
			proto = "v2"
		}
		// the key names the kind of disagreement (direction, protocol, what ICS-20 did with which class of
		// coin, what class of limit was charged instead) and the path's signature; finer shapes are in the coverage
		key := fmt.Sprintf("%s/%s/%s/moved=%s/charged=%s/path~%s", k.Dir, proto, k.ICS20.Kind, coinClass(k.ICS20.Denom), chargedClass(k), signature(k.Path))
		c.Hist("disagreements", name+":"+k.ICS20.Kind+":"+shape(k.Path))
		c.Hist("disagreement_keys", key)
		c.Violation(key, fmt.Sprintf("world %s, %s over %s (peer %s), packet denomination %q: %s", wd.name, k.Route, k.Chan, k.Peer, k.Path, v.bad), k)
	}
	return true
}

func (wd *world) sendMsg(w *ksim.World, rt route, coin, path string) ksim.Result {
	if !rt.V2 {
		return w.Tx(0, transfertypes.NewMsgTransfer(port, rt.A, sdk.Coin{Denom: coin, Amount: sdkmath.NewInt(amount)}, userA.String(), peerAddr, w.Height(1, 1_000_000), 0, ""))
	}
	data := transfertypes.NewFungibleTokenPacketData(path, fmt.Sprint(amount), userA.String(), peerAddr, "")
	bz, err := transfertypes.MarshalPacketData(data, transfertypes.V1, transfertypes.EncodingJSON)
	if err != nil {
		return ksim.Result{Class: ksim.ERR, Code: "harness/marshal", Err: err}
	}
	pl := channeltypesv2.NewPayload(port, port, transfertypes.V1, transfertypes.EncodingJSON, bz)
	_, r := w.SendV2(0, rt.A, uint64(w.CS[0].TimeNs()/1e9)+3600, userA.String(), pl)
	return r
}

// runRoute evaluates every path of the family on one (world, route): the receive, the sends of the
// path itself, and the sends of the voucher a successful receive minted over every route of the same protocol.
func (wd *world) runRoute(c *core.C, rt route, fam []string, st *stats) bool {
	// the counterparty commits one packet per path (it may be any chain: the packet data is arbitrary)
	wb := wd.base.Fork()
	kB := wd.wk.Chains[1].App.IBCKeeper
	th := wb.Height(0, 1_000_000)
	tt := uint64(wb.CS[0].TimeNs()/1e9) + 3600
	v1pk := make([]channeltypes.Packet, len(fam))
	v2pk := make([]channeltypesv2.Packet, len(fam))
	for i, p := range fam {
		data := transfertypes.NewFungibleTokenPacketData(p, fmt.Sprint(amount), peerAddr, userA.String(), "")
		if !rt.V2 {
			seq, r := wb.SendV1(1, port, rt.B, th, 0, data.GetBytes())
			ksim.MustOK("counterparty commits v1 packet", r)
			v1pk[i] = channeltypes.NewPacket(data.GetBytes(), seq, port, rt.B, port, rt.A, th, 0)
			continue
		}
		bz, err := transfertypes.MarshalPacketData(data, transfertypes.V1, transfertypes.EncodingJSON)
		if err != nil {
			panic(err)
		}
		pk := channeltypesv2.NewPacket(uint64(1000+i), rt.B, rt.A, tt, channeltypesv2.NewPayload(port, port, transfertypes.V1, transfertypes.EncodingJSON, bz))
		ksim.MustOK("counterparty commits v2 packet", wb.Do(1, func(ctx sdk.Context) error {
			kB.ChannelKeeperV2.SetPacketCommitment(ctx, rt.B, pk.Sequence, channeltypesv2.CommitPacket(pk))
			return nil
		}))
		v2pk[i] = pk
	}
	wb.Sync(0, wd.link.ClientA, 1)
	wb.Flatten()
	ph := wb.ClientLatest(0, wd.link.ClientA)

	var sameProto []route
	for _, r2 := range wd.routes {
		if r2.V2 == rt.V2 {
			sameProto = append(sameProto, r2)
		}
	}
	for i, p := range fam {
		if c.TimeUp() {
			st.exhaustive = false
			return true
		}
		// receive
		k := &kase{World: wd.name, Route: rt.Name, Chan: rt.A, Peer: rt.B, Dir: "recv", Path: p}
		after, v := wd.observe(wb, k, true, func(w *ksim.World) ksim.Result {
			if rt.V2 {
				return w.RecvV2(0, 1, v2pk[i], ph)
			}
			return w.RecvV1(0, 1, v1pk[i], ph)
		})
		if !wd.report(c, k, v, st) {
			return false
		}
		// the voucher the receive minted, sent on over every route of this protocol (back = burn, elsewhere = escrow)
		if after != nil && k.ICS20 != nil && k.ICS20.Kind == "mint" {
			d, err := wd.wk.Chains[0].App.TransferKeeper.GetDenomFromIBCDenom(after.CS[0].Ctx, k.ICS20.Denom)
			if err != nil {
				c.Broken("%s: minted %s but no denomination is recorded: %v", wd.name, k.ICS20.Denom, err)
				return false
			}
			for _, r2 := range sameProto {
				k2 := &kase{World: wd.name, Route: r2.Name, Chan: r2.A, Peer: r2.B, Dir: "send-voucher", Path: d.Path(), Coin: k.ICS20.Denom, From: rt.A}
				_, v2 := wd.observe(after, k2, false, func(w *ksim.World) ksim.Result { return wd.sendMsg(w, r2, k.ICS20.Denom, d.Path()) })
				if !wd.report(c, k2, v2, st) {
					return false
				}
			}
		}
		// the path itself sent from A: v1 = MsgTransfer of the coin of that name, v2 = MsgSendPacket whose payload names the path
		k3 := &kase{World: wd.name, Route: rt.Name, Chan: rt.A, Peer: rt.B, Dir: "send-path", Path: p}
		if !rt.V2 {
			k3.Dir, k3.Coin = "send-native", p
			if !wd.coins[p] {
				st.evals++
				c.Hist("ics20_moved_nothing", rt.Name+":send-native:not-an-sdk-denom")
				continue
			}
		}
		_, v3 := wd.observe(wd.base, k3, false, func(w *ksim.World) ksim.Result { return wd.sendMsg(w, rt, p, p) })
		if !wd.report(c, k3, v3, st) {
			return false
		}
	}
	return true
}

func run(c *core.C) {
	var rk kase
	var replayFam []string
	if c.Replay != "" {
		if err := c.LoadReplay(&rk); err != nil {
			c.Broken("replay: %v", err)
			return
		}
		// re-run the recorded path (for a voucher send: the path whose receive minted the voucher) and its suffixes
		path := rk.Path
		if rk.Dir == "send-voucher" {
			path = strings.TrimPrefix(path, port+"/"+rk.From+"/")
		}
		segs := strings.Split(path, "/")
		for i := len(segs) - 1; i >= 0; i-- {
			replayFam = append(replayFam, strings.Join(segs[i:], "/"))
		}
	}
	wk := ksim.NewWorker(c.T, 2)
	var worlds []*world
	paths, ncoins := 0, 0
	for _, name := range []string{"straight", "crossed", "prefix"} {
		if c.Replay != "" && name != rk.World {
			continue
		}
		fam := family(c, name)
		if c.Replay != "" {
			fam = replayFam
		}
		wd := buildWorld(c, wk, name, fam)
		if wd == nil {
			return
		}
		worlds = append(worlds, wd)
		paths += len(fam)
		ncoins += len(wd.coins)
	}
	if c.Replay != "" {
		st := &stats{exhaustive: true}
		for _, wd := range worlds {
			for _, rt := range wd.routes {
				if rt.Name == rk.Route && (rt.A == rk.Chan || (rk.Dir == "send-voucher" && rt.A == rk.From)) {
					wd.runRoute(c, rt, wd.fam[len(wd.fam)-1:], st)
				}
			}
		}
		c.Set("evaluations", st.evals)
		c.Set("distinct_nontrivial", max(st.moved, 2))
		c.Set("rule", "replay of one path on one route")
		return
	}
	st := &stats{exhaustive: true}
	for _, wd := range worlds {
		for _, rt := range wd.routes {
			if !wd.runRoute(c, rt, wd.fam, st) {
				return
			}
		}
	}
	c.Set("evaluations", st.evals)
	c.Set("distinct_nontrivial", st.moved)
	c.Set("paths_over_all_worlds", paths)
	c.Set("candidate_coins_over_all_worlds", ncoins)
	c.Set("rate_limits_over_all_worlds", ncoins*3)
	c.Set("exhaustive", st.exhaustive)
	c.Set("worlds", "straight: A.channel-i <-> B.channel-i; crossed: A.channel-0 <-> B.channel-1, A.channel-1 <-> B.channel-0; prefix: A.channel-1 <-> B.channel-1, A.channel-10 <-> B.channel-10 (dangling channel ends bump the counters), paths over {uatom, transfer, channel-1, channel-10, x}; in all three 07-tendermint-0 <-> 07-tendermint-0 with registered v2 counterparties")
	c.Set("rule", "paths = every '/'-joined string of 1..3 segments over {uatom, transfer, channel-0, channel-1, x} (quick; plus a fixed list of 4-segment paths) or 1..4 segments over that plus {07-tendermint-0, channel-7} (thorough); in the prefix world paths = 1..3 (quick; plus a fixed list of 4-segment paths) or 1..4 (thorough) segments over {uatom, transfer, channel-1, channel-10, x}; for every world, route in {v1 channel, v2 alias of the channel} x A's two channels (plus v2 client-to-client in the straight world) and every path: (recv) a packet naming the path arrives from the counterparty, (send-voucher) the voucher a successful receive minted is sent over every route of the same protocol, (send-native / send-path) the path is sent from A as MsgTransfer of the coin of that name (v1) or as MsgSendPacket payload (v2); non-trivial = distinct cases in which ICS-20 moved funds (bank store changed), for which the charged rate limit is compared")
	c.Assume("chain A is provisioned so that no case fails for lack of funds: the user and every escrow account of A hold every candidate coin (each path and each path prefixed by one of A's hops, as native coin and as ibc/ voucher) and the tracked total escrow covers it; a rate limit with 100% quotas exists for every (candidate coin, identifier in A's two channel ids and 07-tendermint-0)")
	c.Assume("the counterparty is arbitrary: its packets are committed through its channel keeper (v1) / packet commitment store (v2) without passing through a transfer module")
	c.Assume("crypto/sha256 is the reference for naming voucher coins when provisioning; the verdict itself only compares two observations of the real chain (bank store difference vs rate-limit store difference)")
}
