// Package c34 decides C34: every denomination path that ICS-20 accepts serialises back to the
// same string after being parsed into trace and base; the voucher denomination is
// "ibc/"+upper-hex SHA-256 of the full path (or the base when there is no trace) whatever the
// split; the transfer keeper records a denomination under the hash of exactly its full path;
// distinct (port, channel) pairs have distinct escrow addresses.
package c34

import (
	"bytes"
	"crypto/sha256"
	"encoding/hex"
	"fmt"
	"sort"
	"strings"

	sdkmath "cosmossdk.io/math"

	storetypes "github.com/cosmos/cosmos-sdk/store/v2/types"
	sdk "github.com/cosmos/cosmos-sdk/types"
	authtypes "github.com/cosmos/cosmos-sdk/x/auth/types"

	transferkeeper "github.com/cosmos/ibc-go/v11/modules/apps/transfer/keeper"
	transfertypes "github.com/cosmos/ibc-go/v11/modules/apps/transfer/types"
	clienttypes "github.com/cosmos/ibc-go/v11/modules/core/02-client/types"
	host "github.com/cosmos/ibc-go/v11/modules/core/24-host"
	ibctesting "github.com/cosmos/ibc-go/v11/testing"
	"github.com/cosmos/ibc-go/v11/testing/simapp"

	"verif/harness/core"
	"verif/harness/props/tokenworld"
)

func init() { core.Register("C34", "exploration", run) }

var segments = []string{"a", "transfer", "channel-1", "07-tendermint-1", "channel-x", ""}

// refHash is the specification formula, written independently of Denom.Hash: SHA-256 of the full path.
func refHash(path string) []byte { h := sha256.Sum256([]byte(path)); return h[:] }

func refVoucher(path string) string {
	return "ibc/" + strings.ToUpper(hex.EncodeToString(refHash(path)))
}

// acceptance of a path by ICS-20 = packet data validation: it is what UnmarshalPacketData applies on
// receive / acknowledgement / timeout and what the send path applies to the packet it builds
// (msg_server.go, createPacketDataBytesFromVersion). MsgTransfer.ValidateBasic only validates an SDK
// coin denomination, which the send path never parses into trace and base (TokenFromCoin keeps it
// whole), so it is recorded but does not put a string into the quantifier.
func acceptedOnReceive(p string) bool {
	return transfertypes.NewFungibleTokenPacketData(p, "1", "s", "r", "").ValidateBasic() == nil
}

func acceptedOnSend(p string) bool {
	msg := transfertypes.NewMsgTransfer("transfer", "channel-0", sdk.Coin{Denom: p, Amount: sdkmath.NewInt(1)}, "s", "r", clienttypes.NewHeight(1, 100), 0, "")
	return msg.ValidateBasic() == nil
}

type world struct {
	keeper *transferkeeper.Keeper
	base   sdk.Context // never written: scratch branches start here
	ctx    sdk.Context // accumulates every accepted path
	key    storetypes.StoreKey
	stored map[string]bool // paths recorded so far
}

func denomKeys(w *world) int {
	it := storetypes.KVStorePrefixIterator(w.ctx.KVStore(w.key), transfertypes.DenomKey)
	defer it.Close()
	n := 0
	for ; it.Valid(); it.Next() {
		n++
	}
	return n
}

type pathResult struct {
	accepted bool
	traceLen int
	splits   int
}

// evalPath applies the whole oracle to one path.
func evalPath(c *core.C, w *world, p string) pathResult {
	rp := map[string]any{"path": p}
	recv, send := acceptedOnReceive(p), acceptedOnSend(p)
	// the real receive path must agree with the stateless validation it is documented to apply
	bz, err := transfertypes.MarshalPacketData(transfertypes.NewFungibleTokenPacketData(p, "1", "s", "r", ""), transfertypes.V1, transfertypes.EncodingJSON)
	if err != nil {
		c.Broken("cannot encode packet data for %q: %v", p, err)
		return pathResult{}
	}
	itr, uerr := transfertypes.UnmarshalPacketData(bz, transfertypes.V1, transfertypes.EncodingJSON)
	if (uerr == nil) != recv {
		c.Broken("UnmarshalPacketData acceptance (%v) differs from ValidateBasic acceptance (%v) for %q", uerr == nil, recv, p)
	}
	d := transfertypes.ExtractDenomFromPath(p)
	res := pathResult{accepted: recv, traceLen: len(d.Trace)}
	if !res.accepted {
		if send {
			c.Add("coin_denoms_valid_for_msgtransfer_but_rejected_as_packet_denom", 1)
		}
		if d.Path() != p {
			c.Add("rejected_paths_not_round_tripping", 1) // outside the quantifier; recorded only
		}
		return res
	}
	want := refVoucher(p)
	if got := d.Path(); got != p {
		c.Violation("roundtrip/"+p, fmt.Sprintf("ExtractDenomFromPath(%q).Path() = %q (trace %v base %q)", p, got, d.Trace, d.Base), rp)
	}
	if uerr == nil && itr.Token.Denom.Path() != p {
		c.Violation("roundtrip-packet/"+p, fmt.Sprintf("UnmarshalPacketData of denom %q yields token path %q", p, itr.Token.Denom.Path()), rp)
	}
	if !bytes.Equal(d.Hash(), refHash(p)) {
		c.Violation("hash/"+p, fmt.Sprintf("Hash() of parsed %q = %s, want SHA-256 of the full path %X", p, d.Hash(), refHash(p)), rp)
	}
	if len(d.Trace) == 0 {
		if got := d.IBCDenom(); got != d.Base || got != p {
			c.Violation("ibcdenom-native/"+p, fmt.Sprintf("IBCDenom() of trace-less %q = %q (base %q)", p, got, d.Base), rp)
		}
	} else if got := d.IBCDenom(); got != want {
		c.Violation("ibcdenom/"+p, fmt.Sprintf("IBCDenom() of parsed %q = %q, want %q", p, got, want), rp)
	}
	// every other split of the same string into (hops, base) that ICS-20 accepts as a Denom
	segs := strings.Split(p, "/")
	for k := 0; 2*k < len(segs); k++ {
		var hops []transfertypes.Hop
		for i := 0; i < k; i++ {
			hops = append(hops, transfertypes.NewHop(segs[2*i], segs[2*i+1]))
		}
		alt := transfertypes.NewDenom(strings.Join(segs[2*k:], "/"), hops...)
		if alt.Validate() != nil {
			continue
		}
		res.splits++
		key := fmt.Sprintf("/%s/split=%d", p, k)
		if alt.Path() != p {
			c.Violation("split-path"+key, fmt.Sprintf("Denom{%d hops, base %q}.Path() = %q, want %q", k, alt.Base, alt.Path(), p), rp)
		}
		if !bytes.Equal(alt.Hash(), refHash(p)) {
			c.Violation("split-hash"+key, fmt.Sprintf("Hash() depends on the split: %d hops of %q hash to %s, full path hashes to %X", k, p, alt.Hash(), refHash(p)), rp)
		}
		if k == 0 {
			if alt.IBCDenom() != p {
				c.Violation("split-ibcdenom"+key, fmt.Sprintf("IBCDenom() of the trace-less denom %q = %q", p, alt.IBCDenom()), rp)
			}
		} else if alt.IBCDenom() != want {
			c.Violation("split-ibcdenom"+key, fmt.Sprintf("IBCDenom() with %d hops of %q = %q, want %q", k, p, alt.IBCDenom(), want), rp)
		}
	}
	// the real keeper records the denomination under SHA-256(full path), and under nothing else:
	// on a scratch branch of the (empty) store the only key written is DenomKey||SHA-256(p)
	if w != nil && !w.stored[p] {
		if _, found := w.keeper.GetDenom(w.ctx, refHash(p)); found {
			c.Violation("store-preexisting/"+p, fmt.Sprintf("a denomination is already recorded under SHA-256(%q) before it was set", p), rp)
		}
		sctx, _ := w.base.CacheContext()
		w.keeper.SetDenom(sctx, d)
		wantKey := append(append([]byte{}, transfertypes.DenomKey...), refHash(p)...)
		var keys [][]byte
		it := storetypes.KVStorePrefixIterator(sctx.KVStore(w.key), transfertypes.DenomKey)
		for ; it.Valid(); it.Next() {
			keys = append(keys, append([]byte{}, it.Key()...))
		}
		it.Close()
		if len(keys) != 1 || !bytes.Equal(keys[0], wantKey) {
			c.Violation("store-key/"+p, fmt.Sprintf("SetDenom(parse(%q)) wrote keys %X, want exactly DenomKey||SHA-256(full path) = %X", p, keys, wantKey), rp)
		}
		got, found := w.keeper.GetDenom(sctx, refHash(p))
		if !found || got.Path() != p || got.Base != d.Base || len(got.Trace) != len(d.Trace) {
			c.Violation("store-value/"+p, fmt.Sprintf("GetDenom(SHA-256(%q)) after SetDenom = (path %q, found %v)", p, got.Path(), found), rp)
		}
		if !w.keeper.HasDenom(sctx, refHash(p)) {
			c.Violation("store-has/"+p, fmt.Sprintf("HasDenom(SHA-256(%q)) is false after SetDenom", p), rp)
		}
		// and into the accumulating store, read back at the end together with all others
		w.keeper.SetDenom(w.ctx, d)
		w.stored[p] = true
	}
	return res
}

// identifier families for the escrow check: every string of length <= n over {a,b,-,0,1}
// padded on either side to a valid identifier length.
func idFamilies(n int) (ports, channels []string) {
	base := core.AllStrings([]string{"a", "b", "-", "0", "1"}, n)
	seenP, seenC := map[string]bool{}, map[string]bool{}
	for _, s := range base {
		for _, p := range []string{s, "pp" + s, s + "pp"} {
			if !seenP[p] && host.PortIdentifierValidator(p) == nil {
				seenP[p] = true
				ports = append(ports, p)
			}
		}
		for _, ch := range []string{"channel-" + s, s + "-channel", s + "chanchan", "chanchan" + s} {
			if !seenC[ch] && host.ChannelIdentifierValidator(ch) == nil {
				seenC[ch] = true
				channels = append(channels, ch)
			}
		}
	}
	return ports, channels
}

func evalEscrowPair(c *core.C, seen map[string][2]string, port, channel string) {
	addr := transfertypes.GetEscrowAddress(port, channel)
	if len(addr) != 20 {
		c.Violation(fmt.Sprintf("escrow-len/%s/%s", port, channel), fmt.Sprintf("escrow address of (%s,%s) has %d bytes", port, channel, len(addr)), map[string]any{"port": port, "channel": channel})
	}
	k := string(addr)
	if prev, dup := seen[k]; dup && (prev[0] != port || prev[1] != channel) {
		c.Violation(fmt.Sprintf("escrow-collision/%s/%s/%s/%s", prev[0], prev[1], port, channel),
			fmt.Sprintf("GetEscrowAddress(%q,%q) == GetEscrowAddress(%q,%q) == %X", prev[0], prev[1], port, channel, []byte(addr)),
			map[string]any{"port": prev[0], "channel": prev[1], "port2": port, "channel2": channel})
		return
	}
	seen[k] = [2]string{port, channel}
}

func run(c *core.C) {
	coord := ibctesting.NewCoordinator(c.T, 1)
	chain := coord.GetChain(ibctesting.GetChainID(1))
	app := chain.GetSimApp()
	ctx, _ := chain.GetContext().CacheContext()
	w := &world{keeper: app.TransferKeeper, base: chain.GetContext(), ctx: ctx, key: app.GetKey(transfertypes.StoreKey), stored: map[string]bool{}}
	if n := denomKeys(w); n != 0 {
		c.Broken("fresh chain already records %d denominations", n)
		return
	}

	if c.Replay != "" {
		var r struct {
			Path, Port, Channel, Port2, Channel2 string
			Flow                                 *flowReplay
		}
		if err := c.LoadReplay(&r); err != nil {
			c.Broken("replay: %v", err)
			return
		}
		if r.Flow != nil {
			replayFlow(c, flowWorlds(c), *r.Flow, &flowStats{distinctPaths: map[string]bool{}})
		} else if r.Port != "" {
			seen := map[string][2]string{}
			evalEscrowPair(c, seen, r.Port, r.Channel)
			evalEscrowPair(c, seen, r.Port2, r.Channel2)
		} else {
			evalPath(c, w, r.Path)
		}
		c.Set("evaluations", 1)
		c.Set("distinct_nontrivial", 2)
		c.Set("rule", "replay of one case")
		c.Sample(r)
		return
	}

	maxSeg := core.Pick(c, 4, 6)
	evals, accepted, traced, splits := 0, 0, 0, 0
	hashes := map[string]string{}
	var acceptedPaths []string
	for n := 1; n <= maxSeg && !c.TimeUp(); n++ {
		dims := make([]int, n)
		for i := range dims {
			dims[i] = len(segments)
		}
		core.Product(dims, func(idx []int) bool {
			parts := make([]string, n)
			for i, j := range idx {
				parts[i] = segments[j]
			}
			p := strings.Join(parts, "/")
			evals++
			r := evalPath(c, w, p)
			if r.accepted {
				accepted++
				acceptedPaths = append(acceptedPaths, p)
				splits += r.splits
				c.Hist("accepted_by_trace_length", fmt.Sprint(r.traceLen))
				if r.traceLen > 0 {
					traced++
					if traced%97 == 1 {
						c.Sample(map[string]any{"path": p, "hops": r.traceLen, "valid_splits": r.splits, "voucher": refVoucher(p)})
					}
				}
				h := string(refHash(p))
				if q, dup := hashes[h]; dup && q != p {
					c.Broken("SHA-256 collision between %q and %q", q, p)
				}
				hashes[h] = p
			}
			return evals%512 != 0 || !c.TimeUp()
		})
	}
	// after everything is recorded: each accepted path is still found under its own hash, nothing else exists
	for _, p := range acceptedPaths {
		evals++
		got, found := w.keeper.GetDenom(w.ctx, refHash(p))
		if !found || got.Path() != p {
			c.Violation("store-final/"+p, fmt.Sprintf("after recording all accepted paths, GetDenom(SHA-256(%q)) = (%q, found %v)", p, got.Path(), found), map[string]any{"path": p})
		}
	}
	if n := denomKeys(w); n != len(acceptedPaths) {
		c.Violation("store-final-count", fmt.Sprintf("%d accepted distinct paths were recorded but the store holds %d denominations", len(acceptedPaths), n), nil)
	}
	all := w.keeper.GetAllDenoms(w.ctx)
	if len(all) != len(acceptedPaths) {
		c.Violation("store-final-all", fmt.Sprintf("GetAllDenoms returns %d denominations for %d recorded paths", len(all), len(acceptedPaths)), nil)
	}

	// escrow addresses
	ports, channels := idFamilies(core.Pick(c, 2, 3))
	seen := map[string][2]string{}
	var names []string
	for name := range simapp.GetMaccPerms() {
		names = append(names, name)
	}
	sort.Strings(names)
	for _, name := range names {
		seen[string(authtypes.NewModuleAddress(name))] = [2]string{"module-account", name}
	}
	pairs := 0
	for _, p := range ports {
		for _, ch := range channels {
			evals++
			pairs++
			evalEscrowPair(c, seen, p, ch)
		}
		if c.TimeUp() {
			break
		}
	}
	c.Sample(map[string]any{"port": ports[len(ports)-1], "channel": channels[len(channels)-1], "escrow": sdk.AccAddress(transfertypes.GetEscrowAddress(ports[len(ports)-1], channels[len(channels)-1])).String()})

	// receive flow: the real OnRecvPacket path on real chains (see flow.go)
	fst := &flowStats{distinctPaths: map[string]bool{}}
	flowDepth := core.Pick(c, 3, 4)
	for _, f := range flowWorlds(c) {
		routes := []int{tokenworld.RV1}
		if !c.Quick() && f.Chains == 2 && !f.Prefix {
			routes = []int{tokenworld.RV1, tokenworld.RClient}
		}
		d := flowDepth
		if len(routes) > 1 {
			d = 3
		}
		exploreFlow(c, f, d, routes, fst)
	}
	evals += fst.transfers + fst.checks
	c.Set("flow_transfer_sequences", fst.sequences)
	c.Set("flow_transfers_executed", fst.transfers)
	c.Set("flow_transfers_received", fst.received)
	c.Set("flow_sends_refused", fst.refused)
	c.Set("flow_chain_states_checked", fst.checks)
	c.Set("flow_voucher_records_checked", fst.vouchers)
	c.Set("flow_distinct_voucher_paths", len(fst.distinctPaths))
	c.Set("flow_depth", flowDepth)
	if fst.received < 2 || len(fst.distinctPaths) < 2 {
		c.Broken("receive-flow part executed only %d successful receives / %d distinct voucher paths", fst.received, len(fst.distinctPaths))
	}

	c.Set("evaluations", evals)
	c.Set("paths_accepted", accepted)
	c.Set("paths_accepted_with_trace", traced)
	c.Set("valid_splits_checked", splits)
	c.Set("escrow_pairs", pairs)
	c.Set("ports", len(ports))
	c.Set("channels", len(channels))
	c.Set("module_accounts", len(names))
	c.Set("max_segments", maxSeg)
	c.Set("distinct_nontrivial", traced+pairs+len(fst.distinctPaths))
	c.Set("rule", "every '/'-joined string of 1..max_segments segments over {a, transfer, channel-1, 07-tendermint-1, channel-x, empty}; a path is in the quantifier when packet-data validation accepts it; non-trivial = distinct accepted paths that parse with at least one hop, plus distinct valid (port, channel) pairs whose escrow address was compared with all others, plus distinct voucher paths created by the receive-flow part (every sequence of <= flow_depth complete transfers {source chain} x {link} x {held denomination incl. received vouchers} through the real MsgTransfer / MsgRecvPacket handlers of chains joined by two links with overlapping channel identifiers; after every receive every circulating ibc/H voucher of every chain must be recorded under exactly H = SHA-256(its path))")
	c.Assume("receive-flow part: counterparty consensus, storage commit and validator signing are played by the harness (engine K: real IAVL proofs and signed headers verified by the unmodified 07-tendermint client); one user per chain sends one unit per transfer with a far timeout; acknowledgements are not relayed")
	c.Assume("crypto/sha256 and encoding/hex of the Go standard library are the reference for the voucher formula")
	c.Assume("acceptance by ICS-20 = FungibleTokenPacketData.ValidateBasic (what UnmarshalPacketData and the send path apply to packet data)")
}
