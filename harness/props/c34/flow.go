package c34

import (
	"bytes"
	"encoding/hex"
	"fmt"
	"strings"

	storetypes "github.com/cosmos/cosmos-sdk/store/v2/types"
	sdk "github.com/cosmos/cosmos-sdk/types"

	transfertypes "github.com/cosmos/ibc-go/v11/modules/apps/transfer/types"

	"verif/harness/core"
	"verif/harness/ksim"
	"verif/harness/props/tokenworld"
)

// Receive-flow part: the statement's last clause ("a chain records each voucher under the hash of
// exactly its full path") is checked on the REAL receive path. Real SimApp chains (engine K, token
// world: tendermint clients, connections, ics20-1 channels, real proofs) execute every sequence
// of <= depth complete transfers (MsgTransfer, commit + client update, MsgRecvPacket) over the
// alphabet {source chain} x {link of that chain} x {denomination the sender holds, natives and
// every voucher received so far}. In the two-link world an identifier of one link's far end is the
// near end's identifier of the other link (A: channel-1/channel-2, B: channel-0/channel-1), so
// paths recorded for different tokens can be equal strings on the two chains.
// After every receive, on every chain: every bank denomination ibc/H with non-zero supply must have
// a Denom record stored under exactly DenomKey||H whose Path() hashes (SHA-256) to H, resolvable
// through GetDenom and GetDenomFromIBCDenom; and every record's key must be the hash of its path.

type flowWorld struct {
	Name   string
	Chains int
	Topo   [][2]int
	Prefix bool // tokenworld.PrefixIDs
}

type flowStep struct {
	Src, Link, Route, Denom int
}

type flowReplay struct {
	World string     `json:"world"`
	Steps []flowStep `json:"steps"`
}

type flowStats struct {
	sequences, transfers, received, refused, checks, vouchers int
	distinctPaths                                             map[string]bool
}

func (f flowWorld) scenario(bases []string) *tokenworld.TW {
	return &tokenworld.TW{NChains: f.Chains, Topo: f.Topo, PrefixIDs: f.Prefix, Sync: true, MaxOpen: 8, MaxPkts: 8, MaxCommits: 64, Bases: bases}
}

func linksOf(f flowWorld, c int) []int {
	topo := f.Topo
	if topo == nil {
		for i := 0; i+1 < f.Chains; i++ {
			topo = append(topo, [2]int{i, i + 1})
		}
	}
	var out []int
	for l, t := range topo {
		if t[0] == c || t[1] == c {
			out = append(out, l)
		}
	}
	return out
}

// checkRecords is the oracle, evaluated on every chain of the world.
func checkRecords(c *core.C, f flowWorld, w *ksim.World, hist []flowStep, st *flowStats) {
	rp := map[string]any{"flow": flowReplay{World: f.Name, Steps: hist}}
	e := w.Ext.(*tokenworld.Ext)
	for ci := range w.CS {
		app, ctx := w.W.Chains[ci].App, w.CS[ci].Ctx
		st.checks++
		// every voucher in circulation is recorded under the hash in its name
		var vouchers []sdk.Coin
		app.BankKeeper.IterateTotalSupply(ctx, func(coin sdk.Coin) bool {
			if strings.HasPrefix(coin.Denom, "ibc/") && coin.Amount.IsPositive() {
				vouchers = append(vouchers, coin)
			}
			return false
		})
		for _, v := range vouchers {
			st.vouchers++
			hx := strings.TrimPrefix(v.Denom, "ibc/")
			h, err := hex.DecodeString(hx)
			chain := string(rune('A' + ci))
			// what the reference ledger of the token world says this voucher's path is
			want := ""
			for _, d := range e.Denoms {
				if d.Chain == ci && d.Bank == v.Denom {
					want = d.Path()
				}
			}
			kind := fmt.Sprintf("hops=%d", strings.Count(want, "transfer/"))
			if err != nil || len(h) != 32 || hx != strings.ToUpper(hx) {
				c.Violation("flow/voucher-name/"+f.Name+"/"+kind, fmt.Sprintf("chain %s issued a voucher named %q (supply %s), which is not ibc/ + upper-case hex SHA-256", chain, v.Denom, v.Amount), rp)
				continue
			}
			raw := ctx.KVStore(app.GetKey(transfertypes.StoreKey)).Get(append(append([]byte{}, transfertypes.DenomKey...), h...))
			rec, found := app.TransferKeeper.GetDenom(ctx, h)
			if raw == nil || !found {
				c.Violation("flow/voucher-not-recorded/"+f.Name+"/"+kind, fmt.Sprintf("chain %s has %s of voucher %s (path %q) in circulation but no denomination record under that hash (raw key present %v, GetDenom found %v) after %s", chain, v.Amount, v.Denom, want, raw != nil, found, describe(f, hist)), rp)
				continue
			}
			if !bytes.Equal(refHash(rec.Path()), h) {
				c.Violation("flow/record-under-wrong-hash/"+f.Name+"/"+kind, fmt.Sprintf("chain %s stores path %q under %X, which is not its SHA-256", chain, rec.Path(), h), rp)
			}
			if want != "" && rec.Path() != want {
				c.Violation("flow/record-path/"+f.Name+"/"+kind, fmt.Sprintf("chain %s records path %q for voucher %s, the transfers that created it give %q", chain, rec.Path(), v.Denom, want), rp)
			}
			if res, err := app.TransferKeeper.GetDenomFromIBCDenom(ctx, v.Denom); err != nil || res.Path() != rec.Path() {
				c.Violation("flow/unresolvable/"+f.Name+"/"+kind, fmt.Sprintf("chain %s cannot resolve its own voucher %s: %v", chain, v.Denom, err), rp)
			}
			if rec.IBCDenom() != v.Denom {
				c.Violation("flow/ibcdenom/"+f.Name+"/"+kind, fmt.Sprintf("chain %s: record of %s renders as %s", chain, v.Denom, rec.IBCDenom()), rp)
			}
			st.distinctPaths[rec.Path()] = true
		}
		// and nothing is stored under anything but the hash of its own path
		it := storetypes.KVStorePrefixIterator(ctx.KVStore(app.GetKey(transfertypes.StoreKey)), transfertypes.DenomKey)
		for ; it.Valid(); it.Next() {
			d, found := app.TransferKeeper.GetDenom(ctx, it.Key()[len(transfertypes.DenomKey):])
			if !found || !bytes.Equal(refHash(d.Path()), it.Key()[len(transfertypes.DenomKey):]) {
				c.Violation("flow/stray-record/"+f.Name, fmt.Sprintf("chain %c stores a denomination record under %X that is not the hash of its path %q", 'A'+ci, it.Key(), d.Path()), rp)
			}
		}
		it.Close()
	}
}

func describe(f flowWorld, hist []flowStep) string {
	var parts []string
	for _, s := range hist {
		parts = append(parts, fmt.Sprintf("%c>link%d/%s/denom#%d", 'A'+s.Src, s.Link, tokenworld.RouteNames[s.Route], s.Denom))
	}
	return strings.Join(parts, " ; ")
}

// transfer executes one complete transfer on w (mutating it): send, commit + client updates, receive.
// It returns false when the send was refused (nothing to check).
func transfer(c *core.C, tw *tokenworld.TW, w *ksim.World, s flowStep, st *flowStats) bool {
	e := w.Ext.(*tokenworld.Ext)
	n := len(e.Pkts)
	r := tw.Apply(w, ksim.Op{K: tokenworld.OpXfer, A: []int{s.Src, s.Link, s.Route, 0, s.Denom, 0, tokenworld.RcvUser0, tokenworld.ToFar}})
	if r.Class != ksim.OK {
		st.refused++
		return false
	}
	st.transfers++
	// keep the clocks level: a chain whose clock is not ahead of the sender's commits first, so that the
	// sender's new header is never "from the future" for the client that has to verify it
	for ci := range w.CS {
		if ci != s.Src && w.CS[ci].TimeNs() <= w.CS[s.Src].TimeNs() {
			if r := tw.Apply(w, ksim.Op{K: tokenworld.OpSync, A: []int{ci}}); r.Class != ksim.OK {
				c.Broken("flow: sync of chain %d failed: %s %v", ci, r, r.Err)
				return false
			}
		}
	}
	if r := tw.Apply(w, ksim.Op{K: tokenworld.OpSync, A: []int{s.Src}}); r.Class != ksim.OK {
		c.Broken("flow: sync of chain %d failed: %s %v", s.Src, r, r.Err)
		return false
	}
	if r := tw.Apply(w, ksim.Op{K: tokenworld.OpRecv, A: []int{n, 0}}); r.Class != ksim.OK {
		c.Broken("flow: MsgRecvPacket of packet %d failed: %s %v", n, r, r.Err)
		return false
	}
	if w.Ext.(*tokenworld.Ext).Pkts[n].Recv == 1 {
		st.received++
	}
	return true
}

// options lists the transfers user 0 of any chain can start in w.
func options(f flowWorld, w *ksim.World, routes []int) []flowStep {
	e := w.Ext.(*tokenworld.Ext)
	var out []flowStep
	for src := 0; src < f.Chains; src++ {
		for _, link := range linksOf(f, src) {
			for _, route := range routes {
				for di, d := range e.Denoms {
					if d.Chain != src || d.Base != tokenworld.Stake {
						continue
					}
					bal := w.W.Chains[src].App.BankKeeper.GetBalance(w.CS[src].Ctx, tokenworld.UserAddr(src, 0), d.Bank)
					if bal.Amount.IsPositive() {
						out = append(out, flowStep{src, link, route, di})
					}
				}
			}
		}
	}
	return out
}

func exploreFlow(c *core.C, f flowWorld, depth int, routes []int, st *flowStats) {
	tw := f.scenario([]string{tokenworld.Stake})
	wk := ksim.NewWorker(c.T, f.Chains)
	root := tw.Init(wk)
	root.Flatten()
	var rec func(w *ksim.World, hist []flowStep)
	rec = func(w *ksim.World, hist []flowStep) {
		if len(hist) == depth || c.TimeUp() {
			st.sequences++
			return
		}
		opts := options(f, w, routes)
		if len(opts) == 0 {
			st.sequences++
			return
		}
		for _, s := range opts {
			n := w.Fork()
			h := append(append([]flowStep{}, hist...), s)
			if transfer(c, tw, n, s, st) {
				checkRecords(c, f, n, h, st)
				if len(h) == depth && st.sequences%97 == 0 {
					c.Sample(map[string]any{"flow_world": f.Name, "transfers": describe(f, h)})
				}
			}
			rec(n, h)
			if c.Violations() > 10 {
				return
			}
		}
	}
	rec(root, nil)
}

func replayFlow(c *core.C, worlds []flowWorld, r flowReplay, st *flowStats) {
	for _, f := range worlds {
		if f.Name != r.World {
			continue
		}
		tw := f.scenario([]string{tokenworld.Stake})
		w := tw.Init(ksim.NewWorker(c.T, f.Chains))
		for i, s := range r.Steps {
			if transfer(c, tw, w, s, st) {
				checkRecords(c, f, w, r.Steps[:i+1], st)
			}
		}
		return
	}
	c.Broken("replay: unknown flow world %q", r.World)
}

func flowWorlds(c *core.C) []flowWorld {
	ws := []flowWorld{{Name: "two-chains/two-links", Chains: 2, Topo: [][2]int{{0, 1}, {0, 1}}}}
	if !c.Quick() {
		ws = append(ws,
			flowWorld{Name: "two-chains/two-links/prefix-related-ids", Chains: 2, Topo: [][2]int{{0, 1}, {0, 1}}, Prefix: true},
			flowWorld{Name: "three-chains/line", Chains: 3})
	}
	return ws
}
