package props

import (
	"fmt"
	"time"

	sdk "github.com/cosmos/cosmos-sdk/types"

	clienttypes "github.com/cosmos/ibc-go/v11/modules/core/02-client/types"
	channeltypes "github.com/cosmos/ibc-go/v11/modules/core/04-channel/types"
	host "github.com/cosmos/ibc-go/v11/modules/core/24-host"
	hostv2 "github.com/cosmos/ibc-go/v11/modules/core/24-host/v2"
	"github.com/cosmos/ibc-go/v11/modules/core/exported"
	ibcmock "github.com/cosmos/ibc-go/v11/testing/mock"

	"verif/harness/core"
	"verif/harness/ksim"
)

// C04: timeouts are sound — never both received and timed out, never early (tendermint-backed v1, v2 clients
// and aliases with second-granularity timeouts, and the localhost loopback client).
func init() { core.Register("C04", "model_checking", runC04) }

func c04Scenario(routes []int, nPkts, commits int, timeouts []int) *PL {
	sc := &PL{Routes: routes, MaxSend: nPkts, MaxCommits: commits, Stale: true, Timeouts: true, LatePH: true, TimeoutIn: timeouts,
		StepB: 5300 * time.Millisecond}
	sc.InvFn = func(s *PL, w *ksim.World) *ksim.Fail {
		for _, p := range ext(w).Pkts {
			recvd := countEv(w, 1, p.destID(), p.Seq, "recv", "recv2")
			timedOut := countEv(w, 0, p.srcID(), p.Seq, "timeout", "timeout2")
			if recvd > 0 && timedOut > 0 {
				return &ksim.Fail{Key: "received-and-timed-out/" + routeNames[p.Route], Text: fmt.Sprintf("packet %s/%d was executed on the destination and timed out on the source", p.srcID(), p.Seq)}
			}
		}
		return nil
	}
	sc.StepFn = func(s *PL, pre *ksim.World, op ksim.Op, r ksim.Result, post *ksim.World) *ksim.Fail {
		switch op.K {
		case "timeout":
			if r.Class != ksim.OK {
				return nil
			}
			p := ext(pre).Pkts[op.A[0]]
			ph := int64(op.A[1])
			if uint64(ph) > pre.ClientLatest(0, s.link.ClientA).RevisionHeight {
				return &ksim.Fail{Key: "timeout-above-latest-height/" + routeNames[p.Route], Text: fmt.Sprintf("%s accepted with proof height %d above the client's latest height %s", op, ph, pre.ClientLatest(0, s.link.ClientA))}
			}
			// the destination's own history: state proven at ph is the state after block ph-1, at the time of block ph
			blk, ok := pre.CS[1].Block(ph)
			snap := pre.SnapAt(1, ph)
			if !ok || snap == nil {
				return &ksim.Fail{Key: "timeout-with-unknown-height", Text: fmt.Sprintf("%s accepted at a height the destination never produced", op)}
			}
			if p.isV2() {
				if snap.Get("ibc", hostv2.PacketReceiptKey(p.V2.DestinationClient, p.Seq)) != nil {
					return &ksim.Fail{Key: "timeout-of-received-packet/" + routeNames[p.Route], Text: fmt.Sprintf("%s accepted although the destination had a receipt at proof height %d", op, ph)}
				}
				if uint64(blk.Time/1e9) < p.V2.TimeoutTimestamp {
					return &ksim.Fail{Key: "early-timeout/" + routeNames[p.Route], Text: fmt.Sprintf("%s accepted at destination time %d ns (= %d s) before the timeout %d s", op, blk.Time, blk.Time/1e9, p.V2.TimeoutTimestamp)}
				}
				return nil
			}
			if s.chanFor(p.Route).Order == channeltypes.ORDERED {
				next := uint64(1)
				if bz := snap.Get("ibc", host.NextSequenceRecvKey(p.V1.DestinationPort, p.V1.DestinationChannel)); len(bz) == 8 {
					next = sdk.BigEndianToUint64(bz)
				}
				if next > p.Seq {
					return &ksim.Fail{Key: "timeout-of-received-packet/v1-ordered", Text: fmt.Sprintf("%s accepted although nextSequenceRecv was %d at proof height %d", op, next, ph)}
				}
			} else if snap.Get("ibc", host.PacketReceiptKey(p.V1.DestinationPort, p.V1.DestinationChannel, p.Seq)) != nil {
				return &ksim.Fail{Key: "timeout-of-received-packet/v1-unordered", Text: fmt.Sprintf("%s accepted although the destination had a receipt at proof height %d", op, ph)}
			}
			th, tt := p.V1.TimeoutHeight, p.V1.TimeoutTimestamp
			heightReached := !th.IsZero() && uint64(ph) >= th.RevisionHeight
			timeReached := tt != 0 && uint64(blk.Time) >= tt
			if !heightReached && !timeReached {
				return &ksim.Fail{Key: "early-timeout/" + routeNames[p.Route], Text: fmt.Sprintf("%s accepted at destination height %d time %d before timeout (height %s, timestamp %d)", op, ph, blk.Time, th, tt)}
			}
		case "recv":
			if r.Class != ksim.OK {
				return nil
			}
			p := ext(pre).Pkts[op.A[0]]
			hB, tB := uint64(pre.CS[1].H()), uint64(pre.CS[1].TimeNs())
			if p.isV2() {
				if tB/1e9 >= p.V2.TimeoutTimestamp {
					return &ksim.Fail{Key: "late-receive/" + routeNames[p.Route], Text: fmt.Sprintf("%s accepted at destination time %d s, timeout %d s", op, tB/1e9, p.V2.TimeoutTimestamp)}
				}
				return nil
			}
			th, tt := p.V1.TimeoutHeight, p.V1.TimeoutTimestamp
			if (!th.IsZero() && hB >= th.RevisionHeight) || (tt != 0 && tB >= tt) {
				return &ksim.Fail{Key: "late-receive/" + routeNames[p.Route], Text: fmt.Sprintf("%s accepted at destination height %d time %d, timeout height %s timestamp %d", op, hB, tB, th, tt)}
			}
		}
		return nil
	}
	return sc
}

// ---- localhost loopback ----------------------------------------------------------------------

type lhPkt struct {
	P channeltypes.Packet
}

type lhExt struct {
	Pkts    []lhPkt
	Commits int
}

func (e *lhExt) Clone() ksim.Ext {
	return &lhExt{Pkts: e.Pkts[:len(e.Pkts):len(e.Pkts)], Commits: e.Commits}
}

func (e *lhExt) KeyBytes() []byte {
	out := []byte{byte(e.Commits)}
	for _, p := range e.Pkts {
		out = append(out, byte(p.P.Sequence), byte(p.P.TimeoutHeight.RevisionHeight), byte(p.P.TimeoutTimestamp>>24), byte(p.P.TimeoutTimestamp>>32))
	}
	return out
}

// LH is the localhost scenario: one chain, a mock channel looped back over connection-localhost.
type LH struct {
	ksim.Base
	MaxSend, MaxCommits int
	Order               channeltypes.Order
	chanA, chanB        string
}

var sentinelProof = []byte{0x01}

func (s *LH) Chains() int { return 1 }

func (s *LH) Init(wk *ksim.Worker) *ksim.World {
	wk.InstallMockObservers()
	w := wk.Root()
	w.Ext = &lhExt{}
	zero := clienttypes.ZeroHeight()
	r := w.Tx(0, channeltypes.NewMsgChannelOpenInit("mock", ibcmock.Version, s.Order, []string{exported.LocalhostConnectionID}, "mock", ksim.Signer))
	ksim.MustOK("lh chan init", r)
	var ir channeltypes.MsgChannelOpenInitResponse
	if err := ir.Unmarshal(r.Resp); err != nil {
		panic(err)
	}
	r = w.Tx(0, channeltypes.NewMsgChannelOpenTry("mock", ibcmock.Version, s.Order, []string{exported.LocalhostConnectionID}, "mock", ir.ChannelId, ibcmock.Version, sentinelProof, zero, ksim.Signer))
	ksim.MustOK("lh chan try", r)
	var tr channeltypes.MsgChannelOpenTryResponse
	if err := tr.Unmarshal(r.Resp); err != nil {
		panic(err)
	}
	ksim.MustOK("lh chan ack", w.Tx(0, channeltypes.NewMsgChannelOpenAck("mock", ir.ChannelId, tr.ChannelId, ibcmock.Version, sentinelProof, zero, ksim.Signer)))
	ksim.MustOK("lh chan confirm", w.Tx(0, channeltypes.NewMsgChannelOpenConfirm("mock", tr.ChannelId, sentinelProof, zero, ksim.Signer)))
	plInitMu.Lock()
	s.chanA, s.chanB = ir.ChannelId, tr.ChannelId
	plInitMu.Unlock()
	w.Obs = nil
	return w
}

func (s *LH) Ops(w *ksim.World) []ksim.Op {
	e := w.Ext.(*lhExt)
	var ops []ksim.Op
	if len(e.Pkts) < s.MaxSend {
		// timeout height k blocks ahead (k=1,2) or timestamp k blocks ahead (-1,-2)
		for _, to := range []int{1, 2, -1, -2} {
			ops = append(ops, ksim.Op{K: "send", A: []int{to}})
		}
	}
	if e.Commits < s.MaxCommits {
		ops = append(ops, ksim.Op{K: "commit"})
	}
	for i, p := range e.Pkts {
		ops = append(ops, ksim.Op{K: "recv", A: []int{i}})
		// claimed proof heights: zero, current, current+1, the packet's timeout height, far future
		for _, claim := range []int{0, int(w.CS[0].H()), int(w.CS[0].H()) + 1, int(p.P.TimeoutHeight.RevisionHeight), 1_000_000} {
			ops = append(ops, ksim.Op{K: "timeout", A: []int{i, claim}})
		}
	}
	return ops
}

func (s *LH) Apply(w *ksim.World, op ksim.Op) ksim.Result {
	e := w.Ext.(*lhExt)
	switch op.K {
	case "send":
		th, tt := clienttypes.ZeroHeight(), uint64(0)
		if op.A[0] > 0 {
			th = w.Height(0, w.CS[0].H()+int64(op.A[0]))
		} else {
			tt = uint64(w.CS[0].TimeNs() + int64(-op.A[0])*int64(ksim.BlockStep))
		}
		seq, r := w.SendV1(0, "mock", s.chanA, th, tt, ibcmock.MockPacketData)
		if r.Class == ksim.OK {
			e.Pkts = append(e.Pkts, lhPkt{P: channeltypes.NewPacket(ibcmock.MockPacketData, seq, "mock", s.chanA, "mock", s.chanB, th, tt)})
		}
		return r
	case "commit":
		w.Commit(0, ksim.BlockStep)
		e.Commits++
		return ksim.Result{Class: ksim.OK}
	case "recv":
		r := w.Tx(0, channeltypes.NewMsgRecvPacket(e.Pkts[op.A[0]].P, sentinelProof, w.Height(0, w.CS[0].H()), ksim.Signer))
		return noopClassV1(r)
	case "timeout":
		p := e.Pkts[op.A[0]].P
		next, _ := w.W.Chains[0].App.IBCKeeper.ChannelKeeper.GetNextSequenceRecv(w.CS[0].Ctx, "mock", s.chanB)
		r := w.Tx(0, channeltypes.NewMsgTimeout(p, next, sentinelProof, w.Height(0, int64(op.A[1])), ksim.Signer))
		if r.Class == ksim.OK {
			var resp channeltypes.MsgTimeoutResponse
			if err := resp.Unmarshal(r.Resp); err == nil && resp.Result == channeltypes.NOOP {
				r.Class = ksim.NOOP
			}
		}
		return r
	}
	panic("unknown op " + op.K)
}

func (s *LH) Invariant(w *ksim.World) *ksim.Fail {
	for _, p := range w.Ext.(*lhExt).Pkts {
		if countEv(w, 0, s.chanB, p.P.Sequence, "recv") > 0 && countEv(w, 0, s.chanA, p.P.Sequence, "timeout") > 0 {
			return &ksim.Fail{Key: "received-and-timed-out/localhost", Text: fmt.Sprintf("localhost packet %d was both received and timed out", p.P.Sequence)}
		}
	}
	return nil
}

func (s *LH) Step(pre *ksim.World, op ksim.Op, r ksim.Result, post *ksim.World) *ksim.Fail {
	if op.K != "timeout" || r.Class != ksim.OK {
		return nil
	}
	p := pre.Ext.(*lhExt).Pkts[op.A[0]].P
	h, t := uint64(pre.CS[0].H()), uint64(pre.CS[0].TimeNs())
	heightReached := !p.TimeoutHeight.IsZero() && h >= p.TimeoutHeight.RevisionHeight
	timeReached := p.TimeoutTimestamp != 0 && t >= p.TimeoutTimestamp
	if !heightReached && !timeReached {
		kind := "height"
		if p.TimeoutHeight.IsZero() {
			kind = "timestamp"
		}
		return &ksim.Fail{Key: "early-timeout/localhost/" + kind, Text: fmt.Sprintf("localhost timeout accepted at chain height %d time %d with claimed proof height %d, but the packet times out at height %s / timestamp %d", h, t, op.A[1], p.TimeoutHeight, p.TimeoutTimestamp)}
	}
	return nil
}

func runC04(c *core.C) {
	d := core.Pick(c, 0, 2)
	parts := []ksim.Part{
		{Name: "macro/v1-unordered", Sc: macro(c04Scenario([]int{rV1U}, 2, 3, []int{1, 10, -1})), Cfg: ksim.Config{MaxDepth: 7 + d}, Share: 0.12},
		{Name: "macro/v1-ordered", Sc: macro(c04Scenario([]int{rV1O}, 2, 3, []int{1, -1, -2})), Cfg: ksim.Config{MaxDepth: 7 + d}, Share: 0.14},
		{Name: "macro/v2-client", Sc: macro(c04Scenario([]int{rV2C}, 2, 3, []int{1, 2, 21, 10})), Cfg: ksim.Config{MaxDepth: 7 + d}, Share: 0.16},
		{Name: "macro/v2-alias", Sc: macro(c04Scenario([]int{rV2A}, 2, 3, []int{1, 21})), Cfg: ksim.Config{MaxDepth: 7 + d}, Share: 0.2},
		{Name: "micro/v1-unordered-stale-heights", Sc: c04Scenario([]int{rV1U}, 1, 3, []int{1, 2, -1}), Cfg: ksim.Config{MaxDepth: 8 + d}, Share: 0.3},
		{Name: "micro/v2-client-stale-heights", Sc: c04Scenario([]int{rV2C}, 1, 3, []int{1, 21}), Cfg: ksim.Config{MaxDepth: 8 + d}, Share: 0.4},
		{Name: "localhost/unordered", Sc: &LH{MaxSend: 2, MaxCommits: 3, Order: channeltypes.UNORDERED}, Cfg: ksim.Config{MaxDepth: 7 + d}, Share: 0.5},
		{Name: "localhost/ordered", Sc: &LH{MaxSend: 2, MaxCommits: 3, Order: channeltypes.ORDERED}, Cfg: ksim.Config{MaxDepth: 7 + d}},
	}
	ksim.RunParts(c, parts, [][]ksim.Op{
		{{K: "send", A: []int{0, 0, 1}}, {K: "sync", A: []int{1}}, {K: "timeout", A: []int{0, 14}}, {K: "sync", A: []int{0}}, {K: "recv", A: []int{0, 13}}},
		{{K: "send", A: []int{2}}, {K: "timeout", A: []int{0, 1000000}}, {K: "recv", A: []int{0}}},
	})
	c.Set("alphabet", "send(timeout: destination height +1/+2 | exactly the current destination height/time | v1 timestamp +1/+2 blocks | v2 seconds of the destination clock +k blocks (+1 s); destination blocks every 5.3 s so second/nanosecond boundaries differ) | sync or commit/update | recv(any of the 3 newest heights) | timeout(any of the 3 newest consensus heights and latest+1); localhost: timeout(claimed proof height in {0, current, current+1, timeout height, 10^6})")
	c.Assume("counterparty consensus, storage commit and validator signing are played by the harness; the early/late verdicts are computed from the harness's own record of the destination chain (block heights, times, committed snapshots), not from the light client")
}
