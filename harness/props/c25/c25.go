// Package c25 checks C25: client recovery and upgrade are gated and touch only the subject.
package c25

import (
	"verif/harness/core"
	"verif/harness/ksim"
	"verif/harness/props/tmworld"
)

func init() { core.Register("C25", "model_checking", run) }

func run(c *core.C) {
	d := core.Pick(c, 0, 1)
	full := tmworld.New25(tmworld.C25Config{Thorough: !c.Quick()})
	coreSc := tmworld.New25(tmworld.C25Config{Core: true})
	parts := []ksim.Part{
		{Name: "all-pairs", Sc: full, Cfg: ksim.Config{MaxDepth: 2 + d}, Share: 0.75},
		{Name: "core-population/deeper", Sc: coreSc, Cfg: ksim.Config{MaxDepth: 3 + d}},
	}
	ksim.RunParts(c, parts, [][]ksim.Op{
		{{K: "rec", A: []int{2, 5}}, {K: "rec", A: []int{2, 5}}},
		{{K: "upg", A: []int{28, 0, 0}}, {K: "upg", A: []int{28, 0, 0}}},
		{{K: "rec", A: []int{12, 5}}, {K: "rec", A: []int{2, 14}}},
	})
	c.Set("alphabet", "rec(i,j) = MsgRecoverClient signed by the gov authority for every ordered pair (subject i, substitute j) of the population | upg(i,plan,request) = MsgUpgradeClient for every upgrade subject with each request shape of its own plan, and the exact request of plan 0 against every client")
	c.Set("population", full.Population())
	c.Set("population_core", coreSc.Population())
	obs := append(full.Observations(), coreSc.Observations()...)
	c.Set("observations", obs)
	c.Assume("the counterparty is virtual: the upgraded client and consensus state are committed in a harness-built two-store IAVL multistore (ibc, upgrade) whose app hash is the root of the upgrade subject's latest consensus state, so upgrade proofs are real ICS-23 proofs")
	c.Assume("statuses are realised in the root world: Frozen by a real misbehaviour submission, Expired by a 100 s trusting period and a 200 s clock jump, Active by a 10000 s trusting period")
	c.Assume("a handler panic counts as 'does not succeed' (ksim.Tx classifies it PANIC, as baseapp's recovery would)")
}
