// Package c21 checks C21: tendermint client status is exact and gates every use.
package c21

import (
	"verif/harness/core"
	"verif/harness/ksim"
	"verif/harness/props/tmworld"
)

func init() { core.Register("C21", "model_checking", run) }

func run(c *core.C) {
	n := core.Pick(c, 6, 8)
	d := core.Pick(c, 0, 2)
	or := tmworld.Oracles{C21: true}
	mk := func(p tmworld.Params, adv, rec int, uses bool) *tmworld.Scenario {
		// with the use operations the complete update alphabet stays enabled on an inactive client (gating);
		// the deep part keeps two update canaries and one misbehaviour canary there
		// (quick: the deep part also leaves misbehaviour submissions to the part with the use operations)
		return tmworld.New(tmworld.Config{P: p, MaxAdv: adv, MaxRec: rec, Mis: uses || !c.Quick(), Uses: uses, FullInactive: uses, CrossRev: true}, or)
	}
	parts := []ksim.Part{
		{Name: "virt-2/status-and-uses", Sc: mk(tmworld.Params{Rev: 2, Base: 0, N: n}, 3, 2, true), Cfg: ksim.Config{MaxDepth: 4 + d}, Share: 0.6},
		{Name: "virt-2/status-deep/no-use-ops", Sc: mk(tmworld.Params{Rev: 2, Base: 0, N: n}, core.Pick(c, 2, 4), core.Pick(c, 1, 2), false), Cfg: ksim.Config{MaxDepth: 5 + d}, Share: 0.8},
		{Name: "rev47/heights-12031..(12032=0x2f00)", Sc: mk(tmworld.Params{Rev: 47, Base: 12030, N: n}, 2, 1, true), Cfg: ksim.Config{MaxDepth: 3 + d}},
	}
	ksim.RunParts(c, parts, [][]ksim.Op{
		{{K: "adv", A: []int{1}}, {K: "use-send", A: []int{1}}, {K: "rec", A: []int{2}}, {K: "rec", A: []int{3}}, {K: "use-verify", A: []int{91}}},
		{{K: "upd", A: []int{2, 0, 1}}, {K: "upd", A: []int{2, 1, 1}}, {K: "use-recv", A: []int{2}}, {K: "rec", A: []int{0}}, {K: "upd", A: []int{3, 0, 2}}},
	})
	tmworld.Describe(c)
	c.Set("status_reference", "Frozen if frozen (by the reference's own notion of conflicting header / out-of-order header / valid misbehaviour) and not recovered since; else Expired if the latest consensus state is missing or latestTime + trustingPeriod <= now (the boundary now == latestTime + trustingPeriod is reachable: block 1 is exactly trusting/2 old); else Active")
	c.Assume("the use operations run on an OPEN connection / channel written directly into chain A's store (the virtual counterparty does not run handshakes) and are executed on a fork that is dropped, so only their outcome is observed")
}
