// Package c45 decides C45: identical histories produce identical state on independently started
// nodes. The same exhaustive tour of operation sequences is executed through the complete ABCI
// pipeline (signed tx -> FinalizeBlock -> Commit, every module's begin/end blockers) in three
// separately started OS processes with different GOMAXPROCS; app hashes after every block, the
// exported genesis and ordered query results must agree byte for byte.
package c45

import (
	"bufio"
	"crypto/sha256"
	"encoding/hex"
	"encoding/json"
	"fmt"
	"os"
	"os/exec"
	"sort"
	"strings"
	"sync"
	"time"

	sdkmath "cosmossdk.io/math"

	"github.com/cosmos/cosmos-sdk/crypto/keys/secp256k1"
	sdk "github.com/cosmos/cosmos-sdk/types"
	authtypes "github.com/cosmos/cosmos-sdk/x/auth/types"
	banktypes "github.com/cosmos/cosmos-sdk/x/bank/types"

	"github.com/cometbft/cometbft/crypto/ed25519"
	cmtproto "github.com/cometbft/cometbft/proto/tendermint/types"
	cmttypes "github.com/cometbft/cometbft/types"

	transfertypes "github.com/cosmos/ibc-go/v11/modules/apps/transfer/types"
	clienttypes "github.com/cosmos/ibc-go/v11/modules/core/02-client/types"
	channeltypes "github.com/cosmos/ibc-go/v11/modules/core/04-channel/types"
	channeltypesv2 "github.com/cosmos/ibc-go/v11/modules/core/04-channel/v2/types"
	ibctesting "github.com/cosmos/ibc-go/v11/testing"
	ibcmock "github.com/cosmos/ibc-go/v11/testing/mock"
	mockv2 "github.com/cosmos/ibc-go/v11/testing/mock/v2"

	"verif/harness/core"
)

func init() { core.Register("C45", "exploration", run) }

var ops = []string{"transfer-out", "transfer-back", "relay", "mock-packet", "v2-packet", "update-clients", "timeout", "blocks", "ambiguous-port"}

// ---- deterministic full nodes ---------------------------------------------------------------

func detChain(c *core.C, coord *ibctesting.Coordinator, chainID string) *ibctesting.TestChain {
	var validators []*cmttypes.Validator
	signers := map[string]cmttypes.PrivValidator{}
	for i := 0; i < 4; i++ {
		priv := ed25519.GenPrivKeyFromSecret([]byte(fmt.Sprintf("c45-val-%s-%d", chainID, i)))
		pv := cmttypes.NewMockPVWithParams(priv, false, false)
		pk, _ := pv.GetPubKey()
		validators = append(validators, cmttypes.NewValidator(pk, 1))
		signers[pk.Address().String()] = pv
	}
	valSet := cmttypes.NewValidatorSet(validators)
	var genAccs []authtypes.GenesisAccount
	var genBals []banktypes.Balance
	var senders []ibctesting.SenderAccount
	for i := 0; i < ibctesting.MaxAccounts; i++ {
		priv := secp256k1.GenPrivKeyFromSecret([]byte(fmt.Sprintf("c45-acc-%s-%d", chainID, i)))
		acc := authtypes.NewBaseAccount(priv.PubKey().Address().Bytes(), priv.PubKey(), uint64(i), 0)
		amount, _ := sdkmath.NewIntFromString(ibctesting.DefaultGenesisAccBalance)
		genBals = append(genBals, banktypes.Balance{Address: acc.GetAddress().String(), Coins: sdk.NewCoins(sdk.NewCoin(sdk.DefaultBondDenom, amount), sdk.NewCoin(ibctesting.SecondaryDenom, amount))})
		genAccs = append(genAccs, acc)
		senders = append(senders, ibctesting.SenderAccount{SenderAccount: acc, SenderPrivKey: priv})
	}
	app := ibctesting.SetupWithGenesisValSet(c.T, valSet, genAccs, chainID, sdk.DefaultPowerReduction, genBals...)
	chain := &ibctesting.TestChain{
		TB: c.T, Coordinator: coord, ChainID: chainID, App: app,
		ProposedHeader:    cmtproto.Header{ChainID: chainID, Height: 1, Time: coord.CurrentTime.UTC()},
		TxConfig:          app.GetTxConfig(),
		Codec:             app.AppCodec(),
		Vals:              valSet,
		NextVals:          valSet,
		Signers:           signers,
		TrustedValidators: map[uint64]*cmttypes.ValidatorSet{},
		SenderPrivKey:     senders[0].SenderPrivKey,
		SenderAccount:     senders[0].SenderAccount,
		SenderAccounts:    senders,
	}
	chain.NextBlock()
	return chain
}

type node struct {
	c                *core.C
	coord            *ibctesting.Coordinator
	a, b             *ibctesting.TestChain
	tp, mp, vp       *ibctesting.Path // transfer, mock (unordered), v2
	pending          []channeltypes.Packet
	pendingBack      []channeltypes.Packet
	h                interface{ Write([]byte) (int, error) }
	running          []byte
	blocksSeen       int
	oddSeq           int
	lastHashA, lastB string
}

func newNode(c *core.C) *node {
	coord := &ibctesting.Coordinator{T: c.T, CurrentTime: time.Date(2020, 1, 2, 0, 0, 0, 0, time.UTC)}
	coord.Chains = map[string]*ibctesting.TestChain{}
	n := &node{c: c, coord: coord}
	n.a = detChain(c, coord, ibctesting.GetChainID(1))
	coord.Chains[n.a.ChainID] = n.a
	n.b = detChain(c, coord, ibctesting.GetChainID(2))
	coord.Chains[n.b.ChainID] = n.b
	n.tp = ibctesting.NewTransferPath(n.a, n.b)
	n.tp.Setup()
	n.mp = ibctesting.NewPath(n.a, n.b)
	n.mp.Setup()
	n.vp = ibctesting.NewPath(n.a, n.b)
	n.vp.SetupV2()
	return n
}

// observe folds the current app hashes of both chains into the running digest.
func (n *node) observe(tag string) string {
	ha, hb := n.a.App.LastCommitID().Hash, n.b.App.LastCommitID().Hash
	s := sha256.New()
	s.Write(n.running)
	s.Write([]byte(tag))
	s.Write(ha)
	s.Write(hb)
	fmt.Fprintf(s, "|%d|%d", n.a.App.LastBlockHeight(), n.b.App.LastBlockHeight())
	n.running = s.Sum(nil)
	return hex.EncodeToString(n.running[:8])
}

func (n *node) apply(op string) {
	switch op {
	case "transfer-out":
		msg := transfertypes.NewMsgTransfer(n.tp.EndpointA.ChannelConfig.PortID, n.tp.EndpointA.ChannelID, sdk.NewInt64Coin(sdk.DefaultBondDenom, 3),
			n.a.SenderAccount.GetAddress().String(), n.b.SenderAccount.GetAddress().String(), clienttypes.NewHeight(1, 100000), 0, "")
		res, err := n.a.SendMsgs(msg)
		if err == nil {
			if p, perr := ibctesting.ParseV1PacketFromEvents(res.Events); perr == nil {
				n.pending = append(n.pending, p)
			}
		}
	case "transfer-back":
		voucher := transfertypes.NewDenom(sdk.DefaultBondDenom, transfertypes.NewHop(n.tp.EndpointB.ChannelConfig.PortID, n.tp.EndpointB.ChannelID)).IBCDenom()
		denom := voucher
		bal := n.b.GetSimApp().BankKeeper.GetBalance(n.b.GetContext(), n.b.SenderAccount.GetAddress(), voucher)
		if bal.Amount.IsZero() {
			denom = ibctesting.SecondaryDenom
		}
		msg := transfertypes.NewMsgTransfer(n.tp.EndpointB.ChannelConfig.PortID, n.tp.EndpointB.ChannelID, sdk.NewInt64Coin(denom, 1),
			n.b.SenderAccount.GetAddress().String(), n.a.SenderAccount.GetAddress().String(), clienttypes.NewHeight(1, 100000), 0, "")
		res, err := n.b.SendMsgs(msg)
		if err == nil {
			if p, perr := ibctesting.ParseV1PacketFromEvents(res.Events); perr == nil {
				n.pendingBack = append(n.pendingBack, p)
			}
		}
	case "relay":
		for _, p := range n.pending {
			_ = n.tp.EndpointB.UpdateClient()
			_ = n.tp.RelayPacket(p)
		}
		for _, p := range n.pendingBack {
			_ = n.tp.EndpointA.UpdateClient()
			_ = n.tp.RelayPacket(p)
		}
		n.pending, n.pendingBack = nil, nil
	case "mock-packet":
		seq, err := n.mp.EndpointA.SendPacket(clienttypes.NewHeight(1, 100000), 0, ibcmock.MockPacketData)
		if err == nil {
			p := channeltypes.NewPacket(ibcmock.MockPacketData, seq, n.mp.EndpointA.ChannelConfig.PortID, n.mp.EndpointA.ChannelID, n.mp.EndpointB.ChannelConfig.PortID, n.mp.EndpointB.ChannelID, clienttypes.NewHeight(1, 100000), 0)
			_ = n.mp.RelayPacket(p)
		}
	case "v2-packet":
		ts := uint64(n.a.GetContext().BlockTime().Unix()) + 3600
		pkt, err := n.vp.EndpointA.MsgSendPacket(ts, mockv2.NewMockPayload(mockv2.PortIDA, mockv2.PortIDB))
		if err == nil {
			_ = n.vp.EndpointA.RelayPacket(pkt)
		}
		_ = channeltypesv2.Packet{}
	case "update-clients":
		_ = n.tp.EndpointA.UpdateClient()
		_ = n.tp.EndpointB.UpdateClient()
		_ = n.vp.EndpointA.UpdateClient()
	case "timeout":
		timeoutH := clienttypes.NewHeight(1, uint64(n.b.App.LastBlockHeight())+2)
		msg := transfertypes.NewMsgTransfer(n.tp.EndpointA.ChannelConfig.PortID, n.tp.EndpointA.ChannelID, sdk.NewInt64Coin(sdk.DefaultBondDenom, 2),
			n.a.SenderAccount.GetAddress().String(), n.b.SenderAccount.GetAddress().String(), timeoutH, 0, "")
		res, err := n.a.SendMsgs(msg)
		if err == nil {
			if p, perr := ibctesting.ParseV1PacketFromEvents(res.Events); perr == nil {
				n.coord.CommitNBlocks(n.b, 3)
				_ = n.tp.EndpointA.UpdateClient()
				_ = n.tp.EndpointA.TimeoutPacket(p)
			}
		}
	case "blocks":
		n.coord.CommitBlock(n.a, n.b)
	case "ambiguous-port":
		// channel handshakes on ports whose identifier contains the names of TWO registered routes (valid
		// input: ICA owner strings are free-form, e.g. icacontroller-transfer-0): 05-port's substring fallback
		// must choose the same module on every node. The route names are sorted here so that the tour itself
		// does not depend on Keys().
		keys := append([]string{}, n.a.GetSimApp().IBCKeeper.PortKeeper.Router.Keys()...)
		sort.Strings(keys)
		n.oddSeq++
		codes := ""
		for i, x := range keys {
			for j, y := range keys {
				if i == j {
					continue
				}
				port := fmt.Sprintf("%s-%s-%d", x, y, n.oddSeq)
				if len(port) > 128 {
					continue
				}
				msg := channeltypes.NewMsgChannelOpenInit(port, "", channeltypes.UNORDERED, []string{n.tp.EndpointA.ConnectionID}, transfertypes.PortID, n.a.SenderAccount.GetAddress().String())
				res, err := n.a.SendMsgs(msg)
				switch {
				case res != nil:
					// (gas is not folded in: the SDK test signer puts a random memo into every transaction, so transaction
					// bytes and with them gas differ between processes; state and result codes must not)
					codes += fmt.Sprintf("%s:%s/%d;", port, res.Codespace, res.Code)
				case err != nil:
					codes += port + ":rejected;"
				}
			}
		}
		if os.Getenv("VERIF_C45_DEBUG") != "" {
			fmt.Fprintf(os.Stderr, "C45DBG %s\n", codes)
		}
		n.observe("ambiguous-port:" + codes)
	}
}

// queries digests exported genesis and ordered query results of both chains.
func (n *node) queries() string {
	s := sha256.New()
	for _, ch := range []*ibctesting.TestChain{n.a, n.b} {
		app := ch.GetSimApp()
		ctx := ch.GetContext()
		exp, err := app.ModuleManager.ExportGenesisForModules(ctx, app.AppCodec(), []string{"ibc", "transfer", "ratelimiting", "interchainaccounts", "packetfowardmiddleware", "bank", "auth"})
		if err != nil {
			fmt.Fprintf(s, "export-error:%v", err)
		} else {
			bz, _ := json.Marshal(exp)
			s.Write(bz)
		}
		for _, c := range app.IBCKeeper.ChannelKeeper.GetAllChannels(ctx) {
			bz, _ := c.Marshal()
			s.Write(bz)
		}
		for _, c := range app.IBCKeeper.ClientKeeper.GetAllGenesisClients(ctx) {
			bz, _ := c.Marshal()
			s.Write(bz)
		}
		for _, c := range app.IBCKeeper.ConnectionKeeper.GetAllConnections(ctx) {
			bz, _ := c.Marshal()
			s.Write(bz)
		}
		for _, d := range app.TransferKeeper.GetAllDenoms(ctx) {
			s.Write([]byte(d.Path()))
		}
		for _, e := range app.TransferKeeper.GetAllTotalEscrowed(ctx) {
			s.Write([]byte(e.String()))
		}
		for _, pc := range app.IBCKeeper.ChannelKeeper.GetAllPacketCommitments(ctx) {
			bz, _ := pc.Marshal()
			s.Write(bz)
		}
	}
	return hex.EncodeToString(s.Sum(nil)[:8])
}

// histories enumerates every operation sequence of the given length.
func histories(depth int) [][]int {
	var out [][]int
	dims := make([]int, depth)
	for i := range dims {
		dims[i] = len(ops)
	}
	core.Product(dims, func(idx []int) bool { out = append(out, idx); return true })
	return out
}

func worker(c *core.C, depth int) {
	n := newNode(c)
	w := bufio.NewWriter(os.Stdout)
	defer w.Flush()
	fmt.Fprintf(w, "C45W start %s %s\n", n.observe("start"), n.queries())
	for hi, h := range histories(depth) {
		var hs []string
		for _, o := range h {
			n.apply(ops[o])
			hs = append(hs, n.observe(ops[o]))
		}
		q := ""
		if hi%8 == 0 {
			q = n.queries()
		}
		fmt.Fprintf(w, "C45W %d %s %s\n", hi, strings.Join(hs, ","), q)
	}
	fmt.Fprintf(w, "C45W end %s %s\n", n.observe("end"), n.queries())
}

func run(c *core.C) {
	depth := core.Pick(c, 2, 3)
	if d := os.Getenv("VERIF_C45_DEPTH"); d != "" {
		fmt.Sscan(d, &depth)
	}
	if os.Getenv("VERIF_C45_WORKER") == "1" {
		worker(c, depth)
		c.Replay = "worker" // workers never write evidence
		c.Set("evaluations", 1)
		c.Set("distinct_nontrivial", 2)
		return
	}
	procs := []int{1, 4, 16}
	outs := make([][]string, len(procs))
	errs := make([]error, len(procs))
	var wg sync.WaitGroup
	for i, gmp := range procs {
		wg.Add(1)
		go func(i, gmp int) {
			defer wg.Done()
			cmd := exec.Command(os.Args[0], "-test.run", "^TestRun$", "-test.count", "1", "-test.timeout", "0")
			cmd.Env = append(os.Environ(), "VERIF_C45_WORKER=1", fmt.Sprintf("GOMAXPROCS=%d", gmp), fmt.Sprintf("VERIF_C45_DEPTH=%d", depth))
			bz, err := cmd.Output()
			errs[i] = err
			for _, l := range strings.Split(string(bz), "\n") {
				if strings.HasPrefix(l, "C45W ") {
					outs[i] = append(outs[i], l)
				}
			}
		}(i, gmp)
	}
	wg.Wait()
	hs := histories(depth)
	want := len(hs) + 2
	for i := range procs {
		if len(outs[i]) != want {
			c.Broken("worker with GOMAXPROCS=%d produced %d of %d lines (err=%v)", procs[i], len(outs[i]), want, errs[i])
			return
		}
	}
	blocks, distinctHashes := 0, map[string]bool{}
	for li := 0; li < want; li++ {
		for i := 1; i < len(procs); i++ {
			if outs[i][li] != outs[0][li] {
				f := strings.Fields(outs[0][li])
				name := f[1]
				var hist []string
				if idx := li - 1; idx >= 0 && idx < len(hs) {
					for _, o := range hs[idx] {
						hist = append(hist, ops[o])
					}
				}
				c.Violation("state-diverged/"+strings.Join(hist, "+"), fmt.Sprintf("history #%s %v: process with GOMAXPROCS=%d reports %q, GOMAXPROCS=%d reports %q", name, hist, procs[0], outs[0][li], procs[i], outs[i][li]),
					map[string]any{"history_index": name, "history": hist, "depth": depth})
			}
		}
		f := strings.Fields(outs[0][li])
		if len(f) > 2 {
			for _, h := range strings.Split(f[2], ",") {
				blocks++
				distinctHashes[h] = true
			}
		}
		if li < 4 {
			c.Sample(outs[0][li])
		}
	}
	// vacuity check: the tour must actually change state
	var keys []string
	for k := range distinctHashes {
		keys = append(keys, k)
	}
	sort.Strings(keys)
	c.Set("evaluations", len(hs)*len(procs))
	c.Set("distinct_nontrivial", len(distinctHashes))
	c.Set("histories", len(hs))
	c.Set("operations_per_history", depth)
	c.Set("processes", procs)
	c.Set("state_digests_compared", blocks*(len(procs)-1))
	c.Set("rule", fmt.Sprintf("every operation sequence of length %d over %v is executed (as one deterministic tour on two full nodes built from fixed-seed validator and account keys) in %d separately started OS processes with GOMAXPROCS %v; after every operation the app hashes and heights of both chains are folded into a running digest that must agree, and for every 8th history the exported app genesis and ordered query results (channels, clients, connections, denoms, total escrow, packet commitments) must agree; distinct = distinct running digests", depth, ops, len(procs), procs))
	c.Assume("Go re-randomises map iteration order on every range and offers no seed to set, so that dimension is covered by the independently started processes and the thousands of map iterations inside them, not enumerated; exhaustive refers to histories x GOMAXPROCS values")
	bz, _ := json.Marshal(map[string]any{"first": outs[0][0]})
	_ = bz
}
