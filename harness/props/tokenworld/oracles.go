package tokenworld

import (
	"bytes"
	"fmt"
	"sort"
	"strings"

	sdkmath "cosmossdk.io/math"

	sdk "github.com/cosmos/cosmos-sdk/types"

	transfertypes "github.com/cosmos/ibc-go/v11/modules/apps/transfer/types"

	"verif/harness/ksim"
)

var bankOnly = []string{"bank"}

// bankDiff lists every balance (of ANY account, tracked or not) and supply entry of chain c whose
// value differs between pre and post. It works on the raw bank store, so nothing can hide.
func (s *TW) bankDiff(pre, post *ksim.World, c int) []Delta {
	keys := ksim.DiffStores(pre.DumpStores(c, bankOnly), post.DumpStores(c, bankOnly))
	var out []Delta
	bank := pre.W.Chains[c].App.BankKeeper
	for _, k := range keys {
		raw := []byte(strings.TrimPrefix(k, "bank/"))
		if len(raw) == 0 {
			continue
		}
		switch raw[0] {
		case 0:
			denom := string(raw[1:])
			d := Delta{Denom: denom, Before: bank.GetSupply(pre.CS[c].Ctx, denom).Amount, After: bank.GetSupply(post.CS[c].Ctx, denom).Amount}
			if !d.Before.Equal(d.After) {
				out = append(out, d)
			}
		case 2:
			a, denom, ok := splitBalanceKey(raw)
			if !ok {
				panic("tokenworld: cannot parse bank balance key")
			}
			d := Delta{Addr: append([]byte{}, a...), Denom: denom, Before: bank.GetBalance(pre.CS[c].Ctx, a, denom).Amount, After: bank.GetBalance(post.CS[c].Ctx, a, denom).Amount}
			if !d.Before.Equal(d.After) {
				out = append(out, d)
			}
		}
	}
	return out
}

func fmtDx(dx []Delta) string {
	parts := make([]string, len(dx))
	for i, d := range dx {
		parts[i] = d.String()
	}
	return "{" + strings.Join(parts, ", ") + "}"
}

func kindOf(d DenomRec) string {
	if len(d.Hops) == 0 {
		return "native"
	}
	return "voucher"
}

func pathKindName(p int) string {
	if p%2 == 0 {
		return "channel"
	}
	return "client"
}

// Step implements ksim.Scenario (transition oracles C32, C49).
func (s *TW) Step(pre *ksim.World, op ksim.Op, r ksim.Result, post *ksim.World) *ksim.Fail {
	s.note(pre, op, r, post)
	if s.Arm.C32 {
		if f := s.stepC32(pre, op, r, post); f != nil {
			return f
		}
	}
	if s.Arm.C49 {
		if f := s.stepC49(pre, op, r, post); f != nil {
			return f
		}
	}
	return nil
}

// note counts the token-level events of executed transitions for the evidence file (what the
// oracles were actually exercised on).
func (s *TW) note(pre *ksim.World, op ksim.Op, r ksim.Result, post *ksim.World) {
	if s.Hist == nil || r.Class != ksim.OK {
		if s.Hist != nil && op.K == OpBadSend {
			s.Hist("token_events", "signer-mismatch-rejected/"+RouteNames[op.A[2]])
		}
		return
	}
	switch op.K {
	case OpXfer:
		p := ext(post).Pkts[len(ext(post).Pkts)-1]
		zone := "sink-burn"
		if p.Source {
			zone = "source-escrow"
		}
		s.Hist("token_events", "send/"+zone+"/"+RouteNames[p.Route]+"/"+kindOf(ext(post).Denoms[p.Denom]))
	case OpRecv:
		before, after := ext(pre).Pkts[op.A[0]], ext(post).Pkts[op.A[0]]
		if before.Recv != 0 {
			return
		}
		what := "recv-error-ack"
		if after.Recv == 1 {
			what = "recv-mint"
			if !after.Source {
				what = "recv-unescrow"
			}
		}
		s.Hist("token_events", what+"/"+RouteNames[after.Route])
	case OpAck, OpTimeout:
		before, after := ext(pre).Pkts[op.A[0]], ext(post).Pkts[op.A[0]]
		if before.Term != 0 {
			return
		}
		what := []string{"", "success-ack", "refund-by-error-ack", "refund-by-timeout"}[after.Term]
		if after.Term == 3 && !after.V2() {
			what += []string{"", "-height", "-timestamp"}[after.ToKind]
		}
		zone := "/remint"
		if after.Source {
			zone = "/unescrow"
		}
		if after.Term == 1 {
			zone = ""
		}
		s.Hist("token_events", what+zone+"/"+RouteNames[after.Route]+"/"+kindOf(ext(post).Denoms[after.Denom]))
	}
}

// Invariant implements ksim.Scenario (state oracles C30, C31).
func (s *TW) Invariant(w *ksim.World) *ksim.Fail {
	if s.Arm.C30 {
		if f := s.invC30(w); f != nil {
			return f
		}
	}
	if s.Arm.C31 {
		if f := s.invC31(w); f != nil {
			return f
		}
	}
	return nil
}

// ---- C30: conservation ----------------------------------------------------------------------------

// holders lists the non-escrow accounts whose holdings count as circulating tokens.
func (s *TW) holders() []sdk.AccAddress {
	var out []sdk.AccAddress
	for c := 0; c < s.NChains; c++ {
		for u := 0; u < UsersPerChain; u++ {
			out = append(out, UserAddr(c, u))
		}
	}
	return append(out, relayerAddr, strangerAdr, moduleAddr)
}

func (s *TW) invC30(w *ksim.World) *ksim.Fail {
	e := ext(w)
	// (1) per path and denomination:  escrow == voucher supply on the other side + in flight (both directions)
	for ti, t := range e.Denoms {
		x := t.Chain
		for _, link := range s.linksOf(x) {
			y := s.peer(link, x)
			for kind := 0; kind < 2; kind++ {
				p := pathIdx(link, kind)
				esc := s.bal(w, x, s.escrowAddr(p, x), t.Bank)
				vh := append([]string{s.idOn(p, y)}, t.Hops...)
				vs := s.supply(w, y, bankDenom(vh, t.Base))
				fwd, back := sdkmath.ZeroInt(), sdkmath.ZeroInt()
				for _, pk := range e.Pkts {
					if pk.Closed() || pk.Path != p {
						continue
					}
					if pk.Source && pk.Src == x && pk.Denom == ti {
						fwd = fwd.Add(pk.Amount)
					}
					if !pk.Source && pk.Src == y {
						d := e.Denoms[pk.Denom]
						if bankDenom(d.Hops[1:], d.Base) == t.Bank {
							back = back.Add(pk.Amount)
						}
					}
				}
				want := vs.Add(fwd).Add(back)
				if !esc.Equal(want) {
					dir := "escrow-short"
					if esc.GT(want) {
						dir = "escrow-excess"
					}
					return &ksim.Fail{Key: fmt.Sprintf("c30/%s/%s-path/%s", dir, pathKindName(p), kindOf(t)),
						Text: fmt.Sprintf("chain %c escrow(%s) holds %s %s but the counterparty's voucher supply is %s, in flight forward %s, in flight back %s", 'A'+x, s.idOn(p, x), esc, t.Path(), vs, fwd, back)}
				}
			}
		}
	}
	// (2) IBC never changes the supply of a native denomination on its home chain
	for _, t := range e.Denoms {
		if len(t.Hops) != 0 {
			continue
		}
		if now := s.supply(w, t.Chain, t.Bank); !now.Equal(e.Supply0[refKey(t.Chain, t.Bank)]) {
			return &ksim.Fail{Key: "c30/native-supply-changed/" + t.Base, Text: fmt.Sprintf("supply of native %s on chain %c is %s, was %s", t.Bank, 'A'+t.Chain, now, e.Supply0[refKey(t.Chain, t.Bank)])}
		}
	}
	// (3) nobody gains: per native denomination, holdings of it and of all its vouchers on all chains plus the amounts in flight are constant
	sum := map[int]sdkmath.Int{}
	add := func(fam int, a sdkmath.Int) {
		cur, ok := sum[fam]
		if !ok {
			cur = sdkmath.ZeroInt()
		}
		sum[fam] = cur.Add(a)
	}
	for c := 0; c < s.NChains; c++ {
		bank := w.W.Chains[c].App.BankKeeper
		ctx := w.CS[c].Ctx
		var accts []sdk.AccAddress
		accts = append(accts, s.holders()...)
		nh := len(accts)
		for _, link := range s.linksOf(c) {
			accts = append(accts, s.escrowAddr(pathIdx(link, 0), c), s.escrowAddr(pathIdx(link, 1), c))
		}
		for i, a := range accts {
			for _, coin := range bank.GetAllBalances(ctx, a) {
				di := e.denomIdx(c, coin.Denom)
				if di < 0 {
					return &ksim.Fail{Key: "c30/unknown-denom-held", Text: fmt.Sprintf("%s on chain %c holds %s, a denomination no acknowledged transfer accounts for", addrName(a), 'A'+c, coin)}
				}
				if i < nh {
					add(e.Denoms[di].Fam, coin.Amount)
				}
			}
		}
		var bad *sdk.Coin
		bank.IterateTotalSupply(ctx, func(coin sdk.Coin) bool {
			if strings.HasPrefix(coin.Denom, "ibc/") && e.denomIdx(c, coin.Denom) < 0 {
				bad = &coin
				return true
			}
			return false
		})
		if bad != nil {
			return &ksim.Fail{Key: "c30/unknown-voucher-supply", Text: fmt.Sprintf("chain %c has supply %s of a voucher no acknowledged transfer accounts for", 'A'+c, *bad)}
		}
	}
	for _, pk := range e.Pkts {
		if !pk.Closed() {
			add(e.Denoms[pk.Denom].Fam, pk.Amount)
		}
	}
	for fam := range e.Denoms {
		want, native := e.Total0[fam]
		if !native {
			continue
		}
		got, ok := sum[fam]
		if !ok {
			got = sdkmath.ZeroInt()
		}
		if !got.Equal(want) {
			dir := "lost"
			if got.GT(want) {
				dir = "created"
			}
			t := e.Denoms[fam]
			return &ksim.Fail{Key: "c30/circulating-total/" + dir + "/" + t.Base, Text: fmt.Sprintf("holdings of %s of chain %c and its vouchers on all chains plus in-flight amounts total %s, initially %s", t.Bank, 'A'+t.Chain, got, want)}
		}
	}
	return nil
}

// ---- C31: tracked total escrow ----------------------------------------------------------------------

func (s *TW) invC31(w *ksim.World) *ksim.Fail {
	e := ext(w)
	for c := 0; c < s.NChains; c++ {
		k := w.W.Chains[c].App.TransferKeeper
		ctx := w.CS[c].Ctx
		for _, coin := range k.GetAllTotalEscrowed(ctx) {
			if e.denomIdx(c, coin.Denom) < 0 {
				return &ksim.Fail{Key: "c31/unknown-denom-tracked", Text: fmt.Sprintf("chain %c tracks total escrow %s for a denomination the reference never saw escrowed", 'A'+c, coin)}
			}
		}
	}
	for _, t := range e.Denoms {
		c := t.Chain
		real := w.W.Chains[c].App.TransferKeeper.GetTotalEscrowForDenom(w.CS[c].Ctx, t.Bank).Amount
		ref := e.escrowRef(c, t.Bank)
		if real.IsNegative() {
			return &ksim.Fail{Key: "c31/negative/" + kindOf(t), Text: fmt.Sprintf("chain %c total escrow of %s is %s", 'A'+c, t.Path(), real)}
		}
		if !real.Equal(ref) {
			dir := "below"
			if real.GT(ref) {
				dir = "above"
			}
			return &ksim.Fail{Key: "c31/tracked-" + dir + "-net-movements/" + kindOf(t), Text: fmt.Sprintf("chain %c tracks total escrow %s of %s but escrowed minus released is %s", 'A'+c, real, t.Path(), ref)}
		}
		held := sdkmath.ZeroInt()
		for _, link := range s.linksOf(c) {
			for kind := 0; kind < 2; kind++ {
				held = held.Add(s.bal(w, c, s.escrowAddr(pathIdx(link, kind), c), t.Bank))
			}
		}
		if real.GT(held) {
			return &ksim.Fail{Key: "c31/exceeds-escrow-balances/" + kindOf(t), Text: fmt.Sprintf("chain %c tracks total escrow %s of %s but all transfer escrow accounts together hold %s", 'A'+c, real, t.Path(), held)}
		}
	}
	return nil
}

// ---- C32: refunds -------------------------------------------------------------------------------

func dxKey(d Delta) string { return string(d.Addr) + "\x00" + d.Denom }

func (s *TW) stepC32(pre *ksim.World, op ksim.Op, r ksim.Result, post *ksim.World) *ksim.Fail {
	if op.K != OpAck && op.K != OpTimeout {
		return nil
	}
	p := ext(pre).Pkts[op.A[0]]
	tag := op.K + "/" + RouteNames[p.Route] + "/" + kindOf(ext(pre).Denoms[p.Denom])
	dx := s.bankDiff(pre, post, p.Src)
	if r.Class != ksim.OK {
		if len(dx) != 0 {
			return &ksim.Fail{Key: "c32/rejected-relay-moved-tokens/" + tag, Text: fmt.Sprintf("%s answered %s but changed %s", s.Describe(pre, op), r, fmtDx(dx))}
		}
		if r.Class == ksim.ERR && r.Code == "sdk/5" {
			return &ksim.Fail{Key: "c32/refund-impossible/" + tag, Text: fmt.Sprintf("%s was accepted by core IBC but the refund failed for lack of funds: %v", s.Describe(pre, op), r.Err)}
		}
		return nil
	}
	if p.Term != 0 {
		// the transfer already had its outcome: exactly once
		if len(dx) != 0 {
			return &ksim.Fail{Key: "c32/second-outcome-moved-tokens/" + tag, Text: fmt.Sprintf("%s ran for a transfer that was already finished (outcome %d) and changed %s", s.Describe(pre, op), p.Term, fmtDx(dx))}
		}
		return nil
	}
	if op.K == OpAck && ackSuccess(p.V2(), p.ackToRelay()) {
		if len(dx) != 0 {
			return &ksim.Fail{Key: "c32/success-ack-moved-tokens/" + tag, Text: fmt.Sprintf("%s (success acknowledgement) changed balances on the sending chain: %s", s.Describe(pre, op), fmtDx(dx))}
		}
		return nil
	}
	// refund: the sender gets exactly the amount back ...
	denom := ext(pre).Denoms[p.Denom].Bank
	sender := mustAcc(p.SndAddr)
	got := sdkmath.ZeroInt()
	for _, d := range dx {
		if bytes.Equal(d.Addr, sender) && d.Denom == denom {
			got = d.D()
		}
	}
	if !got.Equal(p.Amount) {
		return &ksim.Fail{Key: "c32/refund-amount/" + tag, Text: fmt.Sprintf("%s: sender's %s changed by %s, sent amount was %s; all changes %s", s.Describe(pre, op), denom, got, p.Amount, fmtDx(dx))}
	}
	// ... and every account and the supply go back to where they were before the send: the refund's
	// changes are exactly the inverse of the send's changes (other transfers may have moved the same
	// accounts in between, so the comparison is between the two transactions' effects)
	want := map[string]sdkmath.Int{}
	for _, d := range p.SendDx {
		want[dxKey(d)] = d.D().Neg()
	}
	for _, d := range dx {
		k := dxKey(d)
		wv, ok := want[k]
		if !ok || !wv.Equal(d.D()) {
			return &ksim.Fail{Key: "c32/refund-not-inverse-of-send/" + tag, Text: fmt.Sprintf("%s changed %s; the send had changed %s", s.Describe(pre, op), fmtDx(dx), fmtDx(p.SendDx))}
		}
		delete(want, k)
	}
	if len(want) != 0 {
		return &ksim.Fail{Key: "c32/refund-not-inverse-of-send/" + tag, Text: fmt.Sprintf("%s changed %s; the send had changed %s", s.Describe(pre, op), fmtDx(dx), fmtDx(p.SendDx))}
	}
	return nil
}

// ---- C49: authorised debits -------------------------------------------------------------------------

func (s *TW) stepC49(pre *ksim.World, op ksim.Op, r ksim.Result, post *ksim.World) *ksim.Fail {
	e := ext(pre)
	switch op.K {
	case OpXfer, OpBadSend:
		pl := s.planSend(pre, op)
		src := pl.Pkt.Src
		signers, _, err := pre.W.Chains[src].App.AppCodec().GetMsgV1Signers(pl.Msg)
		if err != nil {
			panic(fmt.Sprintf("tokenworld: signer extraction failed: %v", err))
		}
		route := RouteNames[pl.Pkt.Route]
		isSigner := func(a []byte) bool {
			for _, sg := range signers {
				if bytes.Equal(sg, a) {
					return true
				}
			}
			return false
		}
		// the transaction carrying the message is only valid with the signatures of `signers`; the
		// submitting account (pl.Signer) can produce only its own
		if len(signers) != 1 || !bytes.Equal(signers[0], pl.Signer) {
			return &ksim.Fail{Key: "c49/signer-annotation/" + route, Text: fmt.Sprintf("%s: the SDK demands signatures of %v, expected exactly the submitting account %s", s.Describe(pre, op), signers, addrName(pl.Signer))}
		}
		if mt, ok := pl.Msg.(*transfertypes.MsgTransfer); ok && mt.Sender != sdk.AccAddress(signers[0]).String() {
			return &ksim.Fail{Key: "c49/msgtransfer-signer-not-sender", Text: fmt.Sprintf("%s: MsgTransfer.sender %s is not the annotated signer", s.Describe(pre, op), mt.Sender)}
		}
		dx := s.bankDiff(pre, post, src)
		if !isSigner(pl.Sender) {
			// somebody else is named as the owner of the tokens: must be refused without any effect
			if r.Class == ksim.OK || len(dx) != 0 {
				return &ksim.Fail{Key: "c49/sender-not-signer-accepted/" + route, Text: fmt.Sprintf("%s answered %s and changed %s", s.Describe(pre, op), r, fmtDx(dx))}
			}
			if d := storesDiff(pre, post, src); len(d) != 0 {
				return &ksim.Fail{Key: "c49/sender-not-signer-changed-state/" + route, Text: fmt.Sprintf("%s answered %s but changed keys %q", s.Describe(pre, op), r, d)}
			}
			return nil
		}
		if r.Class != ksim.OK && len(dx) != 0 {
			return &ksim.Fail{Key: "c49/rejected-send-moved-tokens/" + route, Text: fmt.Sprintf("%s answered %s but changed %s", s.Describe(pre, op), r, fmtDx(dx))}
		}
		escrow := s.escrowAddr(pl.Pkt.Path, src)
		for _, d := range dx {
			if d.Addr == nil {
				continue
			}
			if d.D().IsNegative() {
				if !isSigner(d.Addr) {
					return &ksim.Fail{Key: "c49/send-debited-non-signer/" + route, Text: fmt.Sprintf("%s debited %s which did not sign; all changes %s", s.Describe(pre, op), d, fmtDx(dx))}
				}
				if d.Denom != pl.Coin.Denom || d.D().Neg().GT(pl.Coin.Amount) {
					return &ksim.Fail{Key: "c49/send-debited-more-than-authorised/" + route, Text: fmt.Sprintf("%s authorised %s but debited %s", s.Describe(pre, op), pl.Coin, d)}
				}
			} else if !bytes.Equal(d.Addr, escrow) {
				return &ksim.Fail{Key: "c49/send-credited-account/" + route, Text: fmt.Sprintf("%s credited %s; a send may only move tokens into the path's escrow account; all changes %s", s.Describe(pre, op), d, fmtDx(dx))}
			}
		}
		return nil

	case OpRecv, OpAck, OpTimeout:
		p := e.Pkts[op.A[0]]
		c := p.Src
		beneficiary := p.SndAddr
		role := "sender"
		if op.K == OpRecv {
			c = p.Dst
			beneficiary = p.RcvAddr
			role = "receiver"
		}
		tag := op.K + "/" + RouteNames[p.Route]
		dx := s.bankDiff(pre, post, c)
		if r.Class != ksim.OK {
			if len(dx) != 0 {
				return &ksim.Fail{Key: "c49/rejected-relay-moved-tokens/" + tag, Text: fmt.Sprintf("%s answered %s but changed %s", s.Describe(pre, op), r, fmtDx(dx))}
			}
			return nil
		}
		escrow := s.escrowAddr(p.Path, c)
		ben := mustAcc(beneficiary)
		for _, d := range dx {
			if d.Addr == nil {
				continue
			}
			if d.D().IsNegative() {
				// only the path's own escrow account may pay, and only for a token that went out through it
				escrowPays := (op.K == OpRecv && !p.Source) || (op.K != OpRecv && p.Source)
				if !bytes.Equal(d.Addr, escrow) || !escrowPays {
					return &ksim.Fail{Key: "c49/relay-debited-account/" + tag, Text: fmt.Sprintf("%s (signed by %s) debited %s; all changes %s", s.Describe(pre, op), addrName(mustAcc(s.relayer(c))), d, fmtDx(dx))}
				}
			} else if !bytes.Equal(d.Addr, ben) {
				return &ksim.Fail{Key: "c49/relay-credited-other-than-" + role + "/" + tag, Text: fmt.Sprintf("%s credited %s; the packet's %s is %s; all changes %s", s.Describe(pre, op), d, role, addrName(ben), fmtDx(dx))}
			}
		}
		return nil
	}
	// block production, client updates, parameter changes: no token moves anywhere
	for c := 0; c < s.NChains; c++ {
		if dx := s.bankDiff(pre, post, c); len(dx) != 0 {
			return &ksim.Fail{Key: "c49/non-transfer-op-moved-tokens/" + op.K, Text: fmt.Sprintf("%s changed %s on chain %c", op, fmtDx(dx), 'A'+c)}
		}
	}
	return nil
}

// storesDiff lists the keys of the default stores plus bank that differ on chain c.
func storesDiff(pre, post *ksim.World, c int) []string {
	names := append(append([]string{}, ksim.AllStores...), "bank")
	d := ksim.DiffStores(pre.DumpStores(c, names), post.DumpStores(c, names))
	sort.Strings(d)
	return d
}
