// Package tokenworld is the shared ICS-20 scenario ("token world") of the checks C30 (token
// conservation), C31 (tracked total escrow), C32 (refunds exactly once) and C49 (authorised
// debits). It runs the unmodified transfer module of real SimApp chains through engine K:
// tendermint clients, a connection and an UNORDERED ics20-1 `transfer` channel per pair of
// neighbouring chains (the channel identifier is at the same time an IBC v2 alias) plus
// registered v2 counterparties for the direct client-to-client route.
//
// The four oracles are separately switchable (Arm); each check package arms only its own.
package tokenworld

import (
	"crypto/sha256"
	"fmt"
	"sync"

	sdkmath "cosmossdk.io/math"

	sdk "github.com/cosmos/cosmos-sdk/types"
	authtypes "github.com/cosmos/cosmos-sdk/x/auth/types"
	distrtypes "github.com/cosmos/cosmos-sdk/x/distribution/types"
	minttypes "github.com/cosmos/cosmos-sdk/x/mint/types"

	transfertypes "github.com/cosmos/ibc-go/v11/modules/apps/transfer/types"
	channeltypes "github.com/cosmos/ibc-go/v11/modules/core/04-channel/types"

	"verif/harness/ksim"
)

// Routes a transfer can take.
const (
	RV1        = 0 // MsgTransfer over the v1 channel
	RAlias     = 1 // MsgSendPacket addressed to the channel identifier (v2 alias of the v1 channel), JSON payload
	RClient    = 2 // MsgSendPacket between the tendermint clients (registered counterparties), protobuf payload
	RMsgAlias  = 3 // MsgTransfer{use_aliasing: true}: the transfer module itself emits the v2 packet over the alias
	RMsgClient = 4 // MsgTransfer whose source_channel is the client identifier (no such channel => v2), protobuf payload
	nRoutes    = 5
)

// RouteNames are used in keys and samples.
var RouteNames = []string{"v1-channel", "v2-alias", "v2-client", "msgtransfer-alias", "msgtransfer-client"}

func routeV2(r int) bool { return r != RV1 }

// routeKind is the path kind a route uses: 0 = the channel identifier, 1 = the client identifier.
func routeKind(r int) int {
	if r == RClient || r == RMsgClient {
		return 1
	}
	return 0
}

// Receiver codes.
const (
	RcvUser0   = 0
	RcvUser1   = 1
	RcvBlocked = 2 // a blocked module account of the destination chain: the receive fails, an error ack is written
)

// Timeout kinds.
const (
	ToFar      = 0
	ToNext     = 1 // expires with the destination's next block (height for v1, seconds for v2)
	ToNextTime = 2 // v1 only: timestamp of the destination's next block, no height
)

// Native denominations and the funding of the two users of every chain.
const (
	Stake   = "stake"
	SlashDn = "a/b"
	Port    = transfertypes.PortID
)

// UsersPerChain is fixed.
const UsersPerChain = 2

// Arm selects the oracles that may report.
type Arm struct{ C30, C31, C32, C49 bool }

// TW is the configurable token-world scenario.
type TW struct {
	ksim.Base
	NChains int
	// Topo lists the links as pairs of chains (nil = a line 0-1, 1-2, ...). Two links between the same
	// two chains are allowed (two client pairs / connections / transfer channels).
	Topo  [][2]int
	Links []int // links transfers may use (nil = all)
	// PrefixIDs (needs a second link on chain 1) bumps chain 1's counters with dummy clients and dangling channel
	// ends so that its identifiers of the two links are string prefixes of each other: 07-tendermint-1 / channel-1
	// for the first link, 07-tendermint-10 / channel-10 for the second.
	PrefixIDs bool

	// alphabet
	SendFrom   []int    // chains that may originate transfers (nil = all)
	Routes     []int    // routes offered
	Senders    []int    // user indices that may send
	Receivers  []int    // receiver codes offered
	Amounts    []int    // 0 = one unit, 1 = the whole balance, 2 = the literal 2^256-1 sentinel in a raw MsgSendPacket
	Timeouts   []int    // timeout kinds offered
	Bases      []string // base denominations that may be sent (nil = all)
	Kind       int      // 0 any denom, 1 natives only, 2 vouchers only
	MaxPkts    int      // transfers sent after the root
	MaxOpen    int      // transfers in flight at the same time
	MaxCommits int      // commits per chain after the root
	Sync       bool     // macro step commit + honest update of the neighbours' clients (else primitive commit / update)
	Stale      bool     // relays may use any of the three newest consensus heights (else only the latest)
	NoAck      bool
	NoTimeout  bool
	Toggles    int   // how often receive may be switched off / on by the authority
	ToggleOn   []int // chains whose receive switch may be flipped (nil = all)
	Mismatch   bool  // MsgSendPacket with signer != payload sender (C49)
	Relayer    int   // 0 = neutral relayer address, 1 = user 1 of the chain the relay message is delivered to
	Prefix     []ksim.Op
	SkipPrefix bool // do not offer relay ops for the packets of the prefix

	Arm Arm
	// Hist, when set, receives evidence counters (core.C.Hist).
	Hist func(name, bucket string)

	links []linkInfo
}

type linkInfo struct {
	L  *ksim.Link
	Ch *ksim.ChanPair
}

var initMu sync.Mutex

// Chains implements ksim.Scenario.
func (s *TW) Chains() int { return s.NChains }

// Stores covers the default stores plus the bank store (restricted by Filter).
func (s *TW) Stores() []string { return append(append([]string{}, ksim.AllStores...), "bank") }

// ---- accounts -----------------------------------------------------------------------------------

// UserAddr derives the address of user i of a chain from a fixed seed.
func UserAddr(chain, i int) sdk.AccAddress {
	h := sha256.Sum256([]byte(fmt.Sprintf("verif/tokenworld/user/%d/%d", chain, i)))
	return sdk.AccAddress(h[:20])
}

var (
	relayerAddr = mustAcc(ksim.Signer)
	moduleAddr  = authtypes.NewModuleAddress(transfertypes.ModuleName)
	blockedAddr = authtypes.NewModuleAddress(distrtypes.ModuleName)
	strangerAdr = sdk.AccAddress([]byte("verif-stranger-00000")) // signs mismatching v2 sends, owns nothing
)

func mustAcc(s string) sdk.AccAddress {
	a, err := sdk.AccAddressFromBech32(s)
	if err != nil {
		panic(err)
	}
	return a
}

// candidate path identifiers (verified against the real ones in Init)
var pathIDs = []string{"channel-0", "channel-1", "channel-2", "channel-3", "channel-10", "07-tendermint-0", "07-tendermint-1", "07-tendermint-2", "07-tendermint-3", "07-tendermint-10"}

// tracked maps raw address bytes to a readable name for every account the state key and the
// oracles cover: the users of all chains, the relayer, the transfer module account, one blocked
// module account and the escrow accounts of every path identifier.
var tracked = func() map[string]string {
	m := map[string]string{}
	for c := 0; c < 3; c++ {
		for i := 0; i < UsersPerChain; i++ {
			m[string(UserAddr(c, i))] = fmt.Sprintf("user%d@%c", i, 'A'+c)
		}
	}
	m[string(relayerAddr)] = "relayer"
	m[string(strangerAdr)] = "stranger"
	m[string(moduleAddr)] = "transfer-module"
	m[string(blockedAddr)] = "blocked(distribution)"
	for _, id := range pathIDs {
		m[string(transfertypes.GetEscrowAddress(Port, id))] = "escrow(" + id + ")"
	}
	return m
}()

func addrName(a []byte) string {
	if n, ok := tracked[string(a)]; ok {
		return n
	}
	return sdk.AccAddress(a).String()
}

// Filter keeps, of the bank store, the supply, the denomination metadata and the balances of
// tracked accounts (other genesis accounts are random per worker).
func (s *TW) Filter(store string, key []byte) bool {
	if store != "bank" {
		return true
	}
	if len(key) == 0 {
		return false
	}
	switch key[0] {
	case 0, 1: // supply, denom metadata
		return true
	case 2: // balances: 0x02 | len(addr) | addr | denom
		a, _, ok := splitBalanceKey(key)
		if !ok {
			return false
		}
		_, t := tracked[string(a)]
		return t
	}
	return false
}

func splitBalanceKey(key []byte) (addr []byte, denom string, ok bool) {
	if len(key) < 2 || key[0] != 2 {
		return nil, "", false
	}
	l := int(key[1])
	if len(key) < 2+l {
		return nil, "", false
	}
	return key[2 : 2+l], string(key[2+l:]), true
}

// ---- paths --------------------------------------------------------------------------------------

// A path is (link, kind): kind 0 = the transfer channel of the link (v1 traffic and v2 traffic
// over the alias share it), kind 1 = the pair of tendermint clients (direct v2 traffic).
func pathIdx(link, kind int) int { return link*2 + kind }

// topo returns the links of the world.
func (s *TW) topo() [][2]int {
	if s.Topo != nil {
		return s.Topo
	}
	var t [][2]int
	for i := 0; i+1 < s.NChains; i++ {
		t = append(t, [2]int{i, i + 1})
	}
	return t
}

func (s *TW) nPaths() int { return 2 * len(s.topo()) }

// idOn is the identifier of path p as chain c knows it.
func (s *TW) idOn(p, c int) string {
	li := s.links[p/2]
	a := c == li.L.A
	if p%2 == 0 {
		if a {
			return li.Ch.ChanA
		}
		return li.Ch.ChanB
	}
	if a {
		return li.L.ClientA
	}
	return li.L.ClientB
}

// clientOn is the tendermint client chain c holds for the other end of a link.
func (s *TW) clientOn(link, c int) string {
	if c == s.links[link].L.A {
		return s.links[link].L.ClientA
	}
	return s.links[link].L.ClientB
}

func (s *TW) peer(link, c int) int {
	t := s.topo()[link]
	if c == t[0] {
		return t[1]
	}
	return t[0]
}

// linksOf lists the links chain c takes part in.
func (s *TW) linksOf(c int) []int {
	var out []int
	for l, t := range s.topo() {
		if c == t[0] || c == t[1] {
			out = append(out, l)
		}
	}
	return out
}

func (s *TW) escrowAddr(p, c int) sdk.AccAddress {
	return transfertypes.GetEscrowAddress(Port, s.idOn(p, c))
}

// ---- Init ---------------------------------------------------------------------------------------

// Init builds the root world.
func (s *TW) Init(wk *ksim.Worker) *ksim.World {
	w := wk.Root()
	e := &Ext{Commits: make([]int, s.NChains), EscrowRef: map[string]sdkmath.Int{}, Supply0: map[string]sdkmath.Int{}, Total0: map[int]sdkmath.Int{}}
	w.Ext = e
	topo := s.topo()
	links := make([]linkInfo, len(topo))
	// Every identifier must differ between the two ends of every link, so that a handler using the wrong
	// end's identifier cannot go unnoticed: a dummy client on chain 1 and a dangling ChanOpenInit on chain 0
	// shift the counters. Two chains: A has 07-tendermint-0 / channel-1, B has 07-tendermint-1 / channel-0
	// (a second A-B link: A 07-tendermint-1 / channel-2, B 07-tendermint-2 / channel-1, so an identifier of one
	// link's far end is at the same time the near end's identifier of the other link).
	_, dr := w.CreateClient(1, 0)
	ksim.MustOK("dummy client on chain 1", dr)
	dangling := func(chain int, conn string, n int) {
		for k := 0; k < n; k++ {
			ksim.MustOK("dangling channel end", w.Tx(chain, channeltypes.NewMsgChannelOpenInit(Port, transfertypes.V1, channeltypes.UNORDERED, []string{conn}, Port, ksim.Signer)))
		}
	}
	for i, t := range topo {
		if i == 1 && s.PrefixIDs {
			// chain 1 so far: clients 07-tendermint-0 (dummy), -1 (first link); channels channel-0 (dangling), channel-1 (first link)
			for k := 0; k < 8; k++ {
				_, r := w.CreateClient(1, 0)
				ksim.MustOK("dummy client on chain 1", r)
			}
			dangling(1, links[0].L.ConnB, 8)
		}
		l := w.SetupClients(t[0], t[1])
		w.SetupConnection(l, 0)
		if i == 0 {
			if s.PrefixIDs {
				dangling(t[0], l.ConnA, 2) // chain 0: channel-2 / channel-3 for the two links
				dangling(t[1], l.ConnB, 1) // chain 1: channel-1 for the first link
			} else {
				dangling(t[0], l.ConnA, 1)
			}
		}
		ch := w.SetupChannel(l, Port, Port, transfertypes.V1, channeltypes.UNORDERED)
		w.RegisterCounterparties(l)
		links[i] = linkInfo{L: l, Ch: ch}
	}
	if s.PrefixIDs {
		if len(topo) < 2 || topo[0] != [2]int{0, 1} || topo[1] != [2]int{0, 1} {
			panic("tokenworld: PrefixIDs needs two links between chains 0 and 1")
		}
		if links[0].Ch.ChanB != "channel-1" || links[1].Ch.ChanB != "channel-10" || links[0].L.ClientB != "07-tendermint-1" || links[1].L.ClientB != "07-tendermint-10" {
			panic(fmt.Sprintf("tokenworld: prefix-related identifiers not reached: %+v %+v / %+v %+v", *links[0].L, *links[0].Ch, *links[1].L, *links[1].Ch))
		}
	}
	initMu.Lock()
	if s.links == nil {
		s.links = links
	} else {
		for i := range links {
			if *links[i].L != *s.links[i].L || *links[i].Ch != *s.links[i].Ch {
				initMu.Unlock()
				panic("tokenworld: workers disagree on path identifiers")
			}
		}
	}
	initMu.Unlock()
	for p := 0; p < s.nPaths(); p++ {
		t := topo[p/2]
		for _, c := range t {
			if _, ok := tracked[string(s.escrowAddr(p, c))]; !ok {
				panic("tokenworld: unexpected path identifier " + s.idOn(p, c))
			}
		}
		if s.idOn(p, t[0]) == s.idOn(p, t[1]) {
			panic("tokenworld: both ends of a path use the identifier " + s.idOn(p, t[0]))
		}
	}
	// funding: user0 gets 2 stake + 2 a/b, user1 gets 1 stake (small balances keep "all" != "1" and the space small)
	for c := 0; c < s.NChains; c++ {
		bank := wk.Chains[c].App.BankKeeper
		fund := func(i int, coins sdk.Coins) {
			ksim.MustOK("fund user", w.Do(c, func(ctx sdk.Context) error {
				if err := bank.MintCoins(ctx, minttypes.ModuleName, coins); err != nil {
					return err
				}
				return bank.SendCoinsFromModuleToAccount(ctx, minttypes.ModuleName, UserAddr(c, i), coins)
			}))
		}
		fund(0, sdk.NewCoins(sdk.NewInt64Coin(Stake, 2), sdk.NewInt64Coin(SlashDn, 2)))
		fund(1, sdk.NewCoins(sdk.NewInt64Coin(Stake, 1)))
		for _, d := range []string{Stake, SlashDn} {
			e.Denoms = append(e.Denoms, DenomRec{Chain: c, Bank: d, Base: d, Fam: len(e.Denoms)})
		}
	}
	// equalise the clocks, then one common block and an honest update of every client
	var maxT int64
	for c := range w.CS {
		if t := w.CS[c].TimeNs(); t > maxT {
			maxT = t
		}
	}
	for c := range w.CS {
		for w.CS[c].TimeNs() < maxT {
			w.Commit(c, ksim.BlockStep)
		}
	}
	for c := range w.CS {
		w.Commit(c, ksim.BlockStep)
	}
	for _, li := range links {
		ksim.MustOK("final update A", w.UpdateLatest(li.L.A, li.L.ClientA, li.L.B))
		ksim.MustOK("final update B", w.UpdateLatest(li.L.B, li.L.ClientB, li.L.A))
	}
	w.Obs = nil
	// reference values of the conservation oracle
	for i, d := range e.Denoms {
		e.Supply0[refKey(d.Chain, d.Bank)] = s.supply(w, d.Chain, d.Bank)
		tot := sdkmath.ZeroInt()
		for u := 0; u < UsersPerChain; u++ {
			tot = tot.Add(s.bal(w, d.Chain, UserAddr(d.Chain, u), d.Bank))
		}
		e.Total0[i] = tot
	}
	// pre-established history (executed through the same Apply, so the reference ledger follows)
	for _, op := range s.Prefix {
		if r := s.Apply(w, op); r.Class != ksim.OK {
			panic(fmt.Sprintf("tokenworld: prefix op %s failed: %s %v", op, r, r.Err))
		}
	}
	e = ext(w)
	e.Base = len(e.Pkts)
	e.Commits = make([]int, s.NChains)
	e.Toggled = 0
	return w
}

func (s *TW) bal(w *ksim.World, c int, addr sdk.AccAddress, denom string) sdkmath.Int {
	return w.W.Chains[c].App.BankKeeper.GetBalance(w.CS[c].Ctx, addr, denom).Amount
}

func (s *TW) supply(w *ksim.World, c int, denom string) sdkmath.Int {
	return w.W.Chains[c].App.BankKeeper.GetSupply(w.CS[c].Ctx, denom).Amount
}
