package tokenworld

import (
	"encoding/hex"
	"fmt"

	"github.com/cosmos/gogoproto/proto"

	sdkmath "cosmossdk.io/math"

	sdk "github.com/cosmos/cosmos-sdk/types"

	abci "github.com/cometbft/cometbft/abci/types"

	transfertypes "github.com/cosmos/ibc-go/v11/modules/apps/transfer/types"
	clienttypes "github.com/cosmos/ibc-go/v11/modules/core/02-client/types"
	channeltypes "github.com/cosmos/ibc-go/v11/modules/core/04-channel/types"
	channeltypesv2 "github.com/cosmos/ibc-go/v11/modules/core/04-channel/v2/types"
	host "github.com/cosmos/ibc-go/v11/modules/core/24-host"
	hostv2 "github.com/cosmos/ibc-go/v11/modules/core/24-host/v2"

	"verif/harness/ksim"
)

// Operation kinds.
const (
	OpXfer    = "xfer"    // [src, link, route, sender, denomIdx, amountKind, receiverCode, timeoutKind]
	OpBadSend = "badsend" // [src, link, route, signerCode, sender, denomIdx]: MsgSendPacket whose signer is not the payload's sender
	OpSync    = "sync"    // [chain]: commit + honest update of the neighbours' clients
	OpCommit  = "commit"  // [chain]
	OpUpdate  = "update"  // [dstChain, link, height]
	OpRecv    = "recv"    // [pkt, proofHeight]
	OpAck     = "ack"     // [pkt, proofHeight]
	OpTimeout = "timeout" // [pkt, proofHeight]
	OpRxFlip  = "rxflip"  // [chain]: MsgUpdateParams by the authority flipping receive_enabled
)

func has(set []int, v int) bool {
	if set == nil {
		return true
	}
	for _, x := range set {
		if x == v {
			return true
		}
	}
	return false
}

func orInts(v []int, def ...int) []int {
	if len(v) == 0 {
		return def
	}
	return v
}

func (s *TW) denomAllowed(d DenomRec) bool {
	if s.Kind == 1 && len(d.Hops) != 0 || s.Kind == 2 && len(d.Hops) == 0 {
		return false
	}
	if s.Bases == nil {
		return true
	}
	for _, b := range s.Bases {
		if b == d.Base {
			return true
		}
	}
	return false
}

// Ops implements ksim.Scenario.
func (s *TW) Ops(w *ksim.World) []ksim.Op {
	e := ext(w)
	var ops []ksim.Op
	if e.open() < s.MaxOpen && len(e.Pkts)-e.Base < s.MaxPkts {
		for src := 0; src < s.NChains; src++ {
			if !has(s.SendFrom, src) {
				continue
			}
			for _, link := range s.linksOf(src) {
				if !has(s.Links, link) {
					continue
				}
				for _, route := range orInts(s.Routes, RV1) {
					for _, snd := range orInts(s.Senders, 0) {
						for di, d := range e.Denoms {
							if d.Chain != src || !s.denomAllowed(d) {
								continue
							}
							b := s.bal(w, src, UserAddr(src, snd), d.Bank)
							if !b.IsPositive() {
								continue
							}
							amts := orInts(s.Amounts, 0)
							for ai, ak := range amts {
								if ak == 1 && b.Equal(sdkmath.OneInt()) && ai > 0 {
									continue // "all" == "1": offered once
								}
								if ak == 2 && route != RAlias && route != RClient {
									continue // the literal sentinel is only meaningful in a raw MsgSendPacket (MsgTransfer resolves it: amount kind 1)
								}
								for _, rc := range orInts(s.Receivers, RcvUser0) {
									for _, to := range orInts(s.Timeouts, ToFar) {
										if to == ToNextTime && routeV2(route) {
											continue
										}
										ops = append(ops, ksim.Op{K: OpXfer, A: []int{src, link, route, snd, di, ak, rc, to}})
									}
								}
							}
						}
					}
				}
				if s.Mismatch {
					for di, d := range e.Denoms {
						if d.Chain != src || !s.denomAllowed(d) {
							continue
						}
						for _, route := range []int{RAlias, RClient} {
							for snd := 0; snd < UsersPerChain; snd++ {
								if !s.bal(w, src, UserAddr(src, snd), d.Bank).IsPositive() {
									continue
								}
								for sg := 0; sg < 3; sg++ { // signer: user0, user1, a stranger
									if sg != snd {
										ops = append(ops, ksim.Op{K: OpBadSend, A: []int{src, link, route, sg, snd, di}})
									}
								}
							}
						}
					}
				}
			}
		}
	}
	for c := 0; c < s.NChains; c++ {
		if e.Commits[c] < s.MaxCommits {
			if s.Sync {
				ops = append(ops, ksim.Op{K: OpSync, A: []int{c}})
			} else {
				ops = append(ops, ksim.Op{K: OpCommit, A: []int{c}})
			}
		}
	}
	if !s.Sync {
		for dst := 0; dst < s.NChains; dst++ {
			for _, link := range s.linksOf(dst) {
				src := s.peer(link, dst)
				if top := w.CS[src].H(); top > int64(w.ClientLatest(dst, s.clientOn(link, dst)).RevisionHeight) {
					ops = append(ops, ksim.Op{K: OpUpdate, A: []int{dst, link, int(top)}})
				}
			}
		}
	}
	first := 0
	if s.SkipPrefix {
		first = e.Base
	}
	for i := first; i < len(e.Pkts); i++ {
		p := e.Pkts[i]
		link := p.Path / 2
		for _, ph := range s.proofHeights(w, p.Dst, link) {
			ops = append(ops, ksim.Op{K: OpRecv, A: []int{i, ph}})
		}
		for _, ph := range s.proofHeights(w, p.Src, link) {
			if !s.NoAck {
				ops = append(ops, ksim.Op{K: OpAck, A: []int{i, ph}})
			}
			if !s.NoTimeout {
				ops = append(ops, ksim.Op{K: OpTimeout, A: []int{i, ph}})
			}
		}
	}
	if e.Toggled < s.Toggles {
		for c := 0; c < s.NChains; c++ {
			if has(s.ToggleOn, c) {
				ops = append(ops, ksim.Op{K: OpRxFlip, A: []int{c}})
			}
		}
	}
	return ops
}

// proofHeights lists the consensus heights (of the link's other chain) a relayer may use on chain dst.
func (s *TW) proofHeights(w *ksim.World, dst, link int) []int {
	cid := s.clientOn(link, dst)
	if !s.Stale {
		return []int{int(w.ClientLatest(dst, cid).RevisionHeight)}
	}
	hs := w.ConsensusHeights(dst, cid)
	var out []int
	for i := len(hs) - 1; i >= 0 && len(out) < 3; i-- {
		out = append(out, int(hs[i].RevisionHeight))
	}
	return out
}

// ---- building transfer messages -------------------------------------------------------------------

// sendPlan is everything the reference knows about a transfer message before it is delivered.
type sendPlan struct {
	Msg     sdk.Msg
	Pkt     Pkt            // without sequence / packets
	Signer  sdk.AccAddress // account the harness submits the message for
	Sender  sdk.AccAddress // account named as sender in the packet data
	Coin    sdk.Coin       // denomination and amount the message authorises (resolved for "all")
	SrcID   string
	DstID   string
	Payload channeltypesv2.Payload
	Data    transfertypes.FungibleTokenPacketData
	TH      clienttypes.Height
	TT      uint64
}

func (s *TW) receiverAddr(dst, code int) string {
	if code == RcvBlocked {
		return blockedAddr.String()
	}
	return UserAddr(dst, code).String()
}

func encodingFor(route int) string {
	switch route {
	case RClient, RMsgClient:
		return transfertypes.EncodingProtobuf
	}
	return transfertypes.EncodingJSON
}

// planSend builds the message of an xfer / badsend op against world w.
func (s *TW) planSend(w *ksim.World, op ksim.Op) sendPlan {
	e := ext(w)
	src, link, route := op.A[0], op.A[1], op.A[2]
	var snd, di, ak, rc, to int
	signer := sdk.AccAddress(nil)
	if op.K == OpBadSend {
		snd, di, ak, rc, to = op.A[4], op.A[5], 0, RcvUser0, ToFar
		switch op.A[3] {
		case 2:
			signer = strangerAdr
		default:
			signer = UserAddr(src, op.A[3])
		}
	} else {
		snd, di, ak, rc, to = op.A[3], op.A[4], op.A[5], op.A[6], op.A[7]
		signer = UserAddr(src, snd)
	}
	dst := s.peer(link, src)
	p := pathIdx(link, routeKind(route))
	d := e.Denoms[di]
	sender := UserAddr(src, snd)
	amt := sdkmath.OneInt()
	if ak == 1 {
		amt = s.bal(w, src, sender, d.Bank)
	}
	if ak == 2 {
		// MsgTransfer's "entire balance" sentinel (2^256-1) written literally into the packet data of a raw send:
		// nobody holds that much, the send must be refused
		amt = transfertypes.UnboundedSpendLimit()
	}
	srcID, dstID := s.idOn(p, src), s.idOn(p, dst)
	pl := sendPlan{Signer: signer, Sender: sender, Coin: sdk.NewCoin(d.Bank, amt), SrcID: srcID, DstID: dstID}
	pl.Pkt = Pkt{Src: src, Dst: dst, Path: p, Route: route, Sender: snd, Receiver: rc, SndAddr: sender.String(), RcvAddr: s.receiverAddr(dst, rc),
		Denom: di, Amount: amt, ToKind: to,
		// the reference's own source/sink rule: a denomination whose newest hop is this very path returns home
		Source: !(len(d.Hops) > 0 && d.Hops[0] == srcID)}
	pl.Data = transfertypes.NewFungibleTokenPacketData(d.Path(), amt.String(), pl.Pkt.SndAddr, pl.Pkt.RcvAddr, "")

	dstT := w.CS[dst].TimeNs()
	if routeV2(route) {
		switch to {
		case ToFar:
			pl.TT = uint64(w.CS[src].TimeNs()/1e9) + 3600
		default:
			pl.TT = uint64((dstT + int64(ksim.BlockStep)) / 1e9)
		}
	} else {
		switch to {
		case ToFar:
			pl.TH = w.Height(dst, 1_000_000)
		case ToNext:
			pl.TH = w.Height(dst, w.CS[dst].H()+1)
		case ToNextTime:
			pl.TT = uint64(dstT + int64(ksim.BlockStep))
		}
	}
	msgCoin := pl.Coin
	if ak == 1 && route != RAlias && route != RClient {
		msgCoin = sdk.NewCoin(d.Bank, transfertypes.UnboundedSpendLimit()) // MsgTransfer's "entire balance"
	}
	enc := encodingFor(route)
	switch route {
	case RV1:
		pl.Msg = transfertypes.NewMsgTransfer(Port, srcID, msgCoin, pl.Pkt.SndAddr, pl.Pkt.RcvAddr, pl.TH, pl.TT, "")
	case RMsgAlias:
		pl.Msg = transfertypes.NewMsgTransferWithEncoding(Port, srcID, msgCoin, pl.Pkt.SndAddr, pl.Pkt.RcvAddr, clienttypes.ZeroHeight(), pl.TT, "", enc, true)
	case RMsgClient:
		pl.Msg = transfertypes.NewMsgTransferWithEncoding(Port, srcID, msgCoin, pl.Pkt.SndAddr, pl.Pkt.RcvAddr, clienttypes.ZeroHeight(), pl.TT, "", enc, false)
	}
	if routeV2(route) {
		bz, err := transfertypes.MarshalPacketData(pl.Data, transfertypes.V1, enc)
		if err != nil {
			panic(err)
		}
		pl.Payload = channeltypesv2.NewPayload(Port, Port, transfertypes.V1, enc, bz)
		if pl.Msg == nil {
			pl.Msg = channeltypesv2.NewMsgSendPacket(srcID, pl.TT, signer.String(), pl.Payload)
		}
	}
	return pl
}

func attr(evs []abci.Event, typ, key string) (string, bool) {
	for _, e := range evs {
		if e.Type != typ {
			continue
		}
		for _, a := range e.Attributes {
			if a.Key == key {
				return a.Value, true
			}
		}
	}
	return "", false
}

func hexAttr(evs []abci.Event, typ, key string) ([]byte, bool) {
	v, ok := attr(evs, typ, key)
	if !ok {
		return nil, false
	}
	bz, err := hex.DecodeString(v)
	if err != nil {
		return nil, false
	}
	return bz, true
}

// ---- Apply --------------------------------------------------------------------------------------

// Apply implements ksim.Scenario.
func (s *TW) Apply(w *ksim.World, op ksim.Op) ksim.Result {
	e := ext(w)
	switch op.K {
	case OpXfer, OpBadSend:
		pl := s.planSend(w, op)
		src := pl.Pkt.Src
		var before *ksim.World
		if s.Arm.C32 {
			before = w.Fork() // the send's balance changes are the snapshot C32 compares the refund with
		}
		r := w.Tx(src, pl.Msg)
		if r.Class != ksim.OK {
			return r
		}
		p := pl.Pkt
		if routeV2(p.Route) {
			if _, direct := pl.Msg.(*channeltypesv2.MsgSendPacket); direct {
				var resp channeltypesv2.MsgSendPacketResponse
				mustUnmarshal(r.Resp, &resp)
				p.Seq = resp.Sequence
			} else {
				var resp transfertypes.MsgTransferResponse
				mustUnmarshal(r.Resp, &resp)
				p.Seq = resp.Sequence
			}
			// the relayer takes the packet from the send event
			p.P2 = channeltypesv2.NewPacket(p.Seq, pl.SrcID, pl.DstID, pl.TT, pl.Payload)
			if bz, ok := hexAttr(r.Events, channeltypesv2.EventTypeSendPacket, channeltypesv2.AttributeKeyEncodedPacketHex); ok {
				var ev channeltypesv2.Packet
				mustUnmarshal(bz, &ev)
				p.P2 = ev
			} else {
				panic("tokenworld: v2 send without send_packet event")
			}
		} else {
			var resp transfertypes.MsgTransferResponse
			mustUnmarshal(r.Resp, &resp)
			p.Seq = resp.Sequence
			data, ok := hexAttr(r.Events, channeltypes.EventTypeSendPacket, channeltypes.AttributeKeyDataHex)
			if !ok {
				panic("tokenworld: v1 send without send_packet event")
			}
			p.P1 = channeltypes.NewPacket(data, p.Seq, Port, pl.SrcID, Port, pl.DstID, pl.TH, pl.TT)
		}
		if s.Arm.C32 {
			p.SendDx = s.bankDiff(before, w, src)
		}
		e.Pkts = append(e.Pkts, &p)
		if p.Source {
			e.addEscrow(src, e.Denoms[p.Denom].Bank, p.Amount)
		}
		return r

	case OpSync:
		c := op.A[0]
		w.Commit(c, ksim.BlockStep)
		e.Commits[c]++
		res := ksim.Result{Class: ksim.OK}
		for _, link := range s.linksOf(c) {
			dst := s.peer(link, c)
			if r := w.UpdateLatest(dst, s.clientOn(link, dst), c); r.Class != ksim.OK {
				res = r // e.g. header from the future: the block is committed, this update has to wait
			}
		}
		return res

	case OpCommit:
		w.Commit(op.A[0], ksim.BlockStep)
		e.Commits[op.A[0]]++
		return ksim.Result{Class: ksim.OK}

	case OpUpdate:
		dst, link, h := op.A[0], op.A[1], int64(op.A[2])
		cid := s.clientOn(link, dst)
		var trusted clienttypes.Height
		for _, ch := range w.ConsensusHeights(dst, cid) {
			if int64(ch.RevisionHeight) < h {
				trusted = ch
			}
		}
		if trusted.IsZero() {
			return ksim.Result{Class: ksim.ERR, Code: "harness/no-trusted-height"}
		}
		return w.UpdateClient(dst, cid, s.peer(link, dst), h, trusted)

	case OpRecv:
		i := op.A[0]
		p := e.Pkts[i]
		r, ack := s.relayRecv(w, p, s.ph(w, p.Dst, p, op.A[1]))
		if r.Class != ksim.OK {
			return r
		}
		m := e.mut(i)
		m.RecvN++
		if m.Recv != 0 {
			return r // executed twice: the ledger is deliberately not advanced, the oracles will notice
		}
		m.Ack = ack
		if ackSuccess(p.V2(), ack) {
			m.Recv = 1
			d := e.Denoms[p.Denom]
			if p.Source {
				// destination mints the voucher  transfer/<dst id>/<path>
				hops := append([]string{s.idOn(p.Path, p.Dst)}, d.Hops...)
				bank := bankDenom(hops, d.Base)
				if e.denomIdx(p.Dst, bank) < 0 {
					e.Denoms = append(e.Denoms[:len(e.Denoms):len(e.Denoms)], DenomRec{Chain: p.Dst, Bank: bank, Base: d.Base, Hops: hops, Fam: d.Fam})
				}
			} else {
				// destination releases the denomination with the newest hop removed
				e.addEscrow(p.Dst, bankDenom(d.Hops[1:], d.Base), p.Amount.Neg())
			}
		} else {
			m.Recv = 2
		}
		return r

	case OpAck:
		i := op.A[0]
		p := e.Pkts[i]
		r := s.relayAck(w, p, s.ph(w, p.Src, p, op.A[1]))
		if r.Class != ksim.OK {
			return r
		}
		m := e.mut(i)
		m.TermN++
		if m.Term != 0 {
			return r
		}
		if ackSuccess(p.V2(), p.ackToRelay()) {
			m.Term = 1
		} else {
			m.Term = 2
			s.refundRef(e, p)
		}
		return r

	case OpTimeout:
		i := op.A[0]
		p := e.Pkts[i]
		r := s.relayTimeout(w, p, s.ph(w, p.Src, p, op.A[1]))
		if r.Class != ksim.OK {
			return r
		}
		m := e.mut(i)
		m.TermN++
		if m.Term != 0 {
			return r
		}
		m.Term = 3
		s.refundRef(e, p)
		return r

	case OpRxFlip:
		c := op.A[0]
		k := w.W.Chains[c].App.TransferKeeper
		cur := k.GetParams(w.CS[c].Ctx)
		r := w.Tx(c, transfertypes.NewMsgUpdateParams(k.GetAuthority(), transfertypes.NewParams(cur.SendEnabled, !cur.ReceiveEnabled)))
		if r.Class == ksim.OK {
			e.Toggled++
		}
		return r
	}
	panic("tokenworld: unknown op " + op.K)
}

// ph resolves a proof-height argument: 0 stands for the latest consensus height of the client on chain `on`.
func (s *TW) ph(w *ksim.World, on int, p *Pkt, arg int) int64 {
	if arg != 0 {
		return int64(arg)
	}
	return int64(w.ClientLatest(on, s.clientOn(p.Path/2, on)).RevisionHeight)
}

// refundRef advances the C31 reference for a refund of p.
func (s *TW) refundRef(e *Ext, p *Pkt) {
	if p.Source {
		e.addEscrow(p.Src, e.Denoms[p.Denom].Bank, p.Amount.Neg())
	}
}

// ackToRelay is the acknowledgement a relayer presents for p: the one observed at receive time, or,
// before any receive, the success acknowledgement a dishonest relayer would try.
func (p *Pkt) ackToRelay() []byte {
	if p.Ack == nil {
		return successAck
	}
	return p.Ack
}

var successAck = channeltypes.NewResultAcknowledgement([]byte{byte(1)}).Acknowledgement()

// ackSuccess decides, from the acknowledgement alone, whether the destination credited the transfer.
func ackSuccess(v2 bool, ack []byte) bool {
	if v2 {
		if string(ack) == string(channeltypesv2.ErrorAcknowledgement[:]) {
			return false
		}
	}
	var a channeltypes.Acknowledgement
	if err := transfertypes.ModuleCdc.UnmarshalJSON(ack, &a); err != nil {
		return false
	}
	return a.Success()
}

func mustUnmarshal(bz []byte, m proto.Message) {
	if err := proto.Unmarshal(bz, m); err != nil {
		panic(err)
	}
}

// ---- relaying -------------------------------------------------------------------------------------

// relayer returns the address signing a relay message delivered to chain c.
func (s *TW) relayer(c int) string {
	if s.Relayer == 1 {
		return UserAddr(c, 1).String()
	}
	return ksim.Signer
}

func noProof() ksim.Result { return ksim.Result{Class: ksim.ERR, Code: "harness/no-proof"} }

// relayRecv delivers the packet to its destination with a proof at consensus height ph and returns
// the acknowledgement taken from the write_acknowledgement event.
func (s *TW) relayRecv(w *ksim.World, p *Pkt, ph int64) (ksim.Result, []byte) {
	height := w.Height(p.Src, ph)
	signer := s.relayer(p.Dst)
	if p.V2() {
		proof, ok := w.ProofAt(p.Src, ph, "ibc", hostv2.PacketCommitmentKey(p.P2.SourceClient, p.P2.Sequence))
		if !ok {
			return noProof(), nil
		}
		r := w.Tx(p.Dst, channeltypesv2.NewMsgRecvPacket(p.P2, proof, height, signer))
		if r.Class != ksim.OK {
			return r, nil
		}
		var resp channeltypesv2.MsgRecvPacketResponse
		mustUnmarshal(r.Resp, &resp)
		if resp.Result == channeltypesv2.NOOP {
			r.Class = ksim.NOOP
			return r, nil
		}
		bz, ok := hexAttr(r.Events, channeltypesv2.EventTypeWriteAck, channeltypesv2.AttributeKeyEncodedAckHex)
		if !ok {
			panic("tokenworld: v2 receive without write_acknowledgement event")
		}
		var ack channeltypesv2.Acknowledgement
		mustUnmarshal(bz, &ack)
		if len(ack.AppAcknowledgements) != 1 {
			panic("tokenworld: v2 acknowledgement without exactly one application acknowledgement")
		}
		return r, ack.AppAcknowledgements[0]
	}
	proof, ok := w.ProofAt(p.Src, ph, "ibc", host.PacketCommitmentKey(p.P1.SourcePort, p.P1.SourceChannel, p.P1.Sequence))
	if !ok {
		return noProof(), nil
	}
	r := w.Tx(p.Dst, channeltypes.NewMsgRecvPacket(p.P1, proof, height, signer))
	if r.Class != ksim.OK {
		return r, nil
	}
	var resp channeltypes.MsgRecvPacketResponse
	mustUnmarshal(r.Resp, &resp)
	if resp.Result == channeltypes.NOOP {
		r.Class = ksim.NOOP
		return r, nil
	}
	ack, ok := hexAttr(r.Events, channeltypes.EventTypeWriteAck, channeltypes.AttributeKeyAckHex)
	if !ok {
		panic("tokenworld: v1 receive without write_acknowledgement event")
	}
	return r, ack
}

// relayAck delivers the acknowledgement observed at receive time (or, before any receive, the
// success acknowledgement a dishonest relayer would try) to the source chain.
func (s *TW) relayAck(w *ksim.World, p *Pkt, ph int64) ksim.Result {
	height := w.Height(p.Dst, ph)
	signer := s.relayer(p.Src)
	ack := p.ackToRelay()
	if p.V2() {
		proof, ok := w.ProofAt(p.Dst, ph, "ibc", hostv2.PacketAcknowledgementKey(p.P2.DestinationClient, p.P2.Sequence))
		if !ok {
			return noProof()
		}
		r := w.Tx(p.Src, channeltypesv2.NewMsgAcknowledgement(p.P2, channeltypesv2.Acknowledgement{AppAcknowledgements: [][]byte{ack}}, proof, height, signer))
		if r.Class == ksim.OK {
			var resp channeltypesv2.MsgAcknowledgementResponse
			mustUnmarshal(r.Resp, &resp)
			if resp.Result == channeltypesv2.NOOP {
				r.Class = ksim.NOOP
			}
		}
		return r
	}
	proof, ok := w.ProofAt(p.Dst, ph, "ibc", host.PacketAcknowledgementKey(p.P1.DestinationPort, p.P1.DestinationChannel, p.P1.Sequence))
	if !ok {
		return noProof()
	}
	r := w.Tx(p.Src, channeltypes.NewMsgAcknowledgement(p.P1, ack, proof, height, signer))
	if r.Class == ksim.OK {
		var resp channeltypes.MsgAcknowledgementResponse
		mustUnmarshal(r.Resp, &resp)
		if resp.Result == channeltypes.NOOP {
			r.Class = ksim.NOOP
		}
	}
	return r
}

// relayTimeout delivers a timeout with the proof of non-receipt at consensus height ph.
func (s *TW) relayTimeout(w *ksim.World, p *Pkt, ph int64) ksim.Result {
	height := w.Height(p.Dst, ph)
	signer := s.relayer(p.Src)
	if p.V2() {
		proof, ok := w.ProofAt(p.Dst, ph, "ibc", hostv2.PacketReceiptKey(p.P2.DestinationClient, p.P2.Sequence))
		if !ok {
			return noProof()
		}
		r := w.Tx(p.Src, channeltypesv2.NewMsgTimeout(p.P2, proof, height, signer))
		if r.Class == ksim.OK {
			var resp channeltypesv2.MsgTimeoutResponse
			mustUnmarshal(r.Resp, &resp)
			if resp.Result == channeltypesv2.NOOP {
				r.Class = ksim.NOOP
			}
		}
		return r
	}
	snap := w.SnapAt(p.Dst, ph)
	if snap == nil {
		return noProof()
	}
	nextRecv := uint64(1)
	if bz := snap.Get("ibc", host.NextSequenceRecvKey(p.P1.DestinationPort, p.P1.DestinationChannel)); len(bz) == 8 {
		nextRecv = sdk.BigEndianToUint64(bz)
	}
	proof := snap.Proof("ibc", host.PacketReceiptKey(p.P1.DestinationPort, p.P1.DestinationChannel, p.P1.Sequence))
	r := w.Tx(p.Src, channeltypes.NewMsgTimeout(p.P1, nextRecv, proof, height, signer))
	if r.Class == ksim.OK {
		var resp channeltypes.MsgTimeoutResponse
		mustUnmarshal(r.Resp, &resp)
		if resp.Result == channeltypes.NOOP {
			r.Class = ksim.NOOP
		}
	}
	return r
}

// Describe renders an op for samples and violation texts.
func (s *TW) Describe(w *ksim.World, op ksim.Op) string {
	switch op.K {
	case OpXfer:
		d := ext(w).Denoms[op.A[4]]
		return fmt.Sprintf("xfer(%c via %s, user%d sends %s of %s to receiver#%d, timeout#%d)", 'A'+op.A[0], RouteNames[op.A[2]], op.A[3], []string{"1", "all"}[op.A[5]], d.Path(), op.A[6], op.A[7])
	case OpBadSend:
		d := ext(w).Denoms[op.A[5]]
		return fmt.Sprintf("badsend(%c via %s, signer#%d names user%d as sender of 1 %s)", 'A'+op.A[0], RouteNames[op.A[2]], op.A[3], op.A[4], d.Path())
	case OpRecv, OpAck, OpTimeout:
		if op.A[0] < len(ext(w).Pkts) {
			return fmt.Sprintf("%s(%s @%d)", op.K, ext(w).Pkts[op.A[0]], op.A[1])
		}
	}
	return op.String()
}
