package tokenworld

import (
	"os"
	"strings"

	"verif/harness/core"
	"verif/harness/ksim"
)

// Denomination indices at the root (two natives per chain, in chain order).
func stakeOf(chain int) int { return 2 * chain }

func xfer(src, link, route, sender, denom, amt, rcv, to int) ksim.Op {
	return ksim.Op{K: OpXfer, A: []int{src, link, route, sender, denom, amt, rcv, to}}
}
func syncOp(c int) ksim.Op { return ksim.Op{K: OpSync, A: []int{c}} }
func recvOp(i int) ksim.Op { return ksim.Op{K: OpRecv, A: []int{i, 0}} } // height 0 = the client's latest
func ackOp(i int) ksim.Op  { return ksim.Op{K: OpAck, A: []int{i, 0}} }

// deliver is the honest life cycle of packet i sent from src to dst.
func deliver(i, src, dst int) []ksim.Op {
	return []ksim.Op{syncOp(src), recvOp(i), syncOp(dst), ackOp(i)}
}

// vouchersOnB: user0@B ends up holding 2 transfer/channel-0/stake (sent over the v1 channel) and
// 1 transfer/07-tendermint-0/stake (sent client-to-client); A's two escrow accounts hold the stake.
func vouchersOnB() []ksim.Op {
	var ops []ksim.Op
	ops = append(ops, xfer(0, 0, RV1, 0, stakeOf(0), 1, RcvUser0, ToFar))
	ops = append(ops, deliver(0, 0, 1)...)
	ops = append(ops, xfer(0, 0, RClient, 1, stakeOf(0), 0, RcvUser0, ToFar))
	ops = append(ops, deliver(1, 0, 1)...)
	return ops
}

var twoLinks = [][2]int{{0, 1}, {0, 1}}

// voucherOnBViaLink1: user0@B ends up holding 2 transfer/<B's channel of the second link>/stake.
func voucherOnBViaLink1() []ksim.Op {
	return append([]ksim.Op{xfer(0, 1, RV1, 0, stakeOf(0), 1, RcvUser0, ToFar)}, deliver(0, 0, 1)...)
}

// vouchersOnBViaLink1: like vouchersOnB but over the second link (v1 channel and client route).
func vouchersOnBViaLink1() []ksim.Op {
	var ops []ksim.Op
	ops = append(ops, xfer(0, 1, RV1, 0, stakeOf(0), 1, RcvUser0, ToFar))
	ops = append(ops, deliver(0, 0, 1)...)
	ops = append(ops, xfer(0, 1, RClient, 1, stakeOf(0), 0, RcvUser0, ToFar))
	ops = append(ops, deliver(1, 0, 1)...)
	return ops
}

// Parts builds the explorations shared by C30, C31, C32 and C49; arm selects the reporting oracle.
func Parts(c *core.C, arm Arm) []ksim.Part {
	d := core.Pick(c, 0, 2)
	mc := core.Pick(c, 2, 3) // commits per chain
	mk := func(name string, depth int, share float64, sc *TW) ksim.Part {
		sc.Arm = arm
		sc.Hist = c.Hist
		if sc.NChains == 0 {
			sc.NChains = 2
		}
		if sc.MaxOpen == 0 {
			sc.MaxOpen = 2
		}
		return ksim.Part{Name: name, Sc: sc, Cfg: ksim.Config{MaxDepth: depth}, Share: share}
	}
	parts := []ksim.Part{
		// (the small, identifier-sensitive parts run first so that a loaded machine cannot starve them)
		// two links between A and B (A: 07-tendermint-0/channel-1 and 07-tendermint-1/channel-2, B: 07-tendermint-1/channel-0 and
		// 07-tendermint-2/channel-1): the far end's identifier of one link is the near end's identifier of the other, so a handler
		// that takes the counterparty's identifier moves the other link's escrow; every transfer is refused by the destination
		mk("2c/macro/two-links/v2-error-acks", 6+d, 0.35, &TW{Topo: twoLinks, Sync: true, SendFrom: []int{0}, Routes: []int{RAlias, RClient}, Receivers: []int{RcvBlocked}, Timeouts: []int{ToFar},
			Bases: []string{Stake}, MaxPkts: 2, MaxCommits: 1, NoTimeout: true}),
		// B holds the voucher transfer/channel-1/stake that arrived over the second link and sends it to A over the first link
		// (B is source zone there: the voucher is escrowed); A refuses it
		mk("2c/macro/two-links/voucher-over-other-link-refused", 5+d, 0.35, &TW{Topo: twoLinks, Sync: true, Prefix: voucherOnBViaLink1(), SkipPrefix: true, SendFrom: []int{1}, Links: []int{0}, Kind: 2,
			Routes: []int{RV1, RAlias, RClient}, Receivers: []int{RcvBlocked, RcvUser0}, Timeouts: []int{ToFar}, MaxPkts: 1, MaxCommits: 1, NoTimeout: true, Relayer: 1}),
		// chain B's identifiers of the two links are string prefixes of each other (07-tendermint-1 / channel-1 and
		// 07-tendermint-10 / channel-10): B holds vouchers that arrived over the second link (channel and client route) and
		// sends them onward over the first link, where they are refused (blocked receiver) or time out
		mk("2c/macro/prefix-related-ids/voucher-onward-fails", 5+d, 0.35, &TW{Topo: twoLinks, PrefixIDs: true, Sync: true, Prefix: vouchersOnBViaLink1(), SkipPrefix: true, SendFrom: []int{1}, Links: []int{0}, Kind: 2,
			Routes: []int{RV1, RAlias, RClient}, Receivers: []int{RcvBlocked}, Timeouts: []int{ToNext}, MaxPkts: 1, MaxCommits: 1, Relayer: 1}),
		// MsgSendPacket whose signer is not the payload's sender, next to the matching sends of both users
		mk("2c/macro/signer-mismatch", 4+d, 0.3, &TW{Sync: true, Mismatch: true, Senders: []int{0, 1}, SendFrom: []int{0}, Routes: []int{RAlias, RClient, RMsgAlias}, Receivers: []int{RcvUser1}, Timeouts: []int{ToFar},
			MaxPkts: 2, MaxCommits: 1, Relayer: 1}),
		// A sends stake over each of the three routes with a near timeout: receive vs timeout races, duplicates, two in flight
		mk("2c/macro/fresh/three-routes", 7+d, 0.15, &TW{Sync: true, SendFrom: []int{0}, Routes: []int{RV1, RAlias, RClient}, Timeouts: []int{ToNext},
			Bases: []string{Stake}, MaxPkts: 2, MaxCommits: mc}),
		// error acknowledgements: receiver is a blocked module account, or receive is switched off by the authority; relays signed by a user
		mk("2c/macro/fresh/receive-failures", 7+d, 0.2, &TW{Sync: true, SendFrom: []int{0}, Routes: []int{RV1, RAlias}, Receivers: []int{RcvUser0, RcvBlocked}, Timeouts: []int{ToFar},
			Bases: []string{Stake}, MaxPkts: 2, MaxCommits: mc, Toggles: 1, ToggleOn: []int{1}, NoTimeout: true, Relayer: 1}),
		// MsgTransfer's "entire balance", v1 timeout by height and by timestamp, MsgTransfer{use_aliasing}, the slashed native a/b
		mk("2c/macro/fresh/amounts-timeouts-slash-denom", 6+d, 0.2, &TW{Sync: true, SendFrom: []int{0}, Routes: []int{RV1, RMsgAlias}, Amounts: []int{1}, Timeouts: []int{ToNext, ToNextTime},
			MaxPkts: 2, MaxCommits: mc, NoAck: true}),
		// raw MsgSendPacket whose ICS-20 amount is the literal 2^256-1 "entire balance" sentinel, next to ordinary one-unit sends
		mk("2c/macro/fresh/literal-sentinel-amount", 5+d, 0.15, &TW{Sync: true, SendFrom: []int{0}, Routes: []int{RAlias, RClient}, Amounts: []int{0, 2}, Timeouts: []int{ToFar},
			Bases: []string{Stake}, MaxPkts: 2, MaxCommits: mc}),
		// B holds vouchers of A's stake (channel path and client path) and sends them back over every route, also across paths
		mk("2c/macro/vouchers-return", 6+d, 0.45, &TW{Sync: true, Prefix: vouchersOnB(), SkipPrefix: true, SendFrom: []int{1}, Kind: 2, Routes: []int{RV1, RAlias, RClient}, Amounts: core.Pick(c, []int{0}, []int{0, 1}),
			Timeouts: []int{ToNext}, MaxPkts: 2, MaxCommits: mc, Toggles: 1, ToggleOn: []int{0}, Relayer: 1}),
		// both chains send their native stake at the same time over the same channel / client pair
		mk("2c/macro/both-directions", 6+d, 0.3, &TW{Sync: true, Routes: []int{RV1, RMsgClient}, Timeouts: []int{ToNext}, Bases: []string{Stake}, Kind: 1, MaxPkts: 2, MaxCommits: 1}),
		// primitive commit / update steps, relays with any of the three newest consensus heights
		mk("2c/micro/primitive-stale-proofs", 7+d, 0, &TW{Stale: true, SendFrom: []int{0}, Routes: []int{RV1, RClient}, Timeouts: []int{ToNext}, Bases: []string{Stake}, MaxPkts: 1, MaxCommits: mc}),
	}
	if !c.Quick() {
		all := []int{RV1, RAlias, RClient, RMsgAlias, RMsgClient}
		parts = append(parts,
			// one transfer at a time, the full product of the alphabet (5 routes x 2 senders x denoms x 2 amounts x 3 receivers x 3 timeouts), complete life cycle of each
			mk("2c/macro/single-transfer/full-product/natives", 7, 0, &TW{Sync: true, SendFrom: []int{0}, Routes: all, Senders: []int{0, 1}, Amounts: []int{0, 1}, Receivers: []int{RcvUser0, RcvUser1, RcvBlocked},
				Timeouts: []int{ToFar, ToNext, ToNextTime}, MaxPkts: 1, MaxCommits: 2, Toggles: 1, ToggleOn: []int{1}}),
			mk("2c/macro/single-transfer/full-product/vouchers", 7, 0, &TW{Sync: true, Prefix: vouchersOnB(), SkipPrefix: true, SendFrom: []int{1}, Kind: 2, Routes: all, Amounts: []int{0, 1}, Receivers: []int{RcvUser0, RcvUser1, RcvBlocked},
				Timeouts: []int{ToFar, ToNext, ToNextTime}, MaxPkts: 1, MaxCommits: 2, Toggles: 1, ToggleOn: []int{0}, Relayer: 1}),
			// three chains in a line: B holds A's stake as voucher and moves it on to C or back to A, C returns it
			mk("3c/macro/line-forward-and-back", 10, 0, &TW{NChains: 3, Sync: true, Prefix: vouchersOnB()[:5], SkipPrefix: true, SendFrom: []int{1, 2}, Routes: []int{RV1, RAlias}, Amounts: []int{1},
				Timeouts: []int{ToNext}, Bases: []string{Stake}, Kind: 2, MaxPkts: 2, MaxCommits: 2}),
			// three chains from scratch: A -> B -> C with far timeouts, natives and vouchers, acknowledgements only
			mk("3c/macro/fresh-two-hops", 10, 0, &TW{NChains: 3, Sync: true, SendFrom: []int{0, 1}, Routes: []int{RV1}, Amounts: []int{1}, Timeouts: []int{ToFar}, Bases: []string{Stake},
				MaxPkts: 2, MaxCommits: 2, NoTimeout: true}),
		)
	}
	if f := os.Getenv("VERIF_TW_PART"); f != "" { // development aid: run only the parts whose name contains f
		var sel []ksim.Part
		for _, p := range parts {
			if strings.Contains(p.Name, f) {
				sel = append(sel, p)
			}
		}
		parts = sel
	}
	return parts
}

// Run executes the shared scenario with exactly one oracle armed.
func Run(c *core.C, arm Arm) {
	parts := Parts(c, arm)
	ksim.RunParts(c, parts, [][]ksim.Op{
		{xfer(0, 0, RV1, 0, stakeOf(0), 0, RcvUser0, ToNext), syncOp(1), {K: OpTimeout, A: []int{0, 8}}, {K: OpTimeout, A: []int{0, 8}}},
		{xfer(0, 0, RAlias, 0, stakeOf(0), 0, RcvBlocked, ToFar), syncOp(0), {K: OpRecv, A: []int{0, 8}}, syncOp(1), {K: OpAck, A: []int{0, 8}}},
		// two-links part: both client pairs carry a refused transfer; the error ack of the first must be refunded from the first pair's escrow
		{xfer(0, 0, RClient, 0, stakeOf(0), 0, RcvBlocked, ToFar), xfer(0, 1, RClient, 0, stakeOf(0), 0, RcvBlocked, ToFar), syncOp(0), {K: OpRecv, A: []int{0, 12}}, syncOp(1), {K: OpAck, A: []int{0, 12}}},
	})
	c.Set("alphabet", "xfer(chain, route in {MsgTransfer over the v1 channel, MsgSendPacket over the channel's v2 alias, MsgSendPacket client-to-client, MsgTransfer{use_aliasing}, MsgTransfer to a client id}, sender user, denom held incl. vouchers, amount in {1, all}, receiver in {user0, user1, blocked module account}, timeout in {far, next destination block by height/seconds, next block by v1 timestamp}) | badsend(MsgSendPacket signer != payload sender, 3 signers x 2 owners) | sync(chain) = commit + honest client updates (macro parts) | commit / update (primitive part, relays with any of the 3 newest consensus heights) | recv / ack / timeout for every packet ever sent, always enabled | rxflip(chain) = MsgUpdateParams by the authority toggling receive_enabled")
	c.Set("bounds", "2 chains (thorough: also 3 chains in a line), 2 users per chain funded 2 stake + 2 a/b and 1 stake, at most 2 transfers in flight, at most 2 new transfers per part, per-part depth and commit bounds as listed under parts")
	c.Assume("counterparty consensus, storage commit and validator signing are played by the harness (real IAVL proofs, real signed headers, verified by the unmodified 07-tendermint client)")
	c.Assume("one message per transaction; ante handlers are not executed: signature verification is modelled by the SDK's signer extraction (GetMsgV1Signers) - a message is only ever submitted for the single account the harness names as signer")
	c.Assume("authz grants (MsgExec around MsgTransfer), packet-forward memos and timeout-on-close are not part of this alphabet")
}
