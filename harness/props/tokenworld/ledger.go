package tokenworld

import (
	"bytes"
	"crypto/sha256"
	"encoding/binary"
	"encoding/hex"
	"fmt"
	"sort"
	"strings"

	sdkmath "cosmossdk.io/math"

	channeltypes "github.com/cosmos/ibc-go/v11/modules/core/04-channel/types"
	channeltypesv2 "github.com/cosmos/ibc-go/v11/modules/core/04-channel/v2/types"

	"verif/harness/ksim"
)

// DenomRec is one denomination the reference knows on a chain: the natives of the chain and every
// voucher the reference expects to exist there (registered when a receive is acknowledged with success).
type DenomRec struct {
	Chain int
	Bank  string   // bank denomination on Chain ("stake", "a/b", "ibc/<HASH>")
	Base  string   // base denomination
	Hops  []string // identifiers of the trace, newest first (every hop's port is "transfer")
	Fam   int      // index of the native denomination this one derives from
}

// Path is the full denomination path as it appears in packet data.
func (d DenomRec) Path() string { return tracePath(d.Hops, d.Base) }

func tracePath(hops []string, base string) string {
	var sb strings.Builder
	for _, h := range hops {
		sb.WriteString(Port + "/" + h + "/")
	}
	sb.WriteString(base)
	return sb.String()
}

// bankDenom is the reference's own rendering of ADR-001: the base itself without a trace, else
// "ibc/" + upper-case hex of sha256(full path).
func bankDenom(hops []string, base string) string {
	if len(hops) == 0 {
		return base
	}
	h := sha256.Sum256([]byte(tracePath(hops, base)))
	return "ibc/" + strings.ToUpper(hex.EncodeToString(h[:]))
}

// Delta is one balance (Addr != nil) or supply (Addr == nil) change of a transaction.
type Delta struct {
	Addr   []byte
	Denom  string
	Before sdkmath.Int
	After  sdkmath.Int
}

// D is After - Before.
func (d Delta) D() sdkmath.Int { return d.After.Sub(d.Before) }

func (d Delta) who() string {
	if d.Addr == nil {
		return "supply"
	}
	return addrName(d.Addr)
}

func (d Delta) String() string {
	return fmt.Sprintf("%s[%s] %s->%s", d.who(), d.Denom, d.Before, d.After)
}

// Pkt is one transfer the sending chain accepted.
type Pkt struct {
	Src, Dst int
	Path     int // global path index
	Route    int
	Seq      uint64
	Sender   int // user index on Src
	Receiver int // receiver code
	SndAddr  string
	RcvAddr  string
	Denom    int         // index into Ext.Denoms (denomination on Src)
	Amount   sdkmath.Int // amount debited from the sender
	Source   bool        // Src acted as source zone (escrow); false = sink (voucher burnt)
	ToKind   int
	P1       channeltypes.Packet
	P2       channeltypesv2.Packet

	// status, maintained from the observed results of relay transactions
	Recv   byte   // 0 not received, 1 received with a success acknowledgement, 2 received with an error acknowledgement
	RecvN  byte   // number of receive transactions that were executed (not NOOP)
	Ack    []byte // v1: acknowledgement bytes; v2: the single application acknowledgement
	Term   byte   // 0 none, 1 success ack processed, 2 error ack processed (refund), 3 timeout processed (refund)
	TermN  byte   // number of ack/timeout transactions that were executed (not NOOP)
	SendDx []Delta
}

// V2 reports whether the packet travels under the v2 protocol.
func (p *Pkt) V2() bool { return routeV2(p.Route) }

// Closed: the transfer is no longer in flight (credited on the destination or refunded on the source).
func (p *Pkt) Closed() bool { return p.Recv == 1 || p.Term == 2 || p.Term == 3 }

func (p *Pkt) String() string {
	return fmt.Sprintf("%c->%c/%s/seq%d", 'A'+p.Src, 'A'+p.Dst, RouteNames[p.Route], p.Seq)
}

// Ext is the reference ledger and history of a world.
type Ext struct {
	Pkts    []*Pkt // copy on write
	Base    int    // packets of the prefix
	Denoms  []DenomRec
	Commits []int
	Toggled int

	// EscrowRef is the C31 reference: per chain|denom, sum escrowed minus sum released.
	EscrowRef map[string]sdkmath.Int
	// Supply0 / Total0: supply of every native denomination at the root, and the users' total of it.
	Supply0 map[string]sdkmath.Int
	Total0  map[int]sdkmath.Int
}

func ext(w *ksim.World) *Ext { return w.Ext.(*Ext) }

func refKey(chain int, denom string) string { return fmt.Sprintf("%d|%s", chain, denom) }

// Clone implements ksim.Ext.
func (e *Ext) Clone() ksim.Ext {
	n := &Ext{
		Pkts:    append(make([]*Pkt, 0, len(e.Pkts)+1), e.Pkts...),
		Base:    e.Base,
		Denoms:  e.Denoms[:len(e.Denoms):len(e.Denoms)],
		Commits: append([]int{}, e.Commits...),
		Toggled: e.Toggled,
		Supply0: e.Supply0, // immutable after Init
		Total0:  e.Total0,
	}
	n.EscrowRef = make(map[string]sdkmath.Int, len(e.EscrowRef)+1)
	for k, v := range e.EscrowRef {
		n.EscrowRef[k] = v
	}
	return n
}

// mut returns a private copy of packet i for modification.
func (e *Ext) mut(i int) *Pkt {
	np := *e.Pkts[i]
	e.Pkts[i] = &np
	return &np
}

func (e *Ext) open() int {
	n := 0
	for _, p := range e.Pkts {
		if !p.Closed() {
			n++
		}
	}
	return n
}

func (e *Ext) denomIdx(chain int, bank string) int {
	for i, d := range e.Denoms {
		if d.Chain == chain && d.Bank == bank {
			return i
		}
	}
	return -1
}

func (e *Ext) addEscrow(chain int, denom string, amt sdkmath.Int) {
	k := refKey(chain, denom)
	cur, ok := e.EscrowRef[k]
	if !ok {
		cur = sdkmath.ZeroInt()
	}
	e.EscrowRef[k] = cur.Add(amt)
}

func (e *Ext) escrowRef(chain int, denom string) sdkmath.Int {
	if v, ok := e.EscrowRef[refKey(chain, denom)]; ok {
		return v
	}
	return sdkmath.ZeroInt()
}

// KeyBytes implements ksim.Ext. Packets are listed in a canonical order (the order of sending
// does not matter for anything the oracles or the alphabet depend on).
func (e *Ext) KeyBytes() []byte {
	recs := make([][]byte, 0, len(e.Pkts))
	for i, p := range e.Pkts {
		var b []byte
		b = append(b, byte(p.Src), byte(p.Dst), byte(p.Path), byte(p.Route))
		if i < e.Base {
			b = append(b, 1)
		} else {
			b = append(b, 0)
		}
		b = binary.BigEndian.AppendUint64(b, p.Seq)
		b = append(b, byte(p.Sender), byte(p.Receiver), byte(p.ToKind))
		b = append(b, e.Denoms[p.Denom].Bank...)
		b = append(b, 0)
		b = append(b, p.Amount.String()...)
		b = append(b, 0)
		if p.V2() {
			b = binary.BigEndian.AppendUint64(b, p.P2.TimeoutTimestamp)
		} else {
			b = binary.BigEndian.AppendUint64(b, p.P1.TimeoutHeight.RevisionHeight)
			b = binary.BigEndian.AppendUint64(b, p.P1.TimeoutTimestamp)
		}
		b = append(b, p.Recv, p.RecvN, p.Term, p.TermN)
		ah := sha256.Sum256(p.Ack)
		b = append(b, ah[:8]...)
		recs = append(recs, b)
	}
	sort.Slice(recs, func(i, j int) bool { return bytes.Compare(recs[i], recs[j]) < 0 })
	var out []byte
	for _, r := range recs {
		out = binary.BigEndian.AppendUint32(out, uint32(len(r)))
		out = append(out, r...)
	}
	out = append(out, 0xff)
	for _, c := range e.Commits {
		out = append(out, byte(c))
	}
	out = append(out, byte(e.Toggled), byte(len(e.Denoms)))
	dn := make([]string, 0, len(e.Denoms))
	for _, d := range e.Denoms {
		dn = append(dn, string(rune('A'+d.Chain))+d.Bank)
	}
	sort.Strings(dn)
	for _, d := range dn {
		out = append(out, d...)
		out = append(out, 0)
	}
	return out
}
