// Package c46 checks C46: privileged and client-scoped operations require the right signer.
//
// An explicit-state search (engine K) enumerates every reachable configuration of
//
//	relayer allow list of the client  x  allowed-client list  x  creator present/deleted  x
//	counterparty registered/not  x  v2 traffic in flight/not  x  client active/frozen
//
// (each configuration is reached through the real message handlers, signed by an authorised
// signer). In every reachable state the complete signer matrix is evaluated as the state
// oracle: every privileged / client-scoped message, otherwise valid, is delivered once per
// signer class to a fork of the state, and the outcome must equal a reference table
// transcribed from the property statement.
package c46

import (
	"crypto/sha256"
	"fmt"
	"strings"
	"sync"
	"time"

	sdkmath "cosmossdk.io/math"

	sdk "github.com/cosmos/cosmos-sdk/types"
	authtypes "github.com/cosmos/cosmos-sdk/x/auth/types"
	govtypes "github.com/cosmos/cosmos-sdk/x/gov/types"
	upgradetypes "github.com/cosmos/cosmos-sdk/x/upgrade/types"

	icactltypes "github.com/cosmos/ibc-go/v11/modules/apps/27-interchain-accounts/controller/types"
	icahosttypes "github.com/cosmos/ibc-go/v11/modules/apps/27-interchain-accounts/host/types"
	ratelimittypes "github.com/cosmos/ibc-go/v11/modules/apps/rate-limiting/types"
	transfertypes "github.com/cosmos/ibc-go/v11/modules/apps/transfer/types"
	clienttypes "github.com/cosmos/ibc-go/v11/modules/core/02-client/types"
	clientv2types "github.com/cosmos/ibc-go/v11/modules/core/02-client/v2/types"
	connectiontypes "github.com/cosmos/ibc-go/v11/modules/core/03-connection/types"
	channeltypes "github.com/cosmos/ibc-go/v11/modules/core/04-channel/types"
	channeltypesv2 "github.com/cosmos/ibc-go/v11/modules/core/04-channel/v2/types"
	commitmenttypes "github.com/cosmos/ibc-go/v11/modules/core/23-commitment/types"
	hostv2 "github.com/cosmos/ibc-go/v11/modules/core/24-host/v2"
	ibctm "github.com/cosmos/ibc-go/v11/modules/light-clients/07-tendermint"
	ibctesting "github.com/cosmos/ibc-go/v11/testing"
	ibcmock "github.com/cosmos/ibc-go/v11/testing/mock"
	mockv2 "github.com/cosmos/ibc-go/v11/testing/mock/v2"

	"verif/harness/core"
	"verif/harness/ksim"
)

func init() { core.Register("C46", "model_checking", run) }

// ---- signer classes ---------------------------------------------------------------------------

const (
	sgAuthority    = iota // the configured authority (gov module account)
	sgCreator             // signer of MsgCreateClient of the client under test
	sgRelayer             // address placed on the client's relayer allow list
	sgStranger            // unrelated address
	sgOtherCreator        // creator of a different client on the same chain
	sgRelayer2            // relayer listed on that different client only
	nSigners
)

var signerNames = [nSigners]string{"authority", "creator", "listed-relayer", "stranger", "other-client-creator", "other-client-relayer"}

func addr(tag string) string {
	b := make([]byte, 20)
	copy(b, tag)
	return sdk.AccAddress(b).String()
}

var signers = [nSigners]string{
	authtypes.NewModuleAddress(govtypes.ModuleName).String(),
	addr("verif-c46-creator"),
	addr("verif-c46-relayer"),
	addr("verif-c46-stranger"),
	addr("verif-c46-creator-2"),
	addr("verif-c46-relayer-2"),
}

// ---- configuration variants -------------------------------------------------------------------

// relayer allow lists the authority may set on the client under test (indices into signers)
var relVariants = [][]int{{sgRelayer}, {}, {sgRelayer, sgRelayer2}, {sgCreator, sgRelayer}}

// allowed-client lists
var parVariants = [][]string{{"*"}, {"07-tendermint"}, {"06-solomachine"}, {"06-solomachine", "07-tendermint"}, {"09-localhost"}}

// ext is the reference model's view of the configuration (history variables; never read from the stores).
type ext struct {
	Rel            int // 0 = no config ever stored, k+1 = relVariants[k]
	Par            int // index into parVariants
	CreatorDeleted bool
	Registered     bool
	Frozen         bool
	Traffic        bool
	PAlias         channeltypesv2.Packet // B->A packet addressed to the transfer channel's id (alias of the client under test); observation only
	PIn, PAck, PTo channeltypesv2.Packet // in-flight v2 packets: B->A (to receive), A->B received (to acknowledge), A->B expired (to time out)
	PH             uint64                // consensus height of chain B that proves all three
	Hist           []ksim.Op
}

func (e *ext) Clone() ksim.Ext {
	n := *e
	n.Hist = e.Hist[:len(e.Hist):len(e.Hist)]
	return &n
}

func (e *ext) KeyBytes() []byte {
	b := []byte{byte(e.Rel), byte(e.Par), 0}
	for i, f := range []bool{e.CreatorDeleted, e.Registered, e.Frozen, e.Traffic} {
		if f {
			b[2] |= 1 << i
		}
	}
	return b
}

func (e *ext) String() string {
	rel := "unset"
	if e.Rel > 0 {
		var n []string
		for _, s := range relVariants[e.Rel-1] {
			n = append(n, signerNames[s])
		}
		rel = "{" + strings.Join(n, ",") + "}"
	}
	return fmt.Sprintf("allow-list=%s allowed-clients=%v creator-deleted=%v counterparty-registered=%v traffic=%v frozen=%v",
		rel, parVariants[e.Par], e.CreatorDeleted, e.Registered, e.Traffic, e.Frozen)
}

// reference predicates (transcribed from the statement)

// allowedRelayer: "for a client with a non-empty relayer allow list ... only when a listed relayer signs"
func (e *ext) allowedRelayer(who int) bool {
	if e.Rel == 0 || len(relVariants[e.Rel-1]) == 0 {
		return true
	}
	for _, s := range relVariants[e.Rel-1] {
		if s == who {
			return true
		}
	}
	return false
}

// tmAllowed: "clients whose type is not on the allowed-client list cannot be created, updated or used"
func (e *ext) tmAllowed() bool {
	for _, t := range parVariants[e.Par] {
		if t == "*" || t == "07-tendermint" {
			return true
		}
	}
	return false
}

// ---- scenario ---------------------------------------------------------------------------------

type ids struct {
	C0, CAux, C1, CB string // client under test, frozen auxiliary client, substitute / "other" client (all on A), client on B
	Chan, ChanB      string // transfer channel on A and its counterparty end on B (UNORDERED, so both ids are v2 aliases of the clients)
}

type sm struct {
	ksim.Base
	c     *core.C
	part  string
	nRel  int // number of relayer-list variants explored
	nPar  int
	mu    sync.Mutex
	id    ids
	seenG map[string]bool
}

func (s *sm) Chains() int { return 2 }

func must(what string, r ksim.Result) {
	if r.Class != ksim.OK {
		panic(fmt.Sprintf("c46 set-up step %q failed: %s %v", what, r, r.Err))
	}
}

func createClient(w *ksim.World, on, of int, signer string) string {
	h := w.CS[of].H()
	cons, ok := w.ConsensusStateAt(of, h)
	if !ok {
		panic("no committed state")
	}
	msg, err := clienttypes.NewMsgCreateClient(tmState(w, of, h), cons, signer)
	if err != nil {
		panic(err)
	}
	r := w.Tx(on, msg)
	must("create client", r)
	var resp clienttypes.MsgCreateClientResponse
	if err := resp.Unmarshal(r.Resp); err != nil {
		panic(err)
	}
	return resp.ClientId
}

// clockDrift is the max clock drift of every client of this scenario. It is generous so that the explored
// configuration steps never have to commit a block on the chain under test merely to keep the two clocks
// close (its committed history is part of the state key, and extra commits would only multiply states).
const clockDrift = 10 * time.Minute

func tmState(w *ksim.World, of int, h int64) *ibctm.ClientState {
	return ibctm.NewClientState(w.W.Chains[of].ChainID, ibctm.DefaultTrustLevel, ksim.TrustingPeriod, ksim.UnbondingPeriod, clockDrift,
		w.Height(of, h), commitmenttypes.GetSDKSpecs(), ibctesting.UpgradePath)
}

// latestOf reads the latest height from the stored client state (no routing, so it also works
// when the client type is not on the allowed list).
func latestOf(w *ksim.World, chain int, id string) clienttypes.Height {
	cs, ok := w.W.Chains[chain].App.IBCKeeper.ClientKeeper.GetClientState(w.CS[chain].Ctx, id)
	if !ok {
		panic("client state missing: " + id)
	}
	return cs.(*ibctm.ClientState).LatestHeight
}

func updateMsg(w *ksim.World, id string, of int, signer string) *clienttypes.MsgUpdateClient {
	hdr, ok := w.HonestHeader(of, w.CS[of].H(), latestOf(w, 0, id))
	if !ok {
		panic("no header")
	}
	msg, err := clienttypes.NewMsgUpdateClient(id, hdr, signer)
	if err != nil {
		panic(err)
	}
	return msg
}

// conflictMsg builds a validly signed header of chain `of` for the client's latest height whose app hash differs
// from the stored consensus state (freezes the client).
func conflictMsg(w *ksim.World, id string, of int, signer string) *clienttypes.MsgUpdateClient {
	hs := w.ConsensusHeights(0, id)
	if len(hs) < 2 {
		panic("need two consensus states to freeze " + id)
	}
	top, trusted := hs[len(hs)-1], hs[len(hs)-2]
	b, ok := w.CS[of].Block(int64(top.RevisionHeight))
	if !ok {
		panic("no block")
	}
	fork := sha256.Sum256([]byte("c46-fork"))
	raw := w.RawHeader(of, int64(top.RevisionHeight), b.Time, fork[:], w.W.Vals.Set, w.W.Vals.Set)
	hdr, err := ksim.SignHeader(raw, w.W.Vals, trusted, w.W.Vals.Set)
	if err != nil {
		panic(err)
	}
	msg, err := clienttypes.NewMsgUpdateClient(id, hdr, signer)
	if err != nil {
		panic(err)
	}
	return msg
}

var prefix = [][]byte{[]byte("ibc"), []byte("")}

func (s *sm) Init(wk *ksim.Worker) *ksim.World {
	w := wk.Root()
	e := &ext{}
	w.Ext = e
	var id ids
	id.C0 = createClient(w, 0, 1, signers[sgCreator])
	id.CAux = createClient(w, 0, 1, signers[sgCreator])
	// Identifiers are deliberately asymmetric: two unrelated clients, one unrelated connection and one unrelated
	// channel are created on B first. The path is then A 07-tendermint-0 <-> B 07-tendermint-2, connection-0 <->
	// connection-1, channel-0 <-> channel-1, and B's client id names a DIFFERENT existing client on A (the "other"
	// client, whose allow list is {other-client-relayer}); a handler that looks a configuration up under the
	// counterparty's identifier therefore gets a wrong answer in both directions.
	dummyB := createClient(w, 1, 0, ksim.Signer)
	createClient(w, 1, 0, ksim.Signer)
	id.CB = createClient(w, 1, 0, ksim.Signer)
	must("unrelated connection on B", w.Tx(1, connectiontypes.NewMsgConnectionOpenInit(dummyB, "07-tendermint-9", ksim.Prefix, ibctesting.DefaultOpenInitVersion, 0, ksim.Signer)))
	l := &ksim.Link{A: 0, B: 1, ClientA: id.C0, ClientB: id.CB}
	w.SetupConnection(l, 0)
	must("unrelated channel on B", w.Tx(1, channeltypes.NewMsgChannelOpenInit(ibcmock.PortID, ibcmock.Version, channeltypes.UNORDERED, []string{l.ConnB}, ibcmock.PortID, ksim.Signer)))
	ch := w.SetupChannel(l, transfertypes.PortID, transfertypes.PortID, transfertypes.V1, channeltypes.UNORDERED)
	id.Chan, id.ChanB = ch.ChanA, ch.ChanB
	if id.C0 == id.CB || l.ConnA == l.ConnB || id.Chan == id.ChanB {
		panic(fmt.Sprintf("c46 fixture: identifiers are not asymmetric: clients %s/%s connections %s/%s channels %s/%s", id.C0, id.CB, l.ConnA, l.ConnB, id.Chan, id.ChanB))
	}
	// the auxiliary client learns one more height and is then frozen by a conflicting header
	w.Commit(1, ksim.BlockStep)
	must("update aux", w.Tx(0, updateMsg(w, id.CAux, 1, signers[sgStranger])))
	must("freeze aux", w.Tx(0, conflictMsg(w, id.CAux, 1, signers[sgStranger])))
	// the substitute / "other" client is created later (higher height) by another creator and has its own allow list
	w.Commit(1, ksim.BlockStep)
	id.C1 = createClient(w, 0, 1, signers[sgOtherCreator])
	if id.C1 != id.CB {
		panic(fmt.Sprintf("c46 fixture: B's client id %s should name the other client on A (%s)", id.CB, id.C1))
	}
	must("config C1", w.Tx(0, clientv2types.NewMsgUpdateClientConfig(id.C1, signers[sgOtherCreator], clientv2types.NewConfig(signers[sgRelayer2]))))
	// chain B is fully configured for v2 traffic with the client under test
	must("register on B", w.Tx(1, clientv2types.NewMsgRegisterCounterparty(id.CB, prefix, id.C0, ksim.Signer)))
	// an existing rate limit for update / remove / reset
	add := ratelimittypes.NewMsgAddRateLimit(sdk.DefaultBondDenom, id.C0, sdkmath.NewInt(10), sdkmath.NewInt(10), 24)
	add.Signer = signers[sgAuthority]
	must("add rate limit", w.Tx(0, add))
	w.Sync(1, id.CB, 0)
	w.Sync(0, id.C0, 1)
	w.Commit(1, ksim.BlockStep)
	s.mu.Lock()
	s.id = id
	s.mu.Unlock()
	w.Obs = nil
	return w
}

func (s *sm) Ops(w *ksim.World) []ksim.Op {
	e := w.Ext.(*ext)
	var ops []ksim.Op
	for k := 0; k < s.nRel; k++ {
		if e.Rel != k+1 {
			ops = append(ops, ksim.Op{K: "allow-list", A: []int{k}})
		}
	}
	for k := 0; k < s.nPar; k++ {
		if e.Par != k {
			ops = append(ops, ksim.Op{K: "allowed-clients", A: []int{k}})
		}
	}
	if !e.CreatorDeleted {
		ops = append(ops, ksim.Op{K: "delete-creator"})
		if !e.Registered {
			ops = append(ops, ksim.Op{K: "register"})
		}
	}
	if e.Registered && !e.Traffic && !e.Frozen && e.tmAllowed() {
		ops = append(ops, ksim.Op{K: "traffic"})
	}
	if !e.Frozen && e.tmAllowed() {
		ops = append(ops, ksim.Op{K: "freeze"})
	}
	return ops
}

func (s *sm) Apply(w *ksim.World, op ksim.Op) ksim.Result {
	e := w.Ext.(*ext)
	e.Hist = append(e.Hist, op)
	id := s.id
	ok := ksim.Result{Class: ksim.OK}
	step := func(what string, r ksim.Result) (ksim.Result, bool) {
		if r.Class != ksim.OK {
			r.Code = what + ":" + r.Code
			return r, false
		}
		return r, true
	}
	switch op.K {
	case "allow-list":
		var lst []string
		for _, sg := range relVariants[op.A[0]] {
			lst = append(lst, signers[sg])
		}
		r := w.Tx(0, clientv2types.NewMsgUpdateClientConfig(id.C0, signers[sgAuthority], clientv2types.NewConfig(lst...)))
		if r.Class == ksim.OK {
			e.Rel = op.A[0] + 1
		}
		return r
	case "allowed-clients":
		r := w.Tx(0, clienttypes.NewMsgUpdateParams(signers[sgAuthority], clienttypes.NewParams(parVariants[op.A[0]]...)))
		if r.Class == ksim.OK {
			e.Par = op.A[0]
		}
		return r
	case "delete-creator":
		r := w.Tx(0, clienttypes.NewMsgDeleteClientCreator(id.C0, signers[sgCreator]))
		if r.Class == ksim.OK {
			e.CreatorDeleted = true
		}
		return r
	case "register":
		r := w.Tx(0, clientv2types.NewMsgRegisterCounterparty(id.C0, prefix, id.CB, signers[sgCreator]))
		if r.Class == ksim.OK {
			e.Registered = true
		}
		return r
	case "traffic":
		far := func(ch int) uint64 { return uint64(w.CS[ch].TimeNs()/1e9) + 3600 }
		pl := mockv2.NewMockPayload(mockv2.PortIDA, mockv2.PortIDB)
		seq, r := w.SendV2(0, id.C0, far(0), signers[sgStranger], pl)
		if r, good := step("send-to-ack", r); !good {
			return r
		}
		e.PAck = channeltypesv2.NewPacket(seq, id.C0, id.CB, far(0), pl)
		short := uint64(max(w.CS[0].TimeNs(), w.CS[1].TimeNs())/1e9) + 10
		seq, r = w.SendV2(0, id.C0, short, signers[sgStranger], pl)
		if r, good := step("send-to-expire", r); !good {
			return r
		}
		e.PTo = channeltypesv2.NewPacket(seq, id.C0, id.CB, short, pl)
		tin := far(1)
		seq, r = w.SendV2(1, id.CB, tin, ksim.Signer, pl)
		if r, good := step("send-inbound", r); !good {
			return r
		}
		e.PIn = channeltypesv2.NewPacket(seq, id.CB, id.C0, tin, pl)
		seq, r = w.SendV2(1, id.ChanB, tin, ksim.Signer, pl)
		if r, good := step("send-inbound-alias", r); !good {
			return r
		}
		e.PAlias = channeltypesv2.NewPacket(seq, id.ChanB, id.Chan, tin, pl)
		// B learns A's state and receives the first packet (writes the acknowledgement)
		w.Commit(0, ksim.BlockStep)
		if r, good := step("update-B", w.UpdateLatest(1, id.CB, 0)); !good {
			return r
		}
		if r, good := step("recv-on-B", w.RecvV2(1, 0, e.PAck, w.ClientLatest(1, id.CB))); !good {
			return r
		}
		// B's clock passes the short timeout; A then learns B's state through a listed relayer
		w.Commit(1, ksim.BlockStep)
		for uint64(w.CS[1].TimeNs()/1e9) < short {
			w.Commit(1, ksim.BlockStep)
		}
		if r, good := step("update-A", w.Tx(0, updateMsg(w, id.C0, 1, signers[sgRelayer]))); !good {
			return r
		}
		e.PH = latestOf(w, 0, id.C0).RevisionHeight
		w.Commit(1, ksim.BlockStep)
		e.Traffic = true
		return ok
	case "freeze":
		// the substitute first learns a height above the client under test, then the client is frozen
		w.Commit(1, ksim.BlockStep)
		if r, good := step("update-substitute", w.Tx(0, updateMsg(w, id.C1, 1, signers[sgRelayer2]))); !good {
			return r
		}
		if r, good := step("conflicting-header", w.Tx(0, conflictMsg(w, id.C0, 1, signers[sgRelayer]))); !good {
			return r
		}
		w.Commit(1, ksim.BlockStep)
		e.Frozen = true
		return ok
	}
	panic("unknown op " + op.K)
}

// Step: every configuration change is signed by an authorised signer in a state where the reference
// model says it is valid, so it must succeed.
func (s *sm) Step(pre *ksim.World, op ksim.Op, r ksim.Result, post *ksim.World) *ksim.Fail {
	if r.Class != ksim.OK {
		return &ksim.Fail{Key: "authorised-rejected/transition/" + op.K, Text: fmt.Sprintf("configuration step %s signed by its authorised signer failed: %s %v (state before: %s)", op, r, r.Err, pre.Ext.(*ext))}
	}
	return nil
}

// ---- the matrix -------------------------------------------------------------------------------

type opDef struct {
	name string
	// build returns the message signed by signer, or nil when no valid message exists in this state (no packet in flight)
	build func(s *sm, w *ksim.World, e *ext, signer string) sdk.Msg
	// expect is the reference table: must the message succeed for this signer class in this configuration?
	// nil = observation only (recorded, never judged)
	expect func(e *ext, who int) bool
}

func authorityOnly(_ *ext, who int) bool { return who == sgAuthority }

func rl(f func(string, string) sdk.Msg) func(*sm, *ksim.World, *ext, string) sdk.Msg {
	return func(s *sm, _ *ksim.World, _ *ext, signer string) sdk.Msg { return f(s.id.C0, signer) }
}

var matrix = []opDef{
	{"MsgRecoverClient(frozen-aux)", func(s *sm, _ *ksim.World, _ *ext, sg string) sdk.Msg {
		return clienttypes.NewMsgRecoverClient(sg, s.id.CAux, s.id.C1)
	}, func(e *ext, who int) bool { return who == sgAuthority && e.tmAllowed() }},
	{"MsgRecoverClient(client)", func(s *sm, _ *ksim.World, _ *ext, sg string) sdk.Msg {
		return clienttypes.NewMsgRecoverClient(sg, s.id.C0, s.id.C1)
	}, func(e *ext, who int) bool { return who == sgAuthority && e.tmAllowed() && e.Frozen }},
	{"MsgIBCSoftwareUpgrade", func(_ *sm, w *ksim.World, _ *ext, sg string) sdk.Msg {
		m, err := clienttypes.NewMsgIBCSoftwareUpgrade(sg, upgradetypes.Plan{Name: "verif-c46", Height: w.CS[0].H() + 50}, w.TMClientState(0, w.CS[0].H()+50))
		if err != nil {
			panic(err)
		}
		return m
	}, authorityOnly},
	{"client.MsgUpdateParams", func(_ *sm, _ *ksim.World, _ *ext, sg string) sdk.Msg {
		return clienttypes.NewMsgUpdateParams(sg, clienttypes.NewParams("07-tendermint", "08-wasm"))
	}, authorityOnly},
	{"connection.MsgUpdateParams", func(_ *sm, _ *ksim.World, _ *ext, sg string) sdk.Msg {
		return connectiontypes.NewMsgUpdateParams(sg, connectiontypes.NewParams(12345))
	}, authorityOnly},
	{"MsgAddRateLimit", func(s *sm, _ *ksim.World, _ *ext, sg string) sdk.Msg {
		m := ratelimittypes.NewMsgAddRateLimit(sdk.DefaultBondDenom, s.id.Chan, sdkmath.NewInt(20), sdkmath.NewInt(30), 12)
		m.Signer = sg
		return m
	}, authorityOnly},
	{"MsgUpdateRateLimit", rl(func(c0, sg string) sdk.Msg {
		m := ratelimittypes.NewMsgUpdateRateLimit(sdk.DefaultBondDenom, c0, sdkmath.NewInt(20), sdkmath.NewInt(30), 12)
		m.Signer = sg
		return m
	}), authorityOnly},
	{"MsgRemoveRateLimit", rl(func(c0, sg string) sdk.Msg {
		m := ratelimittypes.NewMsgRemoveRateLimit(sdk.DefaultBondDenom, c0)
		m.Signer = sg
		return m
	}), authorityOnly},
	{"MsgResetRateLimit", rl(func(c0, sg string) sdk.Msg {
		m := ratelimittypes.NewMsgResetRateLimit(sdk.DefaultBondDenom, c0)
		m.Signer = sg
		return m
	}), authorityOnly},
	{"transfer.MsgUpdateParams", func(_ *sm, _ *ksim.World, _ *ext, sg string) sdk.Msg {
		return transfertypes.NewMsgUpdateParams(sg, transfertypes.NewParams(false, true))
	}, authorityOnly},
	{"icahost.MsgUpdateParams", func(_ *sm, _ *ksim.World, _ *ext, sg string) sdk.Msg {
		return icahosttypes.NewMsgUpdateParams(sg, icahosttypes.NewParams(false, []string{"*"}))
	}, authorityOnly},
	{"icacontroller.MsgUpdateParams", func(_ *sm, _ *ksim.World, _ *ext, sg string) sdk.Msg {
		return icactltypes.NewMsgUpdateParams(sg, icactltypes.NewParams(false))
	}, authorityOnly},
	{"MsgRegisterCounterparty", func(s *sm, _ *ksim.World, _ *ext, sg string) sdk.Msg {
		return clientv2types.NewMsgRegisterCounterparty(s.id.C0, prefix, s.id.CB, sg)
	}, func(e *ext, who int) bool { return who == sgCreator && !e.CreatorDeleted && !e.Registered }},
	{"MsgUpdateClientConfig", func(s *sm, _ *ksim.World, _ *ext, sg string) sdk.Msg {
		return clientv2types.NewMsgUpdateClientConfig(s.id.C0, sg, clientv2types.NewConfig(signers[sgStranger]))
	}, func(e *ext, who int) bool { return who == sgAuthority || (who == sgCreator && !e.CreatorDeleted) }},
	{"MsgDeleteClientCreator", func(s *sm, _ *ksim.World, _ *ext, sg string) sdk.Msg {
		return clienttypes.NewMsgDeleteClientCreator(s.id.C0, sg)
	}, func(e *ext, who int) bool { return !e.CreatorDeleted && (who == sgAuthority || who == sgCreator) }},
	{"MsgUpdateClient", func(s *sm, w *ksim.World, _ *ext, sg string) sdk.Msg {
		return updateMsg(w, s.id.C0, 1, sg)
	}, func(e *ext, who int) bool { return e.allowedRelayer(who) && e.tmAllowed() && !e.Frozen }},
	{"MsgCreateClient(07-tendermint)", func(_ *sm, w *ksim.World, _ *ext, sg string) sdk.Msg {
		h := w.CS[1].H()
		cons, ok := w.ConsensusStateAt(1, h)
		if !ok {
			panic("no committed state")
		}
		m, err := clienttypes.NewMsgCreateClient(tmState(w, 1, h), cons, sg)
		if err != nil {
			panic(err)
		}
		return m
	}, func(e *ext, _ int) bool { return e.tmAllowed() }},
	{"v2.MsgRecvPacket", func(s *sm, w *ksim.World, e *ext, sg string) sdk.Msg {
		if !e.Traffic {
			return nil
		}
		proof, ok := w.ProofAt(1, int64(e.PH), "ibc", hostv2.PacketCommitmentKey(e.PIn.SourceClient, e.PIn.Sequence))
		if !ok {
			panic("no proof")
		}
		return channeltypesv2.NewMsgRecvPacket(e.PIn, proof, w.Height(1, int64(e.PH)), sg)
	}, packetRule},
	{"v2.MsgAcknowledgement", func(s *sm, w *ksim.World, e *ext, sg string) sdk.Msg {
		if !e.Traffic {
			return nil
		}
		proof, ok := w.ProofAt(1, int64(e.PH), "ibc", hostv2.PacketAcknowledgementKey(e.PAck.DestinationClient, e.PAck.Sequence))
		if !ok {
			panic("no proof")
		}
		ack := channeltypesv2.Acknowledgement{AppAcknowledgements: [][]byte{mockv2.MockRecvPacketResult.Acknowledgement}}
		return channeltypesv2.NewMsgAcknowledgement(e.PAck, ack, proof, w.Height(1, int64(e.PH)), sg)
	}, packetRule},
	{"v2.MsgTimeout", func(s *sm, w *ksim.World, e *ext, sg string) sdk.Msg {
		if !e.Traffic {
			return nil
		}
		proof, ok := w.ProofAt(1, int64(e.PH), "ibc", hostv2.PacketReceiptKey(e.PTo.DestinationClient, e.PTo.Sequence))
		if !ok {
			panic("no proof")
		}
		return channeltypesv2.NewMsgTimeout(e.PTo, proof, w.Height(1, int64(e.PH)), sg)
	}, packetRule},
	// observation only: the same receive, but the packet is addressed to the v1 channel id that aliases the client under test
	{"observe/v2.MsgRecvPacket(channel-alias)", func(s *sm, w *ksim.World, e *ext, sg string) sdk.Msg {
		if !e.Traffic {
			return nil
		}
		proof, ok := w.ProofAt(1, int64(e.PH), "ibc", hostv2.PacketCommitmentKey(e.PAlias.SourceClient, e.PAlias.Sequence))
		if !ok {
			panic("no proof")
		}
		return channeltypesv2.NewMsgRecvPacket(e.PAlias, proof, w.Height(1, int64(e.PH)), sg)
	}, nil},
	// client scoping: the same client-scoped messages aimed at a different client (creator = other-client-creator,
	// allow list = {other-client-relayer}, no counterparty registered, always active)
	{"other-client/MsgRegisterCounterparty", func(s *sm, _ *ksim.World, _ *ext, sg string) sdk.Msg {
		return clientv2types.NewMsgRegisterCounterparty(s.id.C1, prefix, s.id.CB, sg)
	}, func(_ *ext, who int) bool { return who == sgOtherCreator }},
	{"other-client/MsgUpdateClientConfig", func(s *sm, _ *ksim.World, _ *ext, sg string) sdk.Msg {
		return clientv2types.NewMsgUpdateClientConfig(s.id.C1, sg, clientv2types.NewConfig())
	}, func(_ *ext, who int) bool { return who == sgAuthority || who == sgOtherCreator }},
	{"other-client/MsgDeleteClientCreator", func(s *sm, _ *ksim.World, _ *ext, sg string) sdk.Msg {
		return clienttypes.NewMsgDeleteClientCreator(s.id.C1, sg)
	}, func(_ *ext, who int) bool { return who == sgAuthority || who == sgOtherCreator }},
	{"other-client/MsgUpdateClient", func(s *sm, w *ksim.World, _ *ext, sg string) sdk.Msg {
		return updateMsg(w, s.id.C1, 1, sg)
	}, func(e *ext, who int) bool { return who == sgRelayer2 && e.tmAllowed() }},
}

func packetRule(e *ext, who int) bool {
	return e.Traffic && e.allowedRelayer(who) && e.tmAllowed() && !e.Frozen
}

// succeeded: the message was executed and did something (a v2 NOOP response is not a success).
func succeeded(m sdk.Msg, r ksim.Result) bool {
	if r.Class != ksim.OK {
		return false
	}
	switch m.(type) {
	case *channeltypesv2.MsgRecvPacket:
		var resp channeltypesv2.MsgRecvPacketResponse
		return resp.Unmarshal(r.Resp) == nil && resp.Result == channeltypesv2.SUCCESS
	case *channeltypesv2.MsgAcknowledgement:
		var resp channeltypesv2.MsgAcknowledgementResponse
		return resp.Unmarshal(r.Resp) == nil && resp.Result == channeltypesv2.SUCCESS
	case *channeltypesv2.MsgTimeout:
		var resp channeltypesv2.MsgTimeoutResponse
		return resp.Unmarshal(r.Resp) == nil && resp.Result == channeltypesv2.SUCCESS
	}
	return true
}

var dumpStores = append(append([]string{}, ksim.AllStores...), "bank", "acc", "params", "consensus")

// Invariant evaluates the complete signer matrix on forks of the state.
func (s *sm) Invariant(w *ksim.World) *ksim.Fail {
	e := w.Ext.(*ext)
	c := s.c
	pre := w.DumpStores(0, dumpStores)
	stateTag := e.String()
	for _, od := range matrix {
		var exp, got [nSigners]bool
		var res [nSigners]ksim.Result
		applicable := true
		for who := 0; who < nSigners; who++ {
			f := w.Fork()
			msg := od.build(s, f, f.Ext.(*ext), signers[who])
			if msg == nil {
				applicable = false
				break
			}
			r := f.Tx(0, msg)
			if od.expect == nil {
				c.Hist("alias_route_observation", fmt.Sprintf("client-usable=%v/signer-allowed-by-client-allow-list=%v -> accepted=%v", e.tmAllowed() && !e.Frozen, e.allowedRelayer(who), succeeded(msg, r)))
				continue
			}
			exp[who], got[who], res[who] = od.expect(e, who), succeeded(msg, r), r
			c.Add("evaluations", 1)
			c.Hist("cell_outcomes", od.name+":"+string(r.Class))
			if !got[who] {
				if d := ksim.DiffStores(pre, f.DumpStores(0, dumpStores)); len(d) > 0 {
					s.violation(e, "rejected-but-changed-state/"+od.name+"/"+signerNames[who],
						fmt.Sprintf("%s signed by %s answered %s but changed keys %q (%s)", od.name, signerNames[who], r, d, stateTag))
				}
			}
			if got[who] != exp[who] {
				kind := "unauthorised-accepted"
				if exp[who] {
					kind = "authorised-rejected"
				}
				s.violation(e, kind+"/"+od.name+"/"+signerNames[who],
					fmt.Sprintf("%s signed by %s: reference table says success=%v, handler answered %s %v (%s)", od.name, signerNames[who], exp[who], r, r.Err, stateTag))
			}
		}
		if !applicable {
			c.Add("groups_skipped_no_valid_message", 1)
			continue
		}
		if od.expect == nil {
			continue
		}
		c.Add("groups", 1)
		nOK := 0
		for who := 0; who < nSigners; who++ {
			if exp[who] {
				nOK++
			}
		}
		switch {
		case nOK == 0:
			c.Add("groups_nobody_may_succeed", 1) // precondition fails for every signer (e.g. second registration, frozen client, type not allowed)
		case nOK == nSigners:
			c.Add("groups_everybody_may_succeed", 1)
		default:
			// signer-discriminating group: the expected result differs between signer classes, and the authorised
			// signer's success in the same state is the control showing the message is otherwise valid
			c.Add("distinct_nontrivial", nSigners)
			c.Add("groups_signer_discriminating", 1)
		}
		if nOK > 0 {
			c.Add("groups_with_control_success", 1)
		}
		s.sampleOnce(od.name, e, exp, got, res)
	}
	c.Add("states_with_matrix", 1)
	return nil
}

func (s *sm) sampleOnce(op string, e *ext, exp, got [nSigners]bool, res [nSigners]ksim.Result) {
	if op != "v2.MsgRecvPacket" && op != "MsgRegisterCounterparty" && op != "MsgUpdateRateLimit" && op != "MsgUpdateClient" {
		return
	}
	tag := fmt.Sprintf("%s|%d|%v", op, e.Rel, e.Frozen)
	s.mu.Lock()
	dup := s.seenG[tag]
	s.seenG[tag] = true
	s.mu.Unlock()
	if dup || e.Rel > 1 || e.Par != 0 {
		return
	}
	row := map[string]any{"op": op, "state": e.String(), "history": histText(e.Hist)}
	for who := 0; who < nSigners; who++ {
		row[signerNames[who]] = fmt.Sprintf("expected=%v got=%v (%s)", exp[who], got[who], res[who])
	}
	s.c.Sample(row)
}

func histText(h []ksim.Op) string {
	p := make([]string, len(h))
	for i, o := range h {
		p[i] = o.String()
	}
	return strings.Join(p, " ; ")
}

func (s *sm) violation(e *ext, key, text string) {
	hist := append([]ksim.Op{}, e.Hist...)
	s.c.Violation(key, text, map[string]any{"part": s.part, "history": hist, "history_text": histText(hist)})
}

func run(c *core.C) {
	nRel, nPar := core.Pick(c, 2, len(relVariants)), core.Pick(c, 3, len(parVariants))
	if c.Replay != "" {
		nRel, nPar = len(relVariants), len(parVariants) // op arguments index the same tables in both tiers
	}
	name := "signer-matrix"
	c.Set("allow_list_variants", nRel+1)
	c.Set("allowed_client_list_variants", nPar)
	sc := &sm{c: c, part: name, nRel: nRel, nPar: nPar, seenG: map[string]bool{}}
	c.Set("evaluations", 0)
	c.Set("distinct_nontrivial", 0)
	if c.Replay != "" {
		// a violation recorded in the root state has an empty history, which ksim.ReplayParts does not evaluate
		var art struct {
			History []ksim.Op `json:"history"`
		}
		if err := c.LoadReplay(&art); err == nil && len(art.History) == 0 {
			w := sc.Init(ksim.NewWorker(c.T, 2))
			w.Flatten()
			sc.Invariant(w)
			c.Set("states", 1)
			c.Set("transitions", 0)
			return
		}
	}
	ksim.RunParts(c, []ksim.Part{{Name: name, Sc: sc, Cfg: ksim.Config{MaxDepth: core.Pick(c, 9, 12)}}}, nil)
	c.Set("rule", "a cell is (reachable state, operation, signer class); it is non-trivial when, in that state and for that operation, the reference table's expected result differs between at least two signer classes (so the signer decides the outcome and the authorised signer's success is the control proving the message is otherwise valid)")
	c.Set("operations", len(matrix)-1)
	c.Set("signer_classes", signerNames[:])
	c.Set("alphabet", "configuration steps through the real handlers: allow-list(k) = MsgUpdateClientConfig by the authority | allowed-clients(k) = 02-client MsgUpdateParams | delete-creator | register (MsgRegisterCounterparty by the creator) | traffic (three v2 packets brought in flight: one to receive, one to acknowledge, one to time out on chain A) | freeze (conflicting signed header); in every reachable state all operations x all signer classes are delivered to forks")
	c.Assume("identifiers of the two chains are asymmetric (A 07-tendermint-0 <-> B 07-tendermint-2, connection-0 <-> connection-1, channel-0 <-> channel-1) and B's client id names a different client on A with a different allow list")
	c.Assume("wasm MsgStoreCode / MsgRemoveChecksum / MsgMigrateContract live in the separate 08-wasm Go module with its own application; they are out of reach of this harness and are not covered")
	c.Assume("authority = gov module account as wired by testing/simapp; consensus-params authority override (sdk.ValidateAuthority) is unset")
	c.Assume("one message per transaction delivered as baseapp does minus ante handlers; a failed handler's writes are discarded by the transaction branch, so 'rejected => stores byte-identical' is checked on the committed result of the transaction")
	c.Assume("counterparty chain, proofs and headers are produced by the harness (real IAVL proofs, real signed headers verified by the unmodified 07-tendermint client), so every cell's message is valid except possibly for its signer")
	c.Assume("v2 packets addressed to an aliased v1 channel id are outside the matrix: the statement scopes the relayer allow list to a client, and the handlers look the allow list up under the packet's channel-id alias, not under the underlying client (reported separately)")
}
