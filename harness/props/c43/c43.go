// Package c43 checks property C43: packet forwarding (packet-forward-middleware on top of ICS-20)
// is all-or-nothing and conserves tokens, by explicit-state exploration (engine K) of the real
// transfer stack (rate limiting -> packet forward -> transfer) of real SimApp chains in a line.
package c43

import (
	"crypto/sha256"
	"encoding/binary"
	"encoding/hex"
	"encoding/json"
	"fmt"
	"math/big"
	"os"
	"sort"
	"strconv"
	"strings"
	"sync"
	"time"

	sdk "github.com/cosmos/cosmos-sdk/types"
	sdkaddress "github.com/cosmos/cosmos-sdk/types/address"
	authtypes "github.com/cosmos/cosmos-sdk/x/auth/types"
	distrtypes "github.com/cosmos/cosmos-sdk/x/distribution/types"
	minttypes "github.com/cosmos/cosmos-sdk/x/mint/types"

	abci "github.com/cometbft/cometbft/abci/types"

	transfertypes "github.com/cosmos/ibc-go/v11/modules/apps/transfer/types"
	clienttypes "github.com/cosmos/ibc-go/v11/modules/core/02-client/types"
	channeltypes "github.com/cosmos/ibc-go/v11/modules/core/04-channel/types"
	ibctesting "github.com/cosmos/ibc-go/v11/testing"
	ibcmock "github.com/cosmos/ibc-go/v11/testing/mock"

	"verif/harness/core"
	"verif/harness/ksim"
)

func init() { core.Register("C43", "model_checking", run) }

const (
	port = transfertypes.PortID
	// pfmModule is the (misspelt) module name the middleware derives the intermediate account from.
	pfmModule = "packetfowardmiddleware"
	maxChains = 4
)

// Receiver kinds of a transfer.
const (
	rcvUser    = 0
	rcvBlocked = 1 // blocked module account of the final chain: the last hop answers with an error acknowledgement
)

// route is the list of chains a forwarded transfer visits (Chains[0] = 0 is the origin).
type route struct {
	Name   string
	Chains []int
}

// variant is the part of a transfer that is not the token or the route.
type variant struct {
	Rcv     int
	Retries int // -1 = no "retries" in the memo (middleware default, 0 in the test app)
	TmoS    int // forward timeout in seconds put in the memo; 0 = absent (middleware default, 10 min)
	P1Tmo   int // timestamp timeout of the first packet in seconds after the sender's clock; 0 = far height timeout only
}

func (v variant) String() string {
	r := "user"
	if v.Rcv == rcvBlocked {
		r = "blocked"
	}
	return fmt.Sprintf("rcv=%s,retries=%d,timeout=%ds,p1timeout=%ds", r, v.Retries, v.TmoS, v.P1Tmo)
}

// amounts of the first, second, ... transfer of a history.
var amounts = []int64{3, 2, 1}

// FW is the forwarding scenario.
type FW struct {
	ksim.Base
	N        int
	Kinds    []int // token kinds offered: k = the token native to chain k, held by the sender on chain 0
	Routes   []route
	Variants []variant
	MaxXfers int
	Toggles  int   // how many receive-switch flips (transfer MsgUpdateParams by the authority) a history may contain
	ToggleOn []int // chains whose receive switch may be flipped
	Syncs    int   // bare sync(chain) steps a history may contain (deviation budget)
	Prims    bool  // primitive recv / ack / timeout (latest consensus height, no sync) for every packet ever sent, always enabled
	Stale    bool  // primitives may also be proven at the second-newest consensus height of the client
	Micro    bool  // primitive commit / update instead of the macro relays
	Commits  int   // micro: commits per chain
	CommitOn []int // micro: chains that may commit (nil = all)
	Burst    bool  // all transfers are submitted before anything else happens
	StepOf   []time.Duration
	Prefix   []ksim.Op

	C *core.C

	links []linkInfo
	base  *baseline
}

type linkInfo struct {
	L  *ksim.Link
	Ch *ksim.ChanPair
}

var initMu sync.Mutex

func (s *FW) Chains() int { return s.N }

func (s *FW) Stores() []string { return append(append([]string{}, ksim.AllStores...), "bank") }

// ---- accounts -------------------------------------------------------------------------------------

func seedAddr(name string) sdk.AccAddress {
	h := sha256.Sum256([]byte("verif/c43/" + name))
	return sdk.AccAddress(h[:20])
}

func userAddr(chain int) sdk.AccAddress { return seedAddr(fmt.Sprintf("user/%d", chain)) }
func rcvAddr(chain int) sdk.AccAddress  { return seedAddr(fmt.Sprintf("receiver/%d", chain)) }

var (
	blockedAddr = authtypes.NewModuleAddress(distrtypes.ModuleName)
	moduleAddr  = authtypes.NewModuleAddress(transfertypes.ModuleName)
	chanIDs     = []string{"channel-0", "channel-1"}
)

// overrideRef is the reference derivation of the intermediate ("override") receiver of a forwarded
// packet: the first 20 bytes of the ADR-028 hash of "<receiving channel>/<sender>" under the module name.
func overrideRef(channel, sender string) sdk.AccAddress {
	return sdk.AccAddress(sdkaddress.Hash(pfmModule, []byte(channel+"/"+sender))[:20])
}

// tracked maps raw address bytes to a readable name: users and receivers of every chain, the blocked
// module account, the transfer module account, all escrow accounts and every possible intermediate
// account (two levels deep) of forwards originated by the user of chain 0.
var tracked = func() map[string]string {
	m := map[string]string{}
	for c := 0; c < maxChains; c++ {
		m[string(userAddr(c))] = fmt.Sprintf("user@%d", c)
		m[string(rcvAddr(c))] = fmt.Sprintf("receiver@%d", c)
	}
	m[string(blockedAddr)] = "blocked(distribution)"
	m[string(moduleAddr)] = "transfer-module"
	for _, id := range chanIDs {
		m[string(transfertypes.GetEscrowAddress(port, id))] = "escrow(" + id + ")"
	}
	level := []sdk.AccAddress{userAddr(0)}
	for depth := 1; depth <= maxChains-2; depth++ {
		var next []sdk.AccAddress
		for _, a := range level {
			for _, id := range chanIDs {
				o := overrideRef(id, a.String())
				m[string(o)] = fmt.Sprintf("intermediate%d(%s)", depth, id)
				next = append(next, o)
			}
		}
		level = next
	}
	return m
}()

func isIntermediate(name string) bool { return strings.HasPrefix(name, "intermediate") }

// trackedList is tracked in a fixed order.
var trackedList = func() []string {
	var out []string
	for a := range tracked {
		out = append(out, a)
	}
	sort.Strings(out)
	return out
}()

func (s *FW) Filter(store string, key []byte) bool {
	if store != "bank" {
		return true
	}
	if len(key) == 0 {
		return false
	}
	switch key[0] {
	case 0, 1: // supply, denomination metadata
		return true
	case 2:
		a, _, ok := splitBalanceKey(key)
		if !ok {
			return false
		}
		_, t := tracked[string(a)]
		return t
	}
	return false
}

func splitBalanceKey(key []byte) (addr []byte, denom string, ok bool) {
	if len(key) < 2 || key[0] != 2 {
		return nil, "", false
	}
	l := int(key[1])
	if len(key) < 2+l {
		return nil, "", false
	}
	return key[2 : 2+l], string(key[2+l:]), true
}

// ---- topology and denominations -------------------------------------------------------------------

// chanOn is the channel identifier chain c uses towards its neighbour `to`.
func (s *FW) chanOn(c, to int) string {
	if to == c+1 {
		return s.links[c].Ch.ChanA
	}
	if to == c-1 {
		return s.links[to].Ch.ChanB
	}
	panic(fmt.Sprintf("c43: chains %d and %d are not neighbours", c, to))
}

// clientOn is the client chain c holds of its neighbour `of`.
func (s *FW) clientOn(c, of int) string {
	if of == c+1 {
		return s.links[c].L.ClientA
	}
	return s.links[of].L.ClientB
}

// neighbourBy resolves the chain at the other end of channel id of chain c.
func (s *FW) neighbourBy(c int, id string) int {
	for _, n := range []int{c - 1, c + 1} {
		if n >= 0 && n < s.N && s.chanOn(c, n) == id {
			return n
		}
	}
	return -1
}

func native(k int) string { return "tok" + string(rune('a'+k)) }

// pathOf is the reference rendering of the full denomination path of token k on chain j: the
// token travelled from its home chain k to j hop by hop, every receiving chain prepending its own
// port and channel.
func (s *FW) pathOf(k, j int) string {
	p := native(k)
	c := k
	for c != j {
		n := c + 1
		if j < c {
			n = c - 1
		}
		p = port + "/" + s.chanOn(n, c) + "/" + p
		c = n
	}
	return p
}

// bankDenomOfPath is the reference rendering of ADR-001.
func bankDenomOfPath(path string) string {
	if !strings.Contains(path, "/") {
		return path
	}
	h := sha256.Sum256([]byte(path))
	return "ibc/" + strings.ToUpper(hex.EncodeToString(h[:]))
}

func (s *FW) bankDenom(k, j int) string { return bankDenomOfPath(s.pathOf(k, j)) }

// tokenOfPath finds the token whose path on chain j is p (-1 if none).
func (s *FW) tokenOfPath(p string, j int) int {
	for k := 0; k < s.N; k++ {
		if s.pathOf(k, j) == p {
			return k
		}
	}
	return -1
}

// ---- bookkeeping ----------------------------------------------------------------------------------

type pkt struct {
	Src, Dst int
	P        channeltypes.Packet
	Ack      []byte // acknowledgement written on Dst (from the write_acknowledgement event), nil if none yet
	Stuck    bool   // a productive macro relay of this packet was rejected (reported; stops further macro relays)
}

type xfer struct {
	Kind, Route, Variant int
	Amt                  int64
}

type ext struct {
	Pkts    []pkt
	Xfers   []xfer
	Toggled int
	Synced  int
	Started bool // an operation other than xfer happened
	Commits []int
}

func (e *ext) Clone() ksim.Ext {
	n := &ext{Toggled: e.Toggled, Synced: e.Synced, Started: e.Started}
	n.Pkts = append([]pkt{}, e.Pkts...)
	n.Xfers = append([]xfer{}, e.Xfers...)
	n.Commits = append([]int{}, e.Commits...)
	return n
}

func (e *ext) KeyBytes() []byte {
	var out []byte
	for _, p := range e.Pkts {
		out = append(out, byte(p.Src), byte(p.Dst))
		out = binary.BigEndian.AppendUint64(out, p.P.Sequence)
		out = binary.BigEndian.AppendUint64(out, p.P.TimeoutTimestamp)
		h := sha256.Sum256(append(append([]byte{}, p.P.Data...), p.Ack...))
		out = append(out, h[:8]...)
		if p.Stuck {
			out = append(out, 1)
		} else {
			out = append(out, 0)
		}
	}
	out = append(out, 0xff)
	for _, x := range e.Xfers {
		out = append(out, byte(x.Kind), byte(x.Route), byte(x.Variant), byte(x.Amt))
	}
	out = append(out, 0xff, byte(e.Toggled), byte(e.Synced))
	if e.Started {
		out = append(out, 1)
	}
	for _, c := range e.Commits {
		out = append(out, byte(c))
	}
	return out
}

func ex(w *ksim.World) *ext { return w.Ext.(*ext) }

// tokenData is the ICS-20 v1 packet data as the reference reads it.
type tokenData struct {
	Denom    string `json:"denom"`
	Amount   string `json:"amount"`
	Sender   string `json:"sender"`
	Receiver string `json:"receiver"`
	Memo     string `json:"memo"`
}

func parseData(bz []byte) tokenData {
	var d tokenData
	if err := json.Unmarshal(bz, &d); err != nil {
		panic("c43: packet data is not ICS-20 JSON: " + err.Error())
	}
	return d
}

// forwardOf extracts the forward instruction of a memo (nil if there is none).
func forwardOf(memo string) map[string]any {
	if memo == "" {
		return nil
	}
	var m map[string]any
	if err := json.Unmarshal([]byte(memo), &m); err != nil {
		return nil
	}
	f, _ := m["forward"].(map[string]any)
	return f
}

// ---- bank readings --------------------------------------------------------------------------------

func (s *FW) bal(w *ksim.World, c int, a sdk.AccAddress, denom string) *big.Int {
	return w.W.Chains[c].App.BankKeeper.GetBalance(w.CS[c].Ctx, a, denom).Amount.BigInt()
}

func (s *FW) supply(w *ksim.World, c int, denom string) *big.Int {
	return w.W.Chains[c].App.BankKeeper.GetSupply(w.CS[c].Ctx, denom).Amount.BigInt()
}

func (s *FW) totalEscrow(w *ksim.World, c int, denom string) *big.Int {
	return w.W.Chains[c].App.TransferKeeper.GetTotalEscrowForDenom(w.CS[c].Ctx, denom).Amount.BigInt()
}

// denomName renders a bank denomination of chain c readably.
func (s *FW) denomName(c int, denom string) string {
	for k := 0; k < s.N; k++ {
		if s.bankDenom(k, c) == denom {
			return fmt.Sprintf("%s@%d", native(k), c)
		}
	}
	return denom
}

// vector reads every tracked quantity: all balances of the tracked accounts, and supply and tracked
// total escrow of every denomination the reference knows or a tracked account holds.
func (s *FW) vector(w *ksim.World) map[string]*big.Int {
	v := map[string]*big.Int{}
	for c := 0; c < s.N; c++ {
		denoms := map[string]bool{}
		for k := 0; k < s.N; k++ {
			denoms[s.bankDenom(k, c)] = true
		}
		bank := w.W.Chains[c].App.BankKeeper
		for _, a := range trackedList {
			for _, coin := range bank.GetAllBalances(w.CS[c].Ctx, sdk.AccAddress(a)) {
				denoms[coin.Denom] = true
				v[fmt.Sprintf("bal|%d|%s|%s", c, tracked[a], s.denomName(c, coin.Denom))] = coin.Amount.BigInt()
			}
		}
		for d := range denoms {
			if d == sdk.DefaultBondDenom {
				continue
			}
			v[fmt.Sprintf("sup|%d|%s", c, s.denomName(c, d))] = s.supply(w, c, d)
			v[fmt.Sprintf("tot|%d|%s", c, s.denomName(c, d))] = s.totalEscrow(w, c, d)
		}
	}
	for k, x := range v {
		if x.Sign() == 0 {
			delete(v, k)
		}
	}
	return v
}

func addTo(v map[string]*big.Int, key string, d int64) {
	cur, ok := v[key]
	if !ok {
		cur = new(big.Int)
	}
	n := new(big.Int).Add(cur, big.NewInt(d))
	if n.Sign() == 0 {
		delete(v, key)
		return
	}
	v[key] = n
}

// deliver adds to v the reference effect of a delivered forwarded transfer: on every hop away from
// the token's home chain the sending chain escrows and the receiving chain mints, on every hop
// towards home the sending chain burns and the receiving chain releases escrow; the sender pays
// and the final receiver is credited.
func (s *FW) deliver(v map[string]*big.Int, x xfer) {
	r := s.Routes[x.Route].Chains
	k := x.Kind
	dn := func(c int) string { return fmt.Sprintf("%s@%d", native(k), c) }
	addTo(v, fmt.Sprintf("bal|%d|user@%d|%s", r[0], r[0], dn(r[0])), -x.Amt)
	for i := 0; i+1 < len(r); i++ {
		a, b := r[i], r[i+1]
		if abs(b-k) > abs(a-k) { // away from home
			addTo(v, fmt.Sprintf("bal|%d|escrow(%s)|%s", a, s.chanOn(a, b), dn(a)), x.Amt)
			addTo(v, fmt.Sprintf("tot|%d|%s", a, dn(a)), x.Amt)
			addTo(v, fmt.Sprintf("sup|%d|%s", b, dn(b)), x.Amt)
		} else {
			addTo(v, fmt.Sprintf("sup|%d|%s", a, dn(a)), -x.Amt)
			addTo(v, fmt.Sprintf("bal|%d|escrow(%s)|%s", b, s.chanOn(b, a), dn(b)), -x.Amt)
			addTo(v, fmt.Sprintf("tot|%d|%s", b, dn(b)), -x.Amt)
		}
	}
	last := r[len(r)-1]
	if s.Variants[x.Variant].Rcv == rcvUser {
		addTo(v, fmt.Sprintf("bal|%d|receiver@%d|%s", last, last, dn(last)), x.Amt)
	} else {
		addTo(v, fmt.Sprintf("bal|%d|blocked(distribution)|%s", last, dn(last)), x.Amt)
	}
}

func sortedKeys(m map[string]*big.Int) []string {
	out := make([]string, 0, len(m))
	for k := range m {
		out = append(out, k)
	}
	sort.Strings(out)
	return out
}

func contains(l []int, x int) bool {
	for _, y := range l {
		if y == x {
			return true
		}
	}
	return false
}

func abs(x int) int {
	if x < 0 {
		return -x
	}
	return x
}

// baseline is the immutable reference data recorded at the end of Init.
type baseline struct {
	vec map[string]*big.Int
}

// ---- Init -----------------------------------------------------------------------------------------

func (s *FW) stepOf(c int) time.Duration {
	if c < len(s.StepOf) && s.StepOf[c] > 0 {
		return s.StepOf[c]
	}
	return ksim.BlockStep
}

// syncClient commits chain `of` (dt later) and updates the client chain `on` holds of it; a chain
// whose clock lags so far that the header would look like it is from the future first produces a block.
func (s *FW) syncClient(w *ksim.World, on, of int, dt time.Duration) ksim.Result {
	w.Commit(of, dt)
	s.catchUp(w, on, of)
	return w.UpdateLatest(on, s.clientOn(on, of), of)
}

func (s *FW) catchUp(w *ksim.World, on, of int) {
	if lag := w.CS[of].TimeNs() - w.CS[on].TimeNs(); lag >= int64(ksim.MaxClockDrift) {
		w.Commit(on, time.Duration(lag))
	}
}

func (s *FW) farHeight(w *ksim.World, c int) clienttypes.Height { return w.Height(c, 1_000_000) }

// honestHop moves amt of denom from chain a to its neighbour b with a complete honest relay.
func (s *FW) honestHop(w *ksim.World, a, b int, from, to sdk.AccAddress, denom string, amt int64) {
	r := w.Tx(a, transfertypes.NewMsgTransfer(port, s.chanOn(a, b), sdk.NewInt64Coin(denom, amt), from.String(), to.String(), s.farHeight(w, b), 0, ""))
	ksim.MustOK("c43 init transfer", r)
	p, err := ibctesting.ParseV1PacketFromEvents(r.Events)
	if err != nil {
		panic(err)
	}
	ksim.MustOK("c43 init sync", s.syncClient(w, b, a, ksim.BlockStep))
	r = w.RecvV1(b, a, p, w.ClientLatest(b, s.clientOn(b, a)))
	ksim.MustOK("c43 init recv", r)
	ack, err := ibctesting.ParseAckFromEvents(r.Events)
	if err != nil {
		panic(err)
	}
	ksim.MustOK("c43 init sync back", s.syncClient(w, a, b, ksim.BlockStep))
	ksim.MustOK("c43 init ack", w.AckV1(a, b, p, ack, w.ClientLatest(a, s.clientOn(a, b))))
}

func (s *FW) Init(wk *ksim.Worker) *ksim.World {
	w := wk.Root()
	w.Ext = &ext{Commits: make([]int, s.N)}
	links := make([]linkInfo, s.N-1)
	for i := range links {
		l := w.SetupClients(i, i+1)
		w.SetupConnection(l, 0)
		if i == 0 {
			// asymmetric identifiers on every link: an unfinished mock-port handshake takes channel-0 on chain 0, so
			// that link 0-1 is channel-1 <-> channel-0 (link 1-2 is channel-1 <-> channel-0 by construction)
			ksim.MustOK("offset channel on chain 0", w.Tx(0, channeltypes.NewMsgChannelOpenInit(ibcmock.PortID, ibcmock.Version, channeltypes.UNORDERED, []string{l.ConnA}, ibcmock.PortID, ksim.Signer)))
		}
		ch := w.SetupChannel(l, port, port, transfertypes.V1, channeltypes.UNORDERED)
		links[i] = linkInfo{L: l, Ch: ch}
	}
	initMu.Lock()
	if s.links == nil {
		s.links = links
	} else {
		for i := range links {
			if *links[i].L != *s.links[i].L || *links[i].Ch != *s.links[i].Ch {
				initMu.Unlock()
				panic("c43: workers disagree on path identifiers")
			}
		}
	}
	initMu.Unlock()
	for c := 0; c < s.N; c++ {
		for _, n := range []int{c - 1, c + 1} {
			if n < 0 || n >= s.N {
				continue
			}
			if _, ok := tracked[string(transfertypes.GetEscrowAddress(port, s.chanOn(c, n)))]; !ok {
				panic("c43: unexpected channel identifier " + s.chanOn(c, n))
			}
		}
		if !wk.Chains[c].App.BankKeeper.BlockedAddr(blockedAddr) {
			panic("c43: the distribution module account is not blocked in the test app")
		}
	}
	// funding: the user of chain k owns 100 of the token native to k, then spreads it honestly along
	// the line in both directions (40 to each neighbour, which passes 20 on, which passes 10 on), so
	// that every escrow account, voucher supply and tracked total escrow starts non-zero and the user
	// of chain 0 holds every token (as a native, a one-hop voucher, a two-hop voucher, ...).
	for k := 0; k < s.N; k++ {
		bank := wk.Chains[k].App.BankKeeper
		coins := sdk.NewCoins(sdk.NewInt64Coin(native(k), 100))
		ksim.MustOK("c43 fund", w.Do(k, func(ctx sdk.Context) error {
			if err := bank.MintCoins(ctx, minttypes.ModuleName, coins); err != nil {
				return err
			}
			return bank.SendCoinsFromModuleToAccount(ctx, minttypes.ModuleName, userAddr(k), coins)
		}))
	}
	for k := 0; k < s.N; k++ {
		for _, dir := range []int{1, -1} {
			amt := int64(40)
			for c := k; c+dir >= 0 && c+dir < s.N; c += dir {
				s.honestHop(w, c, c+dir, userAddr(c), userAddr(c+dir), s.bankDenom(k, c), amt)
				amt /= 2
			}
		}
	}
	// equalise the clocks, one common block, every client up to date
	var maxT int64
	for c := range w.CS {
		if t := w.CS[c].TimeNs(); t > maxT {
			maxT = t
		}
	}
	for c := range w.CS {
		if d := maxT - w.CS[c].TimeNs(); d > 0 {
			w.Commit(c, time.Duration(d))
		}
	}
	for c := range w.CS {
		w.Commit(c, ksim.BlockStep)
	}
	for i := range links {
		ksim.MustOK("c43 final update", w.UpdateLatest(i, links[i].L.ClientA, i+1))
		ksim.MustOK("c43 final update", w.UpdateLatest(i+1, links[i].L.ClientB, i))
	}
	w.Obs = nil
	b := &baseline{vec: s.vector(w)}
	initMu.Lock()
	if s.base == nil {
		s.base = b
	} else if d := diffVec(s.base.vec, b.vec); len(d) > 0 {
		initMu.Unlock()
		panic("c43: workers disagree on the initial balances: " + strings.Join(d, "; "))
	}
	initMu.Unlock()
	// self-check of the reference ledger on the root: no packet in flight, so escrow == voucher supply
	if f := s.conservation(w); f != nil {
		panic("c43: conservation reference does not hold on the root world: " + f.Text)
	}
	for _, op := range s.Prefix {
		if r := s.Apply(w, op); r.Class != ksim.OK {
			panic(fmt.Sprintf("c43: prefix op %s failed: %s %v", op, r, r.Err))
		}
	}
	e := ex(w)
	e.Commits = make([]int, s.N)
	e.Toggled, e.Synced, e.Started = 0, 0, false
	return w
}

func diffVec(a, b map[string]*big.Int) []string {
	keys := map[string]bool{}
	for k := range a {
		keys[k] = true
	}
	for k := range b {
		keys[k] = true
	}
	var ks []string
	for k := range keys {
		ks = append(ks, k)
	}
	sort.Strings(ks)
	var out []string
	for _, k := range ks {
		x, y := a[k], b[k]
		if x == nil {
			x = new(big.Int)
		}
		if y == nil {
			y = new(big.Int)
		}
		if x.Cmp(y) != 0 {
			out = append(out, fmt.Sprintf("%s: expected %s, is %s", k, x, y))
		}
	}
	return out
}

// ---- packet state (read from the core stores) ------------------------------------------------------

func (s *FW) hasCommit(w *ksim.World, p pkt) bool {
	return len(w.W.Chains[p.Src].App.IBCKeeper.ChannelKeeper.GetPacketCommitment(w.CS[p.Src].Ctx, p.P.SourcePort, p.P.SourceChannel, p.P.Sequence)) > 0
}

func (s *FW) hasReceipt(w *ksim.World, p pkt) bool {
	_, ok := w.W.Chains[p.Dst].App.IBCKeeper.ChannelKeeper.GetPacketReceipt(w.CS[p.Dst].Ctx, p.P.DestinationPort, p.P.DestinationChannel, p.P.Sequence)
	return ok
}

func (s *FW) ackCommitment(w *ksim.World, p pkt) []byte {
	bz, _ := w.W.Chains[p.Dst].App.IBCKeeper.ChannelKeeper.GetPacketAcknowledgement(w.CS[p.Dst].Ctx, p.P.DestinationPort, p.P.DestinationChannel, p.P.Sequence)
	return bz
}

var successAckCommitment = channeltypes.CommitAcknowledgement(channeltypes.NewResultAcknowledgement([]byte{1}).Acknowledgement())

// inTransit: the tokens of p are neither credited on the destination nor refunded on the source.
func (s *FW) inTransit(w *ksim.World, p pkt) bool {
	if !s.hasCommit(w, p) {
		return false
	}
	if !s.hasReceipt(w, p) {
		return true
	}
	ack := s.ackCommitment(w, p)
	return len(ack) > 0 && string(ack) != string(successAckCommitment)
}

func (s *FW) inFlightRecords(w *ksim.World, c int) int {
	return len(w.W.Chains[c].App.PFMKeeper.ExportGenesis(w.CS[c].Ctx).InFlightPackets)
}

func (s *FW) quiescent(w *ksim.World) bool {
	for _, p := range ex(w).Pkts {
		if s.hasCommit(w, p) {
			return false
		}
	}
	for c := 0; c < s.N; c++ {
		if s.inFlightRecords(w, c) > 0 {
			return false
		}
	}
	return true
}

func (s *FW) rxEnabled(w *ksim.World, c int) bool {
	return w.W.Chains[c].App.TransferKeeper.GetParams(w.CS[c].Ctx).ReceiveEnabled
}

// ---- alphabet -------------------------------------------------------------------------------------

// timeAfterSync is the clock of chain `on` after syncClient(on, of, dt).
func (s *FW) timeAfterSync(w *ksim.World, on, of int, dt time.Duration) int64 {
	tOf := w.CS[of].TimeNs() + int64(dt)
	tOn := w.CS[on].TimeNs()
	if tOf-tOn >= int64(ksim.MaxClockDrift) {
		return tOf
	}
	return tOn
}

// productive lists the honest macro relays that make progress in w.
func (s *FW) productive(w *ksim.World) []ksim.Op {
	var ops []ksim.Op
	for i, p := range ex(w).Pkts {
		if !s.hasCommit(w, p) || p.Stuck {
			continue
		}
		if s.hasReceipt(w, p) {
			if len(s.ackCommitment(w, p)) > 0 {
				ops = append(ops, ksim.Op{K: "ack", A: []int{i}})
			}
			continue
		}
		tt := int64(p.P.TimeoutTimestamp)
		if tt == 0 || s.timeAfterSync(w, p.Dst, p.Src, s.stepOf(p.Src)) < tt {
			ops = append(ops, ksim.Op{K: "relay", A: []int{i}})
		}
		if tt != 0 {
			ops = append(ops, ksim.Op{K: "expire", A: []int{i}})
		}
	}
	return ops
}

func (s *FW) Ops(w *ksim.World) []ksim.Op {
	e := ex(w)
	var ops []ksim.Op
	if len(e.Xfers) < s.MaxXfers && !(s.Burst && e.Started) {
		for _, k := range s.Kinds {
			for ri := range s.Routes {
				for vi := range s.Variants {
					ops = append(ops, ksim.Op{K: "xfer", A: []int{k, ri, vi}})
				}
			}
		}
	}
	if !s.Micro {
		ops = append(ops, s.productive(w)...)
	}
	if e.Toggled < s.Toggles {
		for _, c := range s.ToggleOn {
			ops = append(ops, ksim.Op{K: "rx", A: []int{c}})
		}
	}
	if e.Synced < s.Syncs {
		for c := 0; c < s.N; c++ {
			ops = append(ops, ksim.Op{K: "sync", A: []int{c}})
		}
	}
	if s.Micro {
		for c := 0; c < s.N; c++ {
			if e.Commits[c] < s.Commits && (s.CommitOn == nil || contains(s.CommitOn, c)) {
				ops = append(ops, ksim.Op{K: "commit", A: []int{c}})
			}
		}
		for on := 0; on < s.N; on++ {
			for _, of := range []int{on - 1, on + 1} {
				if of < 0 || of >= s.N {
					continue
				}
				if w.CS[of].H() > int64(w.ClientLatest(on, s.clientOn(on, of)).RevisionHeight) {
					ops = append(ops, ksim.Op{K: "update", A: []int{on, of}})
				}
			}
		}
	}
	if s.Prims || s.Micro {
		for i := range e.Pkts {
			ops = append(ops, ksim.Op{K: "recvP", A: []int{i}}, ksim.Op{K: "ackP", A: []int{i}}, ksim.Op{K: "timeoutP", A: []int{i}})
			if s.Stale { // the same messages proven at the second-newest consensus height the client stores
				ops = append(ops, ksim.Op{K: "recvP", A: []int{i, 1}}, ksim.Op{K: "ackP", A: []int{i, 1}}, ksim.Op{K: "timeoutP", A: []int{i, 1}})
			}
		}
	}
	return ops
}

// memoFor builds the forward memo of a route: one nested "forward" object per intermediate chain.
func (s *FW) memoFor(r route, v variant) string {
	var inner map[string]any
	for i := len(r.Chains) - 2; i >= 1; i-- {
		c, next := r.Chains[i], r.Chains[i+1]
		rcv := userAddr(next).String() // overridden by the next middleware when another forward follows
		if i == len(r.Chains)-2 {
			rcv = rcvAddr(next).String()
			if v.Rcv == rcvBlocked {
				rcv = blockedAddr.String()
			}
		}
		f := map[string]any{"receiver": rcv, "port": port, "channel": s.chanOn(c, next)}
		if v.Retries >= 0 {
			f["retries"] = v.Retries
		}
		if v.TmoS > 0 {
			f["timeout"] = int64(v.TmoS) * int64(time.Second)
		}
		if inner != nil {
			f["next"] = inner
		}
		inner = map[string]any{"forward": f}
	}
	bz, err := json.Marshal(inner)
	if err != nil {
		panic(err)
	}
	return string(bz)
}

func (s *FW) Apply(w *ksim.World, op ksim.Op) ksim.Result {
	r := s.apply(w, op)
	if op.K != "xfer" {
		ex(w).Started = true
	}
	switch op.K {
	case "relay", "ack", "expire":
		if r.Class == ksim.ERR || r.Class == ksim.PANIC {
			ex(w).Pkts[op.A[0]].Stuck = true // reported by Step; no further macro relays of this packet
		}
	}
	return r
}

func (s *FW) apply(w *ksim.World, op ksim.Op) ksim.Result {
	e := ex(w)
	switch op.K {
	case "xfer":
		k, r, v := op.A[0], s.Routes[op.A[1]], s.Variants[op.A[2]]
		amt := amounts[len(e.Xfers)]
		var tts uint64
		if v.P1Tmo > 0 {
			tts = uint64(w.CS[0].TimeNs() + int64(v.P1Tmo)*int64(time.Second))
		}
		msg := transfertypes.NewMsgTransfer(port, s.chanOn(0, r.Chains[1]), sdk.NewInt64Coin(s.bankDenom(k, 0), amt), userAddr(0).String(),
			userAddr(r.Chains[1]).String(), s.farHeight(w, r.Chains[1]), tts, s.memoFor(r, v))
		res := w.Tx(0, msg)
		if res.Class == ksim.OK {
			e.Xfers = append(e.Xfers, xfer{Kind: k, Route: op.A[1], Variant: op.A[2], Amt: amt})
			s.observe(w, 0, res.Events)
		}
		return res
	case "relay":
		p := e.Pkts[op.A[0]]
		if r := s.syncClient(w, p.Dst, p.Src, s.stepOf(p.Src)); r.Class != ksim.OK {
			return r
		}
		return s.recv(w, op.A[0], false)
	case "ack":
		p := e.Pkts[op.A[0]]
		if r := s.syncClient(w, p.Src, p.Dst, s.stepOf(p.Dst)); r.Class != ksim.OK {
			return r
		}
		return s.ack(w, op.A[0], false)
	case "expire":
		p := e.Pkts[op.A[0]]
		dt := time.Duration(int64(p.P.TimeoutTimestamp) - w.CS[p.Dst].TimeNs())
		if dt < s.stepOf(p.Dst) {
			dt = s.stepOf(p.Dst)
		}
		if r := s.syncClient(w, p.Src, p.Dst, dt); r.Class != ksim.OK {
			return r
		}
		return s.timeout(w, op.A[0], false)
	case "recvP":
		return s.recv(w, op.A[0], len(op.A) > 1)
	case "ackP":
		return s.ack(w, op.A[0], len(op.A) > 1)
	case "timeoutP":
		return s.timeout(w, op.A[0], len(op.A) > 1)
	case "rx":
		c := op.A[0]
		e.Toggled++
		k := w.W.Chains[c].App.TransferKeeper
		cur := k.GetParams(w.CS[c].Ctx)
		return w.Tx(c, transfertypes.NewMsgUpdateParams(k.GetAuthority(), transfertypes.NewParams(cur.SendEnabled, !cur.ReceiveEnabled)))
	case "sync":
		c := op.A[0]
		e.Synced++
		w.Commit(c, s.stepOf(c))
		for _, n := range []int{c - 1, c + 1} {
			if n < 0 || n >= s.N {
				continue
			}
			s.catchUp(w, n, c)
			if r := w.UpdateLatest(n, s.clientOn(n, c), c); r.Class != ksim.OK {
				return r
			}
		}
		return ksim.Result{Class: ksim.OK}
	case "commit":
		e.Commits[op.A[0]]++
		w.Commit(op.A[0], s.stepOf(op.A[0]))
		return ksim.Result{Class: ksim.OK}
	case "update":
		return w.UpdateLatest(op.A[0], s.clientOn(op.A[0], op.A[1]), op.A[1])
	}
	panic("c43: unknown op " + op.K)
}

// proofHeight is the consensus height a relay to chain `on` about chain `of` is proven at: the
// client's latest height, or (stale) the second-newest height it stores.
func (s *FW) proofHeight(w *ksim.World, on, of int, stale bool) (clienttypes.Height, bool) {
	cid := s.clientOn(on, of)
	if !stale {
		return w.ClientLatest(on, cid), true
	}
	hs := w.ConsensusHeights(on, cid)
	if len(hs) < 2 {
		return clienttypes.Height{}, false
	}
	return hs[len(hs)-2], true
}

var noStale = ksim.Result{Class: ksim.ERR, Code: "harness/no-older-consensus-state"}

func (s *FW) recv(w *ksim.World, i int, stale bool) ksim.Result {
	p := ex(w).Pkts[i]
	ph, ok := s.proofHeight(w, p.Dst, p.Src, stale)
	if !ok {
		return noStale
	}
	r := w.RecvV1(p.Dst, p.Src, p.P, ph)
	if r.Class == ksim.OK {
		s.observe(w, p.Dst, r.Events)
	}
	return r
}

func (s *FW) ack(w *ksim.World, i int, stale bool) ksim.Result {
	p := ex(w).Pkts[i]
	ph, ok := s.proofHeight(w, p.Src, p.Dst, stale)
	if !ok {
		return noStale
	}
	ack := p.Ack
	if ack == nil {
		ack = channeltypes.NewResultAcknowledgement([]byte{1}).Acknowledgement() // premature: nothing was written yet
	}
	r := w.AckV1(p.Src, p.Dst, p.P, ack, ph)
	if r.Class == ksim.OK {
		s.observe(w, p.Src, r.Events)
	}
	return r
}

func (s *FW) timeout(w *ksim.World, i int, stale bool) ksim.Result {
	p := ex(w).Pkts[i]
	ph, ok := s.proofHeight(w, p.Src, p.Dst, stale)
	if !ok {
		return noStale
	}
	r := w.TimeoutV1(p.Src, p.Dst, p.P, channeltypes.UNORDERED, ph)
	if r.Class == ksim.OK {
		s.observe(w, p.Src, r.Events)
	}
	return r
}

// observe records the packets sent and the acknowledgements written by a committed transaction of chain c.
func (s *FW) observe(w *ksim.World, c int, evs []abci.Event) {
	e := ex(w)
	if sent, err := ibctesting.ParseIBCV1Packets(channeltypes.EventTypeSendPacket, evs); err == nil {
		for _, p := range sent {
			dst := s.neighbourBy(c, p.SourceChannel)
			if p.SourcePort != port || dst < 0 {
				panic(fmt.Sprintf("c43: packet sent on unknown channel %s/%s of chain %d", p.SourcePort, p.SourceChannel, c))
			}
			dup := false
			for _, q := range e.Pkts {
				if q.Src == c && q.P.SourceChannel == p.SourceChannel && q.P.Sequence == p.Sequence {
					dup = true
				}
			}
			if !dup {
				e.Pkts = append(e.Pkts, pkt{Src: c, Dst: dst, P: p})
			}
		}
	}
	for _, ev := range evs {
		if ev.Type != channeltypes.EventTypeWriteAck {
			continue
		}
		var seq uint64
		var dstChan, ackHex string
		for _, a := range ev.Attributes {
			switch a.Key {
			case channeltypes.AttributeKeySequence:
				seq, _ = strconv.ParseUint(a.Value, 10, 64)
			case channeltypes.AttributeKeyDstChannel:
				dstChan = a.Value
			case channeltypes.AttributeKeyAckHex:
				ackHex = a.Value
			}
		}
		bz, err := hex.DecodeString(ackHex)
		if err != nil {
			panic(err)
		}
		for i := range e.Pkts {
			if q := e.Pkts[i]; q.Dst == c && q.P.DestinationChannel == dstChan && q.P.Sequence == seq {
				e.Pkts[i].Ack = bz
			}
		}
	}
}

// ---- oracles --------------------------------------------------------------------------------------

func (s *FW) hist(name, bucket string) {
	if s.C != nil {
		s.C.Hist(name, bucket)
	}
}

// routesOf names the routes of the transfers of a history (distinct, in order of first use).
func (s *FW) routesOf(e *ext) string {
	var names []string
	for _, x := range e.Xfers {
		n := s.Routes[x.Route].Name
		dup := false
		for _, m := range names {
			dup = dup || m == n
		}
		if !dup {
			names = append(names, n)
		}
	}
	if len(names) == 0 {
		return "no-transfer"
	}
	return strings.Join(names, "+")
}

func (s *FW) kindName(x xfer) string {
	return fmt.Sprintf("%s/%s", native(x.Kind), s.Routes[x.Route].Name)
}

// conservation is the all-states oracle: for every token and every link, the escrow on the side
// nearer to the token's home equals the voucher supply on the other side plus the amounts in
// transit on that link (either direction), and the native supply on the home chain is constant.
func (s *FW) conservation(w *ksim.World) *ksim.Fail {
	e := ex(w)
	for k := 0; k < s.N; k++ {
		if s.base != nil {
			key := fmt.Sprintf("sup|%d|%s@%d", k, native(k), k)
			want := s.base.vec[key]
			if got := s.supply(w, k, native(k)); want != nil && got.Cmp(want) != 0 {
				return &ksim.Fail{Key: "conservation/native-supply/" + native(k), Text: fmt.Sprintf("supply of %s on its home chain %d is %s, was %s", native(k), k, got, want)}
			}
		}
		for l := 0; l+1 < s.N; l++ {
			src, snk := l, l+1
			if k > l {
				src, snk = l+1, l
			}
			esc := s.bal(w, src, transfertypes.GetEscrowAddress(port, s.chanOn(src, snk)), s.bankDenom(k, src))
			sup := s.supply(w, snk, s.bankDenom(k, snk))
			transit := new(big.Int)
			var moving []string
			for _, p := range e.Pkts {
				if min(p.Src, p.Dst) != l {
					continue
				}
				d := parseData(p.P.Data)
				if d.Denom != s.pathOf(k, p.Src) || !s.inTransit(w, p) {
					continue
				}
				amt, ok := new(big.Int).SetString(d.Amount, 10)
				if !ok {
					panic("c43: bad amount " + d.Amount)
				}
				transit.Add(transit, amt)
				moving = append(moving, fmt.Sprintf("%d->%d #%d", p.Src, p.Dst, p.P.Sequence))
			}
			if esc.Cmp(new(big.Int).Add(sup, transit)) != 0 {
				return &ksim.Fail{
					Key: fmt.Sprintf("conservation/%s/link%d-%d/%s", native(k), l, l+1, s.routesOf(e)),
					Text: fmt.Sprintf("token %s on link %d-%d: escrow on chain %d (%s) holds %s, voucher supply on chain %d is %s, in transit %s %v",
						native(k), l, l+1, src, s.chanOn(src, snk), esc, snk, sup, transit, moving),
				}
			}
		}
	}
	return nil
}

func (s *FW) Invariant(w *ksim.World) *ksim.Fail {
	if f := s.conservation(w); f != nil {
		return f
	}
	e := ex(w)
	if !s.quiescent(w) {
		if !s.Micro && len(s.productive(w)) == 0 {
			var open []string
			for _, p := range e.Pkts {
				if s.hasCommit(w, p) {
					open = append(open, fmt.Sprintf("%d->%d #%d", p.Src, p.Dst, p.P.Sequence))
				}
			}
			return &ksim.Fail{Key: "stuck-transfer/" + s.routesOf(e), Text: fmt.Sprintf("packets %v are still committed (or forward records remain) but no receive, acknowledgement or timeout can make progress: the transfer can reach neither outcome", open)}
		}
		return nil
	}
	got := s.vector(w)
	// intermediate accounts hold nothing
	for _, k := range sortedKeys(got) {
		if strings.HasPrefix(k, "bal|") && isIntermediate(strings.Split(k, "|")[2]) {
			return &ksim.Fail{Key: "intermediate-account-keeps-funds/" + s.routesOf(e), Text: fmt.Sprintf("quiescent state: %s = %s", k, got[k])}
		}
	}
	// all-or-nothing: some assignment of {refunded, delivered} to the transfers explains every user balance
	n := len(e.Xfers)
	isUser := func(k string) bool {
		if !strings.HasPrefix(k, "bal|") {
			return false
		}
		who := strings.Split(k, "|")[2]
		return strings.HasPrefix(who, "user@") || strings.HasPrefix(who, "receiver@") || strings.HasPrefix(who, "blocked")
	}
	filter := func(v map[string]*big.Int) map[string]*big.Int {
		o := map[string]*big.Int{}
		for k, x := range v {
			if isUser(k) {
				o[k] = x
			}
		}
		return o
	}
	gotUsers := filter(got)
	found := -1
	var want map[string]*big.Int
	for mask := 0; mask < 1<<n; mask++ {
		cand := map[string]*big.Int{}
		for k, x := range s.base.vec {
			cand[k] = x
		}
		for i, x := range e.Xfers {
			if mask&(1<<i) != 0 {
				s.deliver(cand, x)
			}
		}
		if len(diffVec(filter(cand), gotUsers)) == 0 {
			found, want = mask, cand
			break
		}
	}
	if found < 0 {
		kinds := make([]string, n)
		for i, x := range e.Xfers {
			kinds[i] = s.kindName(x)
		}
		return &ksim.Fail{Key: "not-all-or-nothing/" + strings.Join(kinds, "+"), Text: fmt.Sprintf("quiescent state: the user balances are explained neither by delivery nor by a full refund of each transfer; differences from the initial snapshot: %v", diffVec(filter(s.base.vec), gotUsers))}
	}
	for i, x := range e.Xfers {
		o := "refunded"
		if found&(1<<i) != 0 {
			o = "delivered"
		}
		s.hist("quiescent_outcomes", s.kindName(x)+":"+o)
	}
	if d := diffVec(want, got); len(d) > 0 {
		what := "refund-case"
		if found != 0 {
			what = "delivered-case"
		}
		// name the first differing quantity class and chain for a stable key
		f := strings.Split(strings.SplitN(d[0], ":", 2)[0], "|")
		class := map[string]string{"bal": "escrow-balance", "sup": "voucher-supply", "tot": "total-escrow"}[f[0]]
		return &ksim.Fail{Key: fmt.Sprintf("%s/%s/chain%s/%s", what, class, f[1], s.kindName(e.Xfers[0])), Text: fmt.Sprintf("quiescent state (%d of %d transfers delivered): %s", popcount(found), n, strings.Join(d, "; "))}
	}
	return nil
}

func popcount(x int) int {
	n := 0
	for ; x != 0; x &= x - 1 {
		n++
	}
	return n
}

// bankDenomsTouched lists the denominations whose balances or supply differ between pre and post on chain c.
func bankDenomsTouched(pre, post *ksim.World, c int) []string {
	set := map[string]bool{}
	for _, k := range ksim.DiffStores(pre.DumpStores(c, []string{"bank"}), post.DumpStores(c, []string{"bank"})) {
		key := []byte(strings.TrimPrefix(k, "bank/"))
		if len(key) == 0 {
			continue
		}
		switch key[0] {
		case 0:
			set[string(key[1:])] = true
		case 2:
			if _, d, ok := splitBalanceKey(key); ok {
				set[d] = true
			}
		}
	}
	var out []string
	for d := range set {
		out = append(out, d)
	}
	sort.Strings(out)
	return out
}

func (s *FW) Step(pre *ksim.World, op ksim.Op, r ksim.Result, post *ksim.World) *ksim.Fail {
	switch op.K {
	case "relay", "ack", "expire":
		if r.Class == ksim.ERR || r.Class == ksim.PANIC {
			p := ex(pre).Pkts[op.A[0]]
			return &ksim.Fail{Key: fmt.Sprintf("honest-relay-rejected/%s@%d", op.K, map[string]int{"relay": p.Dst, "ack": p.Src, "expire": p.Src}[op.K]),
				Text: fmt.Sprintf("%s of packet %d->%d #%d with a fresh proof was rejected: %s %v", op.K, p.Src, p.Dst, p.P.Sequence, r, r.Err)}
		}
	}
	if (op.K != "relay" && op.K != "recvP") || r.Class != ksim.OK {
		return nil
	}
	// a receive reached the application
	p := ex(pre).Pkts[op.A[0]]
	d := parseData(p.P.Data)
	fwd := forwardOf(d.Memo)
	if fwd == nil {
		return nil
	}
	c := p.Dst
	newPkts := ex(post).Pkts[len(ex(pre).Pkts):]
	ackWritten := len(s.ackCommitment(post, p)) > 0
	touched := bankDenomsTouched(pre, post, c)
	// the denomination ICS-20 credits on this chain (reference rule, written independently)
	refPath := ""
	if pfx := p.P.SourcePort + "/" + p.P.SourceChannel + "/"; strings.HasPrefix(d.Denom, pfx) {
		refPath = strings.TrimPrefix(d.Denom, pfx)
	} else {
		refPath = p.P.DestinationPort + "/" + p.P.DestinationChannel + "/" + d.Denom
	}
	refBank := bankDenomOfPath(refPath)
	tag := fmt.Sprintf("%s@%d", native(max(s.tokenOfPath(d.Denom, p.Src), 0)), c)
	if !s.rxEnabled(pre, c) {
		s.hist("intermediate_receives", tag+":receive-disabled")
		if !ackWritten || string(s.ackCommitment(post, p)) == string(successAckCommitment) || len(newPkts) != 0 || len(touched) != 0 {
			return &ksim.Fail{Key: "failed-intermediate-receive-had-effect/" + tag, Text: fmt.Sprintf("receive of %d->%d #%d with receiving disabled: error ack written=%v, new packets=%d, bank denominations changed %v", p.Src, p.Dst, p.P.Sequence, ackWritten, len(newPkts), touched)}
		}
		return nil
	}
	if len(newPkts) != 1 || ackWritten {
		s.hist("intermediate_receives", tag+":not-forwarded")
		return &ksim.Fail{Key: "forward-not-sent/" + tag, Text: fmt.Sprintf("receive of %d->%d #%d (denomination %s, credited here as %s) with a valid forward instruction and no fault on chain %d sent %d packets and wrote an acknowledgement=%v; bank denominations changed: %v",
			p.Src, p.Dst, p.P.Sequence, d.Denom, refPath, c, len(newPkts), ackWritten, touched)}
	}
	s.hist("intermediate_receives", tag+":forwarded")
	np := newPkts[0]
	nd := parseData(np.P.Data)
	wantChan, _ := fwd["channel"].(string)
	wantRcv, _ := fwd["receiver"].(string)
	wantSender := overrideRef(p.P.DestinationChannel, d.Sender).String()
	if nd.Denom != refPath {
		return &ksim.Fail{Key: "forwarded-denom-differs/" + tag, Text: fmt.Sprintf("chain %d was credited %s by ICS-20 but forwarded %s", c, refPath, nd.Denom)}
	}
	for _, t := range touched {
		if t != refBank {
			return &ksim.Fail{Key: "forward-touched-other-denom/" + tag, Text: fmt.Sprintf("receive-and-forward on chain %d of %s changed balances or supply of %s (all changed: %v)", c, refBank, t, touched)}
		}
	}
	if nd.Amount != d.Amount || nd.Receiver != wantRcv || nd.Sender != wantSender || np.Src != c || np.P.SourceChannel != wantChan {
		return &ksim.Fail{Key: "forwarded-packet-differs/" + tag, Text: fmt.Sprintf("forwarded packet %+v on %s differs from the instruction (amount %s, receiver %s, sender %s, channel %s)", nd, np.P.SourceChannel, d.Amount, wantRcv, wantSender, wantChan)}
	}
	return nil
}

// ---- parts ----------------------------------------------------------------------------------------

// describe renders the alphabet and bounds of a part for the evidence.
func (s *FW) describe() string {
	var rs, vs, ks []string
	for _, r := range s.Routes {
		rs = append(rs, r.Name)
	}
	for _, v := range s.Variants {
		vs = append(vs, "("+v.String()+")")
	}
	for _, k := range s.Kinds {
		ks = append(ks, native(k))
	}
	d := fmt.Sprintf("%d chains; <=%d transfers of tokens %v on routes %v with variants %v", s.N, s.MaxXfers, ks, rs, vs)
	if s.Burst {
		d += " submitted back to back before any relay"
	}
	if s.Micro {
		d += fmt.Sprintf("; primitive commit (<=%d per chain, chains %v) / update of any client / recvP / ackP / timeoutP only", s.Commits, s.CommitOn)
	} else {
		d += "; macro relay/ack/expire whenever productive"
	}
	if s.Toggles > 0 {
		d += fmt.Sprintf("; <=%d receive-switch flips on chains %v", s.Toggles, s.ToggleOn)
	}
	if s.Syncs > 0 {
		d += fmt.Sprintf("; <=%d bare syncs of any chain", s.Syncs)
	}
	if s.Prims && !s.Micro {
		d += "; primitive recvP/ackP/timeoutP of every packet always enabled"
	}
	if s.Stale {
		d += "; primitives also with the second-newest consensus height"
	}
	if len(s.Prefix) > 0 {
		d += fmt.Sprintf("; after the honest prefix %v", s.Prefix)
	}
	return d
}

func line(n int) route {
	r := route{Name: "line" + strconv.Itoa(n)}
	for c := 0; c < n; c++ {
		r.Chains = append(r.Chains, c)
	}
	return r
}

var (
	routeABC  = route{Name: "A-B-C", Chains: []int{0, 1, 2}}
	routeABA  = route{Name: "A-B-A", Chains: []int{0, 1, 0}}
	routeABCB = route{Name: "A-B-C-B", Chains: []int{0, 1, 2, 1}}
	routeABCD = route{Name: "A-B-C-D", Chains: []int{0, 1, 2, 3}}
)

// Run executes the packet-forward exploration on behalf of another check (C31 covers the packet-forward
// refund moves of the tracked total escrow with it); violations are reported under the calling check's id.
func Run(c *core.C) { run(c) }

func run(c *core.C) {
	var parts []ksim.Part
	add := func(name string, sc *FW, depth int, share float64) {
		sc.C = c
		parts = append(parts, ksim.Part{Name: name, Sc: sc, Cfg: ksim.Config{MaxDepth: depth}, Share: share})
	}
	allRetries := []variant{{Rcv: rcvUser, Retries: -1}, {Rcv: rcvUser, Retries: 0, TmoS: 30}, {Rcv: rcvUser, Retries: 1, TmoS: 30}, {Rcv: rcvUser, Retries: 2, TmoS: 30},
		{Rcv: rcvBlocked, Retries: 0, TmoS: 30}, {Rcv: rcvBlocked, Retries: 1, TmoS: 30}}
	few := []variant{{Rcv: rcvUser, Retries: 0, TmoS: 30}, {Rcv: rcvUser, Retries: 1, TmoS: 30}}
	p1 := []variant{{Retries: 0, TmoS: 30, P1Tmo: 600}, {Retries: 1, TmoS: 30, P1Tmo: 600}}
	abc := []int{0, 1, 2}
	ackPrefix := []ksim.Op{{K: "xfer", A: []int{1, 0, 0}}, {K: "relay", A: []int{0}}, {K: "relay", A: []int{1}}}
	racePrefix := ackPrefix[:2]
	cStep := []time.Duration{0, 0, 12 * time.Second}
	if c.Quick() {
		add("outcomes", &FW{N: 3, Kinds: abc, Routes: []route{routeABC}, Variants: allRetries, MaxXfers: 1, Toggles: 2, ToggleOn: []int{1, 2}, Prims: true}, 14, 0.3)
		add("first-hop-timeout", &FW{N: 3, Kinds: abc, Routes: []route{routeABC}, Variants: p1[:1], MaxXfers: 1, Toggles: 1, ToggleOn: []int{1, 2}, Prims: true}, 12, 0.1)
		add("bounce", &FW{N: 3, Kinds: abc, Routes: []route{routeABA}, Variants: allRetries, MaxXfers: 1, Toggles: 1, ToggleOn: []int{0, 1}}, 12, 0.15)
		add("deviations", &FW{N: 3, Kinds: abc, Routes: []route{routeABC}, Variants: few, MaxXfers: 1, Syncs: 1, Prims: true}, 12, 0.3)
		add("two-transfers", &FW{N: 3, Kinds: abc, Routes: []route{routeABC}, Variants: few[:1], MaxXfers: 2, Burst: true}, 14, 0.5)
		add("micro-ack-path", &FW{N: 3, Kinds: []int{1}, Routes: []route{routeABC}, Variants: few[:1], MaxXfers: 1, Micro: true, Commits: 2, CommitOn: []int{1, 2}, Prefix: ackPrefix}, 7, 0.5)
		add("micro-timeout-race", &FW{N: 3, Kinds: []int{1}, Routes: []route{routeABC}, Variants: []variant{{Retries: 0, TmoS: 11}}, MaxXfers: 1, Micro: true, Stale: true, Commits: 2, CommitOn: []int{1, 2}, StepOf: cStep, Prefix: racePrefix}, 7, 0)
	} else {
		add("outcomes", &FW{N: 3, Kinds: abc, Routes: []route{routeABC}, Variants: allRetries, MaxXfers: 1, Toggles: 3, ToggleOn: []int{1, 2}, Prims: true, Stale: true}, 16, 0.1)
		add("first-hop-timeout", &FW{N: 3, Kinds: abc, Routes: []route{routeABC}, Variants: p1, MaxXfers: 1, Toggles: 2, ToggleOn: []int{1, 2}, Prims: true}, 14, 0.1)
		add("bounce", &FW{N: 3, Kinds: abc, Routes: []route{routeABA, routeABCB}, Variants: allRetries, MaxXfers: 1, Toggles: 2, ToggleOn: []int{0, 1, 2}, Prims: true}, 16, 0.15)
		add("deviations", &FW{N: 3, Kinds: abc, Routes: []route{routeABC}, Variants: few, MaxXfers: 1, Syncs: 2, Prims: true, Stale: true, Toggles: 1, ToggleOn: []int{2}}, 16, 0.2)
		add("two-transfers", &FW{N: 3, Kinds: abc, Routes: []route{routeABC}, Variants: few, MaxXfers: 2}, 18, 0.3)
		add("two-transfers-faults", &FW{N: 3, Kinds: abc, Routes: []route{routeABC}, Variants: few[:1], MaxXfers: 2, Toggles: 1, ToggleOn: []int{1, 2}}, 16, 0.3)
		add("two-transfers-prims", &FW{N: 3, Kinds: abc, Routes: []route{routeABC}, Variants: few[:1], MaxXfers: 2, Burst: true, Prims: true}, 16, 0.3)
		add("four-chains", &FW{N: 4, Kinds: []int{0, 1, 2, 3}, Routes: []route{routeABCD}, Variants: allRetries, MaxXfers: 1, Toggles: 2, ToggleOn: []int{1, 2, 3}, Prims: true}, 20, 0.5)
		add("micro-ack-path", &FW{N: 3, Kinds: []int{1}, Routes: []route{routeABC}, Variants: few[:1], MaxXfers: 1, Micro: true, Stale: true, Commits: 3, Prefix: ackPrefix}, 9, 0.5)
		add("micro-timeout-race", &FW{N: 3, Kinds: []int{1}, Routes: []route{routeABC}, Variants: []variant{{Retries: 1, TmoS: 11}}, MaxXfers: 1, Micro: true, Stale: true, Commits: 3, StepOf: cStep, Prefix: racePrefix}, 10, 0)
	}
	if only := os.Getenv("C43_ONLY"); only != "" && c.Replay == "" { // development aid: run a subset of the parts
		var sel []ksim.Part
		for _, p := range parts {
			if strings.Contains(","+only+",", ","+p.Name+",") {
				sel = append(sel, p)
			}
		}
		parts = sel
		c.Set("parts_selected", only)
	}
	ksim.RunParts(c, parts, [][]ksim.Op{
		{{K: "xfer", A: []int{1, 0, 1}}, {K: "relay", A: []int{0}}, {K: "relay", A: []int{1}}, {K: "ack", A: []int{1}}, {K: "ack", A: []int{0}}},
		{{K: "xfer", A: []int{2, 0, 2}}, {K: "relay", A: []int{0}}, {K: "expire", A: []int{1}}, {K: "rx", A: []int{2}}, {K: "relay", A: []int{2}}, {K: "ack", A: []int{2}}, {K: "ack", A: []int{0}}},
	})
	c.Set("alphabet", "xfer(token native to A | B (unwinding at B) | C (double unwind), route, receiver in {user, blocked module account}, forward retries in {absent,0,1,2}, forward timeout in {absent (10 min), 30 s}) = real MsgTransfer A->B with a forward memo | relay(p) = commit source + honest client update + MsgRecvPacket | ack(p) = commit destination + update + MsgAcknowledgement | expire(p) = destination clock passes the packet timeout + update + MsgTimeout (macro ops offered whenever they can make progress, for every packet discovered from send_packet events incl. forwarded and retried packets) | rx(chain) = transfer MsgUpdateParams by the authority flipping receive_enabled | sync(chain) = bare commit + client updates (deviation budget) | recvP / ackP / timeoutP = primitive relay messages at the client's latest height for every packet ever sent, always enabled (duplicates, premature and late relays) | commit / update (micro parts only)")
	bounds := map[string]string{}
	for _, p := range parts {
		bounds[p.Name] = p.Sc.(*FW).describe()
	}
	c.Set("part_bounds", bounds)
	c.Set("bounds", "every part enumerates ALL histories over its alphabet (see part_bounds) by breadth-first search with state de-duplication until the frontier is empty (state_space_closed) or the depth bound is reached; "+
		"macro relays (relay/ack/expire) are offered exactly when they can make progress, primitive relays (recvP/ackP/timeoutP: duplicates, premature, late and - where stated - stale-proof relays) are always enabled and unbounded, "+
		"bare syncs (the deviation that lets primitives succeed out of the honest order) and receive-switch flips are bounded per history; quick: <=1 bare sync, <=2 flips, 1 transfer (2 submitted back to back in two-transfers); "+
		"thorough: <=2 bare syncs, <=3 flips, 2 transfers at any time, the routes A-B-C-B and A-B-C-D")
	c.Set("oracles", "all states: per token and link, escrow on the home side == voucher supply on the far side + amounts in transit (commitment present and (no receipt or error ack stored)), native supply constant (big.Int ledger fed from packet data and the core stores); "+
		"no non-quiescent state without an enabled progress step; every honest macro relay accepted; every receive carrying a forward instruction on a chain with receiving enabled sends exactly one packet in the denomination ICS-20 credited there (reference rule), with the instructed channel/receiver/amount, touching no other denomination, and with receiving disabled changes no bank state; "+
		"quiescent states (no commitment of any tracked packet, no in-flight forward record on any chain): intermediate accounts empty; some assignment delivered/refunded per transfer explains all user balances; all escrow balances, voucher supplies and tracked total escrow equal initial snapshot + reference effects of the delivered transfers")
	c.Assume("counterparty consensus, storage commit and validator signing are played by the harness; one message per transaction; sending is never disabled on an intermediate chain (a retry that cannot be sent makes MsgTimeout fail, which is a liveness matter outside the statement)")
}
