// Package c49 checks C49: tokens leave an account only with that account's authorisation. It runs the
// shared token-world scenario (props/tokenworld) with only the authorisation oracle armed.
package c49

import (
	"verif/harness/core"
	"verif/harness/props/c36"
	"verif/harness/props/tokenworld"
)

func init() { core.Register("C49", "model_checking", run) }

func run(c *core.C) {
	tokenworld.Run(c, tokenworld.Arm{C49: true})
	if c.Replay == "" {
		// "... or authorized the signer": grants are covered by the transfer-authorization exploration
		// (MsgGrant / MsgExec(MsgTransfer) through the real authz keeper against a reference ledger),
		// run here under this check's id; its coverage keys are the grant_* / evaluations keys
		exhaustive := !c.Capped()
		c36.Run(c)
		c.Set("exhaustive", exhaustive && !c.Capped())
		c.Set("grants_note", "the evaluations / distinct_nontrivial / rule keys describe the grant exploration (same machinery as C36: a grantee can never move more than the granted limit out of the granter's account); replay of a grant violation: ./run C36 --replay <file>")
	}
	c.Set("oracle", "every transition, on the raw bank store (all accounts): a send message's required signer set (SDK GetMsgV1Signers) must be exactly the submitting account, and for MsgTransfer equal its sender field; only that signer may be debited, by at most the authorised coin, and only the path's escrow account may be credited; a MsgSendPacket whose payload names another account as sender must be rejected without any store change; recv may credit only the packet's receiver and debit only the path's escrow account (returning tokens), ack/timeout may credit only the packet's sender and debit only the path's escrow account; rejected/NOOP relays, block production, client updates and parameter changes move nothing; relays are signed by a neutral address or by an uninvolved user")
}
