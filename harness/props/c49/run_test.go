package c49

import (
	"testing"

	"verif/harness/core"
)

func TestRun(t *testing.T) { core.RunFromEnv(t) }
