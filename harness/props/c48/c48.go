// Package c48 decides C48: every port identifier resolves to at most one application module,
// independent of registration order and of Go map iteration order; the IBC v2 router refuses
// every registration that would make a route or a prefix ambiguous.
//
// v2 (modules/core/api.Router): every sequence of up to 4 (thorough: 5 over the shorter names) registrations over
// {AddRoute, AddPrefixRoute} x {all names of length <= 3 over {a,b}, including the empty name}
// is replayed on a fresh router (panics = refused registration) and compared with a reference
// model that keeps the list of accepted registrations: a registration is ambiguous iff some
// port string would be matched by it and by an accepted one.
// v1 (05-port types.Router + keeper.Route): every subset of up to K route names, registered in
// every order, sealed; Route(port) must equal "exact key, else the smallest (sorted) key that is
// a substring of the port" for every permutation and for 50 repetitions.
package c48

import (
	"fmt"
	"sort"
	"strings"

	portkeeper "github.com/cosmos/ibc-go/v11/modules/core/05-port/keeper"
	porttypes "github.com/cosmos/ibc-go/v11/modules/core/05-port/types"
	"github.com/cosmos/ibc-go/v11/modules/core/api"

	"verif/harness/core"
)

func init() { core.Register("C48", "exploration", run) }

// reg is one registration attempt on the v2 router.
type reg struct {
	Prefix bool   `json:"prefix"`
	Name   string `json:"name"`
}

func (r reg) String() string {
	if r.Prefix {
		return "prefix:" + r.Name
	}
	return "route:" + r.Name
}

// modV2 / modV1 are distinguishable stub modules (the embedded nil interface is never called).
type modV2 struct {
	api.IBCModule
	tag string
}

type modV1 struct {
	porttypes.IBCModule
	tag string
}

// ---- reference model -------------------------------------------------------------------------

func validName(s string) bool {
	if s == "" {
		return false
	}
	for i := 0; i < len(s); i++ {
		ch := s[i]
		if !(ch >= 'a' && ch <= 'z' || ch >= 'A' && ch <= 'Z' || ch >= '0' && ch <= '9') {
			return false
		}
	}
	return true
}

// overlaps reports whether some port string is matched by both registrations.
func overlaps(a, b reg) bool {
	switch {
	case !a.Prefix && !b.Prefix:
		return a.Name == b.Name
	case a.Prefix && b.Prefix:
		return strings.HasPrefix(a.Name, b.Name) || strings.HasPrefix(b.Name, a.Name)
	case a.Prefix:
		return strings.HasPrefix(b.Name, a.Name)
	default:
		return strings.HasPrefix(a.Name, b.Name)
	}
}

func matches(r reg, port string) bool {
	if r.Prefix {
		return strings.HasPrefix(port, r.Name)
	}
	return port == r.Name
}

func setKey(rs []reg) string {
	s := make([]string, len(rs))
	for i, r := range rs {
		s[i] = r.String()
	}
	sort.Strings(s)
	return strings.Join(s, ",")
}

// ---- v2 ---------------------------------------------------------------------------------------

type v2Replay struct {
	Router string `json:"router"`
	Ops    []reg  `json:"ops"`
	Port   string `json:"port,omitempty"`
}

type v2Result struct {
	accepted        []reg
	sig             string // routing table over the port list as resolved by the real router
	refusedAmbig    int
	refusedInvalid  int
	overRefusals    int
	portsWithARoute int
}

// evalV2 replays one registration sequence on a fresh real router and checks it against the model.
func evalV2(c *core.C, seq []reg, ports []string) v2Result {
	var res v2Result
	rtr := api.NewRouter()
	art := func(port string) v2Replay { return v2Replay{Router: "v2", Ops: append([]reg{}, seq...), Port: port} }
	for _, op := range seq {
		var clash *reg
		for i := range res.accepted {
			if overlaps(res.accepted[i], op) {
				clash = &res.accepted[i]
				break
			}
		}
		mod := &modV2{tag: op.String()}
		p := core.Catch(func() {
			if op.Prefix {
				rtr.AddPrefixRoute(op.Name, mod)
			} else {
				rtr.AddRoute(op.Name, mod)
			}
		})
		accepted := p == ""
		switch {
		case accepted && clash != nil:
			c.Violation(fmt.Sprintf("v2/ambiguous-accept/%s+%s", clash, op),
				fmt.Sprintf("v2 router accepted %s although %s is registered: some port is matched by both", op, clash), art(""))
			res.accepted = append(res.accepted, op)
		case accepted && !validName(op.Name):
			c.Violation(fmt.Sprintf("v2/invalid-accept/%s", op), fmt.Sprintf("v2 router accepted the non-alphanumeric name %q", op.Name), art(""))
			res.accepted = append(res.accepted, op)
		case accepted:
			res.accepted = append(res.accepted, op)
		case clash != nil:
			res.refusedAmbig++
		case !validName(op.Name):
			res.refusedInvalid++
		default:
			res.overRefusals++ // refused although unambiguous: not demanded by the property, only counted
		}
	}
	var sb strings.Builder
	for _, port := range ports {
		var want []string
		for _, r := range res.accepted {
			if matches(r, port) {
				want = append(want, r.String())
			}
		}
		if len(want) > 1 {
			c.Violation(fmt.Sprintf("v2/multi-match/%s/port=%s", setKey(res.accepted), port),
				fmt.Sprintf("port %q is matched by %d registered routes %v", port, len(want), want), art(port))
		}
		has := rtr.HasRoute(port)
		got := "-"
		if has {
			// three calls: a prefix map with two matching entries would be visited in varying order
			for rep := 0; rep < 3; rep++ {
				var m api.IBCModule
				if p := core.Catch(func() { m = rtr.Route(port) }); p != "" {
					c.Violation(fmt.Sprintf("v2/route-panic/%s/port=%s", setKey(res.accepted), port),
						fmt.Sprintf("HasRoute(%q) is true but Route panics: %s", port, p), art(port))
					got = "panic"
					break
				}
				tag := "?"
				if mm, ok := m.(*modV2); ok && mm != nil {
					tag = mm.tag
				}
				if rep > 0 && tag != got {
					c.Violation(fmt.Sprintf("v2/unstable/%s/port=%s", setKey(res.accepted), port),
						fmt.Sprintf("Route(%q) returned %s and then %s on the same router", port, got, tag), art(port))
				}
				got = tag
			}
			res.portsWithARoute++
		}
		switch {
		case len(want) == 0 && has:
			c.Violation(fmt.Sprintf("v2/phantom/%s/port=%s", setKey(res.accepted), port),
				fmt.Sprintf("port %q resolves to %s although no registered route matches it", port, got), art(port))
		case len(want) == 1 && got != want[0]:
			c.Violation(fmt.Sprintf("v2/wrong-route/%s/port=%s", setKey(res.accepted), port),
				fmt.Sprintf("port %q resolves to %s, the only matching registration is %s", port, got, want[0]), art(port))
		}
		sb.WriteString(got)
		sb.WriteByte('|')
	}
	res.sig = sb.String()
	return res
}

// runV2 enumerates every sequence of 1..maxLen registrations over names of length <= nameLen.
func runV2(c *core.C, st *stats, label string, nameLen, maxLen, portLen, countFromLen int) {
	names := core.AllStrings([]string{"a", "b"}, nameLen) // includes "" (must be refused)
	var ops []reg
	for _, n := range names {
		ops = append(ops, reg{false, n}, reg{true, n})
	}
	ports := core.AllStrings([]string{"a", "b"}, portLen)
	c.Set(label+"_ops", len(ops))
	c.Set(label+"_max_registrations", maxLen)
	c.Set(label+"_ports", len(ports))
	before := st.v2Seqs
	type first struct {
		sig string
		seq []reg
	}
	bySet := map[string]first{}
	seq := make([]reg, 0, maxLen)
	stop := false
	var rec func()
	rec = func() {
		if stop {
			return
		}
		if len(seq) > 0 {
			r := evalV2(c, seq, ports)
			// shorter sequences of a second pass were already enumerated and counted by the first pass;
			// they are evaluated again only to seed the per-set routing tables
			if len(seq) >= countFromLen {
				st.evals++
				st.v2Seqs++
				c.Add("v2_refused_ambiguous", r.refusedAmbig)
				c.Add("v2_refused_invalid_name", r.refusedInvalid)
				c.Add("v2_refused_but_unambiguous", r.overRefusals)
				if len(r.accepted) >= 2 || r.refusedAmbig > 0 {
					st.nontrivial++
				}
				c.Hist("v2_accepted_per_sequence", fmt.Sprint(len(r.accepted)))
			}
			k := setKey(r.accepted)
			if f, ok := bySet[k]; !ok {
				bySet[k] = first{r.sig, append([]reg{}, seq...)}
			} else if f.sig != r.sig {
				c.Violation("v2/order/"+k, fmt.Sprintf("the set {%s} routes differently when registered as %v and as %v", k, f.seq, seq),
					map[string]any{"router": "v2", "ops": append([]reg{}, seq...), "other_order": f.seq})
			}
			if (st.v2Seqs%4099 == 0 || !st.sampled) && len(r.accepted) >= 2 && r.refusedAmbig > 0 {
				st.sampled = true
				c.Sample(map[string]any{"router": "v2", "ops": fmt.Sprint(seq), "accepted": k, "routing": r.sig})
			}
			st.ticks++
			if st.ticks%2048 == 0 && c.TimeUp() {
				stop = true
				return
			}
		}
		if len(seq) == maxLen {
			return
		}
		for _, op := range ops {
			seq = append(seq, op)
			rec()
			seq = seq[:len(seq)-1]
		}
	}
	rec()
	c.Set(label+"_sequences", st.v2Seqs-before)
	c.Set(label+"_distinct_accepted_sets", len(bySet))
}

// ---- v1 ---------------------------------------------------------------------------------------

type v1Replay struct {
	Router string   `json:"router"`
	Order  []string `json:"order"`
	Port   string   `json:"port"`
}

func refV1(set []string, port string) string {
	sorted := append([]string{}, set...)
	sort.Strings(sorted)
	for _, k := range sorted {
		if k == port {
			return k
		}
	}
	for _, k := range sorted {
		if strings.Contains(port, k) {
			return k
		}
	}
	return "-"
}

// evalV1 registers the names in the given order on a fresh v1 router and resolves every port reps times.
func evalV1(c *core.C, order []string, ports []string, reps int, st *stats) []string {
	rtr := porttypes.NewRouter()
	for _, n := range order {
		if p := core.Catch(func() { rtr.AddRoute(n, &modV1{tag: n}) }); p != "" {
			c.Broken("v1 AddRoute(%q) refused a fresh alphanumeric name: %s", n, p)
			return nil
		}
	}
	rtr.Seal()
	k := portkeeper.NewKeeper()
	k.Router = rtr
	out := make([]string, len(ports))
	set := setOf(order)
	for i, port := range ports {
		want := refV1(order, port)
		for rep := 0; rep < reps; rep++ {
			got := "-"
			if m, ok := k.Route(port); ok {
				got = "?"
				if mm, ok := m.(*modV1); ok && mm != nil {
					got = mm.tag
				}
			}
			st.evals++
			if rep == 0 {
				out[i] = got
			} else if got != out[i] {
				c.Violation(fmt.Sprintf("v1/map-order/%s/port=%s", set, port),
					fmt.Sprintf("Route(%q) returned %s and then %s on the same sealed router {%s}", port, out[i], got, set), v1Replay{"v1", order, port})
				break
			}
			if got != want {
				c.Violation(fmt.Sprintf("v1/route/%s/port=%s", set, port),
					fmt.Sprintf("Route(%q) = %s with routes {%s}; reference (exact key, else first sorted key contained in the port) = %s", port, got, set, want), v1Replay{"v1", order, port})
				break
			}
		}
	}
	return out
}

func setOf(names []string) string {
	s := append([]string{}, names...)
	sort.Strings(s)
	return strings.Join(s, ",")
}

func runV1(c *core.C, st *stats) {
	names := core.AllStrings([]string{"a", "b"}, 3)[1:]
	ports := core.AllStrings([]string{"a", "b"}, 5)
	maxSet := 3
	if !c.Quick() {
		// thorough: upper case sorts before lower case, which makes "first sorted key" differ from registration order more often
		seen := map[string]bool{}
		for _, n := range names {
			seen[n] = true
		}
		for _, n := range core.AllStrings([]string{"a", "b", "A"}, 2)[1:] {
			if !seen[n] {
				names = append(names, n)
			}
		}
		for _, p := range core.AllStrings([]string{"a", "b", "A"}, 4) {
			if strings.Contains(p, "A") {
				ports = append(ports, p)
			}
		}
	}
	sort.Strings(names)
	c.Set("v1_names", len(names))
	c.Set("v1_ports", len(ports))
	c.Set("v1_max_subset", maxSet)
	c.Set("v1_repetitions", 50)
	subsets, routers := 0, 0
	var subset []string
	stop := false
	var rec func(from int)
	rec = func(from int) {
		if stop {
			return
		}
		if len(subset) > 0 {
			subsets++
			var firstTable []string
			var firstOrder []string
			overlapping := false
			for i := range subset {
				for j := range subset {
					if i != j && strings.Contains(subset[i], subset[j]) {
						overlapping = true
					}
				}
			}
			core.Permutations(len(subset), func(p []int) bool {
				order := make([]string, len(p))
				for i, x := range p {
					order[i] = subset[x]
				}
				routers++
				table := evalV1(c, order, ports, 50, st)
				if table == nil {
					return false
				}
				if firstTable == nil {
					firstTable, firstOrder = table, order
					return true
				}
				for i := range table {
					if table[i] != firstTable[i] {
						c.Violation(fmt.Sprintf("v1/order/%s/port=%s", setOf(subset), ports[i]),
							fmt.Sprintf("Route(%q) = %s when registered as %v but %s when registered as %v", ports[i], firstTable[i], firstOrder, table[i], order),
							map[string]any{"router": "v1", "order": order, "other_order": firstOrder, "port": ports[i]})
						break
					}
				}
				return true
			})
			if overlapping || len(subset) >= 2 {
				st.nontrivial++
			}
			if subsets%97 == 0 && overlapping {
				c.Sample(map[string]any{"router": "v1", "routes": setOf(subset), "ports": fmt.Sprint(ports[:16]), "routing": fmt.Sprint(firstTable[:16])})
			}
			if c.TimeUp() {
				stop = true
				return
			}
		}
		if len(subset) == maxSet {
			return
		}
		for i := from; i < len(names); i++ {
			subset = append(subset, names[i])
			rec(i + 1)
			subset = subset[:len(subset)-1]
		}
	}
	rec(0)
	c.Set("v1_subsets", subsets)
	c.Set("v1_routers_built", routers)
}

type stats struct {
	evals      int
	nontrivial int
	v2Seqs     int
	sampled    bool
	ticks      int
}

func run(c *core.C) {
	if c.Replay != "" {
		replay(c)
		return
	}
	st := &stats{}
	// names <=3, up to 4 registrations (quick resolves ports <=4, thorough ports <=5)
	runV2(c, st, "v2", 3, 4, core.Pick(c, 4, 5), 1)
	if !c.Quick() {
		// thorough only: longer histories over the shorter names
		runV2(c, st, "v2long", 2, 5, 5, 5)
	}
	runV1(c, st)
	c.Set("evaluations", st.evals)
	c.Set("distinct_nontrivial", st.nontrivial)
	c.Set("rule", "v2: every registration sequence of length 1..4 over AddRoute|AddPrefixRoute x names <=3 over {a,b} (incl. the empty name), each replayed on a fresh real router, all ports (<=4 quick, <=5 thorough over {a,b}) resolved after it (every prefix of a sequence is itself an enumerated sequence); thorough adds every sequence of length 5 over names <=2. Non-trivial = sequences with >=2 accepted registrations or >=1 refusal for ambiguity. v1: every subset (<=3) of route names in every registration order, every port resolved 50 times; non-trivial = subsets with >=2 names. evaluations = v2 sequences + v1 Route calls")
	c.Assume("v2 ambiguity reference: two registrations are ambiguous iff some port string is matched by both (route=equality, prefix=HasPrefix); refusing an unambiguous registration is counted (v2_refused_but_unambiguous) but is not a violation")
	c.Assume("v1 routing is specified as: exact key, else the smallest key in byte order that is a substring of the port (05-port keeper.Route); C48 demands a single order- and map-independent result, not absence of overlapping v1 names")
}

func replay(c *core.C) {
	var probe struct {
		Router string   `json:"router"`
		Ops    []reg    `json:"ops"`
		Order  []string `json:"order"`
		Other  any      `json:"other_order"`
	}
	if err := c.LoadReplay(&probe); err != nil {
		c.Broken("cannot load replay: %v", err)
		return
	}
	st := &stats{}
	switch probe.Router {
	case "v2":
		ports := core.AllStrings([]string{"a", "b"}, 5)
		r := evalV2(c, probe.Ops, ports)
		if other, ok := probe.Other.([]any); ok {
			var o []reg
			for _, e := range other {
				if m, ok := e.(map[string]any); ok {
					p, _ := m["prefix"].(bool)
					n, _ := m["name"].(string)
					o = append(o, reg{p, n})
				}
			}
			r2 := evalV2(c, o, ports)
			if setKey(r.accepted) == setKey(r2.accepted) && r.sig != r2.sig {
				c.Violation("v2/order/"+setKey(r.accepted), "the same accepted set routes differently in the two recorded orders", probe)
			}
		}
	case "v1":
		ports := core.AllStrings([]string{"a", "b", "A"}, 5)
		t1 := evalV1(c, probe.Order, ports, 50, st)
		if other, ok := probe.Other.([]any); ok {
			var o []string
			for _, e := range other {
				s, _ := e.(string)
				o = append(o, s)
			}
			t2 := evalV1(c, o, ports, 50, st)
			for i := range t1 {
				if t2 != nil && t1[i] != t2[i] {
					c.Violation(fmt.Sprintf("v1/order/%s/port=%s", setOf(probe.Order), ports[i]), "the two recorded orders route differently", probe)
					break
				}
			}
		}
	default:
		c.Broken("unknown replay artefact")
	}
}
