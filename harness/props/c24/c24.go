// Package c24 decides C24: the 07-tendermint light client accepts a header only when it is verified
// against a stored trusted state (trusted validators hash, same revision, strictly greater height,
// trusting period, clock drift, > 2/3 of its own validator set, >= trust level of the trusted set), and
// misbehaviour freezes the client only when both conflicting headers pass these checks.
//
// The real client is driven through MsgCreateClient / MsgUpdateClient (ValidateBasic + the message
// router's handler, as baseapp does) on cached contexts of a real SimApp chain. The counterparty is
// virtual: the harness derives validator keys from seeds, builds and signs CometBFT headers itself,
// and enumerates (1) every validator-power / signer-subset combination of small sets, (2) every single
// mutation of honestly signed headers, (3) a time lattice, (4) revisions and (5) all ordered
// misbehaviour pairs of a pool of headers. The oracle is the reference in ref.go.
package c24

import (
	"crypto/sha256"
	"encoding/hex"
	"fmt"
	"sort"
	"strings"
	"time"

	"github.com/cosmos/gogoproto/proto"

	sdk "github.com/cosmos/cosmos-sdk/types"

	cmttypes "github.com/cometbft/cometbft/types"

	clienttypes "github.com/cosmos/ibc-go/v11/modules/core/02-client/types"
	commitmenttypes "github.com/cosmos/ibc-go/v11/modules/core/23-commitment/types"
	"github.com/cosmos/ibc-go/v11/modules/core/exported"
	ibctm "github.com/cosmos/ibc-go/v11/modules/light-clients/07-tendermint"
	ibctesting "github.com/cosmos/ibc-go/v11/testing"
	"github.com/cosmos/ibc-go/v11/testing/simapp"

	"verif/harness/core"
)

func init() { core.Register("C24", "exploration", run) }

const (
	trustingPeriod = 1000 * time.Second
	unbonding      = 2000 * time.Second
	maxClockDrift  = 10 * time.Second
	blockStep      = 5 * time.Second
	spareKey       = 4 // universe key that is never a member of an honest set
)

var t0 = time.Date(2030, 1, 1, 0, 0, 0, 0, time.UTC)

// timeOf is the honest block time of a height of the virtual chain.
func timeOf(h int64) time.Time { return t0.Add(time.Duration(h-10) * blockStep) }

type env struct {
	c      *core.C
	app    *simapp.SimApp
	root   sdk.Context
	u      *universe
	signer string
	only   string // replay: evaluate only this key

	evals      int
	seen       map[[32]byte]bool
	nontrivial int
	sampled    map[string]int
}

// scenario is one client on a branched context.
type scenario struct {
	Name string
	Ctx  sdk.Context
	ID   string
	CP   clientParams
}

// deliver runs one message the way baseapp runs a one-message transaction (minus ante handlers).
func (e *env) deliver(ctx sdk.Context, now time.Time, msg sdk.Msg) (ok bool, errText string, after sdk.Context) {
	after = ctx
	var bz []byte
	var err error
	if p := core.Catch(func() { bz, err = e.app.AppCodec().Marshal(msg.(proto.Message)) }); p != "" || err != nil {
		return false, "encode: " + p + fmt.Sprint(err), ctx
	}
	var decoded sdk.Msg
	switch msg.(type) {
	case *clienttypes.MsgUpdateClient:
		m := &clienttypes.MsgUpdateClient{}
		if p := core.Catch(func() { err = e.app.AppCodec().Unmarshal(bz, m) }); p != "" || err != nil {
			return false, "decode: " + p + fmt.Sprint(err), ctx
		}
		decoded = m
	case *clienttypes.MsgCreateClient:
		m := &clienttypes.MsgCreateClient{}
		if p := core.Catch(func() { err = e.app.AppCodec().Unmarshal(bz, m) }); p != "" || err != nil {
			return false, "decode: " + p + fmt.Sprint(err), ctx
		}
		decoded = m
	default:
		decoded = msg
	}
	if vb, is := decoded.(sdk.HasValidateBasic); is {
		var verr error
		if p := core.Catch(func() { verr = vb.ValidateBasic() }); p != "" {
			return false, "validate-basic panic: " + p, ctx
		}
		if verr != nil {
			return false, "validate-basic: " + verr.Error(), ctx
		}
	}
	handler := e.app.MsgServiceRouter().Handler(decoded)
	if handler == nil {
		return false, "no handler", ctx
	}
	cctx, _ := ctx.CacheContext()
	cctx = cctx.WithBlockTime(now).WithEventManager(sdk.NewEventManager())
	if p := core.Catch(func() { _, err = handler(cctx, decoded) }); p != "" {
		return false, "panic: " + p, ctx
	}
	if err != nil {
		return false, err.Error(), ctx
	}
	return true, "", cctx
}

// newScenario creates a tendermint client of chain `chainID` at `height` whose initial consensus state
// names `next` as next validators.
func (e *env) newScenario(name, chainID string, tlNum, tlDen uint64, height clienttypes.Height, consTime time.Time, next *cmttypes.ValidatorSet) (*scenario, error) {
	cs := ibctm.NewClientState(chainID, ibctm.Fraction{Numerator: tlNum, Denominator: tlDen}, trustingPeriod, unbonding, maxClockDrift,
		height, commitmenttypes.GetSDKSpecs(), ibctesting.UpgradePath)
	cons := ibctm.NewConsensusState(consTime, commitmenttypes.NewMerkleRoot(appHashFor("genesis")), next.Hash())
	msg, err := clienttypes.NewMsgCreateClient(cs, cons, e.signer)
	if err != nil {
		return nil, err
	}
	// count clients to learn the identifier the keeper will generate
	ok, errText, after := e.deliver(e.root, consTime.Add(time.Second), msg)
	if !ok {
		return nil, fmt.Errorf("create client: %s", errText)
	}
	// find the new client id: the highest 07-tendermint-N present in `after` but not in root
	id := ""
	for n := 0; n < 1_000_000; n++ {
		cand := fmt.Sprintf("07-tendermint-%d", n)
		if _, found := e.app.IBCKeeper.ClientKeeper.GetClientState(after, cand); !found {
			break
		}
		id = cand
	}
	if id == "" {
		return nil, fmt.Errorf("created client not found")
	}
	return &scenario{Name: name, Ctx: after, ID: id, CP: clientParams{ChainID: chainID, TLNum: tlNum, TLDen: tlDen, TrustingPeriod: trustingPeriod, MaxClockDrift: maxClockDrift}}, nil
}

func (e *env) lookup(ctx sdk.Context, id string) consLookup {
	return func(h clienttypes.Height) (*ibctm.ConsensusState, bool) {
		cs, ok := e.app.IBCKeeper.ClientKeeper.GetClientConsensusState(ctx, id, h)
		if !ok {
			return nil, false
		}
		tm, ok := cs.(*ibctm.ConsensusState)
		return tm, ok
	}
}

// active is the reference client status: not frozen and the latest consensus state within the trusting period.
func (e *env) active(s *scenario, ctx sdk.Context, now time.Time) bool {
	csI, ok := e.app.IBCKeeper.ClientKeeper.GetClientState(ctx, s.ID)
	if !ok {
		return false
	}
	cs := csI.(*ibctm.ClientState)
	if !cs.FrozenHeight.IsZero() {
		return false
	}
	cons, ok := e.lookup(ctx, s.ID)(cs.LatestHeight)
	return ok && now.Before(cons.Timestamp.Add(s.CP.TrustingPeriod))
}

var structural = map[string]bool{"commit-for-this-header": true, "validator-set-parses": true, "trusted-validators-parse": true, "trusted-state-stored": true, "client-active": true}

func (e *env) note(scenario string, hdrBytes []byte, now time.Time, v verdict) {
	e.evals++
	h := sha256.New()
	h.Write([]byte(scenario))
	fmt.Fprintf(h, "|%d|", now.UnixNano())
	h.Write(hdrBytes)
	var k [32]byte
	copy(k[:], h.Sum(nil))
	if e.seen[k] {
		return
	}
	e.seen[k] = true
	for _, f := range v.Failed {
		if structural[f] {
			return
		}
	}
	e.nontrivial++
}

type replayArt struct {
	Key      string   `json:"key"`
	Scenario string   `json:"scenario"`
	Now      string   `json:"now"`
	Header   string   `json:"header_hex,omitempty"`
	Header2  string   `json:"header2_hex,omitempty"`
	Failed   []string `json:"statement_clauses_failed,omitempty"`
	Error    string   `json:"implementation_error,omitempty"`
}

func hexOf(m proto.Message) string {
	bz, err := proto.Marshal(m)
	if err != nil {
		return "unmarshalable: " + err.Error()
	}
	return hex.EncodeToString(bz)
}

// evalUpdate submits the artefact as MsgUpdateClient and judges the outcome.
func (e *env) evalUpdate(s *scenario, now time.Time, a *art, key string) (accepted bool) {
	if e.only != "" && key != e.only {
		return false
	}
	c := e.c
	var hdr *ibctm.Header
	if p := core.Catch(func() { hdr = a.header() }); p != "" {
		c.Broken("cannot render artefact %s: %s", key, p)
		return false
	}
	var v verdict
	if p := core.Catch(func() { v = refUpdate(s.CP, hdr, e.lookup(s.Ctx, s.ID), now, e.active(s, s.Ctx, now)) }); p != "" {
		c.Broken("reference panicked on %s: %s", key, p)
		return false
	}
	if v.E && !v.N {
		c.Broken("reference inconsistent on %s", key)
		return false
	}
	msg, err := clienttypes.NewMsgUpdateClient(s.ID, hdr, e.signer)
	if err != nil {
		c.Broken("pack %s: %v", key, err)
		return false
	}
	ok, errText, after := e.deliver(s.Ctx, now, msg)
	hb, _ := proto.Marshal(hdr)
	e.note(s.Name, hb, now, v)
	rp := replayArt{Key: key, Scenario: s.Name, Now: now.Format(time.RFC3339Nano), Header: hex.EncodeToString(hb), Failed: v.Failed, Error: short(errText)}
	switch {
	case ok && !v.N:
		c.Violation("update/unsound-accept/"+key, fmt.Sprintf("header accepted although the statement's condition fails: %v", v.Failed), rp)
	case !ok && v.E:
		c.Violation("update/rejects-verified/"+key, "header rejected ("+short(errText)+") although every clause holds in its strictest reading", rp)
	}
	cls := "N=" + fmt.Sprint(v.N) + ",E=" + fmt.Sprint(v.E)
	if ok {
		c.Hist("update_outcomes", cls+":accepted")
	} else {
		c.Hist("update_outcomes", cls+":rejected")
	}
	if len(v.Failed) > 0 {
		c.Hist("update_first_failed_clause", v.Failed[0])
	}
	if v.Gap != "" {
		if ok {
			c.Hist("statement_holds_strict_fails", v.Gap+":accepted")
		} else {
			c.Hist("statement_holds_strict_fails", v.Gap+":rejected")
		}
	}
	if ok {
		// what an accepted update leaves behind
		st := e.app.IBCKeeper.ClientKeeper.GetClientStatus(after.WithBlockTime(now), s.ID)
		c.Hist("status_after_accepted_update", string(st))
		if st == exported.Active {
			got, found := e.lookup(after, s.ID)(clienttypes.NewHeight(revisionOf(a.Hdr.ChainID), uint64(a.Hdr.Height)))
			if !found || !got.Timestamp.Equal(a.Hdr.Time) || string(got.NextValidatorsHash) != string(a.Hdr.NextValidatorsHash) || string(got.Root.Hash) != string(a.Hdr.AppHash) {
				c.Violation("update/stored-other-state/"+key, "accepted header left the client Active without storing the header's consensus state at its height", rp)
			}
		}
	}
	if e.sampled == nil {
		e.sampled = map[string]int{}
	}
	part := strings.SplitN(key, "/", 2)[0]
	if (ok && e.sampled[part+"+"] < 1) || (!ok && v.N && e.sampled[part+"~"] < 1) {
		if ok {
			e.sampled[part+"+"]++
		} else {
			e.sampled[part+"~"]++
		}
		c.Sample(map[string]any{"key": key, "now": rp.Now, "accepted": ok, "statement_predicate": v.N, "strict_predicate": v.E, "clauses_failed": v.Failed, "error": rp.Error})
	}
	return ok
}

func short(s string) string {
	if len(s) > 220 {
		return s[:220]
	}
	return s
}

func run(c *core.C) {
	coord := ibctesting.NewCoordinator(c.T, 1)
	chain := coord.GetChain(ibctesting.GetChainID(1))
	root, _ := chain.GetContext().CacheContext()
	e := &env{c: c, app: chain.GetSimApp(), root: root, u: newUniverse(8), signer: chain.SenderAccount.GetAddress().String(), seen: map[[32]byte]bool{}}
	if c.Replay != "" {
		var rp replayArt
		if err := c.LoadReplay(&rp); err != nil {
			c.Broken("cannot load replay: %v", err)
			return
		}
		e.only = rp.Key
		if e.only == "" {
			c.Broken("replay artefact has no key")
			return
		}
	}
	partPowers(e)
	partMutations(e)
	partTimes(e)
	partRevisions(e)
	partMisbehaviour(e)
	c.Set("evaluations", e.evals)
	c.Set("distinct_nontrivial", e.nontrivial)
	c.Set("rule", "powers: every (trusted power vector, new power vector, signer subset, adjacent|non-adjacent) over the key universe; mutations: every single mutation of the alphabet applied to each honestly signed base header; times: header time x block time lattice; revisions; misbehaviour: every ordered pair of the header pool x block times. Distinct = different (scenario, block time, encoded client message); non-trivial = the statement predicate is not already decided by a structural clause (malformed artefact, unknown trusted height, inactive client), i.e. the power / hash / height / time clauses decide")
	c.Assume("CometBFT's proto conversion, ValidateBasic, Header.Hash, ValidatorSet.Hash and Commit.VoteSignBytes, and the standard library's ed25519 verification, are trusted as definitions of well-formedness, hashes and sign-bytes")
	c.Assume("'within the trusting period' is read as: the block time is before trusted-state time + trusting period (the CometBFT meaning); 'within clock drift' as header time <= block time + max clock drift")
	c.Assume("for misbehaviour the statement's 'these checks' is read as: stored trusted state, trusted validators hash, height above the trusted height, trusting period, > 2/3 own power and >= trust-level trusted power; a header time beyond the clock drift or a header revision different from the trusted height's revision does not prevent a freeze in ibc-go (by design) and is only counted under misbehaviour_literal_reading")
	c.Assume("inputs for which the statement's condition holds but a strict CometBFT-level condition fails (power exactly at the trust level, time equal to the trusted time or to now+drift, adjacent header with another validator set, an invalid signature met before the threshold) may be rejected; they are counted, not judged")
}

// ---- part 1: voting power thresholds ------------------------------------------------------------------

func vectors(n int, maxP int64) [][]int64 {
	var out [][]int64
	dims := make([]int, n)
	for i := range dims {
		dims[i] = int(maxP) + 1
	}
	core.Product(dims, func(idx []int) bool {
		v := make([]int64, n)
		nz := false
		for i, x := range idx {
			v[i] = int64(x)
			nz = nz || x > 0
		}
		if nz {
			out = append(out, v)
		}
		return true
	})
	return out
}

func vecString(v []int64) string {
	s := make([]string, len(v))
	for i, x := range v {
		s[i] = fmt.Sprint(x)
	}
	return strings.Join(s, ",")
}

func partPowers(e *env) {
	c := e.c
	type family struct {
		keys         int
		maxP         int64
		tlNum, tlDen uint64
	}
	fams := []family{{3, 3, 1, 3}, {4, 1, 1, 3}, {3, 2, 2, 3}}
	if !c.Quick() {
		fams = []family{{4, 2, 1, 3}, {4, 2, 2, 3}, {3, 3, 1, 3}, {3, 3, 2, 3}, {3, 2, 1, 2}, {2, 4, 1, 3}}
	}
	chainID := "virt-1"
	famNames := []string{}
	for _, f := range fams {
		fname := fmt.Sprintf("keys=%d,maxpower=%d,trustlevel=%d/%d", f.keys, f.maxP, f.tlNum, f.tlDen)
		famNames = append(famNames, fname)
		vecs := vectors(f.keys, f.maxP)
		// one client per trusted power vector
		type tvEntry struct {
			vec []int64
			set *cmttypes.ValidatorSet
			sc  *scenario
		}
		var tvs []tvEntry
		for _, tv := range vecs {
			set := e.u.set(tv)
			sc, err := e.newScenario("powers/"+fname+"/tv="+vecString(tv), chainID, f.tlNum, f.tlDen, clienttypes.NewHeight(1, 10), timeOf(10), set)
			if err != nil {
				c.Broken("powers: %v", err)
				return
			}
			tvs = append(tvs, tvEntry{tv, set, sc})
		}
		for _, nv := range vecs {
			set := e.u.set(nv)
			n := len(set.Validators)
			for _, h := range []int64{11, 15} {
				full := honest(e.u, chainID, h, timeOf(h).UnixNano(), "honest", set, set, nil, clienttypes.NewHeight(1, 10), set)
				now := timeOf(h).Add(3 * time.Second)
				for mask := 0; mask < 1<<n; mask++ {
					a := full.clone()
					for i := 0; i < n; i++ {
						if mask&(1<<i) == 0 {
							a.Commit.Signatures[i] = cmttypes.CommitSig{BlockIDFlag: cmttypes.BlockIDFlagAbsent}
						}
					}
					for _, tv := range tvs {
						a.TVals = psetOf(tv.set)
						key := fmt.Sprintf("powers/%s/tv=%s/nv=%s/signers=%0*b/h=%d", fname, vecString(tv.vec), vecString(nv), n, mask, h)
						e.evalUpdate(tv.sc, now, a, key)
					}
				}
				if c.TimeUp() {
					return
				}
			}
		}
	}
	c.Set("power_families", famNames)
}

// ---- shared main scenario -------------------------------------------------------------------------------

type mainWorld struct {
	sc      *scenario
	set     *cmttypes.ValidatorSet
	chainID string
}

// buildMain creates a client at height 10 and updates it honestly to heights 12 and 20 (all with one validator set).
func (e *env) buildMain(name string, powers []int64, tlNum, tlDen uint64) (*mainWorld, bool) {
	c := e.c
	set := e.u.set(powers)
	sc, err := e.newScenario(name, "virt-1", tlNum, tlDen, clienttypes.NewHeight(1, 10), timeOf(10), set)
	if err != nil {
		c.Broken("%s: %v", name, err)
		return nil, false
	}
	for _, h := range []int64{12, 20} {
		a := honest(e.u, "virt-1", h, timeOf(h).UnixNano(), "honest", set, set, nil, clienttypes.NewHeight(1, 10), set)
		msg, _ := clienttypes.NewMsgUpdateClient(sc.ID, a.header(), e.signer)
		ok, errText, after := e.deliver(sc.Ctx, timeOf(h).Add(time.Second), msg)
		e.evals++
		if !ok {
			c.Violation("update/rejects-verified/"+name+"/setup-h="+fmt.Sprint(h), "honest header rejected during set-up: "+errText, nil)
			return nil, false
		}
		sc.Ctx = after
	}
	return &mainWorld{sc: sc, set: set, chainID: "virt-1"}, true
}

type namedSet struct {
	Name string
	Set  pset
}

// ---- part 2: single mutations -----------------------------------------------------------------------------

func partMutations(e *env) {
	c := e.c
	type baseSpec struct {
		name    string
		powers  []int64 // trusted = own set
		newVals []int64 // nil: same as trusted
		height  int64
		trusted int64
		signs   func(idx int) bool
	}
	bases := []baseSpec{
		{name: "A-nonadjacent-3321", powers: []int64{3, 3, 2, 1}, height: 15, trusted: 10},
		{name: "B-adjacent-3321", powers: []int64{3, 3, 2, 1}, height: 11, trusted: 10},
		{name: "C-tight-1111-three-sign", powers: []int64{1, 1, 1, 1}, height: 15, trusted: 10, signs: func(i int) bool { return i != 3 }},
	}
	if !c.Quick() {
		bases = append(bases,
			baseSpec{name: "D-overlap-2of3", powers: []int64{1, 1, 1, 0}, newVals: []int64{0, 2, 2, 0, 0, 1}, height: 15, trusted: 10},
			baseSpec{name: "E-single", powers: []int64{1}, height: 15, trusted: 10},
			baseSpec{name: "F-beyond-latest-from-12", powers: []int64{3, 3, 2, 1}, height: 25, trusted: 12},
			baseSpec{name: "G-fill-in-between-stored", powers: []int64{2, 2, 1, 1}, height: 16, trusted: 12},
			baseSpec{name: "H-adjacent-to-latest", powers: []int64{3, 3, 2, 1}, height: 21, trusted: 20},
		)
	}
	total := 0
	names := []string{}
	for _, b := range bases {
		w, ok := e.buildMain("mut/"+b.name, b.powers, 1, 3)
		if !ok {
			return
		}
		own := w.set
		if b.newVals != nil {
			own = e.u.set(b.newVals)
		}
		th := clienttypes.NewHeight(1, uint64(b.trusted))
		base := honest(e.u, w.chainID, b.height, timeOf(b.height).UnixNano(), "honest", own, own, b.signs, th, w.set)
		now := timeOf(b.height).Add(3 * time.Second)
		if now.Before(timeOf(20).Add(time.Second)) {
			now = timeOf(20).Add(3 * time.Second) // the chain has executed the set-up updates already
		}
		if !e.evalUpdate(w.sc, now, base, "mut/"+b.name+"/unmutated") && e.only == "" {
			c.Broken("base header %s is not accepted; the mutation part would be vacuous", b.name)
			return
		}
		heights := []clienttypes.Height{
			clienttypes.NewHeight(1, 10), clienttypes.NewHeight(1, 12), clienttypes.NewHeight(1, 20), // stored
			clienttypes.NewHeight(1, 9), clienttypes.NewHeight(1, 11), clienttypes.NewHeight(1, 13), clienttypes.NewHeight(1, 19), clienttypes.NewHeight(1, 21),
			clienttypes.NewHeight(1, uint64(b.height)), clienttypes.NewHeight(1, uint64(b.height-1)), clienttypes.NewHeight(1, uint64(b.height+1)),
			clienttypes.NewHeight(0, 10), clienttypes.NewHeight(2, 10), clienttypes.NewHeight(1, 0), clienttypes.NewHeight(0, 0),
		}
		others := []namedSet{
			{"own-set", psetOf(own)},
			{"disjoint-set", psetOf(e.u.set([]int64{0, 0, 0, 0, 0, 1, 1, 1}))},
			{"non-member-only", psetOf(e.u.set([]int64{0, 0, 0, 0, 1}))},
			{"same-keys-equal-powers", psetOf(e.u.set([]int64{5, 5, 5, 5}))},
		}
		tt := timeOf(b.trusted)
		times := []timePoint{
			{"trusted", tt}, {"trusted-1ns", tt.Add(-1)}, {"trusted+1ns", tt.Add(1)},
			{"now+drift", now.Add(maxClockDrift)}, {"now+drift+1ns", now.Add(maxClockDrift + 1)}, {"now+drift-1ns", now.Add(maxClockDrift - 1)},
			{"trusted+period-1ns", tt.Add(trustingPeriod - 1)}, {"trusted+period", tt.Add(trustingPeriod)}, {"trusted+period+1ns", tt.Add(trustingPeriod + 1)},
			{"honest+1s", timeOf(b.height).Add(time.Second)}, {"zero", time.Time{}},
		}
		om := map[string]pset{}
		for _, o := range others {
			om[o.Name] = o.Set
		}
		muts := mutations(e.u, base, spareKey, heights, om, times)
		sort.SliceStable(muts, func(i, j int) bool { return muts[i].Name < muts[j].Name })
		names = append(names, fmt.Sprintf("%s:%d", b.name, len(muts)))
		for _, m := range muts {
			a := base.clone()
			if p := core.Catch(func() { m.Apply(a) }); p != "" {
				c.Broken("mutation %s on %s panicked: %s", m.Name, b.name, p)
				continue
			}
			e.evalUpdate(w.sc, now, a, "mut/"+b.name+"/"+m.Name)
			total++
		}
		// thorough: every ordered pair of mutations of the first base
		if !c.Quick() && (b.name == bases[0].name || b.name == bases[2].name) {
			pairs := 0
			for _, m1 := range muts {
				for _, m2 := range muts {
					if m1.Name == m2.Name {
						continue
					}
					a := base.clone()
					if p := core.Catch(func() { m1.Apply(a); m2.Apply(a) }); p != "" {
						c.Hist("mutation_pairs", "not-applicable")
						continue
					}
					e.evalUpdate(w.sc, now, a, "mut2/"+b.name+"/"+m1.Name+"+"+m2.Name)
					pairs++
				}
				if c.TimeUp() {
					break
				}
			}
			c.Add("mutation_pairs_evaluated", pairs)
		}
		if c.TimeUp() {
			break
		}
	}
	c.Set("single_mutations_evaluated", total)
	c.Set("mutation_bases", names)
}

// ---- part 3: time lattice ---------------------------------------------------------------------------------

func partTimes(e *env) {
	c := e.c
	w, ok := e.buildMain("times", []int64{3, 3, 2, 1}, 1, 3)
	if !ok {
		return
	}
	type cfg struct {
		height, trusted int64
	}
	cfgs := []cfg{{15, 10}, {11, 10}}
	if !c.Quick() {
		cfgs = append(cfgs, cfg{25, 12}, cfg{25, 20}, cfg{21, 20}, cfg{16, 12})
	}
	deltas := []time.Duration{-1, 0, 1}
	n := 0
	for _, cf := range cfgs {
		tt := timeOf(cf.trusted)
		var anchors []time.Time
		add := func(t time.Time) {
			for _, d := range deltas {
				anchors = append(anchors, t.Add(d))
			}
		}
		add(tt)
		add(tt.Add(trustingPeriod))
		add(tt.Add(trustingPeriod - maxClockDrift))
		add(tt.Add(trustingPeriod + maxClockDrift))
		add(timeOf(20).Add(trustingPeriod)) // expiry of the latest consensus state
		anchors = append(anchors, timeOf(cf.height), timeOf(cf.height).Add(3*time.Second), timeOf(20).Add(time.Second))
		var nows []time.Time
		for _, t := range anchors {
			if !t.Before(timeOf(20)) { // block time is never before what the set-up already executed
				nows = append(nows, t)
			}
		}
		for _, now := range nows {
			hts := append([]time.Time{}, anchors...)
			for _, d := range deltas {
				hts = append(hts, now.Add(maxClockDrift+d), now.Add(d))
			}
			done := map[int64]bool{}
			for _, ht := range hts {
				if done[ht.UnixNano()] {
					continue
				}
				done[ht.UnixNano()] = true
				a := honest(e.u, w.chainID, cf.height, ht.UnixNano(), "honest", w.set, w.set, nil, clienttypes.NewHeight(1, uint64(cf.trusted)), w.set)
				e.evalUpdate(w.sc, now, a, fmt.Sprintf("times/h=%d/trusted=%d/now=T10%+d/time=T10%+d", cf.height, cf.trusted, now.Sub(timeOf(10)).Nanoseconds(), ht.Sub(timeOf(10)).Nanoseconds()))
				n++
			}
		}
	}
	c.Set("time_lattice_cases", n)
}

// ---- part 4: revisions --------------------------------------------------------------------------------------

func partRevisions(e *env) {
	c := e.c
	set := e.u.set([]int64{3, 3, 2, 1})
	// a client of chain virt-2 (as after an upgrade from virt-1) that still stores a revision-1 consensus state
	sc, err := e.newScenario("revisions", "virt-2", 1, 3, clienttypes.NewHeight(2, 3), timeOf(13), set)
	if err != nil {
		c.Broken("revisions: %v", err)
		return
	}
	old := ibctm.NewConsensusState(timeOf(10), commitmenttypes.NewMerkleRoot(appHashFor("genesis")), set.Hash())
	e.app.IBCKeeper.ClientKeeper.SetClientConsensusState(sc.Ctx, sc.ID, clienttypes.NewHeight(1, 10), old)
	now := timeOf(15).Add(3 * time.Second)
	n := 0
	for _, chain := range []string{"virt-2", "virt-1", "virt-3", "virt-0", "virt", "virt-22"} {
		for _, h := range []int64{2, 3, 4, 5, 10, 11, 12} {
			for _, th := range []clienttypes.Height{clienttypes.NewHeight(2, 3), clienttypes.NewHeight(1, 10), clienttypes.NewHeight(1, 3), clienttypes.NewHeight(2, 10), clienttypes.NewHeight(0, 3), clienttypes.NewHeight(3, 3)} {
				a := honest(e.u, chain, h, timeOf(14).Add(time.Duration(h)*time.Millisecond).UnixNano(), "honest", set, set, nil, th, set)
				e.evalUpdate(sc, now, a, fmt.Sprintf("revisions/chain=%s/h=%d/trusted=%s", chain, h, th))
				n++
			}
		}
	}
	c.Set("revision_cases", n)
}

// ---- part 5: misbehaviour ------------------------------------------------------------------------------------

type poolEntry struct {
	Name string
	Hdr  *ibctm.Header
}

func partMisbehaviour(e *env) {
	c := e.c
	// trusted set of three equal validators; stored heights 10, 12, 20
	w, ok := e.buildMain("misbehaviour", []int64{1, 1, 1}, 1, 3)
	if !ok {
		return
	}
	u, set, id := e.u, w.set, w.chainID
	h10, h12, h20 := clienttypes.NewHeight(1, 10), clienttypes.NewHeight(1, 12), clienttypes.NewHeight(1, 20)
	nowN := timeOf(25).Add(3 * time.Second)
	mk := func(h int64, t time.Time, app string, vals *cmttypes.ValidatorSet, signs func(int) bool, th clienttypes.Height, tv *cmttypes.ValidatorSet) *art {
		return honest(u, id, h, t.UnixNano(), app, vals, vals, signs, th, tv)
	}
	var pool []poolEntry
	add := func(name string, a *art) { pool = append(pool, poolEntry{name, a.header()}) }
	add("h15-honest", mk(15, timeOf(15), "honest", set, nil, h10, set))
	add("h15-fork-app", mk(15, timeOf(15), "fork", set, nil, h10, set))
	add("h15-fork-trusting-12", mk(15, timeOf(15).Add(-time.Second), "fork2", set, nil, h12, set))
	add("h15-fork-exactly-two-thirds", mk(15, timeOf(15), "fork3", set, func(i int) bool { return i != 0 }, h10, set))
	{
		a := mk(15, timeOf(15), "fork4", set, nil, h10, set)
		a.TVals = psetOf(u.set([]int64{1, 1, 2}))
		add("h15-fork-wrong-trusted-validators", a)
	}
	add("h15-fork-trusted-height-not-stored", mk(15, timeOf(15), "fork5", set, nil, clienttypes.NewHeight(1, 11), set))
	{
		a := mk(15, timeOf(15), "fork6", set, nil, h10, set)
		a.Commit.Signatures[0].Signature = flip(a.Commit.Signatures[0].Signature)
		add("h15-fork-first-signature-invalid", a)
		b := mk(15, timeOf(15), "fork7", set, nil, h10, set)
		b.Commit.Signatures[2].Signature = flip(b.Commit.Signatures[2].Signature)
		add("h15-fork-last-signature-invalid", b)
	}
	add("h20-fork-of-stored-height", mk(20, timeOf(20), "fork8", set, nil, h12, set))
	add("h20-honest-stored", mk(20, timeOf(20), "honest", set, nil, h12, set))
	add("h11-fork-adjacent", mk(11, timeOf(11), "fork9", set, nil, h10, set))
	add("h25-honest", mk(25, timeOf(25), "honest", set, nil, h20, set))
	add("h25-time-before-h15", mk(25, timeOf(14), "early", set, nil, h10, set))
	add("h25-time-equal-h15", mk(25, timeOf(15), "equal", set, nil, h12, set))
	add("h15-fork-time-beyond-drift", mk(15, nowN.Add(maxClockDrift+1), "future", set, nil, h10, set))
	add("h15-fork-time-before-trusted", mk(15, timeOf(9), "past", set, nil, h10, set))
	add("h15-fork-disjoint-validators", mk(15, timeOf(15), "disjoint", u.set([]int64{0, 0, 0, 0, 0, 1, 1, 1}), nil, h10, set))
	add("h15-fork-overlap-exactly-one-third", mk(15, timeOf(15), "third", u.set([]int64{1, 0, 0, 0, 0, 1, 1}), func(i int) bool { return true }, h10, set))
	add("h15-fork-overlap-two-thirds", mk(15, timeOf(15), "twothirds", u.set([]int64{1, 1, 0, 0, 0, 1}), nil, h10, set))
	add("h15-fork-trusted-height-above", mk(15, timeOf(15), "above", set, nil, h20, set))
	add("h15-fork-trusted-height-equal", mk(15, timeOf(15), "equalh", set, nil, clienttypes.NewHeight(1, 15), set))
	{
		a := mk(15, timeOf(15), "rev2", set, nil, h10, set)
		a.Hdr.ChainID = "virt-2"
		a.rehash()
		a.resign(u)
		add("h15-fork-revision-2", a)
		b := mk(15, timeOf(15), "rev2b", set, nil, h10, set)
		b.Hdr.ChainID = "virt-2"
		b.rehash()
		b.resign(u)
		add("h15-fork-revision-2-other", b)
		d := mk(15, timeOf(15), "other", set, nil, h10, set)
		d.Hdr.ChainID = "other-1"
		d.rehash()
		d.resign(u)
		add("h15-fork-other-chain", d)
	}
	{
		// two of three validators sign (exactly 2/3); the travelling validator set is shrunk to the two signers
		a := mk(15, timeOf(15), "shrunk", set, func(i int) bool { return i != 2 }, h10, set)
		a.Vals.Vals = a.Vals.Vals[:2]
		a.Vals.Proposer = a.Vals.Vals[0].Copy()
		a.Hdr.ProposerAddress = cloneBytes(a.Vals.Vals[0].Address)
		a.Commit.Signatures = a.Commit.Signatures[:2]
		a.rehash()
		a.resign(u)
		add("h15-fork-validator-set-shrunk-to-signers", a)
	}
	if !c.Quick() {
		add("h15-fork-trusted-validators-reordered", func() *art {
			a := mk(15, timeOf(15), "reord", set, nil, h10, set)
			a.TVals.Vals[0], a.TVals.Vals[1] = a.TVals.Vals[1], a.TVals.Vals[0]
			return a
		}())
		add("h15-fork-hash-mismatch", func() *art {
			a := mk(15, timeOf(15), "hm", set, nil, h10, set)
			a.Hdr.AppHash = flip(a.Hdr.AppHash)
			return a
		}())
		add("h15-fork-validator-set-power+1", func() *art {
			a := mk(15, timeOf(15), "vp", set, nil, h10, set)
			a.Vals.Vals[0].VotingPower++
			return a
		}())
		add("h15-fork-no-trusted-validators", func() *art {
			a := mk(15, timeOf(15), "ntv", set, nil, h10, set)
			a.TVals.Nil = true
			return a
		}())
		add("h15-fork-trusted-height-zero", mk(15, timeOf(15), "thz", set, nil, clienttypes.NewHeight(1, 0), set))
		add("h15-fork-nil-votes", func() *art {
			a := mk(15, timeOf(15), "nilv", set, nil, h10, set)
			for i := range a.Commit.Signatures {
				a.Commit.Signatures[i].BlockIDFlag = cmttypes.BlockIDFlagNil
			}
			a.resign(u)
			return a
		}())
		add("h15-fork-signed-by-non-members-under-member-addresses", func() *art {
			a := mk(15, timeOf(15), "nm", set, nil, h10, set)
			for i := range a.Commit.Signatures {
				a.signSlot(u, i, spareKey)
			}
			return a
		}())
		add("h13-fork-between-stored", mk(13, timeOf(13), "h13", set, nil, h12, set))
		add("h13-time-after-h15", mk(13, timeOf(16), "h13late", set, nil, h10, set))
		add("h15-fork-trusting-20", mk(15, timeOf(15), "t20", set, nil, h20, set))
	}
	nows := []timePoint{{"normal", nowN}, {"trusted-10-expired", timeOf(10).Add(trustingPeriod)}, {"trusted-10-expires-in-1ns", timeOf(10).Add(trustingPeriod - 1)}}
	if !c.Quick() {
		nows = append(nows, timePoint{"trusted-12-expired", timeOf(12).Add(trustingPeriod)}, timePoint{"client-expired", timeOf(20).Add(trustingPeriod)}, timePoint{"client-expires-in-1ns", timeOf(20).Add(trustingPeriod - 1)})
	}
	names := make([]string, len(pool))
	for i, p := range pool {
		names[i] = p.Name
	}
	c.Set("misbehaviour_pool", names)
	pairs, frozenCount := 0, 0
	var frozenCtx *sdk.Context
	for _, np := range nows {
		now := np.T
		act := e.active(w.sc, w.sc.Ctx, now)
		verd := make([]verdict, len(pool))
		for i, p := range pool {
			if pnc := core.Catch(func() { verd[i] = refMisbehaviourHeader(w.sc.CP, p.Hdr, e.lookup(w.sc.Ctx, w.sc.ID), now) }); pnc != "" {
				c.Broken("reference panicked on pool header %s: %s", p.Name, pnc)
				return
			}
			if verd[i].E && !verd[i].N {
				c.Broken("reference inconsistent on pool header %s", p.Name)
				return
			}
		}
		for i, p1 := range pool {
			for j, p2 := range pool {
				key := fmt.Sprintf("misbehaviour/now=%s/h1=%s/h2=%s", np.Name, p1.Name, p2.Name)
				if e.only != "" && key != e.only {
					continue
				}
				pairs++
				v1, v2 := verd[i], verd[j]
				conf := conflict(p1.Hdr, p2.Hdr)
				nFreeze := act && v1.N && v2.N && conf
				hh1 := clienttypes.NewHeight(revisionOf(p1.Hdr.SignedHeader.Header.ChainID), uint64(p1.Hdr.SignedHeader.Header.Height))
				hh2 := clienttypes.NewHeight(revisionOf(p2.Hdr.SignedHeader.Header.ChainID), uint64(p2.Hdr.SignedHeader.Header.Height))
				eFreeze := act && v1.E && v2.E && conf && heightGTE(hh1, hh2) && p1.Hdr.SignedHeader.Header.ChainID == p2.Hdr.SignedHeader.Header.ChainID
				mb := ibctm.NewMisbehaviour(w.sc.ID, p1.Hdr, p2.Hdr)
				msg, err := clienttypes.NewMsgUpdateClient(w.sc.ID, mb, e.signer)
				if err != nil {
					c.Broken("pack misbehaviour: %v", err)
					return
				}
				ok, errText, after := e.deliver(w.sc.Ctx, now, msg)
				frozen := false
				if ok {
					frozen = e.app.IBCKeeper.ClientKeeper.GetClientStatus(after.WithBlockTime(now), w.sc.ID) == exported.Frozen
				}
				mbz, _ := proto.Marshal(mb)
				both := verdict{Failed: append(append([]string{}, v1.Failed...), v2.Failed...)}
				if !conf {
					both.Failed = append(both.Failed, "client-active") // counts as structural: nothing to decide
				}
				e.note(w.sc.Name, mbz, now, both)
				rp := replayArt{Key: key, Scenario: "misbehaviour", Now: now.Format(time.RFC3339Nano), Header: hexOf(p1.Hdr), Header2: hexOf(p2.Hdr), Failed: both.Failed, Error: short(errText)}
				switch {
				case frozen && !nFreeze:
					c.Violation("misbehaviour/unsound-freeze/"+key, fmt.Sprintf("client frozen although not both headers are verified and conflicting (header1 fails %v, header2 fails %v, conflict=%v, active=%v)", v1.Failed, v2.Failed, conf, act), rp)
				case !frozen && eFreeze:
					c.Violation("misbehaviour/no-freeze/"+key, "two verified conflicting headers did not freeze the client: "+short(errText), rp)
				}
				cls := fmt.Sprintf("N=%v,E=%v", nFreeze, eFreeze)
				if frozen {
					frozenCount++
					c.Hist("misbehaviour_outcomes", cls+":frozen")
					if !v1.WithinDrift || !v2.WithinDrift {
						c.Hist("misbehaviour_literal_reading", "frozen-with-a-header-time-beyond-clock-drift")
					}
					if !v1.SameRevision || !v2.SameRevision {
						c.Hist("misbehaviour_literal_reading", "frozen-with-a-header-in-another-revision-than-its-trusted-height")
					}
					if frozenCtx == nil {
						fc := after
						frozenCtx = &fc
						c.Sample(map[string]any{"key": key, "frozen": true, "now": rp.Now})
					}
				} else if ok {
					c.Hist("misbehaviour_outcomes", cls+":accepted-not-frozen")
				} else {
					c.Hist("misbehaviour_outcomes", cls+":rejected")
				}
			}
			if c.TimeUp() {
				break
			}
		}
	}
	c.Set("misbehaviour_pairs_evaluated", pairs)
	c.Set("misbehaviour_freezes", frozenCount)
	if e.only == "" && frozenCount == 0 {
		c.Broken("no misbehaviour pair froze the client; the misbehaviour part would be vacuous")
	}
	// a frozen client accepts nothing: an honest header and a valid misbehaviour are both refused
	if frozenCtx != nil && e.only == "" {
		a := honest(u, id, 25, timeOf(25).UnixNano(), "honest", set, set, nil, h20, set)
		msg, _ := clienttypes.NewMsgUpdateClient(w.sc.ID, a.header(), e.signer)
		e.evals++
		if ok, _, _ := e.deliver(*frozenCtx, nowN, msg); ok {
			c.Violation("update/unsound-accept/frozen-client-accepts-header", "a frozen client accepted an honest header", nil)
		}
		mb := ibctm.NewMisbehaviour(w.sc.ID, pool[0].Hdr, pool[1].Hdr)
		msg2, _ := clienttypes.NewMsgUpdateClient(w.sc.ID, mb, e.signer)
		e.evals++
		if ok, _, _ := e.deliver(*frozenCtx, nowN, msg2); ok {
			c.Violation("misbehaviour/unsound-freeze/frozen-client-accepts-misbehaviour", "a frozen client accepted misbehaviour", nil)
		}
	}
}
