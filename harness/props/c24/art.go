package c24

import (
	"crypto/sha256"
	"fmt"
	"time"

	"github.com/cometbft/cometbft/crypto/ed25519"
	"github.com/cometbft/cometbft/crypto/tmhash"
	cmtproto "github.com/cometbft/cometbft/proto/tendermint/types"
	cmtprotoversion "github.com/cometbft/cometbft/proto/tendermint/version"
	cmttypes "github.com/cometbft/cometbft/types"
	cmtversion "github.com/cometbft/cometbft/version"

	clienttypes "github.com/cosmos/ibc-go/v11/modules/core/02-client/types"
	ibctm "github.com/cosmos/ibc-go/v11/modules/light-clients/07-tendermint"
)

// universe is the fixed set of validator keys (derived from seeds).
type universe struct {
	privs  []ed25519.PrivKey
	byAddr map[string]int
}

func newUniverse(n int) *universe {
	u := &universe{byAddr: map[string]int{}}
	for i := 0; i < n; i++ {
		p := ed25519.GenPrivKeyFromSecret([]byte(fmt.Sprintf("verif-c24-validator-%d", i)))
		u.privs = append(u.privs, p)
		u.byAddr[string(p.PubKey().Address())] = i
	}
	return u
}

func (u *universe) val(i int, power int64) *cmttypes.Validator {
	return cmttypes.NewValidator(u.privs[i].PubKey(), power)
}

// set builds the canonical (sorted) validator set of the keys with non-zero power.
func (u *universe) set(powers []int64) *cmttypes.ValidatorSet {
	var vals []*cmttypes.Validator
	for i, p := range powers {
		if p > 0 {
			vals = append(vals, u.val(i, p))
		}
	}
	return cmttypes.NewValidatorSet(vals)
}

// pset is a validator set as it travels in a header (order and extra proto fields under harness control).
type pset struct {
	Vals     []*cmttypes.Validator
	Proposer *cmttypes.Validator
	Total    int64 // the proto's total_voting_power field
	Nil      bool
}

func psetOf(vs *cmttypes.ValidatorSet) pset {
	p := pset{Proposer: vs.GetProposer().Copy(), Total: vs.TotalVotingPower()}
	for _, v := range vs.Validators {
		p.Vals = append(p.Vals, v.Copy())
	}
	return p
}

func (p pset) clone() pset {
	out := pset{Total: p.Total, Nil: p.Nil}
	if p.Proposer != nil {
		out.Proposer = p.Proposer.Copy()
	}
	for _, v := range p.Vals {
		out.Vals = append(out.Vals, v.Copy())
	}
	return out
}

func (p pset) hash() []byte { return (&cmttypes.ValidatorSet{Validators: p.Vals}).Hash() }

func (p pset) proto() *cmtproto.ValidatorSet {
	if p.Nil {
		return nil
	}
	out := &cmtproto.ValidatorSet{TotalVotingPower: p.Total}
	for _, v := range p.Vals {
		pv, err := v.ToProto()
		if err != nil {
			panic(err)
		}
		out.Validators = append(out.Validators, pv)
	}
	if p.Proposer != nil {
		pv, err := p.Proposer.ToProto()
		if err != nil {
			panic(err)
		}
		out.Proposer = pv
	}
	return out
}

// art is a header artefact under construction / mutation.
type art struct {
	Hdr    cmttypes.Header
	Commit *cmttypes.Commit
	Vals   pset
	TH     clienttypes.Height
	TVals  pset
}

func cloneBytes(b []byte) []byte { return append([]byte(nil), b...) }

func (a *art) clone() *art {
	out := &art{Hdr: a.Hdr, TH: a.TH, Vals: a.Vals.clone(), TVals: a.TVals.clone()}
	h := &out.Hdr
	h.LastBlockID.Hash = cloneBytes(h.LastBlockID.Hash)
	h.LastBlockID.PartSetHeader.Hash = cloneBytes(h.LastBlockID.PartSetHeader.Hash)
	h.LastCommitHash, h.DataHash = cloneBytes(h.LastCommitHash), cloneBytes(h.DataHash)
	h.ValidatorsHash, h.NextValidatorsHash = cloneBytes(h.ValidatorsHash), cloneBytes(h.NextValidatorsHash)
	h.ConsensusHash, h.AppHash, h.LastResultsHash = cloneBytes(h.ConsensusHash), cloneBytes(h.AppHash), cloneBytes(h.LastResultsHash)
	h.EvidenceHash, h.ProposerAddress = cloneBytes(h.EvidenceHash), cloneBytes(h.ProposerAddress)
	if a.Commit != nil {
		c := &cmttypes.Commit{Height: a.Commit.Height, Round: a.Commit.Round, BlockID: a.Commit.BlockID}
		c.BlockID.Hash = cloneBytes(c.BlockID.Hash)
		c.BlockID.PartSetHeader.Hash = cloneBytes(c.BlockID.PartSetHeader.Hash)
		for _, s := range a.Commit.Signatures {
			c.Signatures = append(c.Signatures, cmttypes.CommitSig{BlockIDFlag: s.BlockIDFlag, ValidatorAddress: cloneBytes(s.ValidatorAddress), Timestamp: s.Timestamp, Signature: cloneBytes(s.Signature)})
		}
		out.Commit = c
	}
	return out
}

// header renders the artefact as the 07-tendermint client message.
func (a *art) header() *ibctm.Header {
	sh := &cmtproto.SignedHeader{Header: a.Hdr.ToProto()}
	if a.Commit != nil {
		// build a fresh Commit so that no memoised hash travels along
		c := &cmttypes.Commit{Height: a.Commit.Height, Round: a.Commit.Round, BlockID: a.Commit.BlockID, Signatures: a.Commit.Signatures}
		sh.Commit = c.ToProto()
	}
	return &ibctm.Header{SignedHeader: sh, ValidatorSet: a.Vals.proto(), TrustedHeight: a.TH, TrustedValidators: a.TVals.proto()}
}

// rehash points the commit at the current header.
func (a *art) rehash() { a.Commit.BlockID.Hash = a.Hdr.Hash() }

// signSlot signs commit slot idx with universe key k for the header's own chain id.
func (a *art) signSlot(u *universe, idx, k int) {
	c := &cmttypes.Commit{Height: a.Commit.Height, Round: a.Commit.Round, BlockID: a.Commit.BlockID, Signatures: a.Commit.Signatures}
	sig, err := u.privs[k].Sign(c.VoteSignBytes(a.Hdr.ChainID, int32(idx)))
	if err != nil {
		panic(err)
	}
	a.Commit.Signatures[idx].Signature = sig
}

// resign lets the owner of every for-block / nil slot sign again (what honest validators of a chain
// producing exactly this header and commit would publish).
func (a *art) resign(u *universe) {
	for idx, s := range a.Commit.Signatures {
		if s.BlockIDFlag == cmttypes.BlockIDFlagAbsent {
			continue
		}
		if k, ok := u.byAddr[string(s.ValidatorAddress)]; ok {
			a.signSlot(u, idx, k)
		}
	}
}

var (
	unusedHash = tmhash.Sum([]byte{0x00})
	partsHash  = tmhash.Sum([]byte("parts"))
)

func appHashFor(tag string) []byte { h := sha256.Sum256([]byte("app-" + tag)); return h[:] }

// honest builds the honestly signed header of a virtual chain: validator set `vals`, next set `next`,
// signed by the validators whose index satisfies signs (nil = all), trusting (th, tvals).
func honest(u *universe, chainID string, height int64, timeNs int64, appTag string, vals, next *cmttypes.ValidatorSet, signs func(idx int) bool, th clienttypes.Height, tvals *cmttypes.ValidatorSet) *art {
	a := &art{TH: th, Vals: psetOf(vals), TVals: psetOf(tvals)}
	a.Hdr = cmttypes.Header{
		Version:            cmtprotoversion.Consensus{Block: cmtversion.BlockProtocol, App: 2},
		ChainID:            chainID,
		Height:             height,
		Time:               time.Unix(0, timeNs).UTC(),
		LastBlockID:        cmttypes.BlockID{Hash: make([]byte, tmhash.Size), PartSetHeader: cmttypes.PartSetHeader{Total: 10_000, Hash: make([]byte, tmhash.Size)}},
		LastCommitHash:     unusedHash,
		DataHash:           unusedHash,
		ValidatorsHash:     vals.Hash(),
		NextValidatorsHash: next.Hash(),
		ConsensusHash:      unusedHash,
		AppHash:            appHashFor(appTag),
		LastResultsHash:    unusedHash,
		EvidenceHash:       unusedHash,
		ProposerAddress:    vals.GetProposer().Address,
	}
	a.Commit = &cmttypes.Commit{Height: height, Round: 1, BlockID: cmttypes.BlockID{Hash: a.Hdr.Hash(), PartSetHeader: cmttypes.PartSetHeader{Total: 3, Hash: partsHash}}}
	for idx, v := range vals.Validators {
		if signs != nil && !signs(idx) {
			a.Commit.Signatures = append(a.Commit.Signatures, cmttypes.CommitSig{BlockIDFlag: cmttypes.BlockIDFlagAbsent})
			continue
		}
		a.Commit.Signatures = append(a.Commit.Signatures, cmttypes.CommitSig{BlockIDFlag: cmttypes.BlockIDFlagCommit, ValidatorAddress: v.Address, Timestamp: a.Hdr.Time})
	}
	a.resign(u)
	return a
}

// setValsConsistent installs a new own validator list and makes header, commit slots and signatures
// consistent with it (an honest chain whose validator set is this list); signers keep signing, new
// members sign iff newSign.
func (a *art) setValsConsistent(u *universe, list []*cmttypes.Validator, newSign bool) {
	old := map[string]cmttypes.CommitSig{}
	for i, v := range a.Vals.Vals {
		if i < len(a.Commit.Signatures) {
			old[string(v.Address)] = a.Commit.Signatures[i]
		}
	}
	a.Vals.Vals = list
	a.Vals.Total = 0
	keepProposer := false
	for _, v := range list {
		a.Vals.Total += v.VotingPower
		if a.Vals.Proposer != nil && string(v.Address) == string(a.Vals.Proposer.Address) {
			keepProposer = true
			a.Vals.Proposer = v.Copy()
		}
	}
	if !keepProposer && len(list) > 0 {
		a.Vals.Proposer = list[0].Copy()
		a.Hdr.ProposerAddress = cloneBytes(list[0].Address)
	}
	a.Hdr.ValidatorsHash = a.Vals.hash()
	var sigs []cmttypes.CommitSig
	for _, v := range list {
		if s, ok := old[string(v.Address)]; ok {
			sigs = append(sigs, s)
		} else if newSign {
			sigs = append(sigs, cmttypes.CommitSig{BlockIDFlag: cmttypes.BlockIDFlagCommit, ValidatorAddress: v.Address, Timestamp: a.Hdr.Time})
		} else {
			sigs = append(sigs, cmttypes.CommitSig{BlockIDFlag: cmttypes.BlockIDFlagAbsent})
		}
	}
	a.Commit.Signatures = sigs
	a.rehash()
	a.resign(u)
}

// mut is one named single mutation of an artefact.
type mut struct {
	Name  string
	Apply func(a *art)
}

func flip(b []byte) []byte {
	out := cloneBytes(b)
	if len(out) == 0 {
		return []byte{1}
	}
	out[len(out)-1] ^= 1
	return out
}

// timePoint is a named instant.
type timePoint struct {
	Name string
	T    time.Time
}

// mutations lists every single mutation of the design's alphabet for a base artefact.
// spare is a universe key that belongs to neither set; trustedHeights the candidate trusted heights.
func mutations(u *universe, base *art, spare int, trustedHeights []clienttypes.Height, otherSets map[string]pset, times []timePoint) []mut {
	var out []mut
	// signed header fields: raw (commit untouched), rehash (commit points at the new header, old signatures),
	// resign (what the same validators would honestly sign for the changed header)
	field := func(name string, f func(a *art)) {
		out = append(out,
			mut{"hdr." + name + "/raw", f},
			mut{"hdr." + name + "/rehash", func(a *art) { f(a); a.rehash() }},
			mut{"hdr." + name + "/resign", func(a *art) { f(a); a.rehash(); a.resign(u) }},
		)
	}
	// a change of height must move the commit height along in the consistent flavours
	heightTo := func(h int64) func(a *art) {
		return func(a *art) { a.Hdr.Height = h }
	}
	heightBoth := func(name string, h int64) {
		out = append(out,
			mut{"hdr.height=" + name + "/raw", heightTo(h)},
			mut{"hdr.height=" + name + "/rehash", func(a *art) { a.Hdr.Height = h; a.rehash() }},
			mut{"hdr.height=" + name + "/commit-height-too", func(a *art) { a.Hdr.Height = h; a.Commit.Height = h; a.rehash() }},
			mut{"hdr.height=" + name + "/resign", func(a *art) { a.Hdr.Height = h; a.Commit.Height = h; a.rehash(); a.resign(u) }},
		)
	}
	bh := base.Hdr.Height
	th := int64(base.TH.RevisionHeight)
	for _, hv := range []struct {
		n string
		h int64
	}{{"+1", bh + 1}, {"-1", bh - 1}, {"trusted", th}, {"trusted-1", th - 1}, {"trusted+1", th + 1}, {"0", 0}, {"-5", -5}} {
		if hv.h != bh {
			heightBoth(hv.n, hv.h)
		}
	}
	for _, t := range trustedHeights {
		if int64(t.RevisionHeight) != bh && int64(t.RevisionHeight) != th {
			heightBoth(fmt.Sprintf("stored-or-listed-%d", t.RevisionHeight), int64(t.RevisionHeight))
		}
	}
	for _, tp := range times {
		t := tp.T
		field("time="+tp.Name, func(a *art) {
			a.Hdr.Time = t
			for i := range a.Commit.Signatures {
				if a.Commit.Signatures[i].BlockIDFlag != cmttypes.BlockIDFlagAbsent {
					a.Commit.Signatures[i].Timestamp = t
				}
			}
		})
		field("time-only="+tp.Name, func(a *art) { a.Hdr.Time = t })
	}
	cid := base.Hdr.ChainID
	for _, c := range []string{withRevision(cid, revisionOf(cid)+1), withRevision(cid, revisionOf(cid)-1), withRevision(cid, revisionOf(cid)*10+1), "other-" + fmt.Sprint(revisionOf(cid)), cid + "x", "", cid[:len(cid)-2]} {
		c := c
		if c != cid {
			field(fmt.Sprintf("chainid=%q", c), func(a *art) { a.Hdr.ChainID = c })
		}
	}
	field("version.block+1", func(a *art) { a.Hdr.Version.Block++ })
	field("version.app+1", func(a *art) { a.Hdr.Version.App++ })
	field("lastblockid.hash", func(a *art) { a.Hdr.LastBlockID.Hash = flip(a.Hdr.LastBlockID.Hash) })
	field("lastblockid.parts", func(a *art) { a.Hdr.LastBlockID.PartSetHeader.Total++ })
	field("lastcommithash", func(a *art) { a.Hdr.LastCommitHash = flip(a.Hdr.LastCommitHash) })
	field("datahash", func(a *art) { a.Hdr.DataHash = flip(a.Hdr.DataHash) })
	field("validatorshash", func(a *art) { a.Hdr.ValidatorsHash = flip(a.Hdr.ValidatorsHash) })
	field("nextvalidatorshash", func(a *art) { a.Hdr.NextValidatorsHash = flip(a.Hdr.NextValidatorsHash) })
	field("consensushash", func(a *art) { a.Hdr.ConsensusHash = flip(a.Hdr.ConsensusHash) })
	field("apphash", func(a *art) { a.Hdr.AppHash = flip(a.Hdr.AppHash) })
	field("apphash-empty", func(a *art) { a.Hdr.AppHash = nil })
	field("lastresultshash", func(a *art) { a.Hdr.LastResultsHash = flip(a.Hdr.LastResultsHash) })
	field("evidencehash", func(a *art) { a.Hdr.EvidenceHash = flip(a.Hdr.EvidenceHash) })
	field("proposer", func(a *art) { a.Hdr.ProposerAddress = flip(a.Hdr.ProposerAddress) })
	field("proposer-short", func(a *art) { a.Hdr.ProposerAddress = a.Hdr.ProposerAddress[:19] })
	field("validatorshash-31", func(a *art) { a.Hdr.ValidatorsHash = a.Hdr.ValidatorsHash[:31] })

	// commit fields
	commitField := func(name string, f func(a *art)) {
		out = append(out,
			mut{"commit." + name + "/raw", f},
			mut{"commit." + name + "/resign", func(a *art) { f(a); a.resign(u) }},
		)
	}
	commitField("height+1", func(a *art) { a.Commit.Height++ })
	commitField("height-1", func(a *art) { a.Commit.Height-- })
	commitField("round+1", func(a *art) { a.Commit.Round++ })
	commitField("round=-1", func(a *art) { a.Commit.Round = -1 })
	commitField("blockid.hash", func(a *art) { a.Commit.BlockID.Hash = flip(a.Commit.BlockID.Hash) })
	commitField("blockid.hash-empty", func(a *art) { a.Commit.BlockID.Hash = nil })
	commitField("blockid.parts.total+1", func(a *art) { a.Commit.BlockID.PartSetHeader.Total++ })
	commitField("blockid.parts.hash", func(a *art) { a.Commit.BlockID.PartSetHeader.Hash = flip(a.Commit.BlockID.PartSetHeader.Hash) })
	out = append(out, mut{"commit.nil", func(a *art) { a.Commit = nil }})
	out = append(out, mut{"commit.no-signatures", func(a *art) { a.Commit.Signatures = nil }})

	// each signature
	n := len(base.Commit.Signatures)
	for i := 0; i < n; i++ {
		i := i
		s := fmt.Sprintf("sig[%d].", i)
		if base.Commit.Signatures[i].BlockIDFlag == cmttypes.BlockIDFlagAbsent {
			// an absent slot can be filled by its validator or by a stranger
			out = append(out, mut{s + "filled-by-owner", func(a *art) {
				a.Commit.Signatures[i] = cmttypes.CommitSig{BlockIDFlag: cmttypes.BlockIDFlagCommit, ValidatorAddress: cloneBytes(a.Vals.Vals[i].Address), Timestamp: a.Hdr.Time}
				a.resign(u)
			}})
			out = append(out, mut{s + "filled-by-non-member-under-owner-address", func(a *art) {
				a.Commit.Signatures[i] = cmttypes.CommitSig{BlockIDFlag: cmttypes.BlockIDFlagCommit, ValidatorAddress: cloneBytes(a.Vals.Vals[i].Address), Timestamp: a.Hdr.Time}
				a.signSlot(u, i, spare)
			}})
			continue
		}
		out = append(out,
			mut{s + "absent", func(a *art) { a.Commit.Signatures[i] = cmttypes.CommitSig{BlockIDFlag: cmttypes.BlockIDFlagAbsent} }},
			mut{s + "removed", func(a *art) { a.Commit.Signatures = append(a.Commit.Signatures[:i:i], a.Commit.Signatures[i+1:]...) }},
			mut{s + "zeroed", func(a *art) { a.Commit.Signatures[i].Signature = make([]byte, 64) }},
			mut{s + "empty", func(a *art) { a.Commit.Signatures[i].Signature = nil }},
			mut{s + "63-bytes", func(a *art) { a.Commit.Signatures[i].Signature = a.Commit.Signatures[i].Signature[:63] }},
			mut{s + "65-bytes", func(a *art) { a.Commit.Signatures[i].Signature = append(a.Commit.Signatures[i].Signature, 0) }},
			mut{s + "bitflip", func(a *art) { a.Commit.Signatures[i].Signature = flip(a.Commit.Signatures[i].Signature) }},
			mut{s + "bitflip-first", func(a *art) { a.Commit.Signatures[i].Signature[0] ^= 0x80 }},
			mut{s + "resigned-by-non-member", func(a *art) { a.signSlot(u, i, spare) }},
			mut{s + "replaced-by-non-member-vote", func(a *art) {
				a.Commit.Signatures[i].ValidatorAddress = u.privs[spare].PubKey().Address()
				a.signSlot(u, i, spare)
			}},
			mut{s + "nil-vote", func(a *art) { a.Commit.Signatures[i].BlockIDFlag = cmttypes.BlockIDFlagNil; a.resign(u) }},
			mut{s + "nil-flag-only", func(a *art) { a.Commit.Signatures[i].BlockIDFlag = cmttypes.BlockIDFlagNil }},
			mut{s + "flag=0", func(a *art) { a.Commit.Signatures[i].BlockIDFlag = 0 }},
			mut{s + "flag=4", func(a *art) { a.Commit.Signatures[i].BlockIDFlag = 4 }},
			mut{s + "timestamp+1ns", func(a *art) { a.Commit.Signatures[i].Timestamp = a.Commit.Signatures[i].Timestamp.Add(1) }},
			mut{s + "timestamp+1ns/resign", func(a *art) {
				a.Commit.Signatures[i].Timestamp = a.Commit.Signatures[i].Timestamp.Add(1)
				a.resign(u)
			}},
			mut{s + "address-flipped", func(a *art) { a.Commit.Signatures[i].ValidatorAddress = flip(a.Commit.Signatures[i].ValidatorAddress) }},
			mut{s + "signed-for-other-chain", func(a *art) {
				c := &cmttypes.Commit{Height: a.Commit.Height, Round: a.Commit.Round, BlockID: a.Commit.BlockID, Signatures: a.Commit.Signatures}
				k := u.byAddr[string(a.Commit.Signatures[i].ValidatorAddress)]
				sig, _ := u.privs[k].Sign(c.VoteSignBytes(a.Hdr.ChainID+"x", int32(i)))
				a.Commit.Signatures[i].Signature = sig
			}},
		)
		for j := 0; j < n; j++ {
			j := j
			if j == i || base.Commit.Signatures[j].BlockIDFlag == cmttypes.BlockIDFlagAbsent {
				continue
			}
			out = append(out,
				mut{fmt.Sprintf("%ssignature-bytes-of[%d]", s, j), func(a *art) { a.Commit.Signatures[i].Signature = cloneBytes(a.Commit.Signatures[j].Signature) }},
				mut{fmt.Sprintf("%sduplicate-of[%d]", s, j), func(a *art) {
					src := a.Commit.Signatures[j]
					a.Commit.Signatures[i] = cmttypes.CommitSig{BlockIDFlag: src.BlockIDFlag, ValidatorAddress: cloneBytes(src.ValidatorAddress), Timestamp: src.Timestamp, Signature: cloneBytes(src.Signature)}
				}},
			)
		}
	}
	out = append(out,
		mut{"sig.appended-duplicate-of-last", func(a *art) {
			src := a.Commit.Signatures[len(a.Commit.Signatures)-1]
			a.Commit.Signatures = append(a.Commit.Signatures, src)
		}},
		mut{"sig.appended-non-member-vote", func(a *art) {
			a.Commit.Signatures = append(a.Commit.Signatures, cmttypes.CommitSig{BlockIDFlag: cmttypes.BlockIDFlagCommit, ValidatorAddress: u.privs[spare].PubKey().Address(), Timestamp: a.Hdr.Time})
			a.signSlot(u, len(a.Commit.Signatures)-1, spare)
		}},
		mut{"sig.appended-absent", func(a *art) {
			a.Commit.Signatures = append(a.Commit.Signatures, cmttypes.CommitSig{BlockIDFlag: cmttypes.BlockIDFlagAbsent})
		}},
	)
	if n >= 2 {
		out = append(out, mut{"sig.swap[0,1]", func(a *art) {
			a.Commit.Signatures[0], a.Commit.Signatures[1] = a.Commit.Signatures[1], a.Commit.Signatures[0]
		}})
	}

	// validator sets (own and trusted): raw = only the travelling set changes; consistent = the header commits to it and is re-signed
	setMuts := func(prefix string, get func(a *art) *pset, consistent bool) {
		nv := len(get(base).Vals)
		add := func(name string, f func(p *pset)) {
			out = append(out, mut{prefix + name + "/raw", func(a *art) { f(get(a)) }})
			if consistent {
				out = append(out, mut{prefix + name + "/consistent", func(a *art) {
					p := get(a).clone()
					f(&p)
					a.setValsConsistent(u, p.Vals, true)
				}})
				out = append(out, mut{prefix + name + "/consistent-new-member-silent", func(a *art) {
					p := get(a).clone()
					f(&p)
					a.setValsConsistent(u, p.Vals, false)
				}})
			}
		}
		for i := 0; i < nv; i++ {
			i := i
			add(fmt.Sprintf("power[%d]+1", i), func(p *pset) { p.Vals[i].VotingPower++ })
			add(fmt.Sprintf("power[%d]-1", i), func(p *pset) { p.Vals[i].VotingPower-- })
			add(fmt.Sprintf("power[%d]x10", i), func(p *pset) { p.Vals[i].VotingPower *= 10 })
			if nv > 1 {
				add(fmt.Sprintf("remove[%d]", i), func(p *pset) { p.Vals = append(p.Vals[:i:i], p.Vals[i+1:]...) })
			}
			add(fmt.Sprintf("key[%d]-replaced-by-non-member", i), func(p *pset) {
				p.Vals[i] = u.val(spare, p.Vals[i].VotingPower)
			})
			add(fmt.Sprintf("address[%d]-flipped", i), func(p *pset) { p.Vals[i].Address = flip(p.Vals[i].Address) })
			add(fmt.Sprintf("priority[%d]+1", i), func(p *pset) { p.Vals[i].ProposerPriority++ })
			out = append(out, mut{fmt.Sprintf("%sproposer=[%d]/raw", prefix, i), func(a *art) { p := get(a); p.Proposer = p.Vals[i].Copy() }})
		}
		for _, pw := range []int64{1, 100} {
			pw := pw
			add(fmt.Sprintf("add-non-member(power=%d)", pw), func(p *pset) { p.Vals = append(p.Vals, u.val(spare, pw)) })
			add(fmt.Sprintf("add-non-member-first(power=%d)", pw), func(p *pset) { p.Vals = append([]*cmttypes.Validator{u.val(spare, pw)}, p.Vals...) })
		}
		if nv >= 2 {
			add("swap[0,1]", func(p *pset) { p.Vals[0], p.Vals[1] = p.Vals[1], p.Vals[0] })
			add("reverse", func(p *pset) {
				for l, r := 0, len(p.Vals)-1; l < r; l, r = l+1, r-1 {
					p.Vals[l], p.Vals[r] = p.Vals[r], p.Vals[l]
				}
			})
		}
		out = append(out,
			mut{prefix + "duplicate[0]/raw", func(a *art) { p := get(a); p.Vals = append(p.Vals, p.Vals[0].Copy()) }},
			mut{prefix + "proposer=non-member/raw", func(a *art) { get(a).Proposer = u.val(spare, 1) }},
			mut{prefix + "proposer=nil/raw", func(a *art) { get(a).Proposer = nil }},
			mut{prefix + "total-field+1/raw", func(a *art) { get(a).Total++ }},
			mut{prefix + "total-field=0/raw", func(a *art) { get(a).Total = 0 }},
			mut{prefix + "total-field-huge/raw", func(a *art) { get(a).Total = 1 << 59 }},
			mut{prefix + "nil/raw", func(a *art) { get(a).Nil = true }},
			mut{prefix + "empty/raw", func(a *art) { get(a).Vals = nil }},
			mut{prefix + "power[0]=0/raw", func(a *art) { get(a).Vals[0].VotingPower = 0 }},
			mut{prefix + "power[0]=-1/raw", func(a *art) { get(a).Vals[0].VotingPower = -1 }},
		)
	}
	setMuts("vals.", func(a *art) *pset { return &a.Vals }, true)
	setMuts("trusted.", func(a *art) *pset { return &a.TVals }, false)
	for name, ps := range otherSets {
		ps := ps
		out = append(out, mut{"trusted.replaced-by-" + name, func(a *art) { a.TVals = ps.clone() }})
	}
	// trusted height
	for _, t := range trustedHeights {
		t := t
		if t != base.TH {
			out = append(out, mut{"trustedheight=" + t.String(), func(a *art) { a.TH = t }})
		}
	}
	return out
}
