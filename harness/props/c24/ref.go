package c24

import (
	"bytes"
	"crypto/ed25519"
	"math/big"
	"strconv"
	"strings"
	"time"

	cmttypes "github.com/cometbft/cometbft/types"

	clienttypes "github.com/cosmos/ibc-go/v11/modules/core/02-client/types"
	ibctm "github.com/cosmos/ibc-go/v11/modules/light-clients/07-tendermint"
)

// The reference has two predicates per header.
//
//	N ("statement"): the acceptance condition exactly as the property states it, each clause in its
//	  most permissive reading. An accepted header (or a freeze) with N false is a violation.
//	E ("strict"): every clause of N in the strictest form the CometBFT light-client semantics give it
//	  (strict inequalities, adjacent headers need the next-validators hash, signatures are examined in
//	  commit order and an invalid one met before the threshold is fatal). E implies N; a rejected
//	  header with E true is reported as well (the design asks for acceptance <=> predicate). Inputs
//	  with N true and E false are the documented gap: either outcome is allowed and only recorded.
//
// Trusted base: CometBFT's proto conversion / ValidateBasic / Hash / VoteSignBytes (structure and
// canonical encodings) and the standard library's ed25519. Power thresholds, time windows, heights,
// revisions, trusted-state look-ups and the signer tally are written here with exact integer arithmetic.

type clientParams struct {
	ChainID        string
	TLNum, TLDen   uint64
	TrustingPeriod time.Duration
	MaxClockDrift  time.Duration
}

// consLookup returns the stored consensus state of the client at a height.
type consLookup func(h clienttypes.Height) (*ibctm.ConsensusState, bool)

type verdict struct {
	N, E   bool
	Failed []string // clauses of N that do not hold
	Gap    string   // first strict-only condition that fails when N holds and E does not
	// literal-reading extras for misbehaviour headers (not part of N there, see DESIGN / report)
	WithinDrift, SameRevision bool
}

func revisionOf(chainID string) uint64 {
	// `{name}-{revision}` with a revision without leading zero; anything else is revision 0
	i := strings.LastIndex(chainID, "-")
	if i <= 0 || i == len(chainID)-1 {
		return 0
	}
	if chainID[i-1] == '-' || chainID[i-1] == '\n' {
		return 0
	}
	num := chainID[i+1:]
	if num[0] < '1' || num[0] > '9' {
		return 0
	}
	for _, c := range num {
		if c < '0' || c > '9' {
			return 0
		}
	}
	if strings.Contains(chainID, "\n") {
		// the production regexp is single-line; the harness never uses such chain ids
		return 0
	}
	r, err := strconv.ParseUint(num, 10, 64)
	if err != nil {
		return 0
	}
	return r
}

// withRevision replaces the revision suffix of a revision-format chain id.
func withRevision(chainID string, rev uint64) string {
	if revisionOf(chainID) == 0 {
		return chainID
	}
	return chainID[:strings.LastIndex(chainID, "-")+1] + strconv.FormatUint(rev, 10)
}

func sigValid(val *cmttypes.Validator, msg, sig []byte) bool {
	if val == nil || val.PubKey == nil {
		return false
	}
	pk := val.PubKey.Bytes()
	if val.PubKey.Type() != "ed25519" || len(pk) != ed25519.PublicKeySize || len(sig) != ed25519.SignatureSize {
		return false
	}
	return ed25519.Verify(ed25519.PublicKey(pk), msg, sig)
}

func totalPower(vals []*cmttypes.Validator) *big.Int {
	t := new(big.Int)
	for _, v := range vals {
		t.Add(t, big.NewInt(v.VotingPower))
	}
	return t
}

// signedPower is the statement-level tally: the power of the validators of `vals` for which the commit
// carries (anywhere) a for-block signature under their address that verifies for chainID.
func signedPower(vals []*cmttypes.Validator, commit *cmttypes.Commit, chainID string) *big.Int {
	p := new(big.Int)
	for _, v := range vals {
		for idx, cs := range commit.Signatures {
			if cs.BlockIDFlag != cmttypes.BlockIDFlagCommit || !bytes.Equal(cs.ValidatorAddress, v.Address) {
				continue
			}
			if sigValid(v, commit.VoteSignBytes(chainID, int32(idx)), cs.Signature) {
				p.Add(p, big.NewInt(v.VotingPower))
				break
			}
		}
	}
	return p
}

// seqTally models the light client's sequential examination of a commit: for-block signatures are
// taken in commit order, each must verify, and the walk stops as soon as the tally exceeds `needed`.
func seqTally(vals []*cmttypes.Validator, commit *cmttypes.Commit, chainID string, needed *big.Int, byIndex bool) bool {
	if byIndex && len(vals) != len(commit.Signatures) {
		return false
	}
	tally := new(big.Int)
	seen := map[int]bool{}
	for idx, cs := range commit.Signatures {
		if cs.BlockIDFlag != cmttypes.BlockIDFlagCommit {
			continue
		}
		var val *cmttypes.Validator
		if byIndex {
			val = vals[idx]
			if !bytes.Equal(val.Address, cs.ValidatorAddress) {
				return false
			}
		} else {
			vi := -1
			for j, v := range vals {
				if bytes.Equal(v.Address, cs.ValidatorAddress) {
					vi = j
					break
				}
			}
			if vi < 0 {
				continue
			}
			if seen[vi] {
				return false
			}
			seen[vi] = true
			val = vals[vi]
		}
		if !sigValid(val, commit.VoteSignBytes(chainID, int32(idx)), cs.Signature) {
			return false
		}
		tally.Add(tally, big.NewInt(val.VotingPower))
		if tally.Cmp(needed) > 0 {
			return true
		}
	}
	return false
}

func floorDiv(a *big.Int, num, den uint64) *big.Int {
	x := new(big.Int).Mul(a, new(big.Int).SetUint64(num))
	return x.Div(x, new(big.Int).SetUint64(den))
}

type parsed struct {
	wfSigned  bool // signed header well-formed for its own chain id, commit is for this header
	sh        *cmttypes.SignedHeader
	vals      *cmttypes.ValidatorSet
	tvals     *cmttypes.ValidatorSet
	height    clienttypes.Height
	headerVB  bool // the checks of Header.ValidateBasic
	trustedLT bool
}

func parse(h *ibctm.Header) parsed {
	var p parsed
	if h == nil || h.SignedHeader == nil || h.SignedHeader.Header == nil {
		return p
	}
	p.height = clienttypes.NewHeight(revisionOf(h.SignedHeader.Header.ChainID), uint64(h.SignedHeader.Header.Height))
	if sh, err := cmttypes.SignedHeaderFromProto(h.SignedHeader); err == nil && sh != nil {
		if sh.ValidateBasic(h.SignedHeader.Header.ChainID) == nil {
			p.wfSigned = true
			p.sh = sh
		}
	}
	if h.ValidatorSet != nil {
		if vs, err := cmttypes.ValidatorSetFromProto(h.ValidatorSet); err == nil {
			p.vals = vs
		}
	}
	if h.TrustedValidators != nil {
		if vs, err := cmttypes.ValidatorSetFromProto(h.TrustedValidators); err == nil {
			p.tvals = vs
		}
	}
	// trusted height strictly below the header height in (revision, height) order
	th := h.TrustedHeight
	p.trustedLT = th.RevisionNumber < p.height.RevisionNumber || (th.RevisionNumber == p.height.RevisionNumber && th.RevisionHeight < p.height.RevisionHeight)
	p.headerVB = p.wfSigned && p.trustedLT && p.vals != nil && bytes.Equal(p.sh.ValidatorsHash, p.vals.Hash())
	return p
}

// refUpdate evaluates a header submitted as a client update.
func refUpdate(cp clientParams, h *ibctm.Header, lookup consLookup, now time.Time, active bool) verdict {
	p := parse(h)
	var v verdict
	fail := func(c string) { v.Failed = append(v.Failed, c) }
	if !active {
		fail("client-active")
	}
	if !p.wfSigned {
		fail("commit-for-this-header")
	}
	if p.vals == nil {
		fail("validator-set-parses")
	}
	if p.tvals == nil {
		fail("trusted-validators-parse")
	}
	cons, stored := lookup(h.TrustedHeight)
	if !stored {
		fail("trusted-state-stored")
	}
	if len(v.Failed) > 0 {
		return v
	}
	hdr := p.sh.Header
	commit := p.sh.Commit
	if hdr.ChainID != cp.ChainID {
		fail("chain-id")
	}
	if !bytes.Equal(p.tvals.Hash(), cons.NextValidatorsHash) {
		fail("trusted-validators-hash")
	}
	if revisionOf(hdr.ChainID) != h.TrustedHeight.RevisionNumber {
		fail("same-revision")
	}
	if !(uint64(hdr.Height) > h.TrustedHeight.RevisionHeight) {
		fail("height-above-trusted")
	}
	if !now.Before(cons.Timestamp.Add(cp.TrustingPeriod)) {
		fail("trusting-period")
	}
	v.WithinDrift = !hdr.Time.After(now.Add(cp.MaxClockDrift))
	if !v.WithinDrift {
		fail("clock-drift")
	}
	if !bytes.Equal(p.vals.Hash(), hdr.ValidatorsHash) {
		fail("validator-set-hash")
	}
	total := totalPower(p.vals.Validators)
	own := signedPower(p.vals.Validators, commit, hdr.ChainID)
	// more than 2/3 of its own set: 3*own > 2*total
	if new(big.Int).Mul(own, big.NewInt(3)).Cmp(new(big.Int).Mul(total, big.NewInt(2))) <= 0 {
		fail("own-power>2/3")
	}
	ttotal := totalPower(p.tvals.Validators)
	overlap := signedPower(p.tvals.Validators, commit, cp.ChainID)
	// at least the trust level of the trusted set: overlap*den >= ttotal*num
	if new(big.Int).Mul(overlap, new(big.Int).SetUint64(cp.TLDen)).Cmp(new(big.Int).Mul(ttotal, new(big.Int).SetUint64(cp.TLNum))) < 0 {
		fail("trusted-power>=trust-level")
	}
	v.N = len(v.Failed) == 0
	v.SameRevision = revisionOf(hdr.ChainID) == h.TrustedHeight.RevisionNumber

	// strict predicate
	if !v.N {
		return v
	}
	gap := func(g string) verdict { v.Gap = g; return v }
	if !p.headerVB {
		return gap("header-validate-basic")
	}
	if !hdr.Time.After(cons.Timestamp) {
		return gap("time-not-after-trusted-time")
	}
	if !hdr.Time.Before(now.Add(cp.MaxClockDrift)) {
		return gap("time-equals-now+drift")
	}
	if uint64(hdr.Height) == h.TrustedHeight.RevisionHeight+1 {
		if !bytes.Equal(hdr.ValidatorsHash, cons.NextValidatorsHash) {
			return gap("adjacent-header-with-other-validator-set")
		}
	} else if !seqTally(p.tvals.Validators, commit, cp.ChainID, floorDiv(ttotal, cp.TLNum, cp.TLDen), false) {
		if new(big.Int).Mul(overlap, new(big.Int).SetUint64(cp.TLDen)).Cmp(new(big.Int).Mul(ttotal, new(big.Int).SetUint64(cp.TLNum))) == 0 {
			return gap("trusted-power-exactly-at-trust-level")
		}
		return gap("trusted-set-signature-walk(invalid-or-duplicate-vote-before-threshold)")
	}
	if !seqTally(p.vals.Validators, commit, cp.ChainID, floorDiv(total, 2, 3), true) {
		return gap("own-set-signature-walk(invalid-vote-or-slot-mismatch-before-threshold)")
	}
	v.E = true
	return v
}

// refMisbehaviourHeader evaluates one header of a misbehaviour message.
func refMisbehaviourHeader(cp clientParams, h *ibctm.Header, lookup consLookup, now time.Time) verdict {
	p := parse(h)
	var v verdict
	fail := func(c string) { v.Failed = append(v.Failed, c) }
	if !p.wfSigned {
		fail("commit-for-this-header")
	}
	if p.vals == nil {
		fail("validator-set-parses")
	}
	if p.tvals == nil {
		fail("trusted-validators-parse")
	}
	cons, stored := lookup(h.TrustedHeight)
	if !stored {
		fail("trusted-state-stored")
	}
	if len(v.Failed) > 0 {
		return v
	}
	hdr := p.sh.Header
	commit := p.sh.Commit
	// the header's chain is the client's chain, possibly in another revision
	expectChain := withRevision(cp.ChainID, revisionOf(hdr.ChainID))
	if hdr.ChainID != expectChain {
		fail("chain-id")
	}
	if !bytes.Equal(p.tvals.Hash(), cons.NextValidatorsHash) {
		fail("trusted-validators-hash")
	}
	if !p.trustedLT {
		fail("height-above-trusted")
	}
	if !now.Before(cons.Timestamp.Add(cp.TrustingPeriod)) {
		fail("trusting-period")
	}
	if !bytes.Equal(p.vals.Hash(), hdr.ValidatorsHash) {
		fail("validator-set-hash")
	}
	total := totalPower(p.vals.Validators)
	own := signedPower(p.vals.Validators, commit, hdr.ChainID)
	if new(big.Int).Mul(own, big.NewInt(3)).Cmp(new(big.Int).Mul(total, big.NewInt(2))) <= 0 {
		fail("own-power>2/3")
	}
	ttotal := totalPower(p.tvals.Validators)
	overlap := signedPower(p.tvals.Validators, commit, expectChain)
	if new(big.Int).Mul(overlap, new(big.Int).SetUint64(cp.TLDen)).Cmp(new(big.Int).Mul(ttotal, new(big.Int).SetUint64(cp.TLNum))) < 0 {
		fail("trusted-power>=trust-level")
	}
	v.N = len(v.Failed) == 0
	v.WithinDrift = !hdr.Time.After(now.Add(cp.MaxClockDrift))
	v.SameRevision = revisionOf(hdr.ChainID) == h.TrustedHeight.RevisionNumber

	e := v.N && p.headerVB && h.TrustedHeight.RevisionHeight != 0
	if e {
		e = seqTally(p.vals.Validators, commit, hdr.ChainID, floorDiv(total, 2, 3), true) &&
			seqTally(p.tvals.Validators, commit, expectChain, floorDiv(ttotal, cp.TLNum, cp.TLDen), false)
	}
	v.E = e
	return v
}

// conflict reports whether two headers conflict: same height with different block hashes, or the
// header at the greater height does not have the later time.
func conflict(h1, h2 *ibctm.Header) bool {
	if h1 == nil || h2 == nil || h1.SignedHeader == nil || h2.SignedHeader == nil || h1.SignedHeader.Header == nil || h2.SignedHeader.Header == nil ||
		h1.SignedHeader.Commit == nil || h2.SignedHeader.Commit == nil {
		return false
	}
	a, b := h1.SignedHeader.Header, h2.SignedHeader.Header
	ha := clienttypes.NewHeight(revisionOf(a.ChainID), uint64(a.Height))
	hb := clienttypes.NewHeight(revisionOf(b.ChainID), uint64(b.Height))
	switch {
	case ha == hb:
		return !bytes.Equal(h1.SignedHeader.Commit.BlockID.Hash, h2.SignedHeader.Commit.BlockID.Hash)
	case ha.RevisionNumber > hb.RevisionNumber || (ha.RevisionNumber == hb.RevisionNumber && ha.RevisionHeight > hb.RevisionHeight):
		return !a.Time.After(b.Time)
	default:
		return !b.Time.After(a.Time)
	}
}

// heightGTE is (revision, height) order.
func heightGTE(a, b clienttypes.Height) bool {
	return a.RevisionNumber > b.RevisionNumber || (a.RevisionNumber == b.RevisionNumber && a.RevisionHeight >= b.RevisionHeight)
}
