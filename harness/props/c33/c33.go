// Package c33 decides C33: a voucher received over a channel can always be sent back over the
// same channel and the origin chain then releases the original native denomination from that
// channel's escrow — for every base denomination the origin chain accepts for transfer,
// including denominations whose names contain '/' segments.
//
// Every base denomination of the stated family is minted on chain A of a real two-chain world
// (real tendermint clients, connection, UNORDERED ics20-1 transfer channel, registered v2
// counterparties) and driven through the unmodified message handlers:
// A -> B (MsgTransfer, or MsgSendPacket with a transfer payload), relay, B -> A of whatever
// denomination the receiver was actually credited with on B (read from B's bank store), relay.
package c33

import (
	"crypto/sha256"
	"encoding/hex"
	"fmt"
	"sort"
	"strings"

	"github.com/cosmos/gogoproto/proto"

	sdkmath "cosmossdk.io/math"

	sdk "github.com/cosmos/cosmos-sdk/types"
	banktypes "github.com/cosmos/cosmos-sdk/x/bank/types"
	minttypes "github.com/cosmos/cosmos-sdk/x/mint/types"

	abci "github.com/cometbft/cometbft/abci/types"

	transfertypes "github.com/cosmos/ibc-go/v11/modules/apps/transfer/types"
	clienttypes "github.com/cosmos/ibc-go/v11/modules/core/02-client/types"
	channeltypes "github.com/cosmos/ibc-go/v11/modules/core/04-channel/types"
	channeltypesv2 "github.com/cosmos/ibc-go/v11/modules/core/04-channel/v2/types"
	ibctesting "github.com/cosmos/ibc-go/v11/testing"

	"verif/harness/core"
	"verif/harness/ksim"
)

func init() { core.Register("C33", "exploration", run) }

// forwardFailureIsViolation: the oracle given for this check demands that BOTH legs succeed for
// every base the origin accepted. A forward leg answered with an error acknowledgement (the
// sender is refunded, no voucher ever exists) is reported under its own key family so that it can
// be classified separately from "a voucher exists and cannot return".
const forwardFailureIsViolation = false

const amount = 5

var words = []string{"uatom", "transfer", "channel-0", "channel-7", "07-tendermint-0", "ibc", "x"}

// three-segment bases of the quick tier (the thorough tier enumerates all 343)
var quickTriples = []string{
	"transfer/channel-7/uatom", "transfer/channel-0/uatom", "transfer/07-tendermint-0/uatom",
	"uatom/channel-7/x", "x/channel-0/ibc", "channel-0/channel-7/channel-0", "uatom/transfer/channel-7",
	"transfer/uatom/channel-7", "uatom/x/uatom", "ibc/transfer/channel-0", "x/07-tendermint-0/07-tendermint-0",
	"uatom/uatom/uatom", "transfer/channel-7/transfer", "transfer/channel-7/channel-7", "x/ibc/x",
	"channel-7/07-tendermint-0/uatom", "transfer/channel-0/x", "transfer/channel-0/07-tendermint-0",
	"uatom/channel-0/transfer", "transfer/transfer/channel-0",
}

type route struct {
	Name     string
	V2       bool
	IDA, IDB string // identifier of the path on A and on B
}

type fixture struct {
	name         string
	wk           *ksim.Worker
	base         *ksim.World
	link         *ksim.Link
	ch           *ksim.ChanPair
	userA, userB sdk.AccAddress
	routes       []route
}

// build creates a world on wk. In the symmetric world both channel ends are channel-0; in the
// asymmetric one chain B first opens a channel end that never completes, so the transfer channel
// is channel-0 on A and channel-1 on B (which makes "the escrow of THAT channel" observable).
func build(c *core.C, wk *ksim.Worker, name string, asym bool) *fixture {
	w := wk.Root()
	l := w.SetupClients(0, 1)
	w.SetupConnection(l, 0)
	if asym {
		ksim.MustOK("dangling channel end on B", w.Tx(1, channeltypes.NewMsgChannelOpenInit(transfertypes.PortID, transfertypes.V1, channeltypes.UNORDERED, []string{l.ConnB}, transfertypes.PortID, ksim.Signer)))
	}
	ch := w.SetupChannel(l, transfertypes.PortID, transfertypes.PortID, transfertypes.V1, channeltypes.UNORDERED)
	w.RegisterCounterparties(l)
	w.Sync(1, l.ClientB, 0)
	w.Sync(0, l.ClientA, 1)
	w.Flatten()
	f := &fixture{name: name, wk: wk, base: w, link: l, ch: ch,
		userA: sdk.AccAddress([]byte("verif-c33-user-a-000")), userB: sdk.AccAddress([]byte("verif-c33-user-b-000"))}
	wantB := "channel-0"
	if asym {
		wantB = "channel-1"
	}
	if ch.ChanA != "channel-0" || ch.ChanB != wantB || l.ClientA != "07-tendermint-0" || l.ClientB != "07-tendermint-0" || ch.Version != transfertypes.V1 {
		c.Broken("unexpected identifiers in world %s: channels %s/%s clients %s/%s version %s (the alphabet is written for channel-0 / 07-tendermint-0)", name, ch.ChanA, ch.ChanB, l.ClientA, l.ClientB, ch.Version)
		return nil
	}
	f.routes = []route{
		{Name: "v1", IDA: ch.ChanA, IDB: ch.ChanB},
		{Name: "v2-alias", V2: true, IDA: ch.ChanA, IDB: ch.ChanB},
	}
	if !asym {
		// the client pair is the same in both worlds
		f.routes = append(f.routes, route{Name: "v2-client", V2: true, IDA: l.ClientA, IDB: l.ClientB})
	}
	return f
}

// ---- bank observation --------------------------------------------------------------------------

type move struct {
	Addr  string // bech32 address, or "supply"
	Denom string
	Delta sdkmath.Int
}

func (m move) String() string { return fmt.Sprintf("%s %s %s", m.Addr, m.Delta, m.Denom) }

// bankDiff lists every balance / supply entry of chain that differs between pre and post.
func bankDiff(pre, post *ksim.World, chain int) []move {
	bank := pre.W.Chains[chain].App.BankKeeper
	keys := ksim.DiffStores(pre.DumpStores(chain, []string{"bank"}), post.DumpStores(chain, []string{"bank"}))
	var out []move
	for _, k := range keys {
		raw := []byte(strings.TrimPrefix(k, "bank/"))
		if len(raw) < 2 {
			continue
		}
		switch raw[0] {
		case 0: // supply: 0x00 | denom
			d := string(raw[1:])
			delta := bank.GetSupply(post.CS[chain].Ctx, d).Amount.Sub(bank.GetSupply(pre.CS[chain].Ctx, d).Amount)
			if !delta.IsZero() {
				out = append(out, move{Addr: "supply", Denom: d, Delta: delta})
			}
		case 2: // balance: 0x02 | len(addr) | addr | denom
			l := int(raw[1])
			if len(raw) < 2+l {
				continue
			}
			addr, d := sdk.AccAddress(raw[2:2+l]), string(raw[2+l:])
			delta := bank.GetBalance(post.CS[chain].Ctx, addr, d).Amount.Sub(bank.GetBalance(pre.CS[chain].Ctx, addr, d).Amount)
			if !delta.IsZero() {
				out = append(out, move{Addr: addr.String(), Denom: d, Delta: delta})
			}
		}
	}
	return out
}

func movesText(ms []move) string {
	s := make([]string, len(ms))
	for i, m := range ms {
		s[i] = m.String()
	}
	return "[" + strings.Join(s, "; ") + "]"
}

func (f *fixture) bal(w *ksim.World, chain int, addr sdk.AccAddress, denom string) sdkmath.Int {
	return w.W.Chains[chain].App.BankKeeper.GetBalance(w.CS[chain].Ctx, addr, denom).Amount
}

// ---- acknowledgements ---------------------------------------------------------------------------

// ackOf extracts the application acknowledgement written by a receive and says whether it is a success.
func ackOf(v2 bool, evs []abci.Event) (app []byte, v2ack channeltypesv2.Acknowledgement, success bool, err error) {
	if v2 {
		bz, err := ibctesting.ParseAckV2FromEvents(evs)
		if err != nil {
			return nil, v2ack, false, err
		}
		if err := proto.Unmarshal(bz, &v2ack); err != nil {
			return nil, v2ack, false, err
		}
		if len(v2ack.AppAcknowledgements) != 1 {
			return nil, v2ack, false, fmt.Errorf("%d application acknowledgements", len(v2ack.AppAcknowledgements))
		}
		app = v2ack.AppAcknowledgements[0]
		if string(app) == string(channeltypesv2.ErrorAcknowledgement[:]) {
			return app, v2ack, false, nil
		}
	} else {
		bz, err := ibctesting.ParseAckFromEvents(evs)
		if err != nil {
			return nil, v2ack, false, err
		}
		app = bz
	}
	var a channeltypes.Acknowledgement
	if err := transfertypes.ModuleCdc.UnmarshalJSON(app, &a); err != nil {
		return app, v2ack, false, nil
	}
	return app, v2ack, a.Success(), nil
}

// recvError digs the application's error text out of the (possibly error-prefixed) receive events.
func recvError(evs []abci.Event) string {
	for _, e := range evs {
		if !strings.HasSuffix(e.Type, transfertypes.EventTypePacket) {
			continue
		}
		for _, a := range e.Attributes {
			// attribute keys of a discarded (error acknowledgement) callback are prefixed as well
			if strings.HasSuffix(a.Key, transfertypes.AttributeKeyAckError) {
				return a.Value
			}
		}
	}
	return ""
}

// ---- one round trip -----------------------------------------------------------------------------

type outcome struct {
	World   string `json:"world"`
	Route   string `json:"route"`
	Base    string `json:"base"`
	PreMeta bool   `json:"voucher_metadata_preregistered_on_B"`
	Code    string `json:"error_code,omitempty"`
	Trivial string `json:"trivial,omitempty"` // why the base is outside the quantifier
	Voucher string `json:"voucher_on_B,omitempty"`
	Path    string `json:"voucher_path_on_B,omitempty"`
	Leg     string `json:"failing_leg,omitempty"`
	Err     string `json:"error,omitempty"`
	Broken  string `json:"-"`
	metaHit bool   // the pre-registered metadata was for exactly the voucher that got credited
}

func resText(r ksim.Result) string {
	if r.Err != nil {
		return r.String() + " " + r.Err.Error()
	}
	return r.String()
}

type sent struct {
	v1 channeltypes.Packet
	v2 channeltypesv2.Packet
}

// send delivers the transfer of coin-denomination `denom` (packet path `path` for v2) from chain src.
func (f *fixture) send(w *ksim.World, rt route, src int, denom, path string, from, to sdk.AccAddress) (sent, ksim.Result) {
	id := rt.IDA
	if src == 1 {
		id = rt.IDB
	}
	dst := 1 - src
	var s sent
	if !rt.V2 {
		msg := transfertypes.NewMsgTransfer(transfertypes.PortID, id, sdk.Coin{Denom: denom, Amount: sdkmath.NewInt(amount)}, from.String(), to.String(), w.Height(dst, 1_000_000), 0, "")
		r := w.Tx(src, msg)
		if r.Class != ksim.OK {
			return s, r
		}
		p, err := ibctesting.ParseV1PacketFromEvents(r.Events)
		if err != nil {
			return s, ksim.Result{Class: ksim.ERR, Code: "harness/no-send-event", Err: err}
		}
		s.v1 = p
		return s, r
	}
	data := transfertypes.NewFungibleTokenPacketData(path, fmt.Sprint(amount), from.String(), to.String(), "")
	bz, err := transfertypes.MarshalPacketData(data, transfertypes.V1, transfertypes.EncodingJSON)
	if err != nil {
		return s, ksim.Result{Class: ksim.ERR, Code: "harness/marshal", Err: err}
	}
	pl := channeltypesv2.NewPayload(transfertypes.PortID, transfertypes.PortID, transfertypes.V1, transfertypes.EncodingJSON, bz)
	_, r := w.SendV2(src, id, uint64(w.CS[src].TimeNs()/1e9)+3600, from.String(), pl)
	if r.Class != ksim.OK {
		return s, r
	}
	p, err := ibctesting.ParseV2PacketFromEvents(r.Events)
	if err != nil {
		return s, ksim.Result{Class: ksim.ERR, Code: "harness/no-send-event", Err: err}
	}
	s.v2 = p
	return s, r
}

func (f *fixture) clientOn(chain int) string {
	if chain == 0 {
		return f.link.ClientA
	}
	return f.link.ClientB
}

// recv commits the sender's block, updates the receiver's client and relays the packet.
func (f *fixture) recv(w *ksim.World, rt route, dst int, s sent) ksim.Result {
	src := 1 - dst
	w.Sync(dst, f.clientOn(dst), src)
	ph := w.ClientLatest(dst, f.clientOn(dst))
	if rt.V2 {
		return w.RecvV2(dst, src, s.v2, ph)
	}
	return w.RecvV1(dst, src, s.v1, ph)
}

// ack relays the acknowledgement written on chain dst back to the sender (the latest consensus state must already cover it).
func (f *fixture) ack(w *ksim.World, rt route, src int, s sent, app []byte, v2ack channeltypesv2.Acknowledgement) ksim.Result {
	dst := 1 - src
	ph := w.ClientLatest(src, f.clientOn(src))
	if rt.V2 {
		return w.AckV2(src, dst, s.v2, v2ack, ph)
	}
	return w.AckV1(src, dst, s.v1, app, ph)
}

// refVoucher is the specification formula for the voucher the destination credits, written independently
// of the implementation: "ibc/" + upper-case hex SHA-256 of "<port>/<destination channel>/<base>".
func refVoucher(id, base string) string {
	h := sha256.Sum256([]byte(transfertypes.PortID + "/" + id + "/" + base))
	return "ibc/" + strings.ToUpper(hex.EncodeToString(h[:]))
}

// roundTrip runs one case. With premeta the destination chain B already has bank denomination metadata for
// the voucher it is going to credit (as a chain registers display metadata for an expected IBC asset through
// genesis, an upgrade or governance) before the first packet of that denomination arrives.
func (f *fixture) roundTrip(rt route, base string, premeta bool) outcome {
	o := outcome{World: f.name, Route: rt.Name, Base: base, PreMeta: premeta}
	w := f.base.Fork()
	if err := sdk.ValidateDenom(base); err != nil {
		// no account can hold such a coin: outside the quantifier. For the record, what the origin's
		// handler answers when asked to send it anyway (an error is expected, not a panic).
		_, r := f.send(w, rt, 0, base, base, f.userA, f.userB)
		o.Trivial = "not-an-sdk-denom(send:" + string(r.Class) + ")"
		if r.Class == ksim.PANIC {
			o.Err = r.Code
		}
		return o
	}
	appA, appB := f.wk.Chains[0].App, f.wk.Chains[1].App
	coins := sdk.Coins{sdk.Coin{Denom: base, Amount: sdkmath.NewInt(amount)}}
	if r := w.Do(0, func(ctx sdk.Context) error {
		if err := appA.BankKeeper.MintCoins(ctx, minttypes.ModuleName, coins); err != nil {
			return err
		}
		return appA.BankKeeper.SendCoinsFromModuleToAccount(ctx, minttypes.ModuleName, f.userA, coins)
	}); r.Class != ksim.OK {
		o.Broken = "cannot mint " + base + " on A: " + resText(r)
		return o
	}
	escrowA := transfertypes.GetEscrowAddress(transfertypes.PortID, rt.IDA)
	escrowStart := f.bal(w, 0, escrowA, base)
	start := w.Fork()

	// ---- leg 1: A -> B ----
	p1, r := f.send(w, rt, 0, base, base, f.userA, f.userB)
	if r.Class != ksim.OK {
		// rejected by the origin chain's own validation / handler: outside the quantifier
		o.Trivial = "origin-rejects:" + r.String()
		return o
	}
	// the origin took exactly the minted coin from the user into this path's escrow
	want := []move{{Addr: escrowA.String(), Denom: base, Delta: sdkmath.NewInt(amount)}, {Addr: f.userA.String(), Denom: base, Delta: sdkmath.NewInt(-amount)}}
	sort.Slice(want, func(i, j int) bool { return want[i].Addr < want[j].Addr })
	got := bankDiff(start, w, 0)
	sort.Slice(got, func(i, j int) bool { return got[i].Addr < got[j].Addr })
	if movesText(got) != movesText(want) {
		o.Broken = fmt.Sprintf("origin accepted the send of %s but moved %s instead of escrowing the coin", base, movesText(got))
		return o
	}
	if premeta {
		v := refVoucher(rt.IDB, base)
		md := banktypes.Metadata{Description: "pre-registered IBC asset", Base: v, Display: v, Name: v, Symbol: "PRE",
			DenomUnits: []*banktypes.DenomUnit{{Denom: v, Exponent: 0}}}
		if r := w.Do(1, func(ctx sdk.Context) error { appB.BankKeeper.SetDenomMetaData(ctx, md); return nil }); r.Class != ksim.OK {
			o.Broken = "cannot pre-register bank metadata on B: " + resText(r)
			return o
		}
	}
	preB := w.Fork()
	rr := f.recv(w, rt, 1, p1)
	if rr.Class != ksim.OK {
		o.Leg, o.Err, o.Code = "forward-recv-tx-"+string(rr.Class), resText(rr), rr.Code
		return o
	}
	app1, v2ack1, ok1, err := ackOf(rt.V2, rr.Events)
	if err != nil {
		o.Broken = "no acknowledgement in forward receive events: " + err.Error()
		return o
	}
	if !ok1 {
		o.Leg, o.Err = "forward-recv-error-ack", recvError(rr.Events)
		return o
	}
	// what the receiver was actually credited with on B
	var credited []move
	for _, m := range bankDiff(preB, w, 1) {
		if m.Addr == f.userB.String() {
			credited = append(credited, m)
		}
	}
	if len(credited) != 1 || !credited[0].Delta.Equal(sdkmath.NewInt(amount)) {
		o.Leg, o.Err = "forward-credit", "success acknowledgement but the receiver's balance changes on B are "+movesText(credited)
		return o
	}
	o.Voucher = credited[0].Denom
	o.metaHit = premeta && o.Voucher == refVoucher(rt.IDB, base)
	o.Path = o.Voucher
	if strings.HasPrefix(o.Voucher, "ibc/") {
		d, err := appB.TransferKeeper.GetDenomFromIBCDenom(w.CS[1].Ctx, o.Voucher)
		switch {
		case err == nil:
			o.Path = d.Path()
		case rt.V2:
			// a v2 sender has to name the path in the payload; without the record nobody can tell it
			o.Leg, o.Err = "return-denom-lookup", "B credited "+o.Voucher+" but its transfer keeper records no denomination for it: "+err.Error()
			return o
		default:
			o.Path = "(B records no denomination for " + o.Voucher + ")" // v1: MsgTransfer names the coin, the module looks the path up itself
		}
	}

	// ---- leg 2: B -> A, the voucher the receiver holds ----
	p2, r2 := f.send(w, rt, 1, o.Voucher, o.Path, f.userB, f.userA)
	if r2.Class != ksim.OK {
		o.Leg, o.Err, o.Code = "return-send", resText(r2), r2.Code
		return o
	}
	r3 := f.recv(w, rt, 0, p2) // commits B (leg-1 ack and leg-2 commitment become provable) and updates A's client
	if ra := f.ack(w, rt, 0, p1, app1, v2ack1); ra.Class != ksim.OK {
		o.Leg, o.Err = "forward-ack-tx-"+string(ra.Class), resText(ra)
		return o
	}
	if r3.Class != ksim.OK {
		o.Leg, o.Err, o.Code = "return-recv-tx-"+string(r3.Class), resText(r3), r3.Code
		return o
	}
	app2, v2ack2, ok2, err := ackOf(rt.V2, r3.Events)
	if err != nil {
		o.Broken = "no acknowledgement in return receive events: " + err.Error()
		return o
	}
	if !ok2 {
		o.Leg, o.Err = "return-recv-error-ack", recvError(r3.Events)
		return o
	}
	w.Sync(1, f.link.ClientB, 0)
	if ra := f.ack(w, rt, 1, p2, app2, v2ack2); ra.Class != ksim.OK {
		o.Leg, o.Err = "return-ack-tx-"+string(ra.Class), resText(ra)
		return o
	}
	// the statement: the original denomination is back with the user, the escrow back at its start
	if ub, eb := f.bal(w, 0, f.userA, base), f.bal(w, 0, escrowA, base); !ub.Equal(sdkmath.NewInt(amount)) || !eb.Equal(escrowStart) {
		o.Leg = "final-state"
		o.Err = fmt.Sprintf("both legs acknowledged success but on A the user holds %s %s (want %d) and the escrow %s (want %s); bank changes on A since the mint: %s", ub, base, amount, eb, escrowStart, movesText(bankDiff(start, w, 0)))
		return o
	}
	return o
}

// ---- keys ---------------------------------------------------------------------------------------

func identifierLike(s string) bool {
	return channeltypes.IsValidChannelID(s) || clienttypes.IsValidClientID(s)
}

// shape abstracts a base denomination to what the path heuristics can see: the first segment (a
// would-be port: "transfer" or anything else, P), identifier-like inner segments literally, other
// inner segments as w, and the last segment as B.
func shape(base string) string {
	segs := strings.Split(base, "/")
	out := make([]string, len(segs))
	for i, s := range segs {
		switch {
		case i == len(segs)-1:
			out[i] = "B"
		case i == 0 && s == transfertypes.PortID:
			out[i] = s
		case i == 0:
			out[i] = "P"
		case identifierLike(s):
			out[i] = s
		default:
			out[i] = "w"
		}
	}
	return strings.Join(out, "/")
}

// report files a failed round trip. ref is the outcome of the same case without pre-registered metadata:
// a failure that is the same with and without it is one finding (same key); a failure that only the
// configuration produces (or changes) gets the configuration in its key.
func (f *fixture) report(c *core.C, o outcome, ref *outcome) {
	if o.Leg == "" {
		return
	}
	fam := "no-return"
	if strings.HasPrefix(o.Leg, "forward-") {
		if !forwardFailureIsViolation {
			c.Hist("forward_failures_not_reported", o.Route+"/"+o.Leg+"/"+shape(o.Base))
			return
		}
		fam = "no-forward"
	}
	key := fmt.Sprintf("%s/%s/%s/base~%s", fam, o.Route, o.Leg, shape(o.Base))
	cfg := ""
	if o.PreMeta {
		cfg = ", bank metadata for the voucher pre-registered on B"
		if ref == nil || ref.Leg != o.Leg || ref.Code != o.Code {
			key += "@voucher-metadata-preregistered"
			if o.Code != "" {
				key += ":" + o.Code
			}
		}
	}
	text := fmt.Sprintf("base denomination %q was accepted by the origin chain A (%s, world %s: channel %s on A / %s on B%s) but the round trip failed at leg %s: %s", o.Base, o.Route, f.name, f.ch.ChanA, f.ch.ChanB, cfg, o.Leg, o.Err)
	if o.Voucher != "" {
		text += fmt.Sprintf(" (B credited %s = %q)", o.Voucher, o.Path)
	}
	c.Violation(key, text, o)
}

// ---- driver -------------------------------------------------------------------------------------

func bases(c *core.C) []string {
	var out []string
	maxSeg := core.Pick(c, 2, 3)
	for n := 1; n <= maxSeg; n++ {
		dims := make([]int, n)
		for i := range dims {
			dims[i] = len(words)
		}
		core.Product(dims, func(idx []int) bool {
			parts := make([]string, n)
			for i, j := range idx {
				parts[i] = words[j]
			}
			out = append(out, strings.Join(parts, "/"))
			return true
		})
	}
	if c.Quick() {
		out = append(out, quickTriples...)
	}
	return out
}

func run(c *core.C) {
	wk := ksim.NewWorker(c.T, 2)
	var worlds []*fixture
	for _, wd := range []struct {
		name string
		asym bool
	}{{"sym", false}, {"asym", true}} {
		f := build(c, wk, wd.name, wd.asym)
		if f == nil {
			return
		}
		worlds = append(worlds, f)
	}
	if c.Replay != "" {
		var o outcome
		if err := c.LoadReplay(&o); err != nil {
			c.Broken("replay: %v", err)
			return
		}
		for _, f := range worlds {
			for _, rt := range f.routes {
				if rt.Name == o.Route && f.name == o.World {
					ref := f.roundTrip(rt, o.Base, false)
					res := ref
					if o.PreMeta {
						res = f.roundTrip(rt, o.Base, true)
					}
					fmt.Printf("replay %s/%s base=%q premeta=%v: trivial=%q leg=%q err=%q\n", f.name, rt.Name, o.Base, o.PreMeta, res.Trivial, res.Leg, res.Err)
					f.report(c, res, &ref)
					c.Sample(res)
				}
			}
		}
		c.Set("evaluations", 1)
		c.Set("distinct_nontrivial", 2)
		c.Set("rule", "replay of one case")
		return
	}
	all := bases(c)
	evals, nontrivial, held, metaHits := 0, 0, 0, 0
	seen := map[string]bool{}
	exhaustive := true
loop:
	for _, f := range worlds {
		for _, b := range all {
			for _, rt := range f.routes {
				if c.TimeUp() {
					exhaustive = false
					break loop
				}
				name := f.name + "/" + rt.Name
				if seen[name+"|"+b] {
					continue
				}
				seen[name+"|"+b] = true
				var ref outcome
				for _, premeta := range []bool{false, true} {
					evals++
					o := f.roundTrip(rt, b, premeta)
					if !premeta {
						ref = o
					}
					if o.Broken != "" {
						c.Broken("%s base %q: %s", name, b, o.Broken)
						return
					}
					if o.Trivial != "" {
						c.Hist("outside_quantifier", name+":"+o.Trivial)
						if o.Err != "" {
							c.Hist("origin_handler_panics_on_non_sdk_denoms(info)", name+": "+o.Err)
						}
						break // the destination's configuration cannot matter for a send the origin refuses
					}
					cname := name
					if premeta {
						cname += "+premeta"
					}
					nontrivial++
					if o.metaHit {
						metaHits++
					}
					c.Hist("accepted_by_segments", fmt.Sprintf("%s:%d", cname, strings.Count(b, "/")+1))
					if o.Leg == "" {
						held++
						c.Hist("round_trips_completed", cname)
						if held%23 == 1 {
							c.Sample(o)
						}
					} else {
						c.Hist("round_trips_failed", cname+":"+o.Leg)
						c.Hist("failed_shapes", cname+":"+o.Leg+":"+shape(b))
						f.report(c, o, &ref)
					}
				}
			}
		}
	}
	if exhaustive && metaHits == 0 {
		c.Broken("the pre-registered metadata never matched a credited voucher: the configuration dimension is ineffective")
	}
	c.Set("premeta_cases_where_the_credited_voucher_had_preregistered_metadata", metaHits)
	c.Set("evaluations", evals)
	c.Set("distinct_nontrivial", nontrivial)
	c.Set("round_trips_held", held)
	c.Set("bases", len(all))
	c.Set("worlds", "sym: transfer channel is channel-0 on both chains; asym: channel-0 on A, channel-1 on B")
	c.Set("exhaustive", exhaustive)
	c.Set("rule", "every '/'-joined string of 1..2 (quick; plus a fixed list of 3-segment strings) or 1..3 (thorough) segments over {uatom, transfer, channel-0, channel-7, 07-tendermint-0, ibc, x} as a base denomination x route in {v1 MsgTransfer over the channel, v2 MsgSendPacket over the channel's alias, v2 MsgSendPacket over 07-tendermint-0} x world in {sym, asym} x destination configuration in {no bank metadata for the voucher, bank metadata for the voucher (ibc/ + SHA-256 of the full path, computed independently) registered on B before the first receive}; a case is non-trivial (inside the quantifier) when the string is an SDK denomination AND the origin chain's real handler accepts the first send; evaluations = (world, route, base, configuration) cases, distinct_nontrivial = distinct cases whose round trip was executed")
	c.Assume("origin acceptance = sdk.ValidateDenom (needed to mint the coin) + MsgTransfer.ValidateBasic + the Transfer handler (v1), or MsgSendPacket.ValidateBasic + the transfer application's OnSendPacket (v2), all on chain A")
	c.Assume("the return leg sends the denomination the receiver was credited with on B as read from B's bank store; for v2 the payload path is the one B's transfer keeper records for that voucher")
	c.Assume("an honest relayer: each packet and acknowledgement relayed once with a fresh proof; 5 units, receiver of the return leg = the original sender")
	c.Assume("a failure that is identical (leg and error code) with and without pre-registered voucher metadata is one finding; a failure that only occurs, or changes, with the metadata carries @voucher-metadata-preregistered in its key")
	c.Assume("violation keys abstract the base denomination to its shape (first segment transfer|P, identifier-like inner segments literally, last segment B) and do not name the world: a shape failing at the same leg in both worlds is one finding")
}
