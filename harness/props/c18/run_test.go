package c18

import (
	"testing"

	"verif/harness/core"
)

func TestRun(t *testing.T) { core.RunFromEnv(t) }
