// Package c18 decides C18: a 23-commitment membership proof verifies only for exactly the
// committed (store, key, value) under the root, a non-membership proof only for an absent
// key; altering the root, a path element, the value, the spec list or any proof step makes
// verification fail; BuildMerklePath never changes the caller's prefix.
//
// Technique: exhaustive enumeration. Every content of a small key universe is written into a
// real two-store rootmulti (IAVL) store; genuine two-level proofs come from rootmulti.Query
// and go through the production MerkleProof.VerifyMembership / VerifyNonMembership with the
// SDK proof specs. Then every single mutation (proof bytes, proof structure, path, value,
// root, spec list) and every cross claim (any proof × any claimed store/key/value) is
// verified; the reference is the plain map holding the store content.
package c18

import (
	"bytes"
	"crypto/sha256"
	"encoding/hex"
	"fmt"
	"sort"
	"strings"

	dbm "github.com/cosmos/cosmos-db"
	ics23 "github.com/cosmos/ics23/go"

	"cosmossdk.io/log/v2"

	"github.com/cosmos/cosmos-sdk/store/v2/rootmulti"
	storetypes "github.com/cosmos/cosmos-sdk/store/v2/types"

	channeltypesv2 "github.com/cosmos/ibc-go/v11/modules/core/04-channel/v2/types"
	commitmenttypes "github.com/cosmos/ibc-go/v11/modules/core/23-commitment/types"
	"github.com/cosmos/ibc-go/v11/modules/core/exported"

	"verif/harness/core"
)

func init() { core.Register("C18", "exploration", run) }

const (
	storeA = "ibc"      // the store whose contents are enumerated
	storeB = "transfer" // the second store of the multistore
)

// kv is an ordered store content.
type kv [][2]string

func (s kv) get(k string) (string, bool) {
	for _, e := range s {
		if e[0] == k {
			return e[1], true
		}
	}
	return "", false
}

func (s kv) String() string {
	var parts []string
	for _, e := range s {
		parts = append(parts, fmt.Sprintf("%q=%q", e[0], e[1]))
	}
	return "{" + strings.Join(parts, ",") + "}"
}

// world is one committed two-store multistore plus its reference content.
type world struct {
	rs      *rootmulti.Store
	root    []byte
	content map[string]kv // store name -> content
}

func build(a, b kv) (*world, error) {
	db := dbm.NewMemDB()
	rs := rootmulti.NewStore(db, log.NewNopLogger())
	keys := map[string]*storetypes.KVStoreKey{}
	for _, name := range []string{storeA, storeB} {
		k := storetypes.NewKVStoreKey(name)
		keys[name] = k
		rs.MountStoreWithDB(k, storetypes.StoreTypeIAVL, nil)
	}
	if err := rs.LoadLatestVersion(); err != nil {
		return nil, err
	}
	for name, lst := range map[string]kv{storeA: a, storeB: b} {
		st := rs.GetKVStore(keys[name])
		for _, e := range lst {
			st.Set([]byte(e[0]), []byte(e[1]))
		}
	}
	cid := rs.Commit()
	return &world{rs: rs, root: cid.Hash, content: map[string]kv{storeA: a, storeB: b}}, nil
}

// genuine is a proof obtained from the real store for (store, key).
type genuine struct {
	store, key string
	present    bool
	value      string
	proof      commitmenttypes.MerkleProof
	bz         []byte
}

// query asks the real multistore for the proof of key (height 1 = the only commit).
func (w *world) query(store, key string) (g *genuine, err error) {
	if p := core.Catch(func() {
		res, qerr := w.rs.Query(&storetypes.RequestQuery{Path: "/" + store + "/key", Data: []byte(key), Height: 1, Prove: true})
		if qerr != nil {
			err = qerr
			return
		}
		mp, cerr := commitmenttypes.ConvertProofs(res.ProofOps)
		if cerr != nil {
			err = cerr
			return
		}
		bz, merr := mp.Marshal()
		if merr != nil {
			err = merr
			return
		}
		want, present := w.content[store].get(key)
		if present != (res.Value != nil) || (present && want != string(res.Value)) {
			err = fmt.Errorf("store returned value %q for %q, reference content says present=%v %q", res.Value, key, present, want)
			return
		}
		g = &genuine{store: store, key: key, present: present, value: want, proof: mp, bz: bz}
	}); p != "" {
		return nil, fmt.Errorf("query panicked: %s", p)
	}
	return g, err
}

// ---------------------------------------------------------------------------------------
// one verifier call

var specByName = map[string]*ics23.ProofSpec{"iavl": ics23.IavlSpec, "tm": ics23.TendermintSpec, "nil": nil}

func specList(names []string) []*ics23.ProofSpec {
	if names == nil {
		return nil
	}
	out := make([]*ics23.ProofSpec, len(names))
	for i, n := range names {
		s, ok := specByName[n]
		if !ok {
			panic("unknown spec name " + n)
		}
		out[i] = s
	}
	return out
}

// Case is one concrete verifier call and what the property demands of it; it is also the
// replay artefact (all byte strings hex encoded).
type Case struct {
	Class    string   `json:"class"`
	Mutation string   `json:"mutation"`
	Expect   string   `json:"expect"` // "accept" | "reject" | "sound" (accept only if Truth)
	Truth    bool     `json:"claim_is_true_in_store"`
	Member   bool     `json:"membership"`
	Proof    string   `json:"proof_hex"`
	Orig     string   `json:"genuine_proof_hex"`
	Root     string   `json:"root_hex"`
	NilRoot  bool     `json:"nil_root_interface"`
	Path     []string `json:"path_hex"`
	Value    string   `json:"value_hex"`
	NilValue bool     `json:"nil_value"`
	Specs    []string `json:"specs"` // names: iavl, tm, nil; JSON null = nil list
	Content  string   `json:"store_content"`
	ProofFor string   `json:"proof_generated_for"`
}

// call runs the production verifier. accepted=false on error or panic.
func call(member bool, proof commitmenttypes.MerkleProof, specs []*ics23.ProofSpec, root exported.Root, path [][]byte, value []byte) (accepted bool, panicked string) {
	panicked = core.Catch(func() {
		mp := commitmenttypes.NewMerklePath(path...)
		var err error
		if member {
			err = proof.VerifyMembership(specs, root, mp, value)
		} else {
			err = proof.VerifyNonMembership(specs, root, mp)
		}
		accepted = err == nil
	})
	if panicked != "" {
		accepted = false
	}
	return
}

// normalise re-encodes a decoded proof with the fields that no verification step reads
// cleared: NonExistenceProof.Key is an advisory copy of the key (the verified key is the
// path element), see ics23 NonExistenceProof.Verify.
func normalise(p commitmenttypes.MerkleProof) []byte {
	var q commitmenttypes.MerkleProof
	bz, err := p.Marshal()
	if err != nil {
		return nil
	}
	if err := q.Unmarshal(bz); err != nil {
		return nil
	}
	for _, cp := range q.Proofs {
		if ne := cp.GetNonexist(); ne != nil {
			ne.Key = nil
		}
	}
	out, _ := q.Marshal()
	return out
}

// ---------------------------------------------------------------------------------------

type checker struct {
	c        *core.C
	stop     bool
	seen     map[[32]byte]struct{} // distinct verifier inputs for the current genuine proof
	w        *world
	g        *genuine
	evals    int
	distinct int // distinct verifier inputs
	nontriv  int // … that pass the length / emptiness validation, so that the hash chain is evaluated
	reported map[string]int
	sampled  map[string]bool
	// descriptions used in violation keys / replay artefacts
	content, proofFor string
}

func hexs(bs [][]byte) []string {
	out := make([]string, len(bs))
	for i, b := range bs {
		out[i] = hex.EncodeToString(b)
	}
	return out
}

// try evaluates one verifier call against the expectation.
//
//	expect "accept": the call must succeed (genuine proofs)
//	expect "reject": the call must fail
//	expect "sound" : the call may succeed only if truth (the claim holds in the store)
//
// proofBz is the (possibly mutated) marshalled proof; it is decoded here with the production
// Unmarshal. A mutant that still verifies is a violation unless it decodes to the identical
// proof (encoding-equivalent) or differs only in fields no verification step reads.
func (k *checker) try(class, mutation, expect string, truth, member bool, proofBz []byte, specNames []string, root []byte, nilRoot bool, path [][]byte, value []byte) {
	// distinctness of the concrete verifier input
	hsh := sha256.New()
	wr := func(b []byte) { fmt.Fprintf(hsh, "%d:", len(b)); hsh.Write(b) }
	fmt.Fprintf(hsh, "%v|%v|%v|", member, nilRoot, specNames == nil)
	wr(proofBz)
	wr(root)
	fmt.Fprintf(hsh, "p%d|", len(path))
	for _, e := range path {
		wr(e)
	}
	fmt.Fprintf(hsh, "v%v|", value == nil)
	wr(value)
	wr([]byte(strings.Join(specNames, ",")))
	var id [32]byte
	copy(id[:], hsh.Sum(nil))
	if _, dup := k.seen[id]; dup {
		k.c.Add("duplicate_inputs_skipped", 1)
		return
	}
	k.seen[id] = struct{}{}
	k.distinct++
	k.evals++
	k.c.Hist("evaluations_by_class", class)
	if k.evals%2048 == 0 && k.c.TimeUp() {
		k.stop = true
	}

	mk := func() Case {
		cs := Case{Class: class, Mutation: mutation, Expect: expect, Truth: truth, Member: member, Proof: hex.EncodeToString(proofBz),
			Root: hex.EncodeToString(root), NilRoot: nilRoot, Path: hexs(path), Value: hex.EncodeToString(value), NilValue: value == nil, Specs: specNames}
		if k.g != nil {
			cs.Orig = hex.EncodeToString(k.g.bz)
		}
		cs.Content, cs.ProofFor = k.content, k.proofFor
		return cs
	}
	viol := func(what string) {
		k.c.Hist("violations_by_class", class)
		if k.reported[class] >= 4 {
			return
		}
		k.reported[class]++
		cs := mk()
		key := fmt.Sprintf("%s/%s/%s/proof-for=%s/%s", class, map[bool]string{true: "membership", false: "non-membership"}[member], cs.Content, cs.ProofFor, mutation)
		k.c.Violation(key, what, cs)
	}

	var proof commitmenttypes.MerkleProof
	if err := proof.Unmarshal(proofBz); err != nil {
		k.c.Hist("outcomes", "rejected: proof bytes do not decode")
		if expect == "accept" {
			viol("a genuine proof does not decode: " + err.Error())
		}
		return
	}
	var rt exported.Root
	if !nilRoot {
		rt = commitmenttypes.NewMerkleRoot(root)
	}
	specs := specList(specNames)
	// does the input get past the length / emptiness validation (reference re-statement of it)?
	wellFormed := proof.Proofs != nil && !nilRoot && len(root) > 0 && len(specs) == len(proof.Proofs) && len(path) == len(specs)
	for _, s := range specs {
		wellFormed = wellFormed && s != nil
	}
	if wellFormed {
		k.nontriv++
	}
	ok, pan := call(member, proof, specs, rt, path, value)
	if pan != "" {
		k.c.Hist("outcomes", "rejected: verifier panicked")
		k.c.Hist("verifier_panics", class)
		if !k.sampled["panic"] {
			k.sampled["panic"] = true
			k.c.Sample(map[string]any{"note": "verifier panicked (counted as rejection)", "panic": pan, "case": mk()})
		}
	}
	switch {
	case expect == "accept":
		if !ok {
			viol("a genuine proof is rejected")
		} else {
			k.c.Hist("outcomes", "accepted: genuine")
		}
	case !ok:
		if expect == "sound" && truth {
			k.c.Hist("outcomes", "rejected although the claim is true ("+class+"; allowed, the statement is 'only if')")
		} else {
			k.c.Hist("outcomes", "rejected")
		}
	case expect == "sound" && truth:
		// e.g. the non-membership proof of a neighbouring absent key in the same gap
		k.c.Hist("outcomes", "accepted: claim is true in the store ("+class+")")
	case class == "proof-bytes" || class == "proof-structure":
		// accepted although the proof was altered: only harmless if nothing that is verified changed
		re, _ := proof.Marshal()
		switch {
		case k.g != nil && bytes.Equal(re, k.g.bz):
			k.c.Hist("outcomes", "accepted: mutant decodes to the identical proof (encoding-equivalent)")
			k.c.Add("encoding_equivalent_mutants", 1)
		case k.g != nil && bytes.Equal(normalise(proof), normalise(k.g.proof)):
			k.c.Hist("outcomes", "accepted: mutant differs only in NonExistenceProof.Key (read by no verification step)")
			k.c.Add("unread_field_mutants", 1)
		default:
			viol("an altered proof still verifies and decodes to a different proof")
		}
	default:
		viol(fmt.Sprintf("verification succeeded (membership=%v path=%q value=%q root=%x specs=%v)", member, path, value, root, specNames))
	}
}

var sdk = []string{"iavl", "tm"}

// keyUniverse returns the keys over which contents are enumerated and the extra keys that
// are never present (left of all, between, right of all).
func keyUniverse(c *core.C) (keys, extra []string) {
	keys = []string{"a", "a/1", "a/2", "b"}
	extra = []string{"0", "a/15", "z"}
	if !c.Quick() {
		keys = append(keys, "b\x00")
	}
	return
}

func run(c *core.C) {
	if c.Replay != "" {
		replay(c)
		return
	}
	k := &checker{c: c, reported: map[string]int{}, sampled: map[string]bool{}, seen: map[[32]byte]struct{}{}}
	keys, extra := keyUniverse(c)
	values := []string{"v", "w"}
	others := core.Pick(c, []kv{{{"a", "v"}}}, []kv{{{"a", "v"}}, {}, {{"a", "w"}, {"z", "v"}}})
	universe := append(append([]string{}, keys...), extra...)
	sort.Strings(universe)

	// every content: each key absent or holding one of the values
	dims := make([]int, len(keys))
	for i := range dims {
		dims[i] = 1 + len(values)
	}
	var contents []kv
	core.Product(dims, func(ix []int) bool {
		var s kv
		for i, j := range ix {
			if j > 0 {
				s = append(s, [2]string{keys[i], values[j-1]})
			}
		}
		contents = append(contents, s)
		return true
	})
	if !c.Quick() {
		// long and binary values, many keys (deeper IAVL tree)
		contents = append(contents,
			kv{{"a", strings.Repeat("x", 40)}, {"a/1", "\x00"}, {"b", "\xff\xff"}},
			kv{{"a", "v"}, {"a/1", "v"}, {"a/2", "v"}, {"a/3", "v"}, {"a/4", "v"}, {"a/5", "v"}, {"a/6", "v"}, {"a/7", "v"}, {"b", "v"}},
		)
	}

	worlds, proofs := 0, 0
	var prevRoot []byte
outer:
	for _, other := range others {
		for _, content := range contents {
			w, err := build(content, other)
			if err != nil {
				c.Broken("cannot build store %s: %v", content, err)
				return
			}
			worlds++
			k.w = w
			k.content = fmt.Sprintf("%s=%s %s=%s", storeA, content, storeB, other)
			// genuine proofs for every key of the universe in both stores
			var gens []*genuine
			for _, st := range []string{storeA, storeB} {
				for _, key := range universe {
					g, err := w.query(st, key)
					if err != nil {
						if len(w.content[st]) == 0 {
							// an empty IAVL store cannot produce (non-)membership proofs
							c.Hist("proofs", "unobtainable: empty store")
							continue
						}
						c.Broken("query %s/%q in %s: %v", st, key, w.content[st], err)
						return
					}
					gens = append(gens, g)
					c.Hist("proofs", map[bool]string{true: "membership", false: "non-membership"}[g.present]+" "+st)
				}
			}
			other2 := prevRoot
			if other2 == nil {
				other2 = bytes.Repeat([]byte{0x11}, 32)
			}
			for _, g := range gens {
				k.g = g
				k.proofFor = fmt.Sprintf("%s/%q present=%v", g.store, g.key, g.present)
				k.seen = map[[32]byte]struct{}{}
				proofs++
				k.genuineAndCross(universe, values)
				if g.store == storeA {
					k.mutants(universe, other2)
				}
				if k.stop {
					break outer
				}
			}
			prevRoot = w.root
			if worlds == 5 {
				g := gens[0]
				c.Sample(map[string]any{"content": fmt.Sprintf("%s=%s %s=%s", storeA, content, storeB, other), "root": hex.EncodeToString(w.root), "proof_for": g.store + "/" + g.key, "present": g.present, "proof_bytes": len(g.bz), "proof_hex": hex.EncodeToString(g.bz)})
			}
		}
	}
	k.w, k.g = nil, nil
	k.aliasing()

	c.Set("evaluations", k.evals)
	c.Set("distinct_inputs", k.distinct)
	c.Set("distinct_nontrivial", k.nontriv)
	c.Set("stores_built", worlds)
	c.Set("genuine_proofs", proofs)
	c.Set("key_universe", fmt.Sprintf("%q", universe))
	c.Set("rule", "evaluations = distinct concrete verifier inputs (proof bytes, spec list, root, path, value) handed to the production Unmarshal + VerifyMembership/VerifyNonMembership, plus BuildMerklePath calls; "+
		"distinct_nontrivial = those verifier inputs that decode and pass the length/emptiness argument validation (so the ICS-23 hash chain itself decides), de-duplicated per genuine proof by a hash of the full input")
	c.Assume("the store content map is the reference: a membership claim is true iff map[key]==value, a non-membership claim iff the key is not in the map")
	c.Assume("rootmulti/IAVL (cosmos-sdk store v2, iavl) produce the genuine proofs and the root; ics23 and SHA-256 are the trusted base of the verifier under test")
	c.Assume("an accepted proof-byte mutant is not a violation when it re-encodes to the genuine proof bytes, or differs from it only in NonExistenceProof.Key, which no verification step reads (the verified key is the path element); both are counted separately")
	c.Assume("a non-membership proof may legitimately verify another absent key of the same gap; this is accepted only when the reference map says the claimed key is absent")
	c.Assume("an empty IAVL store yields no proofs (Query fails / verification reports an empty tree); such stores are still enumerated and every proof taken from the sibling store is cross-checked against them")
}

// genuineAndCross verifies the genuine claim and every other claim with the genuine proof.
func (k *checker) genuineAndCross(universe, values []string) {
	g, w := k.g, k.w
	path := [][]byte{[]byte(g.store), []byte(g.key)}
	if g.present {
		k.try("genuine", "membership", "accept", true, true, g.bz, sdk, w.root, false, path, []byte(g.value))
		k.try("wrong-kind", "non-membership of a present key with its membership proof", "reject", false, false, g.bz, sdk, w.root, false, path, nil)
	} else {
		if len(w.content[g.store]) == 0 {
			// absence from an empty IAVL store cannot be proven (the verifier reports "merkle tree is
			// likely empty"); the statement only says "verifies only if absent", so nothing is demanded
			k.try("genuine-empty-store", "non-membership", "sound", true, false, g.bz, sdk, w.root, false, path, nil)
		} else {
			k.try("genuine", "non-membership", "accept", true, false, g.bz, sdk, w.root, false, path, nil)
		}
		for _, v := range values {
			k.try("wrong-kind", "membership of an absent key with its non-membership proof, value "+v, "reject", false, true, g.bz, sdk, w.root, false, path, []byte(v))
		}
	}
	// cross claims: this proof, any store, any key, any value
	claimVals := append([]string{}, values...)
	if g.present && g.value != "v" && g.value != "w" {
		claimVals = append(claimVals, g.value)
	}
	for _, st := range []string{storeA, storeB} {
		for _, key := range universe {
			p := [][]byte{[]byte(st), []byte(key)}
			cur, present := w.content[st].get(key)
			for _, v := range claimVals {
				if st == g.store && key == g.key && g.present && v == g.value {
					continue // the genuine claim
				}
				// any membership claim other than the genuine one must fail: either it is false,
				// or the proof was generated for another path
				k.try("cross-claim", fmt.Sprintf("membership %s/%q=%q", st, key, v), "reject", present && cur == v, true, g.bz, sdk, w.root, false, p, []byte(v))
			}
			if st == g.store && key == g.key && !g.present {
				continue
			}
			if st != g.store {
				k.try("cross-claim", fmt.Sprintf("non-membership %s/%q (other store)", st, key), "reject", !present, false, g.bz, sdk, w.root, false, p, nil)
			} else {
				k.try("cross-claim", fmt.Sprintf("non-membership %s/%q", st, key), "sound", !present, false, g.bz, sdk, w.root, false, p, nil)
			}
		}
	}
}

// mutants applies every single mutation to the genuine claim of k.g.
func (k *checker) mutants(universe []string, otherRoot []byte) {
	g, w := k.g, k.w
	member := g.present
	var value []byte
	if member {
		value = []byte(g.value)
	}
	path := [][]byte{[]byte(g.store), []byte(g.key)}
	reject := func(class, mut string, bz []byte, specs []string, root []byte, nilRoot bool, p [][]byte, val []byte) {
		k.try(class, mut, "reject", false, member, bz, specs, root, nilRoot, p, val)
	}

	// 1. proof bytes
	core.Mutations(g.bz, func(m core.Mutation) bool {
		reject("proof-bytes", m.Name, m.Out, sdk, w.root, false, path, value)
		return !k.stop
	})

	// 2. proof structure
	enc := func(ps ...*ics23.CommitmentProof) []byte {
		bz, err := (&commitmenttypes.MerkleProof{Proofs: ps}).Marshal()
		if err != nil {
			panic(err)
		}
		return bz
	}
	ps := g.proof.Proofs
	if len(ps) == 2 {
		reject("proof-structure", "drop proof 0", enc(ps[1]), sdk, w.root, false, path, value)
		reject("proof-structure", "drop proof 1", enc(ps[0]), sdk, w.root, false, path, value)
		reject("proof-structure", "swap proofs", enc(ps[1], ps[0]), sdk, w.root, false, path, value)
		reject("proof-structure", "duplicate proof 0", enc(ps[0], ps[0]), sdk, w.root, false, path, value)
		reject("proof-structure", "duplicate proof 1", enc(ps[1], ps[1]), sdk, w.root, false, path, value)
		reject("proof-structure", "append proof 1", enc(ps[0], ps[1], ps[1]), sdk, w.root, false, path, value)
		reject("proof-structure", "no proofs", enc(), sdk, w.root, false, path, value)
		// sub-proof levels with matching single-element arguments: the store proof alone must not
		// verify against the multistore root, nor the multistore proof for the key
		reject("proof-structure", "store-level proof only, one spec, one path element", enc(ps[0]), []string{"iavl"}, w.root, false, [][]byte{[]byte(g.key)}, value)
		if ex := ps[0].GetExist(); ex != nil {
			// inner ops dropped / duplicated / reordered
			for i := range ex.Path {
				cp := *ex
				cp.Path = append(append([]*ics23.InnerOp{}, ex.Path[:i]...), ex.Path[i+1:]...)
				reject("proof-structure", fmt.Sprintf("drop inner op %d", i), enc(&ics23.CommitmentProof{Proof: &ics23.CommitmentProof_Exist{Exist: &cp}}, ps[1]), sdk, w.root, false, path, value)
				dp := *ex
				dp.Path = append(append(append([]*ics23.InnerOp{}, ex.Path[:i+1]...), ex.Path[i]), ex.Path[i+1:]...)
				reject("proof-structure", fmt.Sprintf("duplicate inner op %d", i), enc(&ics23.CommitmentProof{Proof: &ics23.CommitmentProof_Exist{Exist: &dp}}, ps[1]), sdk, w.root, false, path, value)
			}
		}
		if ne := ps[0].GetNonexist(); ne != nil {
			if ne.Left != nil {
				cp := *ne
				cp.Left = nil
				reject("proof-structure", "drop left neighbour", enc(&ics23.CommitmentProof{Proof: &ics23.CommitmentProof_Nonexist{Nonexist: &cp}}, ps[1]), sdk, w.root, false, path, value)
			}
			if ne.Right != nil {
				cp := *ne
				cp.Right = nil
				reject("proof-structure", "drop right neighbour", enc(&ics23.CommitmentProof{Proof: &ics23.CommitmentProof_Nonexist{Nonexist: &cp}}, ps[1]), sdk, w.root, false, path, value)
			}
			if ne.Left != nil && ne.Right != nil {
				cp := *ne
				cp.Left, cp.Right = ne.Right, ne.Left
				reject("proof-structure", "swap neighbours", enc(&ics23.CommitmentProof{Proof: &ics23.CommitmentProof_Nonexist{Nonexist: &cp}}, ps[1]), sdk, w.root, false, path, value)
			}
		}
	}

	// 3. path: store element, key element, structure
	core.Mutations([]byte(g.store), func(m core.Mutation) bool {
		reject("path-store", m.Name, g.bz, sdk, w.root, false, [][]byte{m.Out, []byte(g.key)}, value)
		return true
	})
	reject("path-store", "other store", g.bz, sdk, w.root, false, [][]byte{[]byte(storeB), []byte(g.key)}, value)
	reject("path-store", "empty", g.bz, sdk, w.root, false, [][]byte{{}, []byte(g.key)}, value)
	reject("path-store", "nil", g.bz, sdk, w.root, false, [][]byte{nil, []byte(g.key)}, value)
	keyMut := func(name string, nk []byte) {
		if string(nk) == g.key {
			return
		}
		p := [][]byte{[]byte(g.store), nk}
		if member {
			reject("path-key", name, g.bz, sdk, w.root, false, p, value)
			return
		}
		// non-membership: the altered key must be rejected whenever it is present
		_, present := w.content[g.store].get(string(nk))
		k.try("path-key", name, "sound", !present, false, g.bz, sdk, w.root, false, p, nil)
	}
	core.Mutations([]byte(g.key), func(m core.Mutation) bool { keyMut(m.Name, m.Out); return true })
	for _, o := range universe {
		keyMut("other key "+o, []byte(o))
	}
	keyMut("empty", []byte{})
	keyMut("nil", nil)
	keyMut("store name", []byte(g.store))
	keyMut("store/key", []byte(g.store+"/"+g.key))
	st, ky := []byte(g.store), []byte(g.key)
	for _, m := range []struct {
		name string
		p    [][]byte
	}{
		{"missing store element", [][]byte{ky}},
		{"missing key element", [][]byte{st}},
		{"empty path", [][]byte{}},
		{"nil path", nil},
		{"swapped", [][]byte{ky, st}},
		{"extra leading empty", [][]byte{{}, st, ky}},
		{"extra trailing key", [][]byte{st, ky, ky}},
		{"extra leading store", [][]byte{st, st, ky}},
		{"joined into one element", [][]byte{[]byte(g.store + g.key)}},
		{"joined with slash", [][]byte{[]byte(g.store + "/" + g.key)}},
		{"boundary shifted right", [][]byte{[]byte(g.store + g.key[:1]), []byte(g.key[1:])}},
		{"boundary shifted left", [][]byte{[]byte(g.store[:len(g.store)-1]), []byte(g.store[len(g.store)-1:] + g.key)}},
	} {
		reject("path-structure", m.name, g.bz, sdk, w.root, false, m.p, value)
	}

	// 4. value (membership only)
	if member {
		core.Mutations(value, func(m core.Mutation) bool {
			reject("value", m.Name, g.bz, sdk, w.root, false, path, m.Out)
			return true
		})
		reject("value", "empty", g.bz, sdk, w.root, false, path, []byte{})
		reject("value", "nil", g.bz, sdk, w.root, false, path, nil)
		reject("value", "doubled", g.bz, sdk, w.root, false, path, append(append([]byte{}, value...), value...))
		for _, o := range []string{"v", "w", "V"} {
			if o != g.value {
				reject("value", "other value "+o, g.bz, sdk, w.root, false, path, []byte(o))
			}
		}
		if sub, err := g.proof.Proofs[0].Calculate(); err == nil {
			reject("value", "store root as value", g.bz, sdk, w.root, false, path, sub)
		}
	}

	// 5. root
	core.Mutations(w.root, func(m core.Mutation) bool {
		reject("root", m.Name, g.bz, sdk, m.Out, false, path, value)
		return true
	})
	reject("root", "empty", g.bz, sdk, []byte{}, false, path, value)
	reject("root", "nil hash", g.bz, sdk, nil, false, path, value)
	reject("root", "nil interface", g.bz, sdk, nil, true, path, value)
	reject("root", "root of another store content", g.bz, sdk, otherRoot, false, path, value)
	if sub, err := g.proof.Proofs[0].Calculate(); err == nil {
		reject("root", "sub-store root", g.bz, sdk, sub, false, path, value)
	}

	// 6. spec list
	//    wrong length or a nil entry must be rejected (argument validation). A list of the right
	//    length with another spec substituted leaves the claim itself untouched, so the statement
	//    only demands soundness: it may verify (the IAVL and Tendermint leaf specs coincide, so a
	//    single-leaf IAVL store also satisfies the Tendermint spec) and the claim is true.
	for _, s := range [][]string{nil, {}, {"iavl"}, {"tm"}, {"iavl", "tm", "tm"}, {"iavl", "iavl", "tm"}, {"nil", "tm"}, {"iavl", "nil"}, {"nil", "nil"}} {
		name := "nil list"
		if s != nil {
			name = "[" + strings.Join(s, ",") + "]"
		}
		reject("specs", name, g.bz, s, w.root, false, path, value)
	}
	for _, s := range [][]string{{"tm", "iavl"}, {"iavl", "iavl"}, {"tm", "tm"}} {
		k.try("specs-substituted", "["+strings.Join(s, ",")+"]", "sound", true, member, g.bz, s, w.root, false, path, value)
	}
}

// ---------------------------------------------------------------------------------------
// BuildMerklePath aliasing

// strictSpareCapacity, when true, would also demand that the bytes between len and cap of the
// caller's last prefix element stay unchanged. The property statement speaks of the caller's
// prefix (its elements as the caller sees them), so the oracle only demands that; writes into
// the spare capacity are counted and reported as an observation.
const strictSpareCapacity = false

func (k *checker) aliasing() {
	c := k.c
	elems := []string{"", "i", "ibc"}
	paths := []string{"", "x", "xyz", "commitments/ports/transfer/channels/channel-0/sequences/1"}
	maxN := core.Pick(c, 2, 3)
	maxCap := core.Pick(c, 3, 4)
	calls := 0
	for n := 1; n <= maxN; n++ {
		dims := make([]int, 0, 2*n+2)
		for i := 0; i < n; i++ {
			dims = append(dims, len(elems), maxCap+1) // content, spare capacity of element i
		}
		dims = append(dims, maxCap+1, len(paths)) // spare capacity of the outer slice, path
		core.Product(dims, func(ix []int) bool {
			outerSpare, path := ix[2*n], []byte(paths[ix[2*n+1]])
			sentinel := []byte("SENTINEL")
			prefix := make([][]byte, n, n+outerSpare)
			backing := make([][]byte, n) // full backing arrays of the elements
			desc := map[string]any{"path": string(path), "outer_spare_capacity": outerSpare}
			var ed []string
			for i := 0; i < n; i++ {
				s, spare := elems[ix[2*i]], ix[2*i+1]
				b := make([]byte, len(s), len(s)+spare)
				copy(b, s)
				for j := len(s); j < cap(b); j++ {
					b[:cap(b)][j] = '#'
				}
				backing[i] = b[:cap(b)]
				prefix[i] = b
				ed = append(ed, fmt.Sprintf("%q+%d", s, spare))
			}
			desc["prefix_elements(content+spare capacity)"] = ed
			for j := n; j < cap(prefix); j++ {
				prefix[:cap(prefix)][j] = sentinel
			}
			// snapshot (deep)
			snap := make([][]byte, n)
			snapBacking := make([][]byte, n)
			for i := range prefix {
				snap[i] = append([]byte{}, prefix[i]...)
				snapBacking[i] = append([]byte{}, backing[i]...)
			}
			// expected result, computed independently
			want := make([][]byte, n)
			for i := range want {
				want[i] = append([]byte{}, snap[i]...)
			}
			want[n-1] = append(want[n-1], path...)

			var got [][]byte
			if p := core.Catch(func() { got = channeltypesv2.BuildMerklePath(prefix, path).KeyPath }); p != "" {
				c.Violation(fmt.Sprintf("build-merkle-path/panic/%v", desc), "BuildMerklePath panicked on a non-empty prefix: "+p, desc)
				return true
			}
			calls++
			k.evals++
			key := fmt.Sprintf("%v/outer+%d/path=%q", ed, outerSpare, path)
			// result is prefix[0..n-2], prefix[n-1]‖path
			okRes := len(got) == n
			for i := 0; okRes && i < n; i++ {
				okRes = bytes.Equal(got[i], want[i])
			}
			if !okRes {
				c.Violation("build-merkle-path/result/"+key, fmt.Sprintf("BuildMerklePath returned %q, want %q", got, want), desc)
			}
			// the caller's prefix is unchanged: length, every element's length and bytes, and the
			// slots of the outer slice beyond its length
			changed := len(prefix) != n
			for i := 0; !changed && i < n; i++ {
				changed = !bytes.Equal(prefix[i], snap[i]) || len(prefix[i]) != len(snap[i]) || cap(prefix[i]) != len(backing[i])
			}
			for j := n; j < cap(prefix); j++ {
				if !bytes.Equal(prefix[:cap(prefix)][j], sentinel) {
					changed = true
				}
			}
			if changed {
				c.Violation("build-merkle-path/prefix-changed/"+key, fmt.Sprintf("BuildMerklePath changed the caller's prefix: now %q, was %q", prefix, snap), desc)
			}
			spareWritten := false
			for i := 0; i < n; i++ {
				if !bytes.Equal(backing[i], snapBacking[i]) {
					spareWritten = true
				}
			}
			if spareWritten {
				c.Add("build_merkle_path_spare_capacity_overwritten", 1)
				if strictSpareCapacity {
					c.Violation("build-merkle-path/spare-capacity/"+key, "BuildMerklePath wrote into the spare capacity of the caller's prefix element", desc)
				}
				if !k.sampled["spare"] {
					k.sampled["spare"] = true
					c.Sample(map[string]any{"note": "observation (not a violation of the statement): the bytes between len and cap of the caller's last prefix element were overwritten; the element as seen by the caller is unchanged", "case": desc})
				}
			}
			// a second call with the same prefix: the caller's prefix must still be unchanged;
			// whether the first result survives is recorded as an observation
			first := make([][]byte, len(got))
			for i := range got {
				first[i] = append([]byte{}, got[i]...)
			}
			_ = channeltypesv2.BuildMerklePath(prefix, []byte("QQQQQQ")[:len(path)%7])
			calls++
			k.evals++
			for i := 0; i < n; i++ {
				if !bytes.Equal(prefix[i], snap[i]) {
					c.Violation("build-merkle-path/prefix-changed-2nd-call/"+key, fmt.Sprintf("a second BuildMerklePath call changed the caller's prefix: now %q, was %q", prefix, snap), desc)
				}
			}
			for i := range got {
				if !bytes.Equal(got[i], first[i]) {
					c.Add("build_merkle_path_earlier_result_overwritten_by_later_call", 1)
					break
				}
			}
			if n > 1 || len(path) > 0 || len(prefix[0]) > 0 {
				k.nontriv++
			}
			k.distinct++
			return true
		})
	}
	c.Set("build_merkle_path_calls", calls)
	if calls > 0 {
		c.Sample(map[string]any{"build_merkle_path": "prefix elements over " + fmt.Sprintf("%q", elems) + " with spare capacity 0.." + fmt.Sprint(maxCap) + ", 1.." + fmt.Sprint(maxN) + " elements, outer spare capacity 0.." + fmt.Sprint(maxCap) + ", paths " + fmt.Sprintf("%q", paths)})
	}
}

// ---------------------------------------------------------------------------------------

// replay re-evaluates one stored verifier call.
func replay(c *core.C) {
	var cs Case
	if err := c.LoadReplay(&cs); err != nil {
		c.Broken("cannot load replay: %v", err)
		return
	}
	if strings.HasPrefix(cs.Class, "build-merkle-path") || cs.Class == "" {
		// the aliasing cases are cheap: re-run the whole aliasing enumeration
		k := &checker{c: c, reported: map[string]int{}, sampled: map[string]bool{}, seen: map[[32]byte]struct{}{}}
		k.aliasing()
		c.Set("evaluations", k.evals)
		c.Set("distinct_nontrivial", k.nontriv)
		c.Set("rule", "replay: the complete BuildMerklePath aliasing enumeration")
		return
	}
	unhex := func(s string) []byte {
		b, err := hex.DecodeString(s)
		if err != nil {
			panic("bad hex in replay")
		}
		return b
	}
	k := &checker{c: c, reported: map[string]int{}, sampled: map[string]bool{}, seen: map[[32]byte]struct{}{}}
	if cs.Orig != "" {
		g := &genuine{bz: unhex(cs.Orig)}
		if err := g.proof.Unmarshal(g.bz); err != nil {
			c.Broken("genuine proof in the replay does not decode: %v", err)
			return
		}
		k.g = g
	}
	k.content, k.proofFor = cs.Content, cs.ProofFor
	var path [][]byte
	for _, p := range cs.Path {
		path = append(path, unhex(p))
	}
	value := unhex(cs.Value)
	if cs.NilValue {
		value = nil
	}
	k.try(cs.Class, cs.Mutation, cs.Expect, cs.Truth, cs.Member, unhex(cs.Proof), cs.Specs, unhex(cs.Root), cs.NilRoot, path, value)
	c.Set("evaluations", k.evals)
	c.Set("distinct_nontrivial", k.nontriv)
	c.Set("rule", "replay of one stored verifier call")
	c.Sample(cs)
}
