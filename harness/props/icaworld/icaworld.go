// Package icaworld holds the interchain-accounts bring-up shared by the C37 and C38 checks:
// two ksim chains (A = controller, B = host), deterministic accounts, registration of an
// interchain account through the real MsgRegisterInterchainAccount handler, hand-relayed channel
// handshakes, MsgSendTx and host parameter updates.
package icaworld

import (
	"crypto/sha256"
	"encoding/hex"
	"fmt"
	"sort"
	"strings"

	"github.com/cosmos/gogoproto/proto"

	sdkmath "cosmossdk.io/math"

	sdk "github.com/cosmos/cosmos-sdk/types"
	minttypes "github.com/cosmos/cosmos-sdk/x/mint/types"

	icacontrollertypes "github.com/cosmos/ibc-go/v11/modules/apps/27-interchain-accounts/controller/types"
	icahosttypes "github.com/cosmos/ibc-go/v11/modules/apps/27-interchain-accounts/host/types"
	icatypes "github.com/cosmos/ibc-go/v11/modules/apps/27-interchain-accounts/types"
	clienttypes "github.com/cosmos/ibc-go/v11/modules/core/02-client/types"
	connectiontypes "github.com/cosmos/ibc-go/v11/modules/core/03-connection/types"
	channeltypes "github.com/cosmos/ibc-go/v11/modules/core/04-channel/types"
	host "github.com/cosmos/ibc-go/v11/modules/core/24-host"

	ibctesting "github.com/cosmos/ibc-go/v11/testing"
	ibcmock "github.com/cosmos/ibc-go/v11/testing/mock"

	"verif/harness/ksim"
)

// Chain indices.
const (
	A = 0 // controller
	B = 1 // host
)

// HostPort is the host-side port.
const HostPort = icatypes.HostPortID

// Denom is the only denomination used (the bond denom, so that sends and delegations compete for the same balance).
var Denom = sdk.DefaultBondDenom

// Addr derives a deterministic 20-byte account address from a tag.
func Addr(tag string) sdk.AccAddress {
	h := sha256.Sum256([]byte("verif-ica/" + tag))
	return sdk.AccAddress(h[:20])
}

// Owner returns the i-th deterministic owner address (bech32) on the controller chain.
func Owner(i int) string { return Addr(fmt.Sprintf("owner-%d", i)).String() }

// Port returns the controller port of an owner.
func Port(owner string) string { return icatypes.ControllerPortPrefix + owner }

// FixHeaders replaces the per-worker random application hash in the block headers of every chain by a
// constant (the host derives new interchain-account addresses from it).
func FixHeaders(w *ksim.World) {
	for i := range w.CS {
		hdr := w.CS[i].Ctx.BlockHeader()
		h := sha256.Sum256([]byte(fmt.Sprintf("verif-ica-apphash-%d", i)))
		hdr.AppHash = h[:]
		w.CS[i].Ctx = w.CS[i].Ctx.WithBlockHeader(hdr)
	}
}

// Coins builds an amount of Denom.
func Coins(n int64) sdk.Coins { return sdk.NewCoins(sdk.NewCoin(Denom, sdkmath.NewInt(n))) }

// Fund mints n Denom on chain i and sends them to addr (through the bank keeper, atomically).
func Fund(w *ksim.World, i int, addr sdk.AccAddress, n int64) {
	bk := w.W.Chains[i].App.BankKeeper
	ksim.MustOK("fund "+addr.String(), w.Do(i, func(ctx sdk.Context) error {
		if err := bk.MintCoins(ctx, minttypes.ModuleName, Coins(n)); err != nil {
			return err
		}
		return bk.SendCoinsFromModuleToAccount(ctx, minttypes.ModuleName, addr, Coins(n))
	}))
}

// Balance reads the Denom balance of addr on chain i.
func Balance(w *ksim.World, i int, addr sdk.AccAddress) int64 {
	return w.W.Chains[i].App.BankKeeper.GetBalance(w.CS[i].Ctx, addr, Denom).Amount.Int64()
}

// Version builds the ICS-27 metadata version string the controller proposes.
func Version(l *ksim.Link, encoding string) string {
	md := icatypes.NewMetadata(icatypes.Version, l.ConnA, l.ConnB, "", encoding, icatypes.TxTypeSDKMultiMsg)
	return string(icatypes.ModuleCdc.MustMarshalJSON(&md))
}

// Register delivers MsgRegisterInterchainAccount signed by owner on the controller chain.
func Register(w *ksim.World, l *ksim.Link, owner, version string, order channeltypes.Order) (string, ksim.Result) {
	r := w.Tx(l.A, icacontrollertypes.NewMsgRegisterInterchainAccount(l.ConnA, owner, version, order))
	if r.Class != ksim.OK {
		return "", r
	}
	var resp icacontrollertypes.MsgRegisterInterchainAccountResponse
	if err := proto.Unmarshal(r.Resp, &resp); err != nil {
		panic(err)
	}
	return resp.ChannelId, r
}

// Chan is a channel end read from a chain's state.
type Chan struct {
	Port, ID string
	N        int // channel sequence of ID
	channeltypes.Channel
}

// Channels lists the channel ends of chain i whose port satisfies keep, ordered by channel sequence.
func Channels(w *ksim.World, i int, keep func(port string) bool) []Chan {
	var out []Chan
	for _, ic := range w.W.Chains[i].App.IBCKeeper.ChannelKeeper.GetAllChannels(w.CS[i].Ctx) {
		if keep != nil && !keep(ic.PortId) {
			continue
		}
		n, err := channeltypes.ParseChannelSequence(ic.ChannelId)
		if err != nil {
			panic(err)
		}
		out = append(out, Chan{Port: ic.PortId, ID: ic.ChannelId, N: int(n),
			Channel: channeltypes.NewChannel(ic.State, ic.Ordering, ic.Counterparty, ic.ConnectionHops, ic.Version)})
	}
	sort.Slice(out, func(a, b int) bool { return out[a].N < out[b].N })
	return out
}

// IsControllerPort reports whether port is an interchain-accounts controller port.
func IsControllerPort(port string) bool {
	return strings.HasPrefix(port, icatypes.ControllerPortPrefix)
}

// IsHostPort reports whether port is the interchain-accounts host port.
func IsHostPort(port string) bool { return port == HostPort }

// ChanByN finds the channel with sequence n on chain i.
func ChanByN(w *ksim.World, i int, n int) (Chan, bool) {
	for _, c := range Channels(w, i, nil) {
		if c.N == n {
			return c, true
		}
	}
	return Chan{}, false
}

// latestProof builds the proof of key on chain `of` at the latest height of the client on chain `on`.
func latestProof(w *ksim.World, on int, clientID string, of int, key []byte) ([]byte, clienttypes.Height, bool) {
	ph := w.ClientLatest(on, clientID)
	proof, ok := w.ProofAt(of, int64(ph.RevisionHeight), "ibc", key)
	return proof, ph, ok
}

var noProof = ksim.Result{Class: ksim.ERR, Code: "harness/no-proof"}

// Try relays ChanOpenTry for the controller channel a (as it is on chain A now) to the host chain with a
// proof at the latest height of the host's client. hostPort is normally HostPort.
func Try(w *ksim.World, l *ksim.Link, a Chan) (string, ksim.Result) {
	proof, ph, ok := latestProof(w, l.B, l.ClientB, l.A, host.ChannelKey(a.Port, a.ID))
	if !ok {
		return "", noProof
	}
	r := w.Tx(l.B, channeltypes.NewMsgChannelOpenTry(a.Counterparty.PortId, a.Version, a.Ordering, []string{l.ConnB}, a.Port, a.ID, a.Version, proof, ph, ksim.Signer))
	if r.Class != ksim.OK {
		return "", r
	}
	var resp channeltypes.MsgChannelOpenTryResponse
	if err := proto.Unmarshal(r.Resp, &resp); err != nil {
		panic(err)
	}
	return resp.ChannelId, r
}

// Ack relays ChanOpenAck for the host channel b (as it is on chain B now) to the controller chain.
func Ack(w *ksim.World, l *ksim.Link, b Chan) ksim.Result {
	proof, ph, ok := latestProof(w, l.A, l.ClientA, l.B, host.ChannelKey(b.Port, b.ID))
	if !ok {
		return noProof
	}
	return w.Tx(l.A, channeltypes.NewMsgChannelOpenAck(b.Counterparty.PortId, b.Counterparty.ChannelId, b.ID, b.Version, proof, ph, ksim.Signer))
}

// Confirm relays ChanOpenConfirm for the host channel b to the host chain.
func Confirm(w *ksim.World, l *ksim.Link, b Chan) ksim.Result {
	proof, ph, ok := latestProof(w, l.B, l.ClientB, l.A, host.ChannelKey(b.Counterparty.PortId, b.Counterparty.ChannelId))
	if !ok {
		return noProof
	}
	return w.Tx(l.B, channeltypes.NewMsgChannelOpenConfirm(b.Port, b.ID, proof, ph, ksim.Signer))
}

// CloseConfirm relays ChanCloseConfirm for the host channel b (its controller end being CLOSED) to the host chain.
func CloseConfirm(w *ksim.World, l *ksim.Link, b Chan) ksim.Result {
	proof, ph, ok := latestProof(w, l.B, l.ClientB, l.A, host.ChannelKey(b.Counterparty.PortId, b.Counterparty.ChannelId))
	if !ok {
		return noProof
	}
	return w.Tx(l.B, channeltypes.NewMsgChannelCloseConfirm(b.Port, b.ID, proof, ph, ksim.Signer))
}

// HostChanFor finds the host channel end whose counterparty is the controller channel (port, id).
func HostChanFor(w *ksim.World, port, id string) (Chan, bool) {
	for _, c := range Channels(w, B, IsHostPort) {
		if c.Counterparty.PortId == port && c.Counterparty.ChannelId == id {
			return c, true
		}
	}
	return Chan{}, false
}

// ICA is one fully opened interchain-account channel.
type ICA struct {
	Owner, Port  string
	ChanA, ChanB string
	Order        channeltypes.Order
	Encoding     string
	Address      string // interchain account on the host
}

// Open registers an interchain account for owner and completes the handshake honestly (with syncs).
func Open(w *ksim.World, l *ksim.Link, owner, encoding string, order channeltypes.Order) *ICA {
	chanA, r := Register(w, l, owner, Version(l, encoding), order)
	ksim.MustOK("register interchain account", r)
	port := Port(owner)
	w.Sync(l.B, l.ClientB, l.A)
	a, _ := ChanByN(w, l.A, chanSeq(chanA))
	if a.Port != port {
		panic("icaworld: registered channel not found on the owner's port")
	}
	chanB, r := Try(w, l, a)
	ksim.MustOK("ica chan try", r)
	w.Sync(l.A, l.ClientA, l.B)
	b, _ := ChanByN(w, l.B, chanSeq(chanB))
	ksim.MustOK("ica chan ack", Ack(w, l, b))
	w.Sync(l.B, l.ClientB, l.A)
	ksim.MustOK("ica chan confirm", Confirm(w, l, b))
	addr, ok := w.W.Chains[l.B].App.ICAHostKeeper.GetInterchainAccountAddress(w.CS[l.B].Ctx, l.ConnB, port)
	if !ok {
		panic("icaworld: host did not register the interchain account")
	}
	return &ICA{Owner: owner, Port: port, ChanA: chanA, ChanB: chanB, Order: order, Encoding: encoding, Address: addr}
}

func chanSeq(id string) int {
	n, err := channeltypes.ParseChannelSequence(id)
	if err != nil {
		panic(err)
	}
	return int(n)
}

// PacketData wraps msgs into EXECUTE_TX packet data with the given encoding.
func PacketData(w *ksim.World, msgs []proto.Message, encoding, memo string) (icatypes.InterchainAccountPacketData, error) {
	bz, err := icatypes.SerializeCosmosTx(w.W.Chains[A].App.AppCodec(), msgs, encoding)
	if err != nil {
		return icatypes.InterchainAccountPacketData{}, err
	}
	return icatypes.InterchainAccountPacketData{Type: icatypes.EXECUTE_TX, Data: bz, Memo: memo}, nil
}

// SendTx delivers MsgSendTx signed by owner on the controller chain and reconstructs the packet it committed.
// chanA/chanB must be the active channel pair of the owner (used only to fill in the packet fields).
func SendTx(w *ksim.World, l *ksim.Link, owner string, relTimeout uint64, data icatypes.InterchainAccountPacketData, chanA, chanB string) (channeltypes.Packet, ksim.Result) {
	abs := uint64(w.CS[l.A].TimeNs()) + relTimeout
	r := w.Tx(l.A, icacontrollertypes.NewMsgSendTx(owner, l.ConnA, relTimeout, data))
	if r.Class != ksim.OK {
		return channeltypes.Packet{}, r
	}
	var resp icacontrollertypes.MsgSendTxResponse
	if err := proto.Unmarshal(r.Resp, &resp); err != nil {
		panic(err)
	}
	p := channeltypes.NewPacket(data.GetBytes(), resp.Sequence, Port(owner), chanA, HostPort, chanB, clienttypes.ZeroHeight(), abs)
	return p, r
}

// SetHostParams delivers the host MsgUpdateParams signed by the authority.
func SetHostParams(w *ksim.World, enabled bool, allow []string) ksim.Result {
	k := w.W.Chains[B].App.ICAHostKeeper
	return w.Tx(B, icahosttypes.NewMsgUpdateParams(k.GetAuthority(), icahosttypes.NewParams(enabled, allow)))
}

// AllStoreNames lists every KV store of chain i's application (sorted).
func AllStoreNames(w *ksim.World, i int) []string {
	var out []string
	for _, k := range w.W.Chains[i].App.GetStoreKeys() {
		out = append(out, k.Name())
	}
	sort.Strings(out)
	return out
}

// AckFromEvents extracts the acknowledgement bytes written by a receive from its events ("" if none).
func AckFromEvents(r ksim.Result) []byte {
	for _, e := range r.Events {
		if e.Type != channeltypes.EventTypeWriteAck {
			continue
		}
		for _, a := range e.Attributes {
			if a.Key == channeltypes.AttributeKeyAckHex {
				bz, err := hex.DecodeString(a.Value)
				if err == nil {
					return bz
				}
			}
		}
	}
	return nil
}

// SkewedLink builds the client / connection path between controller chain a and host chain b after burning one
// client identifier, one connection identifier and two channel identifiers on the controller chain, so that no
// identifier of the path (client, connection, later channels) is the same on both ends.
func SkewedLink(w *ksim.World, a, b int) *ksim.Link {
	dummy, r := w.CreateClient(a, b)
	ksim.MustOK("dummy client", r)
	ksim.MustOK("dummy connection", w.Tx(a, connectiontypes.NewMsgConnectionOpenInit(dummy, "07-tendermint-7", ksim.Prefix, ibctesting.DefaultOpenInitVersion, 0, ksim.Signer)))
	l := w.SetupClients(a, b)
	w.SetupConnection(l, 0)
	for i := 0; i < 2; i++ {
		ksim.MustOK("dangling channel", w.Tx(a, channeltypes.NewMsgChannelOpenInit(ibcmock.PortID, ibcmock.Version, channeltypes.UNORDERED, []string{l.ConnA}, ibcmock.PortID, ksim.Signer)))
	}
	if l.ClientA == l.ClientB || l.ConnA == l.ConnB {
		panic("icaworld: link identifiers are not asymmetric")
	}
	return l
}
