package props

import (
	"fmt"

	"verif/harness/core"
	"verif/harness/ksim"
)

// C02: ORDERED channels deliver and acknowledge strictly in sequence.
func init() { core.Register("C02", "model_checking", runC02) }

func c02Scenario(nPkts, commits int, kinds ...string) *PL {
	sc := &PL{Routes: []int{rV1O}, MaxSend: nPkts, MaxCommits: commits, Stale: true, Acks: true, DataKinds: kinds}
	seqOf := func(w *ksim.World, chain int, kind string) []uint64 {
		var out []uint64
		for _, e := range w.Obs {
			if e.Chain == chain && e.Kind == kind {
				out = append(out, e.Seq)
			}
		}
		return out
	}
	sc.InvFn = func(s *PL, w *ksim.World) *ksim.Fail {
		for _, q := range []struct {
			chain int
			kind  string
			what  string
		}{{1, "recv", "receive"}, {0, "ack", "acknowledgement"}} {
			for i, seq := range seqOf(w, q.chain, q.kind) {
				if seq != uint64(i+1) {
					return &ksim.Fail{Key: "out-of-order-" + q.what, Text: fmt.Sprintf("ORDERED channel %s callbacks ran for sequences %v (not 1,2,3,... in order)", q.what, seqOf(w, q.chain, q.kind))}
				}
			}
		}
		return nil
	}
	sc.StepFn = func(s *PL, pre *ksim.World, op ksim.Op, r ksim.Result, post *ksim.World) *ksim.Fail {
		ka := pre.W.Chains[0].App.IBCKeeper.ChannelKeeper
		kb := pre.W.Chains[1].App.IBCKeeper.ChannelKeeper
		cp := s.chO
		preRecv, _ := kb.GetNextSequenceRecv(pre.CS[1].Ctx, cp.PortB, cp.ChanB)
		postRecv, _ := kb.GetNextSequenceRecv(post.CS[1].Ctx, cp.PortB, cp.ChanB)
		preAck, _ := ka.GetNextSequenceAck(pre.CS[0].Ctx, cp.PortA, cp.ChanA)
		postAck, _ := ka.GetNextSequenceAck(post.CS[0].Ctx, cp.PortA, cp.ChanA)
		if postRecv != preRecv && postRecv != preRecv+1 {
			return &ksim.Fail{Key: "nextSequenceRecv-jump", Text: fmt.Sprintf("%s moved nextSequenceRecv %d -> %d", op, preRecv, postRecv)}
		}
		if postAck != preAck && postAck != preAck+1 {
			return &ksim.Fail{Key: "nextSequenceAck-jump", Text: fmt.Sprintf("%s moved nextSequenceAck %d -> %d", op, preAck, postAck)}
		}
		switch op.K {
		case "recv":
			p := ext(pre).Pkts[op.A[0]]
			if p.Seq > preRecv && r.Class == ksim.OK {
				return &ksim.Fail{Key: "recv-ahead-of-sequence", Text: fmt.Sprintf("%s accepted packet %d while next expected is %d", op, p.Seq, preRecv)}
			}
			if r.Class == ksim.OK && postRecv != preRecv+1 {
				return &ksim.Fail{Key: "recv-no-increment", Text: fmt.Sprintf("%s succeeded but nextSequenceRecv stayed %d", op, preRecv)}
			}
			if r.Class != ksim.OK && postRecv != preRecv {
				return &ksim.Fail{Key: "failed-recv-moved-counter", Text: fmt.Sprintf("%s answered %s but nextSequenceRecv moved", op, r)}
			}
		case "ack":
			p := ext(pre).Pkts[op.A[0]]
			if p.Seq > preAck && r.Class == ksim.OK {
				return &ksim.Fail{Key: "ack-ahead-of-sequence", Text: fmt.Sprintf("%s accepted ack %d while next expected is %d", op, p.Seq, preAck)}
			}
			if r.Class == ksim.OK && postAck != preAck+1 {
				return &ksim.Fail{Key: "ack-no-increment", Text: fmt.Sprintf("%s succeeded but nextSequenceAck stayed %d", op, preAck)}
			}
		}
		return nil
	}
	return sc
}

func runC02(c *core.C) {
	d := core.Pick(c, 0, 2)
	parts := []ksim.Part{
		{Name: "macro/3-packets-ok-async-fail", Sc: macro(c02Scenario(3, 3, "ok", "async", "fail")), Cfg: ksim.Config{MaxDepth: 8 + d}, Share: 0.3},
		{Name: "macro/4-packets", Sc: macro(c02Scenario(4, 3, "ok")), Cfg: ksim.Config{MaxDepth: 10 + d}, Share: 0.3},
		{Name: "micro/3-packets-stale-proofs", Sc: c02Scenario(3, 2, "ok"), Cfg: ksim.Config{MaxDepth: 9 + d}},
	}
	ksim.RunParts(c, parts, [][]ksim.Op{
		{{K: "send", A: []int{1, 0, 0}}, {K: "send", A: []int{1, 0, 0}}, {K: "commit", A: []int{0}}, {K: "update", A: []int{1, 13}}, {K: "recv", A: []int{1, 13}}, {K: "recv", A: []int{0, 13}}, {K: "recv", A: []int{1, 13}}},
	})
	c.Set("alphabet", "send | commit(A|B) | update(either client) | recv(p_k, any of the 3 newest heights) for every k in any order | ack(p_k, ...) for every k in any order; relays stay enabled forever")
	c.Assume("counterparty consensus, storage commit and validator signing are played by the harness; one message per transaction")
}
