// Package c22 checks C22: tendermint consensus metadata stays consistent and ordered.
package c22

import (
	"verif/harness/core"
	"verif/harness/ksim"
	"verif/harness/props/tmworld"
)

func init() { core.Register("C22", "model_checking", run) }

func run(c *core.C) {
	n := core.Pick(c, 6, 8)
	d := core.Pick(c, 0, 2)
	or := tmworld.Oracles{C22: true}
	mk := func(p tmworld.Params, adv, rec int) *tmworld.Scenario {
		return tmworld.New(tmworld.Config{P: p, MaxAdv: adv, MaxRec: rec, Mis: false}, or)
	}
	parts := []ksim.Part{
		{Name: "rev1/updates-only", Sc: mk(tmworld.Params{Rev: 1, Base: 0, N: n}, 0, 1), Cfg: ksim.Config{MaxDepth: 14 + d}, Share: 0.3},
		{Name: "rev1/heights-46..(47=0x2f)/with-time", Sc: mk(tmworld.Params{Rev: 1, Base: 45, N: n}, 3, 1), Cfg: ksim.Config{MaxDepth: 5 + d}, Share: 0.6},
		{Name: "rev47/heights-12031..(12032=0x2f00)/with-time", Sc: mk(tmworld.Params{Rev: 47, Base: 12030, N: n}, 2, 1), Cfg: ksim.Config{MaxDepth: 4 + d}},
	}
	ksim.RunParts(c, parts, [][]ksim.Op{
		{{K: "upd", A: []int{4, 0, 1}}, {K: "adv", A: []int{1}}, {K: "upd", A: []int{6, 0, 4}}, {K: "upd", A: []int{5, 0, 4}}},
		{{K: "upd", A: []int{3, 0, 1}}, {K: "upd", A: []int{2, 0, 1}}, {K: "adv", A: []int{1}}, {K: "adv", A: []int{0}}, {K: "upd", A: []int{4, 0, 3}}},
	})
	tmworld.Describe(c)
	if !c.Quick() && c.Replay == "" {
		// one more exotic height: the iteration key's big-endian bytes spell "clientState"
		obs, f := tmworld.ProbeSpellingHeight(c.T)
		c.Set("probe_height_spelling_clientState", obs)
		if f != nil {
			c.Violation("spelling-height/"+f.Key, f.Text, map[string]any{"height": "iteration key bytes spell clientState"})
		}
	}
	c.Set("neighbour_probes", "GetNextConsensusState / GetPreviousConsensusState at every height from Base to Base+N+2 of the chain's revision, at heights 0, 1 and 2^64-1 of that revision, at (0,0), (rev-1, 2^64-1), (rev+1, 0) and (2^64-1, 2^64-1), in every state")
}
