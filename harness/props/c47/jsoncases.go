package c47

import (
	"encoding/json"
	"strings"
)

// Structured JSON inputs: objects whose fields range over a small alphabet of raw JSON values,
// at most two fields off their (valid) default. They are further inputs to the decoders of the
// table (same oracle, same stable key = decoder name + hex input).

type jsonField struct {
	Key     string
	Default string   // raw JSON, "" = absent
	Extra   []string // field-specific raw values
}

var jsonValues = []string{
	"", "null", `""`, `"x"`, `" "`, "0", "-1", "255", "256", "1.5", "1e30", "-1e30", "1e400", "true", "[]", "{}", `[{}]`,
	`"10s"`, `"2562047h48m"`, `"-1ns"`, `"18446744073709551615"`, `"18446744073709551616"`, `"zz"`, `"\ud800"`, `"\u0000"`, `"AQ=="`, `"!!"`,
}

func renderObject(fields []jsonField, vals []string) string {
	var sb strings.Builder
	sb.WriteByte('{')
	first := true
	for i, f := range fields {
		if vals[i] == "" {
			continue
		}
		if !first {
			sb.WriteByte(',')
		}
		first = false
		k, _ := json.Marshal(f.Key)
		sb.Write(k)
		sb.WriteByte(':')
		sb.WriteString(vals[i])
	}
	sb.WriteByte('}')
	return sb.String()
}

// jsonObjects calls emit with every object that differs from the default in at most maxOff fields.
func jsonObjects(fields []jsonField, maxOff int, short bool, emit func(obj string) bool) {
	alpha := func(f jsonField) []string {
		vs := append(append([]string{}, jsonValues...), f.Extra...)
		if short {
			vs = append(append([]string{}, jsonValues[:8]...), f.Extra...)
		}
		return vs
	}
	vals := make([]string, len(fields))
	reset := func() {
		for i, f := range fields {
			vals[i] = f.Default
		}
	}
	reset()
	if !emit(renderObject(fields, vals)) {
		return
	}
	for i := range fields {
		for _, a := range alpha(fields[i]) {
			reset()
			vals[i] = a
			if !emit(renderObject(fields, vals)) {
				return
			}
			if maxOff < 2 {
				continue
			}
			for j := i + 1; j < len(fields); j++ {
				for _, b := range alpha(fields[j]) {
					vals[j] = b
					if !emit(renderObject(fields, vals)) {
						return
					}
				}
				vals[j] = fields[j].Default
			}
		}
	}
}

func quote(s string) string { b, _ := json.Marshal(s); return string(b) }

func nestedForward(depth int, asString bool) string {
	inner := `{"forward":{"receiver":"r","port":"transfer","channel":"channel-9"}}`
	for i := 0; i < depth; i++ {
		next := inner
		if asString {
			next = quote(inner)
		}
		inner = `{"forward":{"receiver":"r","port":"transfer","channel":"channel-9","next":` + next + `}}`
	}
	return inner
}

type jsonFamily struct {
	Decoder string // name in the decoder table
	Fields  []jsonField
	Wrap    func(obj string) string
}

func jsonFamilies() []jsonFamily {
	id := func(s string) string { return s }
	addr := `"cosmos1qyqszqgpqyqszqgpqyqszqgpqyqszqgpjnp7du"`
	return []jsonFamily{
		{"memo/forward+callbacks", []jsonField{
			{"receiver", `"r"`, nil}, {"port", `"transfer"`, nil}, {"channel", `"channel-0"`, nil},
			{"timeout", `"10m"`, []string{"600000000000", "9223372036854775808", `"9223372036854775807ns"`}},
			{"retries", "2", []string{"255.5", "-0.5", "1e-400"}},
			{"next", "", []string{nestedForward(0, false), quote(nestedForward(0, false)), nestedForward(1, true), nestedForward(3, false), `{"forward":null}`, `{"forward":"x"}`, `"{}"`, `"{\"forward\":[]}"`, `"not json"`, nestedForward(300, false)}},
		}, func(o string) string { return `{"forward":` + o + `}` }},
		{"memo/forward+callbacks", []jsonField{
			{"address", addr, nil}, {"gas_limit", `"200000"`, []string{`"0"`, `"-1"`, `" 1"`, `"1e3"`}}, {"calldata", `"deadbeef"`, []string{`"abc"`, `"0x00"`}},
		}, func(o string) string { return `{"src_callback":` + o + `,"dest_callback":` + o + `}` }},
		{"ica/MetadataFromVersion", []jsonField{
			{"version", `"ics27-1"`, nil}, {"controller_connection_id", `"connection-0"`, nil}, {"host_connection_id", `"connection-1"`, nil},
			{"address", addr, nil}, {"encoding", `"proto3"`, []string{`"proto3json"`}}, {"tx_type", `"sdk_multi_msg"`, nil},
		}, id},
		{"ica/InterchainAccountPacketData.UnmarshalJSON", []jsonField{
			{"type", `"TYPE_EXECUTE_TX"`, []string{"1", "99", `"TYPE_UNSPECIFIED"`, `"X"`}}, {"data", `"AQID"`, nil}, {"memo", `"m"`, []string{quote(`{"src_callback":{"address":"a"}}`)}},
		}, id},
		{"04-channel/Acknowledgement/json", []jsonField{
			{"result", `"AQ=="`, nil}, {"error", "", []string{`"boom"`}},
		}, id},
		{"transfer/UnmarshalPacketData/json", []jsonField{
			{"denom", `"transfer/channel-0/uatom"`, []string{`"/"`, `"transfer/channel-0/"`}}, {"amount", `"1"`, []string{`"010"`, `"0x10"`, `"115792089237316195423570985008687907853269984665640564039457584007913129639936"`}},
			{"sender", `"s"`, nil}, {"receiver", `"r"`, nil}, {"memo", "", []string{quote(nestedForward(1, false))}},
		}, id},
		{"gmp/UnmarshalPacketData/json", []jsonField{
			{"sender", `"s"`, nil}, {"receiver", `"r"`, nil}, {"salt", `"AQ=="`, nil}, {"payload", `"AQID"`, nil}, {"memo", "", nil},
		}, id},
		{"gmp/UnmarshalAcknowledgement/json", []jsonField{{"result", `"AQ=="`, nil}}, id},
	}
}

// jsonTokens is the token alphabet of the JSON-token enumeration: every JSON literal / scalar and
// the structural characters, so that every scalar document (`null`, `true`, `0`, `""` ...) and every
// small malformed or well-formed composite is a whole input of every JSON-decoding target.
var jsonTokens = []string{"null", "true", "false", "0", "-1", "1e999", `""`, `"a"`, "{", "}", "[", "]", ":", ",", " ", "\n"}

// jsonTargets maps decoder names to the wrappers their token sequences are fed in.
func jsonTargets() map[string][]string {
	raw := []string{"%s"}
	return map[string][]string{
		"transfer/UnmarshalPacketData/default":               append([]string{`{"denom":%s,"amount":"1","sender":"s","receiver":"r"}`, `{"denom":"a","amount":%s,"sender":"s","receiver":"r"}`, `{"denom":"a","amount":"1","sender":%s,"receiver":"r"}`, `{"denom":"a","amount":"1","sender":"s","receiver":%s}`, `{"denom":"a","amount":"1","sender":"s","receiver":"r","memo":%s}`}, raw...),
		"transfer/UnmarshalPacketData/json":                  append([]string{`{"denom":%s,"amount":"1","sender":"s","receiver":"r"}`, `{"denom":"a","amount":"1","sender":"s","receiver":"r","memo":%s}`}, raw...),
		"transfer/FungibleTokenPacketData/proto+json-direct": raw,
		"gmp/UnmarshalPacketData/json":                       append([]string{`{"sender":%s}`, `{"sender":"s","salt":%s}`, `{"sender":"s","payload":%s}`, `{"sender":"s","memo":%s}`}, raw...),
		"gmp/UnmarshalAcknowledgement/json":                  append([]string{`{"result":%s}`}, raw...),
		"ica/MetadataFromVersion":                            append([]string{`{"version":%s}`, `{"version":"ics27-1","controller_connection_id":%s}`, `{"version":"ics27-1","address":%s}`, `{"version":"ics27-1","encoding":%s}`, `{"version":"ics27-1","tx_type":%s}`}, raw...),
		"ica/InterchainAccountPacketData.UnmarshalJSON":      append([]string{`{"type":%s,"data":"AQ=="}`, `{"type":"TYPE_EXECUTE_TX","data":%s}`, `{"type":"TYPE_EXECUTE_TX","data":"AQ==","memo":%s}`}, raw...),
		"ica/DeserializeCosmosTx/proto3json":                 append([]string{`{"messages":%s}`, `{"messages":[%s]}`, `{"messages":[{"@type":%s}]}`}, raw...),
		"04-channel/Acknowledgement/json":                    append([]string{`{"result":%s}`, `{"error":%s}`, `{"result":"AQ==","error":%s}`}, raw...),
		"memo/forward+callbacks": append([]string{`{"forward":%s}`,
			`{"forward":{"receiver":%s,"port":"transfer","channel":"channel-0"}}`,
			`{"forward":{"receiver":"r","port":%s,"channel":"channel-0"}}`,
			`{"forward":{"receiver":"r","port":"transfer","channel":%s}}`,
			`{"forward":{"receiver":"r","port":"transfer","channel":"channel-0","timeout":%s}}`,
			`{"forward":{"receiver":"r","port":"transfer","channel":"channel-0","retries":%s}}`,
			`{"forward":{"receiver":"r","port":"transfer","channel":"channel-0","next":%s}}`,
			`{"forward":{"receiver":"r","port":"transfer","channel":"channel-0","next":{"forward":%s}}}`,
			`{"src_callback":%s}`, `{"dest_callback":%s}`,
			`{"src_callback":{"address":%s}}`, `{"dest_callback":{"address":"a","gas_limit":%s}}`, `{"dest_callback":{"address":"a","calldata":%s}}`}, raw...),
	}
}

// tokenSequences calls emit with the concatenation of every sequence of 1..max tokens (and the empty one).
func tokenSequences(max int, emit func(s string) bool) {
	toks := jsonTokens
	var rec func(prefix string, n int) bool
	rec = func(prefix string, n int) bool {
		if n == 0 {
			return emit(prefix)
		}
		for _, t := range toks {
			if !rec(prefix+t, n-1) {
				return false
			}
		}
		return true
	}
	for l := 0; l <= max; l++ {
		if !rec("", l) {
			return
		}
	}
}
