// Package c47 decides C47: stateless validation (ValidateBasic / Validate of every registered
// ibc-go message and light-client type) and the stateless parsers / decoders (heights,
// identifiers, denominations, packet data in every encoding, memos, ICA metadata, forward
// metadata, callback data, acknowledgements) never panic, whatever the input.
package c47

import (
	"encoding/hex"
	"fmt"
	"os"
	"reflect"
	"sort"
	"strings"
	"sync"
	"time"

	"github.com/cosmos/gogoproto/proto"

	"github.com/cosmos/cosmos-sdk/codec"

	ibctesting "github.com/cosmos/ibc-go/v11/testing"

	"verif/harness/core"
)

func init() { core.Register("C47", "exploration", run) }

type setting struct {
	Leaf   string `json:"leaf"`
	Choice string `json:"choice"`
}

type replayCase struct {
	Kind    string    `json:"kind"` // msg | bytes
	Target  string    `json:"target,omitempty"`
	Base    string    `json:"base,omitempty"`
	Sets    []setting `json:"sets,omitempty"`
	Decoder string    `json:"decoder,omitempty"`
	Hex     string    `json:"hex,omitempty"`
}

type counters struct {
	structured, accepted, bytesIn, mutants, jsonIn, jsonTok, notOnWire, duplicates int
}

func baseName(plausible bool) string {
	if plausible {
		return "plausible"
	}
	return "zero"
}

type env struct {
	c    *core.C
	fx   *fixtures
	cdc  codec.Codec
	cnt  *counters
	anyC []choice
}

// caseResult of one structured case.
type caseResult struct {
	reached  bool   // every setting could be applied in this instance
	encoded  []byte // wire form of the validated message (what a transaction would carry)
	decoded  bool   // the wire form decodes (incl. UnpackInterfaces), i.e. validation is reachable
	panicMsg string
	accepted bool
	label    string
}

// runCase builds the instance, applies the settings, puts the message (or the message carrying it)
// on the wire, decodes it the way a transaction is decoded and calls the validation method on the
// decoded message. Only what survives the wire is "structurally valid", so every reported panic is
// reachable from transaction bytes.
func (e *env) runCase(t target, plausible bool, leaves []leaf, alpha [][]choice, idx [][2]int) caseResult {
	inst := e.fx.build(t, plausible)
	for _, s := range idx {
		v := navigate(inst.Elem(), leaves[s[0]].Path)
		if !v.IsValid() || !v.CanSet() {
			return caseResult{}
		}
		v.Set(deepCopy(alpha[s[0]][s[1]].Val))
	}
	res := caseResult{reached: true}
	msg, ok := inst.Interface().(proto.Message)
	if !ok {
		return res
	}
	var bz []byte
	var err error
	if p := core.Catch(func() {
		if t.wrap != nil {
			msg, err = t.wrap(msg)
			if err != nil {
				return
			}
		}
		bz, err = proto.Marshal(msg)
	}); p != "" || err != nil {
		return res // cannot be produced by any encoder, hence by no transaction
	}
	res.encoded = bz
	out := reflect.New(reflect.TypeOf(msg).Elem()).Interface().(proto.Message)
	if p := core.Catch(func() { err = e.cdc.Unmarshal(bz, out) }); p != "" {
		e.c.Hist("panics_outside_statement", "codec.Unmarshal of "+t.Label()+": "+firstLine(p))
		return res
	}
	if err != nil {
		return res // rejected while decoding the transaction
	}
	res.decoded = true
	res.panicMsg = core.Catch(func() { err = t.validate(out) })
	res.accepted = res.panicMsg == "" && err == nil
	return res
}

func exploreTarget(e *env, t target, only *replayCase) {
	c, cnt := e.c, e.cnt
	seen := map[string]bool{}
	for _, plausible := range []bool{false, true} {
		if only != nil && only.Base != baseName(plausible) {
			continue
		}
		ref := e.fx.build(t, plausible)
		var leaves []leaf
		collectLeaves(ref.Elem(), t.Typ.Name(), nil, 0, &leaves)
		alpha := make([][]choice, len(leaves))
		short := c.Quick()
		for i, l := range leaves {
			alpha[i] = e.fx.alphabet(l, navigate(ref.Elem(), l.Path), e.anyC, false)
		}
		describe := func(idx [][2]int) (string, []setting) {
			var parts []string
			var sets []setting
			for _, s := range idx {
				parts = append(parts, leaves[s[0]].Name+"="+alpha[s[0]][s[1]].Name)
				sets = append(sets, setting{leaves[s[0]].Name, alpha[s[0]][s[1]].Name})
			}
			return fmt.Sprintf("validate/%s/%s/%s", strings.TrimPrefix(t.Label(), "/"), baseName(plausible), strings.Join(parts, ",")), sets
		}
		reported := map[string]bool{} // leaf (pair) + panic text already reported for this base
		eval := func(idx [][2]int) bool {
			r := e.runCase(t, plausible, leaves, alpha, idx)
			if !r.reached {
				return false
			}
			if !r.decoded {
				cnt.notOnWire++
				return false
			}
			if only == nil {
				if seen[string(r.encoded)] {
					cnt.duplicates++
					return false
				}
				seen[string(r.encoded)] = true
			}
			cnt.structured++
			if r.accepted {
				cnt.accepted++
			}
			if r.panicMsg == "" {
				return false
			}
			k, sets := describe(idx)
			site := t.Label() + "." + t.Method + ": " + firstLine(r.panicMsg)
			if !t.InStatement() {
				c.Hist("panics_outside_statement", site)
				return true
			}
			c.Hist("panics_by_target", site)
			if only == nil {
				// one report per field (pair of fields) and panic text: further values of the same
				// field(s) that hit the same panic are counted above but not reported again
				lk := firstLine(r.panicMsg)
				for _, s := range idx {
					lk += "|" + leaves[s[0]].Name
				}
				if reported[lk] {
					return true
				}
				reported[lk] = true
			}
			if os.Getenv("VERIF_C47_DEBUG") != "" {
				c.Hist("debug_keys", k)
			}
			h := hex.EncodeToString(r.encoded)
			if len(h) > 400 {
				h = h[:400] + "…"
			}
			c.Violation(k, fmt.Sprintf("%s.%s panics on the decoded %s message with %v (wire 0x%s): %s", t.Label(), t.Method, baseName(plausible), sets, h, firstLine(r.panicMsg)),
				replayCase{Kind: "msg", Target: t.URL, Base: baseName(plausible), Sets: sets})
			return true
		}
		if only != nil {
			var idx [][2]int
			for _, s := range only.Sets {
				found := false
				for i, l := range leaves {
					if l.Name != s.Leaf {
						continue
					}
					for j, ch := range alpha[i] {
						if ch.Name == s.Choice && !found {
							idx = append(idx, [2]int{i, j})
							found = true
						}
					}
				}
				if !found {
					c.Broken("replay: leaf %s / choice %s not found in %s", s.Leaf, s.Choice, t.URL)
					return
				}
			}
			eval(idx)
			return
		}
		// the base itself; when it already panics, every other case of this base would repeat it
		if plausible {
			r := e.runCase(t, true, leaves, alpha, nil)
			if r.decoded && r.panicMsg == "" {
				if r.accepted {
					c.Add("plausible_bases_accepted", 1)
				} else {
					c.Hist("plausible_bases_rejected", strings.TrimPrefix(t.Label(), "/ibc."))
				}
			}
		}
		if eval(nil) {
			c.Hist("bases_that_panic", t.Label()+"/"+baseName(plausible))
			continue
		}
		// one field off default; remember which single settings already panic so that pairs
		// containing them are not reported again
		bad := map[[2]int]bool{}
		for i := range leaves {
			for a := range alpha[i] {
				if eval([][2]int{{i, a}}) {
					bad[[2]int{i, a}] = true
				}
			}
			if c.TimeUp() {
				return
			}
		}
		// two fields off default (quick: first four values of each alphabet)
		lim := func(n int) int {
			if short && n > 4 {
				return 4
			}
			return n
		}
		for i := range leaves {
			for j := i + 1; j < len(leaves); j++ {
				for a := 0; a < lim(len(alpha[i])); a++ {
					if bad[[2]int{i, a}] {
						continue
					}
					for b := 0; b < lim(len(alpha[j])); b++ {
						if bad[[2]int{j, b}] {
							continue
						}
						eval([][2]int{{i, a}, {j, b}})
					}
				}
			}
			if c.TimeUp() {
				return
			}
		}
	}
}

func firstLine(s string) string {
	if i := strings.IndexByte(s, '\n'); i >= 0 {
		s = s[:i]
	}
	if len(s) > 300 {
		s = s[:300]
	}
	return s
}

func feed(c *core.C, d decoder, in []byte) {
	if p := core.Catch(func() { d.F(in) }); p != "" {
		h := hex.EncodeToString(in)
		c.Hist("panics_by_target", d.Name+": "+firstLine(p))
		shown := h
		if len(shown) > 160 {
			shown = shown[:160] + "…"
		}
		c.Violation("decode/"+d.Name+"/"+h, fmt.Sprintf("%s panics on input 0x%s (%d bytes): %s", d.Name, shown, len(in), firstLine(p)), replayCase{Kind: "bytes", Decoder: d.Name, Hex: h})
	}
}

func allBytes() []string {
	out := make([]string, 256)
	for i := range out {
		out[i] = string([]byte{byte(i)})
	}
	return out
}

func run(c *core.C) {
	coord := ibctesting.NewCoordinator(c.T, 1)
	chain := coord.GetChain(ibctesting.GetChainID(1))
	app := chain.GetSimApp()
	fx, err := newFixtures()
	if err != nil {
		c.Broken("fixtures: %v", err)
		return
	}
	targets := discoverTargets(app.InterfaceRegistry())
	fx.attachWrappers(targets)
	if len(targets) < 40 {
		c.Broken("only %d ibc-go types with stateless validation found in the interface registry", len(targets))
		return
	}
	// zero instances of every registered light-client type, for the Any alphabet
	var zeros []proto.Message
	for _, t := range targets {
		if t.IsMsg || !strings.HasPrefix(t.URL, "/ibc.lightclients.") {
			continue
		}
		if m, ok := reflect.New(t.Typ).Interface().(proto.Message); ok {
			zeros = append(zeros, m)
		}
	}
	anyChoices := fx.anyAlphabet(zeros)
	leafAlphabetHook = func(l leaf) []choice { return fx.alphabet(l, reflect.Value{}, anyChoices, false) }
	decs := decoderTable(app.AppCodec())
	// generic decoder per registered message: decode arbitrary bytes the way a transaction body
	// is decoded (codec.Unmarshal incl. UnpackInterfaces), then validate
	cdc := app.AppCodec()
	for _, t := range targets {
		t := t
		if !t.IsMsg || t.Method == "none" {
			continue
		}
		var valid [][]byte
		if m, ok := fx.build(t, true).Interface().(proto.Message); ok {
			if bz, err := proto.Marshal(m); err == nil {
				valid = append(valid, bz)
			}
		}
		decs = append(decs, decoder{Name: "decode+validate" + t.URL, Valid: valid, F: func(in []byte) {
			m := reflect.New(t.Typ).Interface().(proto.Message)
			var err error
			if p := core.Catch(func() { err = cdc.Unmarshal(in, m) }); p != "" {
				// transaction decoding is not one of the statement's decoders: recorded, not reported
				c.Hist("panics_outside_statement", "codec.Unmarshal of "+t.URL+": "+firstLine(p))
				return
			}
			if err == nil {
				_ = t.validate(m)
			}
		}})
	}
	byName := map[string]decoder{}
	for _, d := range decs {
		if _, dup := byName[d.Name]; dup {
			c.Broken("duplicate decoder %s", d.Name)
		}
		byName[d.Name] = d
	}

	if c.Replay != "" {
		var r replayCase
		if err := c.LoadReplay(&r); err != nil {
			c.Broken("replay: %v", err)
			return
		}
		cnt := &counters{}
		switch r.Kind {
		case "msg":
			for _, t := range targets {
				if t.URL == r.Target {
					exploreTarget(&env{c, fx, cdc, cnt, anyChoices}, t, &r)
				}
			}
		case "bytes":
			in, err := hex.DecodeString(r.Hex)
			d, ok := byName[r.Decoder]
			if err != nil || !ok {
				c.Broken("replay: decoder %q / hex input not usable", r.Decoder)
				return
			}
			feed(c, d, in)
		default:
			c.Broken("replay: unknown kind %q", r.Kind)
		}
		c.Set("evaluations", 1)
		c.Set("distinct_nontrivial", 2)
		c.Set("rule", "replay of one case")
		c.Sample(r)
		return
	}

	cnt := &counters{}
	phase := map[string]float64{}
	// 2. structured JSON inputs for the JSON decoders
	for _, fam := range jsonFamilies() {
		d, ok := byName[fam.Decoder]
		if !ok {
			c.Broken("json family refers to unknown decoder %s", fam.Decoder)
			continue
		}
		jsonObjects(fam.Fields, 2, c.Quick(), func(obj string) bool {
			cnt.jsonIn++
			feed(c, d, []byte(fam.Wrap(obj)))
			return cnt.jsonIn%512 != 0 || !c.TimeUp()
		})
	}
	// 2b. JSON-token enumeration: every sequence of <= 3 (thorough 4) tokens is a whole input of every
	// JSON-decoding target, raw and as the value of each known top-level / nested field
	maxTok := core.Pick(c, 3, 4)
	jt := jsonTargets()
	var jtNames []string
	for name := range jt {
		jtNames = append(jtNames, name)
	}
	sort.Strings(jtNames)
	for _, name := range jtNames {
		d, ok := byName[name]
		if !ok {
			c.Broken("json token target refers to unknown decoder %s", name)
			continue
		}
		for wi, w := range jt[name] {
			n := maxTok
			if w != "%s" && n > 3 {
				n = 3 // wrapped sequences: the raw family carries the longer ones
			}
			if w != "%s" && c.Quick() {
				n = 2
			}
			_ = wi
			tokenSequences(n, func(seq string) bool {
				cnt.jsonTok++
				feed(c, d, []byte(strings.Replace(w, "%s", seq, 1)))
				return cnt.jsonTok%4096 != 0 || !c.TimeUp()
			})
		}
	}
	phase["json_s"] = time.Since(c.Start).Seconds()
	// 3. structured messages
	nMsgs := 0
	for _, t := range targets {
		if t.IsMsg {
			nMsgs++
		}
		if t.Method == "none" {
			c.Hist("targets_without_validation", t.URL)
			continue
		}
		before := cnt.structured
		exploreTarget(&env{c, fx, cdc, cnt, anyChoices}, t, nil)
		if (cnt.structured-before) > 0 && len(t.URL)%5 == 0 {
			c.Sample(map[string]any{"target": t.URL, "method": t.Method, "structured_cases": cnt.structured - before})
		}
		if c.TimeUp() {
			break
		}
	}
	c.Sample(map[string]any{"decoder": decs[0].Name, "valid_input": string(decs[0].Valid[0])})

	phase["messages_s"] = time.Since(c.Start).Seconds() - phase["json_s"]
	// 4. (last, because it is the longest part and the one a time cap may cut) decoders: every byte string up to the bound, every single mutation of the valid inputs.
	// Decoders are independent and stateless, so they are enumerated by a small pool of workers;
	// the set of inputs and of reported keys does not depend on the scheduling.
	maxLen := 2
	type tally struct{ bytesIn, mutants int }
	tallies := make([]tally, len(decs))
	sem := make(chan struct{}, 6)
	var wg sync.WaitGroup
	for di, d := range decs {
		n := maxLen
		generic := strings.HasPrefix(d.Name, "decode+validate")
		if generic && c.Quick() {
			n = 1
		}
		if d.Cheap && !c.Quick() {
			n = 3
		}
		if len(d.Valid) == 0 {
			c.Broken("decoder %s has no valid input to mutate", d.Name)
		}
		c.Hist("decoder_max_len", fmt.Sprint(n))
		wg.Add(1)
		sem <- struct{}{}
		go func(di int, d decoder, n int) {
			defer wg.Done()
			defer func() { <-sem }()
			tl := &tallies[di]
			core.Strings(allBytes(), n, func(s string) bool {
				tl.bytesIn++
				feed(c, d, []byte(s))
				return tl.bytesIn%8192 != 0 || !c.TimeUp()
			})
			for _, v := range d.Edge {
				tl.mutants++
				feed(c, d, v)
			}
			for _, v := range d.Valid {
				feed(c, d, v)
				core.Mutations(v, func(m core.Mutation) bool {
					tl.mutants++
					feed(c, d, m.Out)
					return tl.mutants%1024 != 0 || !c.TimeUp()
				})
			}
		}(di, d, n)
	}
	wg.Wait()
	phase["decoders_s"] = time.Since(c.Start).Seconds() - phase["json_s"] - phase["messages_s"]
	for _, tl := range tallies {
		cnt.bytesIn += tl.bytesIn
		cnt.mutants += tl.mutants
	}
	c.Set("phase_seconds_informational", phase)
	c.Set("targets_validation", len(targets))
	c.Set("targets_sdk_msgs", nMsgs)
	c.Set("decoders", len(decs))
	c.Set("byte_strings", cnt.bytesIn)
	c.Set("mutants_of_valid_encodings", cnt.mutants)
	c.Set("structured_json_inputs", cnt.jsonIn)
	c.Set("json_token_inputs", cnt.jsonTok)
	c.Set("json_token_targets", len(jtNames))
	c.Set("json_token_max_tokens", maxTok)
	c.Set("structured_messages", cnt.structured)
	c.Set("structured_messages_accepted", cnt.accepted)
	c.Set("structured_cases_not_decodable_from_wire", cnt.notOnWire)
	c.Set("structured_cases_with_identical_wire_form", cnt.duplicates)
	c.Set("evaluations", cnt.bytesIn+cnt.mutants+cnt.jsonIn+cnt.jsonTok+cnt.structured)
	c.Set("distinct_nontrivial", cnt.mutants+cnt.jsonIn+cnt.structured)
	c.Set("rule", "decoders: every byte string of length <= decoder_max_len, every core.Mutations() mutant of each valid input, every structured JSON object with <= 2 fields off default, and for every JSON-decoding target every concatenation of <= json_token_max_tokens tokens over {null,true,false,0,-1,1e999,empty string,string a,{,},[,],:,comma,space,newline} as a whole input (raw) and of <= 2 (thorough 3) tokens as the value of each known field; validation: for every registered ibc-go sdk.Msg (and every registered light-client ClientState / ConsensusState / ClientMessage carried inside MsgCreateClient / MsgUpdateClient), the zero value and a plausible base with every leaf field (recursively, through nested messages, first slice elements and oneofs) set to every value of its per-type alphabet, all single settings and all pairs (quick: pairs over the first 4 values of each alphabet); each case is marshalled, decoded with the application codec (as a transaction is) and validated on the decoded message, cases with identical wire form are evaluated once; non-trivial = mutants of valid encodings + structured JSON inputs + structured messages (distinct by construction); the raw short byte strings are counted in evaluations only")
	c.Assume("panic freedom for all inputs is decided for the enumerated small scope only (short byte strings, single mutations of valid encodings, <=2 fields off default), not by fuzzing")
	c.Assume("follow-up calls that are not validation or decoding (re-encoding, Must* helpers, commitments) are not part of the targets")
}
