package c47

import (
	"fmt"
	"math"
	"math/big"
	"reflect"
	"sort"
	"strings"
	"time"

	"github.com/cosmos/gogoproto/proto"

	sdkmath "cosmossdk.io/math"

	codectypes "github.com/cosmos/cosmos-sdk/codec/types"
	"github.com/cosmos/cosmos-sdk/crypto/keys/secp256k1"
	sdk "github.com/cosmos/cosmos-sdk/types"

	"github.com/cometbft/cometbft/crypto/tmhash"
	cmtprotoversion "github.com/cometbft/cometbft/proto/tendermint/version"
	cmttypes "github.com/cometbft/cometbft/types"
	cmtversion "github.com/cometbft/cometbft/version"

	clienttypes "github.com/cosmos/ibc-go/v11/modules/core/02-client/types"
	commitmenttypes "github.com/cosmos/ibc-go/v11/modules/core/23-commitment/types"
	"github.com/cosmos/ibc-go/v11/modules/core/exported"
	solomachine "github.com/cosmos/ibc-go/v11/modules/light-clients/06-solomachine"
	ibctm "github.com/cosmos/ibc-go/v11/modules/light-clients/07-tendermint"
	"github.com/cosmos/ibc-go/v11/modules/light-clients/attestations"
	ibctesting "github.com/cosmos/ibc-go/v11/testing"

	"verif/harness/ksim"
)

// target is one registered ibc-go type with stateless validation.
type target struct {
	URL    string
	Typ    reflect.Type // struct type
	Method string       // ValidateBasic | Validate
	IsMsg  bool
	// light-client payloads are validated through the message that carries them
	Via  string
	wrap func(inst proto.Message) (proto.Message, error)
}

// InStatement: message stateless validation, directly or through the carrying message.
func (t target) InStatement() bool { return t.IsMsg || t.wrap != nil }

func (t target) Label() string {
	if t.Via != "" {
		return t.Via + "[" + t.URL + "]"
	}
	return t.URL
}

func (t target) validate(m any) error {
	switch v := m.(type) {
	case sdk.HasValidateBasic:
		return v.ValidateBasic()
	case interface{ Validate() error }:
		return v.Validate()
	}
	return nil
}

// discoverTargets lists every "/ibc." implementation registered in the interface registry that
// has ValidateBasic() error or Validate() error; sdk.Msg implementations first.
func discoverTargets(reg codectypes.InterfaceRegistry) []target {
	seen := map[string]bool{}
	var out []target
	add := func(iface string, isMsg bool) {
		impls := append([]string{}, reg.ListImplementations(iface)...)
		sort.Strings(impls)
		for _, u := range impls {
			if !strings.HasPrefix(u, "/ibc.") || seen[u] {
				continue
			}
			m, err := reg.Resolve(u)
			if err != nil {
				continue
			}
			t := target{URL: u, Typ: reflect.TypeOf(m).Elem(), IsMsg: isMsg}
			switch any(m).(type) {
			case sdk.HasValidateBasic:
				t.Method = "ValidateBasic"
			case interface{ Validate() error }:
				t.Method = "Validate"
			default:
				if !isMsg {
					continue
				}
				t.Method = "none"
			}
			seen[u] = true
			out = append(out, t)
		}
	}
	add(sdk.MsgInterfaceProtoName, true)
	ifaces := append([]string{}, reg.ListAllInterfaces()...)
	sort.Strings(ifaces)
	for _, i := range ifaces {
		if i != sdk.MsgInterfaceProtoName {
			add(i, false)
		}
	}
	return out
}

// ---------------------------------------------------------------------------------------------
// plausible base values

type fixtures struct {
	tmClient    *ibctm.ClientState
	tmConsensus *ibctm.ConsensusState
	tmHeader    *ibctm.Header
	soloClient  *solomachine.ClientState
	soloCons    *solomachine.ConsensusState
	soloHeader  *solomachine.Header
	soloMisb    *solomachine.Misbehaviour
	attClient   *attestations.ClientState
	attCons     *attestations.ConsensusState
	attProof    *attestations.AttestationProof
	addr        string
}

const fixtureChainID = "testchain1-1"

// newFixtures builds valid light-client values from fixed seeds only (the ibctesting chains use
// random keys, which would make the mutated encodings differ from run to run).
func newFixtures() (*fixtures, error) {
	f := &fixtures{addr: sdk.AccAddress(bytesOf(1, 20)).String()}
	f.tmClient = ibctm.NewClientState(fixtureChainID, ibctm.DefaultTrustLevel, ibctesting.TrustingPeriod, ibctesting.UnbondingPeriod, ibctesting.MaxClockDrift, clienttypes.NewHeight(1, 10), commitmenttypes.GetSDKSpecs(), ibctesting.UpgradePath)
	hash := make([]byte, 32)
	for i := range hash {
		hash[i] = byte(i + 1)
	}
	f.tmConsensus = ibctm.NewConsensusState(time.Unix(1_700_000_000, 0).UTC(), commitmenttypes.NewMerkleRoot(hash), hash)
	vs := ksim.NewValSet(2)
	unused := tmhash.Sum([]byte{0})
	raw := cmttypes.Header{
		Version:            cmtprotoversion.Consensus{Block: cmtversion.BlockProtocol, App: 2},
		ChainID:            fixtureChainID,
		Height:             11,
		Time:               time.Unix(1_700_000_100, 0).UTC(),
		LastBlockID:        ibctesting.MakeBlockID(make([]byte, tmhash.Size), 10_000, make([]byte, tmhash.Size)),
		LastCommitHash:     unused,
		DataHash:           unused,
		ValidatorsHash:     vs.Set.Hash(),
		NextValidatorsHash: vs.Set.Hash(),
		ConsensusHash:      unused,
		AppHash:            unused,
		LastResultsHash:    unused,
		EvidenceHash:       unused,
		ProposerAddress:    vs.Set.Proposer.Address, //nolint:staticcheck
	}
	h, err := ksim.SignHeader(raw, vs, clienttypes.NewHeight(1, 10), vs.Set)
	if err != nil {
		return nil, err
	}
	f.tmHeader = h
	pk, err := codectypes.NewAnyWithValue(secp256k1.GenPrivKeyFromSecret([]byte("verif-c47")).PubKey())
	if err != nil {
		return nil, err
	}
	f.soloCons = &solomachine.ConsensusState{PublicKey: pk, Diversifier: "diversifier", Timestamp: 10}
	f.soloClient = solomachine.NewClientState(1, f.soloCons)
	f.soloHeader = &solomachine.Header{Timestamp: 11, Signature: bytesOf(5, 64), NewPublicKey: pk, NewDiversifier: "diversifier2"}
	f.soloMisb = &solomachine.Misbehaviour{Sequence: 1,
		SignatureOne: &solomachine.SignatureAndData{Signature: bytesOf(5, 64), Path: []byte("path1"), Data: []byte("data1"), Timestamp: 10},
		SignatureTwo: &solomachine.SignatureAndData{Signature: bytesOf(6, 64), Path: []byte("path2"), Data: []byte("data2"), Timestamp: 10}}
	f.attClient = attestations.NewClientState([]string{"0x0000000000000000000000000000000000000001", "0x0000000000000000000000000000000000000002"}, 1, 10)
	f.attCons = &attestations.ConsensusState{Timestamp: 1_700_000_000_000_000_000}
	sa := attestations.StateAttestation{Height: 11, Timestamp: 1_700_000_100_000_000_000}
	sabz, err := sa.ABIEncode()
	if err != nil {
		return nil, err
	}
	f.attProof = &attestations.AttestationProof{AttestationData: sabz, Signatures: [][]byte{bytesOf(9, 65)}}
	for _, check := range []interface{ ValidateBasic() error }{f.tmConsensus, f.tmHeader, f.soloCons, f.soloHeader, f.soloMisb, f.attCons, f.attProof} {
		if err := check.ValidateBasic(); err != nil {
			return nil, fmt.Errorf("fixture %T is not valid: %w", check, err)
		}
	}
	for _, check := range []interface{ Validate() error }{f.tmClient, f.soloClient, f.attClient} {
		if err := check.Validate(); err != nil {
			return nil, fmt.Errorf("fixture %T is not valid: %w", check, err)
		}
	}
	return f, nil
}

// special returns the hand-built valid value for the light-client types (nil otherwise).
func (f *fixtures) special(p any) proto.Message {
	switch p.(type) {
	case *ibctm.ClientState:
		return proto.Clone(f.tmClient)
	case *ibctm.ConsensusState:
		return proto.Clone(f.tmConsensus)
	case *ibctm.Header:
		return proto.Clone(f.tmHeader)
	case *ibctm.Misbehaviour:
		h2 := proto.Clone(f.tmHeader).(*ibctm.Header)
		return &ibctm.Misbehaviour{Header1: proto.Clone(f.tmHeader).(*ibctm.Header), Header2: h2}
	case *solomachine.ClientState:
		return proto.Clone(f.soloClient)
	case *solomachine.ConsensusState:
		return proto.Clone(f.soloCons)
	case *solomachine.Header:
		return proto.Clone(f.soloHeader)
	case *solomachine.Misbehaviour:
		return proto.Clone(f.soloMisb)
	case *attestations.ClientState:
		return proto.Clone(f.attClient)
	case *attestations.ConsensusState:
		return proto.Clone(f.attCons)
	case *attestations.AttestationProof:
		return proto.Clone(f.attProof)
	}
	return nil
}

// attachWrappers makes every registered light-client type a target that is validated through
// MsgCreateClient / MsgUpdateClient, exactly as a transaction would reach it.
func (f *fixtures) attachWrappers(ts []target) {
	pack := func(m proto.Message) (*codectypes.Any, error) { return codectypes.NewAnyWithValue(m) }
	match := func(clientType string) (proto.Message, proto.Message) {
		switch clientType {
		case exported.Solomachine:
			return f.soloClient, f.soloCons
		case exported.Attestations:
			return f.attClient, f.attCons
		}
		return f.tmClient, f.tmConsensus
	}
	for i := range ts {
		t := &ts[i]
		if t.IsMsg || !strings.HasPrefix(t.URL, "/ibc.lightclients.") {
			continue
		}
		switch reflect.New(t.Typ).Interface().(type) {
		case exported.ClientState:
			t.Via = "/ibc.core.client.v1.MsgCreateClient"
			t.wrap = func(inst proto.Message) (proto.Message, error) {
				_, cons := match(inst.(exported.ClientState).ClientType())
				a, err := pack(inst)
				if err != nil {
					return nil, err
				}
				b, err := pack(proto.Clone(cons))
				if err != nil {
					return nil, err
				}
				return &clienttypes.MsgCreateClient{ClientState: a, ConsensusState: b, Signer: f.addr}, nil
			}
		case exported.ConsensusState:
			t.Via = "/ibc.core.client.v1.MsgCreateClient"
			t.wrap = func(inst proto.Message) (proto.Message, error) {
				cl, _ := match(inst.(exported.ConsensusState).ClientType())
				a, err := pack(proto.Clone(cl))
				if err != nil {
					return nil, err
				}
				b, err := pack(inst)
				if err != nil {
					return nil, err
				}
				return &clienttypes.MsgCreateClient{ClientState: a, ConsensusState: b, Signer: f.addr}, nil
			}
		case exported.ClientMessage:
			t.Via = "/ibc.core.client.v1.MsgUpdateClient"
			t.wrap = func(inst proto.Message) (proto.Message, error) {
				a, err := pack(inst)
				if err != nil {
					return nil, err
				}
				return &clienttypes.MsgUpdateClient{ClientId: "07-tendermint-0", ClientMessage: a, Signer: f.addr}, nil
			}
		}
	}
}

var (
	typInt      = reflect.TypeOf(sdkmath.Int{})
	typTime     = reflect.TypeOf(time.Time{})
	typAny      = reflect.TypeOf(codectypes.Any{})
	typDuration = reflect.TypeOf(time.Duration(0))
)

func isOpaque(t reflect.Type) bool { return t == typInt || t == typTime || t == typAny }

func exportedField(sf reflect.StructField) bool {
	return sf.PkgPath == "" && !strings.HasPrefix(sf.Name, "XXX_")
}

func plausibleString(name string, f *fixtures) string {
	n := strings.ToLower(name)
	has := func(ss ...string) bool {
		for _, s := range ss {
			if strings.Contains(n, s) {
				return true
			}
		}
		return false
	}
	switch {
	case has("signer", "sender", "authority", "owner", "relayer", "payee", "granter", "grantee", "address", "creator"):
		return f.addr
	case has("port"):
		return "transfer"
	case has("channel"):
		return "channel-0"
	case has("connection", "hops"):
		return "connection-0"
	case has("client"):
		return "07-tendermint-0"
	case has("denom"):
		return "uatom"
	case has("amount", "quota", "percent"):
		return "1"
	case has("encoding"):
		return "application/json"
	case has("version"):
		return "ics20-1"
	case has("chain"):
		return "testchain1-1"
	case has("receiver"):
		return "receiver"
	case has("memo"):
		return `{"k":"v"}`
	case has("path"):
		return "/cosmos.bank.v1beta1.Query/AllBalances"
	case has("title", "description", "name"):
		return "text"
	}
	return "abc"
}

func (f *fixtures) packAny(name string) *codectypes.Any {
	n := strings.ToLower(name)
	var m proto.Message
	switch {
	case strings.Contains(n, "consensus"):
		m = f.tmConsensus
	case strings.Contains(n, "clientstate") || strings.Contains(n, "client_state"):
		m = f.tmClient
	case strings.Contains(n, "message") || strings.Contains(n, "header") || strings.Contains(n, "misbehaviour"):
		m = f.tmHeader
	default:
		m = f.tmClient
	}
	a, err := codectypes.NewAnyWithValue(proto.Clone(m))
	if err != nil {
		return &codectypes.Any{}
	}
	return a
}

// fill sets v (addressable) to a plausible value for a field of the given name.
func (f *fixtures) fill(v reflect.Value, name string, depth int) {
	t := v.Type()
	switch {
	case t == typInt:
		v.Set(reflect.ValueOf(sdkmath.NewInt(1)))
		return
	case t == typTime:
		v.Set(reflect.ValueOf(time.Unix(1_700_000_000, 0).UTC()))
		return
	case t == typDuration:
		v.SetInt(int64(time.Hour))
		return
	case t == typAny:
		v.Set(reflect.ValueOf(*f.packAny(name)))
		return
	}
	switch t.Kind() {
	case reflect.String:
		v.SetString(plausibleString(name, f))
	case reflect.Bool:
		v.SetBool(false)
	case reflect.Int32, reflect.Int64, reflect.Int:
		v.SetInt(1)
	case reflect.Uint8, reflect.Uint32, reflect.Uint64, reflect.Uint:
		v.SetUint(1)
	case reflect.Float32, reflect.Float64:
		v.SetFloat(1)
	case reflect.Struct:
		if depth > 6 {
			return
		}
		for i := 0; i < t.NumField(); i++ {
			if exportedField(t.Field(i)) {
				f.fill(v.Field(i), t.Field(i).Name, depth+1)
			}
		}
		f.fillOneofs(v)
	case reflect.Ptr:
		if t.Elem() == typAny {
			v.Set(reflect.ValueOf(f.packAny(name)))
			return
		}
		if depth > 6 {
			return
		}
		p := reflect.New(t.Elem())
		f.fill(p.Elem(), name, depth+1)
		v.Set(p)
	case reflect.Slice:
		if t.Elem().Kind() == reflect.Uint8 {
			bz := make([]byte, 32)
			for i := range bz {
				bz[i] = byte(i + 1)
			}
			v.SetBytes(bz)
			return
		}
		if depth > 6 {
			return
		}
		s := reflect.MakeSlice(t, 1, 1)
		f.fill(s.Index(0), name, depth+1)
		v.Set(s)
	case reflect.Interface:
		// oneof: first wrapper type of the enclosing message is set by the caller (see fillOneofs)
	}
}

// fillOneofs sets nil oneof interface fields of struct value sv to their first wrapper type.
func (f *fixtures) fillOneofs(sv reflect.Value) {
	if sv.Kind() != reflect.Struct || !sv.CanAddr() {
		return
	}
	for _, w := range oneofWrappers(sv) {
		for i := 0; i < sv.NumField(); i++ {
			fv := sv.Field(i)
			if fv.Kind() == reflect.Interface && fv.IsNil() && w.Type().Implements(fv.Type()) {
				p := reflect.New(w.Type().Elem())
				f.fill(p.Elem(), sv.Type().Field(i).Name, 3)
				fv.Set(p)
			}
		}
	}
}

func oneofWrappers(sv reflect.Value) []reflect.Value {
	m := sv.Addr().MethodByName("XXX_OneofWrappers")
	if !m.IsValid() {
		return nil
	}
	res := m.Call(nil)
	if len(res) != 1 {
		return nil
	}
	var out []reflect.Value
	for i := 0; i < res[0].Len(); i++ {
		out = append(out, res[0].Index(i).Elem())
	}
	return out
}

// build returns a fresh instance (pointer) of the target: zero value or plausible base.
func (f *fixtures) build(t target, plausible bool) reflect.Value {
	p := reflect.New(t.Typ)
	if !plausible {
		return p
	}
	if m := f.special(p.Interface()); m != nil {
		return reflect.ValueOf(m)
	}
	f.fill(p.Elem(), t.Typ.Name(), 0)
	return p
}

// ---------------------------------------------------------------------------------------------
// leaves and alphabets

const (
	stepDeref = -1
	stepIndex = -2
)

type leaf struct {
	Name  string
	Path  []int
	Typ   reflect.Type
	Fixed []choice // oneof fields: the wrapper values, computed from the enclosing message
}

func collectLeaves(v reflect.Value, name string, path []int, depth int, out *[]leaf) {
	t := v.Type()
	cp := func(extra ...int) []int { return append(append([]int{}, path...), extra...) }
	if isOpaque(t) {
		*out = append(*out, leaf{Name: name, Path: cp(), Typ: t})
		return
	}
	switch t.Kind() {
	case reflect.Struct:
		for i := 0; i < t.NumField(); i++ {
			if !exportedField(t.Field(i)) {
				continue
			}
			if t.Field(i).Type.Kind() == reflect.Interface && v.CanAddr() {
				l := leaf{Name: name + "." + t.Field(i).Name, Path: cp(i), Typ: t.Field(i).Type}
				l.Fixed = []choice{{"nil", reflect.Zero(t.Field(i).Type)}}
				for _, w := range oneofWrappers(v) {
					if !w.Type().Implements(t.Field(i).Type) {
						continue
					}
					wt := w.Type().Elem()
					l.Fixed = append(l.Fixed, choice{"zero:" + wt.Name(), reflect.New(wt)})
					if wt.NumField() == 1 {
						for _, c := range leafAlphabetHook(leaf{Typ: wt.Field(0).Type}) {
							p := reflect.New(wt)
							p.Elem().Field(0).Set(c.Val)
							l.Fixed = append(l.Fixed, choice{wt.Name() + ":" + c.Name, p})
						}
					}
				}
				*out = append(*out, l)
				continue
			}
			collectLeaves(v.Field(i), name+"."+t.Field(i).Name, cp(i), depth+1, out)
		}
	case reflect.Ptr:
		*out = append(*out, leaf{Name: name, Path: cp(), Typ: t})
		if !v.IsNil() && t.Elem().Kind() == reflect.Struct && t.Elem() != typAny && depth < 8 {
			collectLeaves(v.Elem(), name, cp(stepDeref), depth+1, out)
		}
	case reflect.Slice:
		*out = append(*out, leaf{Name: name, Path: cp(), Typ: t})
		if t.Elem().Kind() != reflect.Uint8 && v.Len() > 0 && depth < 8 {
			collectLeaves(v.Index(0), name+"[0]", cp(stepIndex), depth+1, out)
		}
	default:
		*out = append(*out, leaf{Name: name, Path: cp(), Typ: t})
	}
}

// leafAlphabetHook is set by the run to the alphabet function (breaks the init cycle).
var leafAlphabetHook = func(l leaf) []choice { return nil }

// navigate returns the settable value at path, or an invalid Value when the path crosses a nil
// pointer or an empty slice in this instance.
func navigate(root reflect.Value, path []int) reflect.Value {
	v := root
	for _, s := range path {
		switch s {
		case stepDeref:
			if v.Kind() != reflect.Ptr || v.IsNil() {
				return reflect.Value{}
			}
			v = v.Elem()
		case stepIndex:
			if v.Kind() != reflect.Slice || v.Len() == 0 {
				return reflect.Value{}
			}
			v = v.Index(0)
		default:
			if v.Kind() != reflect.Struct {
				return reflect.Value{}
			}
			v = v.Field(s)
		}
	}
	return v
}

type choice struct {
	Name string
	Val  reflect.Value
}

var stringAlphabet = []choice{
	{"empty", reflect.ValueOf("")},
	{"1char", reflect.ValueOf("a")},
	{"blank", reflect.ValueOf(" ")},
	{"badutf8", reflect.ValueOf("\xff\xfe")},
	{"len65", reflect.ValueOf(strings.Repeat("a", 65))},
	{"len2049", reflect.ValueOf(strings.Repeat("b", 2049))},
	{"len32769", reflect.ValueOf(strings.Repeat("m", 32769))},
	{"slashes", reflect.ValueOf("a/b//c/")},
	{"seq-overflow", reflect.ValueOf("channel-18446744073709551616")},
	{"client-nonnumeric", reflect.ValueOf("07-tendermint-x")},
	{"ibc-denom-short", reflect.ValueOf("ibc/AB")},
	{"json", reflect.ValueOf(`{"a":[1,{"b":null}]}`)},
}

func (f *fixtures) anyAlphabet(extra []proto.Message) []choice {
	out := []choice{
		{"nil", reflect.ValueOf((*codectypes.Any)(nil))},
		{"empty", reflect.ValueOf(&codectypes.Any{})},
		{"unknown-url", reflect.ValueOf(&codectypes.Any{TypeUrl: "/x.y.Z", Value: []byte{1, 2, 3}})},
		{"tm-url-garbage-uncached", reflect.ValueOf(&codectypes.Any{TypeUrl: "/ibc.lightclients.tendermint.v1.ClientState", Value: []byte{0xff, 0xff}})},
	}
	for _, m := range extra {
		a, err := codectypes.NewAnyWithValue(m)
		if err == nil {
			out = append(out, choice{"zero:" + a.TypeUrl, reflect.ValueOf(a)})
		}
	}
	for _, m := range []proto.Message{f.tmClient, f.tmConsensus, f.tmHeader, f.soloClient, f.soloCons, f.soloHeader, f.soloMisb, f.attClient, f.attCons, f.attProof} {
		a, err := codectypes.NewAnyWithValue(proto.Clone(m))
		if err == nil {
			out = append(out, choice{"valid:" + a.TypeUrl, reflect.ValueOf(a)})
		}
	}
	return out
}

// alphabet returns the per-type small alphabet for a leaf; base is the leaf's value in the
// plausible instance (used to build duplicated / truncated collections).
func (f *fixtures) alphabet(l leaf, base reflect.Value, anyChoices []choice, quickShort bool) []choice {
	t := l.Typ
	var out []choice
	if l.Fixed != nil {
		out = l.Fixed
		if quickShort && len(out) > 4 {
			out = out[:4]
		}
		return out
	}
	switch {
	case t == typInt:
		big256 := sdkmath.NewIntFromBigInt(new(big.Int).Sub(new(big.Int).Lsh(big.NewInt(1), 256), big.NewInt(1)))
		out = []choice{{"nil-int", reflect.ValueOf(sdkmath.Int{})}, {"0", reflect.ValueOf(sdkmath.ZeroInt())}, {"-1", reflect.ValueOf(sdkmath.NewInt(-1))}, {"2^256-1", reflect.ValueOf(big256)}}
	case t == typTime:
		out = []choice{{"zero-time", reflect.ValueOf(time.Time{})}, {"unix0", reflect.ValueOf(time.Unix(0, 0).UTC())}, {"year10000", reflect.ValueOf(time.Date(10000, 1, 1, 0, 0, 0, 0, time.UTC))}, {"negative", reflect.ValueOf(time.Unix(-62135596801, 0).UTC())}}
	case t == typAny:
		for _, c := range anyChoices {
			if c.Val.IsNil() {
				out = append(out, choice{"zero-any", reflect.ValueOf(codectypes.Any{})})
			} else {
				out = append(out, choice{c.Name, c.Val.Elem()})
			}
		}
	case t.Kind() == reflect.Ptr && t.Elem() == typAny:
		out = anyChoices
	case t == typDuration:
		out = []choice{{"0", reflect.ValueOf(time.Duration(0))}, {"-1", reflect.ValueOf(time.Duration(-1))}, {"max", reflect.ValueOf(time.Duration(math.MaxInt64))}, {"min", reflect.ValueOf(time.Duration(math.MinInt64))}}
	default:
		switch t.Kind() {
		case reflect.String:
			for _, c := range stringAlphabet {
				out = append(out, choice{c.Name, c.Val.Convert(t)})
			}
		case reflect.Bool:
			out = []choice{{"false", reflect.ValueOf(false)}, {"true", reflect.ValueOf(true)}}
		case reflect.Int32, reflect.Int64, reflect.Int:
			for _, x := range []int64{0, 1, 2, 3, 4, 5, -1, math.MaxInt32, math.MinInt32, math.MaxInt64, math.MinInt64} {
				v := reflect.New(t).Elem()
				if v.OverflowInt(x) {
					continue
				}
				v.SetInt(x)
				out = append(out, choice{fmt.Sprint(x), v})
			}
		case reflect.Uint8, reflect.Uint32, reflect.Uint64, reflect.Uint:
			for _, x := range []uint64{0, 1, 255, 1 << 32, 1<<63 - 1, 1 << 63, 1<<64 - 1} {
				v := reflect.New(t).Elem()
				if v.OverflowUint(x) {
					continue
				}
				v.SetUint(x)
				out = append(out, choice{fmt.Sprint(x), v})
			}
		case reflect.Float32, reflect.Float64:
			for _, x := range []float64{0, -1, math.Inf(1), math.NaN()} {
				v := reflect.New(t).Elem()
				v.SetFloat(x)
				out = append(out, choice{fmt.Sprint(x), v})
			}
		case reflect.Ptr:
			out = []choice{{"nil", reflect.Zero(t)}, {"zero", reflect.New(t.Elem())}}
		case reflect.Interface:
			out = []choice{{"nil", reflect.Zero(t)}}
		case reflect.Map:
			out = []choice{{"nil", reflect.Zero(t)}, {"empty", reflect.MakeMap(t)}}
		case reflect.Slice:
			if t.Elem().Kind() == reflect.Uint8 {
				for _, c := range []struct {
					n string
					b []byte
				}{{"nil", nil}, {"empty", []byte{}}, {"1byte", []byte{0}}, {"33xff", bytesOf(0xff, 33)}, {"20bytes", bytesOf(7, 20)}, {"badutf8", []byte{0xff, 0xfe}}, {"json", []byte(`{"result":"AQ=="}`)}} {
					v := reflect.New(t).Elem()
					if c.b != nil {
						v.SetBytes(c.b)
					}
					out = append(out, choice{c.n, v})
				}
				break
			}
			out = []choice{{"nil", reflect.Zero(t)}, {"empty", reflect.MakeSlice(t, 0, 0)}}
			one := reflect.MakeSlice(t, 1, 1) // one zero element (nil pointer for pointer elements)
			out = append(out, choice{"[zero]", one})
			if base.IsValid() && base.Len() > 0 {
				dup := reflect.MakeSlice(t, 2, 2)
				dup.Index(0).Set(base.Index(0))
				dup.Index(1).Set(base.Index(0))
				out = append(out, choice{"[base,base]", dup})
				mix := reflect.MakeSlice(t, 2, 2)
				mix.Index(0).Set(base.Index(0))
				out = append(out, choice{"[base,zero]", mix})
			}
			if t.Elem().Kind() == reflect.String {
				for _, c := range stringAlphabet[:5] {
					s := reflect.MakeSlice(t, 1, 1)
					s.Index(0).Set(c.Val.Convert(t.Elem()))
					out = append(out, choice{"[" + c.Name + "]", s})
				}
			}
			if t.Elem().Kind() == reflect.Slice && t.Elem().Elem().Kind() == reflect.Uint8 {
				for _, c := range [][]byte{{}, {0}, bytesOf(0xff, 33)} {
					s := reflect.MakeSlice(t, 1, 1)
					s.Index(0).SetBytes(c)
					out = append(out, choice{fmt.Sprintf("[%dbytes]", len(c)), s})
				}
			}
			if t.Elem().Kind() == reflect.Uint64 {
				s := reflect.MakeSlice(t, 3, 3)
				s.Index(0).SetUint(1<<64 - 1)
				s.Index(1).SetUint(0)
				s.Index(2).SetUint(0)
				out = append(out, choice{"[max,0,0]", s})
			}
		}
	}
	if quickShort && len(out) > 4 {
		out = out[:4]
	}
	return out
}

func bytesOf(b byte, n int) []byte {
	out := make([]byte, n)
	for i := range out {
		out[i] = b
	}
	return out
}

// deepCopy returns a copy of v that shares no pointer, slice or map with it (alphabet values are
// built once; a case must never modify them through a later setting on a nested field).
func deepCopy(v reflect.Value) reflect.Value {
	if !v.IsValid() {
		return v
	}
	switch v.Kind() {
	case reflect.Ptr:
		if v.IsNil() {
			return v
		}
		n := reflect.New(v.Type().Elem())
		n.Elem().Set(deepCopy(v.Elem()))
		return n
	case reflect.Struct:
		n := reflect.New(v.Type()).Elem()
		n.Set(v) // unexported fields are copied shallowly
		if isOpaque(v.Type()) {
			return n
		}
		for i := 0; i < v.NumField(); i++ {
			if exportedField(v.Type().Field(i)) {
				n.Field(i).Set(deepCopy(v.Field(i)))
			}
		}
		return n
	case reflect.Slice:
		if v.IsNil() {
			return v
		}
		n := reflect.MakeSlice(v.Type(), v.Len(), v.Len())
		for i := 0; i < v.Len(); i++ {
			n.Index(i).Set(deepCopy(v.Index(i)))
		}
		return n
	case reflect.Interface:
		if v.IsNil() {
			return v
		}
		n := reflect.New(v.Type()).Elem()
		n.Set(deepCopy(v.Elem()))
		return n
	case reflect.Map:
		if v.IsNil() {
			return v
		}
		n := reflect.MakeMapWithSize(v.Type(), v.Len())
		it := v.MapRange()
		for it.Next() {
			n.SetMapIndex(it.Key(), deepCopy(it.Value()))
		}
		return n
	}
	return v
}
