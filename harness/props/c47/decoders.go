package c47

import (
	"bytes"

	"github.com/cosmos/gogoproto/proto"

	"github.com/cosmos/cosmos-sdk/codec"

	gmptypes "github.com/cosmos/ibc-go/v11/modules/apps/27-gmp/types"
	icatypes "github.com/cosmos/ibc-go/v11/modules/apps/27-interchain-accounts/types"
	callbacktypes "github.com/cosmos/ibc-go/v11/modules/apps/callbacks/types"
	pfmtypes "github.com/cosmos/ibc-go/v11/modules/apps/packet-forward-middleware/types"
	transfertypes "github.com/cosmos/ibc-go/v11/modules/apps/transfer/types"
	clienttypes "github.com/cosmos/ibc-go/v11/modules/core/02-client/types"
	connectiontypes "github.com/cosmos/ibc-go/v11/modules/core/03-connection/types"
	channeltypes "github.com/cosmos/ibc-go/v11/modules/core/04-channel/types"
	channeltypesv2 "github.com/cosmos/ibc-go/v11/modules/core/04-channel/v2/types"
	host "github.com/cosmos/ibc-go/v11/modules/core/24-host"
	"github.com/cosmos/ibc-go/v11/modules/light-clients/attestations"
)

// decoder is one stateless parser / decoder fed with arbitrary bytes.
type decoder struct {
	Name  string
	F     func(in []byte)
	Cheap bool     // raw string parser: gets the length-3 enumeration in the thorough tier
	Valid [][]byte // valid inputs whose single mutations are enumerated too
	Edge  [][]byte // further hand-picked inputs, fed as they are
	// JSON-decoding targets additionally get every short sequence of JSON tokens as a whole
	// input, raw and inside each wrapper ("%s" is replaced by the token sequence)
	JSONWraps []string
}

var encodings = []string{transfertypes.EncodingJSON, transfertypes.EncodingProtobuf, transfertypes.EncodingABI}

func encName(e string) string {
	switch e {
	case transfertypes.EncodingJSON:
		return "json"
	case transfertypes.EncodingProtobuf:
		return "proto"
	case transfertypes.EncodingABI:
		return "abi"
	case "":
		return "default"
	}
	return e
}

// everything a middleware does with a decoded packet data value that is stateless
func exerciseProvider(pd any) {
	for _, key := range []string{callbacktypes.SourceCallbackKey, callbacktypes.DestinationCallbackKey} {
		for _, gas := range [][2]uint64{{0, 0}, {100, 50}, {1<<64 - 1, 1<<64 - 1}} {
			cb, _, _ := callbacktypes.GetCallbackData(pd, "ics20-1", "transfer", gas[0], gas[1], key)
			_ = cb.AllowRetry()
		}
	}
	if p, ok := pd.(interface{ GetCustomPacketData(string) any }); ok {
		_ = p.GetCustomPacketData("forward")
		_ = p.GetCustomPacketData("")
	}
}

func pfm(pd interface{ GetCustomPacketData(string) any }) {
	md, _, err := pfmtypes.GetPacketMetadataFromPacketdata(pd)
	if err == nil {
		_ = md.Forward.Validate()
	}
}

func memoTargets(memo string) {
	ft := transfertypes.NewFungibleTokenPacketData("uatom", "1", "sender", "receiver", memo)
	exerciseProvider(ft)
	pfm(ft)
	itr := transfertypes.NewInternalTransferRepresentation(transfertypes.Token{Denom: transfertypes.NewDenom("uatom"), Amount: "1"}, "sender", "receiver", memo)
	exerciseProvider(itr)
	pfm(itr)
	_ = itr.ValidateBasic()
	g := gmptypes.NewGMPPacketData("sender", "receiver", nil, []byte{1}, memo)
	exerciseProvider(g)
	ica := icatypes.InterchainAccountPacketData{Type: icatypes.EXECUTE_TX, Data: []byte{1}, Memo: memo}
	exerciseProvider(ica)
}

func decoderTable(cdc codec.Codec) []decoder {
	var out []decoder
	str := func(name string, valid []string, f func(s string)) {
		d := decoder{Name: name, Cheap: true, F: func(in []byte) { f(string(in)) }}
		for _, v := range valid {
			d.Valid = append(d.Valid, []byte(v))
		}
		out = append(out, d)
	}
	// heights, chain ids, identifiers
	str("02-client/ParseHeight", []string{"1-10", "18446744073709551615-18446744073709551615"}, func(s string) {
		h, err := clienttypes.ParseHeight(s)
		if err == nil {
			_ = h.String()
			_ = h.IsZero()
		}
	})
	str("02-client/ParseChainID", []string{"chain-1", "gaia-9223372036854775807"}, func(s string) {
		_ = clienttypes.ParseChainID(s)
		_ = clienttypes.IsRevisionFormat(s)
		_, _ = clienttypes.SetRevisionNumber(s, 2)
	})
	out[len(out)-1].Edge = [][]byte{[]byte("gaia-18446744073709551615"), []byte("gaia-18446744073709551616")}
	str("02-client/ParseClientIdentifier", []string{"07-tendermint-0", "06-solomachine-18446744073709551615"}, func(s string) {
		_, _, _ = clienttypes.ParseClientIdentifier(s)
		_ = clienttypes.IsValidClientID(s)
		_ = clienttypes.IsClientIDFormat(s)
		_ = clienttypes.ValidateClientType(s)
	})
	str("24-host/validators", []string{"transfer", "channel-0", "connection-0", "07-tendermint-0"}, func(s string) {
		_ = host.ClientIdentifierValidator(s)
		_ = host.ConnectionIdentifierValidator(s)
		_ = host.ChannelIdentifierValidator(s)
		_ = host.PortIdentifierValidator(s)
	})
	str("24-host/ParseIdentifier", []string{"channel-7", "connection-18446744073709551615", "07-tendermint-1"}, func(s string) {
		for _, p := range []string{"channel-", "connection-", "07-tendermint-", ""} {
			_, _ = host.ParseIdentifier(s, p)
		}
	})
	str("24-host/ParsePaths", []string{"connections/connection-0", "channelEnds/ports/transfer/channels/channel-0", "ports/transfer/channels/channel-0"}, func(s string) {
		_, _ = host.ParseConnectionPath(s)
		_, _, _ = host.ParseChannelPath(s)
	})
	str("03-connection/ParseConnectionSequence", []string{"connection-0", "connection-18446744073709551615"}, func(s string) {
		_, _ = connectiontypes.ParseConnectionSequence(s)
		_ = connectiontypes.IsValidConnectionID(s)
		_ = connectiontypes.IsConnectionIDFormat(s)
	})
	str("04-channel/ParseChannelSequence", []string{"channel-0", "channel-18446744073709551615"}, func(s string) {
		_, _ = channeltypes.ParseChannelSequence(s)
		_ = channeltypes.IsValidChannelID(s)
		_ = channeltypes.IsChannelIDFormat(s)
	})
	// denominations
	str("transfer/ExtractDenomFromPath", []string{"uatom", "transfer/channel-0/uatom", "transfer/channel-0/transfer/07-tendermint-3/gamm/pool/1", "ibc/27394FB092D2ECCD56123C74F36E4C1F926001CEADA9CA97EA622B25F41E5EB2"}, func(s string) {
		d := transfertypes.ExtractDenomFromPath(s)
		_ = d.Validate()
		_ = d.Path()
		_ = d.IBCDenom()
		_ = d.IsNative()
		_ = d.HasPrefix("transfer", "channel-0")
		_ = transfertypes.Denoms{d, d}.Validate()
		_, _ = transfertypes.ParseHexHash(s)
	})
	// ICA metadata and helpers
	str("ica/MetadataFromVersion", []string{icatypes.NewDefaultMetadataString("connection-0", "connection-1"),
		`{"version":"ics27-1","controller_connection_id":"connection-0","host_connection_id":"connection-1","address":"cosmos1qyqszqgpqyqszqgpqyqszqgpqyqszqgpjnp7du","encoding":"proto3json","tx_type":"sdk_multi_msg"}`}, func(s string) {
		md, err := icatypes.MetadataFromVersion(s)
		if err == nil {
			_ = icatypes.IsPreviousMetadataEqual(s, md)
			_ = icatypes.ValidateAccountAddress(md.Address)
		}
		_ = icatypes.IsPreviousMetadataEqual(s, icatypes.Metadata{})
	})
	str("ica/ValidateAccountAddress+NewControllerPortID", []string{"cosmos1qyqszqgpqyqszqgpqyqszqgpqyqszqgpjnp7du"}, func(s string) {
		_ = icatypes.ValidateAccountAddress(s)
		_, _ = icatypes.NewControllerPortID(s)
	})
	// memos: packet-forward metadata, callbacks data, custom packet data of every packet data type
	str("memo/forward+callbacks", []string{
		`{"forward":{"receiver":"r","port":"transfer","channel":"channel-0","timeout":"10m","retries":2,"next":{"forward":{"receiver":"q","port":"transfer","channel":"channel-1"}}}}`,
		`{"forward":{"receiver":"r","port":"transfer","channel":"channel-0","timeout":600000000000,"next":"{\"forward\":{\"receiver\":\"q\",\"port\":\"transfer\",\"channel\":\"channel-1\"}}"}}`,
		`{"src_callback":{"address":"cosmos1qyqszqgpqyqszqgpqyqszqgpqyqszqgpjnp7du","gas_limit":"200000","calldata":"deadbeef"},"dest_callback":{"address":"c","gas_limit":"1"}}`,
	}, memoTargets)
	out[len(out)-1].Cheap = false

	raw := func(name string, valid [][]byte, f func(in []byte)) {
		out = append(out, decoder{Name: name, F: f, Valid: valid})
	}
	// ICS-20 packet data
	ft := transfertypes.NewFungibleTokenPacketData("transfer/channel-1/uatom", "100", "sender", "receiver", `{"forward":{"receiver":"r","port":"transfer","channel":"channel-0"}}`)
	for _, enc := range append([]string{""}, encodings...) {
		enc := enc
		var valid [][]byte
		e := enc
		if e == "" {
			e = transfertypes.EncodingJSON
		}
		if bz, err := transfertypes.MarshalPacketData(ft, transfertypes.V1, e); err == nil {
			valid = append(valid, bz)
		}
		raw("transfer/UnmarshalPacketData/"+encName(enc), valid, func(in []byte) {
			itr, err := transfertypes.UnmarshalPacketData(in, transfertypes.V1, enc)
			if err == nil {
				_ = itr.ValidateBasic()
				_ = itr.Token.Validate()
				exerciseProvider(itr)
				pfm(itr)
			}
			_, _ = transfertypes.UnmarshalPacketData(in, "ics20-2", enc)
		})
		if enc == transfertypes.EncodingABI {
			raw("transfer/DecodeABIFungibleTokenPacketData", valid, func(in []byte) {
				d, err := transfertypes.DecodeABIFungibleTokenPacketData(in)
				if err == nil {
					_ = d.ValidateBasic()
				}
			})
		}
	}
	raw("transfer/FungibleTokenPacketData/proto+json-direct", [][]byte{ft.GetBytes()}, func(in []byte) {
		var a transfertypes.FungibleTokenPacketData
		if err := transfertypes.ModuleCdc.UnmarshalJSON(in, &a); err == nil {
			_ = a.ValidateBasic()
			exerciseProvider(a)
		}
		var b transfertypes.FungibleTokenPacketData
		if err := proto.Unmarshal(in, &b); err == nil {
			_ = b.ValidateBasic()
		}
	})
	// GMP
	g := gmptypes.NewGMPPacketData("sender", "receiver", []byte{1, 2}, []byte("payload"), `{"dest_callback":{"address":"a"}}`)
	ga := gmptypes.NewAcknowledgement([]byte("result"))
	for _, enc := range encodings {
		enc := enc
		var vp, va [][]byte
		if bz, err := gmptypes.MarshalPacketData(&g, gmptypes.Version, enc); err == nil {
			vp = append(vp, bz)
		}
		if bz, err := gmptypes.MarshalAcknowledgement(&ga, gmptypes.Version, enc); err == nil {
			va = append(va, bz)
		}
		raw("gmp/UnmarshalPacketData/"+encName(enc), vp, func(in []byte) {
			d, err := gmptypes.UnmarshalPacketData(in, gmptypes.Version, enc)
			if err == nil {
				_ = d.ValidateBasic()
				exerciseProvider(*d)
			}
			_, _ = gmptypes.UnmarshalPacketData(in, "ics27-1", enc)
		})
		raw("gmp/UnmarshalAcknowledgement/"+encName(enc), va, func(in []byte) {
			a, err := gmptypes.UnmarshalAcknowledgement(in, gmptypes.Version, enc)
			if err == nil {
				_ = a.ValidateBasic()
			}
		})
		if enc == gmptypes.EncodingABI {
			raw("gmp/DecodeABIGMPPacketData", vp, func(in []byte) {
				_, _ = gmptypes.DecodeABIGMPPacketData(in)
			})
			raw("gmp/DecodeABIAcknowledgement", va, func(in []byte) {
				_, _ = gmptypes.DecodeABIAcknowledgement(in)
			})
		}
	}
	// attestation ABI
	sa := attestations.StateAttestation{Height: 7, Timestamp: 9_000_000_000}
	pa := attestations.PacketAttestation{Height: 7, Packets: []attestations.PacketCompact{{Path: bytes.Repeat([]byte{1}, 32), Commitment: bytes.Repeat([]byte{2}, 32)}, {Path: bytes.Repeat([]byte{3}, 32), Commitment: bytes.Repeat([]byte{4}, 32)}}}
	sabz, _ := sa.ABIEncode()
	pabz, _ := pa.ABIEncode()
	raw("attestations/ABIDecodeStateAttestation", [][]byte{sabz}, func(in []byte) {
		_, _ = attestations.ABIDecodeStateAttestation(in)
	})
	raw("attestations/ABIDecodePacketAttestation", [][]byte{pabz}, func(in []byte) {
		_, _ = attestations.ABIDecodePacketAttestation(in)
	})
	// ICA packet data and transactions
	tx, _ := icatypes.SerializeCosmosTx(cdc, []proto.Message{transfertypes.NewMsgUpdateParams("cosmos1qyqszqgpqyqszqgpqyqszqgpqyqszqgpjnp7du", transfertypes.DefaultParams())}, icatypes.EncodingProtobuf)
	txj, _ := icatypes.SerializeCosmosTx(cdc, []proto.Message{transfertypes.NewMsgUpdateParams("cosmos1qyqszqgpqyqszqgpqyqszqgpqyqszqgpjnp7du", transfertypes.DefaultParams())}, icatypes.EncodingProto3JSON)
	icapd := icatypes.InterchainAccountPacketData{Type: icatypes.EXECUTE_TX, Data: tx, Memo: `{"src_callback":{"address":"a"}}`}
	raw("ica/InterchainAccountPacketData.UnmarshalJSON", [][]byte{icapd.GetBytes()}, func(in []byte) {
		var d icatypes.InterchainAccountPacketData
		if err := d.UnmarshalJSON(in); err == nil {
			_ = d.ValidateBasic()
			_ = d.GetPacketSender("icacontroller-owner")
			exerciseProvider(d)
			_, _ = icatypes.DeserializeCosmosTx(cdc, d.Data, icatypes.EncodingProtobuf)
		}
	})
	raw("ica/DeserializeCosmosTx/proto3", [][]byte{tx}, func(in []byte) {
		_, _ = icatypes.DeserializeCosmosTx(cdc, in, icatypes.EncodingProtobuf)
	})
	raw("ica/DeserializeCosmosTx/proto3json", [][]byte{txj}, func(in []byte) {
		_, _ = icatypes.DeserializeCosmosTx(cdc, in, icatypes.EncodingProto3JSON)
	})
	// channel acknowledgements
	okAck := channeltypes.NewResultAcknowledgement([]byte{1})
	errAck := channeltypes.Acknowledgement{Response: &channeltypes.Acknowledgement_Error{Error: "boom"}}
	okp, _ := proto.Marshal(&okAck)
	errp, _ := proto.Marshal(&errAck)
	useAck := func(a channeltypes.Acknowledgement) {
		_ = a.ValidateBasic()
		_ = a.Success()
		_ = a.GetResult()
		_ = a.GetError()
	}
	raw("04-channel/Acknowledgement/json", [][]byte{okAck.Acknowledgement(), errAck.Acknowledgement()}, func(in []byte) {
		var a channeltypes.Acknowledgement
		if err := channeltypes.SubModuleCdc.UnmarshalJSON(in, &a); err == nil {
			useAck(a)
		}
		var b channeltypes.Acknowledgement
		if err := transfertypes.ModuleCdc.UnmarshalJSON(in, &b); err == nil {
			useAck(b)
		}
	})
	raw("04-channel/Acknowledgement/proto", [][]byte{okp, errp}, func(in []byte) {
		var a channeltypes.Acknowledgement
		if err := proto.Unmarshal(in, &a); err == nil {
			useAck(a)
		}
	})
	ack2 := channeltypesv2.NewAcknowledgement([]byte("a"), []byte("b"))
	ack2bz, _ := proto.Marshal(&ack2)
	raw("04-channel-v2/Acknowledgement/proto", [][]byte{ack2bz}, func(in []byte) {
		var a channeltypesv2.Acknowledgement
		if err := proto.Unmarshal(in, &a); err == nil {
			if a.Validate() == nil {
				_ = a.Success() // only defined for acknowledgements that passed validation
			}
		}
	})
	pkt2 := channeltypesv2.NewPacket(1, "07-tendermint-0", "07-tendermint-1", 100, channeltypesv2.NewPayload("transfer", "transfer", "ics20-1", transfertypes.EncodingJSON, ft.GetBytes()))
	pkt2bz, _ := proto.Marshal(&pkt2)
	raw("04-channel-v2/Packet/proto", [][]byte{pkt2bz}, func(in []byte) {
		var p channeltypesv2.Packet
		if err := proto.Unmarshal(in, &p); err == nil {
			_ = p.ValidateBasic()
			for _, pl := range p.Payloads {
				_ = pl.ValidateBasic()
				if itr, err := transfertypes.UnmarshalPacketData(pl.Value, pl.Version, pl.Encoding); err == nil {
					_ = itr.ValidateBasic()
				}
			}
		}
	})
	pkt1 := channeltypes.NewPacket(ft.GetBytes(), 1, "transfer", "channel-0", "transfer", "channel-1", clienttypes.NewHeight(1, 10), 0)
	pkt1bz, _ := proto.Marshal(&pkt1)
	raw("04-channel/Packet/proto", [][]byte{pkt1bz}, func(in []byte) {
		var p channeltypes.Packet
		if err := proto.Unmarshal(in, &p); err == nil {
			_ = p.ValidateBasic()
		}
	})
	return out
}
