// Package c07 decides C07: packet and acknowledgement commitments (ICS-04 v1 and v2) are
// deterministic functions of exactly the committed fields, equal the specification's
// formula, and never coincide for two inputs that differ in a committed field or only in
// the position of a field boundary.
//
// Technique: exhaustive small-scope enumeration (no sampling). Every enumerated input is
// (i) committed by the implementation and by an independent reference that builds the
// specification's preimage by hand, (ii) entered into a hash-set keyed by the commitment so
// that any two inputs with different committed fields but equal commitments are found,
// (iii) committed a second time (determinism) and a third time with every non-committed
// field changed (the commitment depends on exactly the listed fields).
package c07

import (
	"bytes"
	"crypto/sha256"
	"encoding/binary"
	"encoding/hex"
	"fmt"

	clienttypes "github.com/cosmos/ibc-go/v11/modules/core/02-client/types"
	channeltypes "github.com/cosmos/ibc-go/v11/modules/core/04-channel/types"
	channeltypesv2 "github.com/cosmos/ibc-go/v11/modules/core/04-channel/v2/types"

	"verif/harness/core"
)

func init() { core.Register("C07", "exploration", run) }

const (
	kV1Packet = iota
	kV1Ack
	kV2Packet
	kV2Ack
)

var kindName = [...]string{"v1packet", "v1ack", "v2packet", "v2ack"}

// in is one enumerated input: only committed fields. Strings are raw bytes (they may hold
// 0x00 / 0xff; the commitment functions never interpret them).
type in struct {
	kind       int
	ts, rn, rh uint64      // v1: timeout timestamp, revision number, revision height; v2: ts = timeout
	data       string      // v1 packet data / v1 acknowledgement bytes
	dest       string      // v2 destination client
	pl         [][5]string // v2 payloads: source port, destination port, version, encoding, value
	acks       []string    // v2 app acknowledgements
}

// Input is the JSON (replay) form of in; byte strings are hex encoded.
type Input struct {
	Kind     string      `json:"kind"`
	Timeout  uint64      `json:"timeout_timestamp"`
	RevNum   uint64      `json:"revision_number"`
	RevH     uint64      `json:"revision_height"`
	Data     string      `json:"data_hex"`
	Dest     string      `json:"dest_client_hex"`
	Payloads [][5]string `json:"payloads_hex"` // source port, destination port, version, encoding, value
	Acks     []string    `json:"app_acks_hex"`
}

// Replay is the artefact stored with a violation: one input, or two for a collision.
type Replay struct {
	Class string `json:"class"`
	A     Input  `json:"a"`
	B     *Input `json:"b,omitempty"`
}

func hx(s string) string { return hex.EncodeToString([]byte(s)) }

func unhx(s string) string {
	b, err := hex.DecodeString(s)
	if err != nil {
		panic("bad hex in replay: " + s)
	}
	return string(b)
}

func (x *in) export() Input {
	o := Input{Kind: kindName[x.kind], Timeout: x.ts, RevNum: x.rn, RevH: x.rh, Data: hx(x.data), Dest: hx(x.dest)}
	for _, p := range x.pl {
		o.Payloads = append(o.Payloads, [5]string{hx(p[0]), hx(p[1]), hx(p[2]), hx(p[3]), hx(p[4])})
	}
	for _, a := range x.acks {
		o.Acks = append(o.Acks, hx(a))
	}
	return o
}

func importInput(o Input) in {
	x := in{kind: -1, ts: o.Timeout, rn: o.RevNum, rh: o.RevH, data: unhx(o.Data), dest: unhx(o.Dest)}
	for k, n := range kindName {
		if n == o.Kind {
			x.kind = k
		}
	}
	if x.kind < 0 {
		panic("bad kind in replay: " + o.Kind)
	}
	for _, p := range o.Payloads {
		x.pl = append(x.pl, [5]string{unhx(p[0]), unhx(p[1]), unhx(p[2]), unhx(p[3]), unhx(p[4])})
	}
	for _, a := range o.Acks {
		x.acks = append(x.acks, unhx(a))
	}
	return x
}

// ---------------------------------------------------------------------------------------
// implementation under test

// impl calls the production commitment function. variant selects the values of the fields
// that are NOT committed (v1: sequence, ports, channels; v2: sequence, source client): the
// commitment must be the same for every variant.
func impl(x *in, variant int) []byte {
	switch x.kind {
	case kV1Packet:
		p := channeltypes.Packet{
			Data:             []byte(x.data),
			TimeoutHeight:    clienttypes.Height{RevisionNumber: x.rn, RevisionHeight: x.rh},
			TimeoutTimestamp: x.ts,
		}
		if variant == 0 {
			p.Sequence, p.SourcePort, p.SourceChannel, p.DestinationPort, p.DestinationChannel = 1, "transfer", "channel-0", "transfer", "channel-1"
		} else {
			p.Sequence, p.SourcePort, p.SourceChannel, p.DestinationPort, p.DestinationChannel = 1<<63+5, "mock", "channel-77", "", "channel-0"
		}
		return channeltypes.CommitPacket(p)
	case kV1Ack:
		if variant != 0 && len(x.data) == 0 {
			return channeltypes.CommitAcknowledgement(nil) // nil and empty are the same byte string
		}
		return channeltypes.CommitAcknowledgement([]byte(x.data))
	case kV2Packet:
		p := channeltypesv2.Packet{DestinationClient: x.dest, TimeoutTimestamp: x.ts}
		if variant == 0 {
			p.Sequence, p.SourceClient = 1, "07-tendermint-0"
		} else {
			p.Sequence, p.SourceClient = 1<<64-1, "channel-3"
		}
		for _, f := range x.pl {
			p.Payloads = append(p.Payloads, channeltypesv2.Payload{SourcePort: f[0], DestinationPort: f[1], Version: f[2], Encoding: f[3], Value: []byte(f[4])})
		}
		return channeltypesv2.CommitPacket(p)
	case kV2Ack:
		var a channeltypesv2.Acknowledgement
		for _, s := range x.acks {
			a.AppAcknowledgements = append(a.AppAcknowledgements, []byte(s))
		}
		if variant != 0 && len(x.acks) == 0 {
			a.AppAcknowledgements = [][]byte{} // empty, non-nil list
		}
		return channeltypesv2.CommitAcknowledgement(a)
	}
	panic("unknown kind")
}

// ---------------------------------------------------------------------------------------
// reference: the specification's preimage, written out by hand

func h(parts ...[]byte) []byte {
	d := sha256.New()
	for _, p := range parts {
		d.Write(p)
	}
	return d.Sum(nil)
}

func be8(v uint64) []byte {
	var b [8]byte
	binary.BigEndian.PutUint64(b[:], v)
	return b[:]
}

// refPreimage returns the byte string whose SHA-256 is the commitment according to ICS-04:
//
//	v1 packet: timeoutTimestamp(8, big endian) ‖ revisionNumber(8) ‖ revisionHeight(8) ‖ H(data)          (56 bytes)
//	v1 ack   : the acknowledgement bytes
//	v2 packet: 0x02 ‖ H(destClient) ‖ H(timeout(8, big endian)) ‖ H( ‖_i H(H(src)‖H(dst)‖H(version)‖H(encoding)‖H(value)) )   (97 bytes)
//	v2 ack   : 0x02 ‖ ‖_i H(appAck_i)
func refPreimage(x *in) []byte {
	switch x.kind {
	case kV1Packet:
		pre := make([]byte, 0, 56)
		pre = append(pre, be8(x.ts)...)
		pre = append(pre, be8(x.rn)...)
		pre = append(pre, be8(x.rh)...)
		pre = append(pre, h([]byte(x.data))...)
		return pre
	case kV1Ack:
		return []byte(x.data)
	case kV2Packet:
		var app []byte
		for _, f := range x.pl {
			var fields []byte
			for i := 0; i < 5; i++ {
				fields = append(fields, h([]byte(f[i]))...)
			}
			app = append(app, h(fields)...)
		}
		pre := []byte{0x02}
		pre = append(pre, h([]byte(x.dest))...)
		pre = append(pre, h(be8(x.ts))...)
		pre = append(pre, h(app)...)
		return pre
	case kV2Ack:
		pre := []byte{0x02}
		for _, a := range x.acks {
			pre = append(pre, h([]byte(a))...)
		}
		return pre
	}
	panic("unknown kind")
}

// canon appends an injective encoding of the committed fields of x (fixed-width integers,
// one-byte length prefixes; every enumerated field is shorter than 256 bytes).
func canon(buf []byte, x *in) []byte {
	lp := func(s string) {
		if len(s) > 255 {
			panic("field too long for the canonical key")
		}
		buf = append(buf, byte(len(s)))
		buf = append(buf, s...)
	}
	buf = append(buf, byte(x.kind))
	switch x.kind {
	case kV1Packet:
		buf = append(buf, be8(x.ts)...)
		buf = append(buf, be8(x.rn)...)
		buf = append(buf, be8(x.rh)...)
		buf = append(buf, x.data...)
	case kV1Ack:
		buf = append(buf, x.data...)
	case kV2Packet:
		lp(x.dest)
		buf = append(buf, be8(x.ts)...)
		buf = append(buf, byte(len(x.pl)))
		for _, f := range x.pl {
			for i := 0; i < 5; i++ {
				lp(f[i])
			}
		}
	case kV2Ack:
		buf = append(buf, byte(len(x.acks)))
		for _, a := range x.acks {
			lp(a)
		}
	}
	return buf
}

func trivial(x *in) bool {
	switch x.kind {
	case kV1Packet:
		return x.ts == 0 && x.rn == 0 && x.rh == 0 && x.data == ""
	case kV1Ack:
		return x.data == ""
	case kV2Packet:
		return x.ts == 0 && x.dest == "" && len(x.pl) == 0
	default:
		return len(x.acks) == 0
	}
}

// ---------------------------------------------------------------------------------------
// checker

type checker struct {
	c      *core.C
	seen   map[[32]byte]uint32 // commitment -> index of the first input that produced it
	arena  []byte              // canonical keys of the distinct inputs, back to back
	offs   []uint32
	buf    []byte
	family string
	stop   bool

	evals, distinct, nontrivial, repeats                int
	formulaBad, collisions, nondeterministic, dependent int
	reported                                            map[string]int
	sampled                                             map[string]bool
}

func newChecker(c *core.C) *checker {
	return &checker{c: c, seen: map[[32]byte]uint32{}, reported: map[string]int{}, sampled: map[string]bool{}}
}

// reset drops the hash-set (used between kinds: a v1 preimage is 56 bytes or arbitrary
// acknowledgement bytes, a v2 one starts with 0x02 – the property is per kind).
func (k *checker) reset() {
	k.seen = map[[32]byte]uint32{}
	k.arena, k.offs = nil, nil
}

func (k *checker) violation(class string, x *in, other *in, text string) {
	// keep the number of artefacts small; every occurrence is still counted in the coverage
	if k.reported[class+kindName[x.kind]] >= 3 {
		return
	}
	k.reported[class+kindName[x.kind]]++
	key := fmt.Sprintf("%s/%s/%x", class, kindName[x.kind], canon(nil, x))
	rp := Replay{Class: class, A: x.export()}
	if other != nil {
		key += fmt.Sprintf("/%x", canon(nil, other))
		o := other.export()
		rp.B = &o
	}
	k.c.Violation(key, text, rp)
}

// eval applies oracles (i)–(iii) to one input and enters it into the hash-set.
// It returns false when enumeration should stop (time budget).
func (k *checker) eval(x *in) bool {
	k.evals++
	k.c.Hist("evaluations_by_family", k.family)
	got := impl(x, 0)
	pre := refPreimage(x)
	want := sha256.Sum256(pre)
	if !bytes.Equal(got, want[:]) {
		k.formulaBad++
		k.violation("formula", x, nil, fmt.Sprintf("%s commitment %x differs from the specification's sha256(%x) = %x", kindName[x.kind], got, pre, want))
	}
	if again := impl(x, 0); !bytes.Equal(got, again) {
		k.nondeterministic++
		k.violation("nondeterministic", x, nil, fmt.Sprintf("two calls returned %x and %x", got, again))
	}
	if alt := impl(x, 1); !bytes.Equal(got, alt) {
		k.dependent++
		k.violation("uncommitted-field", x, nil, fmt.Sprintf("commitment changes from %x to %x when only non-committed fields (sequence, source identifiers, v1 ports/channels) change", got, alt))
	}
	if len(got) != 32 {
		// cannot enter the hash-set; already reported by the formula oracle
		return k.tick()
	}
	var ck [32]byte
	copy(ck[:], got)
	k.buf = canon(k.buf[:0], x)
	if idx, ok := k.seen[ck]; ok {
		end := uint32(len(k.arena))
		if int(idx)+1 < len(k.offs) {
			end = k.offs[idx+1]
		}
		first := k.arena[k.offs[idx]:end]
		if bytes.Equal(first, k.buf) {
			k.repeats++ // the same committed fields reached again through another family
		} else {
			k.collisions++
			o := decodeCanon(first)
			k.violation("collision", x, &o, fmt.Sprintf("two %s inputs that differ in a committed field share the commitment %x", kindName[x.kind], got))
		}
		return k.tick()
	}
	k.seen[ck] = uint32(len(k.offs))
	k.offs = append(k.offs, uint32(len(k.arena)))
	k.arena = append(k.arena, k.buf...)
	k.distinct++
	k.c.Hist("distinct_by_kind", kindName[x.kind])
	if !trivial(x) {
		k.nontrivial++
	}
	if !k.sampled[k.family] && !trivial(x) && k.distinct%7 == 3 {
		k.sampled[k.family] = true
		k.c.Sample(map[string]any{"family": k.family, "input": x.export(), "reference_preimage": hex.EncodeToString(pre), "commitment": hex.EncodeToString(got)})
	}
	return k.tick()
}

func (k *checker) tick() bool {
	if k.evals%4096 == 0 && k.c.TimeUp() {
		k.stop = true
	}
	return !k.stop
}

// decodeCanon inverts canon (used to show the first member of a colliding pair).
func decodeCanon(b []byte) in {
	x := in{kind: int(b[0])}
	b = b[1:]
	u := func() uint64 { v := binary.BigEndian.Uint64(b[:8]); b = b[8:]; return v }
	lp := func() string { n := int(b[0]); s := string(b[1 : 1+n]); b = b[1+n:]; return s }
	switch x.kind {
	case kV1Packet:
		x.ts, x.rn, x.rh = u(), u(), u()
		x.data = string(b)
	case kV1Ack:
		x.data = string(b)
	case kV2Packet:
		x.dest = lp()
		x.ts = u()
		n := int(b[0])
		b = b[1:]
		for i := 0; i < n; i++ {
			var f [5]string
			for j := range f {
				f[j] = lp()
			}
			x.pl = append(x.pl, f)
		}
	case kV2Ack:
		n := int(b[0])
		b = b[1:]
		for i := 0; i < n; i++ {
			x.acks = append(x.acks, lp())
		}
	}
	return x
}

// ---------------------------------------------------------------------------------------
// enumeration helpers

// compositions calls f with every way of cutting s into n consecutive (possibly empty) parts.
func compositions(s string, n int, f func(parts []string) bool) bool {
	parts := make([]string, n)
	var rec func(i, from int) bool
	rec = func(i, from int) bool {
		if i == n-1 {
			parts[i] = s[from:]
			return f(parts)
		}
		for to := from; to <= len(s); to++ {
			parts[i] = s[from:to]
			if !rec(i+1, to) {
				return false
			}
		}
		return true
	}
	if n == 0 {
		if s == "" {
			return f(parts)
		}
		return true
	}
	return rec(0, 0)
}

// flatten / unflatten view a v2 packet as the field sequence dest | timeout(8) | 5 fields per payload.
func flatten(x *in) []string {
	out := []string{x.dest, string(be8(x.ts))}
	for _, f := range x.pl {
		out = append(out, f[:]...)
	}
	return out
}

func unflatten(fs []string) (in, bool) {
	if len(fs[1]) != 8 || (len(fs)-2)%5 != 0 {
		return in{}, false
	}
	x := in{kind: kV2Packet, dest: fs[0], ts: binary.BigEndian.Uint64([]byte(fs[1]))}
	for i := 2; i < len(fs); i += 5 {
		x.pl = append(x.pl, [5]string{fs[i], fs[i+1], fs[i+2], fs[i+3], fs[i+4]})
	}
	return x, true
}

// shifts evaluates the boundary-shift neighbours of a v2 packet: for every adjacent pair of
// fields one byte is moved across the boundary in either direction (the 8-byte timeout keeps
// its width: a byte entering on one side pushes one out on the other); every payload is split
// in two at every field boundary, every adjacent payload pair is merged field-wise, and the
// payloads are reordered in every way.
func (k *checker) shifts(x *in) bool {
	fs := flatten(x)
	try := func(g []string) bool {
		y, ok := unflatten(g)
		if !ok {
			return true
		}
		return k.eval(&y)
	}
	for i := 0; i+1 < len(fs); i++ {
		// move the last byte of field i to the front of field i+1
		if len(fs[i]) > 0 {
			g := append([]string{}, fs...)
			b := g[i][len(g[i])-1:]
			g[i] = g[i][:len(g[i])-1]
			g[i+1] = b + g[i+1]
			if i+1 == 1 { // timeout must stay 8 bytes: push its last byte into the next field
				if len(g) > 2 {
					g[2] = g[1][8:] + g[2]
					g[1] = g[1][:8]
				}
			} else if i == 1 { // took a byte out of the timeout: refill from dest
				if len(g[0]) == 0 {
					continue
				}
				g[1] = g[0][len(g[0])-1:] + g[1]
				g[0] = g[0][:len(g[0])-1]
			}
			if !try(g) {
				return false
			}
		}
		// move the first byte of field i+1 to the end of field i
		if len(fs[i+1]) > 0 {
			g := append([]string{}, fs...)
			b := g[i+1][:1]
			g[i+1] = g[i+1][1:]
			g[i] = g[i] + b
			if i == 1 { // timeout grew: push its first byte into dest
				g[0] = g[0] + g[1][:1]
				g[1] = g[1][1:]
			} else if i+1 == 1 { // timeout shrank: refill from the next field
				if len(g) <= 2 || len(g[2]) == 0 {
					continue
				}
				g[1] = g[1] + g[2][:1]
				g[2] = g[2][1:]
			}
			if !try(g) {
				return false
			}
		}
	}
	// split payload j after field s (1..4): [f0..fs-1, "", ...] + ["", ..., fs..f4]
	for j := range x.pl {
		for s := 1; s <= 4; s++ {
			var a, b [5]string
			copy(a[:s], x.pl[j][:s])
			copy(b[s:], x.pl[j][s:])
			y := *x
			y.pl = append(append(append([][5]string{}, x.pl[:j]...), a, b), x.pl[j+1:]...)
			if !k.eval(&y) {
				return false
			}
		}
		// split every field of payload j in the middle
		var a, b [5]string
		for i, f := range x.pl[j] {
			a[i], b[i] = f[:len(f)/2], f[len(f)/2:]
		}
		y := *x
		y.pl = append(append(append([][5]string{}, x.pl[:j]...), a, b), x.pl[j+1:]...)
		if !k.eval(&y) {
			return false
		}
	}
	// merge payloads j, j+1 field-wise
	for j := 0; j+1 < len(x.pl); j++ {
		var m [5]string
		for i := range m {
			m[i] = x.pl[j][i] + x.pl[j+1][i]
		}
		y := *x
		y.pl = append(append(append([][5]string{}, x.pl[:j]...), m), x.pl[j+2:]...)
		if !k.eval(&y) {
			return false
		}
	}
	// drop / duplicate one payload, reorder
	for j := range x.pl {
		y := *x
		y.pl = append(append([][5]string{}, x.pl[:j]...), x.pl[j+1:]...)
		if !k.eval(&y) {
			return false
		}
		z := *x
		z.pl = append(append(append([][5]string{}, x.pl[:j+1]...), x.pl[j]), x.pl[j+1:]...)
		if !k.eval(&z) {
			return false
		}
	}
	ok := true
	core.Permutations(len(x.pl), func(p []int) bool {
		y := *x
		y.pl = make([][5]string, len(p))
		for i, j := range p {
			y.pl[i] = x.pl[j]
		}
		ok = k.eval(&y)
		return ok
	})
	return ok
}

// ---------------------------------------------------------------------------------------

func run(c *core.C) {
	if c.Replay != "" {
		replay(c)
		return
	}
	k := newChecker(c)
	bytes3 := []string{"\x00", "a", "\xff"}
	ab := []string{"a", "b"}

	// ---------------- v1 packets
	k.family = "v1packet/product"
	small, full := core.SmallLattice64(), core.Lattice64()
	rns, rhs, tss := small, small, small
	dataMax := 3
	if !c.Quick() {
		rns, tss = full, full
	}
	datas := core.AllStrings(bytes3, dataMax)
	for _, rn := range rns {
		for _, rh := range rhs {
			for _, ts := range tss {
				for _, d := range datas {
					if !k.eval(&in{kind: kV1Packet, ts: ts, rn: rn, rh: rh, data: d}) {
						goto v1done
					}
				}
			}
		}
	}
	// longer data with a few timeouts
	k.family = "v1packet/long-data"
	for _, d := range core.AllStrings(bytes3, core.Pick(c, 6, 9)) {
		for _, t := range [][3]uint64{{0, 0, 0}, {1, 0, 1}, {0, 1<<64 - 1, 1<<64 - 1}} {
			if !k.eval(&in{kind: kV1Packet, ts: t[0], rn: t[1], rh: t[2], data: d}) {
				goto v1done
			}
		}
	}
	// boundary shifts: a window of 24 bytes slides over a byte string, the rest is the data;
	// then every rotation of the 24 timeout bytes (bytes move across the two inner boundaries
	// and from the last integer into the data)
	k.family = "v1packet/boundary-shift"
	for _, raw := range []string{
		"ABCDEFGHIJKLMNOPQRSTUVWXYZabcdef",
		"\x00\x00\x00\x00\x00\x00\x00\x01\x00\x00\x00\x00\x00\x00\x00\x01\x00\x00\x00\x00\x00\x00\x00\x01\x00\x00\x01\x00",
		"\xff\xff\xff\xff\xff\xff\xff\xff\xff\xff\xff\xff\xff\xff\xff\xff\xff\xff\xff\xff\xff\xff\xff\xff\xff\xff\xff\xff\x00\xff",
		"\x01\x00\x00\x00\x00\x00\x00\x00\x00\x00\x00\x00\x00\x00\x00\x00\x00\x00\x00\x00\x00\x00\x00\x00\x00\x00\x00\x00\x00\x00",
	} {
		u := func(s string) uint64 { return binary.BigEndian.Uint64([]byte(s)) }
		for i := 0; i+24 <= len(raw); i++ {
			w := raw[i : i+24]
			for _, d := range []string{raw[i+24:], raw[:i] + raw[i+24:], raw[:i]} {
				if !k.eval(&in{kind: kV1Packet, ts: u(w[:8]), rn: u(w[8:16]), rh: u(w[16:24]), data: d}) {
					goto v1done
				}
			}
			for r := 1; r < 24; r++ {
				rot := w[r:] + w[:r]
				if !k.eval(&in{kind: kV1Packet, ts: u(rot[:8]), rn: u(rot[8:16]), rh: u(rot[16:24]), data: raw[i+24:]}) {
					goto v1done
				}
			}
			// the last byte of the revision height moves into the data and back
			if !k.eval(&in{kind: kV1Packet, ts: u(w[:8]), rn: u(w[8:16]), rh: u("\x00" + w[16:23]), data: w[23:] + raw[i+24:]}) {
				goto v1done
			}
			if i+25 <= len(raw) {
				if !k.eval(&in{kind: kV1Packet, ts: u(w[:8]), rn: u(w[8:16]), rh: u(w[17:24] + raw[i+24:i+25]), data: raw[i+25:]}) {
					goto v1done
				}
			}
		}
	}
v1done:
	v1p := k.distinct

	// ---------------- v1 acknowledgements
	k.reset()
	k.family = "v1ack/strings"
	core.Strings(bytes3, core.Pick(c, 7, 10), func(s string) bool { return k.eval(&in{kind: kV1Ack, data: s}) })
	k.family = "v1ack/json-like"
	for _, s := range []string{`{"result":"AQ=="}`, `{"result":"AQ=="} `, `{"error":"x"}`, `{"result":"AQ==","error":""}`, `{ "result":"AQ=="}`, "\x01", "\x00\x01", "\x01\x00"} {
		k.eval(&in{kind: kV1Ack, data: s})
	}
	v1a := k.distinct - v1p

	// ---------------- v2 packets
	k.reset()
	timeouts := core.Pick(c, []uint64{0, 1}, []uint64{0, 1, 256, 1<<64 - 1})
	if !k.stop {
		// one payload: every field over Strings({a,b}, ≤2)
		k.family = "v2packet/1-payload-product"
		f2 := core.AllStrings(ab, 2)
		dests := core.AllStrings(ab, core.Pick(c, 1, 2))
	p1:
		for _, dest := range dests {
			for _, ts := range timeouts {
				x := in{kind: kV2Packet, dest: dest, ts: ts, pl: make([][5]string, 1)}
				ok := true
				core.Product([]int{len(f2), len(f2), len(f2), len(f2), len(f2)}, func(ix []int) bool {
					for i, j := range ix {
						x.pl[0][i] = f2[j]
					}
					ok = k.eval(&x)
					return ok
				})
				if !ok {
					break p1
				}
			}
		}
	}
	if !k.stop {
		// zero payloads (not a valid packet, but CommitPacket is total) and 2..3 payloads
		k.family = "v2packet/multi-payload-product"
		f1 := core.AllStrings(core.Pick(c, []string{"a"}, ab), 1) // quick: {"", a}; thorough: {"", a, b}
		var pls [][5]string
		core.Product([]int{len(f1), len(f1), len(f1), len(f1), len(f1)}, func(ix []int) bool {
			pls = append(pls, [5]string{f1[ix[0]], f1[ix[1]], f1[ix[2]], f1[ix[3]], f1[ix[4]]})
			return true
		})
		dests := []string{"", "a"}
		ts2 := []uint64{0, 1}
	pm:
		for _, dest := range dests {
			for _, ts := range ts2 {
				if !k.eval(&in{kind: kV2Packet, dest: dest, ts: ts}) {
					break pm
				}
				for _, a := range pls {
					for _, b := range pls {
						if !k.eval(&in{kind: kV2Packet, dest: dest, ts: ts, pl: [][5]string{a, b}}) {
							break pm
						}
					}
				}
			}
		}
		// three payloads over the 32 payloads with fields in {"", a}
		var pls32 [][5]string
		e := []string{"", "a"}
		core.Product([]int{2, 2, 2, 2, 2}, func(ix []int) bool {
			pls32 = append(pls32, [5]string{e[ix[0]], e[ix[1]], e[ix[2]], e[ix[3]], e[ix[4]]})
			return true
		})
	p3:
		for _, dest := range dests {
			for _, ts := range ts2 {
				for _, a := range pls32 {
					for _, b := range pls32 {
						for _, d := range pls32 {
							if !k.eval(&in{kind: kV2Packet, dest: dest, ts: ts, pl: [][5]string{a, b, d}}) {
								break p3
							}
						}
					}
				}
			}
		}
	}
	if !k.stop {
		// special byte strings in every single field position (others fixed), 1..3 payloads;
		// timeouts over the full lattice
		k.family = "v2packet/special-bytes"
		special := []string{"\x00", "\xff", "\x00\x00", "a\x00", "\x00a", "\xff\xff", "\x02", " ", "07-tendermint-0", "transfer", "application/json", "ics20-1"}
		base := [5]string{"transfer", "transfer", "ics20-1", "application/json", "{}"}
	sp:
		for n := 1; n <= 3; n++ {
			for pos := 0; pos < 1+5*n; pos++ {
				for _, s := range special {
					x := in{kind: kV2Packet, dest: "07-tendermint-0", ts: 1700000000}
					for i := 0; i < n; i++ {
						x.pl = append(x.pl, base)
					}
					if pos == 0 {
						x.dest = s
					} else {
						x.pl[(pos-1)/5][(pos-1)%5] = s
					}
					if !k.eval(&x) {
						break sp
					}
				}
			}
			for _, ts := range core.Lattice64() {
				x := in{kind: kV2Packet, dest: "07-tendermint-0", ts: ts}
				for i := 0; i < n; i++ {
					x.pl = append(x.pl, base)
				}
				if !k.eval(&x) {
					break sp
				}
			}
		}
	}
	if !k.stop {
		// all re-splittings: one raw byte string cut in every possible way into
		// dest | timeout(8) | 5 fields × n payloads, n = 1..3. All members have the same
		// concatenation of raw field bytes and differ only in where the boundaries are
		// (this contains every one-byte shift, every payload split and every merge).
		k.family = "v2packet/all-resplittings"
		tail := core.Pick(c, 5, 7)
		raws := []string{"ABCDEFGHIJKLMNOPQRST", "aaaaaaaaaaaaaaaaaaaa", "\x00\xff\x00\x00\xff\xff\x00\xff\x00\x00\xff\x00\xff\xff\x00\x00\x00\xff\xff\xff"}
	rs:
		for _, raw := range raws {
			raw = raw[:8+tail]
			for n := 1; n <= 3; n++ {
				ok := compositions(raw[8:], 1+5*n, func(parts []string) bool {
					// only the lengths of the parts are used: dest is the first len(parts[0]) raw
					// bytes, the timeout the 8 bytes that follow, and the remainder is cut into the
					// payload fields with the lengths of parts[1:]
					d := len(parts[0])
					rest := raw[d+8:]
					x := in{kind: kV2Packet, dest: raw[:d], ts: binary.BigEndian.Uint64([]byte(raw[d : d+8]))}
					pos := 0
					for i := 0; i < n; i++ {
						var f [5]string
						for j := 0; j < 5; j++ {
							l := len(parts[1+5*i+j])
							f[j] = rest[pos : pos+l]
							pos += l
						}
						x.pl = append(x.pl, f)
					}
					return k.eval(&x)
				})
				if !ok {
					break rs
				}
			}
		}
	}
	if !k.stop {
		// explicit boundary-shift / split / merge / reorder neighbours of a set of base packets
		k.family = "v2packet/shift-split-merge-reorder"
		bases := []in{
			{kind: kV2Packet, dest: "cli", ts: 0x0102030405060708, pl: [][5]string{{"src", "dst", "ver", "enc", "val"}}},
			{kind: kV2Packet, dest: "cli", ts: 0x0102030405060708, pl: [][5]string{{"src", "dst", "ver", "enc", "val"}, {"SRC", "DST", "VER", "ENC", "VAL"}}},
			{kind: kV2Packet, dest: "cli", ts: 0x0102030405060708, pl: [][5]string{{"src", "dst", "ver", "enc", "val"}, {"SRC", "DST", "VER", "ENC", "VAL"}, {"s", "d", "v", "e", "x"}}},
			{kind: kV2Packet, dest: "aa", ts: 0x6161616161616161, pl: [][5]string{{"aa", "aa", "aa", "aa", "aa"}, {"aa", "aa", "aa", "aa", "aa"}, {"aa", "aa", "aa", "aa", "aa"}}},
			{kind: kV2Packet, dest: "\x00\x00", ts: 0, pl: [][5]string{{"\x00", "\x00", "\x00", "\x00", "\x00"}, {"\x00\x00", "", "\x00", "", "\x00"}}},
			{kind: kV2Packet, dest: "07-tendermint-0", ts: 1700000000, pl: [][5]string{{"transfer", "transfer", "ics20-1", "application/json", `{"denom":"uatom"}`}, {"mockv2a", "mockv2b", "mock-version", "json", "\x01"}}},
		}
		if !c.Quick() {
			// every packet with 2 payloads over fields in {"", a}, dest "a": all neighbours
			e := []string{"", "a"}
			var pls [][5]string
			core.Product([]int{2, 2, 2, 2, 2}, func(ix []int) bool {
				pls = append(pls, [5]string{e[ix[0]], e[ix[1]], e[ix[2]], e[ix[3]], e[ix[4]]})
				return true
			})
			for _, a := range pls {
				for _, b := range pls {
					bases = append(bases, in{kind: kV2Packet, dest: "a", ts: 0x6100000000000061, pl: [][5]string{a, b}})
				}
			}
		}
		for i := range bases {
			if !k.eval(&bases[i]) || !k.shifts(&bases[i]) {
				break
			}
		}
	}
	v2p := k.distinct - v1p - v1a

	// ---------------- v2 acknowledgements
	k.reset()
	if !k.stop {
		k.family = "v2ack/lists"
		elems := core.AllStrings(bytes3, 2) // 13 app acknowledgements
		maxLen := core.Pick(c, 4, 5)
		for n := 0; n <= maxLen && !k.stop; n++ {
			dims := make([]int, n)
			for i := range dims {
				dims[i] = len(elems)
			}
			x := in{kind: kV2Ack, acks: make([]string, n)}
			if n == 0 {
				k.eval(&x)
				continue
			}
			core.Product(dims, func(ix []int) bool {
				for i, j := range ix {
					x.acks[i] = elems[j]
				}
				return k.eval(&x)
			})
		}
	}
	if !k.stop {
		k.family = "v2ack/all-resplittings"
		for _, raw := range []string{"ABCDEFGH", "aaaaaaaa", "\x00\xff\x00\x00\xff\xff\x00\xff", `{"result":"AQ=="}`}[:core.Pick(c, 3, 4)] {
			for n := 0; n <= core.Pick(c, 5, 6) && !k.stop; n++ {
				compositions(raw, n, func(parts []string) bool {
					return k.eval(&in{kind: kV2Ack, acks: append([]string{}, parts...)})
				})
			}
		}
	}
	if !k.stop {
		k.family = "v2ack/reorder-and-sentinel"
		// every ordering of distinct app acknowledgements, including the error sentinel
		sentinel := string(channeltypesv2.ErrorAcknowledgement[:])
		sets := [][]string{{"\x01", "\x02"}, {"\x01", "\x02", "\x03"}, {"\x01", sentinel}, {sentinel, "a", "b", "c"}, {"", "a", "aa", "aaa"}, {"x", "y", "z", "w", "v"}}
		for _, set := range sets {
			core.Permutations(len(set), func(p []int) bool {
				x := in{kind: kV2Ack}
				for _, j := range p {
					x.acks = append(x.acks, set[j])
				}
				return k.eval(&x)
			})
		}
	}
	v2a := k.distinct - v1p - v1a - v2p

	c.Set("evaluations", k.evals)
	c.Set("distinct_inputs", k.distinct)
	c.Set("distinct_nontrivial", k.nontrivial)
	c.Set("repeated_inputs", k.repeats)
	c.Set("distinct_v1_packets", v1p)
	c.Set("distinct_v1_acks", v1a)
	c.Set("distinct_v2_packets", v2p)
	c.Set("distinct_v2_acks", v2a)
	pairs := func(n int) int { return n * (n - 1) / 2 }
	c.Set("pairs_compared_through_hash_set", pairs(v1p)+pairs(v1a)+pairs(v2p)+pairs(v2a))
	c.Set("formula_mismatches", k.formulaBad)
	c.Set("collisions", k.collisions)
	c.Set("nondeterministic", k.nondeterministic)
	c.Set("dependent_on_uncommitted_field", k.dependent)
	c.Set("implementation_calls", 3*k.evals)
	c.Set("rule", "evaluations = enumerated inputs (each: 3 implementation calls, 1 hand-built reference preimage, 1 hash-set probe); "+
		"distinct_nontrivial = inputs with pairwise different committed-field tuples (exact canonical-key comparison) that are not the all-zero/all-empty input of their kind; "+
		"every pair of distinct inputs of one kind is compared through the commitment hash-set (a shared commitment with different committed fields is a collision)")
	c.Assume("SHA-256 (crypto/sha256) and encoding/binary big-endian encoding are trusted; the reference preimage is assembled by hand from the ICS-04 formulas, it does not call sdk.Uint64ToBigEndian or any ibc-go helper")
	c.Assume("injectivity of the reference preimage on the enumerated domain follows from: commitment == sha256(reference preimage) for every input (oracle i) and commitments pairwise distinct (oracle ii)")
	c.Assume("CommitPacket/CommitAcknowledgement are evaluated on in-memory values; strings are arbitrary bytes (no UTF-8 / identifier validation), as the functions themselves do not validate")
}

// replay re-evaluates the input(s) of a stored violation.
func replay(c *core.C) {
	var rp Replay
	if err := c.LoadReplay(&rp); err != nil {
		c.Broken("cannot load replay: %v", err)
		return
	}
	k := newChecker(c)
	k.family = "replay"
	a := importInput(rp.A)
	if rp.B != nil {
		b := importInput(*rp.B)
		k.eval(&b)
	}
	k.eval(&a)
	c.Set("evaluations", k.evals)
	c.Set("distinct_nontrivial", k.nontrivial)
	c.Set("rule", "replay of one stored input (pair)")
	c.Sample(rp)
}
