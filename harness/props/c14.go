package props

import (
	"fmt"

	channeltypes "github.com/cosmos/ibc-go/v11/modules/core/04-channel/types"

	"verif/harness/core"
	"verif/harness/ksim"
)

// C14: a timeout on an ORDERED channel closes the sender's end for all further packet flow.
func init() { core.Register("C14", "model_checking", runC14) }

func orderedStateA(s *PL, w *ksim.World) channeltypes.State {
	ch, _ := w.W.Chains[0].App.IBCKeeper.ChannelKeeper.GetChannel(w.CS[0].Ctx, s.chO.PortA, s.chO.ChanA)
	return ch.State
}

func c14Scenario(nPkts, commits, reverse int) *PL {
	sc := &PL{Routes: []int{rV1O}, MaxSend: nPkts, MaxCommits: commits, Stale: false, Acks: true, Timeouts: true, Close: true, TimeoutIn: []int{1}, Reverse: reverse}
	sc.PostApply = func(s *PL, w *ksim.World, op ksim.Op, r ksim.Result) {
		if (op.K == "timeout" || op.K == "toclose") && r.Class == ksim.OK && ext(w).ClosedAt == 0 {
			ext(w).ClosedAt = 1
		}
	}
	sc.InvFn = func(s *PL, w *ksim.World) *ksim.Fail {
		if ext(w).ClosedAt != 0 && orderedStateA(s, w) != channeltypes.CLOSED {
			return &ksim.Fail{Key: "not-closed-after-timeout", Text: fmt.Sprintf("a packet on the ORDERED channel was timed out but the sender's end is %s", orderedStateA(s, w))}
		}
		return nil
	}
	sc.StepFn = func(s *PL, pre *ksim.World, op ksim.Op, r ksim.Result, post *ksim.World) *ksim.Fail {
		if (op.K == "timeout" || op.K == "toclose") && r.Class == ksim.OK && orderedStateA(s, post) != channeltypes.CLOSED {
			return &ksim.Fail{Key: "timeout-did-not-close", Text: fmt.Sprintf("%s succeeded but the sender's end is %s", op, orderedStateA(s, post))}
		}
		if orderedStateA(s, pre) != channeltypes.CLOSED {
			return nil
		}
		// the end is CLOSED: nothing may be sent, received or acknowledged on it any more
		switch op.K {
		case "send", "rrecv", "ack":
			if r.Class == ksim.OK {
				return &ksim.Fail{Key: "packet-flow-on-closed-end/" + op.K, Text: fmt.Sprintf("%s succeeded on a CLOSED ordered channel end", op)}
			}
		}
		if len(post.Obs) > len(pre.Obs) {
			last := post.Obs[len(post.Obs)-1]
			if last.Chain == 0 && (last.Kind == "ack" || last.Kind == "recv") {
				return &ksim.Fail{Key: "callback-on-closed-end/" + last.Kind, Text: fmt.Sprintf("%s reached the application (%s) on a CLOSED ordered channel end", op, last.Kind)}
			}
		}
		if orderedStateA(s, post) != channeltypes.CLOSED {
			return &ksim.Fail{Key: "closed-end-reopened", Text: fmt.Sprintf("%s moved the CLOSED end to %s", op, orderedStateA(s, post))}
		}
		return nil
	}
	return sc
}

func runC14(c *core.C) {
	d := core.Pick(c, 0, 2)
	parts := []ksim.Part{
		{Name: "macro/3-in-flight", Sc: macro(c14Scenario(3, 3, 0)), Cfg: ksim.Config{MaxDepth: 8 + d}, Share: 0.35},
		{Name: "macro/2-in-flight+1-reverse", Sc: macro(c14Scenario(2, 3, 1)), Cfg: ksim.Config{MaxDepth: 8 + d}, Share: 0.5},
		{Name: "micro/2-in-flight", Sc: c14Scenario(2, 2, 0), Cfg: ksim.Config{MaxDepth: 8 + d}},
	}
	ksim.RunParts(c, parts, [][]ksim.Op{
		{{K: "send", A: []int{1, 0, 1}}, {K: "send", A: []int{1, 0, 1}}, {K: "commit", A: []int{1}}, {K: "commit", A: []int{1}}, {K: "update", A: []int{0, 14}}, {K: "timeout", A: []int{0, 14}}, {K: "send", A: []int{1, 0, 1}}},
	})
	c.Set("alphabet", "send(timeout = next destination block) | commit | update | recv | ack | timeout | timeout-on-close | close(B) | rsend/rrecv (packet from B to A on the same channel)")
	c.Assume("counterparty consensus, storage commit and validator signing are played by the harness; one message per transaction")
}
