package props

import (
	"fmt"
	"sort"
	"strings"

	sdk "github.com/cosmos/cosmos-sdk/types"

	channeltypesv2 "github.com/cosmos/ibc-go/v11/modules/core/04-channel/v2/types"
	hostv2 "github.com/cosmos/ibc-go/v11/modules/core/24-host/v2"
	mockv2 "github.com/cosmos/ibc-go/v11/testing/mock/v2"

	"verif/harness/core"
	"verif/harness/ksim"
)

// C10: IBC v2 multi-payload receives are all-or-nothing.
func init() { core.Register("C10", "fault_enumeration", runC10) }

var c10Behaviours = []string{"success", "write", "writefail", "fail", "async", "sentinel"}

func runC10(c *core.C) {
	wk := ksim.NewWorker(c.T, 2)
	pl := &PL{}
	base := pl.Init(wk)
	base.Flatten()
	storeX := wk.Chains[1].App.GetKey("transfer")
	// payload behaviour is encoded in the payload value: "<behaviour>/<index>"
	for _, m := range []mockv2.IBCModule{wk.Chains[1].App.MockModuleV2A, wk.Chains[1].App.MockModuleV2B} {
		m.IBCApp.OnRecvPacket = func(ctx sdk.Context, _, dst string, seq uint64, pl channeltypesv2.Payload, _ sdk.AccAddress) channeltypesv2.RecvPacketResult {
			wk.Observe(ksim.Event{Kind: "recv2", ID: dst, Seq: seq, Data: string(pl.Value)})
			parts := strings.SplitN(string(pl.Value), "/", 2)
			write := func() { ctx.KVStore(storeX).Set([]byte("verif/c10/"+string(pl.Value)), []byte{1}) }
			switch parts[0] {
			case "write":
				write()
				return channeltypesv2.RecvPacketResult{Status: channeltypesv2.PacketStatus_Success, Acknowledgement: []byte("ack:" + string(pl.Value))}
			case "writefail":
				write()
				return channeltypesv2.RecvPacketResult{Status: channeltypesv2.PacketStatus_Failure}
			case "fail":
				return channeltypesv2.RecvPacketResult{Status: channeltypesv2.PacketStatus_Failure}
			case "async":
				write()
				return channeltypesv2.RecvPacketResult{Status: channeltypesv2.PacketStatus_Async}
			case "sentinel":
				return channeltypesv2.RecvPacketResult{Status: channeltypesv2.PacketStatus_Success, Acknowledgement: channeltypesv2.ErrorAcknowledgement[:]}
			}
			return channeltypesv2.RecvPacketResult{Status: channeltypesv2.PacketStatus_Success, Acknowledgement: []byte("ack:" + string(pl.Value))}
		}
	}
	maxM := core.Pick(c, 4, 5)
	evals := 0
	outcomes := map[string]int{}
	for _, route := range []int{rV2C, rV2A} {
		src, dst := pl.v2IDs(route)
		for m := 1; m <= maxM; m++ {
			dims := make([]int, m)
			for i := range dims {
				dims[i] = len(c10Behaviours)
			}
			core.Product(dims, func(idx []int) bool {
				if c.TimeUp() {
					return false
				}
				var payloads []channeltypesv2.Payload
				var names []string
				for i, b := range idx {
					p := mockv2.NewMockPayload(mockv2.PortIDA, mockv2.PortIDB)
					if i%2 == 1 {
						p = mockv2.NewMockPayload(mockv2.PortIDB, mockv2.PortIDA)
					}
					p.Value = []byte(fmt.Sprintf("%s/%d", c10Behaviours[b], i))
					payloads = append(payloads, p)
					names = append(names, c10Behaviours[b])
				}
				caseName := routeNames[route] + ":" + strings.Join(names, ",")
				w := base.Fork()
				tsec := uint64(w.CS[0].TimeNs()/1e9) + 3600
				seq, r := w.SendV2(0, src, tsec, ksim.Signer, payloads...)
				if r.Class != ksim.OK {
					c.Broken("send of %s failed: %s %v", caseName, r, r.Err)
					return false
				}
				pkt := channeltypesv2.NewPacket(seq, src, dst, tsec, payloads...)
				w.Sync(1, pl.link.ClientB, 0)
				pre := w.Fork()
				rr := w.RecvV2(1, 0, pkt, w.ClientLatest(1, pl.link.ClientB))
				evals++
				// classify the packet from the statement's point of view
				anyFail, anyAsync, anySentinel := false, false, false
				var wantWrites, wantAcks []string
				for i, n := range names {
					switch n {
					case "fail", "writefail":
						anyFail = true
					case "async":
						anyAsync = true
					case "sentinel":
						anySentinel = true
					}
					if n == "write" || n == "async" {
						wantWrites = append(wantWrites, fmt.Sprintf("transfer/verif/c10/%s/%d", n, i))
					}
					wantAcks = append(wantAcks, fmt.Sprintf("ack:%s/%d", n, i))
				}
				recvKey := "ibc/" + string(hostv2.PacketReceiptKey(dst, seq))
				ackKey := "ibc/" + string(hostv2.PacketAcknowledgementKey(dst, seq))
				asyncKey := "ibc/" + string(channeltypesv2.AsyncPacketKey(dst, seq))
				post := w.DumpStores(1, c09Stores)
				d := ksim.DiffStores(pre.DumpStores(1, c09Stores), post)
				appDiff := without(d, recvKey, ackKey, asyncKey)
				sort.Strings(wantWrites)
				ack, hasAck := post[ackKey]
				_, hasAsync := post[asyncKey]
				errAck := string(channeltypesv2.CommitAcknowledgement(channeltypesv2.Acknowledgement{AppAcknowledgements: [][]byte{channeltypesv2.ErrorAcknowledgement[:]}}))
				var okAcks [][]byte
				for _, a := range wantAcks {
					okAcks = append(okAcks, []byte(a))
				}
				okAck := string(channeltypesv2.CommitAcknowledgement(channeltypesv2.Acknowledgement{AppAcknowledgements: okAcks}))
				outcome := "tx-error"
				if rr.Class == ksim.OK {
					switch {
					case hasAck && ack == errAck:
						outcome = "error-ack"
					case hasAck:
						outcome = "success-ack"
					case hasAsync:
						outcome = "async"
					default:
						outcome = "ok-without-ack"
					}
				} else if rr.Class == ksim.NOOP {
					outcome = "noop"
				}
				outcomes[outcome]++
				fail := func(key, text string) {
					c.Violation(key, caseName+": "+text, map[string]any{"route": routeNames[route], "payload_behaviours": names, "outcome": outcome, "changed": d})
				}
				switch outcome {
				case "success-ack":
					if anyFail || anySentinel || anyAsync {
						fail("success-ack-for-non-successful-packet", "success acknowledgement although a payload failed / went async / returned the sentinel")
					}
					if ack != okAck {
						fail("success-ack-wrong-content", "stored acknowledgement is not the ordered list of the applications' acknowledgements")
					}
					if strings.Join(appDiff, "\x00") != strings.Join(wantWrites, "\x00") {
						fail("success-lost-or-extra-writes", fmt.Sprintf("application keys changed %q, expected %q", appDiff, wantWrites))
					}
				case "error-ack":
					if !anyFail {
						fail("error-ack-without-failure", "universal error acknowledgement although no payload failed")
					}
					if len(appDiff) != 0 {
						fail("error-ack-kept-app-state", fmt.Sprintf("a payload failed but application keys %q persisted", appDiff))
					}
				case "async":
					if len(names) != 1 {
						fail("async-multi-payload", "asynchronous acknowledgement accepted for a packet with several payloads")
					}
					if _, ok := post[recvKey]; !ok {
						fail("async-without-receipt", "async receive left no receipt")
					}
					if strings.Join(appDiff, "\x00") != strings.Join(wantWrites, "\x00") {
						fail("async-lost-or-extra-writes", fmt.Sprintf("asynchronous receive: application keys changed %q, expected %q (state changes of an asynchronous receive persist)", appDiff, wantWrites))
					}
				case "tx-error":
					if !anySentinel && !(anyAsync && len(names) > 1) {
						fail("unexpected-tx-error", fmt.Sprintf("the receive transaction failed (%s) although no payload returned the sentinel and no multi-payload async occurred", rr))
					}
				default:
					fail("unclassified-outcome", "receive ended in outcome "+outcome)
				}
				if !anyFail && !anySentinel && !anyAsync && outcome != "success-ack" {
					fail("all-success-not-acknowledged", "every payload succeeded but the outcome is "+outcome)
				}
				if anyFail && !anySentinel && !anyAsync && outcome != "error-ack" {
					fail("failure-not-error-acked", "a payload failed (no sentinel/async involved) but the outcome is "+outcome)
				}
				if evals <= 3 || (evals%400 == 0) {
					c.Sample(map[string]any{"route": routeNames[route], "payloads": names, "outcome": outcome})
				}
				return true
			})
		}
	}
	c.Set("evaluations", evals)
	c.Set("distinct_nontrivial", evals-outcomes["noop"])
	c.Set("outcomes", outcomes)
	c.Set("rule", fmt.Sprintf("every packet with 1..%d payloads (alternating between the two v2 mock applications) where each payload independently is one of %v, on the v2-client route and on the alias of the v1 channel; each case is a distinct behaviour vector", maxM, c10Behaviours))
	c.Assume("the v2 mock applications' receive callbacks are replaced by the harness; writes go to a module store outside core")
}
