// Package c41 checks C41: the rate-limit flows of a rate-limited (denomination, channel) path
// track exactly the transfers accepted in the current window.
//
// Engine K: two real SimApp chains A(0) and B(1) joined by an UNORDERED ics20-1 `transfer`
// channel (channel-0 on A, channel-1 on B). One rate limit exists on A. Every transition runs the
// unmodified message handlers (MsgTransfer, MsgRecvPacket, MsgAcknowledgement, MsgTimeout,
// MsgAdd/Update/Remove/ResetRateLimit, the rate-limiting BeginBlocker); a reference window model
// (inflow, outflow, channel value recorded at window start, which packets were counted in the
// current window) is maintained next to it from the observed outcomes only, and after every
// transition the stored RateLimit must equal the model.
package c41

import (
	"crypto/sha256"
	"encoding/binary"
	"errors"
	"fmt"
	"os"
	"strings"
	"sync"
	"sync/atomic"
	"time"

	sdkmath "cosmossdk.io/math"

	sdk "github.com/cosmos/cosmos-sdk/types"
	authtypes "github.com/cosmos/cosmos-sdk/x/auth/types"
	distrtypes "github.com/cosmos/cosmos-sdk/x/distribution/types"
	govtypes "github.com/cosmos/cosmos-sdk/x/gov/types"
	minttypes "github.com/cosmos/cosmos-sdk/x/mint/types"

	ratelimittypes "github.com/cosmos/ibc-go/v11/modules/apps/rate-limiting/types"
	transfertypes "github.com/cosmos/ibc-go/v11/modules/apps/transfer/types"
	clienttypes "github.com/cosmos/ibc-go/v11/modules/core/02-client/types"
	channeltypes "github.com/cosmos/ibc-go/v11/modules/core/04-channel/types"
	channeltypesv2 "github.com/cosmos/ibc-go/v11/modules/core/04-channel/v2/types"
	ibctesting "github.com/cosmos/ibc-go/v11/testing"
	ibcmock "github.com/cosmos/ibc-go/v11/testing/mock"

	"verif/harness/core"
	"verif/harness/ksim"
)

func init() { core.Register("C41", "model_checking", run) }

// ---- fixed world data ---------------------------------------------------------------------------

const port = transfertypes.PortID

// Rate-limited paths offered (one per scenario).
const (
	pathVoucher = 0 // the voucher of B's native token `rlb` on A: receiving mints (inflow), sending back burns (outflow): the supply moves
	pathNative  = 1 // A's native token `rla`: sending escrows (outflow), vouchers coming home are released (inflow): the supply is constant
	pathV2      = 2 // like pathVoucher, but over the IBC v2 client-to-client route: MsgSendPacket with an ICS-20 payload, rate limit keyed by (denom, client id)
)

var pathNames = []string{"voucher-denom", "native-denom", "v2-client-voucher-denom"}

func addr(seed string) sdk.AccAddress {
	h := sha256.Sum256([]byte("verif/c41/" + seed))
	return sdk.AccAddress(h[:20])
}

var (
	userA     = addr("user-A")
	userB     = addr("user-B")
	blocked   = authtypes.NewModuleAddress(distrtypes.ModuleName) // a blocked module account on both chains: receiving fails => error acknowledgement
	authority = authtypes.NewModuleAddress(govtypes.ModuleName).String()
	relayer   = func() sdk.AccAddress { a, _ := sdk.AccAddressFromBech32(ksim.Signer); return a }()
)

// quota is one (send %, receive %, duration) choice of the administrator.
type quota struct {
	Send, Recv int64
	Dur        uint64
}

// ---- scenario -----------------------------------------------------------------------------------

// Cfg is the alphabet / bound configuration of one exploration part.
type Cfg struct {
	Path     int
	MaxOut   int   // transfers A -> B after the root
	MaxIn    int   // transfers B -> A after the root (in + xin)
	OutKinds []int // bit 0: short timeout (expires with B's next block), bit 1: blocked receiver on B (error acknowledgement)
	InKinds  []int // primitive `in` (B sends only): 0 = receiver is user A, 1 = blocked receiver on A (the receive ends in an error acknowledgement)
	XinKinds []int // macro `xin` = B sends + commit B + honest update of A's client + receive on A (same receiver codes)
	// block production: macro parts offer sync(chain) = commit + honest update of the other chain's client,
	// the primitive part offers commit(chain) and client(chain) separately and relays with any of the three newest consensus heights
	Sync       [2]int   // syncs / commits per chain after the root
	MaxDeliver int      // macro `deliver(i)` = commit A + update B's client + receive packet i on B + commit B + update A's client
	MaxEpochs  int      // hour-boundary crossings
	Admin      []string // subset of: add, update, tighten, update2h, remove, reset
	MaxAdmin   int
	Toggles    []string // subset of: wl-out, wl-in, bl (keeper-level governance set-up: whitelist pair / blacklist denom)
	MaxToggles int
	Primitive  bool
	NoRecv     bool // no separate recv relays to B
	NoAck      bool
	NoTimeout  bool
}

// Sc implements ksim.Scenario.
type Sc struct {
	ksim.Base
	Cfg
	c *core.C

	mu    sync.Mutex
	link  *ksim.Link
	ch    *ksim.ChanPair
	denom string // the rate-limited denomination on A
	sendA string // denomination user A sends (bank denom on A) == denom
	sendB string // denomination user B sends (bank denom on B)
	q0    quota  // the quota installed at the root
	wit   [nWit]atomic.Int64

	repaired atomic.Int64 // snapshots whose app hash had to be recomputed (see commit)
}

// witnesses counted over transitions (non-vacuity evidence)
const (
	witOutAccepted = iota
	witOutQuotaRejected
	witInAccepted
	witInQuotaRejected
	witInErrAckOther
	witRefundCurrent
	witUndoOlderIgnored
	witAckSuccess
	witEpochReset
	witEpochNoReset
	witAdminWindow
	witWhitelisted
	witBlacklisted
	witDupRelayNoop
	witTainted
	nWit
)

var witNames = []string{"out_accepted", "out_rejected_by_quota", "in_accepted", "in_rejected_by_quota", "in_error_ack_blocked_receiver",
	"refund_of_packet_counted_in_current_window", "timeout_or_error_ack_of_packet_from_older_window", "success_ack", "epoch_reset",
	"epoch_without_reset", "admin_started_window", "whitelisted_transfer", "blacklisted_transfer_rejected", "duplicate_relay_noop", "diverged_states_not_expanded"}

func (s *Sc) Chains() int { return 2 }

func (s *Sc) Stores() []string { return append(append([]string{}, ksim.AllStores...), "bank") }

// tracked accounts / denominations of the bank store that enter the state key (other genesis accounts are random per worker).
var trackedAcc = map[string]bool{}
var trackedDenom = map[string]bool{"rla": true, "rlb": true}

func init() {
	for _, a := range []sdk.AccAddress{userA, userB, blocked, relayer, authtypes.NewModuleAddress(transfertypes.ModuleName)} {
		trackedAcc[string(a)] = true
	}
	for _, id := range []string{chanA, chanB, clientA, clientB} {
		trackedAcc[string(transfertypes.GetEscrowAddress(port, id))] = true
		for _, d := range []string{"rla", "rlb"} {
			trackedDenom[transfertypes.NewDenom(d, transfertypes.NewHop(port, id)).IBCDenom()] = true
		}
	}
}

// Filter keeps of the bank store the supply of tracked denominations and the balances of tracked accounts.
func (s *Sc) Filter(store string, key []byte) bool {
	if store != "bank" {
		return true
	}
	if len(key) < 2 {
		return false
	}
	switch key[0] {
	case 0: // supply: 0x00 | denom
		return trackedDenom[string(key[1:])]
	case 2: // balances: 0x02 | len(addr) | addr | denom
		l := int(key[1])
		if len(key) < 2+l {
			return false
		}
		return trackedAcc[string(key[2:2+l])] && trackedDenom[string(key[2+l:])]
	}
	return false
}

// ---- bookkeeping (Ext) --------------------------------------------------------------------------

type pkt struct {
	In      bool // B -> A
	P       channeltypes.Packet
	V2      bool // sent with MsgSendPacket over the client-to-client route (P2 is then the packet)
	P2      channeltypesv2.Packet
	Amt     int64
	Blocked bool   // the receiver is a blocked account of the destination chain
	Counted bool   // its amount entered a flow of some window
	Cur     bool   // ... of the current window (model's "pending" set)
	Final   bool   // outbound: acknowledged or timed out on A; inbound: received on A
	Ack     []byte // acknowledgement written by the destination (outbound packets)
	AckErr  bool
}

// model is the reference window of the rate-limited path.
type model struct {
	Exists       bool
	Q            quota
	In, Out, CV  int64
	WinKind      string // how the current window started: add | update (any MsgUpdateRateLimit) | reset | epoch
	WLOut, WLIn  bool   // pair (userA -> userB) / (userB -> userA) whitelisted
	BL           bool   // denomination blacklisted
	EpochNum     uint64 // reference hour epoch of chain A
	EpochStartNs int64
}

type ext struct {
	Pkts     []pkt
	M        model
	Commits  [2]int
	Epochs   int
	Admin    int
	Toggles  int
	Delivers int
	Tainted  bool // the stored rate limit diverged from the reference window (reported); no successors are generated

	// transient results of the last Apply (not part of the state key)
	fail *ksim.Fail
	wit  []int
}

func (e *ext) Clone() ksim.Ext {
	n := &ext{M: e.M, Commits: e.Commits, Epochs: e.Epochs, Admin: e.Admin, Toggles: e.Toggles, Delivers: e.Delivers, Tainted: e.Tainted}
	n.Pkts = append([]pkt{}, e.Pkts...)
	return n
}

func (e *ext) KeyBytes() []byte {
	var out []byte
	b := func(v bool) {
		if v {
			out = append(out, 1)
		} else {
			out = append(out, 0)
		}
	}
	for _, p := range e.Pkts {
		b(p.In)
		b(p.V2)
		out = binary.BigEndian.AppendUint64(out, p.seq())
		out = binary.BigEndian.AppendUint64(out, p.P.TimeoutHeight.RevisionHeight)
		out = binary.BigEndian.AppendUint64(out, p.P2.TimeoutTimestamp)
		b(p.Blocked)
		b(p.Counted)
		b(p.Cur)
		b(p.Final)
		b(p.AckErr)
		out = append(out, byte(len(p.Ack)))
	}
	m := e.M
	b(m.Exists)
	for _, v := range []int64{m.Q.Send, m.Q.Recv, int64(m.Q.Dur), m.In, m.Out, m.CV, int64(m.EpochNum), m.EpochStartNs} {
		out = binary.BigEndian.AppendUint64(out, uint64(v))
	}
	out = append(out, m.WinKind...)
	b(m.WLOut)
	b(m.WLIn)
	b(m.BL)
	out = append(out, byte(e.Commits[0]), byte(e.Commits[1]), byte(e.Epochs), byte(e.Admin), byte(e.Toggles), byte(e.Delivers))
	b(e.Tainted)
	return out
}

func xt(w *ksim.World) *ext { return w.Ext.(*ext) }

func (p *pkt) seq() uint64 {
	if p.V2 {
		return p.P2.Sequence
	}
	return p.P.Sequence
}

// ---- Init ---------------------------------------------------------------------------------------

func (s *Sc) clientOn(chain int) string {
	if chain == 0 {
		return s.link.ClientA
	}
	return s.link.ClientB
}

func (s *Sc) supplyA(w *ksim.World) int64 {
	return w.W.Chains[0].App.BankKeeper.GetSupply(w.CS[0].Ctx, s.denom).Amount.Int64()
}

func bal(w *ksim.World, chain int, a sdk.AccAddress, denom string) int64 {
	return w.W.Chains[chain].App.BankKeeper.GetBalance(w.CS[chain].Ctx, a, denom).Amount.Int64()
}

func mint(w *ksim.World, chain int, to sdk.AccAddress, denom string, n int64) {
	bank := w.W.Chains[chain].App.BankKeeper
	coins := sdk.NewCoins(sdk.NewInt64Coin(denom, n))
	ksim.MustOK("fund", w.Do(chain, func(ctx sdk.Context) error {
		if err := bank.MintCoins(ctx, minttypes.ModuleName, coins); err != nil {
			return err
		}
		return bank.SendCoinsFromModuleToAccount(ctx, minttypes.ModuleName, to, coins)
	}))
}

var farHeight = clienttypes.NewHeight(1, 1_000_000)

// Init builds the root world: channel, funded users, a settled first transfer that creates the
// voucher balances, a well-formed hour epoch and the rate limit.
func (s *Sc) Init(wk *ksim.Worker) *ksim.World {
	w := wk.Root()
	e := &ext{}
	w.Ext = e
	// an unrelated first client on B, so that the two chains know each other under different client identifiers
	if _, r := w.CreateClient(1, 0); r.Class != ksim.OK {
		panic("c41: cannot create the offset client on B")
	}
	l := w.SetupClients(0, 1)
	if l.ClientA != clientA || l.ClientB != clientB {
		panic(fmt.Sprintf("c41: unexpected client identifiers %s / %s", l.ClientA, l.ClientB))
	}
	w.SetupConnection(l, 0)
	// an unfinished channel handshake on B only, so that the two ends of the transfer channel carry different identifiers
	ksim.MustOK("offset channel on B", w.Tx(1, channeltypes.NewMsgChannelOpenInit(ibcmock.PortID, ibcmock.Version, channeltypes.UNORDERED, []string{l.ConnB}, ibcmock.PortID, ksim.Signer)))
	ch := w.SetupChannel(l, port, port, transfertypes.V1, channeltypes.UNORDERED)
	if ch.ChanA != chanA || ch.ChanB != chanB {
		panic(fmt.Sprintf("c41: unexpected channel identifiers %s / %s", ch.ChanA, ch.ChanB))
	}
	w.RegisterCounterparties(l)
	for _, c := range wk.Chains {
		if !c.App.BankKeeper.BlockedAddr(blocked) {
			panic("c41: the distribution module account is not a blocked address")
		}
	}
	s.mu.Lock()
	if s.link == nil {
		s.link, s.ch = l, ch
	} else if *s.link != *l || *s.ch != *ch {
		s.mu.Unlock()
		panic("c41: workers disagree on identifiers")
	}
	s.mu.Unlock()
	// a first transfer, completely settled before the limit exists, creates the voucher balances
	settle := func(src int, denom string, amt int64, from, to sdk.AccAddress) {
		dst := 1 - src
		p, r := s.transfer(w, src, denom, amt, from, to, false)
		ksim.MustOK("prefix transfer", r)
		cid := func(c int) string {
			if c == 0 {
				return l.ClientA
			}
			return l.ClientB
		}
		w.Sync(dst, cid(dst), src)
		r, ack, isErr := s.relayRecv(w, dst, &p, w.ClientLatest(dst, cid(dst)))
		ksim.MustOK("prefix receive", r)
		if isErr {
			panic("c41: prefix transfer was refused")
		}
		w.Sync(src, cid(src), dst)
		ksim.MustOK("prefix ack", s.relayAck(w, &p, ack, w.ClientLatest(src, cid(src))))
	}
	switch s.Path {
	case pathVoucher, pathV2:
		mint(w, 1, userB, "rlb", 7)
		settle(1, "rlb", 4, userB, userA)
	case pathNative:
		mint(w, 0, userA, "rla", 6)
		settle(0, "rla", 2, userA, userB)
	}
	denom, q0 := s.denom, s.q0
	if bal(w, 1, userB, s.sendB) < 2 {
		panic("c41: user B is not funded")
	}
	if bal(w, 0, userA, denom) != 4 {
		panic(fmt.Sprintf("c41: user A holds %d %s, expected 4", bal(w, 0, userA, denom), denom))
	}
	// equalise the clocks, one common block, honest update of both clients
	for w.CS[0].TimeNs() != w.CS[1].TimeNs() {
		if w.CS[0].TimeNs() < w.CS[1].TimeNs() {
			s.commit(w, 0, ksim.BlockStep)
		} else {
			s.commit(w, 1, ksim.BlockStep)
		}
	}
	s.commit(w, 0, ksim.BlockStep)
	s.commit(w, 1, ksim.BlockStep)
	ksim.MustOK("final update A", w.UpdateLatest(0, l.ClientA, 1))
	ksim.MustOK("final update B", w.UpdateLatest(1, l.ClientB, 0))
	// ibctesting runs InitChain at the zero time, which leaves the hour epoch degenerate (BeginBlocker refuses to
	// advance it). Install the epoch of a chain that is half an hour into hour 23.
	e.M.EpochNum = 23
	e.M.EpochStartNs = w.CS[0].TimeNs() - int64(30*time.Minute)
	for i := range w.CS {
		app := wk.Chains[i].App
		ksim.MustOK("hour epoch", w.Do(i, func(ctx sdk.Context) error {
			return app.RateLimitKeeper.SetHourEpoch(ctx, ratelimittypes.HourEpoch{EpochNumber: 23, Duration: time.Hour,
				EpochStartTime: time.Unix(0, e.M.EpochStartNs).UTC(), EpochStartHeight: w.CS[i].H()})
		}))
	}
	// the rate limit (the window of the root starts here)
	r := s.adminTx(w, "add", q0)
	ksim.MustOK("add rate limit", r)
	s.startWindow(w, "add", q0)
	w.Obs = nil
	return w
}

// ---- reference model ----------------------------------------------------------------------------

// within is the statement's quota check: the net flow stays within pct percent of the channel value.
func within(net, cv, pct int64) bool { return net*100 <= cv*pct }

func (s *Sc) startWindow(w *ksim.World, kind string, q quota) {
	e := xt(w)
	e.M.Exists = true
	e.M.Q = q
	e.M.In, e.M.Out = 0, 0
	e.M.CV = s.supplyA(w) // the channel value is the supply at the moment the window starts
	e.M.WinKind = kind
	for i := range e.Pkts {
		e.Pkts[i].Cur = false
	}
}

func (s *Sc) quotaOf(kind string) quota {
	q := s.q0
	switch kind {
	case "tighten":
		q.Send, q.Recv = q.Send/2, q.Recv/2 // one unit
	case "update2h":
		q.Dur = 2
	}
	return q
}

func (s *Sc) adminTx(w *ksim.World, kind string, q quota) ksim.Result {
	chn := s.chID()
	var msg sdk.Msg
	switch kind {
	case "add":
		m := ratelimittypes.NewMsgAddRateLimit(s.dn(), chn, sdkmath.NewInt(q.Send), sdkmath.NewInt(q.Recv), q.Dur)
		m.Signer = authority
		msg = m
	case "update", "tighten", "update2h":
		m := ratelimittypes.NewMsgUpdateRateLimit(s.dn(), chn, sdkmath.NewInt(q.Send), sdkmath.NewInt(q.Recv), q.Dur)
		m.Signer = authority
		msg = m
	case "remove":
		m := ratelimittypes.NewMsgRemoveRateLimit(s.dn(), chn)
		m.Signer = authority
		msg = m
	case "reset":
		m := ratelimittypes.NewMsgResetRateLimit(s.dn(), chn)
		m.Signer = authority
		msg = m
	default:
		panic("unknown admin op " + kind)
	}
	return w.Tx(0, msg)
}

// newSc fixes the identifiers that follow from the deterministic bring-up (Init verifies them).
func newSc(c *core.C, cfg Cfg) *Sc {
	s := &Sc{Cfg: cfg, c: c}
	switch cfg.Path {
	case pathVoucher:
		// B's native token: 4 units travel to A before the limit exists (supply of the voucher on A = 4), 3 stay with user B
		s.denom = transfertypes.NewDenom("rlb", transfertypes.NewHop(port, chanA)).IBCDenom()
		s.sendB = "rlb"
		s.q0 = quota{50, 75, 1} // send 50% of 4 = 2 units, receive 75% of 4 = 3 units: different on purpose, so that a mix-up of the two percentages shows
	case pathV2:
		// as pathVoucher, over the client-to-client route: the voucher's newest hop is A's client identifier
		s.denom = transfertypes.NewDenom("rlb", transfertypes.NewHop(port, clientA)).IBCDenom()
		s.sendB = "rlb"
		s.q0 = quota{50, 75, 1}
	case pathNative:
		// A's native token: supply 6, 2 units travel to B before the limit exists (user B can send them home)
		s.denom = "rla"
		s.sendB = transfertypes.NewDenom("rla", transfertypes.NewHop(port, chanB)).IBCDenom()
		s.q0 = quota{40, 60, 1} // send 40% of 6 = 2.4 -> 2 units, receive 60% of 6 = 3.6 -> 3 units
	default:
		panic("c41: unknown path")
	}
	s.sendA = s.denom
	if !trackedDenom[s.denom] || !trackedDenom[s.sendB] {
		panic("c41: denomination outside the tracked set")
	}
	return s
}

// identifiers of the transfer channel ends and of the two tendermint clients (asserted in Init). They are
// deliberately different on the two chains so that any source / destination mix-up addresses another path.
const (
	chanA   = "channel-0"
	chanB   = "channel-1"
	clientA = "07-tendermint-0" // A's client of B
	clientB = "07-tendermint-1" // B's client of A
)

func (s *Sc) dn() string { return s.denom }

// chID is the channel-or-client identifier of the rate-limited path on A.
func (s *Sc) chID() string {
	if s.Path == pathV2 {
		return clientA
	}
	return chanA
}

// commit is World.Commit plus a repair of a ksim cache corner: after a worker has produced more than 50000
// distinct snapshots ksim drops its snapshot cache, and a snapshot re-created while its IAVL trees are still in
// the separate `built` LRU comes back with a nil AppHash (Snapshot.built returns early without setting it).
// The app hash is then recomputed through a complete rootmulti store (ksim's own self-check path).
func (s *Sc) commit(w *ksim.World, i int, dt time.Duration) {
	w.Commit(i, dt)
	bl := w.CS[i].Blocks
	if snap := bl[len(bl)-2].After; snap != nil && snap.AppHash == nil {
		snap.AppHash = snap.RootmultiAppHash()
		s.repaired.Add(1)
	}
}

// commitA commits chain A and lets the reference hour epoch follow: when the new block's time is past the end
// of the current hour the next hour starts, and a limit whose duration divides the hour number starts a new window.
func (s *Sc) commitA(w *ksim.World, dt time.Duration) {
	s.commit(w, 0, dt)
	e := xt(w)
	m := &e.M
	if w.CS[0].TimeNs() > m.EpochStartNs+int64(time.Hour) {
		m.EpochNum++
		m.EpochStartNs += int64(time.Hour)
		if m.Exists && m.EpochNum%m.Q.Dur == 0 {
			s.startWindow(w, "epoch", m.Q)
			e.wit = append(e.wit, witEpochReset)
		} else {
			e.wit = append(e.wit, witEpochNoReset)
		}
	}
}

// ---- alphabet -----------------------------------------------------------------------------------

func (s *Sc) proofHeights(w *ksim.World, dst int) []int {
	cid := s.clientOn(dst)
	if !s.Primitive {
		return []int{int(w.ClientLatest(dst, cid).RevisionHeight)}
	}
	hs := w.ConsensusHeights(dst, cid)
	var out []int
	for i := len(hs) - 1; i >= 0 && len(out) < 3; i-- {
		out = append(out, int(hs[i].RevisionHeight))
	}
	return out
}

func (s *Sc) Ops(w *ksim.World) []ksim.Op {
	e := xt(w)
	if e.Tainted {
		return nil
	}
	var ops []ksim.Op
	nOut, nIn := 0, 0
	for _, p := range e.Pkts {
		if p.In {
			nIn++
		} else {
			nOut++
		}
	}
	if nOut < s.MaxOut {
		for _, k := range s.OutKinds {
			ops = append(ops, ksim.Op{K: "out", A: []int{k}})
		}
	}
	if nIn < s.MaxIn {
		for _, k := range s.XinKinds {
			ops = append(ops, ksim.Op{K: "xin", A: []int{k}})
		}
		for _, k := range s.InKinds {
			ops = append(ops, ksim.Op{K: "in", A: []int{k}})
		}
	}
	for ch := 0; ch < 2; ch++ {
		if e.Commits[ch] < s.Sync[ch] {
			if s.Primitive {
				ops = append(ops, ksim.Op{K: "commit", A: []int{ch}})
			} else {
				ops = append(ops, ksim.Op{K: "sync", A: []int{ch}})
			}
		}
	}
	if s.Primitive {
		for dst := 0; dst < 2; dst++ {
			if int64(w.ClientLatest(dst, s.clientOn(dst)).RevisionHeight) < w.CS[1-dst].H() {
				ops = append(ops, ksim.Op{K: "client", A: []int{dst}})
			}
		}
	}
	// every relay stays enabled forever (duplicates, premature and late relays included)
	for i, p := range e.Pkts {
		if p.In {
			for _, ph := range s.proofHeights(w, 0) {
				ops = append(ops, ksim.Op{K: "recvin", A: []int{i, ph}})
			}
			continue
		}
		if e.Delivers < s.MaxDeliver && p.Ack == nil && !p.Final {
			ops = append(ops, ksim.Op{K: "deliver", A: []int{i}})
		}
		if !s.NoRecv {
			for _, ph := range s.proofHeights(w, 1) {
				ops = append(ops, ksim.Op{K: "recv", A: []int{i, ph}})
			}
		}
		for _, ph := range s.proofHeights(w, 0) {
			if !s.NoAck {
				ops = append(ops, ksim.Op{K: "ack", A: []int{i, ph}})
			}
			if !s.NoTimeout {
				ops = append(ops, ksim.Op{K: "timeout", A: []int{i, ph}})
			}
		}
	}
	if e.Epochs < s.MaxEpochs {
		ops = append(ops, ksim.Op{K: "epoch"})
	}
	if e.Admin < s.MaxAdmin {
		for _, a := range s.Admin {
			ops = append(ops, ksim.Op{K: a})
		}
	}
	if e.Toggles < s.MaxToggles {
		for _, t := range s.Toggles {
			ops = append(ops, ksim.Op{K: t})
		}
	}
	return ops
}

func ackIsError(bz []byte) (bool, error) {
	var a channeltypes.Acknowledgement
	if err := transfertypes.ModuleCdc.UnmarshalJSON(bz, &a); err != nil {
		return false, err
	}
	return !a.Success(), nil
}

var defaultAck = channeltypes.NewResultAcknowledgement([]byte{1}).Acknowledgement()

func (s *Sc) rlHash(w *ksim.World) string { return string(w.StoreHash(0, []string{"ratelimit"}, nil)) }

// Apply executes op and lets the reference model follow the observed outcome. Oracle verdicts of this
// transition are left in the Ext for Step.
func (s *Sc) Apply(w *ksim.World, op ksim.Op) ksim.Result {
	e := xt(w)
	e.fail, e.wit = nil, nil
	pre := e.M // model before the transition
	fail := func(key, format string, a ...any) {
		if e.fail == nil {
			e.fail = &ksim.Fail{Key: key, Text: fmt.Sprintf(format, a...)}
		}
	}
	opClass := op.K
	var r ksim.Result
	isTx := true
	before := s.rlHash(w)
	switch op.K {
	case "out":
		kind := op.A[0]
		rcv := userB
		if kind&2 != 0 {
			rcv = blocked
		}
		funds := bal(w, 0, userA, s.sendA)
		var np pkt
		np, r = s.transfer(w, 0, s.sendA, 1, userA, rcv, kind&1 != 0)
		wl := pre.WLOut && kind&2 == 0
		refPass := !pre.Exists || wl || within(pre.Out-pre.In+1, pre.CV, pre.Q.Send)
		switch {
		case r.Class == ksim.OK:
			np.Blocked = kind&2 != 0
			if pre.BL {
				fail("blacklisted-denom-accepted/out", "transfer of blacklisted %s was sent (sequence %d)", s.denom, np.seq())
			} else if !refPass {
				fail("accepted-over-quota/out", "transfer out accepted although net outflow %d-%d+1 exceeds %d%% of the channel value %d recorded at window start (%s)", pre.Out, pre.In, pre.Q.Send, pre.CV, pre.WinKind)
			}
			if pre.Exists && !wl {
				e.M.Out++
				np.Counted, np.Cur = true, true
				e.wit = append(e.wit, witOutAccepted)
			} else if wl && pre.Exists {
				e.wit = append(e.wit, witWhitelisted)
			}
			e.Pkts = append(e.Pkts, np)
		case r.Class == ksim.ERR:
			opClass = "out-rejected"
			switch {
			case pre.BL:
				e.wit = append(e.wit, witBlacklisted)
				if !errors.Is(r.Err, ratelimittypes.ErrDenomIsBlacklisted) {
					fail("unexpected-error/out/"+r.Code, "transfer of a blacklisted denomination failed with %s %v", r.Code, r.Err)
				}
			case refPass && funds >= 1:
				fail("rejected-within-quota/out/"+r.Code, "transfer out rejected (%s %v) although net outflow %d-%d+1 is within %d%% of the channel value %d recorded at window start (%s)", r.Code, r.Err, pre.Out, pre.In, pre.Q.Send, pre.CV, pre.WinKind)
			case !refPass && errors.Is(r.Err, ratelimittypes.ErrQuotaExceeded):
				e.wit = append(e.wit, witOutQuotaRejected)
			}
		}
	case "in", "xin":
		rcv := userA
		if op.A[0] == 1 {
			rcv = blocked
		}
		var ip pkt
		ip, r = s.transfer(w, 1, s.sendB, 1, userB, rcv, false)
		if r.Class != ksim.OK {
			break
		}
		ip.In, ip.Blocked = true, op.A[0] == 1
		e.Pkts = append(e.Pkts, ip)
		if op.K == "xin" {
			// the honest relayer delivers at once: block on B, client update on A, receive on A
			isTx = false
			s.commit(w, 1, step)
			if r = w.UpdateLatest(0, s.link.ClientA, 1); r.Class != ksim.OK {
				break
			}
			np := &e.Pkts[len(e.Pkts)-1]
			var ack []byte
			var isErr bool
			r, ack, isErr = s.relayRecv(w, 0, np, w.ClientLatest(0, s.link.ClientA))
			opClass = s.onRecvIn(e, pre, np, r, ack, isErr, fail)
		}
	case "sync":
		isTx = false
		ch := op.A[0]
		if ch == 0 {
			s.commitA(w, step)
		} else {
			s.commit(w, 1, step)
		}
		e.Commits[ch]++
		r = w.UpdateLatest(1-ch, s.clientOn(1-ch), ch)
	case "commit":
		isTx = false
		ch := op.A[0]
		if ch == 0 {
			s.commitA(w, step)
		} else {
			s.commit(w, 1, step)
		}
		e.Commits[ch]++
		r = ksim.Result{Class: ksim.OK}
	case "client":
		isTx = false
		r = w.UpdateLatest(op.A[0], s.clientOn(op.A[0]), 1-op.A[0])
	case "epoch":
		// both chains jump one hour (the real BeginBlockers run), both clients learn the new heights
		isTx = false
		s.commitA(w, time.Hour)
		s.commit(w, 1, time.Hour)
		e.Epochs++
		r = w.UpdateLatest(0, s.link.ClientA, 1)
		if r2 := w.UpdateLatest(1, s.link.ClientB, 0); r.Class == ksim.OK {
			r = r2
		}
	case "recv":
		p := &e.Pkts[op.A[0]]
		r = s.recvOnB(w, p, w.Height(0, int64(op.A[1])))
	case "deliver":
		// the honest relayer carries packet i to B and the acknowledgement proof back to A's client
		isTx = false
		e.Delivers++
		p := &e.Pkts[op.A[0]]
		s.commitA(w, step)
		if r = w.UpdateLatest(1, s.link.ClientB, 0); r.Class != ksim.OK {
			break
		}
		r = s.recvOnB(w, p, w.ClientLatest(1, s.link.ClientB))
		s.commit(w, 1, step)
		if r2 := w.UpdateLatest(0, s.link.ClientA, 1); r2.Class != ksim.OK {
			r = r2
		}
	case "ack", "timeout":
		i := op.A[0]
		p := &e.Pkts[i]
		if op.K == "ack" {
			ack := p.Ack
			if ack == nil {
				ack = defaultAck
			}
			r = s.relayAck(w, p, ack, w.Height(1, int64(op.A[1])))
		} else {
			r = s.relayTimeout(w, p, w.Height(1, int64(op.A[1])))
		}
		if r.Class == ksim.NOOP && p.Final {
			e.wit = append(e.wit, witDupRelayNoop)
		}
		if r.Class != ksim.OK {
			break
		}
		refund := op.K == "timeout" || p.AckErr
		what := "ack"
		if op.K == "timeout" {
			what = "timeout"
		} else if p.AckErr {
			what = "errack"
		}
		switch {
		case p.Cur:
			opClass = what + "-of-current-packet"
		case p.Counted:
			opClass = what + "-of-older-packet"
		default:
			opClass = what + "-of-uncounted-packet"
		}
		if p.Final {
			fail("second-terminal-outcome/"+op.K, "packet %d reached a second terminal outcome on the sender", p.seq())
			break
		}
		p.Final = true
		if refund {
			if p.Cur {
				// counted in the current window and not yet undone: undo exactly once
				e.M.Out -= p.Amt
				e.wit = append(e.wit, witRefundCurrent)
			} else if p.Counted && pre.Exists {
				e.wit = append(e.wit, witUndoOlderIgnored)
			}
		} else {
			e.wit = append(e.wit, witAckSuccess)
		}
		p.Cur = false
	case "recvin":
		p := &e.Pkts[op.A[0]]
		var ack []byte
		var isErr bool
		r, ack, isErr = s.relayRecv(w, 0, p, w.Height(1, int64(op.A[1])))
		opClass = s.onRecvIn(e, pre, p, r, ack, isErr, fail)
	case "add", "update", "tighten", "update2h", "remove", "reset":
		e.Admin++
		q := s.quotaOf(op.K)
		r = s.adminTx(w, op.K, q)
		wantOK := (op.K == "add") != pre.Exists
		if (r.Class == ksim.OK) != wantOK {
			fail("admin-result/"+op.K, "%s answered %s while the limit %s", op.K, r, map[bool]string{true: "exists", false: "does not exist"}[pre.Exists])
		}
		if r.Class == ksim.OK {
			switch op.K {
			case "remove":
				e.M.Exists = false
				e.M.In, e.M.Out, e.M.CV = 0, 0, 0
				e.M.WinKind = "remove"
				for i := range e.Pkts {
					e.Pkts[i].Cur = false
				}
			case "reset":
				s.startWindow(w, "reset", pre.Q) // a reset keeps the quota
				e.wit = append(e.wit, witAdminWindow)
			case "add":
				s.startWindow(w, "add", q)
				e.wit = append(e.wit, witAdminWindow)
			default: // the three MsgUpdateRateLimit variants
				s.startWindow(w, "update", q)
				e.wit = append(e.wit, witAdminWindow)
			}
		}
	case "wl-out", "wl-in", "bl":
		isTx = false
		e.Toggles++
		k := w.W.Chains[0].App.RateLimitKeeper
		r = w.Do(0, func(ctx sdk.Context) error {
			switch op.K {
			case "wl-out":
				if pre.WLOut {
					k.RemoveWhitelistedAddressPair(ctx, userA.String(), userB.String())
				} else {
					k.SetWhitelistedAddressPair(ctx, ratelimittypes.WhitelistedAddressPair{Sender: userA.String(), Receiver: userB.String()})
				}
			case "wl-in":
				if pre.WLIn {
					k.RemoveWhitelistedAddressPair(ctx, userB.String(), userA.String())
				} else {
					k.SetWhitelistedAddressPair(ctx, ratelimittypes.WhitelistedAddressPair{Sender: userB.String(), Receiver: userA.String()})
				}
			case "bl":
				if pre.BL {
					k.RemoveDenomFromBlacklist(ctx, s.denom)
				} else {
					k.AddDenomToBlacklist(ctx, s.denom)
				}
			}
			return nil
		})
		if r.Class != ksim.OK {
			panic("c41: toggle failed")
		}
		switch op.K {
		case "wl-out":
			e.M.WLOut = !pre.WLOut
		case "wl-in":
			e.M.WLIn = !pre.WLIn
		case "bl":
			e.M.BL = !pre.BL
		}
	default:
		panic("unknown op " + op.K)
	}
	if r.Class == ksim.PANIC {
		fail("handler-panic/"+op.K, "%s panicked: %s", op, r.Code)
	}
	if isTx && r.Class != ksim.OK && s.rlHash(w) != before {
		fail("failed-op-changed-ratelimit-state/"+op.K, "%s answered %s but changed the rate-limit store of A", op, r)
	}
	// the stored rate limit must equal the reference window
	if field, text := s.compare(w); field != "" {
		fail(fmt.Sprintf("flow-mismatch/%s/after-%s+%s", field, e.M.WinKind, opClass), "after %s: %s", op, text)
		// everything below this state would only repeat the divergence: the subtree is not explored further
		e.Tainted = true
		e.wit = append(e.wit, witTainted)
	}
	return r
}

// step is the block interval of explored commits (small, so that a few one-sided commits stay within the clients' clock drift).
const step = time.Second

// transfer sends amt of denom from chain src over the scenario's route (v1 MsgTransfer on the channel, or v2
// MsgSendPacket with an ICS-20 payload between the clients) and returns the packet the relayer sees.
// short = the packet expires with the destination's next block(s); otherwise the timeout is far away.
func (s *Sc) transfer(w *ksim.World, src int, denom string, amt int64, from, to sdk.AccAddress, short bool) (pkt, ksim.Result) {
	dst := 1 - src
	if s.Path != pathV2 {
		srcCh := chanA
		if src == 1 {
			srcCh = chanB
		}
		th := farHeight
		if short {
			th = w.Height(dst, w.CS[dst].H()+1)
		}
		r := w.Tx(src, transfertypes.NewMsgTransfer(port, srcCh, sdk.NewInt64Coin(denom, amt), from.String(), to.String(), th, 0, ""))
		if r.Class != ksim.OK {
			return pkt{}, r
		}
		p, err := ibctesting.ParseV1PacketFromEvents(r.Events)
		if err != nil {
			panic(err)
		}
		return pkt{P: p, Amt: amt}, r
	}
	srcID, dstID := clientA, clientB
	if src == 1 {
		srcID, dstID = clientB, clientA
	}
	// v2 timeouts are whole seconds; "short" is the first second neither chain has reached yet
	now := max(w.CS[0].TimeNs(), w.CS[1].TimeNs()) / 1e9
	tsec := uint64(now) + 10*3600
	if short {
		tsec = uint64(now) + 1
	}
	// the packet carries the full denomination path of the bank denomination
	path := denom
	if strings.HasPrefix(denom, "ibc/") {
		hash, err := transfertypes.ParseHexHash(denom[4:])
		if err != nil {
			panic(err)
		}
		d, ok := w.W.Chains[src].App.TransferKeeper.GetDenom(w.CS[src].Ctx, hash)
		if !ok {
			panic("c41: unknown voucher denomination " + denom)
		}
		path = d.Path()
	}
	data := transfertypes.NewFungibleTokenPacketData(path, fmt.Sprint(amt), from.String(), to.String(), "")
	bz, err := transfertypes.MarshalPacketData(data, transfertypes.V1, transfertypes.EncodingProtobuf)
	if err != nil {
		panic(err)
	}
	pl := channeltypesv2.NewPayload(port, port, transfertypes.V1, transfertypes.EncodingProtobuf, bz)
	seq, r := w.SendV2(src, srcID, tsec, from.String(), pl)
	if r.Class != ksim.OK {
		return pkt{}, r
	}
	return pkt{V2: true, P2: channeltypesv2.NewPacket(seq, srcID, dstID, tsec, pl), Amt: amt}, r
}

// relayRecv relays p to chain dst (the other chain sent it) and returns the application acknowledgement written.
func (s *Sc) relayRecv(w *ksim.World, dst int, p *pkt, ph clienttypes.Height) (ksim.Result, []byte, bool) {
	if !p.V2 {
		r := w.RecvV1(dst, 1-dst, p.P, ph)
		if r.Class != ksim.OK {
			return r, nil, false
		}
		ack, err := ibctesting.ParseAckFromEvents(r.Events)
		if err != nil {
			panic(err)
		}
		isErr, err := ackIsError(ack)
		if err != nil {
			panic(err)
		}
		return r, ack, isErr
	}
	r := w.RecvV2(dst, 1-dst, p.P2, ph)
	if r.Class != ksim.OK {
		return r, nil, false
	}
	bz, err := ibctesting.ParseAckV2FromEvents(r.Events)
	if err != nil {
		panic(err)
	}
	var ack channeltypesv2.Acknowledgement
	if err := ack.Unmarshal(bz); err != nil {
		panic(err)
	}
	if len(ack.AppAcknowledgements) != 1 {
		panic("c41: v2 acknowledgement without exactly one application acknowledgement")
	}
	app := ack.AppAcknowledgements[0]
	if string(app) == string(channeltypesv2.ErrorAcknowledgement[:]) {
		return r, app, true
	}
	isErr, err := ackIsError(app)
	if err != nil {
		panic(err)
	}
	return r, app, isErr
}

// relayAck relays the acknowledgement of p to the chain that sent it.
func (s *Sc) relayAck(w *ksim.World, p *pkt, ack []byte, ph clienttypes.Height) ksim.Result {
	src := 0
	if (p.V2 && p.P2.SourceClient == clientB) || (!p.V2 && p.P.SourceChannel == chanB) {
		src = 1
	}
	if p.V2 {
		return w.AckV2(src, 1-src, p.P2, channeltypesv2.Acknowledgement{AppAcknowledgements: [][]byte{ack}}, ph)
	}
	return w.AckV1(src, 1-src, p.P, ack, ph)
}

// relayTimeout relays the timeout of an outbound packet to A.
func (s *Sc) relayTimeout(w *ksim.World, p *pkt, ph clienttypes.Height) ksim.Result {
	if p.V2 {
		return w.TimeoutV2(0, 1, p.P2, ph)
	}
	return w.TimeoutV1(0, 1, p.P, channeltypes.UNORDERED, ph)
}

// recvOnB relays an outbound packet to B and records the acknowledgement B wrote.
func (s *Sc) recvOnB(w *ksim.World, p *pkt, ph clienttypes.Height) ksim.Result {
	r, ack, isErr := s.relayRecv(w, 1, p, ph)
	if r.Class == ksim.OK {
		p.Ack, p.AckErr = ack, isErr
	}
	return r
}

// onRecvIn lets the reference model follow a receive on A (acceptance oracle of the inbound direction) and
// returns the operation class used in violation keys.
func (s *Sc) onRecvIn(e *ext, pre model, p *pkt, r ksim.Result, ack []byte, isErr bool, fail func(key, format string, a ...any)) string {
	if r.Class == ksim.NOOP && p.Final {
		e.wit = append(e.wit, witDupRelayNoop)
	}
	if r.Class != ksim.OK {
		return "recvin-" + string(r.Class)
	}
	if p.Final {
		fail("second-receive/in", "packet %d was received twice", p.seq())
		return "recvin-duplicate"
	}
	p.Final = true
	wl := pre.WLIn && !p.Blocked
	refPass := !pre.Exists || wl || within(pre.In-pre.Out+p.Amt, pre.CV, pre.Q.Recv)
	if isErr {
		// a receive that ends in an error acknowledgement leaves the flows unchanged
		switch {
		case pre.BL:
			e.wit = append(e.wit, witBlacklisted)
		case !refPass:
			e.wit = append(e.wit, witInQuotaRejected)
		case p.Blocked:
			e.wit = append(e.wit, witInErrAckOther)
		default:
			fail("rejected-within-quota/in", "receive answered with an error acknowledgement (%s) although net inflow %d-%d+%d is within %d%% of the channel value %d recorded at window start (%s)", ack, pre.In, pre.Out, p.Amt, pre.Q.Recv, pre.CV, pre.WinKind)
		}
		return "recvin-errack"
	}
	if pre.BL {
		fail("blacklisted-denom-accepted/in", "receive of blacklisted %s succeeded", s.denom)
	} else if !refPass {
		fail("accepted-over-quota/in", "receive accepted although net inflow %d-%d+%d exceeds %d%% of the channel value %d recorded at window start (%s)", pre.In, pre.Out, p.Amt, pre.Q.Recv, pre.CV, pre.WinKind)
	}
	if pre.Exists && !wl {
		// counted; the receive is final with its synchronous acknowledgement, nothing can undo it later
		e.M.In += p.Amt
		p.Counted = true
		e.wit = append(e.wit, witInAccepted)
	} else if wl && pre.Exists {
		e.wit = append(e.wit, witWhitelisted)
	}
	return "recvin-success"
}

// compare returns the first field in which the stored rate limit differs from the reference model.
func (s *Sc) compare(w *ksim.World) (string, string) {
	m := xt(w).M
	k := w.W.Chains[0].App.RateLimitKeeper
	rl, found := k.GetRateLimit(w.CS[0].Ctx, s.dn(), s.chID())
	pend := func() string {
		ps, _ := k.GetAllPendingSendPackets(w.CS[0].Ctx)
		pr, _ := k.GetAllPendingReceivePackets(w.CS[0].Ctx)
		return fmt.Sprintf("pending send markers %v, pending receive markers %v", ps, pr)
	}
	if found != m.Exists {
		return "existence", fmt.Sprintf("rate limit stored=%v, reference=%v", found, m.Exists)
	}
	if !found {
		return "", ""
	}
	if !rl.Quota.MaxPercentSend.Equal(sdkmath.NewInt(m.Q.Send)) || !rl.Quota.MaxPercentRecv.Equal(sdkmath.NewInt(m.Q.Recv)) || rl.Quota.DurationHours != m.Q.Dur {
		return "quota", fmt.Sprintf("stored quota %s/%s/%dh, reference %d/%d/%dh", rl.Quota.MaxPercentSend, rl.Quota.MaxPercentRecv, rl.Quota.DurationHours, m.Q.Send, m.Q.Recv, m.Q.Dur)
	}
	f := rl.Flow
	if f.Inflow.IsNegative() || f.Outflow.IsNegative() {
		return "negative", fmt.Sprintf("stored inflow %s outflow %s", f.Inflow, f.Outflow)
	}
	desc := fmt.Sprintf("stored flow (in %s, out %s, channel value %s), reference window (in %d, out %d, channel value %d; started by %s); %s", f.Inflow, f.Outflow, f.ChannelValue, m.In, m.Out, m.CV, m.WinKind, pend())
	switch {
	case !f.ChannelValue.Equal(sdkmath.NewInt(m.CV)):
		return "channel-value", desc
	case !f.Outflow.Equal(sdkmath.NewInt(m.Out)):
		return "outflow", desc
	case !f.Inflow.Equal(sdkmath.NewInt(m.In)):
		return "inflow", desc
	}
	return "", ""
}

// Step reports the verdicts Apply left for this transition and counts the witnesses once per transition.
func (s *Sc) Step(_ *ksim.World, _ ksim.Op, _ ksim.Result, post *ksim.World) *ksim.Fail {
	e := xt(post)
	for _, i := range e.wit {
		s.wit[i].Add(1)
	}
	return e.fail
}

// Invariant is the state oracle: in every state that is expanded the stored rate limit equals the reference
// window (states in which Apply already reported a divergence are not expanded and not re-reported).
func (s *Sc) Invariant(w *ksim.World) *ksim.Fail {
	e := xt(w)
	if e.M.In < 0 || e.M.Out < 0 {
		s.c.Broken("the reference window went negative (in %d, out %d): the model refunded a packet it had not counted", e.M.In, e.M.Out)
		return nil
	}
	if e.Tainted {
		return nil
	}
	if field, text := s.compare(w); field != "" {
		return &ksim.Fail{Key: "flow-mismatch/" + field + "/state", Text: text}
	}
	return nil
}

// ---- parts --------------------------------------------------------------------------------------

func run(c *core.C) {
	mk := func(cfg Cfg) *Sc { return newSc(c, cfg) }
	q := c.Quick()
	if !q && os.Getenv("VERIF_BUDGET_S") == "" && c.Budget > 12*time.Minute {
		c.Budget = 12 * time.Minute // keeps the thorough tier below 15 minutes of wall time including worker set-up
	}
	pick := func(a, b int) int { return core.Pick(c, a, b) }
	adminQ := []string{"update", "remove", "add", "reset"}
	adminT := []string{"update", "tighten", "update2h", "remove", "add", "reset"}
	var flowAdmin []string
	if !q {
		flowAdmin = []string{"reset", "tighten"}
	}
	parts := []ksim.Part{
		// quota and net flow in both directions, hour epochs (no packet ever fails)
		{Name: "macro/voucher/flows", Sc: mk(Cfg{Path: pathVoucher, MaxOut: 3, MaxIn: 3, OutKinds: []int{0}, XinKinds: []int{0, 1}, MaxEpochs: pick(1, 2), NoAck: true, NoRecv: true, NoTimeout: true,
			Admin: flowAdmin, MaxAdmin: 1}), Cfg: ksim.Config{MaxDepth: pick(6, 8)}, Share: float64(pick(35, 20)) / 100},
		{Name: "macro/native/flows", Sc: mk(Cfg{Path: pathNative, MaxOut: 3, MaxIn: 2, OutKinds: []int{0}, XinKinds: []int{0, 1}, MaxEpochs: pick(1, 2), NoAck: true, NoRecv: true, NoTimeout: true,
			Admin: flowAdmin, MaxAdmin: 1}), Cfg: ksim.Config{MaxDepth: pick(7, 10)}, Share: float64(pick(25, 10)) / 100},
		// refunds: timeouts and error acknowledgements against epoch resets
		{Name: "macro/voucher/refunds", Sc: mk(Cfg{Path: pathVoucher, MaxOut: 3, OutKinds: []int{1, 2}, Sync: [2]int{0, 2}, MaxDeliver: pick(2, 3), MaxEpochs: pick(1, 2), NoRecv: true}),
			Cfg: ksim.Config{MaxDepth: pick(6, 8)}, Share: float64(pick(40, 25)) / 100},
		// administration against packets in flight
		{Name: "macro/voucher/admin-timeouts", Sc: mk(Cfg{Path: pathVoucher, MaxOut: pick(2, 3), MaxIn: 1, OutKinds: []int{1}, XinKinds: []int{0}, Sync: [2]int{0, 1}, MaxEpochs: pick(0, 2), NoRecv: true, NoAck: true,
			Admin: core.Pick(c, adminQ, adminT), MaxAdmin: 2}), Cfg: ksim.Config{MaxDepth: pick(6, 7)}, Share: float64(pick(50, 45)) / 100},
		{Name: "macro/native/admin-error-acks", Sc: mk(Cfg{Path: pathNative, MaxOut: 2, OutKinds: []int{2, 0}, MaxDeliver: 2, MaxEpochs: pick(0, 1), NoRecv: true, NoTimeout: true,
			Admin: core.Pick(c, []string{"update", "reset"}, adminT), MaxAdmin: pick(1, 2)}), Cfg: ksim.Config{MaxDepth: pick(7, 8)}, Share: float64(pick(35, 60)) / 100},
		// IBC v2: the rate-limited path is the client-to-client route, keyed by (denom, A's client id); packets are v2
		// MsgSendPacket with a protobuf ICS-20 payload; the two chains use different client identifiers for each other
		{Name: "macro/v2-client/refunds", Sc: mk(Cfg{Path: pathV2, MaxOut: 2, MaxIn: pick(0, 1), OutKinds: []int{1, 2}, XinKinds: []int{0}, Sync: [2]int{0, pick(1, 2)}, MaxDeliver: pick(1, 2), MaxEpochs: 1, NoRecv: true,
			Admin: core.Pick(c, []string{"update"}, adminQ), MaxAdmin: 1}), Cfg: ksim.Config{MaxDepth: pick(5, 6)}, Share: float64(pick(40, 50)) / 100},
		{Name: "macro/v2-client/flows", Sc: mk(Cfg{Path: pathV2, MaxOut: 3, MaxIn: 3, OutKinds: []int{0}, XinKinds: []int{0, 1}, MaxEpochs: pick(1, 2), NoAck: true, NoRecv: true, NoTimeout: true,
			Admin: flowAdmin, MaxAdmin: 1}), Cfg: ksim.Config{MaxDepth: pick(6, 8)}, Share: 0.3},
		// whitelist / blacklist set-up changes
		{Name: "macro/voucher/lists", Sc: mk(Cfg{Path: pathVoucher, MaxOut: 3, MaxIn: 2, OutKinds: []int{1}, XinKinds: []int{0}, Sync: [2]int{0, 1}, NoRecv: true, NoAck: true,
			Toggles: []string{"wl-out", "wl-in", "bl"}, MaxToggles: pick(2, 3)}), Cfg: ksim.Config{MaxDepth: pick(5, 9)}, Share: 0.5},
		// primitive steps: separate commit / client update, relays with stale consensus heights, duplicates
		{Name: "micro/voucher/stale-relays", Sc: mk(Cfg{Path: pathVoucher, MaxOut: 2, MaxIn: pick(0, 1), OutKinds: []int{1}, InKinds: []int{0}, Sync: [2]int{pick(0, 1), 2}, Primitive: true,
			Admin: []string{"update"}, MaxAdmin: 1}), Cfg: ksim.Config{MaxDepth: pick(6, 9)}},
	}
	if f := os.Getenv("VERIF_C41_PART"); f != "" && c.Replay == "" {
		// development aid: run only the parts whose name contains f (the run is then reported as not exhaustive)
		var sel []ksim.Part
		for _, p := range parts {
			if strings.Contains(p.Name, f) {
				p.Share = 0
				sel = append(sel, p)
			}
		}
		parts = sel
		defer c.Set("exhaustive", false)
	}
	o := func(k string, a ...int) ksim.Op { return ksim.Op{K: k, A: a} }
	// sample histories (each was executed through the replay path while developing; outcomes in the comments)
	ksim.RunParts(c, parts, [][]ksim.Op{
		// voucher path: OK OK ERR(quota) OK(inflow 1) OK ERR(quota): two of three unit transfers fit, an inflow makes room for one more
		{o("out", 0), o("out", 0), o("out", 0), o("xin", 0), o("out", 0), o("out", 0)},
		// a packet sent before the hour boundary times out after it: the new window's outflow stays 1; the second relay is a NOOP
		{o("out", 1), o("epoch"), o("out", 1), o("timeout", 0, 9), o("timeout", 0, 9)},
		// blocked receiver on B: error acknowledgement refunds the outflow exactly once
		{o("out", 2), o("deliver", 0), o("ack", 0, 9), o("ack", 0, 9)},
		// native path: third transfer refused, accepted again after an inflow and after the epoch reset
		{o("out", 0), o("out", 0), o("out", 0), o("xin", 0), o("out", 0), o("epoch"), o("out", 0)},
		// DESIGN 4.8 (repaired by dd12f51): the older packet's timeout after MsgUpdateRateLimit must leave the new window's outflow at 1
		{o("out", 1), o("update"), o("out", 1), o("sync", 1), o("timeout", 0, 9)},
	})
	if c.Replay != "" {
		return
	}
	tot := map[string]int64{}
	for _, p := range parts {
		sc := p.Sc.(*Sc)
		for i := range sc.wit {
			tot[witNames[i]] += sc.wit[i].Load()
		}
	}
	c.Set("witness_transitions", tot)
	var rep int64
	for _, p := range parts {
		rep += p.Sc.(*Sc).repaired.Load()
	}
	c.Set("ksim_snapshot_apphash_repaired", int(rep))
	if !c.Capped() && c.Violations() <= 5 && os.Getenv("VERIF_C41_PART") == "" {
		for _, n := range []string{"out_rejected_by_quota", "in_rejected_by_quota", "in_error_ack_blocked_receiver", "refund_of_packet_counted_in_current_window",
			"timeout_or_error_ack_of_packet_from_older_window", "epoch_reset", "admin_started_window", "duplicate_relay_noop"} {
			if tot[n] == 0 {
				c.Broken("vacuous exploration: no transition of kind %q was reached", n)
			}
		}
	}
	c.Set("alphabet", "three routes, one per part: v1 channel with the voucher denom rate-limited, v1 channel with the native denom rate-limited, IBC v2 client-to-client route (MsgSendPacket, protobuf ICS-20 payload, limit keyed by client id; asymmetric client and channel identifiers on the two chains) | out(far | short timeout | blocked receiver on B) | in(receiver user A | blocked receiver on A) | xin = in + block on B + client update + receive on A | deliver(i) = block on A + client update + receive on B + block on B + client update | sync(A|B) = commit + honest client update (micro part: in / commit / client update / recv / recvin separately, relays with the 3 newest consensus heights) | ack | timeout | epoch (both chains +1h through the real BeginBlockers) | MsgAddRateLimit | MsgUpdateRateLimit (same quota / halved / 2h duration) | MsgRemoveRateLimit | MsgResetRateLimit (authority = gov module) | whitelist pair / blacklist denom toggles (keeper calls: no messages exist); unit amounts; every relay enabled forever")
	c.Set("reference_model", "window = (inflow, outflow, channel value = bank supply read when the window starts, set of packets counted in this window and not yet finalized); quota check net*100 <= channelValue*percent; window starts at add / update / reset / hour epoch whose number is divisible by the duration")
	c.Assume("counterparty consensus, storage commit and validator signing are played by the harness; one message per transaction, no ante handlers")
	c.Assume("ibctesting runs InitChain at time zero which leaves the rate-limit hour epoch degenerate; Init installs a well-formed epoch (number 23, started 30 min before the root block) through Keeper.SetHourEpoch")
	c.Assume("the supply of the rate-limited denomination never reaches zero within the bounds (user A holds 4 units, at most 3 transfers out), so the documented 'zero channel value disables the limit' exemption of Quota.CheckExceedsQuota is not exercised")
	c.Assume("the asynchronous-acknowledgement paths (packet-forward-middleware UndoReceivePacket, v2 WriteAcknowledgement wrapper) are outside this world: synchronous acknowledgements only; v2 traffic over the channel alias (v1 channel id used as v2 client id) is not exercised, only the direct client-to-client route")
}
