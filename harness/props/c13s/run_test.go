package c13s

import (
	"testing"

	"verif/harness/core"
)

// The versions part has no id of its own (the lead registers it, together with the handshake
// exploration, as C13). For stand-alone runs it is registered here, in the test binary only,
// under the temporary id C13S.
func init() {
	core.Register("C13S", "exploration", func(c *core.C) {
		RunVersions(c)
		c.Set("evaluations", c.Get("versions_evaluations"))
		c.Set("distinct_nontrivial", c.Get("versions_distinct_nontrivial"))
		c.Set("rule", "see versions_rule")
	})
}

func TestRun(t *testing.T) { core.RunFromEnv(t) }
