// Package c13s is the version-negotiation half of C13 (engine S): exhaustive enumeration of
// pairs of connection version lists against a set-based reference of the negotiation contract
//
//	"The negotiated version is a single version whose identifier both sides support and whose
//	 features are the intersection of both feature sets."
//
// It exports RunVersions; the lead combines it with the handshake exploration under the id C13.
// All coverage keys written here are prefixed "versions_".
package c13s

import (
	"fmt"
	"runtime"
	"strings"
	"sync"

	conntypes "github.com/cosmos/ibc-go/v11/modules/core/03-connection/types"

	"verif/harness/core"
)

// Ver is the JSON form of one version (used in samples and replay artefacts).
type Ver struct {
	ID string   `json:"id"`
	F  []string `json:"features"`
}

// Replay is the replay artefact of one failing input of the versions part.
type Replay struct {
	Kind         string `json:"kind"` // versions/pick | versions/verify | versions/issupported | versions/feature
	Supported    []Ver  `json:"supported,omitempty"`
	Counterparty []Ver  `json:"counterparty,omitempty"`
	Proposed     *Ver   `json:"proposed,omitempty"`
	Feature      string `json:"feature,omitempty"`
}

const (
	fO = "ORDER_ORDERED"
	fU = "ORDER_UNORDERED"
	fX = "X"
)

// featureLists: every subset of {O,U,X} once in canonical order (the empty set as nil), plus
// lists with a duplicate feature, a permuted order and a duplicate around another feature.
var featureLists = [][]string{
	nil,
	{fO}, {fU}, {fX},
	{fO, fU}, {fO, fX}, {fU, fX},
	{fO, fU, fX},
	{fO, fO},     // duplicate feature
	{fU, fO},     // permuted
	{fX, fO, fX}, // duplicate around another feature
}

var identifiers = []string{"1", "2"}

// mask is the reference representation of a feature list: the set of its members
// (bit 0 = O, 1 = U, 2 = X, 3 = anything else).
func mask(fs []string) uint8 {
	var m uint8
	for _, f := range fs {
		switch f {
		case fO:
			m |= 1
		case fU:
			m |= 2
		case fX:
			m |= 4
		default:
			m |= 8
		}
	}
	return m
}

type version struct {
	v    *conntypes.Version
	id   string
	mask uint8
}

type vlist struct {
	vs     []*conntypes.Version
	ref    []version
	unique bool // no identifier occurs twice
}

func mkVersion(id string, fs []string) version {
	var cp []string
	if fs != nil {
		cp = append([]string{}, fs...)
	}
	return version{v: conntypes.NewVersion(id, cp), id: id, mask: mask(fs)}
}

func universe() []version {
	var out []version
	for _, id := range identifiers {
		for _, fs := range featureLists {
			out = append(out, mkVersion(id, fs))
		}
	}
	return out
}

// lists enumerates every list of at most maxLen versions over u (duplicates and every order included).
func lists(u []version, maxLen int) []vlist {
	var out []vlist
	var rec func(cur []version)
	rec = func(cur []version) {
		l := vlist{unique: true}
		seen := map[string]bool{}
		for _, x := range cur {
			l.vs = append(l.vs, x.v)
			l.ref = append(l.ref, x)
			if seen[x.id] {
				l.unique = false
			}
			seen[x.id] = true
		}
		out = append(out, l)
		if len(cur) == maxLen {
			return
		}
		for _, x := range u {
			rec(append(append([]version{}, cur...), x))
		}
	}
	rec(nil)
	return out
}

func toVers(l []*conntypes.Version) []Ver {
	out := make([]Ver, 0, len(l))
	for _, v := range l {
		out = append(out, Ver{ID: v.Identifier, F: v.Features})
	}
	return out
}

func fromVers(l []Ver) vlist {
	var u []version
	for _, v := range l {
		u = append(u, mkVersion(v.ID, v.F))
	}
	out := vlist{unique: true}
	seen := map[string]bool{}
	for _, x := range u {
		out.vs = append(out.vs, x.v)
		out.ref = append(out.ref, x)
		if seen[x.id] {
			out.unique = false
		}
		seen[x.id] = true
	}
	return out
}

func short(f string) string {
	switch f {
	case fO:
		return "O"
	case fU:
		return "U"
	}
	return f
}

func encV(v *conntypes.Version) string {
	if v == nil {
		return "<nil>"
	}
	fs := make([]string, len(v.Features))
	for i, f := range v.Features {
		fs[i] = short(f)
	}
	return v.Identifier + "[" + strings.Join(fs, ",") + "]"
}

func encL(l []*conntypes.Version) string {
	s := make([]string, len(l))
	for i, v := range l {
		s[i] = encV(v)
	}
	return strings.Join(s, ";")
}

// pickOutcome classifies one PickVersion evaluation.
type pickOutcome int

const (
	pickErrNoCommonID pickOutcome = iota
	pickErrEmptyIntersections
	pickErrShadowed // a compatible pair exists but the first identifier match had an empty intersection (duplicate identifiers only)
	pickOK
	pickBad
)

// checkPick evaluates PickVersion(s, cp) against the reference. It returns the outcome class and a
// violation text ("" when the contract holds).
//
// Reference (from the property statement): the result is either an error or exactly one version r
// such that some version a in the supported list and some version b in the counterparty list have
// a.id = b.id = r.id and set(r.features) = set(a.features) ∩ set(b.features) ≠ ∅.
// (With duplicate identifiers inside one list "the matching versions" is ambiguous, so any matching
// pair is admitted; the statement demands nothing about *which* compatible version is preferred, and
// an error is always admitted.)
func checkPick(s, cp vlist) (pickOutcome, string) {
	var got *conntypes.Version
	var err error
	if p := core.Catch(func() { got, err = conntypes.PickVersion(s.vs, cp.vs) }); p != "" {
		return pickBad, "PickVersion panicked: " + p
	}
	common, compatible := false, false
	for _, a := range s.ref {
		for _, b := range cp.ref {
			if a.id == b.id {
				common = true
				if a.mask&b.mask != 0 {
					compatible = true
				}
			}
		}
	}
	if err != nil {
		if got != nil {
			return pickBad, fmt.Sprintf("PickVersion returned both a version %s and an error %v", encV(got), err)
		}
		switch {
		case !common:
			return pickErrNoCommonID, ""
		case !compatible:
			return pickErrEmptyIntersections, ""
		default:
			return pickErrShadowed, ""
		}
	}
	if got == nil {
		return pickBad, "PickVersion returned neither a version nor an error"
	}
	gm := mask(got.Features)
	if gm == 0 {
		return pickBad, fmt.Sprintf("negotiated version %s has an empty feature set", encV(got))
	}
	if gm&8 != 0 {
		return pickBad, fmt.Sprintf("negotiated version %s has a feature neither side listed", encV(got))
	}
	inS, inC := false, false
	for _, a := range s.ref {
		if a.id == got.Identifier {
			inS = true
		}
	}
	for _, b := range cp.ref {
		if b.id == got.Identifier {
			inC = true
		}
	}
	if !inS || !inC {
		return pickBad, fmt.Sprintf("negotiated identifier %q is not in both lists (supported:%v counterparty:%v)", got.Identifier, inS, inC)
	}
	for _, a := range s.ref {
		if a.id != got.Identifier {
			continue
		}
		for _, b := range cp.ref {
			if b.id == got.Identifier && a.mask&b.mask == gm {
				return pickOK, ""
			}
		}
	}
	return pickBad, fmt.Sprintf("features of negotiated version %s are not the intersection of the feature sets of any pair of versions with that identifier", encV(got))
}

// refVerify is the reference of Version.VerifyProposedVersion: same identifier, non-empty
// proposed feature set (no identifier allows an empty one), proposed ⊆ supported as sets.
func refVerify(sup, prop version) bool {
	if sup.id != prop.id || len(prop.v.Features) == 0 {
		return false
	}
	set := map[string]bool{}
	for _, f := range sup.v.Features {
		set[f] = true
	}
	for _, f := range prop.v.Features {
		if !set[f] {
			return false
		}
	}
	return true
}

func checkVerify(sup, prop version) string {
	var err error
	if p := core.Catch(func() { err = sup.v.VerifyProposedVersion(prop.v) }); p != "" {
		return "VerifyProposedVersion panicked: " + p
	}
	if want := refVerify(sup, prop); (err == nil) != want {
		return fmt.Sprintf("%s.VerifyProposedVersion(%s) accepted=%v, reference (same id, non-empty, subset) says %v", encV(sup.v), encV(prop.v), err == nil, want)
	}
	return ""
}

// checkSupported evaluates IsSupportedVersion(l, prop). Reference: true only if some version of the
// list with prop's identifier has a feature set containing prop's non-empty feature set; for lists
// without duplicate identifiers the converse is demanded too. Returns (text, shadowed).
func checkSupported(l vlist, prop version) (string, bool) {
	var got bool
	if p := core.Catch(func() { got = conntypes.IsSupportedVersion(l.vs, prop.v) }); p != "" {
		return "IsSupportedVersion panicked: " + p, false
	}
	any := false
	for _, a := range l.ref {
		if refVerify(a, prop) {
			any = true
		}
	}
	if got && !any {
		return fmt.Sprintf("IsSupportedVersion([%s], %s) = true but no listed version with that identifier contains the proposed features", encL(l.vs), encV(prop.v)), false
	}
	if !got && any {
		if l.unique {
			return fmt.Sprintf("IsSupportedVersion([%s], %s) = false but the listed version with that identifier contains the proposed non-empty feature set", encL(l.vs), encV(prop.v)), false
		}
		return "", true
	}
	return "", false
}

func checkFeature(v version, f string) string {
	var got bool
	if p := core.Catch(func() { got = conntypes.VerifySupportedFeature(v.v, f) }); p != "" {
		return "VerifySupportedFeature panicked: " + p
	}
	want := false
	for _, x := range v.v.Features {
		if x == f {
			want = true
		}
	}
	if got != want {
		return fmt.Sprintf("VerifySupportedFeature(%s, %q) = %v, reference membership says %v", encV(v.v), f, got, want)
	}
	return ""
}

// IsVersionsReplay reports whether c.Replay names an artefact written by RunVersions.
func IsVersionsReplay(c *core.C) bool {
	if c.Replay == "" {
		return false
	}
	var r Replay
	return c.LoadReplay(&r) == nil && strings.HasPrefix(r.Kind, "versions/")
}

func replayOne(c *core.C) {
	var r Replay
	if err := c.LoadReplay(&r); err != nil {
		c.Broken("cannot load replay: %v", err)
		return
	}
	c.Add("versions_evaluations", 1)
	switch r.Kind {
	case "versions/pick":
		s, cp := fromVers(r.Supported), fromVers(r.Counterparty)
		if _, txt := checkPick(s, cp); txt != "" {
			c.Violation("versions/pick/"+encL(s.vs)+"|"+encL(cp.vs), txt, r)
		}
	case "versions/verify":
		if len(r.Supported) != 1 || r.Proposed == nil {
			c.Broken("malformed versions/verify replay")
			return
		}
		s, p := mkVersion(r.Supported[0].ID, r.Supported[0].F), mkVersion(r.Proposed.ID, r.Proposed.F)
		if txt := checkVerify(s, p); txt != "" {
			c.Violation("versions/verify/"+encV(s.v)+"|"+encV(p.v), txt, r)
		}
	case "versions/issupported":
		if r.Proposed == nil {
			c.Broken("malformed versions/issupported replay")
			return
		}
		l, p := fromVers(r.Supported), mkVersion(r.Proposed.ID, r.Proposed.F)
		if txt, _ := checkSupported(l, p); txt != "" {
			c.Violation("versions/issupported/"+encL(l.vs)+"|"+encV(p.v), txt, r)
		}
	case "versions/feature":
		if len(r.Supported) != 1 {
			c.Broken("malformed versions/feature replay")
			return
		}
		v := mkVersion(r.Supported[0].ID, r.Supported[0].F)
		if txt := checkFeature(v, r.Feature); txt != "" {
			c.Violation("versions/feature/"+encV(v.v)+"|"+r.Feature, txt, r)
		}
	default:
		c.Broken("unknown replay kind %q", r.Kind)
	}
}

// RunVersions enumerates every pair of version lists within the bound and compares the real
// negotiation functions with the reference.
func RunVersions(c *core.C) {
	if c.Replay != "" {
		if IsVersionsReplay(c) {
			replayOne(c)
		}
		return
	}
	maxLen := core.Pick(c, 2, 3)
	u := universe()
	ls := lists(u, maxLen)
	c.Set("versions_max_list_len", maxLen)
	c.Set("versions_universe", len(u))
	c.Set("versions_lists", len(ls))
	c.Set("versions_rule", fmt.Sprintf("every ordered pair (supported, counterparty) of version lists with <= %d versions (duplicates and every order included) over identifiers {1,2} x %d feature lists (all 8 subsets of {ORDER_ORDERED,ORDER_UNORDERED,X} incl. the empty set, plus a duplicated feature, a permuted list and a duplicate around another feature); a pair is non-trivial when PickVersion negotiates a version (the contract's conclusion is then actually checked); all pairs are distinct by construction", maxLen, len(featureLists)))

	// single versions: VerifyProposedVersion over all ordered pairs, incl. an explicit empty (non-nil) slice,
	// a feature outside the universe and a blank feature on the proposed side.
	extra := []version{mkVersion("1", []string{}), mkVersion("2", []string{}), mkVersion("1", []string{"Y"}), mkVersion("1", []string{fO, ""}), mkVersion("3", []string{fO})}
	props := append(append([]version{}, u...), extra...)
	evalVerify, okVerify := 0, 0
	for _, s := range props {
		for _, p := range props {
			evalVerify++
			if refVerify(s, p) {
				okVerify++
			}
			if txt := checkVerify(s, p); txt != "" {
				c.Violation("versions/verify/"+encV(s.v)+"|"+encV(p.v), txt, Replay{Kind: "versions/verify", Supported: toVers([]*conntypes.Version{s.v}), Proposed: &Ver{p.id, p.v.Features}})
			}
		}
		for _, f := range []string{fO, fU, fX, "Y", ""} {
			evalVerify++
			if txt := checkFeature(s, f); txt != "" {
				c.Violation("versions/feature/"+encV(s.v)+"|"+f, txt, Replay{Kind: "versions/feature", Supported: toVers([]*conntypes.Version{s.v}), Feature: f})
			}
		}
	}
	c.Add("versions_verify_evaluations", evalVerify)
	c.Add("versions_verify_accepting", okVerify)

	// list x version: IsSupportedVersion
	evalSup, okSup, shadowSup := 0, 0, 0
	for _, l := range ls {
		for _, p := range props {
			evalSup++
			txt, shadowed := checkSupported(l, p)
			if txt != "" {
				c.Violation("versions/issupported/"+encL(l.vs)+"|"+encV(p.v), txt, Replay{Kind: "versions/issupported", Supported: toVers(l.vs), Proposed: &Ver{p.id, p.v.Features}})
			}
			if shadowed {
				shadowSup++
			}
			if conntypes.IsSupportedVersion(l.vs, p.v) {
				okSup++
			}
		}
		if c.TimeUp() {
			break
		}
	}
	c.Add("versions_issupported_evaluations", evalSup)
	c.Add("versions_issupported_true", okSup)
	c.Add("versions_issupported_shadowed_by_duplicate_identifier", shadowSup)

	// samples: a few fixed, representative pairs
	for _, ij := range [][2]int{{1 + 4, 1 + 9}, {1 + 7, 1 + 11 + 4}, {1 + 1, 1 + 2}, {len(ls) - 1, 1 + 7}, {1 + 8, 1 + 10}} {
		s, cp := ls[ij[0]%len(ls)], ls[ij[1]%len(ls)]
		got, err := conntypes.PickVersion(s.vs, cp.vs)
		res := "error"
		if err == nil {
			res = encV(got)
		}
		c.Sample(map[string]any{"kind": "versions/pick", "supported": toVers(s.vs), "counterparty": toVers(cp.vs), "picked": res})
	}

	// list x list: PickVersion, partitioned over a fixed number of workers by supported-list index
	// (verdicts and counts do not depend on the schedule).
	workers := runtime.GOMAXPROCS(0)
	if workers > 8 {
		workers = 8
	}
	if c.Quick() {
		workers = 2
	}
	type acc struct {
		eval int
		out  [5]int
	}
	accs := make([]acc, workers)
	var wg sync.WaitGroup
	for w := 0; w < workers; w++ {
		wg.Add(1)
		go func(w int) {
			defer wg.Done()
			a := &accs[w]
			for i := w; i < len(ls); i += workers {
				s := ls[i]
				for _, cp := range ls {
					o, txt := checkPick(s, cp)
					a.eval++
					a.out[o]++
					if txt != "" {
						c.Violation("versions/pick/"+encL(s.vs)+"|"+encL(cp.vs), txt, Replay{Kind: "versions/pick", Supported: toVers(s.vs), Counterparty: toVers(cp.vs)})
					}
				}
				if i%64 == w && c.TimeUp() {
					return
				}
			}
		}(w)
	}
	wg.Wait()
	var tot acc
	for _, a := range accs {
		tot.eval += a.eval
		for i := range tot.out {
			tot.out[i] += a.out[i]
		}
	}
	c.Add("versions_pick_evaluations", tot.eval)
	c.Add("versions_pick_negotiated", tot.out[pickOK])
	c.Add("versions_pick_error_no_common_identifier", tot.out[pickErrNoCommonID])
	c.Add("versions_pick_error_empty_intersections", tot.out[pickErrEmptyIntersections])
	c.Add("versions_pick_error_first_match_shadowed_compatible_pair", tot.out[pickErrShadowed])
	c.Add("versions_pick_contract_broken", tot.out[pickBad])
	c.Add("versions_evaluations", tot.eval+evalSup+evalVerify)
	c.Add("versions_distinct_nontrivial", tot.out[pickOK])
	if !c.Capped() && tot.eval != len(ls)*len(ls) {
		c.Broken("versions: enumerated %d pairs, expected %d", tot.eval, len(ls)*len(ls))
	}
	if tot.out[pickBad] == 0 && !c.Capped() && (tot.out[pickOK] == 0 || tot.out[pickErrNoCommonID] == 0 || tot.out[pickErrEmptyIntersections] == 0) {
		c.Broken("versions: an outcome class was never reached (ok=%d noCommon=%d emptyIntersection=%d)", tot.out[pickOK], tot.out[pickErrNoCommonID], tot.out[pickErrEmptyIntersections])
	}
	c.Assume("C13/versions: an error from PickVersion is always admitted (the statement constrains the negotiated version, not the existence of one); with duplicate identifiers inside one list any pair of same-identifier versions is admitted as 'the matching versions'")
}
