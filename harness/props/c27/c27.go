// Package c27 decides C27: 09-localhost membership verification succeeds exactly when the
// chain's own IBC store holds the given value at the given key, non-membership verification
// exactly when the key is absent, both only with the sentinel proof; the localhost client
// cannot be created, updated, upgraded or recovered.
//
// Part 1 enumerates, on several real IBC store states of a SimApp chain (after a real
// connection/channel handshake and packet flow, plus branched states with harness writes,
// overwrites and deletions), every stored key and a family of absent keys, values (the stored
// one, single-byte mutants, truncations, empty), proofs, path shapes, heights and delays,
// through the localhost LightClientModule directly and through the routed 02-client keeper.
// The reference is a Go map built from a store iterator.
//
// Part 2 sends every client message shape addressed to the localhost client through
// app.MsgServiceRouter() handlers (and the exported 02-client keeper / module entry points)
// and demands failure with no state change.
package c27

import (
	"bytes"
	"crypto/sha256"
	"encoding/hex"
	"errors"
	"fmt"
	"strconv"
	"strings"
	"time"

	codectypes "github.com/cosmos/cosmos-sdk/codec/types"
	storetypes "github.com/cosmos/cosmos-sdk/store/v2/types"
	sdk "github.com/cosmos/cosmos-sdk/types"

	clienttypes "github.com/cosmos/ibc-go/v11/modules/core/02-client/types"
	channeltypes "github.com/cosmos/ibc-go/v11/modules/core/04-channel/types"
	commitmenttypesv2 "github.com/cosmos/ibc-go/v11/modules/core/23-commitment/types/v2"
	host "github.com/cosmos/ibc-go/v11/modules/core/24-host"
	"github.com/cosmos/ibc-go/v11/modules/core/exported"
	ibctm "github.com/cosmos/ibc-go/v11/modules/light-clients/07-tendermint"
	localhost "github.com/cosmos/ibc-go/v11/modules/light-clients/09-localhost"
	ibctesting "github.com/cosmos/ibc-go/v11/testing"
	ibcmock "github.com/cosmos/ibc-go/v11/testing/mock"
	"github.com/cosmos/ibc-go/v11/testing/simapp"

	"verif/harness/core"
)

func init() { core.Register("C27", "exploration", run) }

// ---------------------------------------------------------------------------------------
// fixture

type fixture struct {
	coord *ibctesting.Coordinator
	a, b  *ibctesting.TestChain
	path  *ibctesting.Path
	app   *simapp.SimApp
	key   *storetypes.KVStoreKey
	lcm   exported.LightClientModule
}

func newFixture(c *core.C) *fixture {
	f := &fixture{}
	f.coord = ibctesting.NewCoordinator(c.T, 2)
	f.a = f.coord.GetChain(ibctesting.GetChainID(1))
	f.b = f.coord.GetChain(ibctesting.GetChainID(2))
	f.path = ibctesting.NewPath(f.a, f.b)
	f.path.Setup()
	f.app = f.a.GetSimApp()
	f.key = f.app.GetKey(exported.StoreKey)
	// packet life cycle so that commitments, receipts and acknowledgements exist on chain A
	th := f.b.GetTimeoutHeight()
	for i := 0; i < 2; i++ { // A -> B, first one relayed completely, second left pending
		seq, err := f.path.EndpointA.SendPacket(th, 0, ibcmock.MockPacketData)
		if err != nil {
			c.Broken("send packet: %v", err)
			return nil
		}
		if i == 0 {
			p := clientPacket(f, seq, th, true)
			if err := f.path.RelayPacket(p); err != nil {
				c.Broken("relay packet: %v", err)
				return nil
			}
		}
	}
	// B -> A: received on A (receipt + ack on A)
	tha := f.a.GetTimeoutHeight()
	seq, err := f.path.EndpointB.SendPacket(tha, 0, ibcmock.MockPacketData)
	if err != nil {
		c.Broken("send packet B: %v", err)
		return nil
	}
	if err := f.path.EndpointA.RecvPacket(clientPacket(f, seq, tha, false)); err != nil {
		c.Broken("recv packet on A: %v", err)
		return nil
	}
	// harness keys committed through a real block (one with an empty value)
	st := f.a.GetContext().KVStore(f.key)
	st.Set([]byte("verif/committed"), []byte("v0"))
	st.Set([]byte("verif/committed-empty"), []byte{})
	f.coord.CommitBlock(f.a)
	f.lcm, err = f.app.IBCKeeper.ClientKeeper.Route(f.a.GetContext(), exported.LocalhostClientID)
	if err != nil {
		c.Broken("route localhost: %v", err)
		return nil
	}
	return f
}

// ---------------------------------------------------------------------------------------
// reference: snapshot of the IBC store as a Go map

type snapshot struct {
	m    map[string][]byte
	keys []string // iteration (ascending) order
}

func snap(store storetypes.KVStore) snapshot {
	s := snapshot{m: map[string][]byte{}}
	it := store.Iterator(nil, nil)
	defer it.Close()
	for ; it.Valid(); it.Next() {
		k := string(it.Key())
		s.m[k] = append([]byte{}, it.Value()...)
		s.keys = append(s.keys, k)
	}
	return s
}

func (s snapshot) digest() string {
	h := sha256.New()
	for _, k := range s.keys {
		fmt.Fprintf(h, "%d:%s=%d:%s;", len(k), k, len(s.m[k]), s.m[k])
	}
	return hex.EncodeToString(h.Sum(nil))
}

// refMember: the store holds exactly value at key.
func (s snapshot) refMember(key, value []byte) bool {
	v, ok := s.m[string(key)]
	return ok && bytes.Equal(v, value)
}

// refAbsent: the key is not in the store.
func (s snapshot) refAbsent(key []byte) bool { _, ok := s.m[string(key)]; return !ok }

// ---------------------------------------------------------------------------------------
// part 1

type verifyCase struct {
	World   string   `json:"world"`
	Via     string   `json:"via"` // module | keeper
	Op      string   `json:"op"`  // member | nonmember
	Path    [][]byte `json:"path"`
	Key     []byte   `json:"key"`
	Value   []byte   `json:"value"`
	Proof   []byte   `json:"proof"`
	Height  string   `json:"height"`
	DelayT  uint64   `json:"delay_time"`
	DelayB  uint64   `json:"delay_block"`
	KeyKind string   `json:"key_kind"`
}

type world struct {
	name string
	ctx  sdk.Context
	ref  snapshot
}

type p1Stats struct {
	evals, nontrivial int
	seen              map[string]bool
}

func hx(b []byte) string {
	if len(b) > 24 {
		s := sha256.Sum256(b)
		return fmt.Sprintf("%s..#%s/%d", hex.EncodeToString(b[:8]), hex.EncodeToString(s[:4]), len(b))
	}
	return hex.EncodeToString(b)
}

// call runs one verification and returns (succeeded, panic text).
func (f *fixture) call(w *world, vc verifyCase, h exported.Height) (bool, string) {
	var err error
	p := commitmenttypesv2.MerklePath{KeyPath: vc.Path}
	pan := core.Catch(func() {
		switch {
		case vc.Via == "module" && vc.Op == "member":
			err = f.lcm.VerifyMembership(w.ctx, exported.LocalhostClientID, h, vc.DelayT, vc.DelayB, vc.Proof, p, vc.Value)
		case vc.Via == "module":
			err = f.lcm.VerifyNonMembership(w.ctx, exported.LocalhostClientID, h, vc.DelayT, vc.DelayB, vc.Proof, p)
		case vc.Op == "member":
			err = f.app.IBCKeeper.ClientKeeper.VerifyMembership(w.ctx, exported.LocalhostClientID, h, vc.DelayT, vc.DelayB, vc.Proof, p, vc.Value)
		default:
			err = f.app.IBCKeeper.ClientKeeper.VerifyNonMembership(w.ctx, exported.LocalhostClientID, h, vc.DelayT, vc.DelayB, vc.Proof, p)
		}
	})
	return pan == "" && err == nil, pan
}

var sentinel = []byte{0x01}

// check evaluates one case against the reference.
//   - must succeed: sentinel proof, path = [prefix "ibc", key], reference holds;
//   - must fail: proof is not the sentinel, or the path does not have exactly two elements, or the reference does not hold;
//   - unconstrained: a two-element path whose first element is not the chain's own prefix "ibc" (the statement only
//     speaks about the key), and the empty key (not a store key at all) for non-membership.
func (f *fixture) check(c *core.C, st *p1Stats, w *world, vc verifyCase, h exported.Height) {
	vc.World, vc.Height = w.name, h.String()
	got, pan := f.call(w, vc, h)
	st.evals++
	wellFormed := bytes.Equal(vc.Proof, sentinel) && len(vc.Path) == 2
	var holds bool
	if vc.Op == "member" {
		holds = w.ref.refMember(vc.Key, vc.Value)
	} else {
		holds = w.ref.refAbsent(vc.Key)
	}
	want := wellFormed && holds
	c.Hist("p1_outcomes", fmt.Sprintf("%s/%s/wellformed=%v/%v", vc.Op, vc.KeyKind, wellFormed, got))
	if pan != "" {
		c.Hist("p1_panics", vc.KeyKind)
	}
	if wellFormed {
		id := w.name + "|" + vc.Op + "|" + string(vc.Key) + "|" + string(vc.Value)
		if !st.seen[id] {
			st.seen[id] = true
			st.nontrivial++
		}
	}
	if got == want {
		return
	}
	if got && !want {
		// accepted something the store does not back / without sentinel / with a malformed path: always a violation
	} else {
		// rejected although the reference holds
		if len(vc.Path) == 2 && !bytes.Equal(vc.Path[0], []byte("ibc")) {
			c.Hist("p1_unconstrained", "foreign-prefix-rejected")
			return
		}
		if len(vc.Key) == 0 {
			c.Hist("p1_unconstrained", "empty-key-nonmembership-rejected")
			return
		}
	}
	c.Violation(fmt.Sprintf("verify/%s/%s/%s/%s/key=%s/value=%s/proof=%s/pathlen=%d", w.name, vc.Via, vc.Op, vc.KeyKind, hx(vc.Key), hx(vc.Value), hx(vc.Proof), len(vc.Path)),
		fmt.Sprintf("localhost %s verification (%s) returned success=%v, reference (store map) says %v; key=%q value=%s proof=%x path=%d elements height=%s panic=%q", vc.Op, vc.Via, got, want, vc.Key, hx(vc.Value), vc.Proof, len(vc.Path), vc.Height, pan), vc)
}

func proofs() [][]byte {
	return [][]byte{{0x01}, nil, {}, {0x00}, {0x02}, {0x01, 0x00}, {0x01, 0x01}, {0x00, 0x01}, []byte("proof")}
}

// paths returns path shapes around key: the canonical [ibc,key] first.
func paths(key []byte) [][][]byte {
	ibc := []byte("ibc")
	return [][][]byte{
		{ibc, key},
		{[]byte("x"), key}, {{}, key}, {key, key},
		nil, {key}, {ibc},
		{ibc, key, key}, {ibc, ibc, key}, {ibc, key, {}},
	}
}

// values returns the candidate values for a key whose stored value is stored (nil when absent).
func values(c *core.C, stored []byte, present bool, other []byte) [][]byte {
	out := [][]byte{nil, {}, []byte("v"), other}
	if !present {
		return out
	}
	out = append([][]byte{stored}, out...)
	limit := core.Pick(c, 24, 1<<20)
	core.Mutations(stored, func(m core.Mutation) bool {
		if len(stored) > limit {
			// quick tier: for long values only mutate/truncate near both ends (and extend)
			if i := strings.IndexByte(m.Name, '@'); i >= 0 {
				if pos, _ := strconv.Atoi(m.Name[i+1:]); pos > 3 && pos < len(stored)-4 {
					return true
				}
			}
		}
		out = append(out, m.Out)
		return true
	})
	return out
}

// absentKeys derives keys that are not in the snapshot from the keys that are.
func absentKeys(s snapshot) [][]byte {
	var out [][]byte
	add := func(k []byte) {
		if _, ok := s.m[string(k)]; !ok && len(k) > 0 {
			out = append(out, k)
		}
	}
	seen := map[string]bool{}
	for _, ks := range s.keys {
		k := []byte(ks)
		cands := [][]byte{append(append([]byte{}, k...), 'x'), append(append([]byte{}, k...), 0), k[:len(k)-1]}
		fl := append([]byte{}, k...)
		fl[len(fl)-1] ^= 1
		cands = append(cands, fl)
		up := bytes.ToUpper(k)
		cands = append(cands, up)
		for _, cand := range cands {
			if !seen[string(cand)] {
				seen[string(cand)] = true
				add(cand)
			}
		}
	}
	for _, k := range [][]byte{
		host.PacketReceiptKey("mock", "channel-0", 99), host.PacketCommitmentKey("mock", "channel-0", 99), host.PacketAcknowledgementKey("mock", "channel-7", 1),
		host.ChannelKey("mock", "channel-99"), host.ConnectionKey("connection-99"), host.FullClientStateKey("09-localhost"), host.FullClientStateKey("07-tendermint-99"),
		[]byte("clients"), []byte("ibc"), []byte("/"), {0}, {0xff},
	} {
		if !seen[string(k)] {
			seen[string(k)] = true
			add(k)
		}
	}
	return out
}

func (f *fixture) runWorld(c *core.C, st *p1Stats, w *world) {
	self := clienttypes.GetSelfHeight(w.ctx)
	heights := []exported.Height{self, clienttypes.ZeroHeight(), clienttypes.NewHeight(1, 1<<64-1)}
	delays := [][2]uint64{{0, 0}, {1<<64 - 1, 1<<64 - 1}}
	other := []byte("other-value")
	if len(w.ref.keys) > 0 {
		other = w.ref.m[w.ref.keys[len(w.ref.keys)/2]]
	}
	evalKey := func(kind string, key []byte, stored []byte, present bool) {
		vals := values(c, stored, present, other)
		for vi, v := range vals {
			for pi, pth := range paths(key) {
				for qi, pr := range proofs() {
					// full product on the canonical path / sentinel / stored value; off-diagonal elsewhere
					if vi > 4 && (pi > 0 || qi > 0) && (c.Quick() || len(stored) > 64 && pi > 1 && qi > 1) {
						continue // quick: diagonal only; thorough: full product (cross of the first two shapes for values > 64 bytes)
					}
					for _, via := range []string{"module", "keeper"} {
						if via == "keeper" && (pi > 1 || qi > 1 || vi > 4) {
							continue
						}
						vc := verifyCase{Via: via, Op: "member", Path: pth, Key: key, Value: v, Proof: pr, KeyKind: kind}
						f.check(c, st, w, vc, self)
						if vi == 0 { // non-membership does not depend on the value
							vc.Op, vc.Value = "nonmember", nil
							f.check(c, st, w, vc, self)
						}
					}
				}
			}
		}
		// heights and delays are irrelevant to the verdict
		for _, h := range heights {
			for _, d := range delays {
				for _, op := range []string{"member", "nonmember"} {
					vc := verifyCase{Via: "module", Op: op, Path: [][]byte{[]byte("ibc"), key}, Key: key, Value: stored, Proof: sentinel, DelayT: d[0], DelayB: d[1], KeyKind: kind}
					f.check(c, st, w, vc, h)
					vc.Via = "keeper"
					f.check(c, st, w, vc, h)
				}
			}
		}
	}
	for _, ks := range w.ref.keys {
		if c.TimeUp() {
			return
		}
		kind := "present"
		if len(w.ref.m[ks]) == 0 {
			kind = "present-empty-value"
		}
		evalKey(kind, []byte(ks), w.ref.m[ks], true)
	}
	for _, k := range absentKeys(w.ref) {
		if c.TimeUp() {
			return
		}
		evalKey("absent", k, nil, false)
	}
	evalKey("empty-key", []byte{}, nil, false)
	c.Set("p1_keys_"+w.name, len(w.ref.keys))
}

func (f *fixture) worlds(c *core.C) []*world {
	var ws []*world
	mk := func(name string, mutate func(store storetypes.KVStore, s snapshot)) {
		ctx, _ := f.a.GetContext().CacheContext()
		store := ctx.KVStore(f.key)
		if mutate != nil {
			mutate(store, snap(store))
		}
		w := &world{name: name, ctx: ctx, ref: snap(store)}
		// self-check: the map reference agrees with Get/Has of the raw store
		for _, k := range w.ref.keys {
			if !store.Has([]byte(k)) || !bytes.Equal(store.Get([]byte(k)), w.ref.m[k]) {
				c.Broken("world %s: iterator and Get/Has disagree on key %q", name, k)
			}
		}
		ws = append(ws, w)
	}
	mk("committed", nil)
	mk("branched-writes", func(store storetypes.KVStore, s snapshot) {
		store.Set([]byte("verif/new"), []byte("v1"))
		store.Set([]byte("verif/empty"), []byte{})
		// overwrite every 5th real key with another value, delete every 7th
		for i, k := range s.keys {
			switch {
			case i%5 == 1:
				store.Set([]byte(k), append([]byte("changed:"), s.m[k]...))
			case i%7 == 2:
				store.Delete([]byte(k))
			}
		}
	})
	if !c.Quick() {
		mk("branched-deletes", func(store storetypes.KVStore, s snapshot) {
			for i, k := range s.keys {
				if k == "clientParams" {
					continue // the routed keeper needs the allowed-clients parameter to reach the localhost module
				}
				if i%2 == 0 {
					store.Delete([]byte(k))
				} else {
					store.Set([]byte(k), []byte{})
				}
			}
		})
	}
	return ws
}

// ---------------------------------------------------------------------------------------
// part 2: client messages

// lhClientState / lhConsensusState are harness-defined states whose ClientType() is "09-localhost"
// (the repository has no such type any more); they are carried in Any values with a cached value,
// which is what the message handlers read.
type lhClientState struct{ Data []byte }

func (m *lhClientState) Reset()                   { *m = lhClientState{} }
func (m *lhClientState) String() string           { return fmt.Sprintf("lhClientState(%x)", m.Data) }
func (*lhClientState) ProtoMessage()              {}
func (*lhClientState) XXX_MessageName() string    { return "verif.c27.LocalhostClientState" }
func (m *lhClientState) Marshal() ([]byte, error) { return append([]byte{}, m.Data...), nil }
func (m *lhClientState) Unmarshal(b []byte) error { m.Data = append([]byte{}, b...); return nil }
func (*lhClientState) ClientType() string         { return exported.Localhost }
func (*lhClientState) Validate() error            { return nil }

type lhConsensusState struct{ Data []byte }

func (m *lhConsensusState) Reset()                   { *m = lhConsensusState{} }
func (m *lhConsensusState) String() string           { return fmt.Sprintf("lhConsensusState(%x)", m.Data) }
func (*lhConsensusState) ProtoMessage()              {}
func (*lhConsensusState) XXX_MessageName() string    { return "verif.c27.LocalhostConsensusState" }
func (m *lhConsensusState) Marshal() ([]byte, error) { return append([]byte{}, m.Data...), nil }
func (m *lhConsensusState) Unmarshal(b []byte) error { m.Data = append([]byte{}, b...); return nil }
func (*lhConsensusState) ClientType() string         { return exported.Localhost }
func (*lhConsensusState) GetTimestamp() uint64       { return 1 }
func (*lhConsensusState) ValidateBasic() error       { return nil }

type opCase struct {
	Name string
	Run  func(ctx sdk.Context) error // returns the error of the operation
	// NoErrorAPI marks module entry points without an error result: only "no state change" is demanded
	NoErrorAPI bool
}

func (f *fixture) msgCase(name string, msg sdk.Msg) opCase {
	return opCase{Name: name, Run: func(ctx sdk.Context) error {
		h := f.app.MsgServiceRouter().Handler(msg)
		if h == nil {
			return errors.New("no handler registered")
		}
		_, err := h(ctx, msg)
		return err
	}}
}

func (f *fixture) clientOps(c *core.C) []opCase {
	var ops []opCase
	ep := f.path.EndpointA
	signer := f.a.SenderAccount.GetAddress().String()
	authority := f.app.IBCKeeper.GetAuthority()
	tmCS, _ := f.a.GetClientState(ep.ClientID).(*ibctm.ClientState)
	latest := tmCS.LatestHeight
	tmCons, ok := f.a.GetConsensusState(ep.ClientID, latest)
	if !ok {
		c.Broken("no consensus state for %s at %s", ep.ClientID, latest)
		return nil
	}
	// a header that would be a valid update of the real tendermint client on A
	f.coord.CommitBlock(f.b)
	hdr, err := f.b.IBCClientHeader(f.b.LatestCommittedHeader, latest)
	if err != nil {
		c.Broken("client header: %v", err)
		return nil
	}
	// two validly signed conflicting headers at the same height (different timestamps)
	tv, ok := f.b.TrustedValidators[latest.RevisionHeight]
	if !ok {
		c.Broken("no trusted validators at %s", latest)
		return nil
	}
	mh := int64(latest.RevisionHeight) + 1
	t0 := f.b.LatestCommittedHeader.GetTime()
	mb1 := f.b.CreateTMClientHeader(f.b.ChainID, mh, latest, t0, f.b.Vals, f.b.NextVals, tv, f.b.Signers)
	mb2 := f.b.CreateTMClientHeader(f.b.ChainID, mh, latest, t0.Add(time.Minute), f.b.Vals, f.b.NextVals, tv, f.b.Signers)
	lhIDs := []string{exported.LocalhostClientID, "09-localhost-0", "09-localhost-1"}

	// self-check material: the header really updates the tendermint client
	upd, _ := clienttypes.NewMsgUpdateClient(ep.ClientID, hdr, signer)
	ops = append(ops, opCase{Name: "SELFCHECK/update-tendermint", Run: f.msgCase("", upd).Run})
	mbm, _ := clienttypes.NewMsgUpdateClient(ep.ClientID, ibctm.NewMisbehaviour(ep.ClientID, mb1, mb2), signer)
	ops = append(ops, opCase{Name: "SELFCHECK/misbehaviour-tendermint", Run: f.msgCase("", mbm).Run})

	// --- create
	for i, data := range [][]byte{nil, {1}, f.app.AppCodec().MustMarshal(tmCS)} {
		cs, cons := &lhClientState{Data: data}, &lhConsensusState{Data: data}
		m, err := clienttypes.NewMsgCreateClient(cs, cons, signer)
		if err != nil {
			c.Broken("build MsgCreateClient: %v", err)
			return nil
		}
		ops = append(ops, f.msgCase(fmt.Sprintf("MsgCreateClient/localhost-typed-state-%d", i), m))
		// mixed: localhost client state with a tendermint consensus state and vice versa
		if a1, e1 := codectypes.NewAnyWithValue(cs); e1 == nil {
			if a2, e2 := codectypes.NewAnyWithValue(tmCons); e2 == nil {
				ops = append(ops, f.msgCase(fmt.Sprintf("MsgCreateClient/localhost-client-tm-consensus-%d", i), &clienttypes.MsgCreateClient{ClientState: a1, ConsensusState: a2, Signer: signer}))
			}
		}
		if a1, e1 := codectypes.NewAnyWithValue(tmCS); e1 == nil {
			if a2, e2 := codectypes.NewAnyWithValue(cons); e2 == nil {
				ops = append(ops, f.msgCase(fmt.Sprintf("MsgCreateClient/tm-client-localhost-consensus-%d", i), &clienttypes.MsgCreateClient{ClientState: a1, ConsensusState: a2, Signer: signer}))
			}
		}
		data := data
		ops = append(ops, opCase{Name: fmt.Sprintf("ClientKeeper.CreateClient/localhost-%d", i), Run: func(ctx sdk.Context) error {
			_, err := f.app.IBCKeeper.ClientKeeper.CreateClient(ctx, exported.Localhost, data, data)
			return err
		}})
		ops = append(ops, opCase{Name: fmt.Sprintf("Module.Initialize/%d", i), Run: func(ctx sdk.Context) error {
			return f.lcm.Initialize(ctx, exported.LocalhostClientID, data, data)
		}})
	}
	// --- update / misbehaviour
	clientMsgs := []struct {
		n string
		m exported.ClientMessage
	}{
		{"tm-header", hdr},
		{"tm-misbehaviour", ibctm.NewMisbehaviour(exported.LocalhostClientID, mb1, mb2)},
		{"tm-misbehaviour-real-id", ibctm.NewMisbehaviour(ep.ClientID, mb1, mb2)},
	}
	for _, id := range lhIDs {
		for _, cm := range clientMsgs {
			m, err := clienttypes.NewMsgUpdateClient(id, cm.m, signer)
			if err != nil {
				c.Broken("build MsgUpdateClient: %v", err)
				return nil
			}
			ops = append(ops, f.msgCase(fmt.Sprintf("MsgUpdateClient/%s/%s", id, cm.n), m))
			id, cm := id, cm
			ops = append(ops, opCase{Name: fmt.Sprintf("ClientKeeper.UpdateClient/%s/%s", id, cm.n), Run: func(ctx sdk.Context) error {
				return f.app.IBCKeeper.ClientKeeper.UpdateClient(ctx, id, cm.m)
			}})
			ops = append(ops, opCase{Name: fmt.Sprintf("Module.VerifyClientMessage/%s/%s", id, cm.n), Run: func(ctx sdk.Context) error {
				return f.lcm.VerifyClientMessage(ctx, id, cm.m)
			}})
			ops = append(ops, opCase{Name: fmt.Sprintf("Module.UpdateState/%s/%s", id, cm.n), NoErrorAPI: true, Run: func(ctx sdk.Context) error {
				f.lcm.UpdateState(ctx, id, cm.m)
				f.lcm.UpdateStateOnMisbehaviour(ctx, id, cm.m)
				f.lcm.CheckForMisbehaviour(ctx, id, cm.m)
				return nil
			}})
		}
		// message with an empty Any
		ops = append(ops, f.msgCase(fmt.Sprintf("MsgUpdateClient/%s/nil-any", id), &clienttypes.MsgUpdateClient{ClientId: id, ClientMessage: nil, Signer: signer}))
	}
	// --- upgrade
	for _, id := range lhIDs {
		for pi, pr := range [][]byte{{0x01}, []byte("proof")} {
			m, err := clienttypes.NewMsgUpgradeClient(id, tmCS, tmCons, pr, pr, signer)
			if err != nil {
				c.Broken("build MsgUpgradeClient: %v", err)
				return nil
			}
			ops = append(ops, f.msgCase(fmt.Sprintf("MsgUpgradeClient/%s/tm-state/proof%d", id, pi), m))
			m2, err := clienttypes.NewMsgUpgradeClient(id, &lhClientState{Data: []byte{1}}, &lhConsensusState{Data: []byte{1}}, pr, pr, signer)
			if err == nil {
				ops = append(ops, f.msgCase(fmt.Sprintf("MsgUpgradeClient/%s/localhost-state/proof%d", id, pi), m2))
			}
			id, pr := id, pr
			ops = append(ops, opCase{Name: fmt.Sprintf("ClientKeeper.UpgradeClient/%s/proof%d", id, pi), Run: func(ctx sdk.Context) error {
				return f.app.IBCKeeper.ClientKeeper.UpgradeClient(ctx, id, f.app.AppCodec().MustMarshal(tmCS), f.app.AppCodec().MustMarshal(tmCons.(*ibctm.ConsensusState)), pr, pr)
			}})
			ops = append(ops, opCase{Name: fmt.Sprintf("Module.VerifyUpgradeAndUpdateState/%s/proof%d", id, pi), Run: func(ctx sdk.Context) error {
				return f.lcm.VerifyUpgradeAndUpdateState(ctx, id, []byte{1}, []byte{1}, pr, pr)
			}})
		}
	}
	// --- recover (subject or substitute is localhost); the real tendermint client is also offered frozen and expired
	pairs := [][2]string{}
	for _, id := range lhIDs {
		pairs = append(pairs, [2]string{id, ep.ClientID}, [2]string{ep.ClientID, id}, [2]string{id, id}, [2]string{id, "07-tendermint-99"})
	}
	pairs = append(pairs, [2]string{exported.LocalhostClientID, "09-localhost-0"}, [2]string{"09-localhost-0", exported.LocalhostClientID})
	for _, state := range []string{"active", "frozen"} {
		for _, pr := range pairs {
			for _, sg := range []struct{ n, a string }{{"authority", authority}, {"user", signer}} {
				m := clienttypes.NewMsgRecoverClient(sg.a, pr[0], pr[1])
				inner := f.msgCase("", m)
				state := state
				ops = append(ops, opCase{Name: fmt.Sprintf("MsgRecoverClient/%s/subject=%s/substitute=%s/tm-%s", sg.n, pr[0], pr[1], state), Run: func(ctx sdk.Context) error {
					if state == "frozen" {
						cs := *tmCS
						cs.FrozenHeight = clienttypes.NewHeight(0, 1)
						f.app.IBCKeeper.ClientKeeper.SetClientState(ctx, ep.ClientID, &cs)
					}
					return inner.Run(ctx)
				}})
			}
			pr, state := pr, state
			ops = append(ops, opCase{Name: fmt.Sprintf("ClientKeeper.RecoverClient/subject=%s/substitute=%s/tm-%s", pr[0], pr[1], state), Run: func(ctx sdk.Context) error {
				if state == "frozen" {
					cs := *tmCS
					cs.FrozenHeight = clienttypes.NewHeight(0, 1)
					f.app.IBCKeeper.ClientKeeper.SetClientState(ctx, ep.ClientID, &cs)
				}
				return f.app.IBCKeeper.ClientKeeper.RecoverClient(ctx, pr[0], pr[1])
			}})
		}
		for _, id := range lhIDs {
			id := id
			ops = append(ops, opCase{Name: fmt.Sprintf("Module.RecoverClient/%s/tm-%s", id, state), Run: func(ctx sdk.Context) error {
				return f.lcm.RecoverClient(ctx, id, ep.ClientID)
			}})
		}
	}
	return ops
}

// localhostKeys lists store keys that would make a localhost client "exist".
func localhostKeys(s snapshot) []string {
	var out []string
	for _, k := range s.keys {
		if bytes.HasPrefix([]byte(k), []byte("clients/09-localhost")) {
			out = append(out, k)
		}
	}
	return out
}

func (f *fixture) runClientOps(c *core.C) (evals, nontrivial int) {
	ops := f.clientOps(c)
	base := f.a.GetContext()
	baseSnap := snap(base.KVStore(f.key))
	if ks := localhostKeys(baseSnap); len(ks) != 0 {
		c.Broken("localhost client keys exist before the experiment: %q", ks)
		return
	}
	selfChecks := 0
	for _, op := range ops {
		ctx, _ := base.CacheContext()
		ctx = ctx.WithEventManager(sdk.NewEventManager())
		// The set-up step of the "frozen" variants writes the tendermint client state; the comparison below
		// therefore ignores that one key and looks at everything else.
		var err error
		pan := core.Catch(func() { err = op.Run(ctx) })
		after := snap(ctx.KVStore(f.key))
		evals++
		if strings.HasPrefix(op.Name, "SELFCHECK/") {
			if err != nil || pan != "" || after.digest() == baseSnap.digest() {
				c.Broken("self-check %s: the same message addressed to the real tendermint client must succeed and change state: err=%v panic=%q", op.Name, err, pan)
				return
			}
			selfChecks++
			continue
		}
		nontrivial++
		changed := diffKeys(baseSnap, after, host.FullClientStateKey(f.path.EndpointA.ClientID))
		failed := err != nil || pan != ""
		c.Hist("p2_outcomes", fmt.Sprintf("%s/failed=%v/changed=%v", kindOf(op.Name), failed, len(changed) > 0))
		if failed {
			c.Hist("p2_error_kinds", kindOf(op.Name)+": "+errKind(err, pan))
		}
		replay := map[string]any{"kind": "clientop", "name": op.Name}
		if lk := localhostKeys(after); len(lk) > 0 {
			c.Violation("clientop/"+op.Name+"/localhost-state-written", fmt.Sprintf("%s left localhost client keys in the store: %q (err=%v)", op.Name, lk, err), replay)
		}
		switch {
		case op.NoErrorAPI:
			if len(changed) > 0 || pan != "" {
				c.Violation("clientop/"+op.Name+"/state-changed", fmt.Sprintf("%s changed IBC state: %q panic=%q", op.Name, changed, pan), replay)
			}
		case !failed:
			c.Violation("clientop/"+op.Name+"/succeeded", fmt.Sprintf("%s succeeded (state keys changed: %q); the localhost client cannot be created, updated, upgraded or recovered", op.Name, changed), replay)
		}
		// A failing message is rolled back with its transaction, so writes made before the failure are not a
		// violation; they are only recorded (p2_outcomes .../changed=true).
	}
	c.Set("p2_operations", len(ops)-selfChecks)
	return evals, nontrivial
}

func kindOf(name string) string {
	for i := 0; i < len(name); i++ {
		if name[i] == '/' {
			return name[:i]
		}
	}
	return name
}

func errKind(err error, pan string) string {
	if pan != "" {
		return "panic"
	}
	s := err.Error()
	if i := strings.LastIndex(s, ": "); i >= 0 {
		s = s[i+2:]
	}
	return s
}

func diffKeys(a, b snapshot, ignore []byte) []string {
	var out []string
	for _, k := range a.keys {
		if k == string(ignore) {
			continue
		}
		if v, ok := b.m[k]; !ok || !bytes.Equal(v, a.m[k]) {
			out = append(out, k)
		}
	}
	for _, k := range b.keys {
		if _, ok := a.m[k]; !ok && k != string(ignore) {
			out = append(out, k)
		}
	}
	return out
}

// ---------------------------------------------------------------------------------------

func run(c *core.C) {
	f := newFixture(c)
	if f == nil {
		return
	}
	if !bytes.Equal(localhost.SentinelProof, sentinel) {
		c.Broken("sentinel proof constant changed: %x", localhost.SentinelProof)
	}
	if c.Replay != "" {
		replay(c, f)
		return
	}
	st := &p1Stats{seen: map[string]bool{}}
	ws := f.worlds(c)
	for _, w := range ws {
		f.runWorld(c, st, w)
	}
	// samples
	w0 := ws[0]
	if len(w0.ref.keys) > 0 {
		k := w0.ref.keys[0]
		c.Sample(map[string]any{"world": w0.name, "key": k, "stored_value": hx(w0.ref.m[k]), "membership(sentinel,[ibc,key],stored)": true, "nonmembership": false})
	}
	c.Sample(map[string]any{"world": w0.name, "key": string(host.PacketReceiptKey("mock", "channel-0", 99)), "present": !w0.ref.refAbsent(host.PacketReceiptKey("mock", "channel-0", 99)), "nonmembership(sentinel)": true})
	e2, n2 := f.runClientOps(c)
	c.Set("evaluations", st.evals+e2)
	c.Set("distinct_nontrivial", st.nontrivial+n2)
	c.Set("p1_evaluations", st.evals)
	c.Set("p2_evaluations", e2)
	c.Set("worlds", len(ws))
	c.Set("rule", "part 1: for every key stored in each world's IBC store and every derived absent key: values {stored, nil, empty, 'v', another key's value, every single-byte mutant/truncation/extension of the stored value (quick: only near the ends for values > 24 bytes)} x 10 path shapes x 9 proofs (full product for the first five values; for mutants: quick = diagonal, thorough = full product, restricted to (2 paths x 9 proofs) + (10 paths x 2 proofs) for values > 64 bytes) x {module, routed keeper} + heights x delays; non-trivial = distinct (world, op, key, value) with sentinel proof and a two-element path, i.e. where the store decides. part 2: every listed client operation on the localhost client; all are non-trivial")
	c.Assume("the reference store content is read through the sdk KVStore iterator of the same branched context (self-checked against Get/Has)")
	c.Assume("a message that fails is rolled back with its transaction; part 2 therefore demands failure (error or panic) and absence of localhost client keys, and only records writes made before a failure")
	c.Assume("a two-element path whose first element is not the chain prefix 'ibc' may be accepted or rejected (the statement speaks only about the key); the empty key is outside the store's key space: membership must fail, non-membership is unconstrained")
	c.Assume("no ClientState type with ClientType()==09-localhost exists in the repository; MsgCreateClient/MsgUpgradeClient of localhost type are built with harness-defined proto types carried as cached Any values")
}

func replay(c *core.C, f *fixture) {
	var k struct {
		Kind string `json:"kind"`
		Name string `json:"name"`
	}
	_ = c.LoadReplay(&k)
	c.Set("rule", "replay of one recorded case")
	c.Set("distinct_nontrivial", 2)
	if k.Kind == "clientop" {
		c.Broken("replay of client operations is not implemented; re-run the check (part 2 takes < 1 s): %s", k.Name)
		return
	}
	var vc verifyCase
	if err := c.LoadReplay(&vc); err != nil {
		c.Broken("replay: %v", err)
		return
	}
	st := &p1Stats{seen: map[string]bool{}}
	for _, w := range f.worlds(c) {
		if w.name == vc.World {
			h, err := clienttypes.ParseHeight(vc.Height)
			if err != nil {
				c.Broken("replay height: %v", err)
				return
			}
			f.check(c, st, w, vc, h)
		}
	}
	c.Set("evaluations", st.evals)
	c.Sample(map[string]any{"replayed": vc.World + "/" + vc.Op})
}

// clientPacket rebuilds the packet sent with sequence seq.
func clientPacket(f *fixture, seq uint64, th clienttypes.Height, fromA bool) channeltypes.Packet {
	ea, eb := f.path.EndpointA, f.path.EndpointB
	if !fromA {
		ea, eb = eb, ea
	}
	return channeltypes.NewPacket(ibcmock.MockPacketData, seq, ea.ChannelConfig.PortID, ea.ChannelID, eb.ChannelConfig.PortID, eb.ChannelID, th, 0)
}
