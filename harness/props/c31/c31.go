// Package c31 checks C31: the tracked total escrow equals the net IBC escrow movements. It runs the
// shared token-world scenario (props/tokenworld) with only the total-escrow oracle armed.
package c31

import (
	"verif/harness/core"
	"verif/harness/props/c43"
	"verif/harness/props/tokenworld"
)

func init() { core.Register("C31", "model_checking", run) }

func run(c *core.C) {
	tokenworld.Run(c, tokenworld.Arm{C31: true})
	if c.Replay == "" {
		// "... including packet-forward refund moves": the packet-forward world (C43's scenario; its oracles include the
		// tracked total escrow of every chain on quiescent states and conservation in every state) is explored under
		// this check's id as well
		st, tr, rp := c.Get("states"), c.Get("transitions"), c.Get("traces_validated_against_impl")
		parts := c.GetAny("parts")
		ex := c.GetAny("exhaustive")
		c43.Run(c)
		c.Set("states", st+c.Get("states"))
		c.Set("transitions", tr+c.Get("transitions"))
		c.Set("traces_validated_against_impl", rp+c.Get("traces_validated_against_impl"))
		c.Set("parts_token_world", parts)
		c.Set("parts_note", "'parts' lists the packet-forward world's parts, 'parts_token_world' the token world's")
		if b, ok := ex.(bool); ok && !b {
			c.Set("exhaustive", false)
		}
	}
	c.Set("oracle", "every state, every chain, every denomination: TransferKeeper.GetTotalEscrowForDenom == reference (sum of amounts of accepted source-zone sends - refunds of those sends - releases by successfully acknowledged receives of returning tokens, kept in sdkmath.Int from the observed results); >= 0; <= sum of the bank balances of that denomination over all transfer escrow accounts of the chain; no entry for a denomination the reference never saw escrowed")
	c.Assume("packet-forward refund moves are covered by running the packet-forward world (props/c43) under this check; replay of a violation found there: ./run C43 --replay <file>")
}
