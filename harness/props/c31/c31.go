// Package c31 checks C31: the tracked total escrow equals the net IBC escrow movements. It runs the
// shared token-world scenario (props/tokenworld) with only the total-escrow oracle armed.
package c31

import (
	"verif/harness/core"
	"verif/harness/props/tokenworld"
)

func init() { core.Register("C31", "model_checking", run) }

func run(c *core.C) {
	tokenworld.Run(c, tokenworld.Arm{C31: true})
	c.Set("oracle", "every state, every chain, every denomination: TransferKeeper.GetTotalEscrowForDenom == reference (sum of amounts of accepted source-zone sends - refunds of those sends - releases by successfully acknowledged receives of returning tokens, kept in sdkmath.Int from the observed results); >= 0; <= sum of the bank balances of that denomination over all transfer escrow accounts of the chain; no entry for a denomination the reference never saw escrowed")
	c.Assume("packet-forward-middleware escrow-to-escrow moves are not exercised (no forwarding memos in this alphabet)")
}
