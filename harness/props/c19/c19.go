// Package c19 decides C19: packet proofs are accepted only after the connection's time
// delay and the derived block delay have passed since the consensus state was processed;
// the block delay is exactly ceil(delay / maxExpectedTimePerBlock) (0 when the parameter
// is 0) for every pair of 64-bit inputs.
//
// Part A (arithmetic): the unexported getBlockDelay is observed through the four exported
// packet verification functions of the 03-connection keeper with a recording light-client
// module registered at run time under an extra client type; the recorded delayBlockPeriod is
// compared with a big.Int ceiling over a 64-bit boundary lattice squared.
//
// Part B (enforcement): a real two-chain ibctesting set-up produces a real packet
// commitment proof (and a receipt-absence proof) verified by the real 07-tendermint client.
// The proof is submitted at every (height, time) of a grid after the consensus state was
// processed, through ConnectionKeeper.VerifyPacketCommitment / VerifyPacketReceiptAbsence and
// through the MsgRecvPacket handler, and - for processed time/height metadata and delays near
// 2^63 / 2^64 - directly through LightClientModule.VerifyMembership / VerifyNonMembership.
package c19

import (
	"errors"
	"fmt"
	"math/big"
	"sort"
	"time"

	sdk "github.com/cosmos/cosmos-sdk/types"

	clienttypes "github.com/cosmos/ibc-go/v11/modules/core/02-client/types"
	connectiontypes "github.com/cosmos/ibc-go/v11/modules/core/03-connection/types"
	channeltypes "github.com/cosmos/ibc-go/v11/modules/core/04-channel/types"
	commitmenttypes "github.com/cosmos/ibc-go/v11/modules/core/23-commitment/types"
	host "github.com/cosmos/ibc-go/v11/modules/core/24-host"
	"github.com/cosmos/ibc-go/v11/modules/core/exported"
	ibctm "github.com/cosmos/ibc-go/v11/modules/light-clients/07-tendermint"
	ibctesting "github.com/cosmos/ibc-go/v11/testing"
	ibcmock "github.com/cosmos/ibc-go/v11/testing/mock"
	"github.com/cosmos/ibc-go/v11/testing/simapp"

	"verif/harness/core"
)

func init() { core.Register("C19", "exploration", run) }

const (
	recorderType   = "99-recorder"
	recorderClient = "99-recorder-0"
	two53          = uint64(1) << 53
)

// ---------------------------------------------------------------------------------------
// reference model

func bu(x uint64) *big.Int { return new(big.Int).SetUint64(x) }

// refBlockDelay is ceil(delay/max) with 0 for max == 0, computed with big.Int.
func refBlockDelay(delay, max uint64) uint64 {
	if max == 0 {
		return 0
	}
	q, r := new(big.Int).QuoRem(bu(delay), bu(max), new(big.Int))
	if r.Sign() != 0 {
		q.Add(q, big.NewInt(1))
	}
	return q.Uint64() // q <= delay < 2^64
}

// refPassed reports whether both delays have passed (inclusive bounds), without wrap-around.
// A zero delay imposes nothing. Callers only use now >= processedTime and h >= processedHeight.
func refPassed(now, processedTime, delayTime, h, processedHeight, delayBlock uint64) bool {
	timeOK := bu(now).Cmp(new(big.Int).Add(bu(processedTime), bu(delayTime))) >= 0
	blockOK := bu(h).Cmp(new(big.Int).Add(bu(processedHeight), bu(delayBlock))) >= 0
	return timeOK && blockOK
}

func wraps(a, b uint64) bool { return a+b < a }

// ---------------------------------------------------------------------------------------
// recording light client module (part A)

type recorder struct {
	calls  int
	dt, db uint64
	member bool
}

var _ exported.LightClientModule = (*recorder)(nil)

func (*recorder) Initialize(sdk.Context, string, []byte, []byte) error { return nil }
func (*recorder) VerifyClientMessage(sdk.Context, string, exported.ClientMessage) error {
	return nil
}
func (*recorder) CheckForMisbehaviour(sdk.Context, string, exported.ClientMessage) bool { return false }
func (*recorder) UpdateStateOnMisbehaviour(sdk.Context, string, exported.ClientMessage) {}
func (*recorder) UpdateState(sdk.Context, string, exported.ClientMessage) []exported.Height {
	return nil
}

func (r *recorder) VerifyMembership(_ sdk.Context, _ string, _ exported.Height, dt, db uint64, _ []byte, _ exported.Path, _ []byte) error {
	r.calls++
	r.dt, r.db, r.member = dt, db, true
	return nil
}

func (r *recorder) VerifyNonMembership(_ sdk.Context, _ string, _ exported.Height, dt, db uint64, _ []byte, _ exported.Path) error {
	r.calls++
	r.dt, r.db, r.member = dt, db, false
	return nil
}
func (*recorder) Status(sdk.Context, string) exported.Status { return exported.Active }
func (*recorder) LatestHeight(sdk.Context, string) exported.Height {
	return clienttypes.NewHeight(0, 1)
}

func (*recorder) TimestampAtHeight(sdk.Context, string, exported.Height) (uint64, error) {
	return 0, nil
}
func (*recorder) RecoverClient(sdk.Context, string, string) error { return nil }
func (*recorder) VerifyUpgradeAndUpdateState(sdk.Context, string, []byte, []byte, []byte, []byte) error {
	return nil
}

// ---------------------------------------------------------------------------------------
// lattices

func uniqSorted(vs []uint64) []uint64 {
	set := map[uint64]bool{}
	for _, v := range vs {
		set[v] = true
	}
	out := make([]uint64, 0, len(set))
	for v := range set {
		out = append(out, v)
	}
	sort.Slice(out, func(i, j int) bool { return out[i] < out[j] })
	return out
}

// durations are realistic delay periods / block times in nanoseconds.
func durations() []uint64 {
	s := uint64(time.Second)
	return []uint64{1, 999_999_999, s, s + 1, 3 * s, 5 * s, 6 * s, 10 * s, 30 * s, 60 * s, 3600 * s, 86400 * s, 14 * 86400 * s, 21 * 86400 * s, 365 * 86400 * s}
}

// extraLattice is the thorough-tier extension: every 2^k-1, 2^k, 2^k+1, 3*2^k and odd multiples around 2^53.
func extraLattice() []uint64 {
	var out []uint64
	for k := uint(1); k <= 63; k++ {
		p := uint64(1) << k
		out = append(out, p-1, p, p+1)
		if k <= 62 {
			out = append(out, 3*(p>>1), 3*(p>>1)+1)
		}
	}
	for _, j := range []uint64{1, 2, 3, 5, 7, 1023, 1025} {
		out = append(out, two53+j, 2*two53+j, 3*two53+j, 1<<60+j, 1<<63+j)
	}
	out = append(out, 1<<64-3, 1<<64-1025, 10_000_000_000_000_000_000, 9_999_999_999_999_999_999, 1_000_000_007, 999_999_937)
	return out
}

// ---------------------------------------------------------------------------------------
// part A

type pairCase struct {
	Delay uint64 `json:"delay"`
	Max   uint64 `json:"max"`
}

type partA struct {
	app  *simapp.SimApp
	ctx  sdk.Context
	rec  *recorder
	conn connectiontypes.ConnectionEnd
	h    clienttypes.Height
}

func newPartA(c *core.C) *partA {
	coord := ibctesting.NewCoordinator(c.T, 1)
	chain := coord.GetChain(ibctesting.GetChainID(1))
	app := chain.GetSimApp()
	rec := &recorder{}
	app.IBCKeeper.ClientKeeper.AddRoute(recorderType, rec)
	ctx, _ := chain.GetContext().CacheContext()
	conn := connectiontypes.NewConnectionEnd(connectiontypes.OPEN, recorderClient,
		connectiontypes.NewCounterparty("07-tendermint-0", "connection-0", commitmenttypes.NewMerklePrefix([]byte("ibc"))),
		connectiontypes.GetCompatibleVersions(), 0)
	return &partA{app: app, ctx: ctx, rec: rec, conn: conn, h: clienttypes.NewHeight(0, 1)}
}

var verifyNames = []string{"VerifyPacketCommitment", "VerifyPacketAcknowledgement", "VerifyPacketReceiptAbsence", "VerifyNextSequenceRecv"}

// observe returns the (delayTime, delayBlock) pairs handed to the light client by each of the
// four packet verification functions for the given connection delay and parameter.
func (p *partA) observe(c *core.C, delay, max uint64, setParams bool) (out [4][2]uint64, ok bool) {
	ck := p.app.IBCKeeper.ConnectionKeeper
	if setParams {
		ck.SetParams(p.ctx, connectiontypes.Params{MaxExpectedTimePerBlock: max})
	}
	conn := p.conn
	conn.DelayPeriod = delay
	proof := []byte{1}
	for i := range verifyNames {
		before := p.rec.calls
		var err error
		switch i {
		case 0:
			err = ck.VerifyPacketCommitment(p.ctx, conn, p.h, proof, "port", "channel-0", 1, []byte{1})
		case 1:
			err = ck.VerifyPacketAcknowledgement(p.ctx, conn, p.h, proof, "port", "channel-0", 1, []byte{1})
		case 2:
			err = ck.VerifyPacketReceiptAbsence(p.ctx, conn, p.h, proof, "port", "channel-0", 1)
		case 3:
			err = ck.VerifyNextSequenceRecv(p.ctx, conn, p.h, proof, "port", "channel-0", 1)
		}
		if err != nil || p.rec.calls != before+1 || p.rec.member == (i == 2) {
			c.Broken("recording client not reached by %s (err=%v calls=%d->%d member=%v)", verifyNames[i], err, before, p.rec.calls, p.rec.member)
			return out, false
		}
		out[i] = [2]uint64{p.rec.dt, p.rec.db}
	}
	return out, true
}

type aStats struct {
	evals, pairs, nontrivial, mismatches int
	capLeft                              map[string]int
}

func direction(got, want uint64) string {
	switch {
	case got < want:
		return "under"
	default:
		return "over"
	}
}

// checkPair evaluates one (delay, max) pair; it returns false when the harness is broken.
func (p *partA) checkPair(c *core.C, st *aStats, delay, max uint64, setParams bool) bool {
	obs, ok := p.observe(c, delay, max, setParams)
	if !ok {
		return false
	}
	want := refBlockDelay(delay, max)
	st.pairs++
	if max > 1 && delay%max != 0 {
		st.nontrivial++
	}
	for i, o := range obs {
		st.evals++
		if o[0] != delay {
			c.Violation(fmt.Sprintf("timedelay/%s/delay=%d/max=%d", verifyNames[i], delay, max),
				fmt.Sprintf("%s handed delayTimePeriod=%d to the light client, connection delay is %d", verifyNames[i], o[0], delay),
				map[string]any{"kind": "pair", "delay": delay, "max": max})
		}
		if o[1] == want {
			continue
		}
		if i == 0 {
			st.mismatches++
			c.Hist("blockdelay_mismatch_direction", direction(o[1], want))
		}
		key := fmt.Sprintf("blockdelay/delay=%d/max=%d", delay, max)
		if i > 0 && o[1] == obs[0][1] {
			continue // same value as VerifyPacketCommitment: one key per pair
		}
		if i > 0 {
			key = fmt.Sprintf("blockdelay/%s/delay=%d/max=%d", verifyNames[i], delay, max)
		}
		text := fmt.Sprintf("%s: block delay handed to the light client = %d, exact ceil(%d/%d) = %d (float64 arithmetic in getBlockDelay)", verifyNames[i], o[1], delay, max, want)
		if delay >= two53 || max >= two53 {
			// the float64-inexact region: emit a bounded number of representative keys, in canonical order
			d := direction(o[1], want)
			if st.capLeft[d] == 0 {
				continue
			}
			st.capLeft[d]--
		}
		c.Violation(key, text, map[string]any{"kind": "pair", "delay": delay, "max": max})
	}
	return true
}

func runPartA(c *core.C) (st aStats) {
	st.capLeft = map[string]int{"under": 3, "over": 2}
	p := newPartA(c)
	base := core.Lattice64()
	inBase := map[uint64]bool{}
	for _, v := range base {
		inBase[v] = true
	}
	// pass 1 (both tiers, identical order): Lattice64 x Lattice64
	for _, m := range base {
		p.app.IBCKeeper.ConnectionKeeper.SetParams(p.ctx, connectiontypes.Params{MaxExpectedTimePerBlock: m})
		for _, d := range base {
			if !p.checkPair(c, &st, d, m, false) {
				return st
			}
		}
	}
	// pass 2: extended lattice (quick: realistic durations; thorough: all powers of two +-1 etc.)
	ext := append([]uint64{}, base...)
	ext = append(ext, durations()...)
	if !c.Quick() {
		ext = append(ext, extraLattice()...)
	}
	ext = uniqSorted(ext)
	for _, m := range ext {
		if c.TimeUp() {
			break
		}
		p.app.IBCKeeper.ConnectionKeeper.SetParams(p.ctx, connectiontypes.Params{MaxExpectedTimePerBlock: m})
		for _, d := range ext {
			if inBase[m] && inBase[d] {
				continue
			}
			if !p.checkPair(c, &st, d, m, false) {
				return st
			}
		}
	}
	c.Set("a_lattice_points", len(ext))
	c.Set("a_pairs", st.pairs)
	c.Set("a_blockdelay_mismatching_pairs", st.mismatches)
	c.Sample(map[string]any{"part": "A", "delay": uint64(10 * time.Second), "max": uint64(3 * time.Second), "block_delay_expected": refBlockDelay(uint64(10*time.Second), uint64(3*time.Second))})
	return st
}

// ---------------------------------------------------------------------------------------
// part B

type fixture struct {
	coord          *ibctesting.Coordinator
	a, b           *ibctesting.TestChain
	path           *ibctesting.Path
	app            *simapp.SimApp
	packet         channeltypes.Packet
	commitment     []byte
	proof          []byte // membership proof of the packet commitment on A
	absProof       []byte // non-membership proof of a packet receipt on A
	proofHeight    clienttypes.Height
	absHeight      clienttypes.Height
	conn           connectiontypes.ConnectionEnd
	rev            uint64
	procT, procH   uint64
	memberPath     exported.Path
	nonMemberPath  exported.Path
	lcm            exported.LightClientModule
	recvMsg        *channeltypes.MsgRecvPacket
	absSeq         uint64
	baseH, baseNow uint64
	tag            string // "grid" for the equal-revision fixture, "xrev/v<r>/c<r>" for cross-revision fixtures
}

func newFixture(c *core.C) *fixture {
	coord := ibctesting.NewCoordinator(c.T, 2)
	return newFixtureOn(c, coord, coord.GetChain(ibctesting.GetChainID(1)), coord.GetChain(ibctesting.GetChainID(2)), "grid")
}

// newFixtureOn builds the fixture with a as the counterparty (proof source) and b as the verifying chain.
// tag distinguishes the violation keys of different fixtures.
func newFixtureOn(c *core.C, coord *ibctesting.Coordinator, a, b *ibctesting.TestChain, tag string) *fixture {
	f := &fixture{coord: coord, a: a, b: b, tag: tag}
	f.path = ibctesting.NewPath(f.a, f.b)
	f.path.Setup()
	f.app = f.b.GetSimApp()
	ea, eb := f.path.EndpointA, f.path.EndpointB
	th := f.b.GetTimeoutHeight()
	seq, err := ea.SendPacket(th, 0, ibcmock.MockPacketData)
	if err != nil {
		c.Broken("send packet: %v", err)
		return nil
	}
	f.packet = channeltypes.NewPacket(ibcmock.MockPacketData, seq, ea.ChannelConfig.PortID, ea.ChannelID, eb.ChannelConfig.PortID, eb.ChannelID, th, 0)
	f.commitment = channeltypes.CommitPacket(f.packet)
	ckey := host.PacketCommitmentKey(ea.ChannelConfig.PortID, ea.ChannelID, seq)
	f.proof, f.proofHeight = f.a.QueryProof(ckey)
	f.absSeq = 7
	rkey := host.PacketReceiptKey(ea.ChannelConfig.PortID, ea.ChannelID, f.absSeq)
	f.absProof, f.absHeight = f.a.QueryProof(rkey)
	if !f.absHeight.EQ(f.proofHeight) {
		c.Broken("proof heights differ: %s vs %s", f.proofHeight, f.absHeight)
		return nil
	}
	ctx := f.b.GetContext()
	f.conn = eb.GetConnection()
	f.rev = clienttypes.ParseChainID(ctx.ChainID())
	cs := f.app.IBCKeeper.ClientKeeper.ClientStore(ctx, eb.ClientID)
	pt, ok1 := ibctm.GetProcessedTime(cs, f.proofHeight)
	ph, ok2 := ibctm.GetProcessedHeight(cs, f.proofHeight)
	if !ok1 || !ok2 {
		c.Broken("no processed time/height metadata for consensus height %s", f.proofHeight)
		return nil
	}
	f.procT, f.procH = pt, ph.GetRevisionHeight()
	if ph.GetRevisionNumber() != f.rev {
		c.Broken("processed height revision %d != self revision %d", ph.GetRevisionNumber(), f.rev)
		return nil
	}
	f.baseH, f.baseNow = uint64(ctx.BlockHeight()), uint64(ctx.BlockTime().UnixNano())
	if f.baseH != f.procH+1 || f.baseNow <= f.procT {
		c.Broken("unexpected base context: height %d time %d, processed at %d / %d", f.baseH, f.baseNow, f.procH, f.procT)
		return nil
	}
	mk := func(key []byte) exported.Path {
		mp, err := commitmenttypes.ApplyPrefix(f.conn.Counterparty.Prefix, commitmenttypes.NewMerklePath(key))
		if err != nil {
			c.Broken("apply prefix: %v", err)
		}
		return mp
	}
	f.memberPath, f.nonMemberPath = mk(ckey), mk(rkey)
	f.lcm, err = f.app.IBCKeeper.ClientKeeper.Route(ctx, eb.ClientID)
	if err != nil {
		c.Broken("route: %v", err)
		return nil
	}
	f.recvMsg = channeltypes.NewMsgRecvPacket(f.packet, f.proof, f.proofHeight, f.b.SenderAccount.GetAddress().String())
	return f
}

// fork returns a branched context of chain B at the given height and time.
func (f *fixture) fork(h, now uint64) sdk.Context {
	ctx, _ := f.b.GetContext().CacheContext()
	return ctx.WithBlockHeight(int64(h)).WithBlockTime(time.Unix(0, int64(now)).UTC()).WithEventManager(sdk.NewEventManager())
}

// verdict classifies an error: accepted, rejected because a delay has not passed, or something else.
func verdict(err error) string {
	switch {
	case err == nil:
		return "accepted"
	case errors.Is(err, ibctm.ErrDelayPeriodNotPassed):
		return "delay-not-passed"
	default:
		return "other-error"
	}
}

type gridCase struct {
	Tag   string `json:"fixture,omitempty"`
	Kind  string `json:"kind"` // grid
	Via   string `json:"via"`
	Delay uint64 `json:"delay"`
	Max   uint64 `json:"max"`
	DH    uint64 `json:"height_minus_processed"`
	DT    uint64 `json:"time_minus_processed"`
}

// evalGrid submits the proof via one entry point at processed+(dh, dt) and returns the verdict.
func (f *fixture) evalGrid(g gridCase) (string, error) {
	h, now := f.procH+g.DH, f.procT+g.DT
	ctx := f.fork(h, now)
	ck := f.app.IBCKeeper.ConnectionKeeper
	ck.SetParams(ctx, connectiontypes.Params{MaxExpectedTimePerBlock: g.Max})
	conn := f.conn
	conn.DelayPeriod = g.Delay
	ea := f.path.EndpointA
	var err error
	switch g.Via {
	case "VerifyPacketCommitment":
		err = ck.VerifyPacketCommitment(ctx, conn, f.proofHeight, f.proof, ea.ChannelConfig.PortID, ea.ChannelID, f.packet.Sequence, f.commitment)
	case "VerifyPacketReceiptAbsence":
		err = ck.VerifyPacketReceiptAbsence(ctx, conn, f.absHeight, f.absProof, ea.ChannelConfig.PortID, ea.ChannelID, f.absSeq)
	case "MsgRecvPacket":
		ck.SetConnection(ctx, f.path.EndpointB.ConnectionID, conn)
		var res *sdk.Result
		res, err = f.app.MsgServiceRouter().Handler(f.recvMsg)(ctx, f.recvMsg)
		if err == nil {
			var resp channeltypes.MsgRecvPacketResponse
			if len(res.MsgResponses) != 1 || resp.Unmarshal(res.MsgResponses[0].Value) != nil || resp.Result != channeltypes.SUCCESS {
				return "other-error", fmt.Errorf("MsgRecvPacket did not report SUCCESS: %v", res)
			}
		}
	default:
		return "other-error", fmt.Errorf("unknown entry point %q", g.Via)
	}
	return verdict(err), err
}

var gridVias = []string{"VerifyPacketCommitment", "VerifyPacketReceiptAbsence", "MsgRecvPacket"}

type bStats struct {
	evals, nontrivial int
	distinct          map[string]bool
}

func (f *fixture) checkGrid(c *core.C, st *bStats, g gridCase, tag string) {
	g.Tag = f.tag
	want := refPassed(f.procT+g.DT, f.procT, g.Delay, f.procH+g.DH, f.procH, refBlockDelay(g.Delay, g.Max))
	got, err := f.evalGrid(g)
	st.evals++
	c.Hist("b_grid_outcomes", got)
	if g.Delay != 0 {
		k := fmt.Sprintf("g/%s/%d/%d/%d/%d", f.tag, g.Delay, g.Max, g.DH, g.DT)
		if !st.distinct[k] {
			st.distinct[k] = true
			st.nontrivial++
		}
	}
	if got == "other-error" {
		c.Broken("%s %+v: unexpected error (neither accepted nor delay-not-passed): %v", tag, g, err)
		return
	}
	if (got == "accepted") != want {
		c.Violation(fmt.Sprintf("enforce/%s/%s/delay=%d/max=%d/dh=%d/dt=%d", tag, g.Via, g.Delay, g.Max, g.DH, g.DT),
			fmt.Sprintf("%s at processedHeight+%d, processedTime+%dns with delay %dns, maxExpectedTimePerBlock %dns (block delay %d): %s, reference says accepted=%v", g.Via, g.DH, g.DT, g.Delay, g.Max, refBlockDelay(g.Delay, g.Max), got, want), g)
	}
}

func runGrid(c *core.C, f *fixture, st *bStats) {
	s := uint64(time.Second)
	delays := core.Pick(c, []uint64{0, 5 * s, 10 * s}, []uint64{0, 1, 5*s - 1, 5 * s, 5*s + 1, 10 * s, 15 * s})
	maxes := core.Pick(c, []uint64{0, 3 * s, 5 * s, 30 * s}, []uint64{0, 1 * s, 3 * s, 5*s - 1, 5 * s, 5*s + 1, 30 * s, 1})
	dhs := core.Pick(c, []uint64{0, 1, 2, 3, 4}, []uint64{0, 1, 2, 3, 4, 5, 6, 15, 16})
	for _, d := range delays {
		// times relative to the processed time: the boundary of this delay +-1ns and whole blocks
		dts := []uint64{0, 1, 5 * s, 10 * s, 15 * s, d, d + 1}
		if d > 0 {
			dts = append(dts, d-1)
		}
		if !c.Quick() {
			dts = append(dts, 5*s-1, 5*s+1, 10*s-1, 10*s+1, 20*s, 3600*s)
		}
		dts = uniqSorted(dts)
		for _, m := range maxes {
			if m == 1 && d > 15*s {
				continue
			}
			for _, dh := range dhs {
				for _, dt := range dts {
					for _, via := range gridVias {
						f.checkGrid(c, st, gridCase{Kind: "grid", Via: via, Delay: d, Max: m, DH: dh, DT: dt}, f.tag)
					}
				}
			}
			if c.TimeUp() {
				return
			}
		}
	}
}

// runE2EWrap submits the proof through the connection keeper entry points with a connection delay
// chosen so that processedTime+delay is 2^64-2, 2^64-1 (largest sums without wrap), 2^64 or 2^64+1 (wrap to 0 / 1).
// Every such delay is unsatisfiable at any reachable block time (< 2^63), so the reference rejects all of them.
func runE2EWrap(c *core.C, f *fixture, st *bStats) {
	s := uint64(time.Second)
	emitted := false
	for _, k := range []int64{-2, -1, 0, 1} {
		delay := -f.procT + uint64(k)
		for _, m := range []uint64{0, 30 * s, 1<<64 - 1} {
			for _, dh := range []uint64{0, 1, 2} {
				for _, dt := range []uint64{0, 5 * s} {
					for _, via := range gridVias {
						g := gridCase{Kind: "grid", Via: via, Delay: delay, Max: m, DH: dh, DT: dt}
						got, err := f.evalGrid(g)
						st.evals++
						st.nontrivial++
						c.Hist("b_e2e_wrap_outcomes", fmt.Sprintf("sum=2^64%+d/max=%d/%s", k, m, got))
						if got == "other-error" {
							c.Broken("e2e-wrap %+v: unexpected error: %v", g, err)
							return
						}
						if got != "accepted" {
							continue
						}
						if k < 0 { // no wrap involved: never capped
							c.Violation(fmt.Sprintf("enforce/e2e/%s/delay=2^64-processedTime%+d/max=%d/dh=%d/dt=%d", via, k, m, dh, dt),
								fmt.Sprintf("%s accepted a proof although processedTime+delay = 2^64%+d is far in the future", via, k), g)
							continue
						}
						if !emitted { // one representative key for the wrap-around class
							emitted = true
							c.Violation(fmt.Sprintf("enforce/e2e/time-wrap/%s/delay=2^64-processedTime%+d/max=%d/dh=%d/dt=%d", via, k, m, dh, dt),
								fmt.Sprintf("%s accepted a packet proof %dns after processing on a connection whose delay period is %dns (processedTime %d + delay wraps past 2^64), maxExpectedTimePerBlock=%d", via, dt, delay, f.procT, m), g)
						}
					}
				}
			}
		}
	}
}

// runBlocks commits real blocks on chain B and submits the proof in each of them.
func runBlocks(c *core.C, f *fixture, st *bStats) {
	s := uint64(time.Second)
	n := core.Pick(c, 3, 7)
	for k := 0; k <= n; k++ {
		ctx := f.b.GetContext()
		h, now := uint64(ctx.BlockHeight()), uint64(ctx.BlockTime().UnixNano())
		if h < f.procH || now < f.procT {
			c.Broken("real block (%d,%d) precedes processing (%d,%d)", h, now, f.procH, f.procT)
			return
		}
		for _, d := range []uint64{0, 5 * s, 10 * s, 15 * s, 20 * s} {
			for _, m := range []uint64{0, 3 * s, 5 * s, 30 * s} {
				for _, via := range gridVias {
					f.checkGrid(c, st, gridCase{Kind: "grid", Via: via, Delay: d, Max: m, DH: h - f.procH, DT: now - f.procT}, "block")
				}
			}
		}
		c.Hist("b_real_blocks", fmt.Sprintf("height+%d", h-f.procH))
		if k < n {
			f.coord.CommitBlock(f.b)
		}
	}
}

// directCase is one direct call of the tendermint light client module with harness-chosen
// processed metadata, delays, block height and time.
type directCase struct {
	Tag    string `json:"fixture,omitempty"`
	Kind   string `json:"kind"` // direct
	Op     string `json:"op"`   // member | nonmember
	ProcT  uint64 `json:"processed_time"`
	DelayT uint64 `json:"delay_time"`
	Now    uint64 `json:"now"`
	ProcH  uint64 `json:"processed_height"`
	DelayB uint64 `json:"delay_block"`
	H      uint64 `json:"height"`
}

func (f *fixture) evalDirect(d directCase) (string, error) {
	ctx := f.fork(d.H, d.Now)
	cs := f.app.IBCKeeper.ClientKeeper.ClientStore(ctx, f.path.EndpointB.ClientID)
	ibctm.SetProcessedTime(cs, f.proofHeight, d.ProcT)
	ibctm.SetProcessedHeight(cs, f.proofHeight, clienttypes.NewHeight(f.rev, d.ProcH))
	var err error
	if d.Op == "member" {
		err = f.lcm.VerifyMembership(ctx, f.path.EndpointB.ClientID, f.proofHeight, d.DelayT, d.DelayB, f.proof, f.memberPath, f.commitment)
	} else {
		err = f.lcm.VerifyNonMembership(ctx, f.path.EndpointB.ClientID, f.absHeight, d.DelayT, d.DelayB, f.absProof, f.nonMemberPath)
	}
	return verdict(err), err
}

func (f *fixture) checkDirect(c *core.C, st *bStats, capLeft map[string]int, d directCase) {
	d.Tag = f.tag
	want := refPassed(d.Now, d.ProcT, d.DelayT, d.H, d.ProcH, d.DelayB)
	got, err := f.evalDirect(d)
	st.evals++
	c.Hist("b_direct_outcomes", got)
	k := fmt.Sprintf("d/%s/%s/%d/%d/%d/%d/%d/%d", f.tag, d.Op, d.ProcT, d.DelayT, d.Now, d.ProcH, d.DelayB, d.H)
	if (d.DelayT != 0 || d.DelayB != 0) && !st.distinct[k] {
		st.distinct[k] = true
		st.nontrivial++
	}
	if got == "other-error" {
		c.Broken("direct %+v: unexpected error: %v", d, err)
		return
	}
	if (got == "accepted") == want {
		return
	}
	tw, hw := wraps(d.ProcT, d.DelayT), wraps(d.ProcH, d.DelayB)
	class := "exact"
	switch {
	case tw && hw:
		class = "time+height-wrap"
	case tw:
		class = "time-wrap"
	case hw:
		class = "height-wrap"
	}
	c.Hist("b_direct_mismatch_class", class)
	if class != "exact" {
		// processedX + delay exceeds 2^64-1: emit a bounded number of representative keys in canonical order
		ck := d.Op + "/" + class
		if capLeft[ck] == 0 {
			return
		}
		capLeft[ck]--
	}
	pre := "enforce/direct"
	if f.tag != "grid" {
		pre = "enforce/" + f.tag + "/direct"
	}
	c.Violation(fmt.Sprintf(pre+"/%s/%s/pt=%d/dt=%d/now=%d/ph=%d/db=%d/h=%d", d.Op, class, d.ProcT, d.DelayT, d.Now, d.ProcH, d.DelayB, d.H),
		fmt.Sprintf("07-tendermint %s verification with processedTime=%d delayTime=%d now=%d processedHeight=%d delayBlock=%d height=%d: %s, reference (no wrap-around) says accepted=%v", d.Op, d.ProcT, d.DelayT, d.Now, d.ProcH, d.DelayB, d.H, got, want), d)
}

const maxI64 = uint64(1)<<63 - 1

// axis enumerates (processed, current, delay) triples on one axis (time or height), current >= processed.
func axis(thorough bool, processed []uint64, step uint64) [][3]uint64 {
	var out [][3]uint64
	for _, p := range processed {
		curs := []uint64{p, p + 1, p + step, maxI64}
		if thorough {
			curs = append(curs, p+2*step, p+step-1, 1<<62+5, maxI64-1)
		}
		var cs []uint64
		for _, v := range uniqSorted(curs) {
			if v >= p && v <= maxI64 {
				cs = append(cs, v)
			}
		}
		for _, cur := range cs {
			gap := cur - p
			ds := []uint64{0, 1, gap, gap + 1, 1 << 63, 1<<63 + 1, 1<<64 - 1,
				-p - 1, // p + d = 2^64-1: largest sum without wrap
				-p,     // p + d = 2^64: wraps to 0
				-p + 1, // wraps to 1
				-p + gap, -p + gap + 1}
			if gap > 0 {
				ds = append(ds, gap-1)
			}
			if thorough {
				ds = append(ds, step, 2*step, 1<<62, 1<<63-1, 1<<64-2, -p+step, -p+gap-1, -p-2)
			}
			for _, d := range uniqSorted(ds) {
				out = append(out, [3]uint64{p, cur, d})
			}
		}
	}
	return out
}

// appendNew appends the triples of more that are not already in base, keeping order.
func appendNew(base, more [][3]uint64) [][3]uint64 {
	seen := map[[3]uint64]bool{}
	for _, t := range base {
		seen[t] = true
	}
	for _, t := range more {
		if !seen[t] {
			seen[t] = true
			base = append(base, t)
		}
	}
	return base
}

func runDirect(c *core.C, f *fixture, st *bStats) {
	capLeft := map[string]int{}
	for _, op := range []string{"member", "nonmember"} {
		for _, cl := range []string{"time-wrap", "height-wrap", "time+height-wrap"} {
			capLeft[op+"/"+cl] = 1
		}
	}
	s := uint64(time.Second)
	// the quick-tier triples come first in both tiers so that the representative keys are tier-independent
	times := axis(false, []uint64{1_000_000_000, 1 << 62, maxI64}, 5*s)
	heights := axis(false, []uint64{10, 1 << 62, maxI64}, 1)
	if !c.Quick() {
		times = appendNew(times, axis(true, []uint64{1, 1_000_000_000, 1577923200 * s, 1 << 62, maxI64 - 10*s, maxI64}, 5*s))
		heights = appendNew(heights, axis(true, []uint64{1, 10, 1 << 32, 1 << 62, maxI64 - 2, maxI64}, 1))
	}
	c.Set("b_direct_time_axis", len(times))
	c.Set("b_direct_height_axis", len(heights))
	for _, op := range []string{"member", "nonmember"} {
		for _, t := range times { // time axis alone
			f.checkDirect(c, st, capLeft, directCase{Kind: "direct", Op: op, ProcT: t[0], Now: t[1], DelayT: t[2], ProcH: 10, H: 12, DelayB: 0})
		}
		for _, h := range heights { // height axis alone
			f.checkDirect(c, st, capLeft, directCase{Kind: "direct", Op: op, ProcT: 1_000_000_000, Now: 6_000_000_000, DelayT: 0, ProcH: h[0], H: h[1], DelayB: h[2]})
		}
		if c.TimeUp() {
			return
		}
	}
	// cross product of both axes, strided; the quick-tier product (stride 7 over the quick triples) comes
	// first in both tiers, the thorough tier adds stride 3 over the full axes
	nt, nh := len(axis(false, []uint64{1_000_000_000, 1 << 62, maxI64}, 5*s)), len(axis(false, []uint64{10, 1 << 62, maxI64}, 1))
	done := map[directCase]bool{}
	cross := func(ts, hs [][3]uint64, stride int) bool {
		for _, op := range []string{"member", "nonmember"} {
			for i := 0; i < len(ts); i += stride {
				for j := 0; j < len(hs); j += stride {
					t, h := ts[i], hs[j]
					d := directCase{Kind: "direct", Op: op, ProcT: t[0], Now: t[1], DelayT: t[2], ProcH: h[0], H: h[1], DelayB: h[2]}
					if !done[d] {
						done[d] = true
						f.checkDirect(c, st, capLeft, d)
					}
				}
				if c.TimeUp() {
					return false
				}
			}
		}
		return true
	}
	if cross(times[:nt], heights[:nh], 7) && !c.Quick() {
		cross(times, heights, 3)
	}
}

// runCrossRevision repeats the enforcement grid (and the direct cases) on real chain pairs whose chain ids carry
// different revision numbers: verifying chain in revision rv, counterparty (proof heights) in revision rc.
// processedHeight and the verifier's own height are in revision rv, proof heights in revision rc; the oracle is
// unchanged: the block delay is counted on the verifying chain's own heights.
func runCrossRevision(c *core.C, st *bStats) {
	coord := ibctesting.NewCoordinator(c.T, 0)
	mk := func(id string) *ibctesting.TestChain {
		ch := ibctesting.NewTestChain(c.T, coord, id)
		coord.Chains[id] = ch
		return ch
	}
	revs := []uint64{1, 2, 3}
	var ver, cp []*ibctesting.TestChain
	for _, r := range revs {
		ver = append(ver, mk(fmt.Sprintf("verifier-%d", r)))
		cp = append(cp, mk(fmt.Sprintf("counterparty-%d", r)))
	}
	for vi, rv := range revs {
		for ci, rc := range revs {
			if c.TimeUp() {
				return
			}
			f := newFixtureOn(c, coord, cp[ci], ver[vi], fmt.Sprintf("xrev/v%d/c%d", rv, rc))
			if f == nil {
				return
			}
			if f.rev != rv || f.proofHeight.GetRevisionNumber() != rc || clienttypes.GetSelfHeight(f.b.GetContext()).GetRevisionNumber() != rv {
				c.Broken("cross-revision fixture has revisions self=%d proof=%s, wanted v=%d c=%d", f.rev, f.proofHeight, rv, rc)
				return
			}
			for _, via := range gridVias {
				g := gridCase{Kind: "grid", Via: via, Delay: 0, Max: 0, DH: f.baseH - f.procH, DT: f.baseNow - f.procT}
				if got, err := f.evalGrid(g); got != "accepted" {
					c.Broken("cross-revision fixture self-check v=%d c=%d: %s with zero delay: %s (%v)", rv, rc, via, got, err)
					return
				}
			}
			c.Hist("b_cross_revision_fixtures", fmt.Sprintf("verifier=%d/counterparty=%d", rv, rc))
			runGrid(c, f, st)
			if !c.Quick() || rv != rc {
				runDirect(c, f, st)
			}
		}
	}
	c.Sample(map[string]any{"part": "B cross-revision", "verifier_chain_ids": []string{"verifier-1", "verifier-2", "verifier-3"}, "counterparty_chain_ids": []string{"counterparty-1", "counterparty-2", "counterparty-3"}})
}

func runPartB(c *core.C) (st bStats) {
	st.distinct = map[string]bool{}
	f := newFixture(c)
	if f == nil {
		return st
	}
	// self-check: with no delay the real proofs verify in the base context through every entry point
	for _, via := range gridVias {
		g := gridCase{Kind: "grid", Via: via, Delay: 0, Max: 0, DH: f.baseH - f.procH, DT: f.baseNow - f.procT}
		if got, err := f.evalGrid(g); got != "accepted" {
			c.Broken("fixture self-check: %s with zero delay: %s (%v)", via, got, err)
			return st
		}
	}
	c.Sample(map[string]any{"part": "B", "processed_height": f.procH, "processed_time_ns": f.procT, "proof_height": f.proofHeight.String(), "next_block_height": f.baseH, "next_block_time_ns": f.baseNow})
	runGrid(c, f, &st)
	runE2EWrap(c, f, &st)
	runDirect(c, f, &st)
	runBlocks(c, f, &st)
	runCrossRevision(c, &st)
	return st
}

// ---------------------------------------------------------------------------------------

// fixtureForTag rebuilds the fixture a recorded case was evaluated on.
func fixtureForTag(c *core.C, tag string) *fixture {
	var rv, rc uint64
	if n, _ := fmt.Sscanf(tag, "xrev/v%d/c%d", &rv, &rc); n != 2 {
		return newFixture(c)
	}
	coord := ibctesting.NewCoordinator(c.T, 0)
	v := ibctesting.NewTestChain(c.T, coord, fmt.Sprintf("verifier-%d", rv))
	cp := ibctesting.NewTestChain(c.T, coord, fmt.Sprintf("counterparty-%d", rc))
	coord.Chains[v.ChainID], coord.Chains[cp.ChainID] = v, cp
	return newFixtureOn(c, coord, cp, v, tag)
}

func replay(c *core.C) {
	var kind struct {
		Kind string `json:"kind"`
	}
	if err := c.LoadReplay(&kind); err != nil {
		c.Broken("replay: %v", err)
		return
	}
	c.Set("rule", "replay of one recorded case")
	c.Set("distinct_nontrivial", 2)
	switch kind.Kind {
	case "pair":
		var pc pairCase
		_ = c.LoadReplay(&pc)
		st := aStats{capLeft: map[string]int{"under": 1 << 30, "over": 1 << 30}}
		newPartA(c).checkPair(c, &st, pc.Delay, pc.Max, true)
		c.Set("evaluations", st.evals)
		c.Sample(pc)
	case "grid":
		var g gridCase
		_ = c.LoadReplay(&g)
		st := bStats{distinct: map[string]bool{}}
		if f := fixtureForTag(c, g.Tag); f != nil {
			f.checkGrid(c, &st, g, f.tag)
		}
		c.Set("evaluations", st.evals)
		c.Sample(g)
	case "direct":
		var d directCase
		_ = c.LoadReplay(&d)
		st := bStats{distinct: map[string]bool{}}
		if f := fixtureForTag(c, d.Tag); f != nil {
			f.checkDirect(c, &st, map[string]int{d.Op + "/time-wrap": 1, d.Op + "/height-wrap": 1, d.Op + "/time+height-wrap": 1}, d)
		}
		c.Set("evaluations", st.evals)
		c.Sample(d)
	default:
		c.Broken("replay: unknown case kind %q", kind.Kind)
	}
}

func run(c *core.C) {
	if c.Replay != "" {
		replay(c)
		return
	}
	a := runPartA(c)
	b := runPartB(c)
	c.Set("evaluations", a.evals+b.evals)
	c.Set("distinct_nontrivial", a.nontrivial+b.nontrivial)
	c.Set("a_evaluations", a.evals)
	c.Set("b_evaluations", b.evals)
	c.Set("rule", "A: every (delay, maxExpectedTimePerBlock) pair of the 64-bit boundary lattice squared (plus realistic durations; thorough: all 2^k-1,2^k,2^k+1,3*2^(k-1) and values around multiples of 2^53), observed through the four packet verification functions; non-trivial = distinct pairs with max>1 and delay not a multiple of max (the ceiling rounds up). "+
		"B: real proof submitted at every (height,time) grid point >= the processed point for each (delay,max) through VerifyPacketCommitment, VerifyPacketReceiptAbsence and MsgRecvPacket, in real committed blocks, directly through the 07-tendermint module with processed time/height and delays up to 2^64-1, and the same grid and direct cases again on nine real chain pairs whose chain ids put the verifying chain in revision 1..3 and the counterparty in revision 1..3; non-trivial = distinct points with a non-zero delay")
	c.Assume("big.Int reference arithmetic is trusted")
	c.Assume("block time and height never decrease, so proofs are only submitted at now >= processedTime and height >= processedHeight; block times are < 2^63 ns")
	c.Assume("part A observes getBlockDelay only through the delayBlockPeriod argument handed to a recording light-client module registered with the real ClientKeeper.AddRoute")
	c.Assume("part B direct cases overwrite the processed time/height metadata of a real consensus state with SetProcessedTime/SetProcessedHeight on a branched context")
}
