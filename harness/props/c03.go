package props

import (
	"fmt"

	"verif/harness/core"
	"verif/harness/ksim"
)

// C03: at most one terminal outcome (ack | timeout) per sent packet, processed at most once.
func init() { core.Register("C03", "model_checking", runC03) }

func terminalCount(w *ksim.World, p plPkt) int {
	return countEv(w, 0, p.srcID(), p.Seq, "ack", "timeout", "ack2", "timeout2")
}

func c03Scenario(routes []int, nPkts, commits int, close bool, kinds []string, timeouts []int) *PL {
	sc := &PL{Routes: routes, MaxSend: nPkts, MaxCommits: commits, Stale: true, Acks: true, Timeouts: true, Close: close, DataKinds: kinds, TimeoutIn: timeouts}
	sc.InvFn = func(s *PL, w *ksim.World) *ksim.Fail {
		for _, p := range ext(w).Pkts {
			n := terminalCount(w, p)
			if n > 1 {
				return &ksim.Fail{Key: "two-terminal-outcomes/" + routeNames[p.Route], Text: fmt.Sprintf("packet %s/%d reached the sending application %d times with ack/timeout", p.srcID(), p.Seq, n)}
			}
			present := s.commitmentPresent(w, p)
			if present && n != 0 {
				return &ksim.Fail{Key: "commitment-survives-outcome/" + routeNames[p.Route], Text: fmt.Sprintf("packet %s/%d was acknowledged or timed out but its commitment is still stored", p.srcID(), p.Seq)}
			}
			if !present && n != 1 {
				return &ksim.Fail{Key: "commitment-gone-without-outcome/" + routeNames[p.Route], Text: fmt.Sprintf("packet %s/%d has no commitment but the application saw %d terminal callbacks", p.srcID(), p.Seq, n)}
			}
		}
		return nil
	}
	sc.StepFn = func(s *PL, pre *ksim.World, op ksim.Op, r ksim.Result, post *ksim.World) *ksim.Fail {
		if op.K != "ack" && op.K != "timeout" && op.K != "toclose" {
			return nil
		}
		p := ext(pre).Pkts[op.A[0]]
		if r.Class == ksim.NOOP {
			if same, d := storesUnchanged(pre, post, 0); !same {
				return &ksim.Fail{Key: "noop-changed-state/" + op.K, Text: fmt.Sprintf("%s answered NOOP but changed keys %q", op, d)}
			}
			if len(post.Obs) != len(pre.Obs) {
				return &ksim.Fail{Key: "noop-reached-app/" + op.K, Text: fmt.Sprintf("%s answered NOOP but reached the application", op)}
			}
		}
		if !s.commitmentPresent(pre, p) {
			// the packet already had its outcome: any further terminal relay must be a no-op
			if same, d := storesUnchanged(pre, post, 0); !same || len(post.Obs) != len(pre.Obs) {
				return &ksim.Fail{Key: "relay-after-outcome-had-effect/" + op.K, Text: fmt.Sprintf("%s for an already finished packet answered %s and changed %q / reached the application", op, r, d)}
			}
		}
		return nil
	}
	return sc
}

func runC03(c *core.C) {
	d := core.Pick(c, 0, 2)
	near := []int{1, 0}
	parts := []ksim.Part{
		{Name: "macro/v1-unordered", Sc: macro(c03Scenario([]int{rV1U}, 2, 3, true, []string{"ok"}, near)), Cfg: ksim.Config{MaxDepth: 7 + d}, Share: 0.15},
		{Name: "macro/v1-ordered", Sc: macro(c03Scenario([]int{rV1O}, 2, 3, true, []string{"ok"}, near)), Cfg: ksim.Config{MaxDepth: 7 + d}, Share: 0.18},
		{Name: "macro/v2-alias", Sc: macro(c03Scenario([]int{rV2A}, 2, 3, false, []string{"ok", "fail"}, near)), Cfg: ksim.Config{MaxDepth: 7 + d}, Share: 0.2},
		{Name: "macro/v2-client", Sc: macro(c03Scenario([]int{rV2C}, 2, 3, false, []string{"ok", "fail"}, near)), Cfg: ksim.Config{MaxDepth: 7 + d}, Share: 0.25},
		{Name: "macro/all-routes", Sc: macro(c03Scenario([]int{rV1U, rV1O, rV2A, rV2C}, 1, 3, true, []string{"ok"}, []int{1})), Cfg: ksim.Config{MaxDepth: 6 + d}, Share: 0.4},
		{Name: "micro/v1-unordered-stale", Sc: c03Scenario([]int{rV1U}, 1, 2, true, []string{"ok"}, near), Cfg: ksim.Config{MaxDepth: 8 + d}, Share: 0.5},
		{Name: "micro/v2-client-stale", Sc: c03Scenario([]int{rV2C}, 1, 2, false, []string{"ok"}, near), Cfg: ksim.Config{MaxDepth: 8 + d}},
	}
	ksim.RunParts(c, parts, [][]ksim.Op{
		{{K: "send", A: []int{0, 0, 1}}, {K: "commit", A: []int{1}}, {K: "commit", A: []int{1}}, {K: "update", A: []int{0, 14}}, {K: "timeout", A: []int{0, 14}}, {K: "timeout", A: []int{0, 14}}},
	})
	c.Set("alphabet", "send(timeout: next destination block | far) | commit(A|B) | update(either client) | recv | ack | timeout | timeout-on-close | close(B end); every relay with any of the 3 newest consensus heights, enabled forever")
	c.Assume("counterparty consensus, storage commit and validator signing are played by the harness; one message per transaction")
}
