package props

import (
	"fmt"

	sdk "github.com/cosmos/cosmos-sdk/types"

	clienttypes "github.com/cosmos/ibc-go/v11/modules/core/02-client/types"
	channeltypes "github.com/cosmos/ibc-go/v11/modules/core/04-channel/types"
	channeltypesv2 "github.com/cosmos/ibc-go/v11/modules/core/04-channel/v2/types"
	host "github.com/cosmos/ibc-go/v11/modules/core/24-host"
	hostv2 "github.com/cosmos/ibc-go/v11/modules/core/24-host/v2"
	"github.com/cosmos/ibc-go/v11/modules/core/exported"

	"verif/harness/core"
	"verif/harness/ksim"
)

// The mutation lattices of C05 (receive) and C06 (acknowledgement): in every explored state, for every
// in-flight packet and every stored consensus height, the honest relay message and every single-field
// mutant of it are delivered to a fork of the state.

type mutant struct {
	name string
	msg  sdk.Msg
	// mayVerify: the mutant is still a correct message (e.g. same proof at another height with the same
	// app hash); it is then only required to behave like the honest message.
	mayVerify bool
}

func bump(b []byte) []byte {
	out := append([]byte{}, b...)
	if len(out) == 0 {
		return []byte{1}
	}
	out[len(out)-1] ^= 1
	return out
}

func mutProofs(proof []byte, full bool) map[string][]byte {
	out := map[string][]byte{"proof-empty": {}, "proof-first-byte": bump(proof[:1]), "proof-truncated": proof[:len(proof)/2], "proof-extended": append(append([]byte{}, proof...), 0)}
	out["proof-first-byte"] = append(bump(proof[:1]), proof[1:]...)
	step := 97
	if full {
		step = 1
	}
	for i := 0; i < len(proof); i += step {
		m := append([]byte{}, proof...)
		m[i] ^= 0x01
		out[fmt.Sprintf("proof-bit@%d", i)] = m
		if full {
			m2 := append([]byte{}, proof...)
			m2[i] ^= 0x80
			out[fmt.Sprintf("proof-msb@%d", i)] = m2
		}
	}
	return out
}

// recvMutantsV1 lists the single-field mutants of an honest v1 MsgRecvPacket.
func recvMutantsV1(s *PL, w *ksim.World, p channeltypes.Packet, proof []byte, ph clienttypes.Height, full bool) []mutant {
	var out []mutant
	add := func(name string, q channeltypes.Packet, pr []byte, h clienttypes.Height) {
		out = append(out, mutant{name: name, msg: channeltypes.NewMsgRecvPacket(q, pr, h, ksim.Signer)})
	}
	q := p
	q.Data = bump(p.Data)
	add("data-flip", q, proof, ph)
	q = p
	q.Data = append(append([]byte{}, p.Data...), 0)
	add("data-extend", q, proof, ph)
	q = p
	q.Data = p.Data[:len(p.Data)-1]
	add("data-truncate", q, proof, ph)
	for _, dh := range []int64{-1, 1} {
		q = p
		q.TimeoutHeight = clienttypes.NewHeight(p.TimeoutHeight.RevisionNumber, uint64(int64(p.TimeoutHeight.RevisionHeight)+dh))
		add(fmt.Sprintf("timeout-height%+d", dh), q, proof, ph)
		q = p
		q.TimeoutTimestamp = uint64(int64(p.TimeoutTimestamp) + dh)
		if p.TimeoutTimestamp == 0 && dh < 0 {
			q.TimeoutTimestamp = 1 << 62
		}
		add(fmt.Sprintf("timeout-timestamp%+d", dh), q, proof, ph)
		q = p
		q.Sequence = uint64(int64(p.Sequence) + dh)
		add(fmt.Sprintf("sequence%+d", dh), q, proof, ph)
	}
	q = p
	q.TimeoutHeight = clienttypes.NewHeight(p.TimeoutHeight.RevisionNumber+1, p.TimeoutHeight.RevisionHeight)
	add("timeout-revision+1", q, proof, ph)
	// identifiers -> sibling identifiers that exist
	other := s.chO
	if p.SourceChannel == s.chO.ChanA {
		other = s.chU
	}
	q = p
	q.SourceChannel = other.ChanA
	add("source-channel-sibling", q, proof, ph)
	q = p
	q.DestinationChannel = other.ChanB
	add("dest-channel-sibling", q, proof, ph)
	q = p
	q.SourceChannel, q.DestinationChannel = other.ChanA, other.ChanB
	add("both-channels-sibling", q, proof, ph)
	q = p
	q.SourcePort = "transfer"
	add("source-port-other", q, proof, ph)
	q = p
	q.DestinationPort = "transfer"
	add("dest-port-other", q, proof, ph)
	for name, pr := range mutProofs(proof, full) {
		add(name, p, pr, ph)
	}
	// proofs of other keys at the same height
	if snap := w.SnapAt(0, int64(ph.RevisionHeight)); snap != nil {
		add("proof-of-next-sequence", p, snap.Proof("ibc", host.PacketCommitmentKey(p.SourcePort, p.SourceChannel, p.Sequence+1)), ph)
		add("proof-of-channel-end", p, snap.Proof("ibc", host.ChannelKey(p.SourcePort, p.SourceChannel)), ph)
		add("proof-of-v2-key", p, snap.Proof("ibc", hostv2.PacketCommitmentKey(p.SourceChannel, p.Sequence)), ph)
	}
	// other proof heights with the original proof
	for _, h := range append(w.ConsensusHeights(1, s.link.ClientB), clienttypes.NewHeight(ph.RevisionNumber, w.ClientLatest(1, s.link.ClientB).RevisionHeight+1), clienttypes.ZeroHeight()) {
		if h.EQ(ph) {
			continue
		}
		m := mutant{name: "proof-height-" + h.String(), msg: channeltypes.NewMsgRecvPacket(p, proof, h, ksim.Signer)}
		a, b := w.SnapAt(0, int64(ph.RevisionHeight)), w.SnapAt(0, int64(h.RevisionHeight))
		if a != nil && b != nil && string(a.AppHash) == string(b.AppHash) && w.HasConsensus(1, s.link.ClientB, h) {
			m.mayVerify = true
		}
		out = append(out, m)
	}
	return out
}

func recvMutantsV2(s *PL, w *ksim.World, p channeltypesv2.Packet, proof []byte, ph clienttypes.Height, full bool) []mutant {
	var out []mutant
	add := func(name string, q channeltypesv2.Packet, pr []byte, h clienttypes.Height) {
		out = append(out, mutant{name: name, msg: channeltypesv2.NewMsgRecvPacket(q, pr, h, ksim.Signer)})
	}
	clone := func() channeltypesv2.Packet {
		q := p
		q.Payloads = append([]channeltypesv2.Payload{}, p.Payloads...)
		return q
	}
	for _, d := range []int64{-1, 1} {
		q := clone()
		q.Sequence = uint64(int64(p.Sequence) + d)
		add(fmt.Sprintf("sequence%+d", d), q, proof, ph)
		q = clone()
		q.TimeoutTimestamp = uint64(int64(p.TimeoutTimestamp) + d)
		add(fmt.Sprintf("timeout%+d", d), q, proof, ph)
	}
	otherSrc, otherDst := s.v2IDs(rV2A)
	if p.SourceClient == otherSrc {
		otherSrc, otherDst = s.v2IDs(rV2C)
	}
	q := clone()
	q.SourceClient = otherSrc
	add("source-client-sibling", q, proof, ph)
	q = clone()
	q.DestinationClient = otherDst
	add("dest-client-sibling", q, proof, ph)
	q = clone()
	q.SourceClient, q.DestinationClient = otherSrc, otherDst
	add("both-clients-sibling", q, proof, ph)
	for i := range p.Payloads {
		q = clone()
		q.Payloads[i].Value = bump(p.Payloads[i].Value)
		add(fmt.Sprintf("payload%d-value", i), q, proof, ph)
		q = clone()
		q.Payloads[i].Version += "x"
		add(fmt.Sprintf("payload%d-version", i), q, proof, ph)
		q = clone()
		q.Payloads[i].Encoding += "x"
		add(fmt.Sprintf("payload%d-encoding", i), q, proof, ph)
		q = clone()
		q.Payloads[i].SourcePort, q.Payloads[i].DestinationPort = q.Payloads[i].DestinationPort, q.Payloads[i].SourcePort
		add(fmt.Sprintf("payload%d-ports-swapped", i), q, proof, ph)
		q = clone()
		q.Payloads[i].DestinationPort = q.Payloads[i].SourcePort
		add(fmt.Sprintf("payload%d-dest-port", i), q, proof, ph)
	}
	if len(p.Payloads) > 1 {
		// multi-payload packets: a family of 512 forged values per payload position (a commitment that binds a
		// payload by only a few bits is found by one of them)
		for i := range p.Payloads {
			for k := 0; k < 512; k++ {
				q = clone()
				q.Payloads[i].Value = []byte(fmt.Sprintf("forged-%d", k))
				add(fmt.Sprintf("payload%d-forged@%d", i, k), q, proof, ph)
			}
		}
	}
	q = clone()
	q.Payloads = append(q.Payloads, p.Payloads[0])
	add("payload-added", q, proof, ph)
	if len(p.Payloads) > 1 {
		q = clone()
		q.Payloads = q.Payloads[:len(q.Payloads)-1]
		add("payload-dropped", q, proof, ph)
		q = clone()
		q.Payloads[0], q.Payloads[1] = q.Payloads[1], q.Payloads[0]
		add("payloads-reordered", q, proof, ph)
	}
	for name, pr := range mutProofs(proof, full) {
		add(name, p, pr, ph)
	}
	if snap := w.SnapAt(0, int64(ph.RevisionHeight)); snap != nil {
		add("proof-of-next-sequence", p, snap.Proof("ibc", hostv2.PacketCommitmentKey(p.SourceClient, p.Sequence+1)), ph)
		add("proof-of-other-client-key", p, snap.Proof("ibc", hostv2.PacketCommitmentKey(otherSrc, p.Sequence)), ph)
	}
	for _, h := range append(w.ConsensusHeights(1, s.link.ClientB), clienttypes.NewHeight(ph.RevisionNumber, w.ClientLatest(1, s.link.ClientB).RevisionHeight+1), clienttypes.ZeroHeight()) {
		if h.EQ(ph) {
			continue
		}
		m := mutant{name: "proof-height-" + h.String(), msg: channeltypesv2.NewMsgRecvPacket(p, proof, h, ksim.Signer)}
		a, b := w.SnapAt(0, int64(ph.RevisionHeight)), w.SnapAt(0, int64(h.RevisionHeight))
		if a != nil && b != nil && string(a.AppHash) == string(b.AppHash) && w.HasConsensus(1, s.link.ClientB, h) {
			m.mayVerify = true
		}
		out = append(out, m)
	}
	return out
}

func respIsNoop(msg sdk.Msg, r ksim.Result) bool {
	if r.Class != ksim.OK {
		return false
	}
	switch msg.(type) {
	case *channeltypes.MsgRecvPacket:
		var resp channeltypes.MsgRecvPacketResponse
		return resp.Unmarshal(r.Resp) == nil && resp.Result == channeltypes.NOOP
	case *channeltypes.MsgAcknowledgement:
		var resp channeltypes.MsgAcknowledgementResponse
		return resp.Unmarshal(r.Resp) == nil && resp.Result == channeltypes.NOOP
	case *channeltypesv2.MsgRecvPacket:
		var resp channeltypesv2.MsgRecvPacketResponse
		return resp.Unmarshal(r.Resp) == nil && resp.Result == channeltypesv2.NOOP
	case *channeltypesv2.MsgAcknowledgement:
		var resp channeltypesv2.MsgAcknowledgementResponse
		return resp.Unmarshal(r.Resp) == nil && resp.Result == channeltypesv2.NOOP
	}
	return false
}

// recvLattice evaluates the receive lattice in state w; it returns the first failure.
func recvLattice(c *core.C, s *PL, w *ksim.World, full *bool) *ksim.Fail {
	kb := w.W.Chains[1].App.IBCKeeper
	ctxB := w.CS[1].Ctx
	status := kb.ClientKeeper.GetClientStatus(ctxB, s.link.ClientB)
	for _, p := range ext(w).Pkts {
		for _, phh := range w.ConsensusHeights(1, s.link.ClientB) {
			snap := w.SnapAt(0, int64(phh.RevisionHeight))
			if snap == nil {
				continue
			}
			// reference predicate for the honest message, from the destination's and the source's own records
			var key []byte
			var commit []byte
			var received, open, notExpired bool
			hB, tB := uint64(w.CS[1].H()), uint64(w.CS[1].TimeNs())
			if p.isV2() {
				key = hostv2.PacketCommitmentKey(p.V2.SourceClient, p.Seq)
				commit = channeltypesv2.CommitPacket(p.V2)
				received = kb.ChannelKeeperV2.HasPacketReceipt(ctxB, p.V2.DestinationClient, p.Seq)
				open = true
				notExpired = tB/1e9 < p.V2.TimeoutTimestamp
			} else {
				key = host.PacketCommitmentKey(p.V1.SourcePort, p.V1.SourceChannel, p.Seq)
				commit = channeltypes.CommitPacket(p.V1)
				ch, _ := kb.ChannelKeeper.GetChannel(ctxB, p.V1.DestinationPort, p.V1.DestinationChannel)
				open = ch.State == channeltypes.OPEN
				if ch.Ordering == channeltypes.ORDERED {
					next, _ := kb.ChannelKeeper.GetNextSequenceRecv(ctxB, p.V1.DestinationPort, p.V1.DestinationChannel)
					received = p.Seq < next
					if p.Seq > next {
						open = false // out of order: must be rejected
					}
				} else {
					_, received = kb.ChannelKeeper.GetPacketReceipt(ctxB, p.V1.DestinationPort, p.V1.DestinationChannel, p.Seq)
				}
				th, tt := p.V1.TimeoutHeight, p.V1.TimeoutTimestamp
				notExpired = (th.IsZero() || hB < th.RevisionHeight) && (tt == 0 || tB < tt)
			}
			committed := string(snap.Get("ibc", key)) == string(commit)
			wantOK := committed && open && status == exported.Active && notExpired && !received
			proof := snap.Proof("ibc", key)
			var honest sdk.Msg
			if p.isV2() {
				honest = channeltypesv2.NewMsgRecvPacket(p.V2, proof, phh, ksim.Signer)
			} else {
				honest = channeltypes.NewMsgRecvPacket(p.V1, proof, phh, ksim.Signer)
			}
			f := w.Fork()
			hr := f.Tx(1, honest)
			c.Add("honest_messages", 1)
			success := hr.Class == ksim.OK && !respIsNoop(honest, hr)
			if success != wantOK {
				return &ksim.Fail{Key: fmt.Sprintf("honest-recv-mismatch/%s/want=%v", routeNames[p.Route], wantOK), Text: fmt.Sprintf("receive of %s/%d at proof height %s answered %s, reference predicate says accept=%v (committed=%v open=%v client=%s notExpired=%v received=%v)", p.destID(), p.Seq, phh, hr, wantOK, committed, open, status, notExpired, received)}
			}
			if !success {
				if same, d := storesUnchanged(w, f, 1); !same {
					return &ksim.Fail{Key: "rejected-recv-changed-state/" + routeNames[p.Route], Text: fmt.Sprintf("rejected receive of %s/%d changed %q", p.destID(), p.Seq, d)}
				}
			}
			if !committed {
				continue // mutants of a message without a proven commitment are all hopeless; covered by the honest case
			}
			c.Hist("honest_recv_outcome", fmt.Sprintf("%s:%v", routeNames[p.Route], success))
			var muts []mutant
			doFull := success && !*full
			if p.isV2() {
				muts = recvMutantsV2(s, w, p.V2, proof, phh, doFull)
			} else {
				muts = recvMutantsV1(s, w, p.V1, proof, phh, doFull)
			}
			if doFull {
				*full = true
			}
			for _, m := range muts {
				g := w.Fork()
				nObs := len(g.Obs)
				r := g.Tx(1, m.msg)
				c.Add("mutants", 1)
				c.Hist("mutant_classes", string(r.Class))
				ok := r.Class == ksim.OK && !respIsNoop(m.msg, r)
				if m.mayVerify {
					if ok != success {
						return &ksim.Fail{Key: "equivalent-height-mismatch/" + routeNames[p.Route], Text: fmt.Sprintf("mutant %s (same root at another stored height) answered %s, honest answered %s", m.name, r, hr)}
					}
					continue
				}
				if ok {
					return &ksim.Fail{Key: fmt.Sprintf("mutant-accepted/%s/%s", routeNames[p.Route], mutClass(m.name)), Text: fmt.Sprintf("altered receive (%s) of %s/%d at proof height %s was accepted", m.name, p.destID(), p.Seq, phh)}
				}
				if same, d := storesUnchanged(w, g, 1); !same || len(g.Obs) != nObs {
					return &ksim.Fail{Key: fmt.Sprintf("mutant-changed-state/%s/%s", routeNames[p.Route], mutClass(m.name)), Text: fmt.Sprintf("altered receive (%s) answered %s but changed %q", m.name, r, d)}
				}
			}
		}
	}
	return nil
}

// mutClass strips positions so that violation keys are stable classes.
func mutClass(name string) string {
	for i, ch := range name {
		if ch == '@' {
			return name[:i]
		}
	}
	if len(name) > 13 && name[:13] == "proof-height-" {
		return "proof-height"
	}
	return name
}
