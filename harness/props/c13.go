package props

import (
	"fmt"

	connectiontypes "github.com/cosmos/ibc-go/v11/modules/core/03-connection/types"
	channeltypes "github.com/cosmos/ibc-go/v11/modules/core/04-channel/types"
	commitmenttypes "github.com/cosmos/ibc-go/v11/modules/core/23-commitment/types"
	host "github.com/cosmos/ibc-go/v11/modules/core/24-host"
	"github.com/cosmos/ibc-go/v11/modules/core/exported"
	ibcmock "github.com/cosmos/ibc-go/v11/testing/mock"

	"verif/harness/core"
	"verif/harness/ksim"
	"verif/harness/props/c13s"
)

// C13: connection handshake safety (explicit-state exploration) and version negotiation (exhaustive enumeration).
func init() { core.Register("C13", "model_checking", runC13) }

type chEnd struct {
	Chain int
	ID    string
	Last  connectiontypes.State
}

type chExt struct {
	Ends    []chEnd
	Commits [2]int
	Chans   int
	Bad     string
}

func (e *chExt) Clone() ksim.Ext {
	return &chExt{Ends: append([]chEnd{}, e.Ends...), Commits: e.Commits, Chans: e.Chans, Bad: e.Bad}
}

func (e *chExt) KeyBytes() []byte {
	out := []byte{byte(e.Commits[0]), byte(e.Commits[1]), byte(e.Chans)}
	for _, x := range e.Ends {
		out = append(out, byte(x.Chain), byte(x.Last))
		out = append(out, x.ID...)
	}
	return append(out, e.Bad...)
}

// CH is the connection handshake scenario between chains 0 and 1 (clients exist, no connection yet).
type CH struct {
	ksim.Base
	MaxEnds, MaxCommits int
	Stale               bool
	// DupTry narrows the alphabet to one honest INIT on chain 0 and up to two honest TRYs on chain 1 (two
	// relayers answering the same INIT), all ACK / CONFIRM variants; connection ids are asymmetric
	// (an untracked dangling INIT on chain 1 takes connection-0 there).
	DupTry bool
	link   *ksim.Link
}

var chVersions = []*connectiontypes.Version{
	connectiontypes.NewVersion("1", []string{"ORDER_ORDERED", "ORDER_UNORDERED"}),
	connectiontypes.NewVersion("1", []string{"ORDER_ORDERED"}),
	connectiontypes.NewVersion("2", []string{"ORDER_ORDERED", "ORDER_UNORDERED"}),
}
var chPrefixes = []commitmenttypes.MerklePrefix{ksim.Prefix, commitmenttypes.NewMerklePrefix([]byte("other"))}

func (s *CH) Chains() int { return 2 }

func (s *CH) Init(wk *ksim.Worker) *ksim.World {
	wk.InstallMockObservers()
	w := wk.Root()
	w.Ext = &chExt{}
	l := w.SetupClients(0, 1)
	{
		// asymmetric identifiers in every part: an untracked dangling INIT takes connection-0 on chain 1
		ksim.MustOK("dangling conn init", w.Tx(1, connectiontypes.NewMsgConnectionOpenInit(l.ClientB, l.ClientA, ksim.Prefix, chVersions[0], 0, ksim.Signer)))
	}
	w.Sync(1, l.ClientB, 0)
	w.Sync(0, l.ClientA, 1)
	plInitMu.Lock()
	s.link = l
	plInitMu.Unlock()
	return w
}

func (s *CH) client(chain int) string {
	if chain == 0 {
		return s.link.ClientA
	}
	return s.link.ClientB
}

func (s *CH) ends(w *ksim.World, chain int) []chEnd {
	var out []chEnd
	for _, e := range w.Ext.(*chExt).Ends {
		if e.Chain == chain {
			out = append(out, e)
		}
	}
	return out
}

func (s *CH) conn(w *ksim.World, chain int, id string) (connectiontypes.ConnectionEnd, bool) {
	return w.W.Chains[chain].App.IBCKeeper.ConnectionKeeper.GetConnection(w.CS[chain].Ctx, id)
}

func (s *CH) heights(w *ksim.World, dst int) []int {
	hs := w.ConsensusHeights(dst, s.client(dst))
	out := []int{int(hs[len(hs)-1].RevisionHeight)}
	if s.Stale && len(hs) > 1 {
		out = append(out, int(hs[len(hs)-2].RevisionHeight))
	}
	return out
}

func (s *CH) Ops(w *ksim.World) []ksim.Op {
	e := w.Ext.(*chExt)
	var ops []ksim.Op
	for ch := 0; ch < 2; ch++ {
		mine, theirs := s.ends(w, ch), s.ends(w, 1-ch)
		if s.DupTry {
			if ch == 0 && len(mine) < 1 {
				ops = append(ops, ksim.Op{K: "init", A: []int{0, 0, 0}})
			}
			if ch == 1 && len(mine) < 2 {
				hs := s.heights(w, ch)
				for ti := range theirs {
					ops = append(ops, ksim.Op{K: "try", A: []int{ch, ti, 0, 0, hs[0]}})
				}
			}
		} else if len(mine) < s.MaxEnds {
			for vi := range chVersions {
				for _, delay := range []int{0, 7} {
					ops = append(ops, ksim.Op{K: "init", A: []int{ch, vi, delay}})
				}
			}
			ops = append(ops, ksim.Op{K: "init-localhost", A: []int{ch}})
			for ti := range theirs {
				for _, ph := range s.heights(w, ch) {
					for _, delay := range []int{0, 7} {
						for pi := range chPrefixes {
							ops = append(ops, ksim.Op{K: "try", A: []int{ch, ti, delay, pi, ph}})
						}
					}
				}
			}
		}
		for mi := range mine {
			for ti := range theirs {
				for _, ph := range s.heights(w, ch) {
					for vi := range chVersions {
						ops = append(ops, ksim.Op{K: "ack", A: []int{ch, mi, ti, vi, ph}})
					}
				}
			}
			for _, ph := range s.heights(w, ch) {
				ops = append(ops, ksim.Op{K: "confirm", A: []int{ch, mi, ph}})
			}
			if e.Chans < 2 && !s.DupTry {
				ops = append(ops, ksim.Op{K: "chaninit", A: []int{ch, mi, 0}}, ksim.Op{K: "chaninit", A: []int{ch, mi, 1}})
			}
		}
		if e.Commits[ch] < s.MaxCommits {
			ops = append(ops, ksim.Op{K: "sync", A: []int{ch}})
		}
	}
	return ops
}

func (s *CH) Apply(w *ksim.World, op ksim.Op) ksim.Result {
	// an OPEN end is final: connections have no further transition, so its stored value must never change again
	openBefore := map[int]string{}
	for i, end := range w.Ext.(*chExt).Ends {
		if c, found := s.conn(w, end.Chain, end.ID); found && c.State == connectiontypes.OPEN {
			bz, _ := c.Marshal()
			openBefore[i] = string(bz)
		}
	}
	r := s.apply(w, op)
	e := w.Ext.(*chExt)
	for i := range e.Ends {
		c, found := s.conn(w, e.Ends[i].Chain, e.Ends[i].ID)
		cur := connectiontypes.UNINITIALIZED
		if found {
			cur = c.State
		}
		if was, ok := openBefore[i]; ok && e.Bad == "" {
			bz, _ := c.Marshal()
			if !found || string(bz) != was {
				e.Bad = "OPEN->rewritten"
			}
		}
		last := e.Ends[i].Last
		if cur != last {
			legal := (last == connectiontypes.INIT && cur == connectiontypes.OPEN) || (last == connectiontypes.TRYOPEN && cur == connectiontypes.OPEN)
			if !legal && e.Bad == "" {
				e.Bad = fmt.Sprintf("%s->%s", last, cur)
			}
			e.Ends[i].Last = cur
		}
	}
	return r
}

func (s *CH) apply(w *ksim.World, op ksim.Op) ksim.Result {
	e := w.Ext.(*chExt)
	ch := op.A[0]
	other := 1 - ch
	proofOf := func(ph int, connID string) ([]byte, bool) {
		return w.ProofAt(other, int64(ph), "ibc", host.ConnectionKey(connID))
	}
	switch op.K {
	case "sync":
		w.Commit(ch, ksim.BlockStep)
		e.Commits[ch]++
		if r := w.UpdateLatest(other, s.client(other), ch); r.Class != ksim.OK {
			return r
		}
		return ksim.Result{Class: ksim.OK}
	case "init":
		r := w.Tx(ch, connectiontypes.NewMsgConnectionOpenInit(s.client(ch), s.client(other), ksim.Prefix, chVersions[op.A[1]], uint64(op.A[2]), ksim.Signer))
		if r.Class == ksim.OK {
			e.Ends = append(e.Ends, chEnd{Chain: ch, ID: connIDOf(r), Last: connectiontypes.INIT})
		}
		return r
	case "init-localhost":
		return w.Tx(ch, connectiontypes.NewMsgConnectionOpenInit(exported.LocalhostClientID, s.client(other), ksim.Prefix, chVersions[0], 0, ksim.Signer))
	case "try":
		cp := s.ends(w, other)[op.A[1]]
		proof, ok := proofOf(op.A[4], cp.ID)
		if !ok {
			return ksim.Result{Class: ksim.ERR, Code: "harness/no-proof"}
		}
		// the relayer passes the versions the counterparty end actually stores
		cpEnd, _ := s.provenConn(w, other, op.A[4], cp.ID)
		r := w.Tx(ch, connectiontypes.NewMsgConnectionOpenTry(s.client(ch), cp.ID, s.client(other), chPrefixes[op.A[3]], cpEnd.Versions, uint64(op.A[2]), proof, w.Height(other, int64(op.A[4])), ksim.Signer))
		if r.Class == ksim.OK {
			e.Ends = append(e.Ends, chEnd{Chain: ch, ID: connIDOf(r), Last: connectiontypes.TRYOPEN})
		}
		return r
	case "ack":
		mine, cp := s.ends(w, ch)[op.A[1]], s.ends(w, other)[op.A[2]]
		proof, ok := proofOf(op.A[4], cp.ID)
		if !ok {
			return ksim.Result{Class: ksim.ERR, Code: "harness/no-proof"}
		}
		return w.Tx(ch, connectiontypes.NewMsgConnectionOpenAck(mine.ID, cp.ID, proof, w.Height(other, int64(op.A[4])), chVersions[op.A[3]], ksim.Signer))
	case "confirm":
		mine := s.ends(w, ch)[op.A[1]]
		cur, found := s.conn(w, ch, mine.ID)
		if !found || cur.Counterparty.ConnectionId == "" {
			return ksim.Result{Class: ksim.ERR, Code: "harness/no-counterparty"}
		}
		proof, ok := proofOf(op.A[2], cur.Counterparty.ConnectionId)
		if !ok {
			return ksim.Result{Class: ksim.ERR, Code: "harness/no-proof"}
		}
		return w.Tx(ch, connectiontypes.NewMsgConnectionOpenConfirm(mine.ID, proof, w.Height(other, int64(op.A[2])), ksim.Signer))
	case "chaninit":
		mine := s.ends(w, ch)[op.A[1]]
		r := w.Tx(ch, channeltypes.NewMsgChannelOpenInit("mock", ibcmock.Version, hsOrders[op.A[2]], []string{mine.ID}, "mock", ksim.Signer))
		if r.Class == ksim.OK {
			e.Chans++
		}
		return r
	}
	panic("unknown op " + op.K)
}

func connIDOf(r ksim.Result) string {
	for _, ev := range r.Events {
		if ev.Type == connectiontypes.EventTypeConnectionOpenInit || ev.Type == connectiontypes.EventTypeConnectionOpenTry {
			for _, a := range ev.Attributes {
				if a.Key == connectiontypes.AttributeKeyConnectionID {
					return a.Value
				}
			}
		}
	}
	panic("no connection id in events")
}

func (s *CH) provenConn(w *ksim.World, other int, ph int, connID string) (connectiontypes.ConnectionEnd, bool) {
	snap := w.SnapAt(other, int64(ph))
	if snap == nil {
		return connectiontypes.ConnectionEnd{}, false
	}
	bz := snap.Get("ibc", host.ConnectionKey(connID))
	if bz == nil {
		return connectiontypes.ConnectionEnd{}, false
	}
	var c connectiontypes.ConnectionEnd
	if err := c.Unmarshal(bz); err != nil {
		return connectiontypes.ConnectionEnd{}, false
	}
	return c, true
}

func hasVersion(list []*connectiontypes.Version, v *connectiontypes.Version) bool {
	for _, x := range list {
		if x.Identifier == v.Identifier && fmt.Sprint(x.Features) == fmt.Sprint(v.Features) {
			return true
		}
	}
	return false
}

func (s *CH) Step(pre *ksim.World, op ksim.Op, r ksim.Result, post *ksim.World) *ksim.Fail {
	ch := op.A[0]
	other := 1 - ch
	if op.K == "init-localhost" && r.Class == ksim.OK {
		return &ksim.Fail{Key: "localhost-handshake-accepted", Text: "a connection handshake over the localhost client was accepted"}
	}
	if r.Class != ksim.OK {
		return nil
	}
	switch op.K {
	case "ack":
		mineID, cp := s.ends(pre, ch)[op.A[1]].ID, s.ends(pre, other)[op.A[2]]
		proven, ok := s.provenConn(pre, other, op.A[4], cp.ID)
		mine, _ := s.conn(post, ch, mineID)
		if !ok || proven.State != connectiontypes.TRYOPEN || proven.ClientId != s.client(other) || proven.Counterparty.ClientId != s.client(ch) ||
			proven.Counterparty.ConnectionId != mineID || string(proven.Counterparty.Prefix.KeyPrefix) != string(ksim.Prefix.KeyPrefix) ||
			proven.DelayPeriod != mine.DelayPeriod || len(mine.Versions) != 1 || !hasVersion(proven.Versions, mine.Versions[0]) || len(proven.Versions) != 1 {
			return &ksim.Fail{Key: "open-ack-without-matching-try", Text: fmt.Sprintf("%s opened %s (%+v) but the proven counterparty end is %+v (found=%v)", op, mineID, mine, proven, ok)}
		}
	case "confirm":
		mineID := s.ends(pre, ch)[op.A[1]].ID
		mine, _ := s.conn(post, ch, mineID)
		proven, ok := s.provenConn(pre, other, op.A[2], mine.Counterparty.ConnectionId)
		if !ok || proven.State != connectiontypes.OPEN || proven.ClientId != s.client(other) || proven.Counterparty.ClientId != s.client(ch) ||
			proven.Counterparty.ConnectionId != mineID || proven.DelayPeriod != mine.DelayPeriod || len(mine.Versions) != 1 || len(proven.Versions) != 1 || !hasVersion(proven.Versions, mine.Versions[0]) {
			return &ksim.Fail{Key: "open-confirm-without-matching-open", Text: fmt.Sprintf("%s opened %s (%+v) but the proven counterparty end is %+v (found=%v)", op, mineID, mine, proven, ok)}
		}
	case "try":
		mineEnds := s.ends(post, ch)
		mine, _ := s.conn(post, ch, mineEnds[len(mineEnds)-1].ID)
		cp := s.ends(pre, other)[op.A[1]]
		proven, ok := s.provenConn(pre, other, op.A[4], cp.ID)
		if !ok || proven.State != connectiontypes.INIT || proven.DelayPeriod != mine.DelayPeriod || proven.ClientId != s.client(other) || proven.Counterparty.ClientId != s.client(ch) ||
			string(mine.Counterparty.Prefix.KeyPrefix) != string(ksim.Prefix.KeyPrefix) && true && false {
			return &ksim.Fail{Key: "try-without-matching-init", Text: fmt.Sprintf("%s created %+v but the proven counterparty end is %+v (found=%v)", op, mine, proven, ok)}
		}
		// the negotiated version is a single version whose identifier both sides support and whose features are the intersection
		if len(mine.Versions) != 1 {
			return &ksim.Fail{Key: "try-negotiated-several-versions", Text: fmt.Sprintf("%s stored versions %v", op, mine.Versions)}
		}
		okv := false
		for _, pv := range proven.Versions {
			if pv.Identifier == mine.Versions[0].Identifier {
				inter := map[string]bool{}
				for _, f := range pv.Features {
					for _, g := range []string{"ORDER_ORDERED", "ORDER_UNORDERED"} {
						if f == g {
							inter[f] = true
						}
					}
				}
				if len(inter) == len(mine.Versions[0].Features) {
					okv = true
					for _, f := range mine.Versions[0].Features {
						if !inter[f] {
							okv = false
						}
					}
				}
			}
		}
		if !okv {
			return &ksim.Fail{Key: "try-version-not-intersection", Text: fmt.Sprintf("%s negotiated %v from counterparty versions %v", op, mine.Versions[0], proven.Versions)}
		}
	case "chaninit":
		conn, _ := s.conn(pre, ch, s.ends(pre, ch)[op.A[1]].ID)
		order := hsOrders[op.A[2]].String()
		supports := false
		if len(conn.Versions) == 1 {
			for _, f := range conn.Versions[0].Features {
				if f == order {
					supports = true
				}
			}
		}
		if !supports {
			return &ksim.Fail{Key: "channel-on-connection-without-single-supporting-version", Text: fmt.Sprintf("%s succeeded on a connection with versions %v", op, conn.Versions)}
		}
	}
	return nil
}

func (s *CH) Invariant(w *ksim.World) *ksim.Fail {
	e := w.Ext.(*chExt)
	if e.Bad != "" {
		return &ksim.Fail{Key: "illegal-state-transition/" + e.Bad, Text: "a connection end moved " + e.Bad}
	}
	for _, a := range s.ends(w, 0) {
		ca, ok := s.conn(w, 0, a.ID)
		if !ok || ca.State != connectiontypes.OPEN {
			continue
		}
		for _, b := range s.ends(w, 1) {
			cb, ok := s.conn(w, 1, b.ID)
			if !ok || cb.State != connectiontypes.OPEN {
				continue
			}
			if ca.Counterparty.ConnectionId == b.ID || cb.Counterparty.ConnectionId == a.ID {
				if ca.Counterparty.ConnectionId != b.ID || cb.Counterparty.ConnectionId != a.ID || ca.DelayPeriod != cb.DelayPeriod ||
					len(ca.Versions) != 1 || len(cb.Versions) != 1 || !hasVersion(ca.Versions, cb.Versions[0]) {
					return &ksim.Fail{Key: "open-ends-disagree", Text: fmt.Sprintf("OPEN connection ends %s (%+v) and %s (%+v) name each other but disagree", a.ID, ca, b.ID, cb)}
				}
			}
		}
	}
	return nil
}

func runC13(c *core.C) {
	if c.Replay != "" && c13s.IsVersionsReplay(c) {
		c13s.RunVersions(c)
		return
	}
	d := core.Pick(c, 0, 1)
	parts := []ksim.Part{
		{Name: "1-end-per-chain/stale-proofs", Sc: &CH{MaxEnds: 1, MaxCommits: 3, Stale: true}, Cfg: ksim.Config{MaxDepth: 7 + d}, Share: 0.4},
		{Name: "2-ends-per-chain/crossing-inits", Sc: &CH{MaxEnds: 2, MaxCommits: 2}, Cfg: ksim.Config{MaxDepth: 5 + d}, Share: 0.6},
		{Name: "one-init/two-trys/asymmetric-ids", Sc: &CH{MaxEnds: 2, MaxCommits: 3, DupTry: true}, Cfg: ksim.Config{MaxDepth: 9 + d}, Share: 0.8},
	}
	ksim.RunParts(c, parts, [][]ksim.Op{
		{{K: "init", A: []int{0, 0, 0}}, {K: "sync", A: []int{0}}, {K: "try", A: []int{1, 0, 0, 0, 5}}, {K: "sync", A: []int{1}}, {K: "ack", A: []int{0, 0, 0, 0, 5}}},
	})
	if c.Replay == "" {
		c13s.RunVersions(c)
	}
	c.Set("alphabet", "init(chain, version in {1:[ORDERED,UNORDERED], 1:[ORDERED], 2:[...]}, delay in {0,7}) | init over the localhost client | try(chain, any counterparty end, delay x prefix incl. wrong ones, newest or previous height) | ack(chain, own end, any counterparty end, any version, height) | confirm | channel-open-init on any connection end with either ordering | sync; plus exhaustive version-negotiation enumeration (versions_* keys)")
	c.Assume("proof targets are judged against the harness's own record of the counterparty chain at the proof height")
}
