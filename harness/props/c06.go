package props

import (
	"fmt"
	"strings"

	sdk "github.com/cosmos/cosmos-sdk/types"

	clienttypes "github.com/cosmos/ibc-go/v11/modules/core/02-client/types"
	channeltypes "github.com/cosmos/ibc-go/v11/modules/core/04-channel/types"
	channeltypesv2 "github.com/cosmos/ibc-go/v11/modules/core/04-channel/v2/types"
	host "github.com/cosmos/ibc-go/v11/modules/core/24-host"
	hostv2 "github.com/cosmos/ibc-go/v11/modules/core/24-host/v2"
	"github.com/cosmos/ibc-go/v11/modules/core/exported"

	"verif/harness/core"
	"verif/harness/ksim"
)

// C06: acknowledgements are processed only if proven for that exact packet — mutation lattice over reachable states.
func init() { core.Register("C06", "model_checking", runC06) }

func ackMutantsV1(s *PL, w *ksim.World, p channeltypes.Packet, ack, proof []byte, ph clienttypes.Height) []mutant {
	var out []mutant
	add := func(name string, q channeltypes.Packet, a, pr []byte, h clienttypes.Height) {
		if string(a) == string(ack) && string(pr) == string(proof) && h.EQ(ph) && q.String() == p.String() {
			return // identical to the honest message (e.g. error acknowledgements are code-only, so two error acks coincide)
		}
		out = append(out, mutant{name: name, msg: channeltypes.NewMsgAcknowledgement(q, a, pr, h, ksim.Signer)})
	}
	add("ack-flip", p, bump(ack), proof, ph)
	add("ack-extended", p, append(append([]byte{}, ack...), ' '), proof, ph)
	add("ack-truncated", p, ack[:len(ack)-1], proof, ph)
	add("ack-noncanonical-json", p, []byte(strings.Replace(string(ack), ":", ": ", 1)), proof, ph)
	add("ack-other-result", p, channeltypes.NewResultAcknowledgement([]byte("other")).Acknowledgement(), proof, ph)
	add("ack-error-instead", p, channeltypes.NewErrorAcknowledgement(fmt.Errorf("x")).Acknowledgement(), proof, ph)
	q := p
	q.Data = bump(p.Data)
	add("data-flip", q, ack, proof, ph)
	for _, d := range []int64{-1, 1} {
		q = p
		q.Sequence = uint64(int64(p.Sequence) + d)
		add(fmt.Sprintf("sequence%+d", d), q, ack, proof, ph)
		q = p
		q.TimeoutHeight = clienttypes.NewHeight(p.TimeoutHeight.RevisionNumber, uint64(int64(p.TimeoutHeight.RevisionHeight)+d))
		add(fmt.Sprintf("timeout-height%+d", d), q, ack, proof, ph)
		q = p
		q.TimeoutTimestamp = p.TimeoutTimestamp + 1 + uint64(d+1)
		add(fmt.Sprintf("timeout-timestamp%+d", d), q, ack, proof, ph)
	}
	other := s.chO
	if p.SourceChannel == s.chO.ChanA {
		other = s.chU
	}
	q = p
	q.SourceChannel = other.ChanA
	add("source-channel-sibling", q, ack, proof, ph)
	q = p
	q.DestinationChannel = other.ChanB
	add("dest-channel-sibling", q, ack, proof, ph)
	q = p
	q.DestinationPort = "transfer"
	add("dest-port-other", q, ack, proof, ph)
	for name, pr := range mutProofs(proof, false) {
		add(name, p, ack, pr, ph)
	}
	if snap := w.SnapAt(1, int64(ph.RevisionHeight)); snap != nil {
		// a valid proof of ANOTHER sequence's acknowledgement (or of its absence)
		add("proof-of-other-sequence-ack", p, ack, snap.Proof("ibc", host.PacketAcknowledgementKey(p.DestinationPort, p.DestinationChannel, p.Sequence+1)), ph)
		add("proof-of-receipt-key", p, ack, snap.Proof("ibc", host.PacketReceiptKey(p.DestinationPort, p.DestinationChannel, p.Sequence)), ph)
	}
	for _, h := range append(w.ConsensusHeights(0, s.link.ClientA), clienttypes.NewHeight(ph.RevisionNumber, w.ClientLatest(0, s.link.ClientA).RevisionHeight+1), clienttypes.ZeroHeight()) {
		if h.EQ(ph) {
			continue
		}
		m := mutant{name: "proof-height-" + h.String(), msg: channeltypes.NewMsgAcknowledgement(p, ack, proof, h, ksim.Signer)}
		a, b := w.SnapAt(1, int64(ph.RevisionHeight)), w.SnapAt(1, int64(h.RevisionHeight))
		if a != nil && b != nil && string(a.AppHash) == string(b.AppHash) && w.HasConsensus(0, s.link.ClientA, h) {
			m.mayVerify = true
		}
		out = append(out, m)
	}
	return out
}

func ackMutantsV2(s *PL, w *ksim.World, p channeltypesv2.Packet, ack channeltypesv2.Acknowledgement, proof []byte, ph clienttypes.Height) []mutant {
	var out []mutant
	add := func(name string, q channeltypesv2.Packet, a channeltypesv2.Acknowledgement, pr []byte, h clienttypes.Height) {
		if fmt.Sprint(a.AppAcknowledgements) == fmt.Sprint(ack.AppAcknowledgements) && string(pr) == string(proof) && h.EQ(ph) && q.String() == p.String() {
			return // identical to the honest message
		}
		out = append(out, mutant{name: name, msg: channeltypesv2.NewMsgAcknowledgement(q, a, pr, h, ksim.Signer)})
	}
	first := ack.AppAcknowledgements[0]
	add("ack-flip", p, channeltypesv2.Acknowledgement{AppAcknowledgements: [][]byte{bump(first)}}, proof, ph)
	add("ack-extended-list", p, channeltypesv2.Acknowledgement{AppAcknowledgements: [][]byte{first, first}}, proof, ph)
	add("ack-empty-list", p, channeltypesv2.Acknowledgement{}, proof, ph)
	if string(first) != string(channeltypesv2.ErrorAcknowledgement[:]) {
		add("ack-sentinel-substituted", p, channeltypesv2.Acknowledgement{AppAcknowledgements: [][]byte{channeltypesv2.ErrorAcknowledgement[:]}}, proof, ph)
	} else {
		add("ack-success-substituted", p, channeltypesv2.Acknowledgement{AppAcknowledgements: [][]byte{[]byte("ok")}}, proof, ph)
	}
	if n := len(ack.AppAcknowledgements); n > 1 {
		// multi-payload acknowledgements: every position altered, reordered, and a family of 512 forged values per
		// position (a commitment that binds an application acknowledgement by only a few bits would accept one of them)
		for i := 0; i < n; i++ {
			alt := append([][]byte{}, ack.AppAcknowledgements...)
			alt[i] = bump(alt[i])
			add(fmt.Sprintf("ack-flip-pos%d", i), p, channeltypesv2.Acknowledgement{AppAcknowledgements: alt}, proof, ph)
			for k := 0; k < 512; k++ {
				f := append([][]byte{}, ack.AppAcknowledgements...)
				f[i] = []byte(fmt.Sprintf("{\"error\":\"forged-%d\"}", k))
				add(fmt.Sprintf("ack-forged-pos%d@%d", i, k), p, channeltypesv2.Acknowledgement{AppAcknowledgements: f}, proof, ph)
			}
		}
		sw := append([][]byte{}, ack.AppAcknowledgements...)
		sw[0], sw[1] = append(sw[1], 'x'), sw[0]
		add("ack-list-reordered", p, channeltypesv2.Acknowledgement{AppAcknowledgements: sw}, proof, ph)
		add("ack-list-shortened", p, channeltypesv2.Acknowledgement{AppAcknowledgements: ack.AppAcknowledgements[:n-1]}, proof, ph)
	}
	clone := func() channeltypesv2.Packet {
		q := p
		q.Payloads = append([]channeltypesv2.Payload{}, p.Payloads...)
		return q
	}
	for _, d := range []int64{-1, 1} {
		q := clone()
		q.Sequence = uint64(int64(p.Sequence) + d)
		add(fmt.Sprintf("sequence%+d", d), q, ack, proof, ph)
		q = clone()
		q.TimeoutTimestamp = uint64(int64(p.TimeoutTimestamp) + d)
		add(fmt.Sprintf("timeout%+d", d), q, ack, proof, ph)
	}
	otherSrc, otherDst := s.v2IDs(rV2A)
	if p.SourceClient == otherSrc {
		otherSrc, otherDst = s.v2IDs(rV2C)
	}
	q := clone()
	q.SourceClient = otherSrc
	add("source-client-sibling", q, ack, proof, ph)
	q = clone()
	q.DestinationClient = otherDst
	add("dest-client-sibling", q, ack, proof, ph)
	q = clone()
	q.Payloads[0].Value = bump(p.Payloads[0].Value)
	add("payload-value", q, ack, proof, ph)
	q = clone()
	q.Payloads[0].Version += "x"
	add("payload-version", q, ack, proof, ph)
	for name, pr := range mutProofs(proof, false) {
		add(name, p, ack, pr, ph)
	}
	if snap := w.SnapAt(1, int64(ph.RevisionHeight)); snap != nil {
		add("proof-of-other-sequence-ack", p, ack, snap.Proof("ibc", hostv2.PacketAcknowledgementKey(p.DestinationClient, p.Sequence+1)), ph)
		add("proof-of-receipt-key", p, ack, snap.Proof("ibc", hostv2.PacketReceiptKey(p.DestinationClient, p.Sequence)), ph)
	}
	for _, h := range append(w.ConsensusHeights(0, s.link.ClientA), clienttypes.NewHeight(ph.RevisionNumber, w.ClientLatest(0, s.link.ClientA).RevisionHeight+1), clienttypes.ZeroHeight()) {
		if h.EQ(ph) {
			continue
		}
		m := mutant{name: "proof-height-" + h.String(), msg: channeltypesv2.NewMsgAcknowledgement(p, ack, proof, h, ksim.Signer)}
		a, b := w.SnapAt(1, int64(ph.RevisionHeight)), w.SnapAt(1, int64(h.RevisionHeight))
		if a != nil && b != nil && string(a.AppHash) == string(b.AppHash) && w.HasConsensus(0, s.link.ClientA, h) {
			m.mayVerify = true
		}
		out = append(out, m)
	}
	return out
}

func ackLattice(c *core.C, s *PL, w *ksim.World) *ksim.Fail {
	ka := w.W.Chains[0].App.IBCKeeper
	ctxA := w.CS[0].Ctx
	status := ka.ClientKeeper.GetClientStatus(ctxA, s.link.ClientA)
	for _, p := range ext(w).Pkts {
		for _, phh := range w.ConsensusHeights(0, s.link.ClientA) {
			snap := w.SnapAt(1, int64(phh.RevisionHeight))
			if snap == nil {
				continue
			}
			var key, wantAckCommit []byte
			var honest sdk.Msg
			var ackBytes string
			open := true
			inOrder := true
			if p.isV2() {
				key = hostv2.PacketAcknowledgementKey(p.V2.DestinationClient, p.Seq)
				ack := s.v2Ack(p)
				wantAckCommit = channeltypesv2.CommitAcknowledgement(ack)
				ackBytes = string(ack.AppAcknowledgements[0])
				honest = channeltypesv2.NewMsgAcknowledgement(p.V2, ack, snap.Proof("ibc", key), phh, ksim.Signer)
			} else {
				key = host.PacketAcknowledgementKey(p.V1.DestinationPort, p.V1.DestinationChannel, p.Seq)
				ack := s.v1Ack(p)
				wantAckCommit = channeltypes.CommitAcknowledgement(ack)
				ackBytes = string(ack)
				honest = channeltypes.NewMsgAcknowledgement(p.V1, ack, snap.Proof("ibc", key), phh, ksim.Signer)
				ch, _ := ka.ChannelKeeper.GetChannel(ctxA, p.V1.SourcePort, p.V1.SourceChannel)
				open = ch.State == channeltypes.OPEN
				if ch.Ordering == channeltypes.ORDERED {
					next, _ := ka.ChannelKeeper.GetNextSequenceAck(ctxA, p.V1.SourcePort, p.V1.SourceChannel)
					inOrder = p.Seq == next
				}
			}
			proven := string(snap.Get("ibc", key)) == string(wantAckCommit)
			pending := s.commitmentPresent(w, p)
			wantOK := proven && pending && open && inOrder && status == exported.Active
			f := w.Fork()
			nObs := len(f.Obs)
			hr := f.Tx(0, honest)
			c.Add("honest_messages", 1)
			success := hr.Class == ksim.OK && !respIsNoop(honest, hr)
			if success != wantOK {
				return &ksim.Fail{Key: fmt.Sprintf("honest-ack-mismatch/%s/want=%v", routeNames[p.Route], wantOK), Text: fmt.Sprintf("acknowledgement of %s/%d at proof height %s answered %s, reference says accept=%v (proven=%v pending=%v open=%v inOrder=%v client=%s)", p.srcID(), p.Seq, phh, hr, wantOK, proven, pending, open, inOrder, status)}
			}
			if success {
				// the application(s) saw exactly the proven bytes, once per payload
				nCb := 1
				if p.isV2() {
					nCb = len(p.V2.Payloads)
				}
				okCb := len(f.Obs) == nObs+nCb
				for i := 0; okCb && i < nCb; i++ {
					okCb = f.Obs[nObs+i].Seq == p.Seq && strings.HasSuffix(f.Obs[nObs+i].Data, ackBytes)
				}
				if !okCb {
					return &ksim.Fail{Key: "ack-callback-mismatch/" + routeNames[p.Route], Text: fmt.Sprintf("acknowledgement of %s/%d reached the application as %+v, proven bytes %q", p.srcID(), p.Seq, f.Obs[nObs:], ackBytes)}
				}
			} else if same, d := storesUnchanged(w, f, 0); !same || len(f.Obs) != nObs {
				return &ksim.Fail{Key: "rejected-ack-changed-state/" + routeNames[p.Route], Text: fmt.Sprintf("rejected acknowledgement of %s/%d changed %q", p.srcID(), p.Seq, d)}
			}
			if !proven || !pending {
				continue
			}
			c.Hist("honest_ack_outcome", fmt.Sprintf("%s:%v", routeNames[p.Route], success))
			var muts []mutant
			if p.isV2() {
				muts = ackMutantsV2(s, w, p.V2, s.v2Ack(p), snap.Proof("ibc", key), phh)
			} else {
				muts = ackMutantsV1(s, w, p.V1, s.v1Ack(p), snap.Proof("ibc", key), phh)
			}
			for _, m := range muts {
				g := w.Fork()
				n0 := len(g.Obs)
				r := g.Tx(0, m.msg)
				c.Add("mutants", 1)
				c.Hist("mutant_classes", string(r.Class))
				ok := r.Class == ksim.OK && !respIsNoop(m.msg, r)
				if m.mayVerify {
					if ok != success {
						return &ksim.Fail{Key: "equivalent-height-mismatch/" + routeNames[p.Route], Text: fmt.Sprintf("mutant %s (same root at another stored height) answered %s, honest answered %s", m.name, r, hr)}
					}
					continue
				}
				if ok {
					return &ksim.Fail{Key: fmt.Sprintf("mutant-accepted/%s/%s", routeNames[p.Route], mutClass(m.name)), Text: fmt.Sprintf("altered acknowledgement (%s) of %s/%d at proof height %s was accepted", m.name, p.srcID(), p.Seq, phh)}
				}
				if same, d := storesUnchanged(w, g, 0); !same || len(g.Obs) != n0 {
					return &ksim.Fail{Key: fmt.Sprintf("mutant-changed-state/%s/%s", routeNames[p.Route], mutClass(m.name)), Text: fmt.Sprintf("altered acknowledgement (%s) answered %s but changed %q", m.name, r, d)}
				}
			}
		}
	}
	return nil
}

func c06Scenario(c *core.C, routes []int, kinds []string, payloads ...int) *PL {
	sc := macro(&PL{Routes: routes, MaxSend: 2, MaxCommits: 3, DataKinds: kinds, Close: false})
	if len(payloads) > 0 {
		sc.Payloads = payloads[0]
		sc.MaxSend = 1
	}
	sc.Movers = []string{"freezeA", "expireA"}
	sc.InvFn = func(s *PL, w *ksim.World) *ksim.Fail { return ackLattice(c, s, w) }
	return sc
}

func runC06(c *core.C) {
	d := core.Pick(c, 0, 1)
	parts := []ksim.Part{
		{Name: "v1-unordered", Sc: c06Scenario(c, []int{rV1U}, []string{"ok", "fail"}), Cfg: ksim.Config{MaxDepth: 6 + d}, Share: 0.25},
		{Name: "v1-ordered", Sc: c06Scenario(c, []int{rV1O}, []string{"ok"}), Cfg: ksim.Config{MaxDepth: 6 + d}, Share: 0.33},
		{Name: "v2-client", Sc: c06Scenario(c, []int{rV2C}, []string{"ok", "fail"}), Cfg: ksim.Config{MaxDepth: 6 + d}, Share: 0.5},
		{Name: "v2-alias", Sc: c06Scenario(c, []int{rV2A}, []string{"ok"}), Cfg: ksim.Config{MaxDepth: 6 + d}, Share: 0.6},
		{Name: "v2-client/2-payloads", Sc: c06Scenario(c, []int{rV2C}, []string{"ok"}, 2), Cfg: ksim.Config{MaxDepth: 5 + d}, Share: 0.6},
		{Name: "v2-alias/3-payloads", Sc: c06Scenario(c, []int{rV2A}, []string{"ok"}, 3), Cfg: ksim.Config{MaxDepth: 5 + d}},
	}
	ksim.RunParts(c, parts, [][]ksim.Op{
		{{K: "send", A: []int{0, 0, 0}}, {K: "sync", A: []int{0}}, {K: "recv", A: []int{0, 13}}, {K: "sync", A: []int{1}}},
	})
	c.Set("alphabet", "states: send(success|failing payload) | sync(A|B) | recv | freeze / expire the source's client; in every state, for every sent packet and every consensus height stored by the source's client: the honest MsgAcknowledgement and every single-field mutant (ack bytes incl. non-canonical JSON / sentinel substitution / list length, packet data, timeouts, sequence, identifiers -> existing siblings, payload fields, proof bytes, valid proofs of other keys, every other proof height)")
	c.Assume("counterparty consensus, storage commit and validator signing are played by the harness; the reference predicate reads the destination's record (harness snapshots) and the source's stored commitment")
}
