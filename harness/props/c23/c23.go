// Package c23 checks C23: tendermint updates keep consensus timestamps increasing with height.
package c23

import (
	"verif/harness/core"
	"verif/harness/ksim"
	"verif/harness/props/tmworld"
)

func init() { core.Register("C23", "model_checking", run) }

func run(c *core.C) {
	n := core.Pick(c, 6, 8)
	d := core.Pick(c, 0, 2)
	or := tmworld.Oracles{C23: true}
	mk := func(p tmworld.Params, adv, rec int) *tmworld.Scenario {
		return tmworld.New(tmworld.Config{P: p, MaxAdv: adv, MaxRec: rec, Mis: false}, or)
	}
	parts := []ksim.Part{
		{Name: "rev1/updates-only", Sc: mk(tmworld.Params{Rev: 1, Base: 0, N: n}, 0, 2), Cfg: ksim.Config{MaxDepth: 14 + d}, Share: 0.3},
		{Name: "rev1/with-time", Sc: mk(tmworld.Params{Rev: 1, Base: 0, N: n}, 3, 1), Cfg: ksim.Config{MaxDepth: 5 + d}, Share: 0.7},
		{Name: "rev47/heights-12031..(12032=0x2f00)", Sc: mk(tmworld.Params{Rev: 47, Base: 12030, N: n}, 1, 1), Cfg: ksim.Config{MaxDepth: 4 + d}},
	}
	ksim.RunParts(c, parts, [][]ksim.Op{
		{{K: "upd", A: []int{3, 0, 1}}, {K: "upd", A: []int{2, 0, 1}}, {K: "upd", A: []int{4, 1, 3}}, {K: "upd", A: []int{5, 0, 3}}},
		{{K: "upd", A: []int{3, 1, 1}}, {K: "upd", A: []int{2, 0, 1}}},
	})
	tmworld.Describe(c)
}
