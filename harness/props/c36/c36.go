// Package c36 decides C36: over any sequence of transfers a grantee acting under an ICS-20
// TransferAuthorization moves at most the granted spend limit per denomination on each
// allocated port/channel, only to allow-listed receivers and only with allowed memos; the
// remaining limit decreases by exactly each accepted amount, an allocation disappears when
// exhausted, and the "entire balance" sentinel amount is never accepted against a bounded limit.
//
// The real authorization is exercised end to end: MsgGrant and MsgExec(MsgTransfer) are
// delivered through app.MsgServiceRouter() on branched contexts of a real SimApp chain with
// two open ICS-20 channels, so the real authz keeper stores / updates / deletes the grant and
// the real transfer msg server (sentinel expansion, escrow) executes the transfer.
//
// Exploration is explicit-state: for each grant configuration a breadth-first search over the
// reachable grant states; in every state every request of the alphabet is executed. Because
// the oracle is checked on every transition (remaining' = remaining - accepted, remaining' >= 0,
// allocation present iff something remains), all request sequences up to the depth bound are
// covered by induction. A second, unmerged pass enumerates raw sequences over a reduced
// alphabet with an explicit cumulative ledger (sum of accepted amounts <= initial limit).
package c36

import (
	"bytes"
	"fmt"
	"math/big"
	"sort"
	"strings"

	sdkmath "cosmossdk.io/math"

	sdk "github.com/cosmos/cosmos-sdk/types"
	"github.com/cosmos/cosmos-sdk/x/authz"
	banktestutil "github.com/cosmos/cosmos-sdk/x/bank/testutil"

	transfertypes "github.com/cosmos/ibc-go/v11/modules/apps/transfer/types"
	clienttypes "github.com/cosmos/ibc-go/v11/modules/core/02-client/types"
	ibctesting "github.com/cosmos/ibc-go/v11/testing"
	"github.com/cosmos/ibc-go/v11/testing/simapp"

	"verif/harness/core"
)

func init() { core.Register("C36", "exploration", run) }

const (
	denomA  = "uaaa"
	denomB  = "ubbb"
	r1      = "receiver-one"
	r2      = "receiver-two"
	baseBal = 1000
)

var maxU256 = new(big.Int).Sub(new(big.Int).Lsh(big.NewInt(1), 256), big.NewInt(1))

// ---------------------------------------------------------------------------------------
// configurations and requests

// limit: -1 absent, -2 unbounded, otherwise the bounded amount.
const (
	absent    = -1
	unbounded = -2
)

type allocCfg struct {
	Channel string   `json:"channel"`
	LimA    int      `json:"limit_a"` // -1 absent, -2 unbounded
	LimB    int      `json:"limit_b"`
	Allow   []string `json:"allow"`
	Memos   []string `json:"memos"`
}

type grantCfg struct {
	Allocs []allocCfg `json:"allocations"`
}

func limStr(l int) string {
	switch l {
	case absent:
		return "-"
	case unbounded:
		return "inf"
	}
	return fmt.Sprint(l)
}

func (a allocCfg) id() string {
	return fmt.Sprintf("%s[a=%s,b=%s,allow=%s,memos=%s]", a.Channel, limStr(a.LimA), limStr(a.LimB), strings.Join(a.Allow, "+"), strings.Join(a.Memos, "+"))
}

func (g grantCfg) id() string {
	var s []string
	for _, a := range g.Allocs {
		s = append(s, a.id())
	}
	return strings.Join(s, ";")
}

type request struct {
	Channel  string `json:"channel"`
	Denom    string `json:"denom"`
	Amount   string `json:"amount"` // decimal; "max" = 2^256-1
	Receiver string `json:"receiver"`
	Memo     string `json:"memo"`
}

func (r request) id() string {
	return fmt.Sprintf("%s/%s/%s/%s/memo=%q", r.Channel, r.Denom, r.Amount, r.Receiver, r.Memo)
}

func (r request) amount() *big.Int {
	if r.Amount == "max" {
		return new(big.Int).Set(maxU256)
	}
	v, _ := new(big.Int).SetString(r.Amount, 10)
	return v
}

func (r request) sentinel() bool { return r.Amount == "max" }

func allRequests(channels []string) []request {
	var out []request
	for _, ch := range channels {
		for _, d := range []string{denomA, denomB} {
			for _, amt := range []string{"1", "2", "3", "4", "max"} {
				for _, rc := range []string{r1, r2} {
					for _, memo := range []string{"", "m", " m ", "n", "mm"} { // "mm" extends the allowed memo "m" and is itself allowed by the list {"mm"}
						out = append(out, request{ch, d, amt, rc, memo})
					}
				}
			}
		}
	}
	return out
}

func allocConfigs(channel string) []allocCfg {
	var out []allocCfg
	for _, la := range []int{absent, 3, unbounded} {
		for _, lb := range []int{absent, 3, unbounded} {
			if la == absent && lb == absent {
				continue // an empty spend limit is not a valid grant (ValidateBasic: "spend limit cannot be nil")
			}
			for _, allow := range [][]string{nil, {r1}} {
				for _, memos := range [][]string{nil, {"m"}, {"*"}, {"mm"}} {
					out = append(out, allocCfg{Channel: channel, LimA: la, LimB: lb, Allow: allow, Memos: memos})
				}
			}
		}
	}
	return out
}

// ---------------------------------------------------------------------------------------
// reference ledger (independent of the implementation: big.Int and maps)

type refAlloc struct {
	port, channel string
	rem           map[string]*big.Int // bounded remaining amounts (> 0) per denom
	unb           map[string]bool     // denoms with the unbounded sentinel limit
	allow, memos  []string
}

type refGrant struct{ allocs []refAlloc }

func newRef(g grantCfg) *refGrant {
	r := &refGrant{}
	for _, a := range g.Allocs {
		ra := refAlloc{port: transfertypes.PortID, channel: a.Channel, rem: map[string]*big.Int{}, unb: map[string]bool{}, allow: a.Allow, memos: a.Memos}
		for d, l := range map[string]int{denomA: a.LimA, denomB: a.LimB} {
			switch {
			case l == unbounded:
				ra.unb[d] = true
			case l > 0:
				ra.rem[d] = big.NewInt(int64(l))
			}
		}
		r.allocs = append(r.allocs, ra)
	}
	return r
}

func (r *refGrant) clone() *refGrant {
	out := &refGrant{}
	for _, a := range r.allocs {
		na := refAlloc{port: a.port, channel: a.channel, rem: map[string]*big.Int{}, unb: map[string]bool{}, allow: a.allow, memos: a.memos}
		for d, v := range a.rem {
			na.rem[d] = new(big.Int).Set(v)
		}
		for d := range a.unb {
			na.unb[d] = true
		}
		out.allocs = append(out.allocs, na)
	}
	return out
}

// canon renders a grant (reference or decoded implementation state) canonically.
func canonAlloc(port, channel string, limits map[string]string, allow, memos []string) string {
	var ds []string
	for d := range limits {
		ds = append(ds, d)
	}
	sort.Strings(ds)
	var ls []string
	for _, d := range ds {
		ls = append(ls, d+"="+limits[d])
	}
	return fmt.Sprintf("%s/%s{%s}allow=%q memos=%q", port, channel, strings.Join(ls, ","), allow, memos)
}

func (r *refGrant) canon() string {
	if r == nil || len(r.allocs) == 0 {
		return "<no grant>"
	}
	var s []string
	for _, a := range r.allocs {
		lim := map[string]string{}
		for d, v := range a.rem {
			lim[d] = v.String()
		}
		for d := range a.unb {
			lim[d] = "inf"
		}
		s = append(s, canonAlloc(a.port, a.channel, lim, a.allow, a.memos))
	}
	return strings.Join(s, " | ")
}

func canonImpl(a authz.Authorization) (string, error) {
	if a == nil {
		return "<no grant>", nil
	}
	ta, ok := a.(*transfertypes.TransferAuthorization)
	if !ok {
		return "", fmt.Errorf("stored authorization has type %T", a)
	}
	if len(ta.Allocations) == 0 {
		return "<empty grant>", nil
	}
	var s []string
	for _, al := range ta.Allocations {
		lim := map[string]string{}
		for _, coin := range al.SpendLimit {
			v := coin.Amount.BigInt()
			if v.Cmp(maxU256) == 0 {
				lim[coin.Denom] = "inf"
			} else {
				lim[coin.Denom] = v.String()
			}
		}
		s = append(s, canonAlloc(al.SourcePort, al.SourceChannel, lim, al.AllowList, al.AllowedPacketData))
	}
	return strings.Join(s, " | "), nil
}

// verdicts of the reference
const (
	mustReject = "must-reject"
	eligible   = "eligible"
	dontCare   = "unspecified" // whitespace-padded memo against a literal memo list
)

// decide says whether the statement allows the request to be accepted, and why not.
func (r *refGrant) decide(q request) (string, string, int) {
	idx := -1
	for i, a := range r.allocs {
		if a.port == transfertypes.PortID && a.channel == q.Channel {
			idx = i
			break
		}
	}
	if idx < 0 {
		return mustReject, "no allocation for the channel", idx
	}
	a := r.allocs[idx]
	if len(a.allow) > 0 {
		ok := false
		for _, x := range a.allow {
			ok = ok || x == q.Receiver
		}
		if !ok {
			return mustReject, "receiver not in the allow list", idx
		}
	}
	verdict := eligible
	switch {
	case len(a.memos) == 0:
		if strings.TrimSpace(q.Memo) != "" {
			return mustReject, "memo present but no memo is allowed", idx
		}
	case len(a.memos) == 1 && a.memos[0] == "*":
	default:
		exact, trimmed := false, false
		for _, m := range a.memos {
			exact = exact || m == q.Memo
			trimmed = trimmed || strings.TrimSpace(m) == strings.TrimSpace(q.Memo)
		}
		switch {
		case exact:
		case trimmed:
			verdict = dontCare
		default:
			return mustReject, "memo not in the allowed list", idx
		}
	}
	if a.unb[q.Denom] {
		return verdict, "", idx
	}
	if q.sentinel() {
		return mustReject, "entire-balance sentinel against a bounded limit", idx
	}
	rem, ok := a.rem[q.Denom]
	if !ok || rem.Cmp(q.amount()) < 0 {
		return mustReject, "amount exceeds the remaining limit", idx
	}
	return verdict, "", idx
}

// apply books an accepted request.
func (r *refGrant) apply(q request, idx int) {
	a := r.allocs[idx]
	if !a.unb[q.Denom] {
		a.rem[q.Denom].Sub(a.rem[q.Denom], q.amount())
		if a.rem[q.Denom].Sign() == 0 {
			delete(a.rem, q.Denom)
		}
	}
	if len(a.rem) == 0 && len(a.unb) == 0 { // exhausted
		r.allocs = append(r.allocs[:idx], r.allocs[idx+1:]...)
	}
}

// ---------------------------------------------------------------------------------------
// fixture

type fixture struct {
	a        *ibctesting.TestChain
	app      *simapp.SimApp
	channels []string
	granter  sdk.AccAddress
	grantee  sdk.AccAddress
	timeout  clienttypes.Height
	base     sdk.Context
	typeURL  string
}

func newFixture(c *core.C) *fixture {
	coord := ibctesting.NewCoordinator(c.T, 2)
	a, b := coord.GetChain(ibctesting.GetChainID(1)), coord.GetChain(ibctesting.GetChainID(2))
	f := &fixture{a: a, app: a.GetSimApp(), typeURL: sdk.MsgTypeURL(&transfertypes.MsgTransfer{})}
	for i := 0; i < 2; i++ {
		p := ibctesting.NewTransferPath(a, b)
		p.Setup()
		f.channels = append(f.channels, p.EndpointA.ChannelID)
	}
	if f.channels[0] == f.channels[1] {
		c.Broken("expected two distinct transfer channels, got %v", f.channels)
		return nil
	}
	f.granter = sdk.AccAddress(bytes.Repeat([]byte{0xA1}, 20))
	f.grantee = sdk.AccAddress(bytes.Repeat([]byte{0xB2}, 20))
	if err := banktestutil.FundAccount(a.GetContext(), f.app.BankKeeper, f.granter, sdk.NewCoins(sdk.NewInt64Coin(denomA, baseBal), sdk.NewInt64Coin(denomB, baseBal))); err != nil {
		c.Broken("fund granter: %v", err)
		return nil
	}
	coord.CommitBlock(a)
	f.timeout = clienttypes.NewHeight(clienttypes.ParseChainID(b.ChainID), 1_000_000)
	f.base = a.GetContext()
	return f
}

func (f *fixture) fork(ctx sdk.Context) sdk.Context {
	cc, _ := ctx.CacheContext()
	return cc.WithEventManager(sdk.NewEventManager())
}

func (f *fixture) deliver(ctx sdk.Context, msg sdk.Msg) error {
	h := f.app.MsgServiceRouter().Handler(msg)
	if h == nil {
		return fmt.Errorf("no handler for %T", msg)
	}
	var err error
	if p := core.Catch(func() { _, err = h(ctx, msg) }); p != "" {
		return fmt.Errorf("panic: %s", p)
	}
	return err
}

func coinsOf(la, lb int) sdk.Coins {
	var cs sdk.Coins
	for _, dl := range []struct {
		d string
		l int
	}{{denomA, la}, {denomB, lb}} {
		switch {
		case dl.l == unbounded:
			cs = append(cs, sdk.NewCoin(dl.d, transfertypes.UnboundedSpendLimit()))
		case dl.l > 0:
			cs = append(cs, sdk.NewInt64Coin(dl.d, int64(dl.l)))
		}
	}
	return cs.Sort()
}

func (f *fixture) grant(ctx sdk.Context, g grantCfg) error {
	var allocs []transfertypes.Allocation
	for _, a := range g.Allocs {
		allocs = append(allocs, transfertypes.Allocation{SourcePort: transfertypes.PortID, SourceChannel: a.Channel, SpendLimit: coinsOf(a.LimA, a.LimB), AllowList: a.Allow, AllowedPacketData: a.Memos})
	}
	msg, err := authz.NewMsgGrant(f.granter, f.grantee, transfertypes.NewTransferAuthorization(allocs...), nil)
	if err != nil {
		return err
	}
	return f.deliver(ctx, msg)
}

func (f *fixture) transferMsg(q request) *transfertypes.MsgTransfer {
	return transfertypes.NewMsgTransfer(transfertypes.PortID, q.Channel, sdk.NewCoin(q.Denom, sdkmath.NewIntFromBigInt(q.amount())), f.granter.String(), q.Receiver, f.timeout, 0, q.Memo)
}

func (f *fixture) storedGrant(ctx sdk.Context) (string, []byte, error) {
	a, _ := f.app.AuthzKeeper.GetAuthorization(ctx, f.grantee, f.granter, f.typeURL)
	s, err := canonImpl(a)
	if err != nil || a == nil {
		return s, nil, err
	}
	ta := a.(*transfertypes.TransferAuthorization)
	bz, err := ta.Marshal()
	return s, bz, err
}

func (f *fixture) balances(ctx sdk.Context, channel string) (granter, escrow map[string]*big.Int) {
	granter, escrow = map[string]*big.Int{}, map[string]*big.Int{}
	esc := transfertypes.GetEscrowAddress(transfertypes.PortID, channel)
	for _, d := range []string{denomA, denomB} {
		granter[d] = f.app.BankKeeper.GetBalance(ctx, f.granter, d).Amount.BigInt()
		escrow[d] = f.app.BankKeeper.GetBalance(ctx, esc, d).Amount.BigInt()
	}
	return
}

// topUp restores the granter's balances to the base amount (harness bookkeeping between steps, so that a
// later request never fails merely because an earlier "entire balance" transfer emptied the account).
func (f *fixture) topUp(ctx sdk.Context) error {
	var need sdk.Coins
	for _, d := range []string{denomA, denomB} {
		have := f.app.BankKeeper.GetBalance(ctx, f.granter, d).Amount
		if have.LT(sdkmath.NewInt(baseBal)) {
			need = append(need, sdk.NewCoin(d, sdkmath.NewInt(baseBal).Sub(have)))
		}
	}
	if len(need) == 0 {
		return nil
	}
	return banktestutil.FundAccount(ctx, f.app.BankKeeper, f.granter, need.Sort())
}

// ---------------------------------------------------------------------------------------
// one transition

type stepCase struct {
	Kind    string    `json:"kind"`
	Grant   grantCfg  `json:"grant"`
	History []request `json:"history"` // accepted/attempted requests before the failing one
	Request request   `json:"request"`
}

type stats struct {
	evals, nontrivial                   int
	accepted, acceptedSentinel          int
	eligibleRejected, execFailedAfterOK int
	seen                                map[string]bool
}

type state struct {
	ctx  sdk.Context
	ref  *refGrant
	hist []request
	sum  map[string]*big.Int // cumulative accepted per channel/denom (raw mode)
}

// step executes request q in state s. It returns the successor state when the request was accepted.
func (f *fixture) step(c *core.C, st *stats, g grantCfg, s *state, q request) *state {
	st.evals++
	verdict, reason, idx := s.ref.decide(q)
	if idx >= 0 && (reason == "" || reason == "amount exceeds the remaining limit" || reason == "entire-balance sentinel against a bounded limit") {
		k := g.id() + "#" + s.ref.canon() + "#" + q.id()
		if !st.seen[k] {
			st.seen[k] = true
			st.nontrivial++
		}
	}
	before, beforeBz, err := f.storedGrant(s.ctx)
	if err != nil {
		c.Broken("read grant: %v", err)
		return nil
	}
	if before != s.ref.canon() {
		c.Broken("state bookkeeping out of sync: stored %q, reference %q", before, s.ref.canon())
		return nil
	}
	child := f.fork(s.ctx)
	g0, e0 := f.balances(child, q.Channel)
	tm := f.transferMsg(q)
	exec := authz.NewMsgExec(f.grantee, []sdk.Msg{tm})
	execErr := f.deliver(child, &exec)
	ok := execErr == nil
	rc := stepCase{Kind: "step", Grant: g, History: s.hist, Request: q}
	key := func(what string) string {
		return fmt.Sprintf("%s/grant=%s/state=%s/req=%s", what, g.id(), s.ref.canon(), q.id())
	}
	c.Hist("outcomes", fmt.Sprintf("%s/accepted=%v", verdictClass(verdict, reason), ok))
	if !ok {
		// transaction semantics: the branched context is dropped, the grant and all balances are those of the parent
		if verdict == eligible {
			st.eligibleRejected++
			// diagnose: did the authorization itself refuse, or did the transfer fail afterwards?
			a, _ := f.app.AuthzKeeper.GetAuthorization(s.ctx, f.grantee, f.granter, f.typeURL)
			if a != nil {
				if resp, aerr := a.Accept(f.fork(s.ctx), tm); aerr == nil && resp.Accept {
					st.execFailedAfterOK++
				}
			}
			c.Hist("eligible_but_rejected", errTail(execErr))
		}
		after, afterBz, _ := f.storedGrant(s.ctx)
		if after != before || !bytes.Equal(afterBz, beforeBz) {
			c.Violation(key("rejected-changed-grant"), fmt.Sprintf("a rejected request changed the stored grant: %q -> %q", before, after), rc)
		}
		return nil
	}
	st.accepted++
	if q.sentinel() {
		st.acceptedSentinel++
	}
	if verdict == mustReject {
		c.Violation(key("accepted/"+strings.ReplaceAll(reason, " ", "-")), fmt.Sprintf("MsgExec(MsgTransfer %s) was accepted although: %s; grant state %q", q.id(), reason, before), rc)
	}
	// amount actually moved
	g1, e1 := f.balances(child, q.Channel)
	moved := new(big.Int).Sub(e1[q.Denom], e0[q.Denom])
	left := new(big.Int).Sub(g0[q.Denom], g1[q.Denom])
	wantMoved := q.amount()
	if q.sentinel() {
		wantMoved = g0[q.Denom] // the entire balance
	}
	if moved.Cmp(wantMoved) != 0 || left.Cmp(wantMoved) != 0 {
		c.Violation(key("moved-amount"), fmt.Sprintf("transfer %s moved %s to escrow and %s out of the granter account, expected %s", q.id(), moved, left, wantMoved), rc)
	}
	other := denomA
	if q.Denom == denomA {
		other = denomB
	}
	if g0[other].Cmp(g1[other]) != 0 || e0[other].Cmp(e1[other]) != 0 {
		c.Violation(key("moved-other-denom"), fmt.Sprintf("transfer %s changed balances of %s", q.id(), other), rc)
	}
	if idx >= 0 && verdict != mustReject {
		a := s.ref.allocs[idx]
		if !a.unb[q.Denom] && moved.Cmp(a.rem[q.Denom]) > 0 {
			c.Violation(key("moved-more-than-remaining"), fmt.Sprintf("moved %s with %s remaining", moved, a.rem[q.Denom]), rc)
		}
	}
	// new grant state
	next := &state{ctx: child, ref: s.ref.clone(), hist: append(append([]request{}, s.hist...), q)}
	if verdict != mustReject {
		next.ref.apply(q, idx)
		after, _, err := f.storedGrant(child)
		if err != nil {
			c.Broken("read grant after: %v", err)
			return nil
		}
		if after != next.ref.canon() {
			c.Violation(key("grant-after"), fmt.Sprintf("after accepting %s the stored grant is %q, the reference ledger says %q (before: %q)", q.id(), after, next.ref.canon(), before), rc)
			return nil // bookkeeping diverged: do not explore below
		}
	} else {
		return nil // do not explore below a violating transition
	}
	// cumulative ledger (raw mode)
	if s.sum != nil {
		next.sum = map[string]*big.Int{}
		for k, v := range s.sum {
			next.sum[k] = new(big.Int).Set(v)
		}
		k := q.Channel + "/" + q.Denom
		if next.sum[k] == nil {
			next.sum[k] = new(big.Int)
		}
		next.sum[k].Add(next.sum[k], moved)
		for _, a := range g.Allocs {
			for d, l := range map[string]int{denomA: a.LimA, denomB: a.LimB} {
				if sum := next.sum[a.Channel+"/"+d]; sum != nil && l != unbounded {
					lim := int64(0)
					if l > 0 {
						lim = int64(l)
					}
					if sum.Cmp(big.NewInt(lim)) > 0 {
						c.Violation(key("cumulative-over-limit"), fmt.Sprintf("cumulative amount moved on %s/%s is %s, the granted limit is %d", a.Channel, d, sum, lim), rc)
					}
				}
			}
		}
	}
	if err := f.topUp(child); err != nil {
		c.Broken("top up: %v", err)
		return nil
	}
	return next
}

func verdictClass(verdict, reason string) string {
	if verdict == mustReject {
		return "must-reject(" + reason + ")"
	}
	return verdict
}

func errTail(err error) string {
	s := err.Error()
	if i := strings.LastIndex(s, ": "); i >= 0 {
		s = s[i+2:]
	}
	return s
}

// ---------------------------------------------------------------------------------------
// exploration

// exploreMerged: BFS over distinct grant states, every request in every state, depth = max sequence length.
func (f *fixture) exploreMerged(c *core.C, st *stats, g grantCfg, reqs []request, depth int) bool {
	root := f.fork(f.base)
	if err := f.grant(root, g); err != nil {
		c.Broken("MsgGrant %s failed: %v", g.id(), err)
		return false
	}
	frontier := []*state{{ctx: root, ref: newRef(g)}}
	visited := map[string]bool{frontier[0].ref.canon(): true}
	states := 1
	for d := 0; d < depth && len(frontier) > 0; d++ {
		var next []*state
		for _, s := range frontier {
			for _, q := range reqs {
				n := f.step(c, st, g, s, q)
				if n == nil {
					continue
				}
				k := n.ref.canon()
				if !visited[k] {
					visited[k] = true
					states++
					next = append(next, n)
				}
			}
			if c.TimeUp() {
				return false
			}
		}
		frontier = next
	}
	if len(frontier) == 0 {
		c.Add("grants_explored_to_fixpoint", 1) // no unexplored grant state is left: sequences of every length are covered
	}
	c.Add("grant_states", states)
	return true
}

// exploreRaw: every sequence (no state merging) over reqs up to depth, with a cumulative ledger.
func (f *fixture) exploreRaw(c *core.C, st *stats, g grantCfg, reqs []request, depth int) bool {
	root := f.fork(f.base)
	if err := f.grant(root, g); err != nil {
		c.Broken("MsgGrant %s failed: %v", g.id(), err)
		return false
	}
	var rec func(s *state, d int) bool
	rec = func(s *state, d int) bool {
		if d == depth {
			return true
		}
		for _, q := range reqs {
			n := f.step(c, st, g, s, q)
			c.Add("raw_steps", 1)
			if n == nil {
				// rejected: the state is unchanged, continue the sequence from the same state
				n = &state{ctx: s.ctx, ref: s.ref, hist: append(append([]request{}, s.hist...), q), sum: s.sum}
			}
			if !rec(n, d+1) {
				return false
			}
		}
		return !c.TimeUp()
	}
	return rec(&state{ctx: root, ref: newRef(g), sum: map[string]*big.Int{}}, 0)
}

// Run executes the grant exploration on behalf of another check (C49 covers grants with it); violations
// are reported under the calling check's id.
func Run(c *core.C) { run(c) }

func run(c *core.C) {
	f := newFixture(c)
	if f == nil {
		return
	}
	st := &stats{seen: map[string]bool{}}
	if c.Replay != "" {
		replay(c, f, st)
		return
	}
	ch0, ch1 := f.channels[0], f.channels[1]
	reqs := allRequests(f.channels)
	depth := core.Pick(c, 3, 8)
	first := allocConfigs(ch0)
	second := []allocCfg{
		{Channel: ch1, LimA: 3, LimB: absent, Allow: nil, Memos: nil},
		{Channel: ch1, LimA: unbounded, LimB: 3, Allow: []string{r1}, Memos: []string{"*"}},
		{Channel: ch1, LimA: absent, LimB: 3, Allow: nil, Memos: []string{"m"}},
		{Channel: ch1, LimA: 3, LimB: 3, Allow: nil, Memos: nil},
	}
	var grants []grantCfg
	for _, a := range first {
		grants = append(grants, grantCfg{Allocs: []allocCfg{a}})
	}
	// two allocations: quick = every 4th first-allocation configuration x 1 second allocation; thorough = all x 4
	for i, a := range first {
		for j, b := range second {
			if c.Quick() && (i%4 != 1 || j != 0) {
				continue
			}
			grants = append(grants, grantCfg{Allocs: []allocCfg{a, b}})
		}
	}
	c.Set("grant_configurations", len(grants))
	c.Set("request_alphabet", len(reqs))
	c.Set("max_sequence_length", depth)
	done := 0
	for _, g := range grants {
		if !f.exploreMerged(c, st, g, reqs, depth) {
			break
		}
		done++
	}
	c.Set("grant_configurations_completed", done)
	// raw sequences with a cumulative ledger over a reduced alphabet
	var small []request
	for _, q := range reqs {
		if q.Receiver == r1 && q.Memo == "" && (q.Amount == "1" || q.Amount == "2" || q.Amount == "max") && (q.Channel == ch0 || q.Denom == denomA && q.Amount != "2") {
			small = append(small, q)
		}
	}
	rawGrants := []grantCfg{
		{Allocs: []allocCfg{{Channel: ch0, LimA: 3, LimB: 3}}},
		{Allocs: []allocCfg{{Channel: ch0, LimA: 3, LimB: unbounded}}},
		{Allocs: []allocCfg{{Channel: ch0, LimA: 3, LimB: absent}, {Channel: ch1, LimA: 3, LimB: absent}}},
	}
	c.Set("raw_alphabet", len(small))
	for _, g := range rawGrants {
		if !f.exploreRaw(c, st, g, small, core.Pick(c, 3, 4)) {
			break
		}
	}
	c.Set("evaluations", st.evals)
	c.Set("distinct_nontrivial", st.nontrivial)
	c.Set("accepted_requests", st.accepted)
	c.Set("accepted_entire_balance_requests", st.acceptedSentinel)
	c.Set("eligible_but_rejected", st.eligibleRejected)
	c.Set("exec_failed_after_authorization_accepted", st.execFailedAfterOK)
	if st.accepted == 0 || st.acceptedSentinel == 0 {
		c.Broken("vacuous run: %d accepted requests, %d accepted entire-balance requests", st.accepted, st.acceptedSentinel)
	}
	if st.eligibleRejected > 0 {
		fmt.Printf("NOTE property=C36 %d requests that the grant allows were rejected (not demanded by the statement; see coverage.eligible_but_rejected)\n", st.eligibleRejected)
	}
	c.Set("rule", "explicit-state: for every grant configuration (1 allocation: 8 limit pairs x 2 allow lists x 4 memo lists (none, one memo, wildcard, a memo that extends the other one); 2 allocations: first as before x fixed second allocations) a BFS over the reachable stored-grant states up to the sequence bound; in every state all 200 requests (2 channels x 2 denoms x amounts {1,2,3,4,2^256-1} x 2 receivers x 5 memos incl. a whitespace-padded one and one that extends an allowed memo) are executed through MsgExec; plus raw (unmerged) sequences with a cumulative ledger over a reduced alphabet. non-trivial = distinct (grant, grant state, request) triples addressed to an allocated channel with permitted receiver and memo, i.e. where the spend-limit ledger decides")
	c.Sample(map[string]any{"grant": grants[0].id(), "request": reqs[0].id(), "note": "first configuration and first request of the enumeration"})
	c.Sample(map[string]any{"grant": grants[len(grants)-1].id(), "requests_per_state": len(reqs), "max_sequence_length": depth})
	c.Assume("big.Int / map reference ledger is trusted")
	c.Assume("the stored grant is the only state the authorization depends on: grant states reached by different request sequences are merged (checked separately by the unmerged raw-sequence pass); the granter's balances are topped up by the harness after each accepted transfer")
	c.Assume("a failing MsgExec is rolled back with its transaction: rejected requests are evaluated on a branched context that is dropped")
	c.Assume("a memo that differs from an allowed memo only by surrounding whitespace may be accepted or rejected (unspecified by the statement); requests the grant allows but the chain rejects are counted, not flagged (the statement bounds what may be accepted)")
}

func replay(c *core.C, f *fixture, st *stats) {
	var sc stepCase
	if err := c.LoadReplay(&sc); err != nil {
		c.Broken("replay: %v", err)
		return
	}
	root := f.fork(f.base)
	if err := f.grant(root, sc.Grant); err != nil {
		c.Broken("MsgGrant failed: %v", err)
		return
	}
	s := &state{ctx: root, ref: newRef(sc.Grant), sum: map[string]*big.Int{}}
	for _, q := range append(append([]request{}, sc.History...), sc.Request) {
		if n := f.step(c, st, sc.Grant, s, q); n != nil {
			s = n
		}
	}
	c.Set("evaluations", st.evals)
	c.Set("distinct_nontrivial", 2)
	c.Set("rule", "replay of one recorded history")
	c.Sample(sc)
}
