package props

// Sub-packages holding one check each register themselves on import.
import (
	_ "verif/harness/props/c07"
	_ "verif/harness/props/c15"
	_ "verif/harness/props/c16"
	_ "verif/harness/props/c17"
	_ "verif/harness/props/c18"
	_ "verif/harness/props/c19"
	_ "verif/harness/props/c24"
	_ "verif/harness/props/c26"
	_ "verif/harness/props/c27"
	_ "verif/harness/props/c28"
	_ "verif/harness/props/c30"
	_ "verif/harness/props/c31"
	_ "verif/harness/props/c32"
	_ "verif/harness/props/c34"
	_ "verif/harness/props/c35"
	_ "verif/harness/props/c36"
	_ "verif/harness/props/c37"
	_ "verif/harness/props/c38"
	_ "verif/harness/props/c44"
	_ "verif/harness/props/c46"
	_ "verif/harness/props/c47"
	_ "verif/harness/props/c48"
	_ "verif/harness/props/c49"
)
