package props

// Sub-packages holding one check each register themselves on import.
import (
	_ "verif/harness/props/c07"
	_ "verif/harness/props/c15"
	_ "verif/harness/props/c16"
	_ "verif/harness/props/c17"
	_ "verif/harness/props/c18"
	_ "verif/harness/props/c48"
)
