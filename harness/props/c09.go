package props

import (
	"context"
	"errors"
	"fmt"
	"sort"
	"strings"

	sdk "github.com/cosmos/cosmos-sdk/types"
	authtypes "github.com/cosmos/cosmos-sdk/x/auth/types"
	govtypes "github.com/cosmos/cosmos-sdk/x/gov/types"

	transfertypes "github.com/cosmos/ibc-go/v11/modules/apps/transfer/types"
	clienttypes "github.com/cosmos/ibc-go/v11/modules/core/02-client/types"
	channeltypes "github.com/cosmos/ibc-go/v11/modules/core/04-channel/types"
	channeltypesv2 "github.com/cosmos/ibc-go/v11/modules/core/04-channel/v2/types"
	host "github.com/cosmos/ibc-go/v11/modules/core/24-host"
	hostv2 "github.com/cosmos/ibc-go/v11/modules/core/24-host/v2"
	"github.com/cosmos/ibc-go/v11/modules/core/exported"
	ibctesting "github.com/cosmos/ibc-go/v11/testing"
	ibcmock "github.com/cosmos/ibc-go/v11/testing/mock"
	mockv2 "github.com/cosmos/ibc-go/v11/testing/mock/v2"

	"verif/harness/core"
	"verif/harness/ksim"
)

// C09: a failed receive discards the application's state changes but keeps receipt and error
// acknowledgement; success / async acknowledgements keep them — for every failure position.
func init() { core.Register("C09", "fault_enumeration", runC09) }

var c09Stores = append(append([]string{}, ksim.AllStores...), "bank")

// faultBank wraps the transfer keeper's bank keeper and fails the n-th fallible call.
type faultBank struct {
	transfertypes.BankKeeper
	calls, failAt int
}

var errInjected = errors.New("verif: injected bank failure")

func (f *faultBank) tick() error {
	f.calls++
	if f.calls == f.failAt {
		return errInjected
	}
	return nil
}

func (f *faultBank) SendCoins(ctx context.Context, a, b sdk.AccAddress, amt sdk.Coins) error {
	if err := f.tick(); err != nil {
		return err
	}
	return f.BankKeeper.SendCoins(ctx, a, b, amt)
}

func (f *faultBank) MintCoins(ctx context.Context, m string, amt sdk.Coins) error {
	if err := f.tick(); err != nil {
		return err
	}
	return f.BankKeeper.MintCoins(ctx, m, amt)
}

func (f *faultBank) BurnCoins(ctx context.Context, m string, amt sdk.Coins) error {
	if err := f.tick(); err != nil {
		return err
	}
	return f.BankKeeper.BurnCoins(ctx, m, amt)
}

func (f *faultBank) SendCoinsFromModuleToAccount(ctx context.Context, m string, r sdk.AccAddress, amt sdk.Coins) error {
	if err := f.tick(); err != nil {
		return err
	}
	return f.BankKeeper.SendCoinsFromModuleToAccount(ctx, m, r, amt)
}

func (f *faultBank) SendCoinsFromAccountToModule(ctx context.Context, s sdk.AccAddress, m string, amt sdk.Coins) error {
	if err := f.tick(); err != nil {
		return err
	}
	return f.BankKeeper.SendCoinsFromAccountToModule(ctx, s, m, amt)
}

func (f *faultBank) IsSendEnabledCoins(ctx context.Context, coins ...sdk.Coin) error {
	if err := f.tick(); err != nil {
		return err
	}
	return f.BankKeeper.IsSendEnabledCoins(ctx, coins...)
}

// coreKeysOfRecv is the set of core keys a receive is allowed to write besides application state.
func coreKeysOfRecv(p channeltypes.Packet, ordered bool) (recvKey, ackKey string) {
	if ordered {
		recvKey = "ibc/" + string(host.NextSequenceRecvKey(p.DestinationPort, p.DestinationChannel))
	} else {
		recvKey = "ibc/" + string(host.PacketReceiptKey(p.DestinationPort, p.DestinationChannel, p.Sequence))
	}
	return recvKey, "ibc/" + string(host.PacketAcknowledgementKey(p.DestinationPort, p.DestinationChannel, p.Sequence))
}

func diffOn(pre, post *ksim.World, chain int) []string {
	return ksim.DiffStores(pre.DumpStores(chain, c09Stores), post.DumpStores(chain, c09Stores))
}

func without(l []string, drop ...string) []string {
	var out []string
	for _, x := range l {
		skip := false
		for _, d := range drop {
			if x == d {
				skip = true
			}
		}
		if !skip {
			out = append(out, x)
		}
	}
	return out
}

func runC09(c *core.C) {
	wk := ksim.NewWorker(c.T, 2)
	evals := 0
	distinct := map[string]bool{}

	// ---- part M: mock application writing k1 + k2 keys into two module stores before answering ----
	pl := &PL{}
	base := pl.Init(wk)
	base.Flatten()
	storeX, storeY := wk.Chains[1].App.GetKey("transfer"), wk.Chains[1].App.GetKey("icahost")
	for _, route := range []int{rV1U, rV1O} {
		cp := pl.chanFor(route)
		ordered := route == rV1O
		for k1 := 0; k1 <= 3; k1++ {
			for k2 := 0; k2 <= core.Pick(c, 2, 3); k2++ {
				for _, outcome := range []string{"success", "error", "async"} {
					for nPkts := 1; nPkts <= core.Pick(c, 1, 2); nPkts++ {
						w := base.Fork()
						var pkts []channeltypes.Packet
						for i := 0; i < nPkts; i++ {
							th := clienttypes.NewHeight(1, 1_000_000)
							seq, r := w.SendV1(0, cp.PortA, cp.ChanA, th, 0, ibcmock.MockPacketData)
							ksim.MustOK("c09 send", r)
							pkts = append(pkts, channeltypes.NewPacket(ibcmock.MockPacketData, seq, cp.PortA, cp.ChanA, cp.PortB, cp.ChanB, th, 0))
						}
						w.Sync(1, pl.link.ClientB, 0)
						var wrote []string
						wk.Hook = ksim.MockBehaviour(func(ctx sdk.Context, p channeltypes.Packet) exported.Acknowledgement {
							for i := 0; i < k1; i++ {
								key := fmt.Sprintf("verif/x/%d/%d", p.Sequence, i)
								ctx.KVStore(storeX).Set([]byte(key), []byte{1})
								wrote = append(wrote, "transfer/"+key)
							}
							for i := 0; i < k2; i++ {
								key := fmt.Sprintf("verif/y/%d/%d", p.Sequence, i)
								ctx.KVStore(storeY).Set([]byte(key), []byte{2})
								wrote = append(wrote, "icahost/"+key)
							}
							switch outcome {
							case "error":
								return ibcmock.MockFailAcknowledgement
							case "async":
								return nil
							}
							return ibcmock.MockAcknowledgement
						})
						for _, p := range pkts {
							pre := w.Fork()
							wrote = nil
							r := w.RecvV1(1, 0, p, w.ClientLatest(1, pl.link.ClientB))
							evals++
							caseKey := fmt.Sprintf("mock/%s/k1=%d/k2=%d/%s", routeNames[route], k1, k2, outcome)
							distinct[caseKey] = true
							if r.Class != ksim.OK {
								c.Broken("mock receive %s failed: %s %v", caseKey, r, r.Err)
								wk.Hook = nil
								return
							}
							recvKey, ackKey := coreKeysOfRecv(p, ordered)
							d := diffOn(pre, w, 1)
							var want []string
							switch outcome {
							case "error":
								want = []string{recvKey, ackKey}
							case "success":
								want = append([]string{recvKey, ackKey}, wrote...)
							case "async":
								want = append([]string{recvKey}, wrote...)
							}
							sort.Strings(want)
							if strings.Join(d, "\x00") != strings.Join(want, "\x00") {
								c.Violation("mock-recv-diff/"+outcome+"/"+routeNames[route], fmt.Sprintf("%s: receive changed keys %q, expected exactly %q", caseKey, d, want), map[string]any{"case": caseKey, "changed": d, "expected": want})
							}
							if outcome != "async" {
								ackStored := w.DumpStores(1, c09Stores)[ackKey]
								wantAck := ibcmock.MockAcknowledgement.Acknowledgement()
								if outcome == "error" {
									wantAck = ibcmock.MockFailAcknowledgement.Acknowledgement()
								}
								if ackStored != string(channeltypes.CommitAcknowledgement(wantAck)) {
									c.Violation("mock-recv-ack/"+outcome, caseKey+": stored acknowledgement is not the application's acknowledgement", map[string]any{"case": caseKey})
								}
							}
						}
						wk.Hook = nil
					}
				}
			}
		}
	}
	c.Set("mock_cases", evals)
	// ---- part V: the IBC v2 receive path with a v2 mock application writing k keys before answering ----
	v2evals := 0
	{
		appB := wk.Chains[1].App.MockModuleV2B.IBCApp
		saved := appB.OnRecvPacket
		for _, route := range []int{rV2C, rV2A} {
			src, dst := pl.v2IDs(route)
			for k1 := 0; k1 <= 3; k1++ {
				// lead = number of payloads of the same packet that succeed (each writing one key) before the
				// payload under test answers: an error acknowledgement must discard their writes as well
				for _, lead := range []int{0, 1, 2} {
					for _, outcome := range []string{"success", "error", "async"} {
						if lead > 0 && outcome == "async" {
							continue // core rejects asynchronous answers in multi-payload packets
						}
						w := base.Fork()
						payload := mockv2.NewMockPayload(mockv2.PortIDA, mockv2.PortIDB)
						payloads := []channeltypesv2.Payload{payload}
						for i := 0; i < lead; i++ {
							payloads = append(payloads, payload)
						}
						tsec := uint64(w.CS[0].TimeNs()/1e9) + 3600
						seq, r := w.SendV2(0, src, tsec, ksim.Signer, payloads...)
						ksim.MustOK("c09 v2 send", r)
						pkt := channeltypesv2.NewPacket(seq, src, dst, tsec, payloads...)
						w.Sync(1, pl.link.ClientB, 0)
						var wrote []string
						calls := 0
						appB.OnRecvPacket = func(ctx sdk.Context, _, _ string, sq uint64, _ channeltypesv2.Payload, _ sdk.AccAddress) channeltypesv2.RecvPacketResult {
							calls++
							if calls <= lead {
								key := fmt.Sprintf("verif/v2/%d/lead%d", sq, calls)
								ctx.KVStore(storeX).Set([]byte(key), []byte{1})
								wrote = append(wrote, "transfer/"+key)
								return channeltypesv2.RecvPacketResult{Status: channeltypesv2.PacketStatus_Success, Acknowledgement: []byte("ok")}
							}
							for i := 0; i < k1; i++ {
								key := fmt.Sprintf("verif/v2/%d/%d", sq, i)
								ctx.KVStore(storeX).Set([]byte(key), []byte{1})
								wrote = append(wrote, "transfer/"+key)
							}
							switch outcome {
							case "error":
								return channeltypesv2.RecvPacketResult{Status: channeltypesv2.PacketStatus_Failure}
							case "async":
								return channeltypesv2.RecvPacketResult{Status: channeltypesv2.PacketStatus_Async}
							}
							return channeltypesv2.RecvPacketResult{Status: channeltypesv2.PacketStatus_Success, Acknowledgement: []byte("ok")}
						}
						pre := w.Fork()
						rr := w.RecvV2(1, 0, pkt, w.ClientLatest(1, pl.link.ClientB))
						appB.OnRecvPacket = saved
						v2evals++
						caseKey := fmt.Sprintf("mockv2/%s/lead=%d/k=%d/%s", routeNames[route], lead, k1, outcome)
						distinct[caseKey] = true
						if rr.Class != ksim.OK {
							c.Broken("v2 mock receive %s failed: %s %v", caseKey, rr, rr.Err)
							return
						}
						recvKey := "ibc/" + string(hostv2.PacketReceiptKey(dst, seq))
						ackKey := "ibc/" + string(hostv2.PacketAcknowledgementKey(dst, seq))
						asyncKey := "ibc/" + string(channeltypesv2.AsyncPacketKey(dst, seq))
						var want []string
						switch outcome {
						case "error":
							want = []string{recvKey, ackKey}
						case "success":
							want = append([]string{recvKey, ackKey}, wrote...)
						case "async":
							want = append([]string{recvKey, asyncKey}, wrote...)
						}
						sort.Strings(want)
						if d := diffOn(pre, w, 1); strings.Join(d, "\x00") != strings.Join(want, "\x00") {
							c.Violation("mockv2-recv-diff/"+outcome+"/"+routeNames[route], fmt.Sprintf("%s: receive changed keys %q, expected exactly %q", caseKey, d, want), map[string]any{"case": caseKey, "changed": d, "expected": want})
						}
					}
				}
			}
		}
	}
	c.Set("mockv2_cases", v2evals)
	evals += v2evals

	// ---- part T: the transfer stack (rate limiting -> packet forward -> transfer) with bank faults ----
	tw := wk.Root()
	l := tw.SetupClients(0, 1)
	tw.SetupConnection(l, 0)
	tch := tw.SetupChannel(l, "transfer", "transfer", transfertypes.V1, channeltypes.UNORDERED)
	tw.RegisterCounterparties(l)
	tw.Flatten()
	sender := wk.Chains[0].TC.SenderAccount.GetAddress()
	recvAddr := sdk.AccAddress([]byte("verif-receiver-00000"))
	authority := authtypes.NewModuleAddress(govtypes.ModuleName).String()
	tk := wk.Chains[1].App.TransferKeeper
	realBank := tk.BankKeeper
	defer func() { tk.BankKeeper = realBank }()

	type tcase struct {
		name     string
		prep     func(w *ksim.World) // extra set-up on B before the receive
		receiver string
	}
	blocked := ""
	for _, m := range []string{"mint", "distribution", "bonded_tokens_pool", "not_bonded_tokens_pool", "fee_collector", "gov"} {
		if a := authtypes.NewModuleAddress(m); realBank.BlockedAddr(a) {
			blocked = a.String()
			break
		}
	}
	if blocked == "" {
		c.Broken("no blocked module account found in the test app")
		return
	}
	cases := []tcase{
		{name: "native-arrives", receiver: recvAddr.String()},
		{name: "receive-disabled", receiver: recvAddr.String(), prep: func(w *ksim.World) {
			ksim.MustOK("disable receive", w.Tx(1, transfertypes.NewMsgUpdateParams(authority, transfertypes.NewParams(true, false))))
		}},
		{name: "blocked-receiver", receiver: blocked},
		{name: "invalid-receiver", receiver: "not-an-address"},
	}
	tEvals := 0
	for _, tc := range cases {
		w := tw.Fork()
		msg := transfertypes.NewMsgTransfer("transfer", tch.ChanA, sdk.NewInt64Coin(sdk.DefaultBondDenom, 7), sender.String(), tc.receiver, clienttypes.NewHeight(1, 1_000_000), 0, "")
		r := w.Tx(0, msg)
		ksim.MustOK("c09 transfer "+tc.name, r)
		p, err := ibctesting.ParseV1PacketFromEvents(r.Events)
		if err != nil {
			c.Broken("cannot parse packet: %v", err)
			return
		}
		w.Sync(1, l.ClientB, 0)
		if tc.prep != nil {
			tc.prep(w)
		}
		// fault-free run: count the fallible bank calls and record the diff
		fb := &faultBank{BankKeeper: realBank}
		tk.BankKeeper = fb
		clean := w.Fork()
		rr := clean.RecvV1(1, 0, p, clean.ClientLatest(1, l.ClientB))
		tk.BankKeeper = realBank
		if rr.Class != ksim.OK {
			c.Broken("transfer receive (%s) failed outright: %s %v", tc.name, rr, rr.Err)
			return
		}
		W := fb.calls
		recvKey, ackKey := coreKeysOfRecv(p, false)
		cleanDiff := diffOn(w, clean, 1)
		appDiff := without(cleanDiff, recvKey, ackKey)
		ack := clean.DumpStores(1, c09Stores)[ackKey]
		isErrAck := func(w2 *ksim.World) bool {
			// an error acknowledgement never equals the success acknowledgement commitment
			return w2.DumpStores(1, c09Stores)[ackKey] != string(channeltypes.CommitAcknowledgement(channeltypes.NewResultAcknowledgement([]byte{1}).Acknowledgement()))
		}
		tEvals++
		distinct["transfer/"+tc.name+"/fault-free"] = true
		if tc.name == "native-arrives" {
			if isErrAck(clean) || len(appDiff) == 0 {
				c.Violation("transfer-success-lost-state", fmt.Sprintf("fault-free receive: error ack=%v, application keys changed %q", isErrAck(clean), appDiff), map[string]any{"case": tc.name})
			}
		} else if !isErrAck(clean) || len(appDiff) != 0 || ack == "" {
			c.Violation("transfer-natural-failure/"+tc.name, fmt.Sprintf("receive with %s: error ack=%v ack-written=%v, application keys changed %q (expected none)", tc.name, isErrAck(clean), ack != "", appDiff), map[string]any{"case": tc.name, "changed": appDiff})
		}
		// every failure position
		for n := 1; n <= W; n++ {
			fb := &faultBank{BankKeeper: realBank, failAt: n}
			tk.BankKeeper = fb
			f := w.Fork()
			fr := f.RecvV1(1, 0, p, f.ClientLatest(1, l.ClientB))
			tk.BankKeeper = realBank
			tEvals++
			distinct[fmt.Sprintf("transfer/%s/fail-at-%d", tc.name, n)] = true
			if fr.Class != ksim.OK {
				c.Violation(fmt.Sprintf("transfer-fault-tx-failed/%s", tc.name), fmt.Sprintf("bank failure at call %d of %d made the whole receive fail (%s) instead of producing an error acknowledgement", n, W, fr), map[string]any{"case": tc.name, "fail_at": n})
				continue
			}
			d := diffOn(w, f, 1)
			want := []string{recvKey, ackKey}
			sort.Strings(want)
			if strings.Join(d, "\x00") != strings.Join(want, "\x00") || !isErrAck(f) {
				c.Violation(fmt.Sprintf("transfer-fault-diff/%s", tc.name), fmt.Sprintf("bank failure at call %d of %d: changed keys %q (expected exactly receipt and acknowledgement), error ack=%v", n, W, d, isErrAck(f)), map[string]any{"case": tc.name, "fail_at": n, "changed": d})
			}
		}
		c.Set("bank_calls_"+tc.name, W)
	}
	// voucher going home: B sends the voucher back, A unescrows — faults on A
	{
		w := tw.Fork()
		r := w.Tx(0, transfertypes.NewMsgTransfer("transfer", tch.ChanA, sdk.NewInt64Coin(sdk.DefaultBondDenom, 7), sender.String(), recvAddr.String(), clienttypes.NewHeight(1, 1_000_000), 0, ""))
		ksim.MustOK("c09 out", r)
		p, _ := ibctesting.ParseV1PacketFromEvents(r.Events)
		w.Sync(1, l.ClientB, 0)
		ksim.MustOK("c09 out recv", w.RecvV1(1, 0, p, w.ClientLatest(1, l.ClientB)))
		voucher := transfertypes.NewDenom(sdk.DefaultBondDenom, transfertypes.NewHop("transfer", tch.ChanB)).IBCDenom()
		r = w.Tx(1, transfertypes.NewMsgTransfer("transfer", tch.ChanB, sdk.NewInt64Coin(voucher, 7), recvAddr.String(), sender.String(), clienttypes.NewHeight(1, 1_000_000), 0, ""))
		ksim.MustOK("c09 back", r)
		back, _ := ibctesting.ParseV1PacketFromEvents(r.Events)
		w.Sync(0, l.ClientA, 1)
		tkA := wk.Chains[0].App.TransferKeeper
		realA := tkA.BankKeeper
		fb := &faultBank{BankKeeper: realA}
		tkA.BankKeeper = fb
		clean := w.Fork()
		rr := clean.RecvV1(0, 1, back, clean.ClientLatest(0, l.ClientA))
		tkA.BankKeeper = realA
		if rr.Class != ksim.OK {
			c.Broken("voucher return receive failed: %s %v", rr, rr.Err)
			return
		}
		W := fb.calls
		recvKey, ackKey := coreKeysOfRecv(back, false)
		if app := without(diffOn(w, clean, 0), recvKey, ackKey); len(app) == 0 {
			c.Violation("transfer-success-lost-state/return", "fault-free return of a voucher changed no application state", nil)
		}
		for n := 1; n <= W; n++ {
			fb := &faultBank{BankKeeper: realA, failAt: n}
			tkA.BankKeeper = fb
			f := w.Fork()
			fr := f.RecvV1(0, 1, back, f.ClientLatest(0, l.ClientA))
			tkA.BankKeeper = realA
			tEvals++
			distinct[fmt.Sprintf("transfer/voucher-returns/fail-at-%d", n)] = true
			d := diffOn(w, f, 0)
			want := []string{recvKey, ackKey}
			sort.Strings(want)
			if fr.Class != ksim.OK || strings.Join(d, "\x00") != strings.Join(want, "\x00") {
				c.Violation("transfer-fault-diff/voucher-returns", fmt.Sprintf("bank failure at call %d of %d on the unescrow path: result %s, changed keys %q (expected exactly receipt and acknowledgement)", n, W, fr, d), map[string]any{"fail_at": n, "changed": d})
			}
		}
		c.Set("bank_calls_voucher-returns", W)
	}
	// ---- part T2: the IBC v2 transfer stack (rate limiting v2 -> transfer v2) with bank faults, client and alias routes ----
	t2Evals := 0
	for _, rt := range []struct{ name, src, dst string }{{"v2-client", l.ClientA, l.ClientB}, {"v2-alias", tch.ChanA, tch.ChanB}} {
		for _, tc := range cases {
			w := tw.Fork()
			data := transfertypes.NewFungibleTokenPacketData(sdk.DefaultBondDenom, "7", sender.String(), tc.receiver, "")
			bz, err := transfertypes.MarshalPacketData(data, transfertypes.V1, transfertypes.EncodingJSON)
			if err != nil {
				c.Broken("cannot encode v2 transfer data: %v", err)
				return
			}
			payload := channeltypesv2.NewPayload("transfer", "transfer", transfertypes.V1, transfertypes.EncodingJSON, bz)
			tsec := uint64(w.CS[0].TimeNs()/1e9) + 3600
			seq, r := w.SendV2(0, rt.src, tsec, sender.String(), payload)
			ksim.MustOK("c09 v2 transfer "+rt.name+"/"+tc.name, r)
			pkt := channeltypesv2.NewPacket(seq, rt.src, rt.dst, tsec, payload)
			w.Sync(1, l.ClientB, 0)
			if tc.prep != nil {
				tc.prep(w)
			}
			fb := &faultBank{BankKeeper: realBank}
			tk.BankKeeper = fb
			clean := w.Fork()
			rr := clean.RecvV2(1, 0, pkt, clean.ClientLatest(1, l.ClientB))
			tk.BankKeeper = realBank
			if rr.Class != ksim.OK {
				c.Broken("v2 transfer receive (%s/%s) failed outright: %s %v", rt.name, tc.name, rr, rr.Err)
				return
			}
			W := fb.calls
			recvKey := "ibc/" + string(hostv2.PacketReceiptKey(rt.dst, seq))
			ackKey := "ibc/" + string(hostv2.PacketAcknowledgementKey(rt.dst, seq))
			errAck := string(channeltypesv2.CommitAcknowledgement(channeltypesv2.NewAcknowledgement(channeltypesv2.ErrorAcknowledgement[:])))
			isErr := func(w2 *ksim.World) bool { return w2.DumpStores(1, c09Stores)[ackKey] == errAck }
			appDiff := without(diffOn(w, clean, 1), recvKey, ackKey)
			t2Evals++
			distinct["transfer-"+rt.name+"/"+tc.name+"/fault-free"] = true
			if tc.name == "native-arrives" {
				if isErr(clean) || len(appDiff) == 0 || clean.DumpStores(1, c09Stores)[ackKey] == "" {
					c.Violation("transferv2-success-lost-state/"+rt.name, fmt.Sprintf("fault-free v2 receive: error ack=%v, application keys changed %q", isErr(clean), appDiff), map[string]any{"route": rt.name, "case": tc.name})
				}
			} else if !isErr(clean) || len(appDiff) != 0 {
				c.Violation("transferv2-natural-failure/"+rt.name+"/"+tc.name, fmt.Sprintf("v2 receive with %s: universal error ack=%v, application keys changed %q (expected none)", tc.name, isErr(clean), appDiff), map[string]any{"route": rt.name, "case": tc.name, "changed": appDiff})
			}
			for n := 1; n <= W; n++ {
				fb := &faultBank{BankKeeper: realBank, failAt: n}
				tk.BankKeeper = fb
				f := w.Fork()
				fr := f.RecvV2(1, 0, pkt, f.ClientLatest(1, l.ClientB))
				tk.BankKeeper = realBank
				t2Evals++
				distinct[fmt.Sprintf("transfer-%s/%s/fail-at-%d", rt.name, tc.name, n)] = true
				if fr.Class != ksim.OK {
					c.Violation("transferv2-fault-tx-failed/"+rt.name+"/"+tc.name, fmt.Sprintf("bank failure at call %d of %d made the whole v2 receive fail (%s) instead of producing the error acknowledgement", n, W, fr), map[string]any{"route": rt.name, "case": tc.name, "fail_at": n})
					continue
				}
				d := diffOn(w, f, 1)
				want := []string{recvKey, ackKey}
				sort.Strings(want)
				if strings.Join(d, "\x00") != strings.Join(want, "\x00") || !isErr(f) {
					c.Violation("transferv2-fault-diff/"+rt.name+"/"+tc.name, fmt.Sprintf("bank failure at call %d of %d: changed keys %q (expected exactly receipt and acknowledgement), universal error ack=%v", n, W, d, isErr(f)), map[string]any{"route": rt.name, "case": tc.name, "fail_at": n, "changed": d})
				}
			}
			c.Set("bank_calls_"+rt.name+"_"+tc.name, W)
		}
	}
	c.Set("transferv2_cases", t2Evals)
	tEvals += t2Evals
	c.Set("transfer_cases", tEvals)
	c.Set("evaluations", evals+tEvals)
	c.Set("distinct_nontrivial", len(distinct))
	c.Set("rule", "mock stacks: v2 mock application on the client and alias routes with 0..2 preceding successful payloads (one write each) in the same packet x k in 0..3 writes x success/error/async (async only for single-payload packets); v1 mock: every (ordering, k1 in 0..3 writes to one module store, k2 writes to another, outcome in success/error/async) x 1-2 packets; transfer stack (rate-limit -> packet-forward -> transfer): fault-free run, then a run failing the n-th fallible bank-keeper call for every n, for native arrival, receive disabled, blocked receiver, invalid receiver and the voucher-return (unescrow) path; the same four cases with every failure position for the IBC v2 transfer stack (rate-limit v2 -> transfer v2) on the client route and on the alias of the v1 channel; distinct = distinct (stack, behaviour, failure position) cases")
	c.Sample(map[string]any{"stack": "mock", "ordering": "UNORDERED", "writes": "3+2", "outcome": "error", "expected_diff": "receipt + error ack only"})
	c.Sample(map[string]any{"stack": "transfer", "case": "native-arrives", "fail_at_bank_call": 1, "expected_diff": "receipt + error ack only"})
	c.Assume("the failure injector wraps the exported BankKeeper field of the transfer keeper; ICA host failure positions are covered by C37")
	_ = errors.Is
}
