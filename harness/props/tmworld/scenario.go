package tmworld

import (
	"encoding/binary"
	"fmt"
	"sort"
	"time"

	"github.com/cosmos/gogoproto/proto"

	sdk "github.com/cosmos/cosmos-sdk/types"
	authtypes "github.com/cosmos/cosmos-sdk/x/auth/types"
	govtypes "github.com/cosmos/cosmos-sdk/x/gov/types"

	clienttypes "github.com/cosmos/ibc-go/v11/modules/core/02-client/types"
	clientv2types "github.com/cosmos/ibc-go/v11/modules/core/02-client/v2/types"
	connectiontypes "github.com/cosmos/ibc-go/v11/modules/core/03-connection/types"
	channeltypes "github.com/cosmos/ibc-go/v11/modules/core/04-channel/types"
	channeltypesv2 "github.com/cosmos/ibc-go/v11/modules/core/04-channel/v2/types"
	commitmenttypes "github.com/cosmos/ibc-go/v11/modules/core/23-commitment/types"
	host "github.com/cosmos/ibc-go/v11/modules/core/24-host"
	"github.com/cosmos/ibc-go/v11/modules/core/exported"
	ibctm "github.com/cosmos/ibc-go/v11/modules/light-clients/07-tendermint"
	ibctesting "github.com/cosmos/ibc-go/v11/testing"
	ibcmock "github.com/cosmos/ibc-go/v11/testing/mock"
	mockv2 "github.com/cosmos/ibc-go/v11/testing/mock/v2"

	"verif/harness/ksim"
)

// Authority is the address allowed to recover clients (the gov module account).
var Authority = authtypes.NewModuleAddress(govtypes.ModuleName).String()

// Client identifiers of the TM-client world (creation order is fixed).
const (
	Subject = "07-tendermint-0"
	Sub0    = "07-tendermint-1"
	Sub1    = "07-tendermint-2"
	Sub2    = "07-tendermint-3" // only with Config.CrossRev
	Sub3    = "07-tendermint-4" // only with Config.CrossRev
)

// SubDef describes a substitute client: created in the root world at block (I, V), never updated.
type SubDef struct {
	ID       string
	I, V     int
	Trusting time.Duration
}

// Ext is the reference bookkeeping (history variables) of the TM-client world. It is maintained from
// the operation labels, the block table and the result class of each step only - never from the
// client's own freeze / status / latest-height answers - except that removals of consensus states are
// adopted from the store (whether a removal was allowed is what the C20 / C22 step oracles decide).
type Ext struct {
	Cons       map[int]int // reference stored set of the subject: height index -> variant first stored
	Latest     int         // reference latest height index
	Frozen     bool        // frozen and not recovered since
	Trusting   int64       // current trusting period (recovery adopts the substitute's)
	Adv, Rec   int         // counters bounding the alphabet
	MonoBroken bool        // a recovery copied a consensus state whose time is not above the older ones
}

func (e *Ext) Clone() ksim.Ext {
	n := *e
	n.Cons = make(map[int]int, len(e.Cons)+1)
	for k, v := range e.Cons {
		n.Cons[k] = v
	}
	return &n
}

func (e *Ext) stored() []int {
	out := make([]int, 0, len(e.Cons))
	for i := range e.Cons {
		out = append(out, i)
	}
	sort.Ints(out)
	return out
}

func (e *Ext) KeyBytes() []byte {
	var out []byte
	for _, i := range e.stored() {
		out = append(out, byte(i), byte(e.Cons[i]))
	}
	out = append(out, 0xff, byte(e.Latest), b2b(e.Frozen), byte(e.Adv), byte(e.Rec), b2b(e.MonoBroken))
	return binary.BigEndian.AppendUint64(out, uint64(e.Trusting))
}

func b2b(b bool) byte {
	if b {
		return 1
	}
	return 0
}

// Config bounds the alphabet of one exploration.
type Config struct {
	P            Params
	MaxAdv       int  // AdvanceTime operations per history
	MaxRec       int  // successful recoveries per history
	Mis          bool // MsgUpdateClient carrying ibctm.Misbehaviour
	Uses         bool // use operations (fixtures: OPEN connection + channel on the subject, v2 counterparty)
	FullInactive bool // keep the complete update alphabet enabled while the reference says not Active
	CrossRev     bool // two more substitutes: chain id on the previous revision (numerically larger height) and on the next one
	Deltas       []time.Duration
}

// Oracles selects which property's oracle is armed.
type Oracles struct{ C20, C21, C22, C23 bool }

// Scenario is the TM-client world as a ksim.Scenario.
type Scenario struct {
	ksim.Base
	Cfg  Config
	Or   Oracles
	VC   *VChain
	Subs []SubDef
}

// New builds the scenario.
func New(cfg Config, or Oracles) *Scenario {
	if len(cfg.Deltas) == 0 {
		cfg.Deltas = []time.Duration{5 * time.Second, Trusting / 2, Trusting}
	}
	s := &Scenario{Cfg: cfg, Or: or, VC: GetVChain(cfg.P)}
	s.Subs = []SubDef{{ID: Sub0, I: cfg.P.N, V: 0, Trusting: TrustingSub}, {ID: Sub1, I: 5, V: 1, Trusting: Trusting}}
	if cfg.CrossRev {
		if cfg.P.Rev == 0 {
			panic("tmworld: CrossRev needs a revision above 0")
		}
		s.Subs = append(s.Subs, SubDef{ID: Sub2, I: ILowerRev, V: 0, Trusting: TrustingSub}, SubDef{ID: Sub3, I: IHigherRev, V: 0, Trusting: TrustingSub})
	}
	return s
}

func (s *Scenario) Chains() int      { return 1 }
func (s *Scenario) Stores() []string { return []string{"ibc"} }

func ext(w *ksim.World) *Ext { return w.Ext.(*Ext) }

func now(w *ksim.World) int64 { return w.CS[0].TimeNs() }

// CreateTM creates a tendermint client on chain A and returns its identifier.
func CreateTM(w *ksim.World, cs *ibctm.ClientState, cons *ibctm.ConsensusState) string {
	msg, err := clienttypes.NewMsgCreateClient(cs, cons, ksim.Signer)
	if err != nil {
		panic(err)
	}
	r := w.Tx(0, msg)
	ksim.MustOK("create client", r)
	var resp clienttypes.MsgCreateClientResponse
	if err := proto.Unmarshal(r.Resp, &resp); err != nil {
		panic(err)
	}
	return resp.ClientId
}

func (s *Scenario) Init(wk *ksim.Worker) *ksim.World {
	w := wk.Root()
	if now(w) != Now0 || wk.Chains[0].Rev != 1 {
		panic("tmworld: unexpected root world (time / revision of chain A)")
	}
	vc := s.VC
	if id := CreateTM(w, vc.ClientState(1, Trusting), vc.Cons(1, 0)); id != Subject {
		panic("tmworld: unexpected subject id " + id)
	}
	for _, sd := range s.Subs {
		if id := CreateTM(w, vc.ClientState(sd.I, sd.Trusting), vc.Cons(sd.I, sd.V)); id != sd.ID {
			panic("tmworld: unexpected substitute id " + id)
		}
	}
	if s.Cfg.Uses {
		k := wk.Chains[0].App.IBCKeeper
		ksim.MustOK("fixtures", w.Do(0, func(ctx sdk.Context) error {
			// an OPEN connection and an OPEN unordered mock channel over the subject client, written directly
			// (the virtual counterparty does not run handshakes); identifiers 0 are reserved for them
			conn := connectiontypes.NewConnectionEnd(connectiontypes.OPEN, Subject,
				connectiontypes.NewCounterparty("07-tendermint-0", "connection-0", ksim.Prefix), []*connectiontypes.Version{ibctesting.ConnectionVersion}, 0)
			k.ConnectionKeeper.SetConnection(ctx, "connection-0", conn)
			k.ConnectionKeeper.SetClientConnectionPaths(ctx, Subject, []string{"connection-0"})
			k.ConnectionKeeper.SetNextConnectionSequence(ctx, 1)
			ch := channeltypes.NewChannel(channeltypes.OPEN, channeltypes.UNORDERED, channeltypes.NewCounterparty("mock", "channel-0"), []string{"connection-0"}, ibcmock.Version)
			k.ChannelKeeper.SetChannel(ctx, "mock", "channel-0", ch)
			k.ChannelKeeper.SetNextSequenceSend(ctx, "mock", "channel-0", 1)
			k.ChannelKeeper.SetNextSequenceRecv(ctx, "mock", "channel-0", 1)
			k.ChannelKeeper.SetNextSequenceAck(ctx, "mock", "channel-0", 1)
			k.ChannelKeeper.SetNextChannelSequence(ctx, 1)
			return nil
		}))
		ksim.MustOK("register counterparty", w.Tx(0, clientv2types.NewMsgRegisterCounterparty(Subject, [][]byte{[]byte("ibc"), []byte("")}, "07-tendermint-0", ksim.Signer)))
	}
	w.Ext = &Ext{Cons: map[int]int{1: 0}, Latest: 1, Trusting: int64(Trusting)}
	w.Obs = nil
	return w
}

// ---- reference -------------------------------------------------------------------------------

// Status values of the reference.
const (
	Active  = "Active"
	Expired = "Expired"
	FrozenS = "Frozen"
)

// RefStatus is the reference status of the subject: Frozen if frozen and not recovered; else Expired if the
// latest consensus state is missing or latestTime + trustingPeriod <= now; else Active.
func (s *Scenario) RefStatus(e *Ext, nowNs int64) string {
	if e.Frozen {
		return FrozenS
	}
	v, ok := e.Cons[e.Latest]
	if !ok || s.VC.Block(e.Latest, v).TimeNs+e.Trusting <= nowNs {
		return Expired
	}
	return Active
}

// RefSubStatus is the reference status of a never-updated substitute client.
func (s *Scenario) RefSubStatus(sd SubDef, nowNs int64) string {
	if s.VC.Block(sd.I, sd.V).TimeNs+int64(sd.Trusting) <= nowNs {
		return Expired
	}
	return Active
}

func (s *Scenario) expired(e *Ext, i int, nowNs int64) bool {
	return s.VC.Block(i, e.Cons[i]).TimeNs+e.Trusting <= nowNs
}

// nonMonotone reports whether storing block (i, v) next to the reference stored set would break
// "timestamp strictly between the stored neighbours".
func (s *Scenario) nonMonotone(e *Ext, i, v int) bool {
	t := s.VC.Block(i, v).TimeNs
	st := e.stored()
	prev, next := -1, -1
	for _, j := range st {
		if j < i {
			prev = j
		}
		if j > i && next < 0 {
			next = j
		}
	}
	if prev >= 0 && s.VC.Block(prev, e.Cons[prev]).TimeNs >= t {
		return true
	}
	if next >= 0 && s.VC.Block(next, e.Cons[next]).TimeNs <= t {
		return true
	}
	return false
}

func (s *Scenario) monotone(e *Ext) bool {
	last := int64(-1 << 62)
	for _, i := range e.stored() {
		t := s.VC.Block(i, e.Cons[i]).TimeNs
		if t <= last {
			return false
		}
		last = t
	}
	return true
}

// misPairs are the misbehaviour submissions of the alphabet: (i1,v1) is Header1, (i2,v2) Header2.
var misPairs = [][4]int{
	{2, 0, 2, 1}, // fork at one height
	{6, 0, 6, 1}, // fork differing in time only
	{5, 0, 4, 1}, // time violation: the higher block is older
	{3, 1, 2, 0}, // time violation: equal times at different heights
	{5, 0, 4, 0}, // two honest headers: not misbehaviour
	{7, 0, 7, 1},
	{3, 0, 3, 2}, // fork differing in the next validators hash only
}

// IsMisbehaviour is the reference notion of misbehaviour for two (valid) headers.
func (s *Scenario) IsMisbehaviour(p [4]int) bool {
	if p[0] == p[2] {
		return p[1] != p[3] // every alternative block differs from the canonical one in time, app hash or next validators (all in the block hash)
	}
	return s.VC.Block(p[0], p[1]).TimeNs <= s.VC.Block(p[2], p[3]).TimeNs
}

// ---- alphabet --------------------------------------------------------------------------------

// Use operation kinds.
var useKinds = []string{"use-conninit", "use-verify", "use-verifyabsent", "use-chaninit", "use-chanclose", "use-send", "use-recv", "use-send2"}

func (s *Scenario) Ops(w *ksim.World) []ksim.Op {
	e := ext(w)
	vc := s.VC
	st := e.stored()
	var ops []ksim.Op
	active := s.RefStatus(e, now(w)) == Active
	n := 0
	for i := 2; i <= vc.P.N; i++ {
		for _, v := range vc.Variants(i) {
			for _, ti := range st {
				if ti >= i {
					continue
				}
				if !active && !s.Cfg.FullInactive && n >= 2 {
					continue // inactive client: two canaries are enough when status gating is not the subject
				}
				ops = append(ops, ksim.Op{K: "upd", A: []int{i, v, ti}})
				n++
			}
		}
	}
	if s.Cfg.Mis {
		n = 0
		for pi, p := range misPairs {
			if !vc.Has(p[0], p[1]) || !vc.Has(p[2], p[3]) {
				continue
			}
			for _, ti := range st {
				if ti >= p[2] {
					continue
				}
				if !active && !s.Cfg.FullInactive && n >= 1 {
					continue
				}
				ops = append(ops, ksim.Op{K: "mis", A: []int{pi, ti}})
				n++
			}
		}
	}
	if e.Adv < s.Cfg.MaxAdv {
		for k := range s.Cfg.Deltas {
			ops = append(ops, ksim.Op{K: "adv", A: []int{k}})
		}
	}
	if e.Rec < s.Cfg.MaxRec {
		for si := range s.Subs {
			if vc.Has(s.Subs[si].I, s.Subs[si].V) {
				ops = append(ops, ksim.Op{K: "rec", A: []int{si}})
			}
		}
	}
	if s.Cfg.Uses {
		// proofs are taken at the reference latest height when stored, else at the highest stored height
		at := e.Latest
		if _, ok := e.Cons[at]; !ok && len(st) > 0 {
			at = st[len(st)-1]
		}
		for _, k := range useKinds {
			ops = append(ops, ksim.Op{K: k, A: []int{at}})
		}
	}
	return ops
}

func (s *Scenario) Apply(w *ksim.World, op ksim.Op) ksim.Result {
	if len(op.K) > 4 && op.K[:4] == "use-" {
		// use operations run on a private fork which is dropped: only their outcome matters
		return s.use(w.Fork(), op)
	}
	r := s.apply(w, op)
	// Removals are adopted from the store whatever their cause: whether a removal was allowed (oldest,
	// expired) is judged by the step oracles of C20 / C22 from the pre and post states, and the status
	// reference ("latest consensus state missing") must follow what is really stored.
	e := ext(w)
	for _, i := range e.stored() {
		if !w.HasConsensus(0, Subject, s.VC.H(i)) {
			delete(e.Cons, i)
		}
	}
	return r
}

func (s *Scenario) apply(w *ksim.World, op ksim.Op) ksim.Result {
	e := ext(w)
	vc := s.VC
	switch op.K {
	case "upd":
		i, v, ti := op.A[0], op.A[1], op.A[2]
		msg, err := clienttypes.NewMsgUpdateClient(Subject, vc.Header(i, v, ti), ksim.Signer)
		if err != nil {
			panic(err)
		}
		r := w.Tx(0, msg)
		if r.Class != ksim.OK {
			return r
		}
		if cur, ok := e.Cons[i]; ok {
			if !vc.SameCons(i, cur, v) {
				e.Frozen = true // conflicting header for a stored height
				return r
			}
			return r // duplicate: nothing but the optional pruning
		}
		if s.nonMonotone(e, i, v) {
			e.Frozen = true
			return r
		}
		e.Cons[i] = v
		if i > e.Latest {
			e.Latest = i
		}
		return r
	case "mis":
		p, ti := misPairs[op.A[0]], op.A[1]
		mb := ibctm.NewMisbehaviour(Subject, vc.Header(p[0], p[1], ti), vc.Header(p[2], p[3], ti))
		msg, err := clienttypes.NewMsgUpdateClient(Subject, mb, ksim.Signer)
		if err != nil {
			panic(err)
		}
		r := w.Tx(0, msg)
		if r.Class == ksim.OK && s.IsMisbehaviour(p) {
			e.Frozen = true
		}
		return r
	case "adv":
		w.Commit(0, s.Cfg.Deltas[op.A[0]])
		e.Adv++
		return ksim.Result{Class: ksim.OK}
	case "rec":
		sd := s.Subs[op.A[0]]
		r := w.Tx(0, clienttypes.NewMsgRecoverClient(Authority, Subject, sd.ID))
		if r.Class == ksim.OK {
			e.Frozen = false
			e.Cons[sd.I] = sd.V
			e.Latest = sd.I
			e.Trusting = int64(sd.Trusting)
			e.Rec++
			if !s.monotone(e) {
				e.MonoBroken = true
			}
		}
		return r
	}
	panic("unknown op " + op.K)
}

func minStored(e *Ext) (int, bool) {
	st := e.stored()
	if len(st) == 0 {
		return 0, false
	}
	return st[0], true
}

func (s *Scenario) use(w *ksim.World, op ksim.Op) ksim.Result {
	vc := s.VC
	e := ext(w)
	at := op.A[0]
	v := e.Cons[at]
	k := w.W.Chains[0].App.IBCKeeper
	path := func(key string) exported.Path { return commitmenttypes.NewMerklePath([]byte("ibc"), []byte(key)) }
	switch op.K {
	case "use-conninit":
		return w.Tx(0, connectiontypes.NewMsgConnectionOpenInit(Subject, "07-tendermint-7", ksim.Prefix, ibctesting.DefaultOpenInitVersion, 0, ksim.Signer))
	case "use-verify":
		if !vc.Has(at, v) {
			return ksim.Result{Class: ksim.ERR, Code: "harness/no-block"}
		}
		b := vc.Block(at, v)
		return w.Do(0, func(ctx sdk.Context) error {
			return k.ClientKeeper.VerifyMembership(ctx, Subject, b.Height, 0, 0, b.Store.Proof("ibc", VKey), path(VKey), VValue(at, v))
		})
	case "use-verifyabsent":
		if !vc.Has(at, v) {
			return ksim.Result{Class: ksim.ERR, Code: "harness/no-block"}
		}
		b := vc.Block(at, v)
		return w.Do(0, func(ctx sdk.Context) error {
			return k.ClientKeeper.VerifyNonMembership(ctx, Subject, b.Height, 0, 0, b.Store.Proof("ibc", VAbsentKey), path(VAbsentKey))
		})
	case "use-chaninit":
		return w.Tx(0, channeltypes.NewMsgChannelOpenInit("mock", ibcmock.Version, channeltypes.UNORDERED, []string{"connection-0"}, "mock", ksim.Signer))
	case "use-chanclose":
		return w.Tx(0, channeltypes.NewMsgChannelCloseInit("mock", "channel-0", ksim.Signer))
	case "use-send":
		_, r := w.SendV1(0, "mock", "channel-0", clienttypes.NewHeight(vc.P.Rev, 1_000_000_000_000), 0, ibcmock.MockPacketData)
		return r
	case "use-recv":
		if !vc.Has(at, v) {
			return ksim.Result{Class: ksim.ERR, Code: "harness/no-block"}
		}
		b := vc.Block(at, v)
		pcKey := string(host.PacketCommitmentKey("mock", "channel-0", 1))
		return w.Tx(0, channeltypes.NewMsgRecvPacket(vc.Packet, b.Store.Proof("ibc", pcKey), b.Height, ksim.Signer))
	case "use-send2":
		pl := mockv2.NewMockPayload(mockv2.PortIDA, mockv2.PortIDB)
		_, r := w.SendV2(0, Subject, uint64(now(w)/1e9)+3600, ksim.Signer, pl)
		return r
	}
	panic("unknown op " + op.K)
}

var _ = channeltypesv2.Packet{}
var _ = fmt.Sprint

// Describe records the alphabet and the assumptions shared by the TM-client world checks.
func Describe(c interface {
	Set(string, any)
	Assume(string)
}) {
	c.Set("alphabet", "upd(i,v,ti) = MsgUpdateClient with the signed header of block variant v at height index i trusting stored height index ti (any order: gap filling, past heights, duplicates, conflicting variants) | mis(pair,ti) = MsgUpdateClient carrying ibctm.Misbehaviour (forks, time violations, one non-misbehaviour pair) | adv(k) = commit chain A and advance its clock by 5 s / trusting/2 / trusting | rec(s) = MsgRecoverClient by the gov authority with substitute s | use-* = ConnOpenInit, ClientKeeper.VerifyMembership / VerifyNonMembership with real proofs, ChanOpenInit, ChanCloseInit, SendPacket (v1), MsgRecvPacket with a real commitment proof, MsgSendPacket (v2)")
	c.Set("block_tree", "canonical blocks 10 s apart (block 1 is exactly trusting/2 old at the root); alternatives: 2b,7b same time other app hash; 3b time equal to 2a; 3c same time and app hash as 3a but another next-validators hash; 4b later than 5a; 5b earlier than 4a; 6b same app hash, time +1 s; client: trusting 100 s, unbonding 400 s, drift 10 s; substitutes: (N,a) trusting 150 s, (5,b) trusting 100 s; in C21 also (rev-1, Base+N+3) under chain id virt-<rev-1> and (rev+1, 1) under virt-<rev+1>, both trusting 150 s, otherwise identical parameters")
	c.Assume("the counterparty is virtual: its block tree, validator signatures (1 validator, fixed key), committed IAVL stores and ICS-23 proofs are produced by the harness; every header is properly signed by the one validator set (header acceptance as such is C24's subject)")
	c.Assume("one message per transaction, ante handlers not on the path; chain A's clock moves only through adv")
}
