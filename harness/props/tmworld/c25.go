package tmworld

import (
	"bytes"
	"encoding/binary"
	"fmt"
	"math/big"
	"sort"
	"strings"
	"sync"
	"time"

	ics23 "github.com/cosmos/ics23/go"

	"github.com/cosmos/cosmos-sdk/codec"
	"github.com/cosmos/cosmos-sdk/crypto/keys/secp256k1"
	cryptotypes "github.com/cosmos/cosmos-sdk/crypto/types"
	upgradetypes "github.com/cosmos/cosmos-sdk/x/upgrade/types"

	clienttypes "github.com/cosmos/ibc-go/v11/modules/core/02-client/types"
	commitmenttypes "github.com/cosmos/ibc-go/v11/modules/core/23-commitment/types"
	host "github.com/cosmos/ibc-go/v11/modules/core/24-host"
	solomachine "github.com/cosmos/ibc-go/v11/modules/light-clients/06-solomachine"
	ibctm "github.com/cosmos/ibc-go/v11/modules/light-clients/07-tendermint"
	ibctesting "github.com/cosmos/ibc-go/v11/testing"

	"verif/harness/ksim"
)

// ---- C25 world: recovery and upgrade --------------------------------------------------------------
//
// Chain A holds a population of clients (tendermint in every status, height and parameter variant,
// solo machines, upgrade subjects whose latest consensus root commits an upgrade plan of the virtual
// counterparty). The alphabet is MsgRecoverClient for every ordered pair of clients and MsgUpgradeClient
// for the requests listed in upReqs; histories are sequences of those.

// CParams are the client-state parameters the reference tracks.
type CParams struct {
	ChainID   string
	TLn, TLd  uint64
	Trusting  time.Duration
	Unbonding time.Duration
	Drift     time.Duration
	Specs     string // "sdk" | "iavl-only"
	Path      string // "std" | "other"
	Allow     bool   // deprecated AllowUpdateAfter* flags
}

// CModel is the reference model of one client.
type CModel struct {
	ID       string
	Name     string
	Solo     bool
	SoloKey  int
	Frozen   bool
	Latest   clienttypes.Height
	ConsTime int64 // timestamp of the consensus state at Latest (tendermint)
	P        CParams
	Plan     int // upgrade plan committed by the root at Latest (-1: none)
}

// UpPlan is what the virtual counterparty committed in its upgrade store at plan height 5.
type UpPlan struct {
	Name      string
	ChainID   string
	NewHeight clienttypes.Height
	Unbonding time.Duration
	store     *VStore
	client    *ibctm.ClientState // committed (custom fields zeroed)
	cons      *ibctm.ConsensusState
}

// C25 time line: everything is created at Now0, then chain A's clock jumps by c25Jump.
const (
	c25Jump      = 200 * time.Second
	c25Long      = 10000 * time.Second
	c25Short     = 100 * time.Second
	c25Unbonding = 30000 * time.Second
	c25H         = 5 // latest height of subjects and plan height
)

var (
	c25ConsTime = Now0 - sec(10)
	c25PlanTime = Now0 - sec(5)
)

// Ext25 is the reference bookkeeping of the C25 world.
type Ext25 struct{ M []CModel }

func (e *Ext25) Clone() ksim.Ext { return &Ext25{M: append([]CModel{}, e.M...)} }
func (e *Ext25) KeyBytes() []byte {
	var out []byte
	for _, m := range e.M {
		out = append(out, b2b(m.Frozen), byte(m.Plan+1))
		out = binary.BigEndian.AppendUint64(out, m.Latest.RevisionNumber)
		out = binary.BigEndian.AppendUint64(out, m.Latest.RevisionHeight)
		out = binary.BigEndian.AppendUint64(out, uint64(m.P.Trusting))
	}
	return out
}

// C25Config selects the population.
type C25Config struct {
	Core     bool // small population (deeper histories)
	Thorough bool // more parameter variants and plans
}

// cdef is the recipe of one client of the root world.
type cdef struct {
	Name   string
	Solo   bool
	Status string
	H      uint64
	Mod    string
	Plan   int
	Key    int
	Rev    uint64 // revision of the tendermint client's chain id / latest height (0 = default revision 1)
}

// upReq is one MsgUpgradeClient request shape.
type upReq struct {
	Name        string
	ClientProof string // "right" | "cons-path" | "other-height"
	ConsProof   string // "right" | "client-path" | "other-height"
	Tamper      string // "" | "unbonding" | "cons-time" | "height" | "chainid"
	valid       bool
}

var upReqs = []upReq{
	{Name: "exact", ClientProof: "right", ConsProof: "right", valid: true},
	{Name: "client-proof-of-cons-path", ClientProof: "cons-path", ConsProof: "right"},
	{Name: "client-proof-other-height", ClientProof: "other-height", ConsProof: "right"},
	{Name: "cons-proof-of-client-path", ClientProof: "right", ConsProof: "client-path"},
	{Name: "cons-proof-other-height", ClientProof: "right", ConsProof: "other-height"},
	{Name: "both-other-height", ClientProof: "other-height", ConsProof: "other-height"},
	{Name: "submitted-unbonding-differs", ClientProof: "right", ConsProof: "right", Tamper: "unbonding"},
	{Name: "submitted-cons-time-differs", ClientProof: "right", ConsProof: "right", Tamper: "cons-time"},
	{Name: "submitted-height-differs", ClientProof: "right", ConsProof: "right", Tamper: "height"},
	{Name: "submitted-chainid-differs", ClientProof: "right", ConsProof: "right", Tamper: "chainid"},
}

// S25 is the C25 scenario.
type S25 struct {
	ksim.Base
	Cfg   C25Config
	defs  []cdef
	plans []*UpPlan
	plain *VStore
	vals  *ksim.ValSet

	mu    sync.Mutex
	ids   []string // client identifiers in definition order (identical on every worker)
	built bool

	// Observations (not verdicts) collected while exploring.
	ObsMu sync.Mutex
	Obs   map[string]string
}

// New25 builds the scenario.
func New25(cfg C25Config) *S25 {
	s := &S25{Cfg: cfg, Obs: map[string]string{}}
	s.vals = ksim.NewValSetPowers("tmworld-val", []int64{10})
	// upgrade plans: new height {lower, equal, higher in the revision, next revision} x unbonding {smaller, equal, larger}
	type hv struct {
		name, chain string
		h           clienttypes.Height
	}
	heights := []hv{{"next-revision", "virt-2", clienttypes.NewHeight(2, 1)}, {"lower", "virt-1", clienttypes.NewHeight(1, c25H-1)},
		{"equal", "virt-1", clienttypes.NewHeight(1, c25H)}, {"higher-same-revision", "virt-1", clienttypes.NewHeight(1, c25H+4)}}
	type uv struct {
		name string
		u    time.Duration
	}
	unb := []uv{{"equal", c25Unbonding}, {"smaller", 20000 * time.Second}, {"larger", 40000 * time.Second}}
	if cfg.Core {
		heights, unb = heights[:2], unb[:2]
	}
	for _, h := range heights {
		for _, u := range unb {
			s.plans = append(s.plans, &UpPlan{Name: h.name + "/unbonding-" + u.name, ChainID: h.chain, NewHeight: h.h, Unbonding: u.u})
		}
	}
	if !cfg.Core {
		// shrinking so far that the scaled trusting period truncates to zero: the upgraded client cannot be valid
		s.plans = append(s.plans, &UpPlan{Name: "next-revision/unbonding-1ns", ChainID: "virt-2", NewHeight: clienttypes.NewHeight(2, 1), Unbonding: 1})
		// not a multiple: 10000 s * 20000.000000008 s / 30000 s
		s.plans = append(s.plans, &UpPlan{Name: "next-revision/unbonding-odd", ChainID: "virt-2", NewHeight: clienttypes.NewHeight(2, 1), Unbonding: 20000*time.Second + 8})
	}
	rounding := -1
	if cfg.Thorough {
		// 2e18 ns * 10 ns / 6666666666666666667 ns = 2.99999999999999999985: the 18-digit decimal division rounds it to 3
		rounding = len(s.plans)
		s.plans = append(s.plans, &UpPlan{Name: "next-revision/unbonding-10ns", ChainID: "virt-2", NewHeight: clienttypes.NewHeight(2, 1), Unbonding: 10})
	}
	add := func(d cdef) { s.defs = append(s.defs, d) }
	// subjects
	add(cdef{Name: "subject-active", Status: Active, H: c25H, Plan: -1})
	add(cdef{Name: "subject-expired", Status: Expired, H: c25H, Plan: -1})
	add(cdef{Name: "subject-frozen", Status: FrozenS, H: c25H, Plan: -1})
	// substitutes: status x height
	sts := []string{Active, Expired, FrozenS}
	for _, st := range sts {
		for _, h := range []uint64{c25H - 1, c25H, c25H + 1} {
			if cfg.Core && st != Active && h != c25H+1 {
				continue
			}
			add(cdef{Name: fmt.Sprintf("substitute-%s-h%d", strings.ToLower(st), h), Status: st, H: h, Plan: -1})
		}
	}
	// other revisions (chain id virt-2 / virt-3; everything else matches): heights are ordered revision first, so
	// a revision-1 substitute with a numerically larger revision height is NOT above a revision-2 subject, while a
	// revision-2 / revision-3 substitute is above every revision-1 subject whatever its revision height
	if !cfg.Core {
		add(cdef{Name: "subject-frozen-rev2-h4", Status: FrozenS, H: c25H - 1, Plan: -1, Rev: 2})
		add(cdef{Name: "subject-expired-rev2-h4", Status: Expired, H: c25H - 1, Plan: -1, Rev: 2})
		add(cdef{Name: "substitute-active-rev2-h3", Status: Active, H: c25H - 2, Plan: -1, Rev: 2})
		add(cdef{Name: "substitute-active-rev3-h1", Status: Active, H: 1, Plan: -1, Rev: 3})
	}
	// substitutes differing in exactly one parameter (Active, greater height)
	mods := []string{"trustlevel", "unbonding", "drift", "specs", "path", "trusting", "chainid", "allowflags"}
	if cfg.Core {
		mods = []string{"trustlevel", "trusting", "chainid"}
	}
	for _, m := range mods {
		add(cdef{Name: "substitute-differs-" + m, Status: Active, H: c25H + 2, Mod: m, Plan: -1})
	}
	// solo machines
	add(cdef{Name: "solo-frozen", Solo: true, Status: FrozenS, H: 5, Key: 0, Plan: -1})
	add(cdef{Name: "solo-active", Solo: true, Status: Active, H: 5, Key: 1, Plan: -1})
	add(cdef{Name: "solo-substitute", Solo: true, Status: Active, H: 9, Key: 2, Plan: -1})
	if !cfg.Core {
		add(cdef{Name: "solo-substitute-same-key", Solo: true, Status: Active, H: 9, Key: 0, Plan: -1})
	}
	// upgrade subjects: one Active client per plan, plus Expired / Frozen ones on the first plan
	for pi := range s.plans {
		add(cdef{Name: "upgrade-subject/" + s.plans[pi].Name, Status: Active, H: c25H, Plan: pi})
	}
	add(cdef{Name: "upgrade-subject-expired", Status: Expired, H: c25H, Plan: 0})
	add(cdef{Name: "upgrade-subject-frozen", Status: FrozenS, H: c25H, Plan: 0})
	if cfg.Thorough {
		add(cdef{Name: "upgrade-subject/huge-periods", Status: Active, H: c25H, Plan: rounding, Mod: "huge"})
		add(cdef{Name: "subject-frozen-short-trusting", Status: FrozenS, H: c25H, Plan: -1, Mod: "short"})
		add(cdef{Name: "substitute-differs-trustlevel-and-drift", Status: Active, H: c25H + 2, Plan: -1, Mod: "trustlevel+drift"})
	}
	add(cdef{Name: "bystander", Status: Active, H: c25H, Plan: -1})
	return s
}

func (s *S25) Chains() int      { return 1 }
func (s *S25) Stores() []string { return ksim.AllStores }

func ext25(w *ksim.World) *Ext25 { return w.Ext.(*Ext25) }

func defaultParams() CParams {
	return CParams{ChainID: "virt-1", TLn: 1, TLd: 3, Trusting: c25Long, Unbonding: c25Unbonding, Drift: Drift, Specs: "sdk", Path: "std"}
}

func (d cdef) params() CParams {
	p := defaultParams()
	if d.Status == Expired {
		p.Trusting = c25Short
	}
	if d.Rev > 1 {
		p.ChainID = fmt.Sprintf("virt-%d", d.Rev)
	}
	switch d.Mod {
	case "trustlevel":
		p.TLn, p.TLd = 2, 3
	case "unbonding":
		p.Unbonding = 2 * c25Unbonding
	case "drift":
		p.Drift = 2 * Drift
	case "specs":
		p.Specs = "iavl-only"
	case "path":
		p.Path = "other"
	case "trusting":
		p.Trusting = 2 * c25Long
	case "chainid":
		p.ChainID = "other-1"
	case "allowflags":
		p.Allow = true
	case "huge":
		p.Trusting, p.Unbonding = 2_000_000_000_000_000_000, 6_666_666_666_666_666_667
	case "short":
		p.Trusting = c25Short
	case "trustlevel+drift":
		p.TLn, p.TLd, p.Drift = 2, 3, 2*Drift
	}
	return p
}

func specsOf(name string) []*ics23.ProofSpec {
	if name == "iavl-only" {
		return []*ics23.ProofSpec{ics23.IavlSpec}
	}
	return commitmenttypes.GetSDKSpecs()
}

func pathOf(name string) []string {
	if name == "other" {
		return []string{"upgrade", "otherIBCState"}
	}
	return ibctesting.UpgradePath
}

func (p CParams) clientState(latest clienttypes.Height) *ibctm.ClientState {
	cs := ibctm.NewClientState(p.ChainID, ibctm.Fraction{Numerator: p.TLn, Denominator: p.TLd}, p.Trusting, p.Unbonding, p.Drift, latest, specsOf(p.Specs), pathOf(p.Path))
	cs.AllowUpdateAfterExpiry, cs.AllowUpdateAfterMisbehaviour = p.Allow, p.Allow
	return cs
}

// paramsMatch is the reference notion of "the substitute otherwise has matching parameters":
// everything but chain id, trusting period, latest / frozen height (and the deprecated flags).
func paramsMatch(a, b CParams) bool {
	return a.TLn == b.TLn && a.TLd == b.TLd && a.Unbonding == b.Unbonding && a.Drift == b.Drift && a.Specs == b.Specs && a.Path == b.Path
}

func soloKey(i int) cryptotypes.PrivKey {
	return secp256k1.GenPrivKeyFromSecret([]byte(fmt.Sprintf("tmworld-c25-solo-key-%d", i)))
}

func upgradeKeys(h int64) (client, cons string) {
	return string(upgradetypes.UpgradedClientKey(h)), string(upgradetypes.UpgradedConsStateKey(h))
}

// buildStores commits the upgrade plans into virtual counterparty states (once; needs the app codec).
func (s *S25) buildStores(cdc codec.BinaryCodec) {
	s.mu.Lock()
	defer s.mu.Unlock()
	if s.built {
		return
	}
	ck, sk := upgradeKeys(c25H)
	ock, osk := upgradeKeys(c25H - 1)
	prove := [][2]string{{"upgrade", ck}, {"upgrade", sk}, {"upgrade", ock}, {"upgrade", osk}}
	for _, p := range s.plans {
		full := ibctm.NewClientState(p.ChainID, ibctm.DefaultTrustLevel, c25Long, p.Unbonding, Drift, p.NewHeight, commitmenttypes.GetSDKSpecs(), ibctesting.UpgradePath)
		p.client = full.ZeroCustomFields()
		p.cons = ibctm.NewConsensusState(time.Unix(0, c25PlanTime).UTC(), commitmenttypes.NewMerkleRoot([]byte(ibctm.SentinelRoot)), s.vals.Set.Hash())
		cbz, err := cdc.MarshalInterface(p.client)
		if err != nil {
			panic(err)
		}
		sbz, err := cdc.MarshalInterface(p.cons)
		if err != nil {
			panic(err)
		}
		p.store = NewVStore(map[string]map[string][]byte{
			"ibc":     {VKey: []byte("plan-" + p.Name)},
			"upgrade": {ck: cbz, sk: sbz, ock: cbz, osk: sbz},
		}, prove)
	}
	s.plain = NewVStore(map[string]map[string][]byte{"ibc": {VKey: []byte("plain")}, "upgrade": {"plan": []byte("none")}}, prove)
	s.built = true
}

func (s *S25) rootOf(plan int) []byte {
	if plan >= 0 {
		return s.plans[plan].store.AppHash
	}
	return s.plain.AppHash
}

func (s *S25) Init(wk *ksim.Worker) *ksim.World {
	w := wk.Root()
	if now(w) != Now0 {
		panic("tmworld: unexpected root time")
	}
	app := wk.Chains[0].App
	s.buildStores(app.AppCodec())
	e := &Ext25{}
	var ids []string
	// two conflicting signed headers at height 8 used to freeze tendermint clients
	fork := func(chainID string, trusted clienttypes.Height, tag string) *ibctm.Header {
		raw := RawHeader(chainID, 8, Now0-sec(2), []byte("fork-app-hash-" + tag + "-0123456789abcdef")[:32], s.vals.Set, s.vals.Set)
		h, err := ksim.SignHeader(raw, s.vals, trusted, s.vals.Set)
		if err != nil {
			panic(err)
		}
		return h
	}
	for _, d := range s.defs {
		m := CModel{Name: d.Name, Solo: d.Solo, SoloKey: d.Key, Plan: d.Plan}
		if d.Solo {
			solo := ibctesting.NewSolomachine(wk.T, app.AppCodec(), "solo-"+d.Name, "diversifier", 1)
			pk := soloKey(d.Key)
			solo.PrivateKeys, solo.PublicKeys, solo.PublicKey = []cryptotypes.PrivKey{pk}, []cryptotypes.PubKey{pk.PubKey()}, pk.PubKey()
			solo.Sequence, solo.Time = d.H, 10
			msg, err := clienttypes.NewMsgCreateClient(solo.ClientState(), solo.ConsensusState(), ksim.Signer)
			if err != nil {
				panic(err)
			}
			r := w.Tx(0, msg)
			ksim.MustOK("create solo machine", r)
			var resp clienttypes.MsgCreateClientResponse
			if err := resp.Unmarshal(r.Resp); err != nil {
				panic(err)
			}
			m.ID = resp.ClientId
			m.Latest = clienttypes.NewHeight(0, d.H)
			if d.Status == FrozenS {
				solo.ClientID = m.ID
				um, err := clienttypes.NewMsgUpdateClient(m.ID, solo.CreateMisbehaviour(), ksim.Signer)
				if err != nil {
					panic(err)
				}
				ksim.MustOK("freeze solo machine", w.Tx(0, um))
				m.Frozen = true
			}
		} else {
			m.P = d.params()
			m.Latest = clienttypes.NewHeight(max(d.Rev, 1), d.H)
			m.ConsTime = c25ConsTime
			cons := ibctm.NewConsensusState(time.Unix(0, c25ConsTime).UTC(), commitmenttypes.NewMerkleRoot(s.rootOf(d.Plan)), s.vals.Set.Hash())
			m.ID = CreateTM(w, m.P.clientState(m.Latest), cons)
			if d.Status == FrozenS {
				mb := ibctm.NewMisbehaviour(m.ID, fork(m.P.ChainID, m.Latest, "a"), fork(m.P.ChainID, m.Latest, "b"))
				um, err := clienttypes.NewMsgUpdateClient(m.ID, mb, ksim.Signer)
				if err != nil {
					panic(err)
				}
				ksim.MustOK("freeze tendermint client", w.Tx(0, um))
				m.Frozen = true
			}
		}
		ids = append(ids, m.ID)
		e.M = append(e.M, m)
	}
	w.Commit(0, c25Jump)
	w.Ext = e
	w.Obs = nil
	s.mu.Lock()
	if s.ids == nil {
		s.ids = ids
	} else if fmt.Sprint(s.ids) != fmt.Sprint(ids) {
		s.mu.Unlock()
		panic("tmworld: client identifiers differ between workers")
	}
	s.mu.Unlock()
	// the root world must realise the intended statuses
	for i, d := range s.defs {
		if got := s.implStatus(w, e.M[i].ID); got != d.Status || s.refStatus(&e.M[i], now(w)) != d.Status {
			panic(fmt.Sprintf("tmworld: client %s (%s) has status %s / reference %s, wanted %s", d.Name, e.M[i].ID, got, s.refStatus(&e.M[i], now(w)), d.Status))
		}
	}
	return w
}

func (s *S25) implStatus(w *ksim.World, id string) string {
	return w.W.Chains[0].App.IBCKeeper.ClientKeeper.GetClientStatus(w.CS[0].Ctx, id).String()
}

func (s *S25) refStatus(m *CModel, nowNs int64) string {
	if m.Frozen {
		return FrozenS
	}
	if !m.Solo && m.ConsTime+int64(m.P.Trusting) <= nowNs {
		return Expired
	}
	return Active
}

// ---- alphabet ---------------------------------------------------------------------------------

// Ops: rec(i,j) for every ordered pair, upg(i,plan,req) for every upgrade subject with its own plan's
// requests, and the exact request of plan 0 against every client.
func (s *S25) Ops(w *ksim.World) []ksim.Op {
	e := ext25(w)
	var ops []ksim.Op
	for i := range e.M {
		for j := range e.M {
			ops = append(ops, ksim.Op{K: "rec", A: []int{i, j}})
		}
	}
	for i := range e.M {
		d := s.defs[i]
		if d.Plan >= 0 {
			for r := range upReqs {
				ops = append(ops, ksim.Op{K: "upg", A: []int{i, d.Plan, r}})
			}
		}
		if d.Plan != 0 {
			ops = append(ops, ksim.Op{K: "upg", A: []int{i, 0, 0}})
		}
	}
	return ops
}

// upgradeMsg builds the request.
func (s *S25) upgradeMsg(id string, plan *UpPlan, rq upReq) *clienttypes.MsgUpgradeClient {
	// relayer-chosen custom fields are arbitrary (they must be ignored): trust level 1/2, trusting 7 s, drift 3 s
	cl := ibctm.NewClientState(plan.ChainID, ibctm.Fraction{Numerator: 1, Denominator: 2}, 7*time.Second, plan.Unbonding, 3*time.Second, plan.NewHeight, commitmenttypes.GetSDKSpecs(), ibctesting.UpgradePath)
	cons := ibctm.NewConsensusState(plan.cons.Timestamp, plan.cons.Root, plan.cons.NextValidatorsHash)
	switch rq.Tamper {
	case "unbonding":
		cl.UnbondingPeriod += time.Nanosecond
	case "cons-time":
		cons.Timestamp = cons.Timestamp.Add(time.Nanosecond)
	case "height":
		cl.LatestHeight = clienttypes.NewHeight(plan.NewHeight.RevisionNumber, plan.NewHeight.RevisionHeight+1)
	case "chainid":
		cl.ChainId = "x" + cl.ChainId
	}
	ck, sk := upgradeKeys(c25H)
	ock, osk := upgradeKeys(c25H - 1)
	pick := func(kind, right, otherFam, otherH string) []byte {
		switch kind {
		case "right":
			return plan.store.Proof("upgrade", right)
		case "other-height":
			return plan.store.Proof("upgrade", otherH)
		}
		return plan.store.Proof("upgrade", otherFam)
	}
	msg, err := clienttypes.NewMsgUpgradeClient(id, cl, cons, pick(rq.ClientProof, ck, sk, ock), pick(rq.ConsProof, sk, ck, osk), ksim.Signer)
	if err != nil {
		panic(err)
	}
	return msg
}

func (s *S25) Apply(w *ksim.World, op ksim.Op) ksim.Result {
	e := ext25(w)
	switch op.K {
	case "rec":
		sub, sst := &e.M[op.A[0]], e.M[op.A[1]]
		r := w.Tx(0, clienttypes.NewMsgRecoverClient(Authority, sub.ID, sst.ID))
		if r.Class == ksim.OK {
			sub.Frozen = false
			sub.Latest = sst.Latest
			sub.ConsTime = sst.ConsTime
			sub.Plan = sst.Plan
			if sub.Solo {
				sub.SoloKey = sst.SoloKey
			} else {
				sub.P.Trusting = sst.P.Trusting
				sub.P.ChainID = sst.P.ChainID
			}
		}
		return r
	case "upg":
		m := &e.M[op.A[0]]
		plan := s.plans[op.A[1]]
		r := w.Tx(0, s.upgradeMsg(m.ID, plan, upReqs[op.A[2]]))
		if r.Class == ksim.OK {
			lo, _ := scaledTrusting(m.P.Trusting, m.P.Unbonding, plan.Unbonding)
			if cs := tmState(w, m.ID); cs != nil && plan.Unbonding < m.P.Unbonding && int64(cs.TrustingPeriod) == lo+1 {
				lo++ // rounding of the decimal division adopted (reported as an observation, see stepUpgrade)
			}
			m.P.Trusting = time.Duration(lo)
			m.P.Unbonding = plan.Unbonding
			m.P.ChainID = plan.ChainID
			m.P.Specs, m.P.Path, m.P.Allow = "sdk", "std", false
			m.Latest = plan.NewHeight
			m.ConsTime = c25PlanTime
			m.Plan = -1
		}
		return r
	}
	panic("unknown op " + op.K)
}

// scaledTrusting returns floor and ceiling of trusting * newUnbonding / oldUnbonding.
func scaledTrusting(trusting, oldU, newU time.Duration) (lo, hi int64) {
	if newU >= oldU {
		return int64(trusting), int64(trusting)
	}
	num := new(big.Int).Mul(big.NewInt(int64(trusting)), big.NewInt(int64(newU)))
	q, r := new(big.Int).QuoRem(num, big.NewInt(int64(oldU)), new(big.Int))
	lo = q.Int64()
	hi = lo
	if r.Sign() != 0 {
		hi++
	}
	return lo, hi
}

func tmState(w *ksim.World, id string) *ibctm.ClientState {
	cs, ok := w.W.Chains[0].App.IBCKeeper.ClientKeeper.GetClientState(w.CS[0].Ctx, id)
	if !ok {
		return nil
	}
	tm, _ := cs.(*ibctm.ClientState)
	return tm
}

func soloState(w *ksim.World, id string) *solomachine.ClientState {
	cs, ok := w.W.Chains[0].App.IBCKeeper.ClientKeeper.GetClientState(w.CS[0].Ctx, id)
	if !ok {
		return nil
	}
	sm, _ := cs.(*solomachine.ClientState)
	return sm
}

// ---- oracle -----------------------------------------------------------------------------------

func (s *S25) Step(pre *ksim.World, op ksim.Op, r ksim.Result, post *ksim.World) *ksim.Fail {
	ok := r.Class == ksim.OK || r.Class == ksim.NOOP
	pe := ext25(pre)
	var subjectID string
	var f *ksim.Fail
	switch op.K {
	case "rec":
		subjectID = pe.M[op.A[0]].ID
		f = s.stepRecover(pre, op, ok, post)
	case "upg":
		subjectID = pe.M[op.A[0]].ID
		f = s.stepUpgrade(pre, op, ok, post)
	}
	if f != nil {
		return f
	}
	if ok {
		// neither operation changes anything outside the subject's client store
		prefix := "ibc/" + string(host.KeyClientStorePrefix) + "/" + subjectID + "/"
		for _, k := range ksim.DiffStores(pre.DumpStores(0, ksim.AllStores), post.DumpStores(0, ksim.AllStores)) {
			if !strings.HasPrefix(k, prefix) {
				return &ksim.Fail{Key: "touched-outside-subject/" + op.K + "/" + keyClass(k), Text: fmt.Sprintf("%s on subject %s changed store key %q", s.opText(pe, op), subjectID, k)}
			}
		}
	}
	return nil
}

// keyClass abstracts a store key for a stable violation key.
func keyClass(k string) string {
	parts := strings.Split(k, "/")
	if len(parts) >= 4 && parts[1] == "clients" {
		tail := parts[3]
		if i := strings.IndexByte(tail, 0); i >= 0 {
			tail = tail[:i]
		}
		if strings.HasPrefix(tail, "iterateConsensusStates") {
			tail = "iterateConsensusStates"
		}
		return "other-client:" + tail
	}
	return parts[0]
}

func (s *S25) opText(e *Ext25, op ksim.Op) string {
	switch op.K {
	case "rec":
		return fmt.Sprintf("recover(subject %s [%s], substitute %s [%s])", e.M[op.A[0]].Name, e.M[op.A[0]].ID, e.M[op.A[1]].Name, e.M[op.A[1]].ID)
	case "upg":
		return fmt.Sprintf("upgrade(client %s [%s], plan %s, request %s)", e.M[op.A[0]].Name, e.M[op.A[0]].ID, s.plans[op.A[1]].Name, upReqs[op.A[2]].Name)
	}
	return op.String()
}

func (s *S25) stepRecover(pre *ksim.World, op ksim.Op, ok bool, post *ksim.World) *ksim.Fail {
	pe := ext25(pre)
	sub, sst := pe.M[op.A[0]], pe.M[op.A[1]]
	nowNs := now(pre)
	var why []string
	if s.refStatus(&sub, nowNs) == Active {
		why = append(why, "subject-active")
	}
	if st := s.refStatus(&sst, nowNs); st != Active {
		why = append(why, "substitute-"+strings.ToLower(st))
	}
	if sub.Solo != sst.Solo {
		why = append(why, "type-differs")
	}
	if !sst.Latest.GT(sub.Latest) {
		why = append(why, "height-not-greater")
	}
	if !sub.Solo && !sst.Solo && !paramsMatch(sub.P, sst.P) {
		why = append(why, "parameters-differ")
	}
	gate := len(why) == 0
	text := s.opText(pe, op)
	if ok && !gate {
		return &ksim.Fail{Key: "recover-succeeded-outside-gate/" + strings.Join(why, "+"), Text: fmt.Sprintf("%s succeeded although: %s", text, strings.Join(why, ", "))}
	}
	if !ok {
		if gate && !sub.Solo {
			return &ksim.Fail{Key: "recover-refused-inside-gate", Text: fmt.Sprintf("%s was refused although subject is %s, substitute Active, same type, greater height, matching parameters", text, s.refStatus(&sub, nowNs))}
		}
		return nil
	}
	// success: unfrozen, holds the substitute's latest height and consensus state, is Active, own parameters kept
	if got := s.implStatus(post, sub.ID); got != Active {
		return &ksim.Fail{Key: "recovered-not-active", Text: fmt.Sprintf("after %s the subject's status is %s", text, got)}
	}
	if a, b := post.ClientLatest(0, sub.ID), pre.ClientLatest(0, sst.ID); !a.EQ(b) {
		return &ksim.Fail{Key: "recovered-height", Text: fmt.Sprintf("after %s the subject's latest height is %s, the substitute's is %s", text, a, b)}
	}
	if sub.Solo {
		a, b := soloState(post, sub.ID), soloState(pre, sst.ID)
		same := false
		if a != nil && b != nil {
			x, _ := a.ConsensusState.Marshal()
			y, _ := b.ConsensusState.Marshal()
			same = bytes.Equal(x, y)
		}
		if a == nil || b == nil || a.IsFrozen || a.Sequence != b.Sequence || !same {
			return &ksim.Fail{Key: "recovered-solo-state", Text: fmt.Sprintf("after %s the subject does not hold the substitute's sequence and consensus state unfrozen", text)}
		}
		return nil
	}
	ck := pre.W.Chains[0].App.IBCKeeper.ClientKeeper
	h := pre.ClientLatest(0, sst.ID)
	want, _ := ck.GetClientConsensusState(pre.CS[0].Ctx, sst.ID, h)
	got, found := ck.GetClientConsensusState(post.CS[0].Ctx, sub.ID, h)
	cdc := pre.W.Chains[0].App.AppCodec()
	if !found || want == nil || !bytes.Equal(clienttypes.MustMarshalConsensusState(cdc, got), clienttypes.MustMarshalConsensusState(cdc, want)) {
		return &ksim.Fail{Key: "recovered-consensus-state", Text: fmt.Sprintf("after %s the subject does not hold the substitute's consensus state at %s", text, h)}
	}
	a, b := tmState(pre, sub.ID), tmState(post, sub.ID)
	if b == nil || !b.FrozenHeight.IsZero() {
		return &ksim.Fail{Key: "recovered-still-frozen", Text: fmt.Sprintf("after %s the subject's frozen height is not zero", text)}
	}
	if a.TrustLevel != b.TrustLevel || a.MaxClockDrift != b.MaxClockDrift || a.UnbondingPeriod != b.UnbondingPeriod || fmt.Sprint(a.ProofSpecs) != fmt.Sprint(b.ProofSpecs) || fmt.Sprint(a.UpgradePath) != fmt.Sprint(b.UpgradePath) {
		return &ksim.Fail{Key: "recovered-parameters-changed", Text: fmt.Sprintf("%s changed the subject's own parameters", text)}
	}
	// the substitute (like every other client) is untouched: covered by the store-diff check in Step
	return nil
}

func (s *S25) stepUpgrade(pre *ksim.World, op ksim.Op, ok bool, post *ksim.World) *ksim.Fail {
	pe := ext25(pre)
	m := pe.M[op.A[0]]
	plan := s.plans[op.A[1]]
	rq := upReqs[op.A[2]]
	nowNs := now(pre)
	text := s.opText(pe, op)
	var why []string
	if m.Solo {
		why = append(why, "not-tendermint")
	} else {
		if st := s.refStatus(&m, nowNs); st != Active {
			why = append(why, "client-"+strings.ToLower(st))
		}
		if !plan.NewHeight.GT(m.Latest) {
			why = append(why, "height-not-greater")
		}
		if m.Plan != op.A[1] || m.P.Path != "std" || m.P.Specs != "sdk" {
			why = append(why, "plan-not-committed-under-client-root-and-path")
		}
		if rq.ClientProof != "right" {
			why = append(why, "client-proof-"+rq.ClientProof)
		}
		if rq.ConsProof != "right" {
			why = append(why, "cons-proof-"+rq.ConsProof)
		}
		if rq.Tamper != "" {
			why = append(why, "submitted-"+rq.Tamper+"-not-committed")
		}
	}
	lo, hi := scaledTrusting(m.P.Trusting, m.P.Unbonding, plan.Unbonding)
	gate := len(why) == 0
	// the upgraded client must itself be a valid client: 0 < trusting < unbonding
	validLo := lo > 0 && lo < int64(plan.Unbonding)
	validHi := hi > 0 && hi < int64(plan.Unbonding)
	if ok && !gate {
		return &ksim.Fail{Key: "upgrade-succeeded-outside-gate/" + strings.Join(why, "+"), Text: fmt.Sprintf("%s succeeded although: %s", text, strings.Join(why, ", "))}
	}
	if !ok {
		if gate && validLo && validHi {
			return &ksim.Fail{Key: "upgrade-refused-inside-gate", Text: fmt.Sprintf("%s was refused although the client is Active, the height greater and both proofs are of the committed states under the upgrade path", text)}
		}
		return nil
	}
	cs := tmState(post, m.ID)
	if cs == nil {
		return &ksim.Fail{Key: "upgraded-not-tendermint", Text: text}
	}
	own := tmState(pre, m.ID)
	if cs.TrustLevel != own.TrustLevel || cs.MaxClockDrift != own.MaxClockDrift {
		return &ksim.Fail{Key: "upgraded-custom-fields-not-kept", Text: fmt.Sprintf("after %s trust level / max clock drift are %v / %s, the client's own were %v / %s", text, cs.TrustLevel, cs.MaxClockDrift, own.TrustLevel, own.MaxClockDrift)}
	}
	if t := int64(cs.TrustingPeriod); t < lo || t > hi {
		return &ksim.Fail{Key: "upgraded-trusting-period", Text: fmt.Sprintf("after %s the trusting period is %d ns, expected %d (= %d * %d / %d, truncated)", text, t, lo, m.P.Trusting, plan.Unbonding, m.P.Unbonding)}
	} else if t != lo {
		s.observe("trusting-period-rounded-up/"+plan.Name, fmt.Sprintf("%s: trusting period %d ns, exact quotient truncates to %d", text, t, lo))
	}
	if cs.ChainId != plan.ChainID || cs.UnbondingPeriod != plan.Unbonding || !cs.LatestHeight.EQ(plan.NewHeight) || !cs.FrozenHeight.IsZero() ||
		fmt.Sprint(cs.ProofSpecs) != fmt.Sprint(plan.client.ProofSpecs) || fmt.Sprint(cs.UpgradePath) != fmt.Sprint(plan.client.UpgradePath) {
		return &ksim.Fail{Key: "upgraded-chain-fields", Text: fmt.Sprintf("after %s the chain-chosen fields are not the committed ones: %v", text, cs)}
	}
	got, found := post.W.Chains[0].App.IBCKeeper.ClientKeeper.GetClientConsensusState(post.CS[0].Ctx, m.ID, plan.NewHeight)
	tmc, _ := got.(*ibctm.ConsensusState)
	if !found || tmc == nil || !tmc.Timestamp.Equal(plan.cons.Timestamp) || !bytes.Equal(tmc.NextValidatorsHash, plan.cons.NextValidatorsHash) || string(tmc.Root.Hash) != ibctm.SentinelRoot {
		return &ksim.Fail{Key: "upgraded-consensus-state", Text: fmt.Sprintf("after %s the consensus state at %s is not (committed time, sentinel root, committed validators)", text, plan.NewHeight)}
	}
	wantStatus := Active
	if c25PlanTime+int64(cs.TrustingPeriod) <= now(post) {
		wantStatus = Expired
	}
	if st := s.implStatus(post, m.ID); st != wantStatus {
		return &ksim.Fail{Key: "upgraded-status", Text: fmt.Sprintf("after %s the status is %s, expected %s", text, st, wantStatus)}
	}
	return nil
}

func (s *S25) observe(k, v string) {
	s.ObsMu.Lock()
	if _, ok := s.Obs[k]; !ok {
		s.Obs[k] = v
	}
	s.ObsMu.Unlock()
}

// Observations returns the sorted observations.
func (s *S25) Observations() []string {
	s.ObsMu.Lock()
	defer s.ObsMu.Unlock()
	var out []string
	for k, v := range s.Obs {
		out = append(out, k+": "+v)
	}
	sort.Strings(out)
	return out
}

// Population describes the clients and plans (for the evidence file).
func (s *S25) Population() map[string]any {
	var cl, pl, rq []string
	for _, d := range s.defs {
		cl = append(cl, d.Name)
	}
	for _, p := range s.plans {
		pl = append(pl, p.Name)
	}
	for _, r := range upReqs {
		rq = append(rq, r.Name)
	}
	return map[string]any{"clients": cl, "upgrade_plans": pl, "upgrade_requests": rq}
}
