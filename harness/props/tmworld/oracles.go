package tmworld

import (
	"bytes"
	"fmt"
	"sort"
	"strings"

	clienttypes "github.com/cosmos/ibc-go/v11/modules/core/02-client/types"
	host "github.com/cosmos/ibc-go/v11/modules/core/24-host"
	"github.com/cosmos/ibc-go/v11/modules/core/exported"
	ibctm "github.com/cosmos/ibc-go/v11/modules/light-clients/07-tendermint"

	"verif/harness/ksim"
)

// Scan is the classified raw content of one client store.
type Scan struct {
	ClientState []byte
	CS          map[clienttypes.Height][]byte // consensusStates/<h>
	PT          map[clienttypes.Height][]byte // consensusStates/<h>/processedTime
	PH          map[clienttypes.Height][]byte // consensusStates/<h>/processedHeight
	IT          map[clienttypes.Height][]byte // iterateConsensusStates<BE rev><BE height>
	Other       []string                      // keys of no known family
	Raw         map[string]string
}

// ScanClient reads every key below clients/<id>/ of chain A.
func ScanClient(w *ksim.World, id string) *Scan {
	sc := &Scan{CS: map[clienttypes.Height][]byte{}, PT: map[clienttypes.Height][]byte{}, PH: map[clienttypes.Height][]byte{}, IT: map[clienttypes.Height][]byte{}, Raw: map[string]string{}}
	store := w.W.Chains[0].App.IBCKeeper.ClientKeeper.ClientStore(w.CS[0].Ctx, id)
	it := store.Iterator(nil, nil)
	defer it.Close()
	const csp = "consensusStates/"
	for ; it.Valid(); it.Next() {
		k, v := string(it.Key()), append([]byte{}, it.Value()...)
		sc.Raw[k] = string(v)
		switch {
		case k == host.KeyClientState:
			sc.ClientState = v
		case strings.HasPrefix(k, csp):
			rest := k[len(csp):]
			fam := sc.CS
			if strings.HasSuffix(rest, string(ibctm.KeyProcessedTime)) {
				fam, rest = sc.PT, strings.TrimSuffix(rest, string(ibctm.KeyProcessedTime))
			} else if strings.HasSuffix(rest, string(ibctm.KeyProcessedHeight)) {
				fam, rest = sc.PH, strings.TrimSuffix(rest, string(ibctm.KeyProcessedHeight))
			}
			h, err := clienttypes.ParseHeight(rest)
			if err != nil || h.String() != rest {
				sc.Other = append(sc.Other, k)
				continue
			}
			fam[h] = v
		case strings.HasPrefix(k, ibctm.KeyIterateConsensusStatePrefix) && len(k) == len(ibctm.KeyIterateConsensusStatePrefix)+16:
			h := ibctm.GetHeightFromIterationKey([]byte(k))
			sc.IT[clienttypes.NewHeight(h.GetRevisionNumber(), h.GetRevisionHeight())] = v
		default:
			sc.Other = append(sc.Other, k)
		}
	}
	return sc
}

func sortedHeights(m map[clienttypes.Height][]byte) []clienttypes.Height {
	out := make([]clienttypes.Height, 0, len(m))
	for h := range m {
		out = append(out, h)
	}
	sort.Slice(out, func(i, j int) bool { return out[i].LT(out[j]) })
	return out
}

func (s *Scenario) consBytes(w *ksim.World, i, v int) []byte {
	return clienttypes.MustMarshalConsensusState(w.W.Chains[0].App.AppCodec(), s.VC.Cons(i, v))
}

// storedCons returns the raw consensus state bytes the subject stores at height index i (nil if none).
func (s *Scenario) storedCons(w *ksim.World, i int) []byte {
	store := w.W.Chains[0].App.IBCKeeper.ClientKeeper.ClientStore(w.CS[0].Ctx, Subject)
	return store.Get(host.ConsensusStateKey(s.VC.H(i)))
}

func (s *Scenario) clientState(w *ksim.World, id string) *ibctm.ClientState {
	cs, ok := w.W.Chains[0].App.IBCKeeper.ClientKeeper.GetClientState(w.CS[0].Ctx, id)
	if !ok {
		return nil
	}
	tm, _ := cs.(*ibctm.ClientState)
	return tm
}

func (s *Scenario) frozenFlag(w *ksim.World) bool {
	cs := s.clientState(w, Subject)
	return cs != nil && !cs.FrozenHeight.IsZero()
}

func (s *Scenario) status(w *ksim.World, id string) string {
	return w.W.Chains[0].App.IBCKeeper.ClientKeeper.GetClientStatus(w.CS[0].Ctx, id).String()
}

func opName(op ksim.Op) string {
	return op.String()
}

func (s *Scenario) blk(i, v int) string { return fmt.Sprintf("%d%c", i, 'a'+v) }

// Step is the transition oracle.
func (s *Scenario) Step(pre *ksim.World, op ksim.Op, r ksim.Result, post *ksim.World) *ksim.Fail {
	if s.Or.C20 {
		if f := s.stepC20(pre, op, r, post); f != nil {
			return f
		}
	}
	if s.Or.C21 {
		if f := s.stepC21(pre, op, r, post); f != nil {
			return f
		}
	}
	if s.Or.C22 {
		if f := s.stepC22(pre, op, r, post); f != nil {
			return f
		}
	}
	if s.Or.C23 {
		if f := s.stepC23(pre, op, r, post); f != nil {
			return f
		}
	}
	return nil
}

// Invariant is the state oracle.
func (s *Scenario) Invariant(w *ksim.World) *ksim.Fail {
	if s.Or.C21 {
		if f := s.invC21(w); f != nil {
			return f
		}
	}
	if s.Or.C22 {
		if f := s.invC22(w, Subject); f != nil {
			return f
		}
	}
	if s.Or.C23 {
		if f := s.invC23(w); f != nil {
			return f
		}
	}
	return nil
}

// ---- C20: consensus states are never overwritten --------------------------------------------------

func (s *Scenario) stepC20(pre *ksim.World, op ksim.Op, r ksim.Result, post *ksim.World) *ksim.Fail {
	pe := ext(pre)
	nowNs := now(post)
	// history variable: what was first stored at h stays byte-identical, or disappears once expired
	for _, i := range pe.stored() {
		v := pe.Cons[i]
		got := s.storedCons(post, i)
		if before := s.storedCons(pre, i); before == nil || !bytes.Equal(before, s.consBytes(pre, i, v)) {
			continue // already changed by an earlier step, which was blamed then
		}
		if got == nil {
			if !s.expired(pe, i, nowNs) {
				return &ksim.Fail{Key: "removed-unexpired/" + op.K, Text: fmt.Sprintf("%s removed the consensus state of block %s at height %s although it expires only at %d (now %d)", opName(op), s.blk(i, v), s.VC.H(i), s.VC.Block(i, v).TimeNs+pe.Trusting, nowNs)}
			}
			continue
		}
		if !bytes.Equal(got, s.consBytes(post, i, v)) {
			return &ksim.Fail{Key: "overwritten/" + op.K, Text: fmt.Sprintf("%s changed the consensus state stored at height %s (first stored: block %s)", opName(op), s.VC.H(i), s.blk(i, v))}
		}
	}
	if r.Class != ksim.OK {
		return nil
	}
	switch op.K {
	case "upd":
		i, v := op.A[0], op.A[1]
		cur, ok := pe.Cons[i]
		if !ok {
			return nil
		}
		if !s.VC.SameCons(i, cur, v) {
			// conflicting header for a stored height: frozen, and no consensus state touched at all
			if !s.frozenFlag(post) {
				return &ksim.Fail{Key: "conflict-not-frozen", Text: fmt.Sprintf("%s was accepted for height %s which stores block %s, but the client is not frozen", opName(op), s.VC.H(i), s.blk(i, cur))}
			}
			if d := consDiff(ScanClient(pre, Subject), ScanClient(post, Subject)); len(d) > 0 {
				return &ksim.Fail{Key: "conflict-changed-consensus", Text: fmt.Sprintf("%s (conflicting header) changed consensus keys %q", opName(op), d)}
			}
			return nil
		}
		// the same header again: no change at all, except the pruning of the oldest expired state that every
		// accepted header may trigger
		a, b := ScanClient(pre, Subject), ScanClient(post, Subject)
		allowed := map[string]bool{}
		if m, had := minStored(pe); had && s.expired(pe, m, nowNs) && m != i {
			h := s.VC.H(m)
			for _, k := range [][]byte{host.ConsensusStateKey(h), ibctm.ProcessedTimeKey(h), ibctm.ProcessedHeightKey(h), ibctm.IterationKey(h)} {
				allowed[string(k)] = true
			}
		}
		for _, k := range ksim.DiffStores(a.Raw, b.Raw) {
			if !allowed[k] {
				return &ksim.Fail{Key: "duplicate-changed-store", Text: fmt.Sprintf("%s resubmitted the stored header of height %s but changed client store key %q", opName(op), s.VC.H(i), k)}
			}
		}
	case "mis":
		if s.IsMisbehaviour(misPairs[op.A[0]]) && !s.frozenFlag(post) {
			return &ksim.Fail{Key: "misbehaviour-not-frozen", Text: fmt.Sprintf("%s (valid misbehaviour) was accepted but the client is not frozen", opName(op))}
		}
		if d := consDiff(ScanClient(pre, Subject), ScanClient(post, Subject)); len(d) > 0 {
			return &ksim.Fail{Key: "misbehaviour-changed-consensus", Text: fmt.Sprintf("%s changed consensus keys %q", opName(op), d)}
		}
	}
	return nil
}

// consDiff lists consensus-state heights whose stored bytes differ between two scans.
func consDiff(a, b *Scan) []string {
	var out []string
	for h, v := range a.CS {
		if bv, ok := b.CS[h]; !ok || !bytes.Equal(v, bv) {
			out = append(out, h.String())
		}
	}
	for h := range b.CS {
		if _, ok := a.CS[h]; !ok {
			out = append(out, h.String())
		}
	}
	sort.Strings(out)
	return out
}

// ---- C21: status exact, gates every use -----------------------------------------------------------

func (s *Scenario) invC21(w *ksim.World) *ksim.Fail {
	e := ext(w)
	ref, got := s.RefStatus(e, now(w)), s.status(w, Subject)
	if ref != got {
		age := "latest consensus state missing"
		if v, ok := e.Cons[e.Latest]; ok {
			age = fmt.Sprintf("age of latest consensus state %d ns, trusting period %d ns", now(w)-s.VC.Block(e.Latest, v).TimeNs, e.Trusting)
		}
		return &ksim.Fail{Key: "status/" + got + "-should-be-" + ref, Text: fmt.Sprintf("client status is %s, reference says %s (frozen=%v, %s)", got, ref, e.Frozen, age)}
	}
	for _, sd := range s.Subs {
		if !s.VC.Has(sd.I, sd.V) {
			continue
		}
		if ref, got := s.RefSubStatus(sd, now(w)), s.status(w, sd.ID); ref != got {
			return &ksim.Fail{Key: "status-substitute/" + got + "-should-be-" + ref, Text: fmt.Sprintf("status of never-updated client %s is %s, reference says %s", sd.ID, got, ref)}
		}
	}
	return nil
}

func (s *Scenario) stepC21(pre *ksim.World, op ksim.Op, r ksim.Result, post *ksim.World) *ksim.Fail {
	a := pre.ClientLatest(0, Subject)
	b := post.ClientLatest(0, Subject)
	if b.LT(a) {
		return &ksim.Fail{Key: "latest-height-decreased/" + op.K, Text: fmt.Sprintf("%s decreased the latest height from %s to %s", opName(op), a, b)}
	}
	if op.K == "adv" || op.K == "rec" {
		return nil
	}
	if r.Class == ksim.OK || r.Class == ksim.NOOP {
		if st := s.RefStatus(ext(pre), now(pre)); st != Active {
			return &ksim.Fail{Key: "use-through-inactive/" + op.K + "/" + st, Text: fmt.Sprintf("%s succeeded although the reference status of the client is %s", opName(op), st)}
		}
	}
	return nil
}

// ---- C22: metadata consistent and ordered ---------------------------------------------------------

func (s *Scenario) invC22(w *ksim.World, id string) *ksim.Fail {
	sc := ScanClient(w, id)
	fams := []struct {
		name string
		m    map[clienttypes.Height][]byte
	}{{"processed-time", sc.PT}, {"processed-height", sc.PH}, {"iteration-key", sc.IT}}
	for _, f := range fams {
		for _, h := range sortedHeights(sc.CS) {
			if _, ok := f.m[h]; !ok {
				return &ksim.Fail{Key: "consensus-state-without-" + f.name, Text: fmt.Sprintf("client %s stores a consensus state at %s without its %s entry", id, h, f.name)}
			}
		}
		for _, h := range sortedHeights(f.m) {
			if _, ok := sc.CS[h]; !ok {
				return &ksim.Fail{Key: f.name + "-without-consensus-state", Text: fmt.Sprintf("client %s stores a %s entry at %s without a consensus state", id, f.name, h)}
			}
		}
	}
	for _, h := range sortedHeights(sc.IT) {
		if v := sc.IT[h]; !bytes.Equal(v, host.ConsensusStateKey(h)) {
			return &ksim.Fail{Key: "iteration-key-wrong-target", Text: fmt.Sprintf("iteration entry of %s points to %q", h, v)}
		}
	}
	want := sortedHeights(sc.CS)
	app := w.W.Chains[0].App
	store := app.IBCKeeper.ClientKeeper.ClientStore(w.CS[0].Ctx, id)
	var got []clienttypes.Height
	ibctm.IterateConsensusStateAscending(store, func(h exported.Height) bool {
		got = append(got, clienttypes.NewHeight(h.GetRevisionNumber(), h.GetRevisionHeight()))
		return false
	})
	if fmt.Sprint(got) != fmt.Sprint(want) {
		return &ksim.Fail{Key: "ascending-iteration-order", Text: fmt.Sprintf("ascending iteration visits %v, stored heights in order are %v", got, want)}
	}
	// neighbour lookups for every height around the block tree, the revision boundaries and zero
	cdc := app.AppCodec()
	p := s.VC.P
	var probes []clienttypes.Height
	for x := p.Base; x <= p.Base+uint64(p.N)+2; x++ {
		probes = append(probes, clienttypes.NewHeight(p.Rev, x))
	}
	probes = append(probes, clienttypes.NewHeight(p.Rev, 0), clienttypes.NewHeight(p.Rev, 1), clienttypes.NewHeight(p.Rev, ^uint64(0)),
		clienttypes.NewHeight(0, 0), clienttypes.NewHeight(p.Rev-1, ^uint64(0)), clienttypes.NewHeight(p.Rev+1, 0), clienttypes.NewHeight(^uint64(0), ^uint64(0)))
	for _, h := range probes {
		var prev, next *clienttypes.Height
		for k := range want {
			if want[k].LT(h) {
				prev = &want[k]
			}
			if want[k].GT(h) && next == nil {
				next = &want[k]
			}
		}
		if f := neighbourCheck("next", h, next, sc, func() (*ibctm.ConsensusState, bool) { return ibctm.GetNextConsensusState(store, cdc, h) }, w); f != nil {
			return f
		}
		if f := neighbourCheck("previous", h, prev, sc, func() (*ibctm.ConsensusState, bool) { return ibctm.GetPreviousConsensusState(store, cdc, h) }, w); f != nil {
			return f
		}
	}
	return nil
}

func neighbourCheck(dir string, h clienttypes.Height, want *clienttypes.Height, sc *Scan, get func() (*ibctm.ConsensusState, bool), w *ksim.World) *ksim.Fail {
	var cs *ibctm.ConsensusState
	var ok bool
	if p := catch(func() { cs, ok = get() }); p != "" {
		return &ksim.Fail{Key: dir + "-lookup-panic", Text: fmt.Sprintf("%s consensus state lookup at %s panicked: %s", dir, h, p)}
	}
	if want == nil {
		if ok {
			return &ksim.Fail{Key: dir + "-lookup-phantom", Text: fmt.Sprintf("%s consensus state of %s found although no stored height lies on that side", dir, h)}
		}
		return nil
	}
	if !ok {
		return &ksim.Fail{Key: dir + "-lookup-missing", Text: fmt.Sprintf("%s consensus state of %s not found, reference neighbour is %s", dir, h, *want)}
	}
	bz := clienttypes.MustMarshalConsensusState(w.W.Chains[0].App.AppCodec(), cs)
	if !bytes.Equal(bz, sc.CS[*want]) {
		return &ksim.Fail{Key: dir + "-lookup-wrong", Text: fmt.Sprintf("%s consensus state of %s is not the one stored at the reference neighbour %s", dir, h, *want)}
	}
	return nil
}

func catch(f func()) (p string) {
	defer func() {
		if r := recover(); r != nil {
			p = fmt.Sprint(r)
			if p == "" {
				p = "panic"
			}
		}
	}()
	f()
	return ""
}

func (s *Scenario) stepC22(pre *ksim.World, op ksim.Op, r ksim.Result, post *ksim.World) *ksim.Fail {
	a, b := ScanClient(pre, Subject), ScanClient(post, Subject)
	hs := sortedHeights(a.CS)
	cdc := pre.W.Chains[0].App.AppCodec()
	for k, h := range hs {
		if _, still := b.CS[h]; still {
			continue
		}
		if k != 0 {
			return &ksim.Fail{Key: "pruned-not-oldest/" + op.K, Text: fmt.Sprintf("%s removed the consensus state at %s although %s is the oldest stored height", opName(op), h, hs[0])}
		}
		cs, err := clienttypes.UnmarshalConsensusState(cdc, a.CS[h])
		if err != nil {
			return &ksim.Fail{Key: "undecodable-consensus-state", Text: err.Error()}
		}
		exp := int64(cs.GetTimestamp()) + ext(pre).Trusting
		if exp > now(post) {
			return &ksim.Fail{Key: "pruned-unexpired/" + op.K, Text: fmt.Sprintf("%s removed the consensus state at %s which expires at %d, now is %d", opName(op), h, exp, now(post))}
		}
	}
	return nil
}

// ---- C23: timestamps increase with height ---------------------------------------------------------

func (s *Scenario) invC23(w *ksim.World) *ksim.Fail {
	if ext(w).MonoBroken {
		return nil // a governance recovery copied an out-of-order consensus state; updates are still checked per step
	}
	sc := ScanClient(w, Subject)
	cdc := w.W.Chains[0].App.AppCodec()
	var last uint64
	var lastH clienttypes.Height
	for k, h := range sortedHeights(sc.CS) {
		cs, err := clienttypes.UnmarshalConsensusState(cdc, sc.CS[h])
		if err != nil {
			return &ksim.Fail{Key: "undecodable-consensus-state", Text: err.Error()}
		}
		if k > 0 && cs.GetTimestamp() <= last {
			return &ksim.Fail{Key: "timestamps-not-increasing", Text: fmt.Sprintf("stored consensus state at %s has timestamp %d, not above %d stored at the lower height %s", h, cs.GetTimestamp(), last, lastH)}
		}
		last, lastH = cs.GetTimestamp(), h
	}
	return nil
}

func (s *Scenario) stepC23(pre *ksim.World, op ksim.Op, r ksim.Result, post *ksim.World) *ksim.Fail {
	if op.K != "upd" || r.Class != ksim.OK {
		return nil
	}
	pe := ext(pre)
	i, v := op.A[0], op.A[1]
	if _, ok := pe.Cons[i]; ok {
		return nil
	}
	if s.nonMonotone(pe, i, v) {
		if d := consDiff(ScanClient(pre, Subject), ScanClient(post, Subject)); len(d) > 0 {
			return &ksim.Fail{Key: "out-of-order-header-stored", Text: fmt.Sprintf("%s carries a time that is not strictly between its stored neighbours but changed consensus states at %q", opName(op), d)}
		}
		if !s.frozenFlag(post) {
			return &ksim.Fail{Key: "out-of-order-header-not-frozen", Text: fmt.Sprintf("%s carries a time that is not strictly between its stored neighbours, was accepted, and the client is not frozen", opName(op))}
		}
		return nil
	}
	// an in-order header that was stored must sit strictly between its neighbours in the store as well
	sc := ScanClient(post, Subject)
	cdc := post.W.Chains[0].App.AppCodec()
	hs := sortedHeights(sc.CS)
	for k, h := range hs {
		if !h.EQ(s.VC.H(i)) {
			continue
		}
		t := func(h clienttypes.Height) uint64 {
			cs, err := clienttypes.UnmarshalConsensusState(cdc, sc.CS[h])
			if err != nil {
				return 0
			}
			return cs.GetTimestamp()
		}
		if (k > 0 && t(hs[k-1]) >= t(h)) || (k+1 < len(hs) && t(hs[k+1]) <= t(h)) {
			return &ksim.Fail{Key: "stored-not-between-neighbours", Text: fmt.Sprintf("%s stored a consensus state at %s whose timestamp is not strictly between its stored neighbours", opName(op), h)}
		}
	}
	return nil
}
