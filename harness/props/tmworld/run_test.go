package tmworld_test

import (
	"testing"

	"verif/harness/core"
	_ "verif/harness/props/c20"
	_ "verif/harness/props/c21"
	_ "verif/harness/props/c22"
	_ "verif/harness/props/c23"
	_ "verif/harness/props/c25"
)

// TestRun runs whichever of the TM-client world checks VERIF_PROP names (one binary for all five,
// convenient for overlay mutation runs).
func TestRun(t *testing.T) { core.RunFromEnv(t) }
