package tmworld

import (
	"encoding/binary"
	"fmt"
	"testing"
	"time"

	clienttypes "github.com/cosmos/ibc-go/v11/modules/core/02-client/types"
	commitmenttypes "github.com/cosmos/ibc-go/v11/modules/core/23-commitment/types"
	ibctm "github.com/cosmos/ibc-go/v11/modules/light-clients/07-tendermint"
	ibctesting "github.com/cosmos/ibc-go/v11/testing"

	"verif/harness/ksim"
)

// ProbeSpellingHeight creates (through MsgCreateClient) a tendermint client whose latest height
// (revision 0x636c69, height 0x656e745374617465) makes the 16 big-endian bytes of its iteration key end
// in the ASCII string "clientState", runs the C22 state oracle on it, and then asks the client keeper for
// all client states the way genesis export does. It returns observations; the metadata oracle's verdict
// (nil = consistent) is returned separately.
func ProbeSpellingHeight(t *testing.T) (obs []string, fail *ksim.Fail) {
	wk := ksim.NewWorker(t, 1)
	w := wk.Root()
	// 16 bytes: five zero bytes followed by "clientState"
	spell := append(make([]byte, 5), []byte("clientState")...)
	rev, height := binary.BigEndian.Uint64(spell[:8]), binary.BigEndian.Uint64(spell[8:])
	h := clienttypes.NewHeight(rev, height)
	cs := ibctm.NewClientState(fmt.Sprintf("spell-%d", rev), ibctm.DefaultTrustLevel, Trusting, Unbonding, Drift, h, commitmenttypes.GetSDKSpecs(), ibctesting.UpgradePath)
	cons := ibctm.NewConsensusState(time.Unix(0, Now0-sec(10)).UTC(), commitmenttypes.NewMerkleRoot([]byte("probe-root-0123456789abcdef-32byt")[:32]), []byte("probe-vals-0123456789abcdef-32byt")[:32])
	msg, err := clienttypes.NewMsgCreateClient(cs, cons, ksim.Signer)
	if err != nil {
		return []string{"cannot build MsgCreateClient: " + err.Error()}, nil
	}
	r := w.Tx(0, msg)
	obs = append(obs, fmt.Sprintf("MsgCreateClient with latest height %s: %s %v", h, r, r.Err))
	if r.Class != ksim.OK {
		return obs, nil
	}
	var resp clienttypes.MsgCreateClientResponse
	if err := resp.Unmarshal(r.Resp); err != nil {
		return append(obs, "cannot decode response"), nil
	}
	sc := &Scenario{VC: &VChain{P: Params{Rev: rev, Base: height - 1, N: 1}}}
	fail = sc.invC22(w, resp.ClientId)
	k := wk.Chains[0].App.IBCKeeper
	if p := catch(func() { _ = k.ClientKeeper.GetAllGenesisClients(w.CS[0].Ctx) }); p != "" {
		obs = append(obs, fmt.Sprintf("ClientKeeper.GetAllGenesisClients (genesis export) panics: %q", p))
	} else {
		obs = append(obs, "ClientKeeper.GetAllGenesisClients (genesis export) returns normally")
	}
	if p := catch(func() { _ = k.ConnectionKeeper.GetAllClientConnectionPaths(w.CS[0].Ctx) }); p != "" {
		obs = append(obs, fmt.Sprintf("ConnectionKeeper.GetAllClientConnectionPaths (genesis export) panics: %q", p))
	}
	return obs, fail
}
