// Package tmworld is the "TM-client world": one real chain A holding 07-tendermint clients of a
// virtual counterparty whose block tree (headers, validator signatures, committed IAVL stores and
// ICS-23 proofs) is produced by this package. It serves the checks C20-C23 (scenario.go,
// oracles.go) and C25 (c25.go).
package tmworld

import (
	"fmt"
	"sort"

	"github.com/cosmos/iavl"
	iavldb "github.com/cosmos/iavl/db"
	ics23 "github.com/cosmos/ics23/go"

	cmtcrypto "github.com/cometbft/cometbft/proto/tendermint/crypto"
	"github.com/cosmos/gogoproto/proto"

	storetypes "github.com/cosmos/cosmos-sdk/store/v2/types"

	commitmenttypes "github.com/cosmos/ibc-go/v11/modules/core/23-commitment/types"
)

// VStores are the stores of the virtual counterparty (the same two ksim snapshots commit).
var VStores = []string{"ibc", "upgrade"}

// VStore is an immutable committed state of the virtual counterparty: real cosmos/iavl trees, chained
// into an app hash by the rootmulti commit-info hash (the construction of ksim.Snapshot.built), with
// the two-level ICS-23 proofs of the requested keys computed up front so that the value can be shared
// by every worker.
type VStore struct {
	AppHash []byte
	proofs  map[string][]byte
}

// NewVStore commits content (store name -> key -> value) and proves every listed key (store, key):
// membership if the key is present, non-membership otherwise.
func NewVStore(content map[string]map[string][]byte, prove [][2]string) *VStore {
	trees := map[string]*iavl.MutableTree{}
	var ci storetypes.CommitInfo
	ci.Version = 1
	for _, name := range VStores {
		tree := iavl.NewMutableTree(iavldb.NewMemDB(), 0, true, iavl.NewNopLogger())
		var keys []string
		for k := range content[name] {
			keys = append(keys, k)
		}
		sort.Strings(keys)
		for _, k := range keys {
			if _, err := tree.Set([]byte(k), content[name][k]); err != nil {
				panic(err)
			}
		}
		trees[name] = tree
		ci.StoreInfos = append(ci.StoreInfos, storetypes.StoreInfo{Name: name, CommitId: storetypes.CommitID{Version: 1, Hash: tree.WorkingHash()}})
	}
	s := &VStore{AppHash: ci.Hash(), proofs: map[string][]byte{}}
	for _, p := range prove {
		store, key := p[0], []byte(p[1])
		tree := trees[store]
		has, err := tree.Has(key)
		if err != nil {
			panic(err)
		}
		var cp *ics23.CommitmentProof
		if has {
			cp, err = tree.GetMembershipProof(key)
		} else {
			cp, err = tree.GetNonMembershipProof(key)
		}
		if err != nil {
			panic(fmt.Sprintf("vstore proof: %v", err))
		}
		ops := &cmtcrypto.ProofOps{Ops: []cmtcrypto.ProofOp{storetypes.NewIavlCommitmentOp(key, cp).ProofOp(), ci.ProofOp(store)}}
		mp, err := commitmenttypes.ConvertProofs(ops)
		if err != nil {
			panic(err)
		}
		bz, err := proto.Marshal(&mp)
		if err != nil {
			panic(err)
		}
		s.proofs[store+"\x00"+string(key)] = bz
	}
	return s
}

// Proof returns the pre-computed proof of (store, key).
func (s *VStore) Proof(store, key string) []byte {
	bz, ok := s.proofs[store+"\x00"+key]
	if !ok {
		panic("vstore: proof of " + store + "/" + key + " was not requested at construction")
	}
	return bz
}
