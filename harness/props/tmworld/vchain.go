package tmworld

import (
	"fmt"
	"sync"
	"time"

	"github.com/cosmos/gogoproto/proto"

	"github.com/cometbft/cometbft/crypto/tmhash"
	cmtprotoversion "github.com/cometbft/cometbft/proto/tendermint/version"
	cmttypes "github.com/cometbft/cometbft/types"
	cmtversion "github.com/cometbft/cometbft/version"

	clienttypes "github.com/cosmos/ibc-go/v11/modules/core/02-client/types"
	channeltypes "github.com/cosmos/ibc-go/v11/modules/core/04-channel/types"
	commitmenttypes "github.com/cosmos/ibc-go/v11/modules/core/23-commitment/types"
	host "github.com/cosmos/ibc-go/v11/modules/core/24-host"
	ibctm "github.com/cosmos/ibc-go/v11/modules/light-clients/07-tendermint"
	ibctesting "github.com/cosmos/ibc-go/v11/testing"
	ibcmock "github.com/cosmos/ibc-go/v11/testing/mock"

	"verif/harness/ksim"
)

// Client parameters of the TM-client world.
const (
	Trusting    = 100 * time.Second // short, so that AdvanceTime can expire consensus states
	TrustingSub = 150 * time.Second // trusting period of substitute 0 (recovery adopts it)
	Unbonding   = 400 * time.Second
	Drift       = 10 * time.Second
)

// Now0 is chain A's block time in the root world (ksim.Root commits one 5 s block after T0).
var Now0 = ksim.T0 + int64(ksim.BlockStep)

// Params selects the part of the height space the virtual chain lives in.
type Params struct {
	Rev  uint64 // revision (chain id "virt-<rev>")
	Base uint64 // block index i (1..N) has height Base+i
	N    int    // number of heights (6 quick, 8 thorough)
}

// VBlock is one block of the virtual counterparty's block tree.
type VBlock struct {
	I, V     int // height index, variant (0 = canonical "a", 1 = alternative "b", 2 = "c": other next validators)
	Height   clienttypes.Height
	TimeNs   int64
	Store    *VStore
	NextVals []byte // NextValidatorsHash of the header
	ChainID  string // chain id the block belongs to (differs from the virtual chain's for the foreign blocks)
}

// Special height indices: blocks of the "same" counterparty under a chain id of the previous / next
// revision. They exist only as creation points of substitute clients (no headers are submitted for them).
const (
	ILowerRev  = 90 // (rev-1, Base+N+3): lower revision, numerically larger revision height
	IHigherRev = 91 // (rev+1, 1): higher revision, numerically smaller revision height
)

// VChain is the virtual counterparty: a tree of properly signed alternative blocks.
type VChain struct {
	P       Params
	ChainID string
	Vals    *ksim.ValSet
	Other   *ksim.ValSet // a second deterministic validator set (only ever announced as "next validators")
	blocks  map[[2]int]*VBlock
	hdr     map[[2]int][]byte // marshalled signed ibctm.Header (trusted height filled in per use)
	Packet  channeltypes.Packet
}

var (
	vcMu    sync.Mutex
	vchains = map[Params]*VChain{}
)

// GetVChain returns the (cached, immutable) virtual chain for p.
func GetVChain(p Params) *VChain {
	vcMu.Lock()
	defer vcMu.Unlock()
	if c, ok := vchains[p]; ok {
		return c
	}
	c := buildVChain(p)
	vchains[p] = c
	return c
}

// Variants lists the variants existing at height index i.
func (c *VChain) Variants(i int) []int {
	if i < 1 || i > c.P.N {
		return nil
	}
	if i == 1 || i == 8 {
		return []int{0}
	}
	if i == 3 {
		return []int{0, 1, 2}
	}
	return []int{0, 1}
}

func sec(s int64) int64 { return s * int64(time.Second) }

// timeOf is the block time table. Canonical blocks are 10 s apart, block 1 is 50 s old in the root
// world (so that trusting/2 reaches its expiry exactly); alternative blocks carry a different app hash
// and/or a time that is equal to / later than / earlier than the canonical neighbours. Every field of the
// stored consensus state has a variant differing from the canonical block in that field only: root (2b, 7b),
// timestamp (6b), next validators hash (3c).
func timeOf(i, v int) int64 {
	a := func(i int) int64 { return Now0 + sec(-60+10*int64(i)) }
	if v == 0 || v == 2 {
		return a(i) // variant c: same time and same app hash as the canonical block, other next validators
	}
	switch i {
	case 2:
		return a(2) // same time, different app hash: pure fork
	case 3:
		return a(2) // equal to the canonical previous neighbour
	case 4:
		return a(5) + sec(1) // later than the canonical next neighbour
	case 5:
		return a(3) + sec(1) // earlier than the canonical previous neighbour
	case 6:
		return a(6) + sec(1) // same app hash, different time
	case 7:
		return a(7) // pure fork
	}
	panic("no such variant")
}

// contentTag identifies the committed state of a block (6b commits the same state as 6a).
func contentTag(i, v int) string {
	if i == 6 {
		return "6-0"
	}
	if v == 2 {
		return fmt.Sprintf("%d-0", i)
	}
	return fmt.Sprintf("%d-%d", i, v)
}

// Keys of the virtual counterparty's ibc store used by the use operations.
const (
	VKey       = "k"
	VAbsentKey = "absent"
)

// VValue is the value committed under VKey by block (i, v).
func VValue(i, v int) []byte { return []byte("value-" + contentTag(i, v)) }

func buildVChain(p Params) *VChain {
	c := &VChain{P: p, ChainID: fmt.Sprintf("virt-%d", p.Rev), blocks: map[[2]int]*VBlock{}, hdr: map[[2]int][]byte{}}
	c.Vals = ksim.NewValSetPowers("tmworld-val", []int64{10})
	c.Other = ksim.NewValSetPowers("tmworld-other-val", []int64{7, 5})
	// a packet the virtual chain "sent" to chain A over the fixture channel (for the receive use op)
	c.Packet = channeltypes.NewPacket(ibcmock.MockPacketData, 1, "mock", "channel-0", "mock", "channel-0", clienttypes.NewHeight(1, 1_000_000), 0)
	pcKey := string(host.PacketCommitmentKey("mock", "channel-0", 1))
	stores := map[string]*VStore{}
	for i := 1; i <= p.N; i++ {
		for _, v := range c.Variants(i) {
			tag := contentTag(i, v)
			st, ok := stores[tag]
			if !ok {
				st = NewVStore(map[string]map[string][]byte{
					"ibc":     {VKey: VValue(i, v), pcKey: channeltypes.CommitPacket(c.Packet)},
					"upgrade": {"plan": []byte("none")},
				}, [][2]string{{"ibc", VKey}, {"ibc", VAbsentKey}, {"ibc", pcKey}})
				stores[tag] = st
			}
			next := c.Vals.Set
			if v == 2 {
				next = c.Other.Set
			}
			b := &VBlock{I: i, V: v, Height: clienttypes.NewHeight(p.Rev, p.Base+uint64(i)), TimeNs: timeOf(i, v), Store: st, NextVals: next.Hash(), ChainID: c.ChainID}
			c.blocks[[2]int{i, v}] = b
			raw := RawHeader(c.ChainID, int64(b.Height.RevisionHeight), b.TimeNs, st.AppHash, c.Vals.Set, next)
			h, err := ksim.SignHeader(raw, c.Vals, clienttypes.NewHeight(p.Rev, 1), c.Vals.Set)
			if err != nil {
				panic(err)
			}
			bz, err := proto.Marshal(h)
			if err != nil {
				panic(err)
			}
			c.hdr[[2]int{i, v}] = bz
		}
	}
	// foreign-revision blocks: same committed state as the newest canonical block, 2 s younger
	top := c.blocks[[2]int{p.N, 0}]
	c.blocks[[2]int{ILowerRev, 0}] = &VBlock{I: ILowerRev, Height: clienttypes.NewHeight(p.Rev-1, p.Base+uint64(p.N)+3), TimeNs: top.TimeNs + sec(2), Store: top.Store, NextVals: c.Vals.Set.Hash(), ChainID: fmt.Sprintf("virt-%d", p.Rev-1)}
	c.blocks[[2]int{IHigherRev, 0}] = &VBlock{I: IHigherRev, Height: clienttypes.NewHeight(p.Rev+1, 1), TimeNs: top.TimeNs + sec(2), Store: top.Store, NextVals: c.Vals.Set.Hash(), ChainID: fmt.Sprintf("virt-%d", p.Rev+1)}
	return c
}

var unusedHash = tmhash.Sum([]byte{0x00})

// RawHeader builds an unsigned CometBFT header (ksim.World.RawHeader with an explicit chain id).
func RawHeader(chainID string, h int64, timeNs int64, appHash []byte, vals, next *cmttypes.ValidatorSet) cmttypes.Header {
	return cmttypes.Header{
		Version:            cmtprotoversion.Consensus{Block: cmtversion.BlockProtocol, App: 2},
		ChainID:            chainID,
		Height:             h,
		Time:               time.Unix(0, timeNs).UTC(),
		LastBlockID:        ibctesting.MakeBlockID(make([]byte, tmhash.Size), 10_000, make([]byte, tmhash.Size)),
		LastCommitHash:     unusedHash,
		DataHash:           unusedHash,
		ValidatorsHash:     vals.Hash(),
		NextValidatorsHash: next.Hash(),
		ConsensusHash:      unusedHash,
		AppHash:            appHash,
		LastResultsHash:    unusedHash,
		EvidenceHash:       unusedHash,
		ProposerAddress:    vals.Proposer.Address, //nolint:staticcheck
	}
}

// Block returns block (i, v).
func (c *VChain) Block(i, v int) *VBlock {
	b, ok := c.blocks[[2]int{i, v}]
	if !ok {
		panic(fmt.Sprintf("vchain: no block (%d,%d)", i, v))
	}
	return b
}

// Has reports whether block (i, v) exists.
func (c *VChain) Has(i, v int) bool { _, ok := c.blocks[[2]int{i, v}]; return ok }

// H is the IBC height of block index i.
func (c *VChain) H(i int) clienttypes.Height {
	if i >= ILowerRev {
		return c.Block(i, 0).Height
	}
	return clienttypes.NewHeight(c.P.Rev, c.P.Base+uint64(i))
}

// Header returns a fresh copy of the signed header of block (i, v) trusting height index ti.
func (c *VChain) Header(i, v, ti int) *ibctm.Header {
	h := &ibctm.Header{}
	if err := proto.Unmarshal(c.hdr[[2]int{i, v}], h); err != nil {
		panic(err)
	}
	h.TrustedHeight = c.H(ti)
	return h
}

// Cons is the consensus state header (i, v) yields.
func (c *VChain) Cons(i, v int) *ibctm.ConsensusState {
	b := c.Block(i, v)
	return ibctm.NewConsensusState(time.Unix(0, b.TimeNs).UTC(), commitmenttypes.NewMerkleRoot(b.Store.AppHash), b.NextVals)
}

// SameCons reports whether two variants of height index i yield the same consensus state.
func (c *VChain) SameCons(i, v1, v2 int) bool {
	a, b := c.Block(i, v1), c.Block(i, v2)
	return a.TimeNs == b.TimeNs && string(a.Store.AppHash) == string(b.Store.AppHash) && string(a.NextVals) == string(b.NextVals)
}

// ClientState builds a client state of the virtual chain at height index i.
func (c *VChain) ClientState(i int, trusting time.Duration) *ibctm.ClientState {
	chainID := c.ChainID
	if i >= ILowerRev {
		chainID = c.Block(i, 0).ChainID
	}
	return ibctm.NewClientState(chainID, ibctm.DefaultTrustLevel, trusting, Unbonding, Drift, c.H(i), commitmenttypes.GetSDKSpecs(), ibctesting.UpgradePath)
}
