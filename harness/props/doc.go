// Package props holds one scenario file per property (alphabet + bound + oracle).
package props
