// Package c26 decides C26: solo machine signatures are single-use, only valid over the exact
// (sequence, timestamp, diversifier, path, data) they signed, the consensus timestamp never
// decreases, and misbehaviour (two valid signatures over different data for one sequence) freezes.
//
// Engine: explicit-state breadth-first search over one real 06-solomachine client living on one real
// SimApp chain. Every operation goes through the production entry points (02-client keeper
// VerifyMembership / VerifyNonMembership, MsgUpdateClient through the message router). States are
// re-materialised by replaying the state's history on a CacheContext of a CacheContext of the chain's
// context (nothing is ever committed). The oracle is a reference machine
// (sequence, timestamp, frozen, public key, diversifier) written independently of the light client.
package c26

import (
	"crypto/sha256"
	"encoding/hex"
	"fmt"
	"sort"
	"strings"

	codectypes "github.com/cosmos/cosmos-sdk/codec/types"
	kmultisig "github.com/cosmos/cosmos-sdk/crypto/keys/multisig"
	"github.com/cosmos/cosmos-sdk/crypto/keys/secp256k1"
	cryptotypes "github.com/cosmos/cosmos-sdk/crypto/types"
	sdk "github.com/cosmos/cosmos-sdk/types"

	clienttypes "github.com/cosmos/ibc-go/v11/modules/core/02-client/types"
	commitmenttypesv2 "github.com/cosmos/ibc-go/v11/modules/core/23-commitment/types/v2"
	host "github.com/cosmos/ibc-go/v11/modules/core/24-host"
	"github.com/cosmos/ibc-go/v11/modules/core/exported"
	solomachine "github.com/cosmos/ibc-go/v11/modules/light-clients/06-solomachine"
	ibctesting "github.com/cosmos/ibc-go/v11/testing"
	"github.com/cosmos/ibc-go/v11/testing/simapp"

	"verif/harness/core"
)

func init() { core.Register("C26", "model_checking", run) }

// ---------------------------------------------------------------------------------------------
// operations (fully explicit, JSON-able, independent of the state they are applied in)

// SigSpec says what the solo machine signed: SignBytes{Seq, Ts, Div, path bytes, data bytes} with key set Key.
type SigSpec struct {
	Key  int    `json:"key"`            // signing key set (0 or 1)
	Seq  uint64 `json:"seq"`            // signed sequence
	Ts   uint64 `json:"ts"`             // signed timestamp
	Div  string `json:"div"`            // signed diversifier
	Path string `json:"path"`           // symbolic path: A | B | HDR (the header sentinel)
	Enc  string `json:"enc"`            // how the path is put into the sign bytes: raw | mp1 | mp2 (proto MerklePath of 1 / 2 elements)
	Data string `json:"data,omitempty"` // symbolic data: "" (nil) | x | y | hd:<key>:<div> (header data)
}

// MisbSig is one SignatureAndData of a misbehaviour message.
type MisbSig struct {
	Sig  SigSpec `json:"sig"`
	Path string  `json:"path"` // symbolic path put in the message
	Enc  string  `json:"enc"`  // encoding of the path in the message
	Data string  `json:"data"`
	Ts   uint64  `json:"ts"`
}

// Op is one operation on the client.
type Op struct {
	Label   string   `json:"label"` // stable class label (relative to the state it was generated in)
	Kind    string   `json:"kind"`  // vm | vnm | hdr | misb | equiv
	Sig     SigSpec  `json:"sig"`
	Ts      uint64   `json:"ts,omitempty"`       // claimed timestamp (proof / header)
	Path    string   `json:"path,omitempty"`     // claimed path (vm / vnm)
	Data    string   `json:"data,omitempty"`     // claimed value (vm)
	PathLen int      `json:"path_len,omitempty"` // number of merkle path elements handed to the keeper (2 = well formed)
	Proof   string   `json:"proof,omitempty"`    // "" | nil | garbage | emptysig
	NewKey  int      `json:"new_key,omitempty"`  // hdr: announced key set
	NewDiv  string   `json:"new_div,omitempty"`  // hdr: announced diversifier
	MSeq    uint64   `json:"mseq,omitempty"`     // misb: sequence
	M1      *MisbSig `json:"m1,omitempty"`
	M2      *MisbSig `json:"m2,omitempty"`
	// equiv: two conflicting signatures the client itself accepts for the current sequence
	// (E1, E2 are vm or hdr operations), then submitted as misbehaviour in every encoding.
	E1 *Op `json:"e1,omitempty"`
	E2 *Op `json:"e2,omitempty"`
}

// Ref is the reference machine.
type Ref struct {
	Seq    uint64 `json:"seq"`
	Ts     uint64 `json:"ts"`
	Frozen bool   `json:"frozen"`
	Key    int    `json:"key"`
	Div    string `json:"div"`
}

func (r Ref) String() string {
	return fmt.Sprintf("seq=%d ts=%d frozen=%v key=%d div=%s", r.Seq, r.Ts, r.Frozen, r.Key, r.Div)
}

// ---------------------------------------------------------------------------------------------
// fixture

const (
	div0 = "d0"
	div1 = "d1"
	ts0  = uint64(10)
)

type fixture struct {
	c        *core.C
	chain    *ibctesting.TestChain
	app      *simapp.SimApp
	solo     *ibctesting.Solomachine
	nKeys    int
	privs    [2][]cryptotypes.PrivKey
	pubs     [2][]cryptotypes.PubKey
	pub      [2]cryptotypes.PubKey
	pubAny   [2]*codectypes.Any
	root     sdk.Context
	clientID string
	signer   string
	sigCache map[string][]byte
	signed   int
}

func otherDiv(d string) string {
	if d == div0 {
		return div1
	}
	return div0
}

func newFixture(c *core.C, nKeys int) (*fixture, error) {
	f := &fixture{c: c, nKeys: nKeys, sigCache: map[string][]byte{}}
	coord := ibctesting.NewCoordinator(c.T, 1)
	f.chain = coord.GetChain(ibctesting.GetChainID(1))
	f.app = f.chain.GetSimApp()
	f.signer = f.chain.SenderAccount.GetAddress().String()
	// ibctesting.Solomachine is the signer; its (random) keys are replaced by keys derived from fixed
	// seeds so that every run signs the same bytes.
	f.solo = ibctesting.NewSolomachine(c.T, f.chain.Codec, "c26-solomachine", div0, uint64(nKeys))
	for set := 0; set < 2; set++ {
		for i := 0; i < nKeys; i++ {
			pk := secp256k1.GenPrivKeyFromSecret([]byte(fmt.Sprintf("verif-c26-keyset-%d-key-%d", set, i)))
			f.privs[set] = append(f.privs[set], pk)
			f.pubs[set] = append(f.pubs[set], pk.PubKey())
		}
		if nKeys > 1 {
			f.pub[set] = kmultisig.NewLegacyAminoPubKey(nKeys, f.pubs[set])
		} else {
			f.pub[set] = f.pubs[set][0]
		}
		a, err := codectypes.NewAnyWithValue(f.pub[set])
		if err != nil {
			return nil, err
		}
		f.pubAny[set] = a
	}
	f.useKeys(0)
	f.solo.Sequence, f.solo.Time, f.solo.Diversifier = 1, ts0, div0

	f.root, _ = f.chain.GetContext().CacheContext()
	msg, err := clienttypes.NewMsgCreateClient(f.solo.ClientState(), f.solo.ConsensusState(), f.signer)
	if err != nil {
		return nil, err
	}
	if err := msg.ValidateBasic(); err != nil {
		return nil, err
	}
	res, err := f.app.MsgServiceRouter().Handler(msg)(f.root.WithEventManager(sdk.NewEventManager()), msg)
	if err != nil {
		return nil, err
	}
	var resp clienttypes.MsgCreateClientResponse
	if len(res.MsgResponses) != 1 {
		return nil, fmt.Errorf("create client: %d responses", len(res.MsgResponses))
	}
	if err := resp.Unmarshal(res.MsgResponses[0].Value); err != nil {
		return nil, err
	}
	f.clientID = resp.ClientId
	if !strings.HasPrefix(f.clientID, exported.Solomachine) {
		return nil, fmt.Errorf("unexpected client id %q", f.clientID)
	}
	return f, nil
}

func (f *fixture) useKeys(set int) {
	f.solo.PrivateKeys, f.solo.PublicKeys, f.solo.PublicKey = f.privs[set], f.pubs[set], f.pub[set]
}

// rawKey is the ICS-24 key behind a symbolic path.
func rawKey(p string) []byte {
	switch p {
	case "A":
		return host.ConnectionKey("connection-0")
	case "B":
		return host.ChannelKey("transfer", "channel-0")
	case "HDR":
		return []byte(solomachine.SentinelHeaderPath)
	}
	panic("unknown path " + p)
}

func (f *fixture) pathBytes(p, enc string) []byte {
	k := rawKey(p)
	switch enc {
	case "raw":
		return k
	case "mp1":
		mp := commitmenttypesv2.NewMerklePath(k)
		return f.chain.Codec.MustMarshal(&mp)
	case "mp2":
		mp := commitmenttypesv2.NewMerklePath([]byte("ibc"), k)
		return f.chain.Codec.MustMarshal(&mp)
	}
	panic("unknown encoding " + enc)
}

func (f *fixture) dataBytes(d string) []byte {
	switch {
	case d == "":
		return nil
	case d == "x":
		return []byte("value-x")
	case d == "y":
		return []byte("value-y")
	case strings.HasPrefix(d, "hd:"):
		parts := strings.SplitN(d, ":", 3)
		set := 0
		if parts[1] == "1" {
			set = 1
		}
		return f.chain.Codec.MustMarshal(&solomachine.HeaderData{NewPubKey: f.pubAny[set], NewDiversifier: parts[2]})
	}
	panic("unknown data " + d)
}

func hd(key int, div string) string { return fmt.Sprintf("hd:%d:%s", key, div) }

// signBytes is the byte string the signer signs for s.
func (f *fixture) signBytes(s SigSpec) []byte {
	return f.chain.Codec.MustMarshal(&solomachine.SignBytes{Sequence: s.Seq, Timestamp: s.Ts, Diversifier: s.Div, Path: f.pathBytes(s.Path, s.Enc), Data: f.dataBytes(s.Data)})
}

// sign returns the proto-encoded signature data over s (memoised: signing is deterministic).
func (f *fixture) sign(s SigSpec) []byte {
	k := fmt.Sprintf("%d|%d|%d|%s|%s|%s|%s", s.Key, s.Seq, s.Ts, s.Div, s.Path, s.Enc, s.Data)
	if b, ok := f.sigCache[k]; ok {
		return b
	}
	f.useKeys(s.Key)
	b := f.solo.GenerateSignature(f.signBytes(s))
	f.sigCache[k] = b
	f.signed++
	return b
}

// covers is the reference notion of "the signature s is a signature over exactly this tuple":
// the reconstructed sign bytes equal the signed ones and the signer is the expected key.
func (f *fixture) covers(s SigSpec, key int, seq, ts uint64, div string, path, data []byte) bool {
	if s.Key != key || s.Seq != seq || s.Ts != ts || s.Div != div {
		return false
	}
	return string(f.pathBytes(s.Path, s.Enc)) == string(path) && string(f.dataBytes(s.Data)) == string(data)
}

// ---------------------------------------------------------------------------------------------
// reference machine

type verdict struct {
	mayAccept  bool // safety: the implementation is allowed to accept only if this holds
	mustFreeze bool // the statement demands that this misbehaviour freezes the client
	next       Ref
}

func (f *fixture) reference(r Ref, op Op) verdict {
	v := verdict{next: r}
	if r.Frozen {
		return v // frozen accepts nothing
	}
	switch op.Kind {
	case "vm", "vnm":
		data := f.dataBytes(op.Data)
		if op.Kind == "vnm" {
			data = nil
		}
		ok := op.Proof == "" && op.PathLen == 2 && op.Ts >= r.Ts &&
			f.covers(op.Sig, r.Key, r.Seq, op.Ts, r.Div, rawKey(op.Path), data)
		if ok {
			v.mayAccept = true
			v.next.Seq, v.next.Ts = r.Seq+1, op.Ts
		}
	case "hdr":
		ok := op.Ts != 0 && op.Ts >= r.Ts &&
			f.covers(op.Sig, r.Key, r.Seq, op.Ts, r.Div, []byte(solomachine.SentinelHeaderPath), f.dataBytes(hd(op.NewKey, op.NewDiv)))
		if ok {
			v.mayAccept = true
			v.next.Seq, v.next.Ts, v.next.Key, v.next.Div = r.Seq+1, op.Ts, op.NewKey, op.NewDiv
		}
	case "misb":
		good := func(m *MisbSig) bool {
			return m.Ts != 0 && len(f.dataBytes(m.Data)) > 0 &&
				f.covers(m.Sig, r.Key, op.MSeq, m.Ts, r.Div, f.pathBytes(m.Path, m.Enc), f.dataBytes(m.Data))
		}
		differ := !(string(f.pathBytes(op.M1.Path, op.M1.Enc)) == string(f.pathBytes(op.M2.Path, op.M2.Enc)) && op.M1.Data == op.M2.Data)
		if op.MSeq != 0 && good(op.M1) && good(op.M2) && differ && string(f.sign(op.M1.Sig)) != string(f.sign(op.M2.Sig)) {
			v.mayAccept = true
			v.mustFreeze = true
			v.next.Frozen = true
		}
	}
	return v
}

// ---------------------------------------------------------------------------------------------
// execution on the real client

type outcome struct {
	ok    bool
	err   string
	panic string
}

func (f *fixture) merklePath(p string, n int) commitmenttypesv2.MerklePath {
	switch n {
	case 1:
		return commitmenttypesv2.NewMerklePath(rawKey(p))
	case 3:
		return commitmenttypesv2.NewMerklePath([]byte("ibc"), []byte("extra"), rawKey(p))
	}
	return commitmenttypesv2.NewMerklePath([]byte("ibc"), rawKey(p))
}

func (f *fixture) proof(op Op) []byte {
	switch op.Proof {
	case "nil":
		return nil
	case "garbage":
		return []byte{0xff, 0x01, 0x02}
	case "emptysig":
		return f.chain.Codec.MustMarshal(&solomachine.TimestampedSignatureData{SignatureData: nil, Timestamp: op.Ts})
	}
	return f.chain.Codec.MustMarshal(&solomachine.TimestampedSignatureData{SignatureData: f.sign(op.Sig), Timestamp: op.Ts})
}

func (f *fixture) deliver(ctx sdk.Context, clientMsg exported.ClientMessage) error {
	msg, err := clienttypes.NewMsgUpdateClient(f.clientID, clientMsg, f.signer)
	if err != nil {
		return err
	}
	if err := msg.ValidateBasic(); err != nil { // baseapp runs ValidateBasic before the handler
		return err
	}
	_, err = f.app.MsgServiceRouter().Handler(msg)(ctx.WithEventManager(sdk.NewEventManager()), msg)
	return err
}

func (f *fixture) misbMsg(op Op) *solomachine.Misbehaviour {
	sd := func(m *MisbSig) *solomachine.SignatureAndData {
		return &solomachine.SignatureAndData{Signature: f.sign(m.Sig), Path: f.pathBytes(m.Path, m.Enc), Data: f.dataBytes(m.Data), Timestamp: m.Ts}
	}
	return &solomachine.Misbehaviour{Sequence: op.MSeq, SignatureOne: sd(op.M1), SignatureTwo: sd(op.M2)}
}

// exec runs op on a child of ctx and returns the outcome and the child (which the caller keeps only on success,
// like baseapp keeps the message's cache only when the handler returns nil).
func (f *fixture) exec(ctx sdk.Context, op Op) (outcome, sdk.Context) {
	child, _ := ctx.CacheContext()
	var err error
	p := core.Catch(func() {
		switch op.Kind {
		case "vm":
			err = f.app.IBCKeeper.ClientKeeper.VerifyMembership(child, f.clientID, clienttypes.ZeroHeight(), 0, 0, f.proof(op), f.merklePath(op.Path, op.PathLen), f.dataBytes(op.Data))
		case "vnm":
			err = f.app.IBCKeeper.ClientKeeper.VerifyNonMembership(child, f.clientID, clienttypes.ZeroHeight(), 0, 0, f.proof(op), f.merklePath(op.Path, op.PathLen))
		case "hdr":
			err = f.deliver(child, &solomachine.Header{Timestamp: op.Ts, Signature: f.sign(op.Sig), NewPublicKey: f.pubAny[op.NewKey], NewDiversifier: op.NewDiv})
		case "misb":
			err = f.deliver(child, f.misbMsg(op))
		default:
			panic("exec: unknown kind " + op.Kind)
		}
	})
	switch {
	case p != "":
		return outcome{panic: p}, child
	case err != nil:
		return outcome{err: err.Error()}, child
	}
	return outcome{ok: true}, child
}

// observe reads the real client.
func (f *fixture) observe(ctx sdk.Context) (Ref, string, error) {
	cs, found := f.app.IBCKeeper.ClientKeeper.GetClientState(ctx, f.clientID)
	if !found {
		return Ref{}, "", fmt.Errorf("client state not found")
	}
	sm, ok := cs.(*solomachine.ClientState)
	if !ok {
		return Ref{}, "", fmt.Errorf("client state is %T", cs)
	}
	r := Ref{Seq: sm.Sequence, Ts: sm.ConsensusState.Timestamp, Frozen: sm.IsFrozen, Div: sm.ConsensusState.Diversifier, Key: -1}
	pk, err := sm.ConsensusState.GetPubKey()
	if err != nil {
		return Ref{}, "", err
	}
	for i := range f.pub {
		if pk.Equals(f.pub[i]) {
			r.Key = i
		}
	}
	status := f.app.IBCKeeper.ClientKeeper.GetClientStatus(ctx, f.clientID)
	if (status == exported.Frozen) != r.Frozen {
		return r, "", fmt.Errorf("status %s but IsFrozen=%v", status, r.Frozen)
	}
	// digest of the whole client store (client state bytes; a solo machine keeps its consensus state inside them)
	h := sha256.New()
	it := f.app.IBCKeeper.ClientKeeper.ClientStore(ctx, f.clientID).Iterator(nil, nil)
	defer it.Close()
	for ; it.Valid(); it.Next() {
		fmt.Fprintf(h, "%d:%x=%d:%x;", len(it.Key()), it.Key(), len(it.Value()), it.Value())
	}
	return r, hex.EncodeToString(h.Sum(nil)[:12]), nil
}

// ---------------------------------------------------------------------------------------------
// alphabet

func plainSig(r Ref, ts uint64, path, data string) SigSpec {
	return SigSpec{Key: r.Key, Seq: r.Seq, Ts: ts, Div: r.Div, Path: path, Enc: "raw", Data: data}
}

func vmOp(label string, sig SigSpec, ts uint64, path, data string) Op {
	return Op{Label: label, Kind: "vm", Sig: sig, Ts: ts, Path: path, Data: data, PathLen: 2}
}

func vnmOp(label string, sig SigSpec, ts uint64, path string) Op {
	return Op{Label: label, Kind: "vnm", Sig: sig, Ts: ts, Path: path, PathLen: 2}
}

func hdrOp(label string, sig SigSpec, ts uint64, newKey int, newDiv string) Op {
	return Op{Label: label, Kind: "hdr", Sig: sig, Ts: ts, NewKey: newKey, NewDiv: newDiv}
}

func hdrSig(r Ref, ts uint64, newKey int, newDiv string) SigSpec {
	return SigSpec{Key: r.Key, Seq: r.Seq, Ts: ts, Div: r.Div, Path: "HDR", Enc: "raw", Data: hd(newKey, newDiv)}
}

// mutations of what was signed, claims unchanged: every sign-bytes field, one at a time.
func sigMutations(s SigSpec) []struct {
	name string
	sig  SigSpec
} {
	type m = struct {
		name string
		sig  SigSpec
	}
	var out []m
	add := func(name string, f func(x *SigSpec)) {
		x := s
		f(&x)
		out = append(out, m{name, x})
	}
	if s.Seq > 1 {
		add("seq-1", func(x *SigSpec) { x.Seq-- })
	}
	add("seq+1", func(x *SigSpec) { x.Seq++ })
	add("ts-1", func(x *SigSpec) { x.Ts-- })
	add("ts+1", func(x *SigSpec) { x.Ts++ })
	add("diversifier", func(x *SigSpec) { x.Div = otherDiv(x.Div) })
	add("signer-key", func(x *SigSpec) { x.Key = 1 - x.Key })
	add("path", func(x *SigSpec) {
		if x.Path == "A" {
			x.Path = "B"
		} else {
			x.Path = "A"
		}
	})
	add("path-encoding", func(x *SigSpec) { x.Enc = "mp2" })
	add("data", func(x *SigSpec) {
		if x.Data == "y" {
			x.Data = "x"
		} else {
			x.Data = "y"
		}
	})
	return out
}

// alphabet lists every operation tried in a state with reference r. hist is the state's first-found
// history (for replays of everything accepted so far); wide adds the thorough-only letters.
func (f *fixture) alphabet(r Ref, hist []Op, wide bool) []Op {
	var ops []Op
	t := r.Ts
	other := 1 - r.Key
	od := otherDiv(r.Div)

	// --- fresh, well-formed signatures (expected to be accepted)
	ops = append(ops,
		vmOp("vm/valid/A,x,ts+0", plainSig(r, t, "A", "x"), t, "A", "x"),
		vmOp("vm/valid/A,x,ts+1", plainSig(r, t+1, "A", "x"), t+1, "A", "x"),
		vmOp("vm/valid/B,y,ts+1", plainSig(r, t+1, "B", "y"), t+1, "B", "y"),
		vnmOp("vnm/valid/A,ts+0", plainSig(r, t, "A", ""), t, "A"),
		vnmOp("vnm/valid/B,ts+1", plainSig(r, t+1, "B", ""), t+1, "B"),
		hdrOp("hdr/valid/new-key,ts+0", hdrSig(r, t, other, r.Div), t, other, r.Div),
		hdrOp("hdr/valid/new-diversifier,ts+1", hdrSig(r, t+1, r.Key, od), t+1, r.Key, od),
		hdrOp("hdr/valid/new-key+diversifier,ts+1", hdrSig(r, t+1, other, od), t+1, other, od),
	)
	if wide {
		ops = append(ops,
			vmOp("vm/valid/A,y,ts+2", plainSig(r, t+2, "A", "y"), t+2, "A", "y"),
			vnmOp("vnm/valid/A,ts+2", plainSig(r, t+2, "A", ""), t+2, "A"),
			hdrOp("hdr/valid/same-key+diversifier,ts+0", hdrSig(r, t, r.Key, r.Div), t, r.Key, r.Div),
			// a header signature is a signature over (path = sentinel, data = header data): presenting it as a
			// membership proof of exactly that path and data is the same signed tuple
			vmOp("vm/valid/header-signature-as-proof-of-sentinel-path", hdrSig(r, t+1, other, r.Div), t+1, "HDR", hd(other, r.Div)),
			// a non-membership signature is a signature over empty data
			vmOp("vm/valid/empty-value-with-non-membership-signature", plainSig(r, t+1, "A", ""), t+1, "A", ""),
		)
	}

	// --- fresh signatures with one sign-bytes field mutated (claims keep the base values)
	baseVM := vmOp("", plainSig(r, t+1, "A", "x"), t+1, "A", "x")
	for _, m := range sigMutations(baseVM.Sig) {
		o := baseVM
		o.Label, o.Sig = "vm/mutated-signature/"+m.name, m.sig
		ops = append(ops, o)
	}
	baseVNM := vnmOp("", plainSig(r, t+1, "A", ""), t+1, "A")
	for _, m := range sigMutations(baseVNM.Sig) {
		o := baseVNM
		o.Label, o.Sig = "vnm/mutated-signature/"+m.name, m.sig
		ops = append(ops, o)
	}
	baseHdr := hdrOp("", hdrSig(r, t+1, other, r.Div), t+1, other, r.Div)
	for _, m := range sigMutations(baseHdr.Sig) {
		o := baseHdr
		switch m.name {
		case "path": // signed over an ordinary path instead of the sentinel
			m.sig.Path = "A"
		case "data": // signed header data announces the other diversifier
			m.sig.Data = hd(other, od)
		}
		o.Label, o.Sig = "hdr/mutated-signature/"+m.name, m.sig
		ops = append(ops, o)
	}
	{ // signed header data announces another key than the header carries
		o := baseHdr
		o.Label, o.Sig.Data = "hdr/mutated-signature/new-key", hd(r.Key, r.Div)
		ops = append(ops, o)
	}

	// --- claims mutated, signature kept (the signature no longer covers what is claimed)
	{
		s := plainSig(r, t+1, "A", "x")
		ops = append(ops,
			vmOp("vm/mutated-claim/ts+1", s, t+2, "A", "x"),
			vmOp("vm/mutated-claim/ts-1", s, t, "A", "x"),
			vmOp("vm/mutated-claim/path", s, t+1, "B", "x"),
			vmOp("vm/mutated-claim/data", s, t+1, "A", "y"),
			vmOp("vm/mutated-claim/data-empty", s, t+1, "A", ""),
			vnmOp("vnm/membership-signature-as-non-membership", s, t+1, "A"),
			vnmOp("vnm/mutated-claim/path", plainSig(r, t+1, "A", ""), t+1, "B"),
		)
		h := baseHdr
		h.Label, h.Ts = "hdr/mutated-claim/ts+1", t+2
		ops = append(ops, h)
		h = baseHdr
		h.Label, h.NewKey = "hdr/mutated-claim/new-key", r.Key
		ops = append(ops, h)
		h = baseHdr
		h.Label, h.NewDiv = "hdr/mutated-claim/new-diversifier", od
		ops = append(ops, h)
	}

	// --- correctly signed, but going back in time (timestamp monotonicity)
	if t > 1 {
		ops = append(ops,
			vmOp("vm/time-decrease/ts-1", plainSig(r, t-1, "A", "x"), t-1, "A", "x"),
			vnmOp("vnm/time-decrease/ts-1", plainSig(r, t-1, "A", ""), t-1, "A"),
			hdrOp("hdr/time-decrease/ts-1", hdrSig(r, t-1, other, r.Div), t-1, other, r.Div),
		)
	}

	// --- malformed transport
	{
		o := baseVM
		o.Label, o.PathLen = "vm/malformed/path-len-1", 1
		ops = append(ops, o)
		o = baseVM
		o.Label, o.PathLen = "vm/malformed/path-len-3", 3
		ops = append(ops, o)
		o = baseVNM
		o.Label, o.PathLen = "vnm/malformed/path-len-1", 1
		ops = append(ops, o)
		for _, p := range []string{"nil", "garbage", "emptysig"} {
			o = baseVM
			o.Label, o.Proof = "vm/malformed/proof-"+p, p
			ops = append(ops, o)
		}
		o = baseVNM
		o.Label, o.Proof = "vnm/malformed/proof-nil", "nil"
		ops = append(ops, o)
	}

	// --- signatures for other sequences, by either key, under either diversifier (everything the signer
	//     could have signed, or had accepted, earlier or later on some other history)
	var seqs []uint64
	lo := uint64(1)
	if !wide && r.Seq > 3 {
		lo = r.Seq - 3
	}
	for s := lo; s < r.Seq; s++ {
		seqs = append(seqs, s)
	}
	seqs = append(seqs, r.Seq+1, r.Seq+2)
	for _, s := range seqs {
		for _, k := range []int{r.Key, other} {
			for _, d := range []string{r.Div, od} {
				rel := fmt.Sprintf("seq%+d/key=%s/div=%s", int64(s)-int64(r.Seq), same(k == r.Key), same(d == r.Div))
				sg := SigSpec{Key: k, Seq: s, Ts: t + 1, Div: d, Path: "A", Enc: "raw", Data: "x"}
				ops = append(ops, vmOp("vm/other-sequence/"+rel, sg, t+1, "A", "x"))
				sg.Data = ""
				ops = append(ops, vnmOp("vnm/other-sequence/"+rel, sg, t+1, "A"))
				hs := SigSpec{Key: k, Seq: s, Ts: t + 1, Div: d, Path: "HDR", Enc: "raw", Data: hd(other, r.Div)}
				ops = append(ops, hdrOp("hdr/other-sequence/"+rel, hs, t+1, other, r.Div))
			}
		}
	}

	// --- replays of every operation accepted on this state's history, verbatim and with the claimed
	//     timestamp lifted to now (the signature then no longer covers the claim)
	for i, h := range hist {
		age := len(hist) - i
		o := h
		o.Label = fmt.Sprintf("replay/age=%d/%s", age, h.Label)
		ops = append(ops, o)
		if h.Kind == "vm" || h.Kind == "vnm" || h.Kind == "hdr" {
			o = h
			o.Label = fmt.Sprintf("replay-with-current-timestamp/age=%d/%s", age, h.Label)
			o.Ts = t + 1
			ops = append(ops, o)
		}
	}

	// --- misbehaviour in the format the misbehaviour handler verifies (path = proto MerklePath bytes)
	mk := func(label string, seq uint64, a, b MisbSig) Op {
		return Op{Label: label, Kind: "misb", MSeq: seq, M1: &a, M2: &b}
	}
	ms := func(key int, seq, ts uint64, div, path, enc, data string) MisbSig {
		return MisbSig{Sig: SigSpec{Key: key, Seq: seq, Ts: ts, Div: div, Path: path, Enc: enc, Data: data}, Path: path, Enc: enc, Data: data, Ts: ts}
	}
	for _, d := range []int64{0, -1, +1} {
		s := uint64(int64(r.Seq) + d)
		if s == 0 {
			continue
		}
		ops = append(ops, mk(fmt.Sprintf("misb/valid/handler-format/seq%+d/same-path-different-data", d), s,
			ms(r.Key, s, t, r.Div, "A", "mp2", "x"), ms(r.Key, s, t+1, r.Div, "A", "mp2", "y")))
	}
	ops = append(ops, mk("misb/valid/handler-format/seq+0/different-path-same-data", r.Seq,
		ms(r.Key, r.Seq, t, r.Div, "A", "mp2", "x"), ms(r.Key, r.Seq, t, r.Div, "B", "mp2", "x")))
	if t > 1 { // past timestamps are admitted for misbehaviour by design; the reference admits them too
		ops = append(ops, mk("misb/valid/handler-format/seq+0/past-timestamps", r.Seq,
			ms(r.Key, r.Seq, t-1, r.Div, "A", "mp1", "x"), ms(r.Key, r.Seq, t-1, r.Div, "A", "mp1", "y")))
	}
	{
		good := ms(r.Key, r.Seq, t, r.Div, "A", "mp2", "x")
		bad := func(f func(m *MisbSig)) MisbSig {
			m := ms(r.Key, r.Seq, t+1, r.Div, "A", "mp2", "y")
			f(&m)
			return m
		}
		ops = append(ops,
			mk("misb/invalid/second-signed-by-other-key", r.Seq, good, bad(func(m *MisbSig) { m.Sig.Key = other })),
			mk("misb/invalid/second-signed-under-other-diversifier", r.Seq, good, bad(func(m *MisbSig) { m.Sig.Div = od })),
			mk("misb/invalid/second-signed-for-next-sequence", r.Seq, good, bad(func(m *MisbSig) { m.Sig.Seq++ })),
			mk("misb/invalid/second-signed-other-timestamp", r.Seq, good, bad(func(m *MisbSig) { m.Sig.Ts++ })),
			mk("misb/invalid/second-signed-other-data", r.Seq, good, bad(func(m *MisbSig) { m.Sig.Data = "x" })),
			mk("misb/invalid/second-signed-other-path", r.Seq, good, bad(func(m *MisbSig) { m.Sig.Path = "B" })),
			mk("misb/invalid/first-signed-by-other-key", r.Seq, bad(func(m *MisbSig) { m.Sig.Key = other }), good),
			mk("misb/invalid/same-message-twice", r.Seq, good, good),
			mk("misb/invalid/same-path-and-data-different-timestamp", r.Seq, good, ms(r.Key, r.Seq, t+1, r.Div, "A", "mp2", "x")),
			mk("misb/invalid/sequence-zero", 0, ms(r.Key, 0, t, r.Div, "A", "mp2", "x"), ms(r.Key, 0, t, r.Div, "A", "mp2", "y")),
		)
	}

	// --- equivocation with signatures the client's own verification accepts (suspected defect 7)
	{
		e1 := vmOp("vm/valid/A,x,ts+1", plainSig(r, t+1, "A", "x"), t+1, "A", "x")
		e2 := vmOp("vm/valid/A,y,ts+1", plainSig(r, t+1, "A", "y"), t+1, "A", "y")
		ops = append(ops, Op{Label: "equivocation/two-accepted-membership-signatures", Kind: "equiv", E1: &e1, E2: &e2})
		h1 := hdrOp("hdr/valid/new-key,ts+1", hdrSig(r, t+1, other, r.Div), t+1, other, r.Div)
		h2 := hdrOp("hdr/valid/new-diversifier,ts+1", hdrSig(r, t+1, r.Key, od), t+1, r.Key, od)
		ops = append(ops, Op{Label: "equivocation/two-accepted-header-signatures", Kind: "equiv", E1: &h1, E2: &h2})
	}
	return ops
}

func same(b bool) string {
	if b {
		return "same"
	}
	return "other"
}

// ---------------------------------------------------------------------------------------------
// search

type node struct {
	ref  Ref
	hist []Op
}

type explorer struct {
	f           *fixture
	c           *core.C
	tag         string // "single" | "multisig"
	wide        bool
	states      int
	transitions int
	replays     int
	implOf      map[string]string // reference key -> store digest
	refOf       map[string]string // store digest -> reference key
	rejectedOK  map[string]int    // label class -> valid operation rejected (reference/impl acceptance mismatch)
	kinds       map[string]int
}

type replayArt struct {
	Multisig bool `json:"multisig"`
	Wide     bool `json:"wide"`
	History  []Op `json:"history"`
	Op       Op   `json:"op"`
}

func (e *explorer) art(hist []Op, op Op) replayArt {
	return replayArt{Multisig: e.f.nKeys > 1, Wide: e.wide, History: hist, Op: op}
}

// materialise replays hist on a fresh CacheContext of the root and checks every step against the reference.
func (e *explorer) materialise(hist []Op) (sdk.Context, Ref, map[string]bool, bool) {
	ctx, _ := e.f.root.CacheContext()
	r := Ref{Seq: 1, Ts: ts0, Key: 0, Div: div0}
	accepted := map[string]bool{}
	e.replays++
	for i, h := range hist {
		out, child := e.f.exec(ctx, h)
		v := e.f.reference(r, h)
		if !out.ok || !v.mayAccept {
			e.c.Broken("%s: replay of a recorded history diverged at step %d (%s): ok=%v err=%s", e.tag, i, h.Label, out.ok, out.err)
			return ctx, r, accepted, false
		}
		ctx, r = child, v.next
		if h.Kind != "misb" {
			accepted[string(e.f.sign(h.Sig))] = true
		}
	}
	got, _, err := e.f.observe(ctx)
	if err != nil || got != r {
		e.c.Broken("%s: after replay the client is (%s), reference (%s), err=%v", e.tag, got, r, err)
		return ctx, r, accepted, false
	}
	return ctx, r, accepted, true
}

// group is the coarse class of a label (its first two segments) used for the coverage histogram.
func group(label string) string {
	parts := strings.Split(label, "/")
	if parts[0] == "replay" || parts[0] == "replay-with-current-timestamp" {
		return parts[0]
	}
	if len(parts) > 2 {
		parts = parts[:2]
	}
	return strings.Join(parts, "/")
}

func class(label string) string {
	// replay labels embed an age; the class drops it so that keys are stable across depths
	if strings.HasPrefix(label, "replay") {
		parts := strings.SplitN(label, "/", 3)
		if len(parts) == 3 {
			return parts[0] + "/" + parts[2]
		}
	}
	return label
}

// step executes op in the state (ctx, r) and applies the oracle. It returns the successor (ok=false when the
// operation did not change the state).
func (e *explorer) step(ctx sdk.Context, r Ref, accepted map[string]bool, hist []Op, op Op) (Ref, bool, sdk.Context) {
	if op.Kind == "equiv" {
		e.equivocation(ctx, r, hist, op)
		return r, false, ctx
	}
	c := e.c
	out, child := e.f.exec(ctx, op)
	v := e.f.reference(r, op)
	e.transitions++
	key := e.tag + "/" + class(op.Label)
	res := "rejected"
	if out.ok {
		res = "accepted"
	} else if out.panic != "" {
		res = "panic"
		c.Hist("panics", op.Kind)
	}
	c.Hist("outcomes", op.Kind+"/"+res)
	grp := group(op.Label)
	if r.Frozen {
		grp = "frozen-state:" + grp
	}
	c.Hist("operation_classes", grp+"/"+res)
	if strings.HasPrefix(op.Label, "replay/") {
		c.Add("replays_of_accepted_operations_tried", 1)
		if !out.ok {
			c.Add("replays_of_accepted_operations_rejected", 1)
		}
	}
	if !out.ok {
		if v.mustFreeze {
			c.Violation("misbehaviour-not-freezing/"+key, fmt.Sprintf("in state (%s) the misbehaviour %s (two signatures by the current key over different data for sequence %d) was rejected: %s%s", r, op.Label, op.MSeq, out.err, out.panic), e.art(hist, op))
		} else if v.mayAccept {
			e.rejectedOK[key+": "+out.err+out.panic]++
		}
		return r, false, ctx
	}
	// accepted
	after, _, err := e.f.observe(child)
	if err != nil {
		c.Broken("%s: cannot read the client after %s: %v", e.tag, op.Label, err)
		return r, false, ctx
	}
	if r.Frozen {
		c.Violation("frozen-client-accepted/"+key, fmt.Sprintf("frozen client (%s) accepted %s", r, op.Label), e.art(hist, op))
		return r, false, ctx
	}
	if !v.mayAccept {
		c.Violation("accepted-without-covering-signature/"+key, fmt.Sprintf("in state (%s) the client accepted %s although the signature does not cover exactly (current key, sequence, claimed timestamp, diversifier, path, data) or the timestamp went back; client afterwards (%s)", r, op.Label, after), e.art(hist, op))
		return r, false, ctx
	}
	if after.Ts < r.Ts {
		c.Violation("timestamp-decreased/"+key, fmt.Sprintf("consensus timestamp went from %d to %d by %s", r.Ts, after.Ts, op.Label), e.art(hist, op))
	}
	switch op.Kind {
	case "vm", "vnm", "hdr":
		if after.Seq != r.Seq+1 {
			c.Violation("sequence-not-consumed/"+key, fmt.Sprintf("successful %s moved the sequence from %d to %d (want exactly +1)", op.Label, r.Seq, after.Seq), e.art(hist, op))
			return r, false, ctx
		}
		if s := string(e.f.sign(op.Sig)); accepted[s] {
			c.Violation("signature-accepted-twice/"+key, fmt.Sprintf("the signature of %s had already been accepted earlier on this history and was accepted again in state (%s)", op.Label, r), e.art(hist, op))
		}
	case "misb":
		if !after.Frozen {
			c.Violation("misbehaviour-not-freezing/"+key, fmt.Sprintf("misbehaviour %s was accepted in state (%s) but the client is not frozen afterwards", op.Label, r), e.art(hist, op))
			return r, false, ctx
		}
	}
	if after != v.next {
		// the remaining fields (timestamp taken from the claim, announced key / diversifier) are the reference
		// machine's own book-keeping: a difference means the model cannot follow this implementation
		c.Broken("%s: after %s the client is (%s) but the reference machine is (%s)", e.tag, op.Label, after, v.next)
		return r, false, ctx
	}
	return v.next, true, child
}

// equivocation: E1 and E2 are two operations over different data that the client itself accepts in this
// state, each on its own branch (so both signatures are valid for one and the same sequence). The statement
// demands that such a pair, handed in as misbehaviour, freezes the client. The pair is submitted with the
// path exactly as signed and, for completeness, re-wrapped as the proto MerklePath the handler wants.
func (e *explorer) equivocation(ctx sdk.Context, r Ref, hist []Op, op Op) {
	c := e.c
	if r.Frozen {
		return
	}
	o1, _ := e.f.exec(ctx, *op.E1)
	o2, _ := e.f.exec(ctx, *op.E2)
	e.transitions += 2
	if !o1.ok || !o2.ok {
		e.rejectedOK[e.tag+"/"+op.Label+": constituent rejected: "+o1.err+" | "+o2.err]++
		return
	}
	froze := ""
	var errs []string
	for _, enc := range []string{"raw", "mp1", "mp2"} {
		m := func(x *Op) *MisbSig {
			d := x.Data
			if x.Kind == "hdr" {
				d = hd(x.NewKey, x.NewDiv)
			}
			p := x.Path
			if x.Kind == "hdr" {
				p = "HDR"
			}
			return &MisbSig{Sig: x.Sig, Path: p, Enc: enc, Data: d, Ts: x.Ts}
		}
		mop := Op{Label: op.Label + "/submitted-with-path-" + enc, Kind: "misb", MSeq: r.Seq, M1: m(op.E1), M2: m(op.E2)}
		out, child := e.f.exec(ctx, mop)
		e.transitions++
		c.Hist("outcomes", "equivocation-"+enc+"/"+map[bool]string{true: "accepted", false: "rejected"}[out.ok])
		if out.ok {
			if after, _, err := e.f.observe(child); err == nil && after.Frozen {
				froze = enc
				break
			}
		}
		errs = append(errs, enc+": "+out.err+out.panic)
	}
	c.Hist("equivocation", op.Label+"/"+map[bool]string{true: "frozen", false: "cannot-be-submitted"}[froze != ""])
	if froze == "" {
		c.Violation("misbehaviour-unsubmittable/"+strings.TrimPrefix(op.Label, "equivocation/"),
			fmt.Sprintf("in state (%s) the client accepts both %s and %s for sequence %d (each verified on its own branch), i.e. two valid signatures over different data for one sequence, but no misbehaviour message built from these two signatures freezes it: %s", r, op.E1.Label, op.E2.Label, r.Seq, strings.Join(errs, " || ")),
			e.art(hist, op))
	}
}

func refKey(r Ref) string { return r.String() }

func (e *explorer) run(maxDepth int) {
	c := e.c
	frontier := []node{{ref: Ref{Seq: 1, Ts: ts0, Key: 0, Div: div0}}}
	{
		ctx, _, _, ok := e.materialise(nil)
		if !ok {
			return
		}
		_, dg, err := e.f.observe(ctx)
		if err != nil {
			c.Broken("%s: observe root: %v", e.tag, err)
			return
		}
		e.implOf[refKey(frontier[0].ref)] = dg
		e.refOf[dg] = refKey(frontier[0].ref)
	}
	e.states = 1
	for depth := 0; depth <= maxDepth && len(frontier) > 0; depth++ {
		var next []node
		for ni, n := range frontier {
			if c.TimeUp() {
				return
			}
			ctx, r, accepted, ok := e.materialise(n.hist)
			if !ok {
				return
			}
			if depth == 1 && ni == 0 { // determinism self-check: a second replay gives the same store
				ctx2, _, _, _ := e.materialise(n.hist)
				_, d1, _ := e.f.observe(ctx)
				_, d2, _ := e.f.observe(ctx2)
				if d1 != d2 {
					c.Broken("%s: two replays of one history give different client stores", e.tag)
					return
				}
			}
			if r != n.ref {
				c.Broken("%s: history does not lead to its recorded state", e.tag)
				return
			}
			for _, op := range e.f.alphabet(r, n.hist, e.wide) {
				nr, changed, child := e.step(ctx, r, accepted, n.hist, op)
				if op.Kind != "equiv" && e.transitions%1009 == 5 {
					c.Sample(map[string]any{"signer": e.tag, "state": r.String(), "history": labels(n.hist), "op": op.Label, "successor": nr.String(), "state_changed": changed})
				}
				if !changed {
					continue
				}
				e.kinds[op.Kind]++
				if depth == maxDepth {
					continue // successors beyond the bound are checked (oracle applied) but not expanded
				}
				k := refKey(nr)
				if _, seen := e.implOf[k]; seen {
					continue
				}
				// new state: record the correspondence reference state <-> real store bytes
				h2 := append(append([]Op{}, n.hist...), op)
				_, dg, err := e.f.observe(child)
				if err != nil {
					c.Broken("%s: observe successor: %v", e.tag, err)
					return
				}
				if prev, dup := e.refOf[dg]; dup && prev != k {
					c.Broken("%s: reference states (%s) and (%s) have the same client store", e.tag, prev, k)
					return
				}
				e.implOf[k], e.refOf[dg] = dg, k
				e.states++
				next = append(next, node{ref: nr, hist: h2})
			}
		}
		frontier = next
	}
}

func labels(h []Op) []string {
	out := make([]string, len(h))
	for i, o := range h {
		out[i] = o.Label
	}
	return out
}

func explore(c *core.C, tag string, nKeys, depth int, wide bool) *explorer {
	f, err := newFixture(c, nKeys)
	if err != nil {
		c.Broken("%s: fixture: %v", tag, err)
		return nil
	}
	e := &explorer{f: f, c: c, tag: tag, wide: wide, implOf: map[string]string{}, refOf: map[string]string{}, rejectedOK: map[string]int{}, kinds: map[string]int{}}
	e.run(depth)
	c.Add("states", e.states)
	c.Add("transitions", e.transitions)
	c.Add("traces_validated_against_impl", e.replays)
	c.Add("signatures_produced", f.signed)
	c.Set("depth_"+tag, depth)
	c.Set("states_"+tag, e.states)
	for _, k := range []string{"vm", "vnm", "hdr", "misb"} {
		c.Add("state_changing_"+k, e.kinds[k])
		if e.kinds[k] == 0 && !c.Capped() && c.Violations() == 0 {
			c.Broken("%s: no successful %s operation at all — the exploration is vacuous", tag, k)
		}
	}
	if len(e.rejectedOK) > 0 {
		var ks []string
		for k, n := range e.rejectedOK {
			ks = append(ks, fmt.Sprintf("%s (x%d)", k, n))
		}
		sort.Strings(ks)
		if len(ks) > 6 {
			ks = ks[:6]
		}
		c.Broken("%s: the client rejected operations the reference machine considers valid (not a C26 violation, but the model no longer follows the implementation): %s", tag, strings.Join(ks, "; "))
	}
	return e
}

func run(c *core.C) {
	if c.Replay != "" {
		replay(c)
		return
	}
	// quick: single key to depth 5 (narrow alphabet), 2-of-2 multisig to depth 3;
	// thorough: both to depth 7 with the wide alphabet (more valid letters, all earlier sequences).
	c.Set("rule", "explicit-state BFS over the real solo machine client; a state is (sequence, timestamp, frozen, public key, diversifier) = the bytes of the client store (bijection checked); every state reached by <= depth state-changing operations is expanded with the whole alphabet (valid fresh signatures, every single sign-bytes field mutated, claims mutated, time going back, malformed transport, signatures for every other sequence by either key under either diversifier, verbatim replays of everything accepted on the state's history, misbehaviour in handler format valid/invalid, equivocation with signatures the client itself accepts); operations that fail leave the state unchanged (message atomicity) and are self-loops")
	explore(c, "single", 1, core.Pick(c, 5, 7), !c.Quick())
	explore(c, "multisig", 2, core.Pick(c, 3, 7), !c.Quick())
	c.Assume("signatures are a deterministic function of (key, sign bytes) (RFC 6979), so 'all signatures produced so far' is modelled as the set of all signatures the signer could have produced over the small field domains; every operation accepted on a state's first-found history is additionally replayed verbatim")
	c.Assume("a failed verification or message is rolled back by the transaction (the check discards the CacheContext branch exactly as baseapp does); the client keeper's VerifyMembership / VerifyNonMembership are called directly, MsgUpdateClient goes through ValidateBasic and the message router")
	c.Assume("misbehaviour signed by a rotated-out key or diversifier is not required to freeze the client (validity is judged against the client's current key and diversifier, as ICS-06 specifies)")
}

func replay(c *core.C) {
	var a replayArt
	if err := c.LoadReplay(&a); err != nil {
		c.Broken("cannot load replay: %v", err)
		return
	}
	n := 1
	tag := "single"
	if a.Multisig {
		n, tag = 2, "multisig"
	}
	f, err := newFixture(c, n)
	if err != nil {
		c.Broken("fixture: %v", err)
		return
	}
	e := &explorer{f: f, c: c, tag: tag, wide: a.Wide, implOf: map[string]string{}, refOf: map[string]string{}, rejectedOK: map[string]int{}, kinds: map[string]int{}}
	ctx, r, accepted, ok := e.materialise(a.History)
	if !ok {
		return
	}
	e.step(ctx, r, accepted, a.History, a.Op)
	c.Set("states", 1)
	c.Set("transitions", e.transitions)
	c.Set("traces_validated_against_impl", e.replays)
	c.Sample(map[string]any{"history": labels(a.History), "op": a.Op.Label})
}
