package props

import (
	"sync"
	"time"

	channeltypes "github.com/cosmos/ibc-go/v11/modules/core/04-channel/types"

	"verif/harness/core"
	"verif/harness/ksim"
)

// C05: receipt only of proven, unaltered, unexpired counterparty packets — a mutation lattice over reachable states.
func init() { core.Register("C05", "model_checking", runC05) }

func c05Scenario(c *core.C, routes []int, timeouts []int, payloads ...int) *PL {
	sc := macro(&PL{Routes: routes, MaxSend: 2, MaxCommits: 3, Close: true, TimeoutIn: timeouts, DataKinds: []string{"ok"}})
	if len(payloads) > 0 {
		sc.Payloads = payloads[0]
		sc.MaxSend = 1
	}
	sc.Movers = []string{"freezeB", "expireB"}
	var mu sync.Mutex
	full := false
	sc.InvFn = func(s *PL, w *ksim.World) *ksim.Fail {
		mu.Lock()
		f := full
		mu.Unlock()
		fail := recvLattice(c, s, w, &f)
		if f {
			mu.Lock()
			full = true
			mu.Unlock()
		}
		return fail
	}
	return sc
}

func runC05(c *core.C) {
	d := core.Pick(c, 0, 1)
	parts := []ksim.Part{
		{Name: "v1-unordered", Sc: c05Scenario(c, []int{rV1U}, []int{0, 1}), Cfg: ksim.Config{MaxDepth: 5 + d}, Share: 0.25},
		{Name: "v1-ordered", Sc: c05Scenario(c, []int{rV1O}, []int{0, -1}), Cfg: ksim.Config{MaxDepth: 5 + d}, Share: 0.33},
		{Name: "v2-client", Sc: c05Scenario(c, []int{rV2C}, []int{0, 1}), Cfg: ksim.Config{MaxDepth: 5 + d}, Share: 0.5},
		{Name: "v2-alias", Sc: c05Scenario(c, []int{rV2A}, []int{0, 1}), Cfg: ksim.Config{MaxDepth: 5 + d}, Share: 0.6},
		{Name: "v2-client/2-payloads", Sc: c05Scenario(c, []int{rV2C}, []int{0, 1}, 2), Cfg: ksim.Config{MaxDepth: 4 + d}, Share: 0.6},
		{Name: "v2-alias/3-payloads", Sc: c05Scenario(c, []int{rV2A}, []int{0}, 3), Cfg: ksim.Config{MaxDepth: 4 + d}},
	}
	ksim.RunParts(c, parts, [][]ksim.Op{
		{{K: "send", A: []int{0, 0, 1}}, {K: "sync", A: []int{0}}, {K: "move", A: []int{0}}},
	})
	c.Set("alphabet", "states: send(timeout far | next destination block) | sync(A|B) | recv | close(B end) | freeze destination client by misbehaviour | expire destination client; in every state, for every sent packet and every stored consensus height: the honest MsgRecvPacket and every single-field mutant (data, timeout height/timestamp/revision, sequence, each identifier -> existing sibling, payload fields/order/count, 512 forged values per payload position of multi-payload packets, proof bytes, proofs of other keys, every other proof height)")
	c.Set("mutants_note", "proof bytes: every 97th byte is flipped in every state, every byte (lsb and msb) in the first accepting state of each part")
	c.Assume("counterparty consensus, storage commit and validator signing are played by the harness; the reference predicate reads channel/client state through the keepers and commitments from the harness's record of the source chain")
	_ = channeltypes.OPEN
	_ = time.Second
}
