package c44

import (
	"bytes"
	"encoding/json"
	"fmt"
	"regexp"
	"sort"
	"strings"
	"sync"

	sdkclient "github.com/cosmos/cosmos-sdk/client"
	"github.com/cosmos/cosmos-sdk/codec"
	sdk "github.com/cosmos/cosmos-sdk/types"

	abci "github.com/cometbft/cometbft/abci/types"

	gmptypes "github.com/cosmos/ibc-go/v11/modules/apps/27-gmp/types"
	icactltypes "github.com/cosmos/ibc-go/v11/modules/apps/27-interchain-accounts/controller/types"
	icahosttypes "github.com/cosmos/ibc-go/v11/modules/apps/27-interchain-accounts/host/types"
	icatypes "github.com/cosmos/ibc-go/v11/modules/apps/27-interchain-accounts/types"
	pfmtypes "github.com/cosmos/ibc-go/v11/modules/apps/packet-forward-middleware/types"
	ratelimittypes "github.com/cosmos/ibc-go/v11/modules/apps/rate-limiting/types"
	transfertypes "github.com/cosmos/ibc-go/v11/modules/apps/transfer/types"
	ibcexported "github.com/cosmos/ibc-go/v11/modules/core/exported"

	"verif/harness/core"
	"verif/harness/ksim"
)

// modules in the application's genesis order, with the stores each one owns
var ibcModules = []struct {
	Module string
	Stores []string
}{
	{ibcexported.ModuleName, []string{ibcexported.StoreKey}},
	{transfertypes.ModuleName, []string{transfertypes.StoreKey}},
	{ratelimittypes.ModuleName, []string{ratelimittypes.StoreKey}},
	{pfmtypes.ModuleName, []string{pfmtypes.StoreKey}},
	{icatypes.ModuleName, []string{icactltypes.StoreKey, icahosttypes.StoreKey}},
	{gmptypes.ModuleName, []string{gmptypes.StoreKey}},
}

type (
	genExporter interface {
		ExportGenesis(sdk.Context, codec.JSONCodec) json.RawMessage
	}
	genInit interface {
		InitGenesis(sdk.Context, codec.JSONCodec, json.RawMessage)
	}
	genInitABCI interface {
		InitGenesis(sdk.Context, codec.JSONCodec, json.RawMessage) []abci.ValidatorUpdate
	}
	genValidator interface {
		ValidateGenesis(codec.JSONCodec, sdkclient.TxEncodingConfig, json.RawMessage) error
	}
)

type kv struct{ k, v []byte }

func dumpStore(ctx sdk.Context, w *ksim.World, chain int, store string) []kv {
	key := w.W.Chains[chain].App.GetKey(store)
	if key == nil {
		panic("no store " + store)
	}
	var out []kv
	it := ctx.KVStore(key).Iterator(nil, nil)
	defer it.Close()
	for ; it.Valid(); it.Next() {
		out = append(out, kv{append([]byte{}, it.Key()...), append([]byte{}, it.Value()...)})
	}
	return out
}

// ---- key families -----------------------------------------------------------------------------

var (
	reChanID   = regexp.MustCompile(`^channel-[0-9]+$`)
	reV2Packet = regexp.MustCompile(`(?s)^([a-z0-9-]+-[0-9]+)([\x01\x02\x03])(.{8})$`)
	reAsync    = regexp.MustCompile(`(?s)^([a-z0-9-]+-[0-9]+)async_packet(.{8})$`)
	reAlias    = regexp.MustCompile(`^([a-z0-9-]+-[0-9]+)alias$`)
)

func aliasTag(id string) string {
	if reChanID.MatchString(id) {
		return "v2-alias-"
	}
	return "v2-"
}

// family names the protocol-level meaning of a store key ("" = unknown to this harness).
func family(store string, k []byte) string {
	s := string(k)
	switch store {
	case "ibc":
		switch {
		case strings.HasPrefix(s, "clients/"):
			parts := strings.SplitN(s, "/", 3)
			if len(parts) < 3 {
				return ""
			}
			id, rest := parts[1], parts[2]
			switch {
			case rest == "clientState":
				return "client-state"
			case rest == "connections":
				return "client-connection-paths"
			case rest == "creator":
				return "client-creator"
			case rest == "config":
				return "client-v2-config"
			case rest == "counterparty":
				if reChanID.MatchString(id) {
					return "alias-counterparty"
				}
				return "v2-counterparty"
			case strings.HasPrefix(rest, "consensusStates/") && (strings.HasSuffix(rest, "/processedTime") || strings.HasSuffix(rest, "/processedHeight")):
				return "client-metadata"
			case strings.HasPrefix(rest, "consensusStates/"):
				return "consensus-state"
			case strings.HasPrefix(rest, "iterateConsensusStates"):
				return "client-metadata"
			}
			return ""
		case strings.HasPrefix(s, "connections/"):
			return "connection"
		case strings.HasPrefix(s, "channelEnds/"):
			return "channel"
		case strings.HasPrefix(s, "nextSequenceSend/"):
			return "next-sequence-send"
		case strings.HasPrefix(s, "nextSequenceRecv/"):
			return "next-sequence-recv"
		case strings.HasPrefix(s, "nextSequenceAck/"):
			return "next-sequence-ack"
		case strings.HasPrefix(s, "commitments/"):
			return "v1-commitment"
		case strings.HasPrefix(s, "receipts/"):
			return "v1-receipt"
		case strings.HasPrefix(s, "acks/"):
			return "v1-acknowledgement"
		case s == "nextClientSequence" || s == "nextConnectionSequence" || s == "nextChannelSequence":
			return "next-identifier-sequence"
		case s == "clientParams" || s == "connectionParams":
			return "params"
		}
		if m := reV2Packet.FindStringSubmatch(s); m != nil {
			return aliasTag(m[1]) + map[string]string{"\x01": "commitment", "\x02": "receipt", "\x03": "acknowledgement"}[m[2]]
		}
		if m := reAsync.FindStringSubmatch(s); m != nil {
			return aliasTag(m[1]) + "async-packet"
		}
		if reAlias.MatchString(s) {
			return "alias-client-mapping"
		}
		return ""
	case "transfer":
		switch {
		case len(k) == 1 && k[0] == 0x01:
			return "transfer/port"
		case s == "params":
			return "transfer/params"
		case len(k) > 1 && k[0] == 0x02:
			return "transfer/denom-trace(legacy)"
		case len(k) > 1 && k[0] == 0x03:
			return "transfer/denom"
		case strings.HasPrefix(s, "totalEscrowForDenom"):
			return "transfer/total-escrow"
		}
		return ""
	case ratelimittypes.StoreKey:
		for _, p := range []string{"rate-limit", "pending-send-packet", "pending-receive-packet", "denom-blacklist", "address-blacklist", "hour-epoch"} {
			if strings.HasPrefix(s, p) {
				return "ratelimit/" + p
			}
		}
		if len(k) > 1 && k[0] == 0x00 {
			return "ratelimit/pending-send-packet"
		}
		if len(k) > 1 && k[0] == 0x01 {
			return "ratelimit/pending-receive-packet"
		}
		return ""
	case pfmtypes.StoreKey:
		return "packet-forward/in-flight"
	case "icacontroller", "icahost":
		return store + "/" + headWord(s)
	case gmptypes.StoreKey:
		return "gmp/account"
	}
	return ""
}

// slug turns a (constant) error text into a stable key component.
func slug(s string) string {
	var b strings.Builder
	for _, r := range strings.ToLower(s) {
		switch {
		case r >= 'a' && r <= 'z' || r >= '0' && r <= '9':
			b.WriteRune(r)
		case b.Len() > 0 && !strings.HasSuffix(b.String(), "-"):
			b.WriteByte('-')
		}
		if b.Len() >= 72 {
			break
		}
	}
	return strings.Trim(b.String(), "-")
}

func headWord(s string) string {
	for i, r := range s {
		if !(r >= 'a' && r <= 'z' || r >= 'A' && r <= 'Z' || r == '-' || r == '_') {
			if i == 0 {
				return fmt.Sprintf("prefix-%02x", s[0])
			}
			return s[:i]
		}
	}
	return s
}

// ---- the round trip ---------------------------------------------------------------------------

type roundTripper struct {
	c        *core.C
	mu       sync.Mutex
	famKeys  map[string]int // family -> number of keys compared over all states
	unknown  map[string]bool
	checked  int
	futures  int
	futureOK int
}

func newRoundTripper(c *core.C) *roundTripper {
	return &roundTripper{c: c, famKeys: map[string]int{}, unknown: map[string]bool{}}
}

func (rt *roundTripper) record() {
	rt.mu.Lock()
	defer rt.mu.Unlock()
	rt.c.Set("round_trips", rt.checked)
	rt.c.Set("key_families_compared", rt.famKeys)
	rt.c.Set("differential_futures", rt.futures)
	rt.c.Set("differential_futures_enabled_in_original", rt.futureOK)
}

func (rt *roundTripper) violation(s *gen, w *ksim.World, key, text string) {
	hist := append([]ksim.Op{}, w.Ext.(*ext).Hist...)
	ht := histText(hist)
	if len(ht) > 160 {
		ht = ht[:160] + " ..."
	}
	rt.c.Violation(key, text+" [history: "+ht+"]", map[string]any{"part": s.part, "history": hist, "history_text": histText(hist)})
}

func exportAll(w *ksim.World, chain int) (map[string]json.RawMessage, string) {
	app := w.W.Chains[chain].App
	out := map[string]json.RawMessage{}
	for _, m := range ibcModules {
		mod, ok := app.ModuleManager.Modules[m.Module].(genExporter)
		if !ok {
			panic("module " + m.Module + " has no ExportGenesis")
		}
		if p := core.Catch(func() { out[m.Module] = mod.ExportGenesis(w.CS[chain].Ctx, app.AppCodec()) }); p != "" {
			return nil, m.Module + ": " + p
		}
	}
	return out, ""
}

var chainName = []string{"A", "B"}

// check exports both chains of w, imports into a copy with emptied IBC stores, and compares.
func (rt *roundTripper) check(s *gen, w *ksim.World) {
	imp := w.Fork()
	exports := make([]map[string]json.RawMessage, len(w.CS))
	for ch := range w.CS {
		app := w.W.Chains[ch].App
		cdc := app.AppCodec()
		ex, perr := exportAll(imp, ch)
		if perr != "" {
			rt.violation(s, w, "export-panics/"+strings.SplitN(perr, ":", 2)[0], fmt.Sprintf("ExportGenesis on chain %s panicked: %s", chainName[ch], perr))
			return
		}
		exports[ch] = ex
		// a fresh chain validates the genesis file before starting
		for _, m := range ibcModules {
			if v, ok := app.ModuleManager.Modules[m.Module].(genValidator); ok {
				if err := v.ValidateGenesis(cdc, app.TxConfig(), ex[m.Module]); err != nil {
					rt.violation(s, w, "export-invalid/"+m.Module+"/"+slug(err.Error()), fmt.Sprintf("exported %s genesis of chain %s fails ValidateGenesis: %v", m.Module, chainName[ch], err))
					return
				}
			}
		}
		// empty every IBC-owned store, then initialise from the export
		ctx := imp.CS[ch].Ctx
		for _, m := range ibcModules {
			for _, st := range m.Stores {
				store := ctx.KVStore(app.GetKey(st))
				for _, e := range dumpStore(ctx, imp, ch, st) {
					store.Delete(e.k)
				}
			}
		}
		for _, m := range ibcModules {
			mod := app.ModuleManager.Modules[m.Module]
			p := core.Catch(func() {
				switch t := mod.(type) {
				case genInit:
					t.InitGenesis(ctx, cdc, ex[m.Module])
				case genInitABCI:
					t.InitGenesis(ctx, cdc, ex[m.Module])
				default:
					panic("harness: module has no InitGenesis")
				}
			})
			if p != "" {
				rt.violation(s, w, "import-panics/"+m.Module, fmt.Sprintf("InitGenesis of %s on chain %s panicked on its own export: %s", m.Module, chainName[ch], p))
				return
			}
		}
	}
	// O1a: store-level comparison per key family
	fam := map[string]int{}
	for ch := range w.CS {
		for _, m := range ibcModules {
			for _, st := range m.Stores {
				a, b := dumpStore(w.CS[ch].Ctx, w, ch, st), dumpStore(imp.CS[ch].Ctx, imp, ch, st)
				bm := make(map[string][]byte, len(b))
				for _, e := range b {
					bm[string(e.k)] = e.v
				}
				for _, e := range a {
					f := family(st, e.k)
					if f == "" {
						rt.noteUnknown(st, e.k)
						continue
					}
					fam[f]++
					bv, ok := bm[string(e.k)]
					delete(bm, string(e.k))
					switch {
					case !ok:
						rt.violation(s, w, "not-exported/"+f, fmt.Sprintf("chain %s: key %q (%s) exists before the export but not after the import", chainName[ch], e.k, f))
					case !bytes.Equal(bv, e.v):
						rt.violation(s, w, "value-changed/"+f, fmt.Sprintf("chain %s: key %q (%s) holds %q before the export and %q after the import", chainName[ch], e.k, f, e.v, bv))
					}
				}
				var extra []string
				for k := range bm {
					extra = append(extra, k)
				}
				sort.Strings(extra)
				for _, k := range extra {
					f := family(st, []byte(k))
					if f == "" {
						rt.noteUnknown(st, []byte(k))
						continue
					}
					rt.violation(s, w, "spurious/"+f, fmt.Sprintf("chain %s: key %q (%s) does not exist before the export but exists after the import", chainName[ch], k, f))
				}
			}
		}
	}
	// O1b: re-export equality
	for ch := range w.CS {
		re, perr := exportAll(imp, ch)
		if perr != "" {
			rt.violation(s, w, "re-export-panics/"+strings.SplitN(perr, ":", 2)[0], "ExportGenesis of the imported state panicked: "+perr)
			continue
		}
		for _, m := range ibcModules {
			if !bytes.Equal(re[m.Module], exports[ch][m.Module]) {
				rt.violation(s, w, "re-export-differs/"+m.Module, fmt.Sprintf("chain %s: genesis of %s exported from the imported state differs from the original export", chainName[ch], m.Module))
			}
		}
	}
	// O2: differential futures
	nf, nok := rt.futuresCheck(s, w, imp)
	rt.mu.Lock()
	rt.checked++
	rt.futures += nf
	rt.futureOK += nok
	for f, n := range fam {
		rt.famKeys[f] += n
	}
	rt.mu.Unlock()
}

func (rt *roundTripper) noteUnknown(store string, k []byte) {
	tag := fmt.Sprintf("%s/%q", store, k)
	rt.mu.Lock()
	dup := rt.unknown[tag]
	rt.unknown[tag] = true
	rt.mu.Unlock()
	if !dup {
		rt.c.Broken("store key %s is not classified into a key family by the harness", tag)
	}
}

var futureStores = []string{"ibc", "transfer", "ratelimit", "packetfowardmiddleware", "icacontroller", "icahost", "gmp", "bank"}

type effect struct {
	res  string
	obs  string
	keys string
}

type dumps [2]map[string]string

func dumpBoth(w *ksim.World) dumps {
	return dumps{w.DumpStores(0, futureStores), w.DumpStores(1, futureStores)}
}

func runFuture(s *gen, w *ksim.World, before dumps, kind string, i int) effect {
	f := w.Fork()
	var e effect
	nObs := len(f.Obs)
	r := s.relay(f, kind, i)
	e.res = r.String()
	for _, o := range f.Obs[nObs:] {
		e.obs += fmt.Sprintf("%d|%s|%s|%d|%s;", o.Chain, o.Kind, o.ID, o.Seq, o.Data)
	}
	var sb strings.Builder
	for ch := 0; ch < 2; ch++ {
		after := f.DumpStores(ch, futureStores)
		for _, k := range ksim.DiffStores(before[ch], after) {
			fmt.Fprintf(&sb, "%d:%q=%q;", ch, k, after[k])
		}
	}
	e.keys = sb.String()
	return e
}

// futuresCheck applies every relay of every packet to the original and to the imported state and compares
// result class / error code, application callbacks and the written keys.
func (rt *roundTripper) futuresCheck(s *gen, w, imp *ksim.World) (int, int) {
	e := w.Ext.(*ext)
	n, nok := 0, 0
	if len(e.Pkts) == 0 {
		return 0, 0
	}
	bw, bi := dumpBoth(w), dumpBoth(imp)
	for i, p := range e.Pkts {
		for _, kind := range []string{"recv", "ack", "timeout"} {
			a, b := runFuture(s, w, bw, kind, i), runFuture(s, imp, bi, kind, i)
			n++
			if a.res == "OK" {
				nok++
			}
			// a relay that is rejected in the original state only has to stay rejected (the error code may differ)
			if strings.HasPrefix(a.res, "ERR") && strings.HasPrefix(b.res, "ERR") {
				a.res, b.res = "ERR", "ERR"
			}
			if a != b {
				what := "result"
				switch {
				case a.res != b.res:
				case a.obs != b.obs:
					what = "application callbacks"
				default:
					what = "written keys"
				}
				rt.violation(s, w, "future-differs/"+kind+"/"+routeNames[p.Route],
					fmt.Sprintf("%s of packet %d (%s, %s) differs in %s: original state -> %s obs=%q; imported state -> %s obs=%q", kind, i, routeNames[p.Route], kindNames[p.Kind], what, a.res, a.obs, b.res, b.obs))
			}
		}
	}
	return n, nok
}
