// Package c44 checks C44: exporting a chain's IBC state and starting from that export reproduces all
// protocol-observable IBC state.
//
// A compact two-chain scenario is explored exhaustively (engine K, real handlers). Its root already holds
// clients with several consensus states, open / half-open connections and channels, two aliased UNORDERED
// channels, an ORDERED channel, v2 counterparties, a client with a relayer allow list, rate limits and a
// registered interchain account; the explored operations add v1 / v2 / alias / ICS-20 packets in every stage
// of their life cycle. In EVERY reachable state both chains are exported (module ExportGenesis -> JSON),
// validated, imported (module InitGenesis) into a copy of the state whose IBC module stores were emptied,
// and compared (roundtrip.go).
package c44

import (
	"encoding/binary"
	"encoding/hex"
	"fmt"
	"strings"
	"sync"
	"time"

	sdkmath "cosmossdk.io/math"

	sdk "github.com/cosmos/cosmos-sdk/types"
	authtypes "github.com/cosmos/cosmos-sdk/x/auth/types"
	govtypes "github.com/cosmos/cosmos-sdk/x/gov/types"

	abci "github.com/cometbft/cometbft/abci/types"

	icactltypes "github.com/cosmos/ibc-go/v11/modules/apps/27-interchain-accounts/controller/types"
	icatypes "github.com/cosmos/ibc-go/v11/modules/apps/27-interchain-accounts/types"
	ratelimittypes "github.com/cosmos/ibc-go/v11/modules/apps/rate-limiting/types"
	transfertypes "github.com/cosmos/ibc-go/v11/modules/apps/transfer/types"
	clienttypes "github.com/cosmos/ibc-go/v11/modules/core/02-client/types"
	clientv2types "github.com/cosmos/ibc-go/v11/modules/core/02-client/v2/types"
	connectiontypes "github.com/cosmos/ibc-go/v11/modules/core/03-connection/types"
	channeltypes "github.com/cosmos/ibc-go/v11/modules/core/04-channel/types"
	channeltypesv2 "github.com/cosmos/ibc-go/v11/modules/core/04-channel/v2/types"
	host "github.com/cosmos/ibc-go/v11/modules/core/24-host"
	ibctesting "github.com/cosmos/ibc-go/v11/testing"
	ibcmock "github.com/cosmos/ibc-go/v11/testing/mock"
	mockv2 "github.com/cosmos/ibc-go/v11/testing/mock/v2"

	"verif/harness/core"
	"verif/harness/ksim"
)

func init() { core.Register("C44", "model_checking", run) }

// Routes (all A -> B).
const (
	rV1U = iota // v1 UNORDERED mock channel
	rV1O        // v1 ORDERED mock channel
	rV2A        // v2 packets addressed to the UNORDERED mock channel's id (alias)
	rV2C        // v2 packets between the registered clients
	rT20        // ICS-20 transfer over the v1 transfer channel (rate limited, packet-forward middleware in the stack)
	nRoutes
)

var routeNames = []string{"v1-unordered", "v1-ordered", "v2-alias", "v2-client", "ics20"}

// packet kinds
const (
	kOK    = iota // synchronous success acknowledgement, far timeout
	kAsync        // mock: asynchronous acknowledgement; ics20: forwarded back to A by the packet-forward middleware (acknowledgement deferred)
	kShort        // like kOK but expires one destination block after sending
	nKinds
)

var kindNames = []string{"ok", "async", "short-timeout"}

type pkt struct {
	Route, Kind int
	Seq         uint64
	V1          channeltypes.Packet
	V2          channeltypesv2.Packet
	Ack         []byte // acknowledgement written by the destination ("" = not known yet); for v2 the single app acknowledgement
}

func (p pkt) isV2() bool { return p.Route == rV2A || p.Route == rV2C }

type ext struct {
	Pkts    []pkt
	Commits [2]int
	Hist    []ksim.Op
}

func (e *ext) Clone() ksim.Ext {
	n := &ext{Pkts: append([]pkt{}, e.Pkts...), Commits: e.Commits, Hist: e.Hist[:len(e.Hist):len(e.Hist)]}
	return n
}

func (e *ext) KeyBytes() []byte {
	var out []byte
	for _, p := range e.Pkts {
		out = append(out, byte(p.Route), byte(p.Kind))
		out = binary.BigEndian.AppendUint64(out, p.Seq)
		if p.isV2() {
			out = binary.BigEndian.AppendUint64(out, p.V2.TimeoutTimestamp)
		} else {
			out = binary.BigEndian.AppendUint64(out, p.V1.TimeoutHeight.RevisionHeight)
		}
		out = append(out, p.Ack...)
		out = append(out, 0)
	}
	return append(out, byte(e.Commits[0]), byte(e.Commits[1]))
}

type fixture struct {
	link          *ksim.Link
	chU, chO, chT *ksim.ChanPair
	c2            string // second client on A (allow list, several consensus states, half-open connection)
	userA, userB  string
}

// gen is the scenario.
type gen struct {
	ksim.Base
	c          *core.C
	part       string
	Routes     []int
	Kinds      []int
	MaxSend    int
	MaxCommits int
	SameIDs    bool // both chains call their client of the other chain 07-tendermint-0 (the usual situation on fresh chains)
	mu         sync.Mutex
	fx         fixture
	rt         *roundTripper
}

func (s *gen) Chains() int { return 2 }

func addr(tag string) sdk.AccAddress {
	b := make([]byte, 20)
	copy(b, tag)
	return sdk.AccAddress(b)
}

var authority = authtypes.NewModuleAddress(govtypes.ModuleName).String()

func attr(evs []abci.Event, typ, key string) string {
	for _, e := range evs {
		if e.Type != typ {
			continue
		}
		for _, a := range e.Attributes {
			if a.Key == key {
				return a.Value
			}
		}
	}
	return ""
}

func proofLatest(w *ksim.World, on int, clientID string, of int, key []byte) ([]byte, clienttypes.Height) {
	ph := w.ClientLatest(on, clientID)
	proof, ok := w.ProofAt(of, int64(ph.RevisionHeight), "ibc", key)
	if !ok {
		panic("no committed state for proof")
	}
	return proof, ph
}

func (s *gen) Init(wk *ksim.Worker) *ksim.World {
	wk.InstallMockObservers()
	w := wk.Root()
	w.Ext = &ext{}
	var fx fixture
	// ibctesting runs InitChain with a zero block time, which leaves the rate-limit hour epoch in a degenerate
	// state (number 0, start time 0001-01-01) that the module's BeginBlocker refuses to advance. Install the epoch
	// a chain started at a real wall-clock time would hold one hour in; the next BeginBlocker advances it normally.
	for i := range w.CS {
		// the application's own last header carries an app hash that depends on the worker's random validator keys;
		// the interchain-accounts host derives account addresses from it, so pin it (ksim keeps the header across commits)
		hdr := w.CS[i].Ctx.BlockHeader()
		hdr.AppHash = []byte("verif-c44-deterministic-app-hash!")
		w.CS[i].Ctx = w.CS[i].Ctx.WithBlockHeader(hdr)
		app := w.W.Chains[i].App
		ksim.MustOK("hour epoch", w.Do(i, func(ctx sdk.Context) error {
			return app.RateLimitKeeper.SetHourEpoch(ctx, ratelimittypes.HourEpoch{EpochNumber: 23, Duration: time.Hour,
				EpochStartTime: time.Unix(0, ksim.T0).UTC().Add(-time.Hour), EpochStartHeight: 1})
		}))
	}
	if !s.SameIDs {
		// an unrelated first client on B, so that the two chains' clients of each other carry different identifiers
		// (likewise an unrelated connection and, below, an unrelated channel: connection-0 <-> connection-1, channel-N <-> channel-N+1)
		dummy, r := w.CreateClient(1, 0)
		ksim.MustOK("create unrelated client on B", r)
		ksim.MustOK("unrelated connection on B", w.Tx(1, connectiontypes.NewMsgConnectionOpenInit(dummy, "07-tendermint-9", ksim.Prefix, ibctesting.DefaultOpenInitVersion, 0, ksim.Signer)))
	}
	l := w.SetupClients(0, 1)
	w.SetupConnection(l, 0)
	fx.link = l
	if !s.SameIDs {
		ksim.MustOK("unrelated channel on B", w.Tx(1, channeltypes.NewMsgChannelOpenInit(ibcmock.PortID, ibcmock.Version, channeltypes.UNORDERED, []string{l.ConnB}, ibcmock.PortID, ksim.Signer)))
	}
	fx.chU = w.SetupChannel(l, ibcmock.PortID, ibcmock.PortID, ibcmock.Version, channeltypes.UNORDERED)
	fx.chO = w.SetupChannel(l, ibcmock.PortID, ibcmock.PortID, ibcmock.Version, channeltypes.ORDERED)
	fx.chT = w.SetupChannel(l, transfertypes.PortID, transfertypes.PortID, transfertypes.V1, channeltypes.UNORDERED)
	w.RegisterCounterparties(l)
	if !s.SameIDs && (l.ClientA == l.ClientB || l.ConnA == l.ConnB || fx.chU.ChanA == fx.chU.ChanB || fx.chT.ChanA == fx.chT.ChanB) {
		panic("c44 fixture: identifiers of the two chains are not asymmetric")
	}

	// second client on A: three consensus states, relayer allow list, creator kept, no counterparty
	c2, r := w.CreateClient(0, 1)
	ksim.MustOK("create c2", r)
	fx.c2 = c2
	w.Sync(0, c2, 1)
	w.Sync(0, c2, 1)
	ksim.MustOK("config c2", w.Tx(0, clientv2types.NewMsgUpdateClientConfig(c2, ksim.Signer, clientv2types.NewConfig(ksim.Signer))))

	// half-open connection: INIT on A (over c2), TRYOPEN on B
	r = w.Tx(0, connectiontypes.NewMsgConnectionOpenInit(c2, l.ClientB, ksim.Prefix, ibctesting.DefaultOpenInitVersion, 0, ksim.Signer))
	ksim.MustOK("conn init 2", r)
	conn2 := attr(r.Events, connectiontypes.EventTypeConnectionOpenInit, connectiontypes.AttributeKeyConnectionID)
	w.Sync(1, l.ClientB, 0)
	proof, ph := proofLatest(w, 1, l.ClientB, 0, host.ConnectionKey(conn2))
	ksim.MustOK("conn try 2", w.Tx(1, connectiontypes.NewMsgConnectionOpenTry(l.ClientB, conn2, c2, ksim.Prefix, []*connectiontypes.Version{ibctesting.ConnectionVersion}, 0, proof, ph, ksim.Signer)))

	// half-open channel: INIT on A, TRYOPEN on B (mock port, first connection)
	r = w.Tx(0, channeltypes.NewMsgChannelOpenInit(ibcmock.PortID, ibcmock.Version, channeltypes.UNORDERED, []string{l.ConnA}, ibcmock.PortID, ksim.Signer))
	ksim.MustOK("chan init half", r)
	var ir channeltypes.MsgChannelOpenInitResponse
	if err := ir.Unmarshal(r.Resp); err != nil {
		panic(err)
	}
	w.Sync(1, l.ClientB, 0)
	proof, ph = proofLatest(w, 1, l.ClientB, 0, host.ChannelKey(ibcmock.PortID, ir.ChannelId))
	ksim.MustOK("chan try half", w.Tx(1, channeltypes.NewMsgChannelOpenTry(ibcmock.PortID, ibcmock.Version, channeltypes.UNORDERED, []string{l.ConnB}, ibcmock.PortID, ir.ChannelId, ibcmock.Version, proof, ph, ksim.Signer)))

	// interchain account: controller on A, host on B, complete ORDERED handshake
	s.registerICA(w, l)

	// funded deterministic users (the ibctesting sender account has a random key)
	ua, ub := addr("verif-c44-user-a"), addr("verif-c44-user-b")
	fx.userA, fx.userB = ua.String(), ub.String()
	for i, u := range []sdk.AccAddress{ua, ub} {
		ch := w.W.Chains[i]
		ksim.MustOK("fund", w.Do(i, func(ctx sdk.Context) error {
			return ch.App.BankKeeper.SendCoins(ctx, ch.TC.SenderAccount.GetAddress(), u, sdk.NewCoins(sdk.NewCoin(sdk.DefaultBondDenom, sdkmath.NewInt(1_000_000))))
		}))
	}

	// rate limits on the transfer channel (both chains)
	for i, chID := range []string{fx.chT.ChanA, fx.chT.ChanB} {
		m := ratelimittypes.NewMsgAddRateLimit(sdk.DefaultBondDenom, chID, sdkmath.NewInt(50), sdkmath.NewInt(50), 24)
		m.Signer = authority
		ksim.MustOK("rate limit", w.Tx(i, m))
	}

	w.Sync(1, l.ClientB, 0)
	w.Sync(0, l.ClientA, 1)
	// consensus states at every height up to 48 on both clients: the tendermint iteration keys are binary
	// (big-endian revision and height), and height 47 = 0x2f puts the path separator '/' into a stored key
	// that the client genesis export has to split and re-join
	for w.CS[0].H() <= 48 || w.CS[1].H() <= 48 {
		if w.CS[0].H() <= w.CS[1].H() {
			w.Sync(1, l.ClientB, 0)
		} else {
			w.Sync(0, l.ClientA, 1)
		}
	}
	s.mu.Lock()
	s.fx = fx
	s.mu.Unlock()
	w.Obs = nil
	return w
}

func (s *gen) registerICA(w *ksim.World, l *ksim.Link) {
	r := w.Tx(0, icactltypes.NewMsgRegisterInterchainAccount(l.ConnA, ksim.Signer, "", channeltypes.ORDERED))
	ksim.MustOK("ica register", r)
	var rr icactltypes.MsgRegisterInterchainAccountResponse
	if err := rr.Unmarshal(r.Resp); err != nil {
		panic(err)
	}
	chA, ok := w.W.Chains[0].App.IBCKeeper.ChannelKeeper.GetChannel(w.CS[0].Ctx, rr.PortId, rr.ChannelId)
	if !ok {
		panic("ica channel missing")
	}
	w.Sync(1, l.ClientB, 0)
	proof, ph := proofLatest(w, 1, l.ClientB, 0, host.ChannelKey(rr.PortId, rr.ChannelId))
	r = w.Tx(1, channeltypes.NewMsgChannelOpenTry(icatypes.HostPortID, "", channeltypes.ORDERED, []string{l.ConnB}, rr.PortId, rr.ChannelId, chA.Version, proof, ph, ksim.Signer))
	ksim.MustOK("ica try", r)
	var tr channeltypes.MsgChannelOpenTryResponse
	if err := tr.Unmarshal(r.Resp); err != nil {
		panic(err)
	}
	w.Sync(0, l.ClientA, 1)
	proof, ph = proofLatest(w, 0, l.ClientA, 1, host.ChannelKey(icatypes.HostPortID, tr.ChannelId))
	ksim.MustOK("ica ack", w.Tx(0, channeltypes.NewMsgChannelOpenAck(rr.PortId, rr.ChannelId, tr.ChannelId, tr.Version, proof, ph, ksim.Signer)))
	w.Sync(1, l.ClientB, 0)
	proof, ph = proofLatest(w, 1, l.ClientB, 0, host.ChannelKey(rr.PortId, rr.ChannelId))
	ksim.MustOK("ica confirm", w.Tx(1, channeltypes.NewMsgChannelOpenConfirm(icatypes.HostPortID, tr.ChannelId, proof, ph, ksim.Signer)))
}

func (s *gen) Ops(w *ksim.World) []ksim.Op {
	e := w.Ext.(*ext)
	var ops []ksim.Op
	sent := make([]int, nRoutes)
	for _, p := range e.Pkts {
		sent[p.Route]++
	}
	for _, r := range s.Routes {
		if sent[r] < s.MaxSend {
			for _, k := range s.Kinds {
				ops = append(ops, ksim.Op{K: "send", A: []int{r, k}})
			}
		}
	}
	for ch := 0; ch < 2; ch++ {
		if e.Commits[ch] < s.MaxCommits {
			ops = append(ops, ksim.Op{K: "sync", A: []int{ch}})
		}
	}
	for i, p := range e.Pkts {
		ops = append(ops, ksim.Op{K: "recv", A: []int{i}}, ksim.Op{K: "ack", A: []int{i}}, ksim.Op{K: "timeout", A: []int{i}})
		if p.Kind == kAsync && p.Route != rT20 {
			ops = append(ops, ksim.Op{K: "wack", A: []int{i}})
		}
	}
	return ops
}

var asyncAck = []byte("async-ack")

func (s *gen) clientOn(chain int) string {
	if chain == 0 {
		return s.fx.link.ClientA
	}
	return s.fx.link.ClientB
}

func (s *gen) Apply(w *ksim.World, op ksim.Op) ksim.Result {
	e := w.Ext.(*ext)
	e.Hist = append(e.Hist, op)
	switch op.K {
	case "send":
		return s.send(w, e, op.A[0], op.A[1])
	case "sync":
		ch := op.A[0]
		w.Commit(ch, ksim.BlockStep)
		e.Commits[ch]++
		r := w.UpdateLatest(1-ch, s.clientOn(1-ch), ch)
		if r.Class != ksim.OK {
			return r
		}
		return ksim.Result{Class: ksim.OK}
	case "recv", "ack", "timeout":
		return s.relay(w, op.K, op.A[0])
	case "wack":
		p := e.Pkts[op.A[0]]
		k := w.W.Chains[1].App.IBCKeeper
		var r ksim.Result
		if p.isV2() {
			r = w.Do(1, func(ctx sdk.Context) error {
				return k.ChannelKeeperV2.WriteAcknowledgement(ctx, p.V2.DestinationClient, p.Seq, channeltypesv2.Acknowledgement{AppAcknowledgements: [][]byte{asyncAck}})
			})
			if r.Class == ksim.OK {
				e.Pkts[op.A[0]].Ack = asyncAck
			}
			return r
		}
		ack := channeltypes.NewResultAcknowledgement(asyncAck)
		r = w.Do(1, func(ctx sdk.Context) error { return k.ChannelKeeper.WriteAcknowledgement(ctx, p.V1, ack) })
		if r.Class == ksim.OK {
			e.Pkts[op.A[0]].Ack = ack.Acknowledgement()
		}
		return r
	}
	panic("unknown op " + op.K)
}

func (s *gen) send(w *ksim.World, e *ext, route, kind int) ksim.Result {
	fx := s.fx
	data := ibcmock.MockPacketData
	if kind == kAsync {
		data = ibcmock.MockAsyncPacketData
	}
	switch route {
	case rV2A, rV2C:
		src, dst := fx.link.ClientA, fx.link.ClientB
		if route == rV2A {
			src, dst = fx.chU.ChanA, fx.chU.ChanB
		}
		tsec := uint64(w.CS[0].TimeNs()/1e9) + 3600
		if kind == kShort {
			tsec = uint64((max(w.CS[0].TimeNs(), w.CS[1].TimeNs()) + int64(ksim.BlockStep)) / 1e9)
		}
		pl := mockv2.NewMockPayload(mockv2.PortIDA, mockv2.PortIDB)
		pl.Value = data
		seq, r := w.SendV2(0, src, tsec, ksim.Signer, pl)
		if r.Class == ksim.OK {
			e.Pkts = append(e.Pkts, pkt{Route: route, Kind: kind, Seq: seq, V2: channeltypesv2.NewPacket(seq, src, dst, tsec, pl)})
		}
		return r
	case rV1U, rV1O:
		cp := fx.chU
		if route == rV1O {
			cp = fx.chO
		}
		th := clienttypes.NewHeight(1, 1_000_000)
		if kind == kShort {
			th = w.Height(1, w.CS[1].H()+1)
		}
		seq, r := w.SendV1(0, cp.PortA, cp.ChanA, th, 0, data)
		if r.Class == ksim.OK {
			e.Pkts = append(e.Pkts, pkt{Route: route, Kind: kind, Seq: seq, V1: channeltypes.NewPacket(data, seq, cp.PortA, cp.ChanA, cp.PortB, cp.ChanB, th, 0)})
		}
		return r
	case rT20:
		cp := fx.chT
		th := clienttypes.NewHeight(1, 1_000_000)
		if kind == kShort {
			th = w.Height(1, w.CS[1].H()+1)
		}
		memo := ""
		if kind == kAsync {
			memo = fmt.Sprintf(`{"forward":{"receiver":%q,"port":%q,"channel":%q}}`, fx.userA, cp.PortB, cp.ChanB)
		}
		r := w.Tx(0, transfertypes.NewMsgTransfer(cp.PortA, cp.ChanA, sdk.NewCoin(sdk.DefaultBondDenom, sdkmath.NewInt(1000)), fx.userA, fx.userB, th, 0, memo))
		if r.Class != ksim.OK {
			return r
		}
		var resp transfertypes.MsgTransferResponse
		if err := resp.Unmarshal(r.Resp); err != nil {
			panic(err)
		}
		bz, err := hex.DecodeString(attr(r.Events, channeltypes.EventTypeSendPacket, channeltypes.AttributeKeyDataHex))
		if err != nil || len(bz) == 0 {
			panic("no packet data in send_packet event")
		}
		e.Pkts = append(e.Pkts, pkt{Route: route, Kind: kind, Seq: resp.Sequence, V1: channeltypes.NewPacket(bz, resp.Sequence, cp.PortA, cp.ChanA, cp.PortB, cp.ChanB, th, 0)})
		return r
	}
	panic("unknown route")
}

// relay delivers recv / ack / timeout of packet i with proofs at the latest consensus height of the receiving chain's client.
func (s *gen) relay(w *ksim.World, kind string, i int) ksim.Result {
	e := w.Ext.(*ext)
	p := e.Pkts[i]
	switch kind {
	case "recv":
		ph := w.ClientLatest(1, s.fx.link.ClientB)
		if p.isV2() {
			r := w.RecvV2(1, 0, p.V2, ph)
			if r.Class == ksim.OK && p.Kind != kAsync {
				e.Pkts[i].Ack = mockv2.MockRecvPacketResult.Acknowledgement
			}
			return r
		}
		r := w.RecvV1(1, 0, p.V1, ph)
		if r.Class == ksim.OK {
			if h := attr(r.Events, channeltypes.EventTypeWriteAck, channeltypes.AttributeKeyAckHex); h != "" {
				bz, err := hex.DecodeString(h)
				if err != nil {
					panic(err)
				}
				e.Pkts[i].Ack = bz
			}
		}
		return r
	case "ack":
		ph := w.ClientLatest(0, s.fx.link.ClientA)
		if p.isV2() {
			a := p.Ack
			if len(a) == 0 {
				a = mockv2.MockRecvPacketResult.Acknowledgement
			}
			return w.AckV2(0, 1, p.V2, channeltypesv2.Acknowledgement{AppAcknowledgements: [][]byte{a}}, ph)
		}
		a := p.Ack
		if len(a) == 0 {
			a = ibcmock.MockAcknowledgement.Acknowledgement()
		}
		return w.AckV1(0, 1, p.V1, a, ph)
	case "timeout":
		ph := w.ClientLatest(0, s.fx.link.ClientA)
		if p.isV2() {
			return w.TimeoutV2(0, 1, p.V2, ph)
		}
		order := channeltypes.UNORDERED
		if p.Route == rV1O {
			order = channeltypes.ORDERED
		}
		return w.TimeoutV1(0, 1, p.V1, order, ph)
	}
	panic("unknown relay " + kind)
}

// Invariant: the genesis round trip of both chains in this state.
func (s *gen) Invariant(w *ksim.World) *ksim.Fail {
	s.rt.check(s, w)
	return nil
}

func histText(h []ksim.Op) string {
	p := make([]string, len(h))
	for i, o := range h {
		p[i] = o.String()
	}
	return strings.Join(p, " ; ")
}

func mk(c *core.C, rt *roundTripper, name string, routes []int, kinds []int, maxSend, maxCommits int) *gen {
	return &gen{c: c, part: name, Routes: routes, Kinds: kinds, MaxSend: maxSend, MaxCommits: maxCommits, rt: rt}
}

func run(c *core.C) {
	rt := newRoundTripper(c)
	type pc struct {
		name                        string
		routes, kinds               []int
		maxSend, maxCommits, depthQ int
		depthT                      int
		sameIDs                     bool
	}
	all := []int{kOK, kAsync, kShort}
	var cfg []pc
	if c.Quick() && c.Replay == "" {
		cfg = []pc{
			{"unordered-channel+alias/sync-acks", []int{rV1U, rV2A}, []int{kOK}, 1, 2, 6, 0, false},
			{"ordered-channel+v2-client/sync-acks", []int{rV1O, rV2C}, []int{kOK}, 1, 2, 6, 0, false},
			{"async-acks", []int{rV1U, rV2A, rV2C}, []int{kAsync}, 1, 1, 5, 0, false},
			{"timeouts", []int{rV1O, rV2A, rV2C}, []int{kShort}, 1, 2, 4, 0, false},
			{"ics20+rate-limit+forward", []int{rT20}, all, 2, 2, 5, 0, false},
			{"all-routes-mixed", []int{rV1U, rV1O, rV2A, rV2C, rT20}, []int{kOK}, 1, 1, 3, 0, false},
			{"same-client-ids-on-both-chains", []int{rV2C}, []int{kOK}, 1, 1, 1, 0, true},
		}
	} else {
		cfg = []pc{
			{"unordered-channel+alias", []int{rV1U, rV2A}, all, 1, 2, 0, 7, false},
			{"ordered-channel+v2-client", []int{rV1O, rV2C}, all, 1, 2, 0, 7, false},
			{"async-acks", []int{rV1U, rV2A, rV2C}, []int{kAsync}, 1, 2, 0, 6, false},
			{"timeouts", []int{rV1O, rV2A, rV2C}, []int{kShort}, 2, 2, 0, 5, false},
			{"ics20+rate-limit+forward", []int{rT20}, all, 2, 3, 0, 7, false},
			{"all-routes-mixed", []int{rV1U, rV1O, rV2A, rV2C, rT20}, []int{kOK}, 1, 2, 0, 5, false},
			{"same-client-ids-on-both-chains", []int{rV2C}, []int{kOK}, 1, 1, 0, 3, true},
		}
	}
	var parts []ksim.Part
	for i, p := range cfg {
		sc := mk(c, rt, p.name, p.routes, p.kinds, p.maxSend, p.maxCommits)
		sc.SameIDs = p.sameIDs
		// every part may use up to half of the time that is left (the first one also pays for building the workers);
		// the last one may use all of it
		share := 0.5
		if i == len(cfg)-1 {
			share = 1
		}
		parts = append(parts, ksim.Part{Name: p.name, Sc: sc, Cfg: ksim.Config{MaxDepth: max(p.depthQ, p.depthT)}, Share: share})
	}
	if c.Replay != "" {
		// quick-tier part names replay on an equivalent scenario (op arguments mean the same in both tiers)
		for _, p := range []pc{
			{"unordered-channel+alias/sync-acks", []int{rV1U, rV2A}, all, 2, 3, 0, 0, false},
			{"ordered-channel+v2-client/sync-acks", []int{rV1O, rV2C}, all, 2, 3, 0, 0, false},
		} {
			parts = append(parts, ksim.Part{Name: p.name, Sc: mk(c, rt, p.name, p.routes, p.kinds, p.maxSend, p.maxCommits)})
		}
	}
	if replayRoot(c, parts) {
		return
	}
	ksim.RunParts(c, parts, [][]ksim.Op{
		{{K: "send", A: []int{rV2A, kOK}}, {K: "sync", A: []int{0}}, {K: "recv", A: []int{0}}, {K: "sync", A: []int{1}}, {K: "ack", A: []int{0}}},
		{{K: "send", A: []int{rT20, kAsync}}, {K: "sync", A: []int{0}}, {K: "recv", A: []int{0}}},
	})
	rt.record()
	c.Set("alphabet", "send(route in v1-unordered,v1-ordered,v2-alias,v2-client,ics20; kind in ok,async/forward,short-timeout) | sync(chain) = commit + honest client update on the other chain | recv / ack / timeout(packet) with proofs at the latest consensus height | wack = asynchronous acknowledgement written by the destination application; the genesis round trip of both chains is evaluated in every reachable state")
	c.Assume("the import target is a copy of the explored state in which every store owned by an IBC module (ibc, transfer, ratelimit, packetfowardmiddleware, icacontroller, icahost, gmp) was emptied; bank / auth state stays as it is, i.e. the non-IBC modules are assumed to round-trip")
	c.Assume("export and import go through each module's AppModule.ExportGenesis / ValidateGenesis / InitGenesis with the application's JSON codec, in the application's genesis order; the surrounding whole-app export (ExportAppStateAndValidators, zero-height preparation) is not exercised")
	c.Assume("counterparty consensus, storage commit and validator signing are played by the harness (real IAVL proofs, real signed headers, verified by the unmodified 07-tendermint client)")
	c.Assume("GMP (27-gmp) accounts and 08-wasm state are not produced by this scenario: the gmp store is compared but stays empty; 08-wasm lives in a separate module/app")
}

// replayRoot re-evaluates a violation recorded in a root state (empty history), which ksim.ReplayParts does not evaluate.
func replayRoot(c *core.C, parts []ksim.Part) bool {
	if c.Replay == "" {
		return false
	}
	var art struct {
		Part    string    `json:"part"`
		History []ksim.Op `json:"history"`
	}
	if err := c.LoadReplay(&art); err != nil || len(art.History) > 0 {
		return false
	}
	for _, p := range parts {
		if p.Name == art.Part {
			w := p.Sc.Init(ksim.NewWorker(c.T, p.Sc.Chains()))
			w.Flatten()
			p.Sc.Invariant(w)
			c.Set("states", 1)
			c.Set("transitions", 0)
			c.Set("replayed_history", "[]")
			return true
		}
	}
	return false
}
